import Goyang.Lemmas.LoadOrderDump
import Goyang.Lemmas.LoadOrderLoad
import Goyang.Lemmas.LoadOrderKept
import Goyang.Lemmas.LoadOrderTexts
import Goyang.Lemmas.LoadOrderWitness
import Goyang.Props.C05
import Goyang.Lemmas.LoadOrderPlug
import Goyang.Model.Pipeline
import Goyang.Model.TypesLite
/-
Property C05, load order: the same sources give the same result whatever the order in which they
were loaded.  This file proves the core statement `Props.C05.ProcessLoadOrderIrrelevant` (there
only stated) — with the one hypothesis it needs: no two sources define the same (kind, name,
revision) (`Distinct`; without it the statement is false: `distinct_needed`, and
`process_load_order_unconditional_fails : ¬ Props.C05.ProcessLoadOrderIrrelevant` for the real
pipeline `processFiles` with `plugFull`).

What the quantifier "all module sets x all permutations of the load order" ranges over.  A
*module set* is a collection of sources of which no two define the same header (kind, name,
latest revision): `Modules` holds one module per header and `Modules.add` refuses a second load
of a header (`Props.C13.duplicate_rejected`), so of two sources with one header only the first
ever becomes part of the set — "the same sources" in two orders are then two different module
sets (`distinct_needed`: the dumps differ).  `Distinct` says exactly that the load list is a
module set.  Module names are arbitrary (the former hypothesis `NamesOk`, no `@` in a name, is
gone): after the repair of D61 a load whose name contains `@` is refused in every order and
leaves no trace (`names_rejected`, `refused_loads_leave_no_trace`); such loads are filtered out
on both sides and the simulation below is applied to the rest.  The refusals themselves are
order independent as well (`refused_load_errors_perm`, `load_outcomes_perm`).

For load lists that are not module sets the strongest statement that holds is proved: the
outcome — registry (`registry_determined_by_first_loads`) and canonical dump
(`process_determined_by_first_loads`) — is a function of the FIRST load of every header; hence
it is invariant under every rearrangement that keeps the loads of each header in their relative
order (`process_stable_order_irrelevant`), and `Distinct` is the special case in which every
permutation is such a rearrangement.

Texts (`processFiles`, `Modules.Parse` atomic per text): `process_files_load_order_irrelevant`
(pairwise different modules, arbitrary names) and `process_files_load_order_irrelevant_acceptable`
(texts that are refused on their own — `@` name, one header twice inside the text — may be
present: they are refused wherever they stand; the texts acceptable on their own must define
pairwise different modules).  Texts that are both acceptable alone and SHARE a header (formerly
named here as not proved): which texts are accepted then depends on the order through atomicity —
a text refused for one duplicate header frees its other headers, so the first load of every
header of the flattened statement list does NOT decide (`first_loads_of_statements_do_not_decide_texts`).
The exact statement is proved instead (last section of this file, `Lemmas/LoadOrderTexts.lean`):
`acceptedIn files` = the texts `Modules.Parse` accepts in that order (the fold Go performs; read
off the headers in `accepted_texts_characterised`); `processFiles files = processFiles (acceptedIn
files)` (`process_files_eq_accepted`), the accepted texts being a module set
(`accepted_texts_are_a_module_set`); and two lists of texts with the same accepted texts, as a
multiset, have the same outcome — registry up to load sequence numbers, canonical dump, error
list (`process_files_determined_by_accepted`, `process_determined_by_accepted_texts`).  This
delimits the property at the level of texts: "the same sources" in two load orders give the same
result exactly as far as both orders accept the same texts; every order does when the texts
acceptable alone define pairwise different headers (`accepted_eq_acceptable_of_distinct`,
`accepted_perm_of_distinct`), and for two texts the condition is necessary as well
(`accepted_pair_perm_iff`, `pair_order_irrelevant_iff`: with a shared header `[f, g]` is processed
as `f` alone and `[g, f]` as `g` alone).  With shared headers the accepted set itself depends on
the order: `process_files_order_matters_with_shared_headers` (three texts, `a` in two and `b` in
two of them; `t1, t2, t3` accepts `t1, t3`, `t2, t1, t3` accepts `t2` only; the dumps differ;
kernel-evaluated on `processFiles` with `plugFull`, and replayed on the Go code, which answers
`duplicate module a at t1.yang:1:1 and t2.yang:1:1` and accepts / refuses the same texts).  This
is the documented first-wins behaviour of duplicate loads, not a defect: the property speaks of
the same SOURCES of a module set, and two texts for one (kind, name, revision) are two different
candidate sets.  Nothing about texts remains open; the tie to Go remains by runs.

In the resolver model a loaded module is identified by its load sequence number `Mod.seq`
(tree ids, `nodeMod`, visited sets, caches, pending augments, link sets, the identity dictionary
and the type-resolution stack are keyed by it) and `Registry.mods` is in load order.  Another load
order permutes those numbers.  The proof is a simulation through every stage of the pipeline
(`Lemmas/LoadOrder*.lean`, about 4000 lines, core Lean only — except `LoadOrderWitness.lean`, which
serves the refutation only and reaches one Mathlib module through `Lemmas.Find`):

* `Lemmas.LoadOrder.regRel_of_perm` (on top of C13's registry invariant): two load orders of
  pairwise different modules give registries that hold the same modules under renamed sequence
  numbers, every key of both tables bound to corresponding modules (`RegRel σ r₁ r₂`);
  `Lemmas.LoadOrder.loadAll_kept` / `regRel_of_sameFirsts` (`Lemmas/LoadOrderKept.lean`): a refused
  load leaves the registry as it was, so any load list can be replaced by its accepted loads;
* every registry lookup, `findGrouping`, `toEntry` (with its caches and visited set), `find` /
  `walkParts`, linking, the augment loop, `FixChoice`, the retry rounds and the reporting sweep, deviations commute with
  the renaming `σ` (`toEntry_ren`, `find_ren`, `augmentPhase_rel`, `applyDeviations_ren`,
  `processAll_rel`); the orders in which `Process` walks the tables are sorted orders over distinct
  keys / full names and therefore correspond element by element (`Lemmas/SortUnique`);
* the layers plugged into `processAll` — `Type.resolve` / `resolveTypedefs` (C09 layer) and
  `resolveIdentities` (C11 layer, with the oracle the pipeline uses) — do the same
  (`plugFull_rel`: `resolveTypeF_ren`, `buildDict_ren`, `identityErrsOf_eq`, …);
* the canonical dump mentions no sequence number (`dumpOutcome_ren`).

The theorems are stated for an arbitrary plug that respects the renaming (`PlugRel`) and then
instantiated: `process_load_order_irrelevant` (statement lists, `plugFull`),
`process_files_load_order_irrelevant` (`processFiles` on texts: the statement of
`ProcessLoadOrderIrrelevant`), `process_load_order_irrelevant_resolver` (placeholder type layer).
-/
namespace Goyang.Props.C05Order
open Goyang.Model Goyang.Lemmas.LoadOrder
open Goyang.Lemmas.Registry (NoAt)
open Goyang.Lemmas.Registry renaming hdr → header
open Goyang.Spec.Registry (Header)

/-- Module names are identifiers: no `@` (as in C13).  No longer a hypothesis of any theorem of
this file; kept for the witnesses (`names_rejected`) and for `refused_loads_leave_no_trace`. -/
def NamesOk (loads : List Stmt) : Prop := ∀ s ∈ loads, '@' ∉ s.arg.toList

/-- The loads are a module set: no two have the same header (kind, name, latest revision), nothing
is rejected as a duplicate.  (Of two loads with one header the second is rejected,
`Props.C13.duplicate_rejected`: which text survives depends on the order; for such lists see
`process_determined_by_first_loads`.) -/
def Distinct (loads : List Stmt) : Prop := (loads.map header).Nodup

instance (loads : List Stmt) : Decidable (NamesOk loads) := by unfold NamesOk; infer_instance
instance (loads : List Stmt) : Decidable (Distinct loads) := by unfold Distinct; infer_instance

/-- **Registry level.**  Two registries that hold the same modules under renamed sequence numbers
(`RegRel`: the module lists correspond up to order, every key of `ms.Modules` / `ms.SubModules` is
bound to corresponding modules) are processed to outcomes with the same canonical dump — for any
plugged layers that respect the renaming. -/
theorem processAll_renaming_invariant {σ : Nat → Nat} {r₁ r₂ : Registry} (h : RegRel σ r₁ r₂) (opts : Opts)
    {p₁ p₂ : Plug} (hp : PlugRel σ r₁ r₂ p₁ p₂) :
    dumpOutcome (processAll r₂ opts p₂) = dumpOutcome (processAll r₁ opts p₁) := by
  obtain ⟨h1, h2, h3, h4⟩ := processAll_rel h opts hp
  have e₂ : processAll r₂ opts p₂ =
      { errors := (processAll r₁ opts p₁).errors, forest := Forest.ren σ (processAll r₁ opts p₁).forest, reg := r₂ } := by
    rw [← h1, ← h2]
    cases hh : processAll r₂ opts p₂
    rw [hh] at h3
    simp only at h3 ⊢
    rw [h3]
  have e₁ : processAll r₁ opts p₁ =
      { errors := (processAll r₁ opts p₁).errors, forest := (processAll r₁ opts p₁).forest, reg := r₁ } := by
    cases hh : processAll r₁ opts p₁
    rw [hh] at h4
    simp only at h4 ⊢
    rw [h4]
  rw [e₂, dumpOutcome_ren h, ← e₁]

/-- **Load order does not matter**, for any plugged layers that respect the renaming.  Loading
pairwise different modules (arbitrary names) in two orders and processing gives the same canonical dump: the same
error set, or the same trees node by node.  `plug` builds the plugged layers from the registry
(as `plugFull` does). -/
theorem process_load_order_irrelevant_of_plug {loads₁ loads₂ : List Stmt} (hperm : loads₁.Perm loads₂)
    (hd : Distinct loads₁) (opts : Opts) (plug : Registry → Plug)
    (hplug : ∀ σ, RegRel σ (Registry.loadAll loads₁).1 (Registry.loadAll loads₂).1 →
      PlugRel σ (Registry.loadAll loads₁).1 (Registry.loadAll loads₂).1
        (plug (Registry.loadAll loads₁).1) (plug (Registry.loadAll loads₂).1)) :
    dumpOutcome (processAll (Registry.loadAll loads₁).1 opts (plug (Registry.loadAll loads₁).1)) =
      dumpOutcome (processAll (Registry.loadAll loads₂).1 opts (plug (Registry.loadAll loads₂).1)) := by
  obtain ⟨σ, h⟩ := regRel_of_sameFirsts (sameFirsts_of_perm_nodup hperm hd)
  exact (processAll_renaming_invariant h opts (hplug σ h)).symm

/-- The placeholder layers: a type is its written name, no identity or typedef errors. -/
def plugLite : Registry → Plug :=
  fun _ => { tres := typesLite, identityErrs := fun _ => [], typedefErrs := fun _ => [] }

theorem plugLite_rel (σ : Nat → Nat) (r₁ r₂ : Registry) : PlugRel σ r₁ r₂ (plugLite r₁) (plugLite r₂) where
  tres := fun _ _ _ => rfl
  identityErrs := List.Perm.refl _
  typedefErrs := List.Perm.refl _

/-- **Load order does not matter for the resolver proper** (linking, `ToEntry` with groupings,
uses, submodule merging, rpcs, the augment loop, `FixChoice`, deviations, error collection), with
the placeholder type layer: unconditionally for pairwise different modules. -/
theorem process_load_order_irrelevant_resolver {loads₁ loads₂ : List Stmt} (hperm : loads₁.Perm loads₂)
    (hd : Distinct loads₁) (opts : Opts) :
    dumpOutcome (processAll (Registry.loadAll loads₁).1 opts (plugLite (Registry.loadAll loads₁).1)) =
      dumpOutcome (processAll (Registry.loadAll loads₂).1 opts (plugLite (Registry.loadAll loads₂).1)) :=
  process_load_order_irrelevant_of_plug hperm hd opts plugLite (fun σ _ => plugLite_rel σ _ _)

/-- The layers of the real pipeline (`plugFull`: `Type.resolve` / `resolveTypedefs` of the C09
layer, `resolveIdentities` of the C11 layer with the insertion-order oracle — every map walk of
the repaired code sorts first) respect the renaming. -/
theorem plugFull_respects_renaming {σ : Nat → Nat} {r₁ r₂ : Registry} (h : RegRel σ r₁ r₂) :
    PlugRel σ r₁ r₂ (plugFull r₁) (plugFull r₂) :=
  plugFull_rel h

/-- **Load order does not matter** — the whole pipeline after generic parsing (`Modules.add` of
every load, then `Modules.Process` with type, typedef and identity resolution plugged in).  Two
load orders of pairwise different modules give the same canonical dump: the same error set
(file, line, column, class), or — when there are no errors — the same trees, node by node, with
the same kinds, types, defaults, config / mandatory flags, list attributes, namespaces and
instantiating modules. -/
theorem process_load_order_irrelevant {loads₁ loads₂ : List Stmt} (hperm : loads₁.Perm loads₂)
    (hd : Distinct loads₁) (opts : Opts) :
    dumpOutcome (processAll (Registry.loadAll loads₁).1 opts (plugFull (Registry.loadAll loads₁).1)) =
      dumpOutcome (processAll (Registry.loadAll loads₂).1 opts (plugFull (Registry.loadAll loads₂).1)) :=
  process_load_order_irrelevant_of_plug hperm hd opts plugFull (fun _ h => plugFull_rel h)

/-- The statements of all texts, in load order. -/
def stmtsOf (files : List SrcFile) : List Stmt := files.flatMap (·.stmts)

/-- **The open core statement `Props.C05.ProcessLoadOrderIrrelevant`, with the hypothesis it
needs**: for texts whose modules are pairwise different, the result of `processFiles`
(`Modules.Parse` of every text in order, atomically, then `Modules.Process`) does not depend on
the order of the texts — also not whether the set is inside the model at all.  Names are
arbitrary: a text with a name containing `@` is refused as a whole in every order. -/
theorem process_files_load_order_irrelevant (opts : Opts) {files₁ files₂ : List SrcFile} (hperm : files₁.Perm files₂)
    (hd : Distinct (stmtsOf files₁)) :
    (processFiles opts files₁).toOption.map dumpOutcome = (processFiles opts files₂).toOption.map dumpOutcome := by
  have hps : (stmtsOf files₁).Perm (stmtsOf files₂) := List.Perm.flatMap_right _ hperm
  have hd₂ : Distinct (stmtsOf files₂) := (hps.map header).nodup_iff.mp hd
  apply processFiles_perm_of_dump opts hperm
  -- the texts refused for a name leave no trace, in either order
  have hpf : (files₁.filter goodFile).Perm (files₂.filter goodFile) := hperm.filter _
  have hd' : Distinct (stmtsOf (files₁.filter goodFile)) :=
    List.Nodup.sublist ((sublist_flatMap_filter files₁).map header) hd
  have hd₂' : Distinct (stmtsOf (files₂.filter goodFile)) :=
    List.Nodup.sublist ((sublist_flatMap_filter files₂).map header) hd₂
  rw [loadFiles_filter_good files₁, loadFiles_filter_good files₂,
    loadFiles_eq_loadAll _ (noAt_filter_goodFile files₁) hd', loadFiles_eq_loadAll _ (noAt_filter_goodFile files₂) hd₂']
  exact process_load_order_irrelevant (List.Perm.flatMap_right _ hpf) hd' opts

/-- The text would be accepted by a fresh `Modules`: every name is free of `@` and no two of its
statements have the same header.  (A text that is not is refused wherever it stands.) -/
def AcceptableAlone (f : SrcFile) : Bool := okAlone f

/-- **Texts, the form the correspondence runner checks**: a text that `Modules.Parse` refuses on
its own (a name with `@`, one header twice in the text) is refused in every load order and leaves
no trace; when the texts that are acceptable on their own define pairwise different modules, the
result of `processFiles` does not depend on the order of the texts.  (Only two texts that are
both acceptable alone and define one header make the outcome depend on the order.) -/
theorem process_files_load_order_irrelevant_acceptable (opts : Opts) {files₁ files₂ : List SrcFile}
    (hperm : files₁.Perm files₂) (hd : Distinct (stmtsOf (files₁.filter AcceptableAlone))) :
    (processFiles opts files₁).toOption.map dumpOutcome = (processFiles opts files₂).toOption.map dumpOutcome := by
  have hpf : (files₁.filter okAlone).Perm (files₂.filter okAlone) := hperm.filter _
  have hps : (stmtsOf (files₁.filter okAlone)).Perm (stmtsOf (files₂.filter okAlone)) := List.Perm.flatMap_right _ hpf
  have hd₂ : Distinct (stmtsOf (files₂.filter okAlone)) := (hps.map header).nodup_iff.mp hd
  apply processFiles_perm_of_dump opts hperm
  rw [loadFiles_filter_okAlone files₁, loadFiles_filter_okAlone files₂,
    loadFiles_eq_loadAll _ (noAt_filter_okAlone files₁) hd, loadFiles_eq_loadAll _ (noAt_filter_okAlone files₂) hd₂]
  exact process_load_order_irrelevant hps hd opts

/-- The registry after any list of texts is the registry after the texts that are acceptable on
their own. -/
theorem texts_refused_alone_leave_no_trace (files : List SrcFile) :
    loadFiles files = loadFiles (files.filter AcceptableAlone) :=
  loadFiles_filter_okAlone files

/-! ### several loads with one header: the first one decides

`Distinct` excludes load lists in which two loads carry the same (kind, name, latest revision).
Such a list is not a *set of modules* in the sense of the property: the registry holds one module
per header, `Modules.add` refuses the second load (`Props.C13.duplicate_rejected`), and which text
survives is decided by the order (`distinct_needed`) — first come, first served.  What does hold
for arbitrary load lists is proved here: the outcome is a function of the *first* load of every
header.  A refused load leaves no trace (`refused_loads_leave_no_trace`); two load lists — not
even permutations of each other — with the same first load for every header give the same dump
(`process_determined_by_first_loads`); in particular every permutation that keeps the loads of
each header in their relative order does (`process_stable_order_irrelevant`).  The refusals agree
too: as errors, for every permutation whatever (`refused_load_errors_perm`), and load by load
when the first loads agree (`load_outcomes_perm`). -/

/-- The first load that carries header `h`. -/
def firstLoad (h : Header) (loads : List Stmt) : Option Stmt := loads.find? fun s => header s == h

/-- The two load lists have the same first load for every header (with an `@`-free name: the
other loads are refused anyway). -/
def SameFirstLoads (loads₁ loads₂ : List Stmt) : Prop :=
  ∀ h : Header, '@' ∉ h.name.toList → firstLoad h loads₁ = firstLoad h loads₂

/-- The loads of every header stand in the same relative order in both lists. -/
def StableRearrangement (loads₁ loads₂ : List Stmt) : Prop :=
  ∀ h : Header, loads₁.filter (fun s => header s == h) = loads₂.filter (fun s => header s == h)

theorem sameFirsts_of_sameFirstLoads {loads₁ loads₂ : List Stmt} (h : SameFirstLoads loads₁ loads₂) :
    SameFirsts loads₁ loads₂ := by
  intro x hx
  apply h x
  simpa [Spec.Registry.nameOk] using hx

/-- Pairwise different headers: every permutation has the same first loads. -/
theorem sameFirstLoads_of_distinct {loads₁ loads₂ : List Stmt} (hperm : loads₁.Perm loads₂) (hd : Distinct loads₁) :
    SameFirstLoads loads₁ loads₂ :=
  fun h _ => find?_perm_unique header hperm hd h

/-- A rearrangement that keeps the loads of every header in their relative order has the same
first loads. -/
theorem sameFirstLoads_of_stable {loads₁ loads₂ : List Stmt} (h : StableRearrangement loads₁ loads₂) :
    SameFirstLoads loads₁ loads₂ := by
  intro x _
  unfold firstLoad
  rw [← List.head?_filter, ← List.head?_filter, h x]

/-- The loads `Modules.add` accepts, in load order: of every header with an `@`-free name the
first load that carries it. -/
def acceptedLoads (loads : List Stmt) : List Stmt := kept loads

theorem mem_acceptedLoads (loads : List Stmt) (s : Stmt) :
    s ∈ acceptedLoads loads ↔ '@' ∉ s.arg.toList ∧ firstLoad (header s) loads = some s := by
  unfold acceptedLoads
  rw [mem_kept]
  constructor
  · rintro ⟨hg, hf⟩; exact ⟨Lemmas.Registry.noAt_of_good hg, hf⟩
  · rintro ⟨hg, hf⟩; exact ⟨Lemmas.Registry.good_of_noAt hg, hf⟩

/-- **A refused load leaves no trace**: the registry after any list of loads is the registry
after the accepted loads alone — whose names are `@`-free and whose headers are pairwise
different, so that everything proved under `NamesOk` and `Distinct` applies to it. -/
theorem refused_loads_leave_no_trace (loads : List Stmt) :
    (Registry.loadAll loads).1 = (Registry.loadAll (acceptedLoads loads)).1 ∧
    NamesOk (acceptedLoads loads) ∧ Distinct (acceptedLoads loads) :=
  ⟨loadAll_kept loads, kept_noAt loads, kept_nodup loads⟩

/-- **Registry level: the first load of every header decides.**  Two load lists with the same
first loads give registries that hold the same modules under renamed sequence numbers, every key
of `ms.Modules` / `ms.SubModules` bound to corresponding modules. -/
theorem registry_determined_by_first_loads {loads₁ loads₂ : List Stmt} (h : SameFirstLoads loads₁ loads₂) :
    ∃ σ, RegRel σ (Registry.loadAll loads₁).1 (Registry.loadAll loads₂).1 :=
  regRel_of_sameFirsts (sameFirsts_of_sameFirstLoads h)

/-- The accepted loads are the same set. -/
theorem accepted_loads_perm {loads₁ loads₂ : List Stmt} (h : SameFirstLoads loads₁ loads₂) :
    (acceptedLoads loads₁).Perm (acceptedLoads loads₂) :=
  kept_perm_of_sameFirsts (sameFirsts_of_sameFirstLoads h)

/-- **The whole pipeline: the first load of every header decides**, for any plugged layers that
respect the renaming. -/
theorem process_determined_by_first_loads_of_plug {loads₁ loads₂ : List Stmt} (hf : SameFirstLoads loads₁ loads₂)
    (opts : Opts) (plug : Registry → Plug)
    (hplug : ∀ σ, RegRel σ (Registry.loadAll loads₁).1 (Registry.loadAll loads₂).1 →
      PlugRel σ (Registry.loadAll loads₁).1 (Registry.loadAll loads₂).1
        (plug (Registry.loadAll loads₁).1) (plug (Registry.loadAll loads₂).1)) :
    dumpOutcome (processAll (Registry.loadAll loads₁).1 opts (plug (Registry.loadAll loads₁).1)) =
      dumpOutcome (processAll (Registry.loadAll loads₂).1 opts (plug (Registry.loadAll loads₂).1)) := by
  obtain ⟨σ, h⟩ := registry_determined_by_first_loads hf
  exact (processAll_renaming_invariant h opts (hplug σ h)).symm

/-- **The whole pipeline (`plugFull`): the first load of every header decides.**  Arbitrary load
lists — names with `@`, several texts for one header, the lists need not even be permutations of
each other: when the first load of every header is the same, the canonical dumps are equal. -/
theorem process_determined_by_first_loads {loads₁ loads₂ : List Stmt} (hf : SameFirstLoads loads₁ loads₂)
    (opts : Opts) :
    dumpOutcome (processAll (Registry.loadAll loads₁).1 opts (plugFull (Registry.loadAll loads₁).1)) =
      dumpOutcome (processAll (Registry.loadAll loads₂).1 opts (plugFull (Registry.loadAll loads₂).1)) :=
  process_determined_by_first_loads_of_plug hf opts plugFull (fun _ h => plugFull_rel h)

/-- **Load order does not matter as long as the loads of each header keep their relative
order** — the strongest order independence that holds when several texts define one (kind, name,
revision). -/
theorem process_stable_order_irrelevant {loads₁ loads₂ : List Stmt} (hs : StableRearrangement loads₁ loads₂)
    (opts : Opts) :
    dumpOutcome (processAll (Registry.loadAll loads₁).1 opts (plugFull (Registry.loadAll loads₁).1)) =
      dumpOutcome (processAll (Registry.loadAll loads₂).1 opts (plugFull (Registry.loadAll loads₂).1)) :=
  process_determined_by_first_loads (sameFirstLoads_of_stable hs) opts

/-- **The refusals do not depend on the load order** — no hypothesis at all: the errors
`Modules.add` answers the refused loads with (`bad module name` with kind and name, `duplicate`
with kind and full name) are the same multiset in every order. -/
theorem refused_load_errors_perm {loads₁ loads₂ : List Stmt} (hperm : loads₁.Perm loads₂) :
    ((Registry.loadAll loads₁).2.filterMap id).Perm ((Registry.loadAll loads₂).2.filterMap id) :=
  load_errors_perm hperm

/-- **Load by load**: when the first loads agree (in particular for pairwise different headers,
`sameFirstLoads_of_distinct`), every load has the same outcome — accepted, or refused with the
same error — in both orders. -/
theorem load_outcomes_perm {loads₁ loads₂ : List Stmt} (hperm : loads₁.Perm loads₂) (hf : SameFirstLoads loads₁ loads₂) :
    (loads₁.zip (Registry.loadAll loads₁).2).Perm (loads₂.zip (Registry.loadAll loads₂).2) :=
  Lemmas.LoadOrder.load_outcomes_perm hperm (sameFirsts_of_sameFirstLoads hf)

/-- The outcome of every load, read off the load list: refused for its name, refused as a
duplicate of an earlier `@`-free load with the same header, or accepted. -/
theorem load_outcomes (loads : List Stmt) : (Registry.loadAll loads).2 = outsAfter [] loads :=
  loadAll_outs loads

/-! ### the hypothesis is satisfiable, and it is needed

`exA` includes its submodule `exAs` (which uses a typedef), `exB` imports `exA`, augments its
container and deviates its leaf: linking, submodule merging, type resolution, the augment loop
and deviations all run.  Three load orders. -/

private def st (file kw arg : String) (l : Nat) (subs : List Stmt := []) : Stmt := .mk kw true arg file l 1 subs

def exA : Stmt :=
  st "a.yang" "module" "a" 1 [st "a.yang" "namespace" "urn:a" 2, st "a.yang" "prefix" "a" 3,
    st "a.yang" "include" "as" 4,
    st "a.yang" "container" "c" 5 [st "a.yang" "leaf" "x" 6 [st "a.yang" "type" "string" 7]]]
def exAs : Stmt :=
  st "as.yang" "submodule" "as" 1 [st "as.yang" "belongs-to" "a" 2 [st "as.yang" "prefix" "a" 3],
    st "as.yang" "leaf" "z" 4 [st "as.yang" "type" "t" 5],
    st "as.yang" "typedef" "t" 6 [st "as.yang" "type" "int8" 7]]
def exB : Stmt :=
  st "b.yang" "module" "b" 1 [st "b.yang" "namespace" "urn:b" 2, st "b.yang" "prefix" "b" 3,
    st "b.yang" "import" "a" 4 [st "b.yang" "prefix" "a" 5],
    st "b.yang" "augment" "/a:c" 6 [st "b.yang" "leaf" "y" 7 [st "b.yang" "type" "int8" 8]],
    st "b.yang" "deviation" "/a:c/a:x" 9 [st "b.yang" "deviate" "add" 10 [st "b.yang" "default" "d" 11]]]

example : NamesOk [exA, exAs, exB] := by decide
example : Distinct [exA, exAs, exB] := by decide
theorem exPerm : [exA, exAs, exB].Perm [exB, exAs, exA] :=
  (List.Perm.swap exAs exA [exB]).trans (((List.Perm.swap exB exA []).cons exAs).trans (List.Perm.swap exB exAs [exA]))
/-- the instance of the theorem for these loads -/
example (opts : Opts) :
    dumpOutcome (processAll (Registry.loadAll [exA, exAs, exB]).1 opts (plugFull (Registry.loadAll [exA, exAs, exB]).1)) =
      dumpOutcome (processAll (Registry.loadAll [exB, exAs, exA]).1 opts (plugFull (Registry.loadAll [exB, exAs, exA]).1)) :=
  process_load_order_irrelevant exPerm (by decide) opts
/-- the sequence numbers really are permuted: `a` is module 0 in one order and module 2 in the other -/
example : ((Registry.loadAll [exA, exAs, exB]).1.getModule "a").map (·.seq) = some 0 ∧
    ((Registry.loadAll [exB, exAs, exA]).1.getModule "a").map (·.seq) = some 2 := by decide
/-- processing is not trivial (placeholder type layer, module and submodule only, which the
kernel can evaluate): no errors, two trees, the submodule's leaf merged into the module -/
example : (processAll (Registry.loadAll [exAs, exA]).1 {} (plugLite (Registry.loadAll [exAs, exA]).1)).errors = [] ∧
    (processAll (Registry.loadAll [exAs, exA]).1 {} (plugLite (Registry.loadAll [exAs, exA]).1)).forest.trees.map
      (fun p => (p.1, p.2.dir.map (·.name))) = [(0, ["z"]), (1, ["z", "c"])] := by
  decide +kernel

/-- Two texts for one module name (no revision): the second load is rejected as a duplicate
(`Props.C13.duplicate_rejected`), so which text is processed depends on the order. -/
def dupA : Stmt :=
  st "a1.yang" "module" "a" 1 [st "a1.yang" "namespace" "urn:a" 2, st "a1.yang" "prefix" "a" 3,
    st "a1.yang" "container" "c" 4]
def dupA' : Stmt :=
  st "a2.yang" "module" "a" 1 [st "a2.yang" "namespace" "urn:a" 2, st "a2.yang" "prefix" "a" 3]

/-- **`Distinct` cannot be dropped**: for two different texts of one module the dumps of the two
load orders differ (here: in length).  The unconditional statement
`Props.C05.ProcessLoadOrderIrrelevant` is therefore too strong as written: "the same sources"
must not contain two sources for one (kind, name, revision). -/
theorem distinct_needed :
    NamesOk [dupA, dupA'] ∧ [dupA, dupA'].Perm [dupA', dupA] ∧ ¬ Distinct [dupA, dupA'] ∧
    dumpOutcome (processAll (Registry.loadAll [dupA, dupA']).1 {} (plugLite (Registry.loadAll [dupA, dupA']).1)) ≠
      dumpOutcome (processAll (Registry.loadAll [dupA', dupA]).1 {} (plugLite (Registry.loadAll [dupA', dupA]).1)) := by
  refine ⟨by decide, List.Perm.swap _ _ _, by decide, ?_⟩
  intro h
  have hl := congrArg String.length h
  revert hl
  decide +kernel

/-- the two witness texts are inside the resolver model -/
theorem dup_inside_model : outsideL "" [dupA] = none ∧ outsideL "" [dupA'] = none := by
  have h1 := split_colon_length "module" (by decide)
  have h2 := split_colon_length "namespace" (by decide)
  have h3 := split_colon_length "prefix" (by decide)
  have h4 := split_colon_length "container" (by decide)
  constructor <;> simp [dupA, dupA', st, outsideL, outside, h1, h2, h3, h4]

/-- the two witness modules define no typedef -/
theorem dup_no_typedefs : Types.dictTypedefs ⟨0, dupA⟩ = [] ∧ Types.dictTypedefs ⟨0, dupA'⟩ = [] := by
  constructor <;> simp [dupA, dupA', st, Types.dictTypedefs, Types.collect, Types.collectL, Stmt.all, Stmt.subs, Stmt.kw]

/-- **The unconditional statement `Props.C05.ProcessLoadOrderIrrelevant` is false** — of the
model of the whole pipeline (`processFiles`: `Modules.Parse` text by text, `Modules.Process` with
the full type and identity layers), on the witness of `distinct_needed`: two texts of module `a`.
The text loaded first is the one processed; the dumps of the two orders differ.  (The same
happens in the Go code, by design: `Modules.add` answers the second text with `duplicate
module`.)  The quantifier of the property therefore ranges over module sets (`Distinct`). -/
theorem process_load_order_unconditional_fails : ¬ Props.C05.ProcessLoadOrderIrrelevant := by
  intro h
  have hh := h {} [⟨"a1.yang", [dupA]⟩, ⟨"a2.yang", [dupA']⟩] [⟨"a2.yang", [dupA']⟩, ⟨"a1.yang", [dupA]⟩]
    (List.Perm.swap _ _ _)
  unfold processFiles at hh
  have o1 : List.findSome? (fun f : SrcFile => outsideL "" f.stmts) [⟨"a1.yang", [dupA]⟩, ⟨"a2.yang", [dupA']⟩] = none := by
    simp only [List.findSome?, dup_inside_model.1, dup_inside_model.2]
  have o2 : List.findSome? (fun f : SrcFile => outsideL "" f.stmts) [⟨"a2.yang", [dupA']⟩, ⟨"a1.yang", [dupA]⟩] = none := by
    simp only [List.findSome?, dup_inside_model.1, dup_inside_model.2]
  rw [o1, o2] at hh
  simp only [Except.toOption, Option.map_some, Option.some.injEq] at hh
  have r1 : loadFiles [⟨"a1.yang", [dupA]⟩, ⟨"a2.yang", [dupA']⟩] = (Registry.loadAll [dupA]).1 := by rfl
  have r2 : loadFiles [⟨"a2.yang", [dupA']⟩, ⟨"a1.yang", [dupA]⟩] = (Registry.loadAll [dupA']).1 := by rfl
  have p1 : plugFull (Registry.loadAll [dupA]).1 = plugNoTd (Registry.loadAll [dupA]).1 := by
    apply plugFull_noTypedefs
    intro m hm
    have : (Registry.loadAll [dupA]).1.mods = [⟨0, dupA⟩] := by rfl
    rw [this, List.mem_singleton] at hm
    rw [hm]; exact dup_no_typedefs.1
  have p2 : plugFull (Registry.loadAll [dupA']).1 = plugNoTd (Registry.loadAll [dupA']).1 := by
    apply plugFull_noTypedefs
    intro m hm
    have : (Registry.loadAll [dupA']).1.mods = [⟨0, dupA'⟩] := by rfl
    rw [this, List.mem_singleton] at hm
    rw [hm]; exact dup_no_typedefs.2
  rw [r1, r2, p1, p2] at hh
  have hl := congrArg String.length hh
  revert hl
  decide +kernel

/-- A module whose *name* contains `@` (not a YANG identifier; goyang does not check identifiers)
and a module whose full name `name@revision` is the same string. -/
def atA : Stmt :=
  st "x.yang" "module" "m@2020" 1 [st "x.yang" "namespace" "urn:x" 2, st "x.yang" "prefix" "x" 3,
    st "x.yang" "container" "c" 4]
def atB : Stmt :=
  st "m.yang" "module" "m" 1 [st "m.yang" "namespace" "urn:m" 2, st "m.yang" "prefix" "m" 3,
    st "m.yang" "revision" "2020" 4]

/-- **The ambiguity behind `NamesOk` is gone from the code** (defect D61, repaired: `Modules.add`
refuses a name containing `@`).  Before the repair the key `m@2020` was claimed by both modules
and whichever was loaded first kept it, so the two load orders gave different dumps; now `m@2020`
is refused in both orders, the registries are equal and so are the dumps.  (`NamesOk` is no longer
a hypothesis of the theorems above: this witness is an instance of `process_load_order_irrelevant`,
see the examples below.) -/
theorem names_rejected :
    Distinct [atA, atB] ∧ [atA, atB].Perm [atB, atA] ∧ ¬ NamesOk [atA, atB] ∧
    (Registry.loadAll [atA, atB]).2.map Option.isSome = [true, false] ∧
    (Registry.loadAll [atB, atA]).2.map Option.isSome = [false, true] ∧
    dumpOutcome (processAll (Registry.loadAll [atA, atB]).1 {} (plugLite (Registry.loadAll [atA, atB]).1)) =
      dumpOutcome (processAll (Registry.loadAll [atB, atA]).1 {} (plugLite (Registry.loadAll [atB, atA]).1)) := by
  have hreg : (Registry.loadAll [atA, atB]).1 = (Registry.loadAll [atB, atA]).1 := by rfl
  refine ⟨by decide, List.Perm.swap _ _ _, by decide, by decide, by decide, ?_⟩
  rw [hreg]

/-! ### the theorems without `NamesOk`, and the theorems about several loads of one header, apply -/

/-- an instance of `process_load_order_irrelevant` with a name that contains `@` -/
example (opts : Opts) : ¬ NamesOk [atA, exA, exAs, atB] ∧
    dumpOutcome (processAll (Registry.loadAll [atA, exA, exAs, atB]).1 opts (plugFull (Registry.loadAll [atA, exA, exAs, atB]).1)) =
      dumpOutcome (processAll (Registry.loadAll [atB, exAs, exA, atA]).1 opts (plugFull (Registry.loadAll [atB, exAs, exA, atA]).1)) :=
  ⟨by decide, process_load_order_irrelevant (perm_rev4 _ _ _ _) (by decide) opts⟩

/-- the same for texts: the text with the `@` name holds a second module, which goes with it -/
example (opts : Opts) :
    (processFiles opts [⟨"x.yang", [atA, exB]⟩, ⟨"a.yang", [exA]⟩, ⟨"as.yang", [exAs]⟩]).toOption.map dumpOutcome =
      (processFiles opts [⟨"as.yang", [exAs]⟩, ⟨"a.yang", [exA]⟩, ⟨"x.yang", [atA, exB]⟩]).toOption.map dumpOutcome :=
  process_files_load_order_irrelevant opts (perm_rev3 _ _ _) (by decide)
/-- a text with one header twice (`exB`, `exB`) is refused in every order too: not `Distinct` -/
example (opts : Opts) : ¬ Distinct (stmtsOf [⟨"b.yang", [exB, exB]⟩, ⟨"a.yang", [exA]⟩, ⟨"as.yang", [exAs]⟩]) ∧
    (processFiles opts [⟨"b.yang", [exB, exB]⟩, ⟨"a.yang", [exA]⟩, ⟨"as.yang", [exAs]⟩]).toOption.map dumpOutcome =
      (processFiles opts [⟨"as.yang", [exAs]⟩, ⟨"a.yang", [exA]⟩, ⟨"b.yang", [exB, exB]⟩]).toOption.map dumpOutcome :=
  ⟨by decide, process_files_load_order_irrelevant_acceptable opts (perm_rev3 _ _ _) (by decide)⟩
example : (loadFiles [⟨"x.yang", [atA, exB]⟩, ⟨"a.yang", [exA]⟩, ⟨"as.yang", [exAs]⟩]).mods.map (·.stmt.arg) = ["a", "as"] := by
  decide

/-- Two load lists with two texts of module `a` (`dupA` first in both), a refused `@` name and
another module: not `Distinct`, not `NamesOk`, but the loads of every header keep their order. -/
def dupL₁ : List Stmt := [dupA, atA, exB, dupA']
def dupL₂ : List Stmt := [exB, dupA, dupA', atA]

theorem dupL_stable : StableRearrangement dupL₁ dupL₂ := by
  intro h
  have eA : header dupA = ⟨false, "a", ""⟩ := by decide
  have eA' : header dupA' = ⟨false, "a", ""⟩ := by decide
  have eB : header exB = ⟨false, "b", ""⟩ := by decide
  have eX : header atA = ⟨false, "m@2020", ""⟩ := by decide
  simp only [dupL₁, dupL₂, List.filter_cons, List.filter_nil, eA, eA', eB, eX]
  by_cases h1 : (⟨false, "a", ""⟩ : Header) = h
  · subst h1; simp
  · by_cases h2 : (⟨false, "b", ""⟩ : Header) = h
    · subst h2; simp
    · by_cases h3 : (⟨false, "m@2020", ""⟩ : Header) = h
      · subst h3; simp
      · simp [h1, h2, h3]

example : ¬ Distinct dupL₁ ∧ ¬ NamesOk dupL₁ ∧ dupL₁.Perm dupL₂ ∧ SameFirstLoads dupL₁ dupL₂ := by
  refine ⟨by decide, by decide, ?_, sameFirstLoads_of_stable dupL_stable⟩
  -- [dupA, atA, exB, dupA'] ~ [exB, dupA, dupA', atA]
  exact ((List.Perm.swap exB atA [dupA']).cons dupA).trans
    ((List.Perm.swap exB dupA (atA :: [dupA'])).trans (((List.Perm.swap dupA' atA []).cons dupA).cons exB))
/-- the instance of `process_stable_order_irrelevant` -/
example (opts : Opts) :
    dumpOutcome (processAll (Registry.loadAll dupL₁).1 opts (plugFull (Registry.loadAll dupL₁).1)) =
      dumpOutcome (processAll (Registry.loadAll dupL₂).1 opts (plugFull (Registry.loadAll dupL₂).1)) :=
  process_stable_order_irrelevant dupL_stable opts
/-- what is accepted and what is refused, in the two orders -/
example : (Registry.loadAll dupL₁).2.map Lemmas.Registry.toOutcome = [.ok, .badName, .ok, .dup] ∧
    (Registry.loadAll dupL₂).2.map Lemmas.Registry.toOutcome = [.ok, .ok, .dup, .badName] ∧
    (acceptedLoads dupL₁).map (·.file) = ["a1.yang", "b.yang"] ∧ (acceptedLoads dupL₂).map (·.file) = ["b.yang", "a1.yang"] := by
  decide
/-- the first loads are not the same when the two texts of `a` change places -/
example : ¬ SameFirstLoads [dupA, dupA'] [dupA', dupA] := by
  intro h
  have := h ⟨false, "a", ""⟩ (by decide)
  have e : (firstLoad ⟨false, "a", ""⟩ [dupA, dupA']).map (·.file) = (firstLoad ⟨false, "a", ""⟩ [dupA', dupA]).map (·.file) := by
    rw [this]
  revert e
  decide

/-! ### texts that share headers: the accepted texts decide

`Modules.Parse` is atomic per text.  When two texts that are both acceptable on their own define
one header, the later one is refused as a whole — and its OTHER headers stay free for later
texts.  Which texts are accepted is therefore decided by the order (first come, first served, the
documented behaviour of a duplicate load: `duplicate module a at … and …`), and not by the first
load of every header of the flattened statement list: a header's first carrier may sit in a
refused text (`first_loads_of_statements_do_not_decide_texts`).  What holds, exactly:
`processFiles` of a list of texts is `processFiles` of the texts accepted in that order
(`process_files_eq_accepted`; `acceptedIn` is the fold Go performs, `accepted_texts_characterised`
reads it off the headers), the accepted texts are a module set (`accepted_texts_are_a_module_set`),
and two lists with the same accepted texts — as a multiset — have the same outcome: registry up
to the load sequence numbers, canonical dump, error list (`process_files_determined_by_accepted`).
Load-order independence of a given list of texts thus holds exactly as far as its orders accept
the same texts; they all do when the texts acceptable alone define pairwise different headers
(`accepted_eq_acceptable_of_distinct`: then `process_files_load_order_irrelevant_acceptable` is
the special case), and with shared headers they need not
(`process_files_order_matters_with_shared_headers`, replayed on the Go code). -/

/-- The texts `Modules.Parse` accepts, in load order, when the texts are parsed one after the
other into a fresh `Modules` — defined by the fold `loadFiles` performs: a text is accepted when
`Registry.addText` (every statement added in turn, all or nothing) succeeds on the registry built
from the texts accepted before it. -/
def acceptedIn (files : List SrcFile) : List SrcFile := Lemmas.LoadOrder.acceptedIn files

/-- The same list read off the headers alone (`before` = the headers of the texts accepted so
far): a text is accepted when it is acceptable on its own and none of its headers is held. -/
def acceptedGiven (before : List Header) : List SrcFile → List SrcFile
  | [] => []
  | f :: rest =>
    if AcceptableAlone f && f.stmts.all (fun s => !before.contains (header s)) then
      f :: acceptedGiven (before ++ f.stmts.map header) rest
    else acceptedGiven before rest

/-- **Which texts are accepted**: a text is accepted exactly when it is acceptable on its own
(`@`-free names, no header twice) and none of its headers is defined by a text accepted before it;
the accepted texts are a sublist of the texts, and accepting them again accepts them all. -/
theorem accepted_texts_characterised (files : List SrcFile) :
    acceptedIn files = acceptedGiven [] files ∧ (acceptedIn files).Sublist files ∧
    acceptedIn (acceptedIn files) = acceptedIn files := by
  refine ⟨?_, acceptedIn_sublist files, acceptedIn_idem files⟩
  unfold acceptedIn
  rw [acceptedIn_eq]
  generalize ([] : List Header) = before
  induction files generalizing before with
  | nil => rfl
  | cons f rest ih =>
    simp only [acceptedAfter, acceptedGiven, AcceptableAlone, freshFor, ih]
    rfl

/-- **The accepted texts are a module set**: their statements have `@`-free names and pairwise
different headers, and the registry after ALL the texts is the registry `Modules.add` builds from
these statements one by one. -/
theorem accepted_texts_are_a_module_set (files : List SrcFile) :
    NamesOk (stmtsOf (acceptedIn files)) ∧ Distinct (stmtsOf (acceptedIn files)) ∧
    loadFiles files = (Registry.loadAll (stmtsOf (acceptedIn files))).1 :=
  ⟨acceptedIn_noAt files, acceptedIn_nodup files, loadFiles_accepted files⟩

/-- None of the texts is outside the resolver model (`processFiles` answers `.ok`). -/
def InsideModel (files : List SrcFile) : Prop := (files.findSome? fun f => outsideL "" f.stmts) = none

/-- **`processFiles` of a list of texts is `processFiles` of the texts accepted in that order**:
a refused text leaves no trace in the registry, so registry and outcome are those of the accepted
sublist.  (`InsideModel`: the refused texts are inspected by the model's applicability test too.) -/
theorem process_files_eq_accepted (opts : Opts) (files : List SrcFile) :
    loadFiles files = loadFiles (acceptedIn files) ∧
    (InsideModel files → processFiles opts files = processFiles opts (acceptedIn files)) := by
  refine ⟨loadFiles_acceptedIn files, fun hin => ?_⟩
  have hin' : ((acceptedIn files).findSome? fun f => outsideL "" f.stmts) = none :=
    findSome?_none_sublist (acceptedIn_sublist files) hin
  unfold processFiles
  unfold InsideModel at hin
  rw [hin, hin']
  have e : loadFiles (acceptedIn files) = loadFiles files := (loadFiles_acceptedIn files).symm
  rw [e]

/-- **The accepted texts decide the outcome** — lists of texts, not necessarily permutations of
each other, arbitrary shared headers: when the same texts are accepted (as a multiset), the
registries hold the same modules under renamed load sequence numbers, the canonical dumps are
equal and so are the error lists. -/
theorem process_determined_by_accepted_texts (opts : Opts) {files₁ files₂ : List SrcFile}
    (hacc : (acceptedIn files₁).Perm (acceptedIn files₂)) :
    (∃ σ, RegRel σ (loadFiles files₁) (loadFiles files₂)) ∧
    dumpOutcome (processAll (loadFiles files₁) opts (plugFull (loadFiles files₁))) =
      dumpOutcome (processAll (loadFiles files₂) opts (plugFull (loadFiles files₂))) ∧
    (processAll (loadFiles files₁) opts (plugFull (loadFiles files₁))).errors =
      (processAll (loadFiles files₂) opts (plugFull (loadFiles files₂))).errors := by
  obtain ⟨σ, h⟩ := regRel_of_accepted_perm hacc
  exact ⟨⟨σ, h⟩, (processAll_renaming_invariant h opts (plugFull_rel h)).symm,
    (processAll_rel h opts (plugFull_rel h)).1.symm⟩

/-- **Two load orders of one list of texts that accept the same texts have the same result** — the
statement of `Props.C05.ProcessLoadOrderIrrelevant` with the hypothesis that delimits it exactly
at the level of texts: the result of `processFiles` (inside the model or not; canonical dump), the
registry up to load sequence numbers and the error list agree.  The texts may share headers and
contain texts refused on their own. -/
theorem process_files_determined_by_accepted (opts : Opts) {files₁ files₂ : List SrcFile}
    (hperm : files₁.Perm files₂) (hacc : (acceptedIn files₁).Perm (acceptedIn files₂)) :
    (processFiles opts files₁).toOption.map dumpOutcome = (processFiles opts files₂).toOption.map dumpOutcome ∧
    (∃ σ, RegRel σ (loadFiles files₁) (loadFiles files₂)) ∧
    (processAll (loadFiles files₁) opts (plugFull (loadFiles files₁))).errors =
      (processAll (loadFiles files₂) opts (plugFull (loadFiles files₂))).errors := by
  obtain ⟨h1, h2, h3⟩ := process_determined_by_accepted_texts opts hacc
  exact ⟨processFiles_perm_of_dump opts hperm h2, h1, h3⟩

/-- **When the texts acceptable on their own define pairwise different headers, every load order
accepts exactly these texts** — so the hypothesis of `process_files_determined_by_accepted` holds
for all permutations, and `process_files_load_order_irrelevant_acceptable` is its special case. -/
theorem accepted_eq_acceptable_of_distinct {files : List SrcFile}
    (hd : Distinct (stmtsOf (files.filter AcceptableAlone))) : acceptedIn files = files.filter AcceptableAlone :=
  acceptedIn_eq_filter hd

theorem accepted_perm_of_distinct {files₁ files₂ : List SrcFile} (hperm : files₁.Perm files₂)
    (hd : Distinct (stmtsOf (files₁.filter AcceptableAlone))) : (acceptedIn files₁).Perm (acceptedIn files₂) := by
  have hpf : (files₁.filter AcceptableAlone).Perm (files₂.filter AcceptableAlone) := hperm.filter _
  have hd₂ : Distinct (stmtsOf (files₂.filter AcceptableAlone)) :=
    ((List.Perm.flatMap_right _ hpf).map header).nodup_iff.mp hd
  rw [accepted_eq_acceptable_of_distinct hd, accepted_eq_acceptable_of_distinct hd₂]
  exact hpf

/-! #### two texts: the exact condition -/

/-- The two texts define no common header. -/
def NoSharedHeader (f g : SrcFile) : Prop := ∀ s ∈ f.stmts, ∀ t ∈ g.stmts, header s ≠ header t

theorem accepted_pair {f g : SrcFile} (hf : AcceptableAlone f = true) (hg : AcceptableAlone g = true) :
    (NoSharedHeader f g → acceptedIn [f, g] = [f, g]) ∧ (¬ NoSharedHeader f g → acceptedIn [f, g] = [f]) := by
  have hc : (g.stmts.all fun s => !(f.stmts.map header).contains (header s)) = true ↔ NoSharedHeader f g := by
    unfold NoSharedHeader
    rw [List.all_eq_true]
    constructor
    · intro h s hs t ht e
      have := h t ht
      simp only [Bool.not_eq_true', List.contains_eq_mem, decide_eq_false_iff_not, List.mem_map, not_exists, not_and] at this
      exact this s hs e
    · intro h t ht
      simp only [Bool.not_eq_true', List.contains_eq_mem, decide_eq_false_iff_not, List.mem_map, not_exists, not_and]
      intro s hs e
      exact h s hs t ht e
  rw [(accepted_texts_characterised _).1]
  simp only [acceptedGiven, hf, hg, Bool.true_and, List.contains_nil, Bool.not_false, List.all_eq_true, implies_true,
    if_true, List.nil_append]
  constructor
  · intro h; rw [if_pos (by simpa [List.all_eq_true] using hc.mpr h)]
  · intro h; rw [if_neg (by intro h'; exact h (hc.mp (by simpa [List.all_eq_true] using h')))]

/-- **Two texts, both acceptable alone**: the two load orders accept the same texts exactly when the
texts share no header (or are the same text). -/
theorem accepted_pair_perm_iff {f g : SrcFile} (hf : AcceptableAlone f = true) (hg : AcceptableAlone g = true) :
    (acceptedIn [f, g]).Perm (acceptedIn [g, f]) ↔ (f = g ∨ NoSharedHeader f g) := by
  have hsym : NoSharedHeader g f ↔ NoSharedHeader f g :=
    ⟨fun h s hs t ht e => h t ht s hs e.symm, fun h s hs t ht e => h t ht s hs e.symm⟩
  by_cases hP : NoSharedHeader f g
  · rw [(accepted_pair hf hg).1 hP, (accepted_pair hg hf).1 (hsym.mpr hP)]
    exact ⟨fun _ => .inr hP, fun _ => List.Perm.swap _ _ _⟩
  · rw [(accepted_pair hf hg).2 hP, (accepted_pair hg hf).2 (fun h => hP (hsym.mp h))]
    rw [List.perm_singleton, List.singleton_inj]
    exact ⟨fun h => .inl h, fun h => h.elim id (fun h => absurd h hP)⟩

instance (f g : SrcFile) : Decidable (NoSharedHeader f g) := by unfold NoSharedHeader; infer_instance

/-- **Two texts, both acceptable alone — when exactly the load order does not matter.**  With a
shared header the second text is refused as a whole: `[f, g]` is processed as `f` alone and
`[g, f]` as `g` alone.  Hence the dumps of the two orders agree if and only if the texts share no
header or each text alone is processed to the same dump (the converse of
`process_files_determined_by_accepted` for two texts: nothing but an accident of the two texts
makes the orders agree when the accepted texts differ). -/
theorem pair_order_irrelevant_iff (opts : Opts) {f g : SrcFile} (hf : AcceptableAlone f = true)
    (hg : AcceptableAlone g = true) :
    (¬ NoSharedHeader f g → loadFiles [f, g] = loadFiles [f] ∧ loadFiles [g, f] = loadFiles [g]) ∧
    (dumpOutcome (processAll (loadFiles [f, g]) opts (plugFull (loadFiles [f, g]))) =
        dumpOutcome (processAll (loadFiles [g, f]) opts (plugFull (loadFiles [g, f]))) ↔
      NoSharedHeader f g ∨
      dumpOutcome (processAll (loadFiles [f]) opts (plugFull (loadFiles [f]))) =
        dumpOutcome (processAll (loadFiles [g]) opts (plugFull (loadFiles [g])))) := by
  have hsym : NoSharedHeader g f → NoSharedHeader f g := fun h s hs t ht e => h t ht s hs e.symm
  have hsh : ¬ NoSharedHeader f g → loadFiles [f, g] = loadFiles [f] ∧ loadFiles [g, f] = loadFiles [g] := by
    intro hP
    have e1 := loadFiles_acceptedIn [f, g]
    have e2 := loadFiles_acceptedIn [g, f]
    have a1 : Lemmas.LoadOrder.acceptedIn [f, g] = [f] := (accepted_pair hf hg).2 hP
    have a2 : Lemmas.LoadOrder.acceptedIn [g, f] = [g] := (accepted_pair hg hf).2 (fun h => hP (hsym h))
    rw [a1] at e1
    rw [a2] at e2
    exact ⟨e1, e2⟩
  refine ⟨hsh, ?_⟩
  by_cases hP : NoSharedHeader f g
  · exact ⟨fun _ => .inl hP, fun _ =>
      (process_determined_by_accepted_texts opts ((accepted_pair_perm_iff hf hg).mpr (.inr hP))).2.1⟩
  · obtain ⟨e1, e2⟩ := hsh hP
    rw [e1, e2]
    exact ⟨fun h => .inr h, fun h => h.elim (fun h => absurd h hP) id⟩

/-! #### the witness: three texts, `a` in two of them, `b` in two of them

`wT1` = module `a` (with a container), `wT2` = module `a` and module `b` (with a container) in one
text, `wT3` = module `b`.  Each is acceptable alone.  Loaded `wT1, wT2, wT3`: `wT2` is refused for
`a`, which frees `b` for `wT3` — accepted `wT1, wT3`.  Loaded `wT2, wT1, wT3`: only `wT2` is
accepted.  The real code does the same (replayed: `duplicate module a at t1.yang:1:1 and
t2.yang:1:1`, then `t3.yang` accepted; in the other order both `t1.yang` and `t3.yang` refused). -/

def wA1 : Stmt :=
  st "t1.yang" "module" "a" 1 [st "t1.yang" "namespace" "urn:a" 1, st "t1.yang" "prefix" "a" 1,
    st "t1.yang" "container" "c" 1]
def wA2 : Stmt :=
  st "t2.yang" "module" "a" 1 [st "t2.yang" "namespace" "urn:a" 1, st "t2.yang" "prefix" "a" 1]
def wB2 : Stmt :=
  st "t2.yang" "module" "b" 2 [st "t2.yang" "namespace" "urn:b" 2, st "t2.yang" "prefix" "b" 2,
    st "t2.yang" "container" "dd" 2]
def wB3 : Stmt :=
  st "t3.yang" "module" "b" 1 [st "t3.yang" "namespace" "urn:b" 1, st "t3.yang" "prefix" "b" 1]
def wT1 : SrcFile := ⟨"t1.yang", [wA1]⟩
def wT2 : SrcFile := ⟨"t2.yang", [wA2, wB2]⟩
def wT3 : SrcFile := ⟨"t3.yang", [wB3]⟩

theorem w_inside_model : outsideL "" [wA1] = none ∧ outsideL "" [wA2, wB2] = none ∧ outsideL "" [wB3] = none := by
  have h1 := split_colon_length "module" (by decide)
  have h2 := split_colon_length "namespace" (by decide)
  have h3 := split_colon_length "prefix" (by decide)
  have h4 := split_colon_length "container" (by decide)
  refine ⟨?_, ?_, ?_⟩ <;> simp [wA1, wA2, wB2, wB3, st, outsideL, outside, h1, h2, h3, h4]

theorem w_no_typedefs (n : Nat) : Types.dictTypedefs ⟨n, wA1⟩ = [] ∧ Types.dictTypedefs ⟨n, wA2⟩ = [] ∧
    Types.dictTypedefs ⟨n, wB2⟩ = [] ∧ Types.dictTypedefs ⟨n, wB3⟩ = [] := by
  refine ⟨?_, ?_, ?_, ?_⟩ <;>
    simp [wA1, wA2, wB2, wB3, st, Types.dictTypedefs, Types.collect, Types.collectL, Stmt.all, Stmt.subs, Stmt.kw]

/-- which texts are accepted in four of the six orders -/
theorem w_accepted :
    (acceptedIn [wT1, wT2, wT3]).map (·.name) = ["t1.yang", "t3.yang"] ∧
    (acceptedIn [wT2, wT1, wT3]).map (·.name) = ["t2.yang"] ∧
    (acceptedIn [wT3, wT2, wT1]).map (·.name) = ["t3.yang", "t1.yang"] ∧
    (acceptedIn [wT1, wT3, wT2]).map (·.name) = ["t1.yang", "t3.yang"] := by
  simp only [(accepted_texts_characterised _).1]
  decide

/-- **With shared headers the load order matters** (by design: first come, first served).  Three
texts, each acceptable on its own and inside the model, `a` defined by two of them and `b` by two
of them; two orders of the same three texts accept different texts (`t1, t3` against `t2` alone)
and the canonical dumps of the real pipeline (`processFiles`, `plugFull`) differ. -/
theorem process_files_order_matters_with_shared_headers :
    [wT1, wT2, wT3].Perm [wT2, wT1, wT3] ∧
    (∀ f ∈ [wT1, wT2, wT3], AcceptableAlone f = true) ∧ InsideModel [wT1, wT2, wT3] ∧
    (acceptedIn [wT1, wT2, wT3]).map (·.name) = ["t1.yang", "t3.yang"] ∧
    (acceptedIn [wT2, wT1, wT3]).map (·.name) = ["t2.yang"] ∧
    (processFiles {} [wT1, wT2, wT3]).toOption.map dumpOutcome ≠
      (processFiles {} [wT2, wT1, wT3]).toOption.map dumpOutcome := by
  have o1 : List.findSome? (fun f : SrcFile => outsideL "" f.stmts) [wT1, wT2, wT3] = none := by
    simp only [List.findSome?, wT1, wT2, wT3, w_inside_model.1, w_inside_model.2.1, w_inside_model.2.2]
  have o2 : List.findSome? (fun f : SrcFile => outsideL "" f.stmts) [wT2, wT1, wT3] = none := by
    simp only [List.findSome?, wT1, wT2, wT3, w_inside_model.1, w_inside_model.2.1, w_inside_model.2.2]
  refine ⟨List.Perm.swap _ _ _, by decide, o1, w_accepted.1, w_accepted.2.1, ?_⟩
  intro hh
  unfold processFiles at hh
  rw [o1, o2] at hh
  simp only [Except.toOption, Option.map_some, Option.some.injEq] at hh
  have r1 : loadFiles [wT1, wT2, wT3] = (Registry.loadAll [wA1, wB3]).1 := by rfl
  have r2 : loadFiles [wT2, wT1, wT3] = (Registry.loadAll [wA2, wB2]).1 := by rfl
  have p1 : plugFull (Registry.loadAll [wA1, wB3]).1 = plugNoTd (Registry.loadAll [wA1, wB3]).1 := by
    apply plugFull_noTypedefs
    intro m hm
    have : (Registry.loadAll [wA1, wB3]).1.mods = [⟨0, wA1⟩, ⟨1, wB3⟩] := by rfl
    rw [this] at hm
    simp only [List.mem_cons, List.not_mem_nil, or_false] at hm
    rcases hm with rfl | rfl
    · exact (w_no_typedefs 0).1
    · exact (w_no_typedefs 1).2.2.2
  have p2 : plugFull (Registry.loadAll [wA2, wB2]).1 = plugNoTd (Registry.loadAll [wA2, wB2]).1 := by
    apply plugFull_noTypedefs
    intro m hm
    have : (Registry.loadAll [wA2, wB2]).1.mods = [⟨0, wA2⟩, ⟨1, wB2⟩] := by rfl
    rw [this] at hm
    simp only [List.mem_cons, List.not_mem_nil, or_false] at hm
    rcases hm with rfl | rfl
    · exact (w_no_typedefs 0).2.1
    · exact (w_no_typedefs 1).2.2.1
  rw [r1, r2, p1, p2] at hh
  have hl := congrArg String.length hh
  revert hl
  decide +kernel

/-- **The first load of every header of the flattened statement list does not decide texts**: in
the order `t1, t2, t3` the first statement that carries `b` is the one of `t2`, but `t2` is
refused as a whole and the `b` of `t3` is loaded — the registry after the texts is not the
registry after their statements one by one.  (This is why `process_determined_by_first_loads`
does not lift to texts that hold several modules; `process_files_determined_by_accepted` is the
statement that does.) -/
theorem first_loads_of_statements_do_not_decide_texts :
    (acceptedLoads (stmtsOf [wT1, wT2, wT3])).map (fun s => (s.file, s.arg)) = [("t1.yang", "a"), ("t2.yang", "b")] ∧
    (stmtsOf (acceptedIn [wT1, wT2, wT3])).map (fun s => (s.file, s.arg)) = [("t1.yang", "a"), ("t3.yang", "b")] := by
  refine ⟨by decide, ?_⟩
  simp only [(accepted_texts_characterised _).1]
  decide

/-- Two orders that accept the same texts: `t1, t2, t3` and `t3, t2, t1` (and `t1, t3, t2`) — an
instance of `process_files_determined_by_accepted` with shared headers, where neither `Distinct`
nor `SameFirstLoads` of the statement lists holds. -/
theorem w_same_accepted : (acceptedIn [wT1, wT2, wT3]).Perm (acceptedIn [wT3, wT2, wT1]) := by
  have e1 : acceptedIn [wT1, wT2, wT3] = [wT1, wT3] := by
    rw [(accepted_texts_characterised _).1]
    simp only [acceptedGiven]
    rw [if_pos (by decide), if_neg (by decide), if_pos (by decide)]
  have e2 : acceptedIn [wT3, wT2, wT1] = [wT3, wT1] := by
    rw [(accepted_texts_characterised _).1]
    simp only [acceptedGiven]
    rw [if_pos (by decide), if_neg (by decide), if_pos (by decide)]
  rw [e1, e2]
  exact List.Perm.swap _ _ _

example (opts : Opts) : ¬ Distinct (stmtsOf ([wT1, wT2, wT3].filter AcceptableAlone)) ∧
    (processFiles opts [wT1, wT2, wT3]).toOption.map dumpOutcome =
      (processFiles opts [wT3, wT2, wT1]).toOption.map dumpOutcome :=
  ⟨by decide, (process_files_determined_by_accepted opts (perm_rev3 _ _ _) w_same_accepted).1⟩
/-- non-vacuity of `process_files_eq_accepted` and of `accepted_perm_of_distinct` -/
example : InsideModel [wT1, wT2, wT3] := process_files_order_matters_with_shared_headers.2.2.1
example : Distinct (stmtsOf ([wT1, ⟨"b.yang", [exB, exB]⟩, wT3].filter AcceptableAlone)) ∧
    (acceptedIn [wT1, ⟨"b.yang", [exB, exB]⟩, wT3]).map (·.name) = ["t1.yang", "t3.yang"] := by
  refine ⟨by decide, ?_⟩
  simp only [(accepted_texts_characterised _).1]
  decide


/-- non-vacuity of the two-text theorems: `t1`, `t3` share no header, `t1`, `t2` share `a` -/
example : AcceptableAlone wT1 = true ∧ AcceptableAlone wT2 = true ∧ AcceptableAlone wT3 = true ∧
    NoSharedHeader wT1 wT3 ∧ ¬ NoSharedHeader wT1 wT2 ∧ ¬ NoSharedHeader wT2 wT3 := by decide

end Goyang.Props.C05Order
