import Goyang.Lemmas.LoadOrderDump
import Goyang.Lemmas.LoadOrderLoad
import Goyang.Model.Pipeline
import Goyang.Model.TypesLite
/-
Property C05, load order: the same sources give the same result whatever the order in which they
were loaded.  (The open core statement `Props.C05.ProcessLoadOrderIrrelevant`.)

In the resolver model a loaded module is identified by its load sequence number `Mod.seq`
(tree ids, `nodeMod`, visited sets, caches, pending augments are keyed by it) and
`Registry.mods` is in load order.  Another load order permutes those numbers.  The proof is a
simulation through every stage of `processAll` (`Lemmas/LoadOrder*.lean`):

* `Lemmas.LoadOrder.regRel_of_perm` (on top of C13's registry invariant): two load orders of
  pairwise different modules give registries that hold the same modules under renamed sequence
  numbers, with every key of both tables bound to corresponding modules (`RegRel σ r₁ r₂`);
* every registry lookup, `findGrouping`, `toEntry` (with its caches and visited set), `find` /
  `walkParts`, linking, the augment loop, `FixChoice`, the leftover pass, deviations commute
  with the renaming `σ` (`toEntry_ren`, `find_ren`, `augmentPhase_rel`, `applyDeviations_ren`,
  `processAll_rel`); the orders in which `Process` walks the tables are sorted orders over
  distinct keys / full names and therefore correspond element by element;
* the canonical dump mentions no sequence number (`dumpOutcome_ren`).

The layers plugged into `processAll` (type resolution C09, identity resolution C11, typedef
resolution) enter as a hypothesis `PlugRel`: on corresponding registries they resolve every type
statement to the same result and report the same errors.
-/
namespace Goyang.Props.C05Order
open Goyang.Model Goyang.Lemmas.LoadOrder
open Goyang.Lemmas.Registry (NoAt)
open Goyang.Lemmas.Registry renaming hdr → header

/-- Module names are identifiers: no `@` (as in C13). -/
def NamesOk (loads : List Stmt) : Prop := ∀ s ∈ loads, '@' ∉ s.arg.toList

/-- No two loads have the same header (kind, name, latest revision): nothing is rejected as a
duplicate.  (Of two loads with one header the second is rejected, `Props.C13.duplicate_rejected`:
which text survives depends on the order, so such sets are outside the claim.) -/
def Distinct (loads : List Stmt) : Prop := (loads.map header).Nodup

instance (loads : List Stmt) : Decidable (NamesOk loads) := by unfold NamesOk; infer_instance
instance (loads : List Stmt) : Decidable (Distinct loads) := by unfold Distinct; infer_instance

/-- **Registry level.**  Two registries that hold the same modules under renamed sequence numbers
(`RegRel`: the module lists correspond up to order, every key of `ms.Modules` / `ms.SubModules` is
bound to corresponding modules) are processed to outcomes with the same canonical dump — for any
plugged layers that respect the renaming. -/
theorem processAll_renaming_invariant {σ : Nat → Nat} {r₁ r₂ : Registry} (h : RegRel σ r₁ r₂) (opts : Opts)
    {p₁ p₂ : Plug} (hp : PlugRel σ r₁ r₂ p₁ p₂) :
    dumpOutcome (processAll r₂ opts p₂) = dumpOutcome (processAll r₁ opts p₁) := by
  obtain ⟨h1, h2, h3, h4⟩ := processAll_rel h opts hp
  have e₂ : processAll r₂ opts p₂ =
      { errors := (processAll r₁ opts p₁).errors, forest := Forest.ren σ (processAll r₁ opts p₁).forest, reg := r₂ } := by
    rw [← h1, ← h2]
    cases hh : processAll r₂ opts p₂
    rw [hh] at h3
    simp only at h3 ⊢
    rw [h3]
  have e₁ : processAll r₁ opts p₁ =
      { errors := (processAll r₁ opts p₁).errors, forest := (processAll r₁ opts p₁).forest, reg := r₁ } := by
    cases hh : processAll r₁ opts p₁
    rw [hh] at h4
    simp only at h4 ⊢
    rw [h4]
  rw [e₂, dumpOutcome_ren h, ← e₁]

/-- **Load order does not matter** (given plugged layers that respect renaming).  Loading pairwise
different modules in two orders and processing gives the same canonical dump: the same error set,
or the same trees node by node.  `plug` builds the plugged layers from the registry (as
`plugFull` does). -/
theorem process_load_order_irrelevant_partial {loads₁ loads₂ : List Stmt} (hperm : loads₁.Perm loads₂)
    (hn : NamesOk loads₁) (hd : Distinct loads₁) (opts : Opts) (plug : Registry → Plug)
    (hplug : ∀ σ, RegRel σ (Registry.loadAll loads₁).1 (Registry.loadAll loads₂).1 →
      PlugRel σ (Registry.loadAll loads₁).1 (Registry.loadAll loads₂).1
        (plug (Registry.loadAll loads₁).1) (plug (Registry.loadAll loads₂).1)) :
    dumpOutcome (processAll (Registry.loadAll loads₁).1 opts (plug (Registry.loadAll loads₁).1)) =
      dumpOutcome (processAll (Registry.loadAll loads₂).1 opts (plug (Registry.loadAll loads₂).1)) := by
  obtain ⟨σ, h⟩ := regRel_of_perm hperm hn hd
  exact (processAll_renaming_invariant h opts (hplug σ h)).symm

/-- The placeholder layers: a type is its written name, no identity or typedef errors. -/
def plugLite : Registry → Plug :=
  fun _ => { tres := typesLite, identityErrs := fun _ => [], typedefErrs := fun _ => [] }

theorem plugLite_rel (σ : Nat → Nat) (r₁ r₂ : Registry) : PlugRel σ r₁ r₂ (plugLite r₁) (plugLite r₂) where
  tres := fun _ _ _ => rfl
  identityErrs := List.Perm.refl _
  typedefErrs := List.Perm.refl _

/-- **Load order does not matter for the resolver proper** (linking, `ToEntry` with groupings,
uses, submodule merging, rpcs, the augment loop, `FixChoice`, deviations, error collection), with
the placeholder type layer: unconditionally for pairwise different modules. -/
theorem process_load_order_irrelevant_resolver {loads₁ loads₂ : List Stmt} (hperm : loads₁.Perm loads₂)
    (hn : NamesOk loads₁) (hd : Distinct loads₁) (opts : Opts) :
    dumpOutcome (processAll (Registry.loadAll loads₁).1 opts (plugLite (Registry.loadAll loads₁).1)) =
      dumpOutcome (processAll (Registry.loadAll loads₂).1 opts (plugLite (Registry.loadAll loads₂).1)) :=
  process_load_order_irrelevant_partial hperm hn hd opts plugLite (fun σ _ => plugLite_rel σ _ _)

end Goyang.Props.C05Order
