import Goyang.Lemmas.LoadOrderDump
import Goyang.Lemmas.LoadOrderLoad
import Goyang.Lemmas.LoadOrderPlug
import Goyang.Model.Pipeline
import Goyang.Model.TypesLite
/-
Property C05, load order: the same sources give the same result whatever the order in which they
were loaded.  This file proves the open core statement `Props.C05.ProcessLoadOrderIrrelevant`
(there only stated) — with the two hypotheses it needs: module names are identifiers (`NamesOk`,
as in C13) and no two sources define the same (kind, name, revision) (`Distinct`; without it the
statement is false, `distinct_needed`; for `NamesOk` see `names_rejected` at the end).

In the resolver model a loaded module is identified by its load sequence number `Mod.seq`
(tree ids, `nodeMod`, visited sets, caches, pending augments, link sets, the identity dictionary
and the type-resolution stack are keyed by it) and `Registry.mods` is in load order.  Another load
order permutes those numbers.  The proof is a simulation through every stage of the pipeline
(`Lemmas/LoadOrder*.lean`, about 3600 lines, core Lean only):

* `Lemmas.LoadOrder.regRel_of_perm` (on top of C13's registry invariant): two load orders of
  pairwise different modules give registries that hold the same modules under renamed sequence
  numbers, every key of both tables bound to corresponding modules (`RegRel σ r₁ r₂`);
* every registry lookup, `findGrouping`, `toEntry` (with its caches and visited set), `find` /
  `walkParts`, linking, the augment loop, `FixChoice`, the leftover pass, deviations commute with
  the renaming `σ` (`toEntry_ren`, `find_ren`, `augmentPhase_rel`, `applyDeviations_ren`,
  `processAll_rel`); the orders in which `Process` walks the tables are sorted orders over distinct
  keys / full names and therefore correspond element by element (`Lemmas/SortUnique`);
* the layers plugged into `processAll` — `Type.resolve` / `resolveTypedefs` (C09 layer) and
  `resolveIdentities` (C11 layer, with the oracle the pipeline uses) — do the same
  (`plugFull_rel`: `resolveTypeF_ren`, `buildDict_ren`, `identityErrsOf_eq`, …);
* the canonical dump mentions no sequence number (`dumpOutcome_ren`).

The theorems are stated for an arbitrary plug that respects the renaming (`PlugRel`) and then
instantiated: `process_load_order_irrelevant` (statement lists, `plugFull`),
`process_files_load_order_irrelevant` (`processFiles` on texts: the statement of
`ProcessLoadOrderIrrelevant`), `process_load_order_irrelevant_resolver` (placeholder type layer).
-/
namespace Goyang.Props.C05Order
open Goyang.Model Goyang.Lemmas.LoadOrder
open Goyang.Lemmas.Registry (NoAt)
open Goyang.Lemmas.Registry renaming hdr → header

/-- Module names are identifiers: no `@` (as in C13). -/
def NamesOk (loads : List Stmt) : Prop := ∀ s ∈ loads, '@' ∉ s.arg.toList

/-- No two loads have the same header (kind, name, latest revision): nothing is rejected as a
duplicate.  (Of two loads with one header the second is rejected, `Props.C13.duplicate_rejected`:
which text survives depends on the order, so such sets are outside the claim.) -/
def Distinct (loads : List Stmt) : Prop := (loads.map header).Nodup

instance (loads : List Stmt) : Decidable (NamesOk loads) := by unfold NamesOk; infer_instance
instance (loads : List Stmt) : Decidable (Distinct loads) := by unfold Distinct; infer_instance

/-- **Registry level.**  Two registries that hold the same modules under renamed sequence numbers
(`RegRel`: the module lists correspond up to order, every key of `ms.Modules` / `ms.SubModules` is
bound to corresponding modules) are processed to outcomes with the same canonical dump — for any
plugged layers that respect the renaming. -/
theorem processAll_renaming_invariant {σ : Nat → Nat} {r₁ r₂ : Registry} (h : RegRel σ r₁ r₂) (opts : Opts)
    {p₁ p₂ : Plug} (hp : PlugRel σ r₁ r₂ p₁ p₂) :
    dumpOutcome (processAll r₂ opts p₂) = dumpOutcome (processAll r₁ opts p₁) := by
  obtain ⟨h1, h2, h3, h4⟩ := processAll_rel h opts hp
  have e₂ : processAll r₂ opts p₂ =
      { errors := (processAll r₁ opts p₁).errors, forest := Forest.ren σ (processAll r₁ opts p₁).forest, reg := r₂ } := by
    rw [← h1, ← h2]
    cases hh : processAll r₂ opts p₂
    rw [hh] at h3
    simp only at h3 ⊢
    rw [h3]
  have e₁ : processAll r₁ opts p₁ =
      { errors := (processAll r₁ opts p₁).errors, forest := (processAll r₁ opts p₁).forest, reg := r₁ } := by
    cases hh : processAll r₁ opts p₁
    rw [hh] at h4
    simp only at h4 ⊢
    rw [h4]
  rw [e₂, dumpOutcome_ren h, ← e₁]

/-- **Load order does not matter**, for any plugged layers that respect the renaming.  Loading
pairwise different modules in two orders and processing gives the same canonical dump: the same
error set, or the same trees node by node.  `plug` builds the plugged layers from the registry
(as `plugFull` does). -/
theorem process_load_order_irrelevant_of_plug {loads₁ loads₂ : List Stmt} (hperm : loads₁.Perm loads₂)
    (hn : NamesOk loads₁) (hd : Distinct loads₁) (opts : Opts) (plug : Registry → Plug)
    (hplug : ∀ σ, RegRel σ (Registry.loadAll loads₁).1 (Registry.loadAll loads₂).1 →
      PlugRel σ (Registry.loadAll loads₁).1 (Registry.loadAll loads₂).1
        (plug (Registry.loadAll loads₁).1) (plug (Registry.loadAll loads₂).1)) :
    dumpOutcome (processAll (Registry.loadAll loads₁).1 opts (plug (Registry.loadAll loads₁).1)) =
      dumpOutcome (processAll (Registry.loadAll loads₂).1 opts (plug (Registry.loadAll loads₂).1)) := by
  obtain ⟨σ, h⟩ := regRel_of_perm hperm hn hd
  exact (processAll_renaming_invariant h opts (hplug σ h)).symm

/-- The placeholder layers: a type is its written name, no identity or typedef errors. -/
def plugLite : Registry → Plug :=
  fun _ => { tres := typesLite, identityErrs := fun _ => [], typedefErrs := fun _ => [] }

theorem plugLite_rel (σ : Nat → Nat) (r₁ r₂ : Registry) : PlugRel σ r₁ r₂ (plugLite r₁) (plugLite r₂) where
  tres := fun _ _ _ => rfl
  identityErrs := List.Perm.refl _
  typedefErrs := List.Perm.refl _

/-- **Load order does not matter for the resolver proper** (linking, `ToEntry` with groupings,
uses, submodule merging, rpcs, the augment loop, `FixChoice`, deviations, error collection), with
the placeholder type layer: unconditionally for pairwise different modules. -/
theorem process_load_order_irrelevant_resolver {loads₁ loads₂ : List Stmt} (hperm : loads₁.Perm loads₂)
    (hn : NamesOk loads₁) (hd : Distinct loads₁) (opts : Opts) :
    dumpOutcome (processAll (Registry.loadAll loads₁).1 opts (plugLite (Registry.loadAll loads₁).1)) =
      dumpOutcome (processAll (Registry.loadAll loads₂).1 opts (plugLite (Registry.loadAll loads₂).1)) :=
  process_load_order_irrelevant_of_plug hperm hn hd opts plugLite (fun σ _ => plugLite_rel σ _ _)

/-- The layers of the real pipeline (`plugFull`: `Type.resolve` / `resolveTypedefs` of the C09
layer, `resolveIdentities` of the C11 layer with the insertion-order oracle — every map walk of
the repaired code sorts first) respect the renaming. -/
theorem plugFull_respects_renaming {σ : Nat → Nat} {r₁ r₂ : Registry} (h : RegRel σ r₁ r₂) :
    PlugRel σ r₁ r₂ (plugFull r₁) (plugFull r₂) :=
  plugFull_rel h

/-- **Load order does not matter** — the whole pipeline after generic parsing (`Modules.add` of
every load, then `Modules.Process` with type, typedef and identity resolution plugged in).  Two
load orders of pairwise different modules give the same canonical dump: the same error set
(file, line, column, class), or — when there are no errors — the same trees, node by node, with
the same kinds, types, defaults, config / mandatory flags, list attributes, namespaces and
instantiating modules. -/
theorem process_load_order_irrelevant {loads₁ loads₂ : List Stmt} (hperm : loads₁.Perm loads₂)
    (hn : NamesOk loads₁) (hd : Distinct loads₁) (opts : Opts) :
    dumpOutcome (processAll (Registry.loadAll loads₁).1 opts (plugFull (Registry.loadAll loads₁).1)) =
      dumpOutcome (processAll (Registry.loadAll loads₂).1 opts (plugFull (Registry.loadAll loads₂).1)) :=
  process_load_order_irrelevant_of_plug hperm hn hd opts plugFull (fun _ h => plugFull_rel h)

/-- The statements of all texts, in load order. -/
def stmtsOf (files : List SrcFile) : List Stmt := files.flatMap (·.stmts)

/-- **The open core statement `Props.C05.ProcessLoadOrderIrrelevant`, with the hypotheses it
needs**: for texts whose modules are pairwise different (and named by identifiers), the result of
`processFiles` (`Modules.Parse` of every text in order, atomically, then `Modules.Process`) does
not depend on the order of the texts — also not whether the set is inside the model at all. -/
theorem process_files_load_order_irrelevant (opts : Opts) {files₁ files₂ : List SrcFile} (hperm : files₁.Perm files₂)
    (hn : NamesOk (stmtsOf files₁)) (hd : Distinct (stmtsOf files₁)) :
    (processFiles opts files₁).toOption.map dumpOutcome = (processFiles opts files₂).toOption.map dumpOutcome := by
  have hps : (stmtsOf files₁).Perm (stmtsOf files₂) := List.Perm.flatMap_right _ hperm
  have hn₂ : NamesOk (stmtsOf files₂) := fun s hs => hn s (hps.mem_iff.mpr hs)
  have hd₂ : Distinct (stmtsOf files₂) := (hps.map header).nodup_iff.mp hd
  unfold processFiles
  cases h1 : files₁.findSome? fun f => outsideL "" f.stmts with
  | some why =>
    cases h2 : files₂.findSome? fun f => outsideL "" f.stmts with
    | some why' => rfl
    | none =>
      exfalso
      rw [List.findSome?_eq_none_iff] at h2
      obtain ⟨f, hf, hw⟩ := List.exists_of_findSome?_eq_some h1
      rw [h2 f (hperm.mem_iff.mp hf)] at hw
      cases hw
  | none =>
    cases h2 : files₂.findSome? fun f => outsideL "" f.stmts with
    | some why' =>
      exfalso
      rw [List.findSome?_eq_none_iff] at h1
      obtain ⟨f, hf, hw⟩ := List.exists_of_findSome?_eq_some h2
      rw [h1 f (hperm.mem_iff.mpr hf)] at hw
      cases hw
    | none =>
      simp only [Except.toOption, Option.map_some, Option.some.injEq]
      rw [loadFiles_eq_loadAll files₁ hn hd, loadFiles_eq_loadAll files₂ hn₂ hd₂]
      exact process_load_order_irrelevant hps hn hd opts

/-! ### the hypotheses are satisfiable, and they are needed

`exA` includes its submodule `exAs` (which uses a typedef), `exB` imports `exA`, augments its
container and deviates its leaf: linking, submodule merging, type resolution, the augment loop
and deviations all run.  Three load orders. -/

private def st (file kw arg : String) (l : Nat) (subs : List Stmt := []) : Stmt := .mk kw true arg file l 1 subs

def exA : Stmt :=
  st "a.yang" "module" "a" 1 [st "a.yang" "namespace" "urn:a" 2, st "a.yang" "prefix" "a" 3,
    st "a.yang" "include" "as" 4,
    st "a.yang" "container" "c" 5 [st "a.yang" "leaf" "x" 6 [st "a.yang" "type" "string" 7]]]
def exAs : Stmt :=
  st "as.yang" "submodule" "as" 1 [st "as.yang" "belongs-to" "a" 2 [st "as.yang" "prefix" "a" 3],
    st "as.yang" "leaf" "z" 4 [st "as.yang" "type" "t" 5],
    st "as.yang" "typedef" "t" 6 [st "as.yang" "type" "int8" 7]]
def exB : Stmt :=
  st "b.yang" "module" "b" 1 [st "b.yang" "namespace" "urn:b" 2, st "b.yang" "prefix" "b" 3,
    st "b.yang" "import" "a" 4 [st "b.yang" "prefix" "a" 5],
    st "b.yang" "augment" "/a:c" 6 [st "b.yang" "leaf" "y" 7 [st "b.yang" "type" "int8" 8]],
    st "b.yang" "deviation" "/a:c/a:x" 9 [st "b.yang" "deviate" "add" 10 [st "b.yang" "default" "d" 11]]]

example : NamesOk [exA, exAs, exB] := by decide
example : Distinct [exA, exAs, exB] := by decide
theorem exPerm : [exA, exAs, exB].Perm [exB, exAs, exA] :=
  (List.Perm.swap exAs exA [exB]).trans (((List.Perm.swap exB exA []).cons exAs).trans (List.Perm.swap exB exAs [exA]))
/-- the instance of the theorem for these loads -/
example (opts : Opts) :
    dumpOutcome (processAll (Registry.loadAll [exA, exAs, exB]).1 opts (plugFull (Registry.loadAll [exA, exAs, exB]).1)) =
      dumpOutcome (processAll (Registry.loadAll [exB, exAs, exA]).1 opts (plugFull (Registry.loadAll [exB, exAs, exA]).1)) :=
  process_load_order_irrelevant exPerm (by decide) (by decide) opts
/-- the sequence numbers really are permuted: `a` is module 0 in one order and module 2 in the other -/
example : ((Registry.loadAll [exA, exAs, exB]).1.getModule "a").map (·.seq) = some 0 ∧
    ((Registry.loadAll [exB, exAs, exA]).1.getModule "a").map (·.seq) = some 2 := by decide
/-- processing is not trivial (placeholder type layer, module and submodule only, which the
kernel can evaluate): no errors, two trees, the submodule's leaf merged into the module -/
example : (processAll (Registry.loadAll [exAs, exA]).1 {} (plugLite (Registry.loadAll [exAs, exA]).1)).errors = [] ∧
    (processAll (Registry.loadAll [exAs, exA]).1 {} (plugLite (Registry.loadAll [exAs, exA]).1)).forest.trees.map
      (fun p => (p.1, p.2.dir.map (·.name))) = [(0, ["z"]), (1, ["z", "c"])] := by
  decide +kernel

/-- Two texts for one module name (no revision): the second load is rejected as a duplicate
(`Props.C13.duplicate_rejected`), so which text is processed depends on the order. -/
def dupA : Stmt :=
  st "a1.yang" "module" "a" 1 [st "a1.yang" "namespace" "urn:a" 2, st "a1.yang" "prefix" "a" 3,
    st "a1.yang" "container" "c" 4]
def dupA' : Stmt :=
  st "a2.yang" "module" "a" 1 [st "a2.yang" "namespace" "urn:a" 2, st "a2.yang" "prefix" "a" 3]

/-- **`Distinct` cannot be dropped**: for two different texts of one module the dumps of the two
load orders differ (here: in length).  The unconditional statement
`Props.C05.ProcessLoadOrderIrrelevant` is therefore too strong as written: "the same sources"
must not contain two sources for one (kind, name, revision). -/
theorem distinct_needed :
    NamesOk [dupA, dupA'] ∧ [dupA, dupA'].Perm [dupA', dupA] ∧ ¬ Distinct [dupA, dupA'] ∧
    dumpOutcome (processAll (Registry.loadAll [dupA, dupA']).1 {} (plugLite (Registry.loadAll [dupA, dupA']).1)) ≠
      dumpOutcome (processAll (Registry.loadAll [dupA', dupA]).1 {} (plugLite (Registry.loadAll [dupA', dupA]).1)) := by
  refine ⟨by decide, List.Perm.swap _ _ _, by decide, ?_⟩
  intro h
  have hl := congrArg String.length h
  revert hl
  decide +kernel

/-- A module whose *name* contains `@` (not a YANG identifier; goyang does not check identifiers)
and a module whose full name `name@revision` is the same string. -/
def atA : Stmt :=
  st "x.yang" "module" "m@2020" 1 [st "x.yang" "namespace" "urn:x" 2, st "x.yang" "prefix" "x" 3,
    st "x.yang" "container" "c" 4]
def atB : Stmt :=
  st "m.yang" "module" "m" 1 [st "m.yang" "namespace" "urn:m" 2, st "m.yang" "prefix" "m" 3,
    st "m.yang" "revision" "2020" 4]

/-- **The ambiguity behind `NamesOk` is gone from the code** (defect D61, repaired: `Modules.add`
refuses a name containing `@`).  Before the repair the key `m@2020` was claimed by both modules
and whichever was loaded first kept it, so the two load orders gave different dumps; now `m@2020`
is refused in both orders, the registries are equal and so are the dumps.  (`NamesOk` remains a
hypothesis of the theorems above; `Props.C13` shows the registry half without it.) -/
theorem names_rejected :
    Distinct [atA, atB] ∧ [atA, atB].Perm [atB, atA] ∧ ¬ NamesOk [atA, atB] ∧
    (Registry.loadAll [atA, atB]).2.map Option.isSome = [true, false] ∧
    (Registry.loadAll [atB, atA]).2.map Option.isSome = [false, true] ∧
    dumpOutcome (processAll (Registry.loadAll [atA, atB]).1 {} (plugLite (Registry.loadAll [atA, atB]).1)) =
      dumpOutcome (processAll (Registry.loadAll [atB, atA]).1 {} (plugLite (Registry.loadAll [atB, atA]).1)) := by
  have hreg : (Registry.loadAll [atA, atB]).1 = (Registry.loadAll [atB, atA]).1 := by rfl
  refine ⟨by decide, List.Perm.swap _ _ _, by decide, by decide, by decide, ?_⟩
  rw [hreg]

end Goyang.Props.C05Order
