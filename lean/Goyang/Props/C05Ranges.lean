import Goyang.Gen.MapRanges
/-
Property C05, the tie of the order-independence argument to the Go source: every iteration of
pkg/yang, pkg/yangentry and the command whose order the Go runtime randomises (a `range` over a
map), or that inherits such an order (a slice filled in map order and not sorted since, a helper
that walks a map for its caller), is justified.  The table is regenerated from the source by
harness/cmd/extract-ranges on every run of the check; a new unsorted walk, a sort that is
removed, a tie-break that is dropped from a comparator the allow-list relies on, or one more site
than was reviewed makes this theorem fail, and the translator's notes name the site.
-/
namespace Goyang.Props.C05Ranges
open Goyang.Model.MapRanges

theorem map_ranges_justified :
    AllRangesJustified Gen.MapRanges.allow Gen.MapRanges.facts Gen.MapRanges.table = true := by
  decide +kernel

/-- Consequently no record is left over. -/
theorem none_unjustified : unjustified Gen.MapRanges.allow Gen.MapRanges.table = [] := by
  decide +kernel

/-! The obligation can fail: one unjustified walk, one site too many, or a weakened fact. -/

private def sorted : Range :=
  { pkg := "yang", anchor := "(*Modules).Process", inFunc := "(*Modules).Process", kind := "map", expr := "Modules.Modules",
    text := "ms.Modules", keyUsed := true, valUsed := false, cls := "collect-then-sort", effects := ["append[]string"], calls := [] }
private def unsortedWalk : Range :=
  { sorted with cls := "other", effects := ["append[]*yang.Module", "escapes-unsorted"] }
private def fixChoiceWalk : Range :=
  { sorted with cls := "other", effects := ["call:yang.(*Entry).FixChoice", "call:yang.ToEntry"], calls := ["yang.(*Entry).FixChoice", "yang.ToEntry"] }
private def identityWalk : Range :=
  { sorted with cls := "other", expr := "identityDictionary.dict", effects := ["append[]error", "fieldwrite:Identity.Values"] }

example : AllRangesJustified Gen.MapRanges.allow Gen.MapRanges.facts [sorted, fixChoiceWalk, fixChoiceWalk, identityWalk] = true := by
  decide +kernel
/-- a walk that collects without sorting (the revert of 7ac0549 or e4590d2) -/
example : AllRangesJustified Gen.MapRanges.allow Gen.MapRanges.facts [sorted, unsortedWalk] = false := by decide +kernel
example : unjustified Gen.MapRanges.allow [sorted, unsortedWalk] = [unsortedWalk] := by decide +kernel
/-- a third FixChoice-like walk over the modules where two were reviewed -/
example : AllRangesJustified Gen.MapRanges.allow Gen.MapRanges.facts [fixChoiceWalk, fixChoiceWalk, fixChoiceWalk] = false := by
  decide +kernel
/-- the identity walks rely on a comparator with two keys (the revert of 605766b leaves one) -/
example : AllRangesJustified Gen.MapRanges.allow [{ name := "yang *yang.Identity", value := 1 }] [identityWalk] = false := by
  decide +kernel
example : AllRangesJustified Gen.MapRanges.allow [{ name := "yang *yang.Identity", value := 2 }] [identityWalk] = true := by
  decide +kernel
/-- with an empty allow-list only the classified walks pass -/
example : AllRangesJustified [] [] [sorted] = true ∧ AllRangesJustified [] [] [fixChoiceWalk] = false := by decide +kernel

end Goyang.Props.C05Ranges
