import Goyang.Spec.Uses
import Goyang.Lemmas.Uses
import Goyang.Lemmas.UsesVisit
import Goyang.Lemmas.UsesCache
import Goyang.Lemmas.UsesCacheInv
import Goyang.Lemmas.UsesFuel
import Goyang.Lemmas.Deviate
import Goyang.Model.TypesLite
/-
C06 — every use of a grouping is an independent, faithful, locally scoped copy.
Property theorems only; helper lemmas live in Goyang/Lemmas/Uses.lean (binding, merge, the `uses`
case of `toEntry`), Lemmas/UsesVisit.lean (completeness of the search order), Lemmas/UsesCache.lean
(the `uses` step comes first also for augment, grouping, module and submodule statements; what the
two caches do on a hit and on a miss), Lemmas/UsesCacheInv.lean (how the conversion state moves
through `toEntry`: the caches only grow at their end, nothing binds a grouping under conversion),
Lemmas/UsesFuel.lean (the fuel side condition holds at every call reached from `processAll`'s
top-level calls) and Goyang/Lemmas/Deviate.lean (frame of `updateAt` / `removeAt`).

Status of the former gaps.
* Search order: `search_order_sound` + `search_order_complete` = `search_order_iff_reach`: the
  search order from a file lists exactly the files reached through include / belongs-to
  statements, when the reached files have pairwise different names (`names_distinct_of_nodup`:
  e.g. when no two loaded (sub)modules share a name).  Without that hypothesis completeness is
  false of the specification *and* of Go's `FindGrouping` (both mark names):
  `search_order_needs_distinct_names`, witness `ExN` (a submodule named like its module), replayed
  on the Go code (`Process` answers "unknown group" together with a circular-dependency error).
* `uses` first: `container_gets_copy`, `augment_gets_copy`, `grouping_gets_copy`,
  `module_gets_copy` (module and submodule) and `Lemmas.Uses.toEntry_*_uses_first` for list, case,
  input, output, notification — every statement kind with a `uses` field.  Caches:
  `later_uses_same` / `module_cached_same` (hit), `cache_miss_stores`, `first_use_fills_cache`,
  `cached_entry_persists` (a miss converts, binds the grouping to the entry it returns, and the
  binding stays for the rest of the run).
* Fuel: `process_fuel_reaches_bindFuel`, `uses_scope_in_process`, `uses_is_copy_in_process`,
  `container_gets_copy_in_process` (and `grouping_…`, `module_…`, `augment_gets_copy_in_process`): at every call reached from a top-level call of `processAll`
  (`Lemmas.Uses.Reached`) the fuel handed to `findGrouping` is at least `bindFuel`; the explicit
  bound of `uses_scope` / `uses_is_copy` is gone there.
Still hypotheses: `WellFormedRef` (two RFC requirements on a prefixed reference), no (sub)module
statement nested below the using (sub)module statement (`hinner`), free and distinct names for the
`…_is_copy` / `…_gets_copy` forms (`uses_adds_only_copies` holds without).

Reading aid.
* `Spec.Uses.bindGrouping reg linked root inner name` is the declarative binding of the grouping
  name at a `uses` statement written in (sub)module `root` below the statements `inner` (nearest
  first): unprefixed / own prefix — the nearest enclosing statement that directly declares the
  name, else the first file of the *whole module* (`searchOrder`: the (sub)module, its includes
  depth first, for a submodule then the module it belongs to with its includes) that declares it
  at its top level; foreign prefix — the whole module of the module imported under that prefix.
  `linked` = the (sub)modules whose import/include statements `Modules.include` linked (all that a
  loaded module reaches, after an error-free `process()`).
* `Model.findGrouping` is the transliteration of Go's `FindGrouping` (fuel-driven, with the `seen`
  set threaded through the recursion); `toEntry` calls it with fuel `2 * fuel + 16` and `seen = []`,
  from a scope `inner ++ [root.stmt]` whose only (sub)module statement is the last one.
* `Spec.Uses.denoteGrouping env fuel r …` = the children of `toEntry` of the grouping statement
  `r.1` converted with *its own* root module `r.2.1` and *its own* ancestor chain `r.2.2`.
* `Spec.Uses.CopyOf a b`: same name, kind, type, default, constraints at every node, same nesting.

Pure model and pointers.  The entry trees of the model are values: the copy that Go's `dup` makes is
the value itself (`copy_is_faithful`), and "changing one instance leaves the others unchanged" is a
path-update lemma (`instances_independent`): true of every rose tree, whatever `merge` and `dup`
do.  Its force for the Go code comes from the tie: the runner harness/cmd/corr-c06 compares the
model with Go on sets in which one instance is changed by an augment and by every kind of
deviation, and its Go-side oracle checks that no `*Entry`, `*ListAttr`, `*RPCEntry` object and no
`Default` backing array is shared between instances or with the cached grouping entry — i.e. that
the Go trees *are* the unshared values the model computes with.  refine and uses-augment are outside
the claim (the driver declines such input).

`Entry.Extra` / `Entry.Exts` (what `merge` appends from a `uses` statement: if-feature, when, status,
reference, extension statements; defect D62) are not part of the resolver model.  The copy law for
them is stated and proved over the small model `Spec.Uses.XEntry` (`extras_copy_law`,
`extras_nested_law`, `extras_instances_independent`); its tie to the Go code is the runner's Go-side
oracle only (predicted values per node, prefix law against the grouping's own entry, no shared
backing array), not drv_res.
-/
namespace Goyang.Props.C06
open Goyang.Model Goyang.Spec.Uses
open Goyang.Lemmas.Uses (bindFuel importedErrors names usesStep found ReachNamesDistinct Reached)
open Goyang.Lemmas.Deviate (NameStable)

/-! ### binding -/

/-- **uses_binds_lexically.**  A reference without prefix, or with the using module's own prefix,
binds as the scoping rules say: the nearest enclosing statement that declares the name, else the
whole module.  Holds for every registry, every scope and every name of that form; the only side
condition is the fuel (`bindFuel`: one unit per enclosing statement plus, per loaded (sub)module,
its widest statement list plus three — every (sub)module is entered at most once along a call
path).  `toEntry` hands over `2 * fuel + 16`. -/
theorem uses_binds_lexically (reg : Registry) (linked : List Nat) (root : Mod) (inner : List Stmt) (name : String)
    (fuel : Nat) (hinner : ∀ n ∈ inner, isModuleStmt n = false) (hlocal : isBare (localName root name) = true)
    (hfuel : bindFuel reg root inner ≤ fuel) :
    (findGrouping reg linked fuel root (inner ++ [root.stmt]) name []).1 = bindGrouping reg linked root inner name :=
  Lemmas.Uses.findGrouping_local reg linked root inner name fuel hinner hlocal hfuel

/-- **uses_binds_import.**  A reference with a foreign prefix binds in exactly the module imported
under that prefix (its top level and its submodules), never through an included submodule's
import table or a chain of prefixes.  Side conditions, both requirements of RFC 7950 on the text
that goyang does not check: no enclosing statement declares a grouping whose name is literally
the prefixed text (identifiers contain no colon), and at most one import statement of the
(sub)module carries the prefix (prefixes are unique). -/
theorem uses_binds_import (reg : Registry) (linked : List Nat) (root : Mod) (inner : List Stmt) (name : String)
    (fuel : Nat) (hinner : ∀ n ∈ inner, isModuleStmt n = false) (hforeign : isBare (localName root name) = false)
    (hident : ∀ n ∈ inner ++ [root.stmt], declares n (localName root name) = none)
    (hunique : (importsFor root (localName root name)).length ≤ 1)
    (hfuel : bindFuel reg root inner ≤ fuel) :
    (findGrouping reg linked fuel root (inner ++ [root.stmt]) name []).1 = bindGrouping reg linked root inner name :=
  Lemmas.Uses.findGrouping_foreign reg linked root inner name fuel hinner hforeign hident hunique hfuel

/-- What the text must satisfy for a reference: nothing for a local name; for a prefixed one the
two RFC requirements of `uses_binds_import`. -/
def WellFormedRef (root : Mod) (inner : List Stmt) (name : String) : Prop :=
  isBare (localName root name) = true ∨
  ((∀ n ∈ inner ++ [root.stmt], declares n (localName root name) = none) ∧
    (importsFor root (localName root name)).length ≤ 1)

/-- **uses_binds.**  Both forms of reference in one statement. -/
theorem uses_binds (reg : Registry) (linked : List Nat) (root : Mod) (inner : List Stmt) (name : String) (fuel : Nat)
    (hinner : ∀ n ∈ inner, isModuleStmt n = false) (hwf : WellFormedRef root inner name)
    (hfuel : bindFuel reg root inner ≤ fuel) :
    (findGrouping reg linked fuel root (inner ++ [root.stmt]) name []).1 = bindGrouping reg linked root inner name := by
  cases hb : isBare (localName root name) with
  | true => exact uses_binds_lexically reg linked root inner name fuel hinner hb hfuel
  | false =>
    rcases hwf with h | ⟨h1, h2⟩
    · rw [hb] at h; cases h
    · exact uses_binds_import reg linked root inner name fuel hinner hb h1 h2 hfuel

/-- **binding_is_nearest.**  What `bindGrouping` of a local name returns, spelled out: either the
grouping is declared by an enclosing statement `n`, no statement nearer to the `uses` declares the
name, and the grouping's scope is the using statement's own chain from `n` upwards; or no
enclosing statement declares it and it is declared at the top level of a file `s` of the whole
module — reached from `root` through include and belongs-to statements — with scope `[s.stmt]`. -/
theorem binding_is_nearest (reg : Registry) (linked : List Nat) (root : Mod) (inner : List Stmt) (name : String)
    (r : GroupingRef) (hlocal : isBare (localName root name) = true)
    (h : bindGrouping reg linked root inner name = some r) :
    (∃ pre n up, inner = pre ++ n :: up ∧ declares n (localName root name) = some r.1 ∧
        (∀ x ∈ pre, declares x (localName root name) = none) ∧ r.2.1 = root ∧ r.2.2 = n :: up ++ [root.stmt]) ∨
    ((∀ x ∈ inner, declares x (localName root name) = none) ∧
      ∃ s, Reach reg linked root s ∧ declares s.stmt (localName root name) = some r.1 ∧ r.2.1 = s ∧ r.2.2 = [s.stmt]) := by
  unfold bindGrouping at h
  simp only [hlocal, if_true] at h
  cases hl : bindLexical root inner (localName root name) with
  | some r' =>
    simp only [hl, Option.some.injEq] at h
    subst h
    obtain ⟨pre, n, up, h1, h2, h3, h4, h5⟩ := Lemmas.Uses.bindLexical_some root _ inner r' hl
    exact Or.inl ⟨pre, n, up, h1, h2, h5, h3, h4⟩
  | none =>
    simp only [hl] at h
    refine Or.inr ⟨?_, ?_⟩
    · intro x hx
      cases hd : declares x (localName root name) with
      | none => rfl
      | some g =>
        exfalso
        have : ∀ (l : List Stmt), x ∈ l → bindLexical root l (localName root name) ≠ none := by
          intro l
          induction l with
          | nil => intro hx; cases hx
          | cons a l ih =>
            intro hx
            unfold bindLexical
            cases ha : declares a (localName root name) with
            | some _ => simp
            | none =>
              simp only
              rcases List.mem_cons.1 hx with rfl | hx
              · rw [hd] at ha; cases ha
              · exact ih hx
        exact this inner hx hl
    · obtain ⟨s, hs, h1, h2, h3⟩ := Lemmas.Uses.found_some (ms := searchOrder reg linked root) h
      exact ⟨s, Lemmas.Uses.visit_reach reg linked _ root [] s hs, h1, h2, h3⟩

/-! ### the whole module: the search order lists exactly the files reached by include / belongs-to -/

/-- **search_order_sound.**  Every file in the search order from `m` is reached from `m` through
include statements (of linked (sub)modules) and belongs-to statements. -/
theorem search_order_sound (reg : Registry) (linked : List Nat) (m x : Mod) (h : x ∈ searchOrder reg linked m) :
    Reach reg linked m x :=
  Lemmas.Uses.visit_reach reg linked _ m [] x h

/-- **search_order_complete.**  Conversely every file reached from `m` is in the search order —
the depth-first walk with its marked set and its depth bound (number of loaded (sub)modules + 1)
leaves nothing out — when the reached files have pairwise different names.  (The walk marks
*names*, like Go's `FindGrouping` does; RFC 7950 5.1 requires module and submodule names to be
unique.  Without the hypothesis the statement is false: `search_order_needs_distinct_names`.) -/
theorem search_order_complete (reg : Registry) (linked : List Nat) (m : Mod) (hnames : ReachNamesDistinct reg linked m)
    (x : Mod) (h : Reach reg linked m x) : x ∈ searchOrder reg linked m :=
  Lemmas.Uses.visit_complete reg linked m hnames x h

/-- **search_order_iff_reach.**  The two together. -/
theorem search_order_iff_reach (reg : Registry) (linked : List Nat) (m : Mod) (hnames : ReachNamesDistinct reg linked m)
    (x : Mod) : x ∈ searchOrder reg linked m ↔ Reach reg linked m x :=
  Lemmas.Uses.visit_iff_reach reg linked m hnames x

/-- The hypothesis of `search_order_complete` for a loaded start, from a decidable condition on the
registry: no two loaded (sub)modules have the same name. -/
theorem names_distinct_of_nodup (reg : Registry) (linked : List Nat) (m : Mod) (hm : m ∈ reg.mods)
    (h : (reg.mods.map (·.name)).Nodup) : ReachNamesDistinct reg linked m :=
  Lemmas.Uses.reachNamesDistinct_of_nodup reg linked m hm h

/-- **whole_module_is_searched.**  A grouping declared at the top level of any file of the whole
module is visible from every file of it: if no enclosing statement of the `uses` declares the
(unprefixed or own-prefixed) name and some file `s` reached from `root` does, the binding is not
`none` — and by `binding_is_nearest` it is the declaration in the first such file of the search
order. -/
theorem whole_module_is_searched (reg : Registry) (linked : List Nat) (root : Mod) (inner : List Stmt) (name : String)
    (hnames : ReachNamesDistinct reg linked root) (hlocal : isBare (localName root name) = true)
    (s : Mod) (hs : Reach reg linked root s) (g : Stmt) (hd : declares s.stmt (localName root name) = some g) :
    ∃ r, bindGrouping reg linked root inner name = some r := by
  unfold bindGrouping
  simp only [hlocal, if_true]
  cases bindLexical root inner (localName root name) with
  | some r => exact ⟨r, rfl⟩
  | none => exact Lemmas.Uses.bindTop_complete reg linked root hnames s hs _ g hd

/-! ### scope -/

/-- **uses_scope.**  Converting a `uses` statement converts the grouping it denotes with the
grouping's own root module and the grouping's own ancestor chain — not the using statement's.
Types, nested groupings and identities written inside the grouping are therefore looked up where
the grouping is defined (`toEntry` hands `root` and `scope` to every lookup it makes). -/
theorem uses_scope (env : Env) (fuel : Nat) (root : Mod) (inner : List Stmt) (u : Stmt) (visiting : List NodeId)
    (st : TState) (hu : u.kw = "uses") (hinner : ∀ n ∈ inner, isModuleStmt n = false)
    (hwf : WellFormedRef root inner u.arg) (hfuel : bindFuel env.reg root inner ≤ 2 * fuel + 16) :
    toEntry env (fuel + 1) root (inner ++ [root.stmt]) u visiting st =
      match bindGrouping env.reg env.linked root inner u.arg with
      | none => (errorEntry root u "unknown-group", st)
      | some r => toEntry env fuel r.2.1 r.2.2 r.1 visiting st := by
  rw [Lemmas.Uses.toEntry_uses env fuel root _ u visiting st hu,
    uses_binds env.reg env.linked root inner u.arg _ hinner hwf hfuel]
  cases bindGrouping env.reg env.linked root inner u.arg with
  | none => rfl
  | some r => obtain ⟨g, groot, gscope⟩ := r; rfl

/-- **foreign_scope_is_definers.**  A grouping reached through a foreign prefix is converted with
the imported side's module and with nothing of the using statement's scope: its root is a file
of the imported module's whole module and its scope is that file's (sub)module statement alone. -/
theorem foreign_scope_is_definers (reg : Registry) (linked : List Nat) (root : Mod) (inner : List Stmt) (name : String)
    (r : GroupingRef) (hforeign : isBare (localName root name) = false)
    (h : bindGrouping reg linked root inner name = some r) :
    ∃ i ∈ root.imports, ∃ x, reg.findModule false i = some x ∧ Reach reg linked x r.2.1 ∧ r.2.2 = [r.2.1.stmt] ∧
      declares r.2.1.stmt (afterPrefix ((i.argOf? "prefix").getD "") (localName root name)) = some r.1 := by
  unfold bindGrouping at h
  simp only [hforeign, Bool.false_eq_true, if_false] at h
  split at h
  · obtain ⟨i, hi, hf⟩ := List.exists_of_findSome?_eq_some h
    split at hf
    · cases hx : reg.findModule false i with
      | none => simp [hx] at hf
      | some x =>
        simp only [hx, Option.bind_some] at hf
        obtain ⟨s, hs, h1, h2, h3⟩ := Lemmas.Uses.found_some (ms := searchOrder reg linked x) hf
        refine ⟨i, hi, x, hx, ?_, ?_, ?_⟩
        · rw [h2]; exact Lemmas.Uses.visit_reach reg linked _ x [] s hs
        · rw [h3, h2]
        · rw [h2]; exact h1
    · cases hf
  · cases h

/-! ### faithful copy -/

/-- **copy_is_faithful.**  In the model the copy `dup` makes is the value itself, which is a copy
in the sense of the specification. -/
theorem copy_is_faithful (e : Entry) : CopyOf e e := Lemmas.Uses.copyOf_refl e

/-- **uses_is_copy.**  One step of the `uses` arm of `toEntry` (`usesStep`: the body of its fold
over the `uses` substatements), for a `uses` statement that binds to `r` and whose grouping
contributes names that are free in the using entry and pairwise distinct: the using entry's
children are its former children followed by exactly the grouping's own data nodes, computed in
the grouping's defining scope (`denoteGrouping`), each a `CopyOf` the grouping's own; the
grouping's errors are imported; nothing else of the using entry changes. -/
theorem uses_is_copy (env : Env) (fuel : Nat) (root : Mod) (inner : List Stmt) (u : Stmt) (visiting : List NodeId)
    (acc : Entry × TState) (r : GroupingRef) (hu : u.kw = "uses") (hinner : ∀ n ∈ inner, isModuleStmt n = false)
    (hwf : WellFormedRef root inner u.arg) (hfuel : bindFuel env.reg root inner ≤ 2 * fuel + 16)
    (hbind : bindGrouping env.reg env.linked root inner u.arg = some r)
    (hfresh : ∀ v ∈ denoteGrouping env fuel r visiting acc.2, v.name ∉ names acc.1)
    (hnodup : ((denoteGrouping env fuel r visiting acc.2).map (·.name)).Nodup) :
    let ge := (toEntry env fuel r.2.1 r.2.2 r.1 visiting acc.2).1
    let e' := (usesStep env (fuel + 1) root (inner ++ [root.stmt]) visiting acc u).1
    e'.dir = acc.1.dir ++ denoteGrouping env fuel r visiting acc.2 ∧
    CopyOfL (e'.dir.drop acc.1.dir.length) ge.dir ∧
    e'.d = { acc.1.d with errors := acc.1.d.errors ++ importedErrors ge } ∧
    e'.inp = acc.1.inp ∧ e'.out = acc.1.out := by
  intro ge e'
  have hstep : e' = acc.1.merge none ge := by
    show (usesStep env (fuel + 1) root (inner ++ [root.stmt]) visiting acc u).1 = _
    unfold usesStep
    rw [uses_scope env fuel root inner u visiting acc.2 hu hinner hwf hfuel, hbind]
  have hm := Lemmas.Uses.merge_none_free acc.1 ge hfresh hnodup
  rw [hstep, hm]
  refine ⟨?_, ?_, ?_, ?_, ?_⟩
  · rw [Lemmas.Uses.dir_withDir]; rfl
  · rw [Lemmas.Uses.dir_withDir, List.drop_left]
    exact Lemmas.Uses.copyOfL_refl _
  · rw [Lemmas.Uses.d_withDir, Lemmas.Uses.d_addErrs]
  · rw [Lemmas.Uses.inp_withDir, Lemmas.Uses.inp_addErrs]
  · rw [Lemmas.Uses.out_withDir, Lemmas.Uses.out_addErrs]

/-- **container_gets_copy.**  The same for `toEntry` itself: a `container` statement with one
`uses` substatement that binds to `r` gets, as its first children, exactly the grouping's own data
nodes computed in the grouping's defining scope; what the container's other substatements add
follows (a clash of one of those with a grouping name is a duplicate-key error and the grouping's
node stays).  `Lemmas.Uses.toEntry_list_uses_first`, `…_case_…`, `…_input_…`, `…_output_…`,
`…_notification_…` say the same about the other statements the generator puts `uses` into. -/
theorem container_gets_copy (env : Env) (fuel : Nat) (root : Mod) (inner : List Stmt) (n u : Stmt)
    (visiting : List NodeId) (st : TState) (r : GroupingRef) (hn : n.kw = "container") (hu : u.kw = "uses")
    (huses : n.all "uses" = [u]) (hinner : ∀ x ∈ inner, isModuleStmt x = false)
    (hwf : WellFormedRef root (n :: inner) u.arg) (hfuel : bindFuel env.reg root (n :: inner) ≤ 2 * fuel + 16)
    (hbind : bindGrouping env.reg env.linked root (n :: inner) u.arg = some r)
    (hnodup : ((denoteGrouping env fuel r visiting st).map (·.name)).Nodup) :
    ∃ tail, (toEntry env (fuel + 2) root (inner ++ [root.stmt]) n visiting st).1.dir =
      denoteGrouping env fuel r visiting st ++ tail := by
  have hinner' : ∀ x ∈ n :: inner, isModuleStmt x = false := by
    intro x hx
    rcases List.mem_cons.1 hx with rfl | hx
    · simp [isModuleStmt, hn]
    · exact hinner x hx
  obtain ⟨tail, ht⟩ := Lemmas.Uses.toEntry_container_uses_first env (fuel + 1) root (inner ++ [root.stmt]) n visiting st hn
  have hc := uses_is_copy env fuel root (n :: inner) u visiting (Lemmas.Uses.dir0 root n, st) r hu hinner' hwf hfuel hbind
    (by intro v _; simp [names, Lemmas.Uses.dir0, Entry.dir]) hnodup
  simp only at hc
  rw [huses, List.foldl_cons, List.foldl_nil] at ht
  refine ⟨tail, ?_⟩
  rw [ht]
  have h1 := hc.1
  simp only [List.cons_append] at h1
  rw [h1]
  simp [Lemmas.Uses.dir0, Entry.dir]

/-- **augment_gets_copy.**  The same for an `augment` statement (converted outside every cache). -/
theorem augment_gets_copy (env : Env) (fuel : Nat) (root : Mod) (inner : List Stmt) (n u : Stmt)
    (visiting : List NodeId) (st : TState) (r : GroupingRef) (hn : n.kw = "augment") (hu : u.kw = "uses")
    (huses : n.all "uses" = [u]) (hinner : ∀ x ∈ inner, isModuleStmt x = false)
    (hwf : WellFormedRef root (n :: inner) u.arg) (hfuel : bindFuel env.reg root (n :: inner) ≤ 2 * fuel + 16)
    (hbind : bindGrouping env.reg env.linked root (n :: inner) u.arg = some r)
    (hnodup : ((denoteGrouping env fuel r visiting st).map (·.name)).Nodup) :
    ∃ tail, (toEntry env (fuel + 2) root (inner ++ [root.stmt]) n visiting st).1.dir =
      denoteGrouping env fuel r visiting st ++ tail := by
  have hinner' : ∀ x ∈ n :: inner, isModuleStmt x = false := by
    intro x hx
    rcases List.mem_cons.1 hx with rfl | hx
    · simp [isModuleStmt, hn]
    · exact hinner x hx
  obtain ⟨tail, ht⟩ := Lemmas.Uses.toEntry_augment_uses_first env (fuel + 1) root (inner ++ [root.stmt]) n visiting st hn
  have hc := uses_is_copy env fuel root (n :: inner) u visiting (Lemmas.Uses.dir0 root n, st) r hu hinner' hwf hfuel hbind
    (by intro v _; simp [names, Lemmas.Uses.dir0, Entry.dir]) hnodup
  simp only at hc
  rw [huses, List.foldl_cons, List.foldl_nil] at ht
  refine ⟨tail, ?_⟩
  rw [ht]
  have h1 := hc.1
  simp only [List.cons_append] at h1
  rw [h1]
  simp [Lemmas.Uses.dir0, Entry.dir]

/-- **grouping_gets_copy.**  A `grouping` statement with a nested `uses` — when its own conversion
really runs, i.e. it is neither in the grouping cache (then the cached entry is the answer:
`later_uses_same`) nor under conversion (then the answer is the `cycle` error entry: C01
`cycles_are_errors`): the same fold as for a container, with the grouping itself added to the
statements under conversion; the grouping's entry starts with exactly the nested grouping's own
data nodes, computed in the nested grouping's defining scope. -/
theorem grouping_gets_copy (env : Env) (fuel : Nat) (root : Mod) (inner : List Stmt) (n u : Stmt)
    (visiting : List NodeId) (st : TState) (r : GroupingRef) (hn : n.kw = "grouping") (hu : u.kw = "uses")
    (huses : n.all "uses" = [u]) (hinner : ∀ x ∈ inner, isModuleStmt x = false)
    (hmiss : st.gcache.find? (·.1 == nodeId root n) = none) (hnv : visiting.contains (nodeId root n) = false)
    (hwf : WellFormedRef root (n :: inner) u.arg) (hfuel : bindFuel env.reg root (n :: inner) ≤ 2 * fuel + 16)
    (hbind : bindGrouping env.reg env.linked root (n :: inner) u.arg = some r)
    (hnodup : ((denoteGrouping env fuel r (nodeId root n :: visiting) st).map (·.name)).Nodup) :
    ∃ tail, (toEntry env (fuel + 2) root (inner ++ [root.stmt]) n visiting st).1.dir =
      denoteGrouping env fuel r (nodeId root n :: visiting) st ++ tail := by
  have hinner' : ∀ x ∈ n :: inner, isModuleStmt x = false := by
    intro x hx
    rcases List.mem_cons.1 hx with rfl | hx
    · simp [isModuleStmt, hn]
    · exact hinner x hx
  obtain ⟨tail, ht⟩ := Lemmas.Uses.toEntry_grouping_uses_first env (fuel + 1) root (inner ++ [root.stmt]) n visiting st hn
    hmiss hnv
  have hc := uses_is_copy env fuel root (n :: inner) u (nodeId root n :: visiting) (Lemmas.Uses.dir0 root n, st) r hu
    hinner' hwf hfuel hbind (by intro v _; simp [names, Lemmas.Uses.dir0, Entry.dir]) hnodup
  simp only at hc
  rw [huses, List.foldl_cons, List.foldl_nil] at ht
  refine ⟨tail, ?_⟩
  rw [ht]
  have h1 := hc.1
  simp only [List.cons_append] at h1
  rw [h1]
  simp [Lemmas.Uses.dir0, Entry.dir]

/-- **module_gets_copy.**  A `module` or `submodule` statement with a top-level `uses` — when its
own conversion really runs (not in the module cache, not under conversion): the (sub)module's
entry starts with exactly the grouping's own data nodes, computed in the grouping's defining
scope; everything the other fields add (the children of included submodules among them) follows. -/
theorem module_gets_copy (env : Env) (fuel : Nat) (root : Mod) (u : Stmt)
    (visiting : List NodeId) (st : TState) (r : GroupingRef)
    (hn : root.stmt.kw = "module" ∨ root.stmt.kw = "submodule") (hu : u.kw = "uses")
    (huses : root.stmt.all "uses" = [u])
    (hmiss : st.cache.find? (·.1 == root.seq) = none) (hnv : visiting.contains (nodeId root root.stmt) = false)
    (hwf : WellFormedRef root [] u.arg) (hfuel : bindFuel env.reg root [] ≤ 2 * fuel + 16)
    (hbind : bindGrouping env.reg env.linked root [] u.arg = some r)
    (hnodup : ((denoteGrouping env fuel r (nodeId root root.stmt :: visiting) st).map (·.name)).Nodup) :
    ∃ tail, (toEntry env (fuel + 2) root [] root.stmt visiting st).1.dir =
      denoteGrouping env fuel r (nodeId root root.stmt :: visiting) st ++ tail := by
  obtain ⟨tail, ht⟩ := Lemmas.Uses.toEntry_module_uses_first env (fuel + 1) root [] root.stmt visiting st hn hmiss hnv
  have hc := uses_is_copy env fuel root [] u (nodeId root root.stmt :: visiting) (Lemmas.Uses.dir0 root root.stmt, st) r hu
    (by intro x hx; cases hx) hwf hfuel hbind (by intro v _; simp [names, Lemmas.Uses.dir0, Entry.dir]) hnodup
  simp only at hc
  rw [huses, List.foldl_cons, List.foldl_nil] at ht
  refine ⟨tail, ?_⟩
  rw [ht]
  have h1 := hc.1
  simp only [List.nil_append] at h1
  rw [h1]
  simp [Lemmas.Uses.dir0, Entry.dir]

/-! ### the calls `processAll` makes: no fuel side condition

`Reached env fuel root scope n visiting` (Lemmas/UsesFuel.lean): the calls of `toEntry` reachable
from the top-level calls of `processAll` — a loaded (sub)module statement, or one of its deviate
statements, with fuel `entryFuel reg` and nothing under conversion — through the call sites of
`toEntry`'s body: a substatement, the grouping a `uses` statement resolves to, an included
submodule (`Lemmas.Fuel.Callee`; by `Lemmas.Fuel.body_congr` the body calls itself nowhere else).
Along every such path the remaining fuel stays above C01's measure by at least
`entryFuel reg - entryNeed reg`, and `bindFuel` is at most twice that plus 18
(`Lemmas.Uses.bindFuel_le_slack`, arithmetic over the statement counts of the registry). -/

/-- **process_fuel_reaches_bindFuel.**  At every `uses` statement reached from a top-level call of
`processAll`, the fuel `toEntry` hands to `findGrouping` is at least `bindFuel`: the side condition
of `uses_scope` / `uses_is_copy` / `container_gets_copy` holds by itself. -/
theorem process_fuel_reaches_bindFuel (env : Env) (fuel : Nat) (root : Mod) (inner : List Stmt) (u : Stmt)
    (visiting : List NodeId) (hr : Reached env (fuel + 1) root (inner ++ [root.stmt]) u visiting) (hu : u.kw = "uses") :
    bindFuel env.reg root inner ≤ 2 * fuel + 16 :=
  Lemmas.Uses.reached_bindFuel env hr (by simp [Lemmas.Fuel.isTracked, hu])

/-- **uses_scope_in_process.**  `uses_scope` for the calls `processAll` makes, without the fuel
bound: a reached `uses` statement converts to the conversion of the grouping it denotes, with the
grouping's own root module and ancestor chain, with one unit of fuel less (there is one). -/
theorem uses_scope_in_process (env : Env) (fuel : Nat) (root : Mod) (inner : List Stmt) (u : Stmt) (visiting : List NodeId)
    (st : TState) (hr : Reached env fuel root (inner ++ [root.stmt]) u visiting) (hu : u.kw = "uses")
    (hinner : ∀ n ∈ inner, isModuleStmt n = false) (hwf : WellFormedRef root inner u.arg) :
    toEntry env fuel root (inner ++ [root.stmt]) u visiting st =
      match bindGrouping env.reg env.linked root inner u.arg with
      | none => (errorEntry root u "unknown-group", st)
      | some r => toEntry env (fuel - 1) r.2.1 r.2.2 r.1 visiting st := by
  obtain ⟨h1, hb⟩ := Lemmas.Uses.reached_bindFuel' env hr (by simp [Lemmas.Fuel.isTracked, hu])
  obtain ⟨k, rfl⟩ : ∃ k, fuel = k + 1 := ⟨fuel - 1, by omega⟩
  exact uses_scope env k root inner u visiting st hu hinner hwf hb

/-- **uses_is_copy_in_process.**  `uses_is_copy` for the calls `processAll` makes, without the fuel
bound. -/
theorem uses_is_copy_in_process (env : Env) (fuel : Nat) (root : Mod) (inner : List Stmt) (u : Stmt) (visiting : List NodeId)
    (acc : Entry × TState) (r : GroupingRef) (hr : Reached env (fuel + 1) root (inner ++ [root.stmt]) u visiting)
    (hu : u.kw = "uses") (hinner : ∀ n ∈ inner, isModuleStmt n = false)
    (hwf : WellFormedRef root inner u.arg)
    (hbind : bindGrouping env.reg env.linked root inner u.arg = some r)
    (hfresh : ∀ v ∈ denoteGrouping env fuel r visiting acc.2, v.name ∉ names acc.1)
    (hnodup : ((denoteGrouping env fuel r visiting acc.2).map (·.name)).Nodup) :
    let ge := (toEntry env fuel r.2.1 r.2.2 r.1 visiting acc.2).1
    let e' := (usesStep env (fuel + 1) root (inner ++ [root.stmt]) visiting acc u).1
    e'.dir = acc.1.dir ++ denoteGrouping env fuel r visiting acc.2 ∧
    CopyOfL (e'.dir.drop acc.1.dir.length) ge.dir ∧
    e'.d = { acc.1.d with errors := acc.1.d.errors ++ importedErrors ge } ∧
    e'.inp = acc.1.inp ∧ e'.out = acc.1.out :=
  uses_is_copy env fuel root inner u visiting acc r hu hinner hwf
    (process_fuel_reaches_bindFuel env fuel root inner u visiting hr hu) hbind hfresh hnodup

/-- **container_gets_copy_in_process.**  `container_gets_copy` for a container statement reached
from a top-level call of `processAll` (its `uses` substatement is then reached as well). -/
theorem container_gets_copy_in_process (env : Env) (fuel : Nat) (root : Mod) (inner : List Stmt) (n u : Stmt)
    (visiting : List NodeId) (st : TState) (r : GroupingRef)
    (hr : Reached env (fuel + 2) root (inner ++ [root.stmt]) n visiting) (hn : n.kw = "container") (hu : u.kw = "uses")
    (huses : n.all "uses" = [u]) (hinner : ∀ x ∈ inner, isModuleStmt x = false)
    (hwf : WellFormedRef root (n :: inner) u.arg)
    (hbind : bindGrouping env.reg env.linked root (n :: inner) u.arg = some r)
    (hnodup : ((denoteGrouping env fuel r visiting st).map (·.name)).Nodup) :
    ∃ tail, (toEntry env (fuel + 2) root (inner ++ [root.stmt]) n visiting st).1.dir =
      denoteGrouping env fuel r visiting st ++ tail := by
  have hnt : Lemmas.Fuel.isTracked n = false := by simp [Lemmas.Fuel.isTracked, hn]
  have hum : u ∈ n.subs := Lemmas.Fuel.mem_all_subs (k := "uses") (by rw [huses]; exact List.mem_cons_self ..)
  have hru := Lemmas.Uses.Reached.child' hr (by rw [hnt]; simp) hum
  have hv : Lemmas.Fuel.visiting' root n visiting = visiting := by simp [Lemmas.Fuel.visiting', hnt]
  rw [hv] at hru
  exact container_gets_copy env fuel root inner n u visiting st r hn hu huses hinner hwf
    (process_fuel_reaches_bindFuel env fuel root (n :: inner) u visiting hru hu) hbind hnodup

/-- **grouping_gets_copy_in_process.**  `grouping_gets_copy` for a grouping statement reached from
a top-level call of `processAll`. -/
theorem grouping_gets_copy_in_process (env : Env) (fuel : Nat) (root : Mod) (inner : List Stmt) (n u : Stmt)
    (visiting : List NodeId) (st : TState) (r : GroupingRef)
    (hr : Reached env (fuel + 2) root (inner ++ [root.stmt]) n visiting) (hn : n.kw = "grouping") (hu : u.kw = "uses")
    (huses : n.all "uses" = [u]) (hinner : ∀ x ∈ inner, isModuleStmt x = false)
    (hmiss : st.gcache.find? (·.1 == nodeId root n) = none) (hnv : visiting.contains (nodeId root n) = false)
    (hwf : WellFormedRef root (n :: inner) u.arg)
    (hbind : bindGrouping env.reg env.linked root (n :: inner) u.arg = some r)
    (hnodup : ((denoteGrouping env fuel r (nodeId root n :: visiting) st).map (·.name)).Nodup) :
    ∃ tail, (toEntry env (fuel + 2) root (inner ++ [root.stmt]) n visiting st).1.dir =
      denoteGrouping env fuel r (nodeId root n :: visiting) st ++ tail := by
  have hnt : Lemmas.Fuel.isTracked n = true := by simp [Lemmas.Fuel.isTracked, hn]
  have hum : u ∈ n.subs := Lemmas.Fuel.mem_all_subs (k := "uses") (by rw [huses]; exact List.mem_cons_self ..)
  have hru := Lemmas.Uses.Reached.child' hr (by rw [hnv]; simp) hum
  have hv : Lemmas.Fuel.visiting' root n visiting = nodeId root n :: visiting := by simp [Lemmas.Fuel.visiting', hnt]
  rw [hv] at hru
  exact grouping_gets_copy env fuel root inner n u visiting st r hn hu huses hinner hmiss hnv hwf
    (process_fuel_reaches_bindFuel env fuel root (n :: inner) u _ hru hu) hbind hnodup

/-- **module_gets_copy_in_process.**  `module_gets_copy` for the top-level calls of `processAll`
themselves (and for every (sub)module statement reached through an include). -/
theorem module_gets_copy_in_process (env : Env) (fuel : Nat) (root : Mod) (u : Stmt)
    (visiting : List NodeId) (st : TState) (r : GroupingRef)
    (hr : Reached env (fuel + 2) root [] root.stmt visiting)
    (hn : root.stmt.kw = "module" ∨ root.stmt.kw = "submodule") (hu : u.kw = "uses")
    (huses : root.stmt.all "uses" = [u])
    (hmiss : st.cache.find? (·.1 == root.seq) = none) (hnv : visiting.contains (nodeId root root.stmt) = false)
    (hwf : WellFormedRef root [] u.arg)
    (hbind : bindGrouping env.reg env.linked root [] u.arg = some r)
    (hnodup : ((denoteGrouping env fuel r (nodeId root root.stmt :: visiting) st).map (·.name)).Nodup) :
    ∃ tail, (toEntry env (fuel + 2) root [] root.stmt visiting st).1.dir =
      denoteGrouping env fuel r (nodeId root root.stmt :: visiting) st ++ tail := by
  have hnt : Lemmas.Fuel.isTracked root.stmt = true := by
    rcases hn with hn | hn <;> simp [Lemmas.Fuel.isTracked, hn]
  have hum : u ∈ root.stmt.subs := Lemmas.Fuel.mem_all_subs (k := "uses") (by rw [huses]; exact List.mem_cons_self ..)
  have hru := Lemmas.Uses.Reached.child' hr (by rw [hnv]; simp) hum
  have hv : Lemmas.Fuel.visiting' root root.stmt visiting = nodeId root root.stmt :: visiting := by
    simp [Lemmas.Fuel.visiting', hnt]
  rw [hv] at hru
  exact module_gets_copy env fuel root u visiting st r hn hu huses hmiss hnv hwf
    (process_fuel_reaches_bindFuel env fuel root [] u _ hru hu) hbind hnodup

/-- **augment_gets_copy_in_process.**  `augment_gets_copy` for an augment statement reached from a
top-level call of `processAll`. -/
theorem augment_gets_copy_in_process (env : Env) (fuel : Nat) (root : Mod) (inner : List Stmt) (n u : Stmt)
    (visiting : List NodeId) (st : TState) (r : GroupingRef)
    (hr : Reached env (fuel + 2) root (inner ++ [root.stmt]) n visiting) (hn : n.kw = "augment") (hu : u.kw = "uses")
    (huses : n.all "uses" = [u]) (hinner : ∀ x ∈ inner, isModuleStmt x = false)
    (hwf : WellFormedRef root (n :: inner) u.arg)
    (hbind : bindGrouping env.reg env.linked root (n :: inner) u.arg = some r)
    (hnodup : ((denoteGrouping env fuel r visiting st).map (·.name)).Nodup) :
    ∃ tail, (toEntry env (fuel + 2) root (inner ++ [root.stmt]) n visiting st).1.dir =
      denoteGrouping env fuel r visiting st ++ tail := by
  have hnt : Lemmas.Fuel.isTracked n = false := by simp [Lemmas.Fuel.isTracked, hn]
  have hum : u ∈ n.subs := Lemmas.Fuel.mem_all_subs (k := "uses") (by rw [huses]; exact List.mem_cons_self ..)
  have hru := Lemmas.Uses.Reached.child' hr (by rw [hnt]; simp) hum
  have hv : Lemmas.Fuel.visiting' root n visiting = visiting := by simp [Lemmas.Fuel.visiting', hnt]
  rw [hv] at hru
  exact augment_gets_copy env fuel root inner n u visiting st r hn hu huses hinner hwf
    (process_fuel_reaches_bindFuel env fuel root (n :: inner) u visiting hru hu) hbind hnodup

/-- **uses_adds_only_copies.**  Without the freshness assumptions (a name collision is an error
recorded on the using entry and the colliding child is dropped): every child of the using entry
after the step is one of its former children or one of the grouping's own children, unchanged.
In particular a merged child keeps whatever namespace stamp it had — `merge none` writes none —
so grouping content reports the namespace of the tree it has been copied into
(`Props.C12.uses_no_stamp` draws that conclusion for `namespaceAt`). -/
theorem uses_adds_only_copies (e ge : Entry) :
    ∀ x ∈ (e.merge none ge).dir, x ∈ e.dir ∨ x ∈ ge.dir := by
  intro x hx
  rw [Lemmas.Uses.merge_none_eq] at hx
  have := Lemmas.Uses.mergeLoop_mem _ _ _ x hx
  rwa [Lemmas.Uses.dir_addErrs] at this

/-! ### independence -/

/-- **instances_independent** (frame).  Replacing the subtree at `p₁` by `f` of it (`f` keeping the
node's name, as every augment graft and every deviate statement does) leaves the data of every
node at a path `p₂` that is not at or below `p₁` unchanged, and the whole subtree at `p₂` when `p₂`
is not above `p₁` either; removing the node at `p₁` (deviate not-supported) likewise.  Two instances
of a grouping lie at paths neither of which is a prefix of the other, so whatever is done to one
leaves the other exactly as it was.  This is a property of path update on trees; that the Go trees
are such trees (no sharing between instances) is what the runner's aliasing oracle checks. -/
theorem instances_independent (root : Entry) (p₁ p₂ : Path) (f : Entry → Entry) (hname : NameStable p₁ f)
    (h : ¬ p₁ <+: p₂) :
    ((root.updateAt p₁ f).getAt p₂).map (·.d) = (root.getAt p₂).map (·.d) ∧
    (¬ p₂ <+: p₁ → (root.updateAt p₁ f).getAt p₂ = root.getAt p₂) ∧
    ((removeAt root p₁).getAt p₂).map (·.d) = (root.getAt p₂).map (·.d) :=
  ⟨Lemmas.Deviate.getAt_updateAt_frame f p₁ p₂ hname root h,
   fun h' => Lemmas.Deviate.getAt_updateAt_unrelated f p₁ p₂ hname root h h',
   Lemmas.Deviate.getAt_removeAt_frame root p₁ p₂ h⟩

/-- **augment_leaves_other_instances.**  The graft of an augment (`Process.augmentTree`: merge with
the augmenting module's namespace at the target path) leaves every subtree off the target path as
it was. -/
theorem augment_leaves_other_instances (root : Entry) (p₁ p₂ : Path) (ns : String) (a : Entry)
    (h₁ : ¬ p₁ <+: p₂) (h₂ : ¬ p₂ <+: p₁) :
    (root.updateAt p₁ fun te => te.merge (some ns) a).getAt p₂ = root.getAt p₂ :=
  Lemmas.Deviate.getAt_updateAt_unrelated _ p₁ p₂
    (NameStable.of_forall fun e => Lemmas.Uses.merge_name e (some ns) a) root h₁ h₂

/-- **deviation_leaves_other_instances.**  One deviate statement applied at `p₁`
(`Process.applyDeviations`: the node is replaced by `applyOneDeviate` of it) leaves every subtree
off that path as it was; so does every later `toEntry`, which does not read the forest at all. -/
theorem deviation_leaves_other_instances (opts : Opts) (ms : Stmt) (kind : String) (spec : Entry) (hp : Bool)
    (root node : Entry) (p₁ p₂ : Path) (hnode : root.getAt p₁ = some node) (h₁ : ¬ p₁ <+: p₂) (h₂ : ¬ p₂ <+: p₁) :
    (root.updateAt p₁ fun _ => (applyOneDeviate opts ms kind spec hp node).1).getAt p₂ = root.getAt p₂ := by
  refine Lemmas.Deviate.getAt_updateAt_unrelated _ p₁ p₂ (NameStable.of_pathNamed ?_) root h₁ h₂
  have hn := Lemmas.Deviate.pathNamed_of_getAt p₁ root node hnode
  unfold Lemmas.Deviate.PathNamed at hn ⊢
  split
  · next k hk => rw [hk] at hn; rw [Lemmas.Deviate.applyOneDeviate_name]; exact hn
  · trivial

/-- **instances_stay_copies.**  If the subtree at `p₂` is a copy of the grouping's own entry `ge`
before an update at an unrelated path `p₁`, it is one afterwards. -/
theorem instances_stay_copies (root inst ge : Entry) (p₁ p₂ : Path) (f : Entry → Entry) (hname : NameStable p₁ f)
    (h₁ : ¬ p₁ <+: p₂) (h₂ : ¬ p₂ <+: p₁) (hinst : root.getAt p₂ = some inst) (hcopy : CopyOf inst ge) :
    ∃ inst', (root.updateAt p₁ f).getAt p₂ = some inst' ∧ CopyOf inst' ge :=
  ⟨inst, by rw [(instances_independent root p₁ p₂ f hname h₁).2.1 h₂, hinst], hcopy⟩

/-- **later_uses_same.**  Every later conversion of a grouping that has been converted before —
every later `uses` of it, from whatever scope — yields the cached entry, exactly the value the
first use got, and leaves the conversion state as it is.  (Augments and deviations work on the
forest; the conversion state, with this cache, is not among their arguments, see
`Process.augmentTree` and `Process.applyDeviations`.) -/
theorem later_uses_same (env : Env) (fuel : Nat) (groot : Mod) (gscope gscope' : List Stmt) (g : Stmt)
    (visiting visiting' : List NodeId) (st : TState) (k : NodeId) (e : Entry) (hkw : g.kw = "grouping")
    (h : st.gcache.find? (·.1 == nodeId groot g) = some (k, e)) :
    toEntry env (fuel + 1) groot gscope g visiting st = (e, st) ∧
    toEntry env (fuel + 1) groot gscope' g visiting' st = (e, st) :=
  ⟨Lemmas.Uses.toEntry_grouping_cached env fuel groot gscope g visiting st k e hkw h,
   Lemmas.Uses.toEntry_grouping_cached env fuel groot gscope' g visiting' st k e hkw h⟩

/-- **cache_miss_stores.**  What the two caches hold: a grouping statement (a (sub)module
statement) that is not in its cache and not under conversion is converted by the fold of
`grouping_gets_copy` (`module_gets_copy`), and the entry this conversion returns is what it appends
to the cache — so what a later hit returns (`later_uses_same`, `module_cached_same`) is the entry
converted earlier, not something else. -/
theorem cache_miss_stores (env : Env) (fuel : Nat) (root : Mod) (scope : List Stmt) (n : Stmt)
    (visiting : List NodeId) (st : TState) (hnv : visiting.contains (nodeId root n) = false) :
    (n.kw = "grouping" → st.gcache.find? (·.1 == nodeId root n) = none →
      ∃ st' : TState, (toEntry env (fuel + 1) root scope n visiting st).2 =
        { st' with gcache := st'.gcache ++ [(nodeId root n, (toEntry env (fuel + 1) root scope n visiting st).1)] }) ∧
    (n.kw = "module" ∨ n.kw = "submodule" → st.cache.find? (·.1 == root.seq) = none →
      ∃ st' : TState, (toEntry env (fuel + 1) root scope n visiting st).2 =
        { st' with cache := st'.cache ++ [(root.seq, (toEntry env (fuel + 1) root scope n visiting st).1)] }) :=
  ⟨fun hkw hmiss => Lemmas.Uses.toEntry_grouping_stores env fuel root scope n visiting st hkw hmiss hnv,
   fun hkw hmiss => Lemmas.Uses.toEntry_module_stores env fuel root scope n visiting st hkw hmiss hnv⟩

/-- **first_use_fills_cache.**  The first conversion of a grouping (not in the cache, not under
conversion) returns an entry `e` and a state in which the grouping is bound to `e`: no nested
conversion has bound the grouping in between (nothing binds a grouping that is under conversion).
Hence every later conversion of it in that state — every later `uses`, from whatever scope, with
whatever is under conversion then — returns exactly `e` and leaves the state alone. -/
theorem first_use_fills_cache (env : Env) (fuel fuel' : Nat) (groot : Mod) (gscope gscope' : List Stmt) (g : Stmt)
    (visiting visiting' : List NodeId) (st : TState) (hkw : g.kw = "grouping")
    (hmiss : st.gcache.find? (·.1 == nodeId groot g) = none) (hnv : visiting.contains (nodeId groot g) = false) :
    let first := toEntry env (fuel + 1) groot gscope g visiting st
    first.2.gcache.find? (·.1 == nodeId groot g) = some (nodeId groot g, first.1) ∧
    toEntry env (fuel' + 1) groot gscope' g visiting' first.2 = (first.1, first.2) := by
  intro first
  have h := Lemmas.Uses.toEntry_grouping_fills env fuel groot gscope g visiting st hkw hmiss hnv
  exact ⟨h, Lemmas.Uses.toEntry_grouping_cached env fuel' groot gscope' g visiting' first.2 _ _ hkw h⟩

/-- **cached_entry_persists.**  The grouping cache only grows at its end: whatever `toEntry`
converts next (any statement, any scope), a grouping that is bound to `e` stays bound to `e` —
so `later_uses_same` applies in every later state of the run, and all uses of a grouping within one
`Process` run get the entry its first use produced. -/
theorem cached_entry_persists (env : Env) (fuel fuel' : Nat) (root groot : Mod) (scope gscope : List Stmt) (n g : Stmt)
    (visiting visiting' : List NodeId) (st : TState) (k : NodeId) (e : Entry) (hkw : g.kw = "grouping")
    (h : st.gcache.find? (·.1 == nodeId groot g) = some (k, e)) :
    let st' := (toEntry env fuel root scope n visiting st).2
    st'.gcache.find? (·.1 == nodeId groot g) = some (k, e) ∧
    toEntry env (fuel' + 1) groot gscope g visiting' st' = (e, st') := by
  intro st'
  have h' := Lemmas.Uses.gcache_binding_stays env fuel root scope n visiting st (nodeId groot g) (k, e) h
  exact ⟨h', Lemmas.Uses.toEntry_grouping_cached env fuel' groot gscope g visiting' st' k e hkw h'⟩

/-- **module_cached_same.**  A (sub)module that has been converted before is not converted again:
the module cache answers with the stored entry, from whatever scope and in-progress set, and the
conversion state stays as it is. -/
theorem module_cached_same (env : Env) (fuel : Nat) (root : Mod) (scope scope' : List Stmt) (n : Stmt)
    (visiting visiting' : List NodeId) (st : TState) (k : Nat) (e : Entry) (hkw : n.kw = "module" ∨ n.kw = "submodule")
    (h : st.cache.find? (·.1 == root.seq) = some (k, e)) :
    toEntry env (fuel + 1) root scope n visiting st = (e, st) ∧
    toEntry env (fuel + 1) root scope' n visiting' st = (e, st) :=
  ⟨Lemmas.Uses.toEntry_module_cached env fuel root scope n visiting st k e hkw h,
   Lemmas.Uses.toEntry_module_cached env fuel root scope' n visiting' st k e hkw h⟩

/-! ### extras (Entry.Extra, Entry.Exts) — over the small model of Spec/Uses.lean, not the resolver model -/

/-- `Extra[k]` of an append is the append of the `Extra[k]`. -/
theorem extras_vals_append (a b : Extras) (k : String) : (a.append b).vals k = a.vals k ++ b.vals k := by
  simp [Extras.vals, Extras.append, List.filter_append]

/-- **extras_copy_law.**  The `i`-th node a `uses` (extras `u`) of the grouping with entry `g` adds
is the grouping's `i`-th node `c` with, under every keyword, `c`'s own values followed by the
grouping statement's and then the uses statement's — and the same for the extension statements;
its name is `c`'s and everything below it is `c`'s, untouched.  Nothing else enters: in
particular no other use of the grouping. -/
theorem extras_copy_law (g : XEntry) (u : Extras) (i : Nat) (c : XEntry) (hc : g.kids[i]? = some c) :
    ∃ v, (usesInstance g u)[i]? = some v ∧ v.name = c.name ∧ v.kids = c.kids ∧
      (∀ k, v.x.vals k = c.x.vals k ++ g.x.vals k ++ u.vals k) ∧
      v.x.exts = c.x.exts ++ g.x.exts ++ u.exts := by
  refine ⟨.mk c.name (c.x.append (g.x.append u)) c.kids, ?_, rfl, rfl, ?_, ?_⟩
  · have hk : (usesEntry g u).kids = g.kids := rfl
    have hx : (usesEntry g u).x = g.x.append u := rfl
    unfold usesInstance mergeKids
    rw [List.getElem?_map, hk, hc, hx]
    rfl
  · intro k
    simp [XEntry.x, extras_vals_append, List.append_assoc]
  · simp [XEntry.x, Extras.append, List.append_assoc]

/-- **extras_nested_law.**  Through two levels — grouping `g₁` whose `j`-th node comes from
`uses g₂ { u₂ }`, itself used with extras `u₁` — the values arrive innermost first: own, `g₂`'s,
`u₂`, `g₁`'s, `u₁`. -/
theorem extras_nested_law (g₂ : XEntry) (u₂ : Extras) (n₁ : String) (x₁ : Extras) (pre post : List XEntry) (u₁ : Extras)
    (i : Nat) (c : XEntry) (hc : g₂.kids[i]? = some c) :
    ∃ v, (usesInstance (.mk n₁ x₁ (pre ++ usesInstance g₂ u₂ ++ post)) u₁)[pre.length + i]? = some v ∧
      v.name = c.name ∧ v.kids = c.kids ∧
      (∀ k, v.x.vals k = c.x.vals k ++ g₂.x.vals k ++ u₂.vals k ++ x₁.vals k ++ u₁.vals k) ∧
      v.x.exts = c.x.exts ++ g₂.x.exts ++ u₂.exts ++ x₁.exts ++ u₁.exts := by
  obtain ⟨w, hw, hn, hk, hv, he⟩ := extras_copy_law g₂ u₂ i c hc
  have hidx : (XEntry.mk n₁ x₁ (pre ++ usesInstance g₂ u₂ ++ post)).kids[pre.length + i]? = some w := by
    have hlt : i < (usesInstance g₂ u₂).length := by
      rcases List.getElem?_eq_some_iff.1 hw with ⟨h, _⟩; exact h
    simp only [XEntry.kids, List.append_assoc]
    rw [List.getElem?_append_right (Nat.le_add_right _ _), Nat.add_sub_cancel_left, List.getElem?_append_left hlt]
    exact hw
  obtain ⟨v, hv', hn', hk', hvv, hee⟩ := extras_copy_law (.mk n₁ x₁ (pre ++ usesInstance g₂ u₂ ++ post)) u₁ (pre.length + i) w hidx
  refine ⟨v, hv', hn'.trans hn, hk'.trans hk, ?_, ?_⟩
  · intro k
    rw [hvv k, hv k]
    simp [XEntry.x, List.append_assoc]
  · rw [hee, he]
    simp [XEntry.x, List.append_assoc]

/-- **extras_instances_independent.**  Two uses of one grouping: what the first adds is determined
by the grouping and its own uses statement alone — replacing the second use's extras by any
others changes nothing in the first instance, and the grouping's own entry is the same value
before and after.  (In the model a value cannot be written through another one; that the Go
slices behind `Extra` and `Exts` are not shared between the copies, so that the same holds there,
is what the runner's backing-array oracle checks — defect D62 was exactly such a shared array.) -/
theorem extras_instances_independent (g : XEntry) (u₁ u₂ u₂' : Extras) :
    (usesInstance g u₁, usesInstance g u₂).1 = (usesInstance g u₁, usesInstance g u₂').1 ∧
    ∀ (i : Nat) (c : XEntry), g.kids[i]? = some c → ∀ v : XEntry, (usesInstance g u₁)[i]? = some v →
      ∀ k, v.x.vals k = c.x.vals k ++ g.x.vals k ++ u₁.vals k := by
  refine ⟨rfl, ?_⟩
  intro i c hc v hv k
  obtain ⟨w, hw, _, _, h, _⟩ := extras_copy_law g u₁ i c hc
  rw [hw] at hv
  cases hv
  exact h k

namespace ExX
-- the D62 witness: leaf x with three if-features, used with u1 and with u2
def xLeaf : XEntry := .mk "x" { extra := [("if-feature", "f1"), ("if-feature", "f2"), ("if-feature", "f3")] } []
def gE : XEntry := .mk "g" {} [xLeaf]
example : (usesInstance gE { extra := [("if-feature", "u1")] }).map (·.x.vals "if-feature") = [["f1", "f2", "f3", "u1"]] := by
  decide
example : (usesInstance gE { extra := [("if-feature", "u2")] }).map (·.x.vals "if-feature") = [["f1", "f2", "f3", "u2"]] := by
  decide
end ExX

/-! ### non-vacuity: concrete schemas -/

namespace Ex
def st (file kw arg : String) (l c : Nat) (subs : List Stmt) : Stmt := .mk kw true arg file l c subs

/-
module m { prefix p; namespace "urn:m"; import x { prefix q; } include s;
  typedef t { type string; }
  grouping g { leaf a { type t; default d; } uses h; }           -- nested uses
  grouping h { container k { leaf-list b { type int8; min-elements 2; } action act { input { leaf i { type t; } } } } }
  container c1 { uses g; }  container c2 { uses p:g; }            -- g used twice in one module
  container c3 { grouping g { leaf inner { type t; } } container d { uses g; } }   -- shadowing
  container c4 { uses sg; } container c5 { uses q:xg; } }
submodule s { belongs-to m { prefix p; } grouping sg { leaf viaowner { type t; } uses h; } }   -- h: the owner's
module x { prefix x; namespace "urn:x"; import m { prefix pm; } typedef t { type boolean; }
  grouping xg { leaf xa { type t; } }  container cx { uses pm:g; } }   -- g used from another module
-/
def ty (f n : String) : Stmt := st f "type" n 0 0 []
def leafA : Stmt := st "m" "leaf" "a" 4 5 [ty "m" "t", st "m" "default" "d" 4 20 []]
def usesH : Stmt := st "m" "uses" "h" 4 30 []
def gS : Stmt := st "m" "grouping" "g" 4 3 [leafA, usesH]
def leafI : Stmt := st "m" "leaf" "i" 5 60 [ty "m" "t"]
def actS : Stmt := st "m" "action" "act" 5 40 [st "m" "input" "" 5 50 [leafI]]
def llB : Stmt := st "m" "leaf-list" "b" 5 20 [ty "m" "int8", st "m" "min-elements" "2" 5 30 []]
def kS : Stmt := st "m" "container" "k" 5 10 [llB, actS]
def hS : Stmt := st "m" "grouping" "h" 5 3 [kS]
def u1 : Stmt := st "m" "uses" "g" 6 10 []
def u2 : Stmt := st "m" "uses" "p:g" 6 30 []
def c1 : Stmt := st "m" "container" "c1" 6 3 [u1]
def c2 : Stmt := st "m" "container" "c2" 6 20 [u2]
def gIn : Stmt := st "m" "grouping" "g" 7 10 [st "m" "leaf" "inner" 7 20 [ty "m" "t"]]
def u3 : Stmt := st "m" "uses" "g" 7 50 []
def dS : Stmt := st "m" "container" "d" 7 40 [u3]
def c3 : Stmt := st "m" "container" "c3" 7 3 [gIn, dS]
def u4 : Stmt := st "m" "uses" "sg" 8 10 []
def c4 : Stmt := st "m" "container" "c4" 8 3 [u4]
def u5 : Stmt := st "m" "uses" "q:xg" 8 30 []
def c5 : Stmt := st "m" "container" "c5" 8 20 [u5]
def impX : Stmt := st "m" "import" "x" 1 30 [st "m" "prefix" "q" 1 40 []]
def incS : Stmt := st "m" "include" "s" 1 50 []
def mS : Stmt := st "m" "module" "m" 1 1
  [st "m" "prefix" "p" 1 12 [], st "m" "namespace" "urn:m" 1 20 [], impX, incS,
   st "m" "typedef" "t" 3 3 [ty "m" "string"], gS, hS, c1, c2, c3, c4, c5]
def usesHs : Stmt := st "s" "uses" "h" 2 40 []
def sgS : Stmt := st "s" "grouping" "sg" 2 3 [st "s" "leaf" "viaowner" 2 15 [ty "s" "t"], usesHs]
def sS : Stmt := st "s" "submodule" "s" 1 1
  [st "s" "belongs-to" "m" 1 12 [st "s" "prefix" "p" 1 20 []], sgS]
def xgS : Stmt := st "x" "grouping" "xg" 3 3 [st "x" "leaf" "xa" 3 15 [ty "x" "t"]]
def ux : Stmt := st "x" "uses" "pm:g" 4 15 []
def cx : Stmt := st "x" "container" "cx" 4 3 [ux]
def impM : Stmt := st "x" "import" "m" 1 30 [st "x" "prefix" "pm" 1 40 []]
def xS : Stmt := st "x" "module" "x" 1 1
  [st "x" "prefix" "x" 1 12 [], st "x" "namespace" "urn:x" 1 20 [], impM,
   st "x" "typedef" "t" 2 3 [ty "x" "boolean"], xgS, cx]
def m : Mod := { seq := 0, stmt := mS }
def s : Mod := { seq := 1, stmt := sS }
def x : Mod := { seq := 2, stmt := xS }
def reg : Registry := { mods := [m, s, x], modules := [("m", 0), ("x", 2)], subModules := [("s", 1)] }
def linked : List Nat := [0, 1, 2]
def env : Env := { reg := reg, tres := typesLite, linked := linked }

-- binding: module level, own prefix, shadowing by the nearest scope, the submodule's grouping,
-- from the submodule to its owner, a foreign prefix, and back from the other module
example : bindGrouping reg linked m [c1] "g" = some (gS, m, [mS]) := by rfl
example : bindGrouping reg linked m [c2] "p:g" = some (gS, m, [mS]) := by rfl
example : bindGrouping reg linked m [dS, c3] "g" = some (gIn, m, [c3, mS]) := by rfl
example : bindGrouping reg linked m [c4] "sg" = some (sgS, s, [sS]) := by rfl
example : bindGrouping reg linked s [sgS] "h" = some (hS, m, [mS]) := by rfl
example : bindGrouping reg linked m [c5] "q:xg" = some (xgS, x, [xS]) := by rfl
example : bindGrouping reg linked x [cx] "pm:g" = some (gS, m, [mS]) := by rfl
example : bindGrouping reg linked m [c1] "q:nosuch" = none := by rfl
-- the starting (sub)module is not marked, so it is listed again when the walk comes back to it
example : (searchOrder reg linked s).map (·.name) = ["s", "m", "s"] := by decide +kernel
example : (searchOrder reg linked m).map (·.name) = ["m", "s", "m"] := by decide +kernel

-- the hypotheses of the binding theorems are satisfiable, and the search agrees
example : isBare (localName m "p:g") = true := by decide
example : bindFuel reg m [dS, c3] = 3 + 5 * 15 := by decide
example : (findGrouping reg linked 200 m [dS, c3, mS] "g" []).1 = bindGrouping reg linked m [dS, c3] "g" :=
  uses_binds_lexically reg linked m [dS, c3] "g" 200 (by decide) (by decide) (by decide)
example : WellFormedRef m [c5] "q:xg" := Or.inr ⟨by decide, by decide⟩
example : (findGrouping reg linked 200 m [c5, mS] "q:xg" []).1 = some (xgS, x, [xS]) :=
  (uses_binds_import reg linked m [c5] "q:xg" 200 (by decide) (by decide) (by decide) (by decide) (by decide)).trans rfl

-- conversion.  (`String.contains`, which the model's search uses for "has a prefix", does not
-- reduce in the kernel; the examples below are chosen so that evaluation does not reach it, or go
-- through `uses_scope`.)
/-- names and, one level down, the children's names -/
def shape (e : Entry) : List (String × List String) := e.dir.map fun c => (c.name, c.dir.map (·.name))
def conv (root : Mod) (scope : List Stmt) (n : Stmt) : Entry := (toEntry env 40 root scope n [] {}).1

-- the grouping's own entry: nested uses of h expanded (container k), the action with its input
example : shape (conv m [mS] gS) = [("k", ["b", "act"]), ("a", [])] := by decide +kernel
example : ((conv m [mS] gS).getAt [.child "k", .child "act", .input, .child "i"]).map (·.d.name) = some "i" := by
  decide +kernel
-- g used twice in one module (unprefixed and with the own prefix): the same children
example : shape (conv m [mS] c1) = shape (conv m [mS] gS) ∧ shape (conv m [mS] c2) = shape (conv m [mS] gS) := by
  decide +kernel
example : ((conv m [mS] c1).getAt [.child "k", .child "b"]).map (·.d.listAttr.map (·.min)) = some (some 2) ∧
    ((conv m [mS] c2).getAt [.child "a"]).map (·.d.default) = some ["d"] ∧ (conv m [mS] c2).allErrors.length = 0 := by
  decide +kernel
-- shadowing: inside c3 the nearer g is used
example : shape (conv m [mS] c3) = [("d", ["inner"])] := by decide +kernel
-- g used from the other module: `uses_scope` reduces the conversion of `uses pm:g` in x to the
-- conversion of g in m's scope; the copy's leaf still belongs to m's text (seq 0), its type is the
-- `t` written there
example : (toEntry env 41 x ([cx] ++ [x.stmt]) ux [] {}) = toEntry env 40 m [mS] gS [] {} := by
  rw [uses_scope env 40 x [cx] ux [] {} rfl (by decide) (Or.inr ⟨by decide, by decide⟩) (by decide)]
  have hb : bindGrouping env.reg env.linked x [cx] ux.arg = some (gS, m, [mS]) := rfl
  rw [hb]
example : ((conv m [mS] gS).getAt [.child "a"]).map (fun e => (e.d.nodeMod, e.d.type.map (·.dump))) = some (0, some "t") := by
  decide +kernel
-- the hypotheses of `uses_is_copy` are satisfiable: c1's entry before its `uses` step is empty
example : ∀ v ∈ denoteGrouping env 40 (gS, m, [mS]) [] {}, v.name ∉ names (Entry.mk {} [] [] []) := by
  intro v _; simp [names, Entry.dir]
example : ((denoteGrouping env 40 (gS, m, [mS]) [] {}).map (·.name)).Nodup := by decide +kernel
-- `container_gets_copy` applies to c1
example : ∃ tail, (toEntry env 42 m ([] ++ [m.stmt]) c1 [] {}).1.dir = denoteGrouping env 40 (gS, m, [mS]) [] {} ++ tail :=
  container_gets_copy env 40 m [] c1 u1 [] {} (gS, m, [mS]) rfl rfl rfl (by simp) (Or.inl (by decide)) (by decide) rfl
    (by decide +kernel)

-- the calls `processAll` makes: container c1 is reached from the top-level call on module m (fuel
-- `entryFuel reg`, one unit spent), its `uses g` one step further; `uses_scope_in_process` and
-- `container_gets_copy_in_process` apply without any fuel hypothesis
theorem c1_reached : Reached env (entryFuel env.reg - 1) m ([] ++ [m.stmt]) c1 [nodeId m mS] :=
  Lemmas.Uses.Reached.child' (Reached.top (List.mem_cons_self ..)) (by decide) (by simp [m, mS, st, Stmt.subs])
example : ∃ k, entryFuel env.reg - 1 = k + 2 := ⟨entryFuel env.reg - 3, by decide⟩
example (st : TState) : toEntry env (entryFuel env.reg - 1 - 1) m ([c1] ++ [m.stmt]) u1 [nodeId m mS] st =
    toEntry env (entryFuel env.reg - 1 - 1 - 1) m [mS] gS [nodeId m mS] st := by
  have hr : Reached env (entryFuel env.reg - 1 - 1) m ([c1] ++ [m.stmt]) u1 [nodeId m mS] :=
    Lemmas.Uses.Reached.child' c1_reached (by decide) (by simp [c1, Ex.st, Stmt.subs])
  rw [uses_scope_in_process env _ m [c1] u1 _ st hr rfl (by decide) (Or.inl (by decide))]
  have hb : bindGrouping env.reg env.linked m [c1] u1.arg = some (gS, m, [mS]) := rfl
  rw [hb]

-- `first_use_fills_cache`: grouping g converted from module level, then used again from inside c3/d
-- (where another g shadows it for name lookup — the cache is keyed by the statement, not the name)
example : toEntry env 30 m [dS, c3, mS] gS [nodeId m mS] (toEntry env 41 m [mS] gS [] {}).2 =
    ((toEntry env 41 m [mS] gS [] {}).1, (toEntry env 41 m [mS] gS [] {}).2) :=
  (first_use_fills_cache env 40 29 m [mS] [dS, c3, mS] gS [] [nodeId m mS] {} rfl rfl rfl).2
-- `cached_entry_persists`: after converting container c3 (which converts the inner g) the binding of
-- the outer g is still there
example : ((toEntry env 41 m [mS] c3 [] (toEntry env 41 m [mS] gS [] {}).2).2.gcache.find? (·.1 == nodeId m gS)).map (·.1) =
    some (nodeId m gS) := by
  have h := (first_use_fills_cache env 40 0 m [mS] [mS] gS [] [] {} rfl rfl rfl).1
  rw [(cached_entry_persists env 41 0 m m [mS] [mS] c3 gS [] [] _ _ _ rfl h).1]
  rfl

-- the search order lists exactly the reached files: the hypothesis of `search_order_complete` holds
-- of this registry (three loaded files, three names), and the submodule is reached from the module
example : ReachNamesDistinct reg linked m := names_distinct_of_nodup reg linked m (List.mem_cons_self ..) (by decide)
example : Reach reg linked m s :=
  Reach.tail (Reach.refl _) (Spec.Uses.Step.incl (i := incS) (by decide) (by decide) (show incS ∈ [incS] from List.mem_cons_self ..) rfl)
example : s ∈ searchOrder reg linked m :=
  search_order_complete reg linked m (names_distinct_of_nodup reg linked m (List.mem_cons_self ..) (by decide)) s
    (Reach.tail (Reach.refl _) (Spec.Uses.Step.incl (i := incS) (by decide) (by decide) (show incS ∈ [incS] from List.mem_cons_self ..) rfl))
-- … and back from the submodule to its module
example : m ∈ searchOrder reg linked s :=
  search_order_complete reg linked s
    (names_distinct_of_nodup reg linked s (List.mem_cons_of_mem _ (List.mem_cons_self ..)) (by decide)) m
    (Reach.tail (Reach.refl _) (Spec.Uses.Step.owner (by decide) (by decide) rfl))
-- `whole_module_is_searched`: `uses h` written in the submodule sees the module's grouping h
example : ∃ r, bindGrouping reg linked s [sgS] "h" = some r :=
  whole_module_is_searched reg linked s [sgS] "h"
    (names_distinct_of_nodup reg linked s (List.mem_cons_of_mem _ (List.mem_cons_self ..)) (by decide)) (by decide) m
    (Reach.tail (Reach.refl _) (Spec.Uses.Step.owner (by decide) (by decide) rfl)) hS rfl

-- `grouping_gets_copy` applies to grouping g (its nested `uses h`), `augment_gets_copy` to an
-- augment statement with `uses h`
example : ∃ tail, (toEntry env 42 m ([] ++ [m.stmt]) gS [] {}).1.dir =
    denoteGrouping env 40 (hS, m, [mS]) [nodeId m gS] {} ++ tail :=
  grouping_gets_copy env 40 m [] gS usesH [] {} (hS, m, [mS]) rfl rfl rfl (by simp) rfl rfl (Or.inl (by decide)) (by decide)
    rfl (by decide +kernel)
def augS : Stmt := st "m" "augment" "/p:c1" 9 3 [st "m" "uses" "h" 9 20 []]
example : ∃ tail, (toEntry env 42 m ([] ++ [m.stmt]) augS [] {}).1.dir = denoteGrouping env 40 (hS, m, [mS]) [] {} ++ tail :=
  augment_gets_copy env 40 m [] augS (st "m" "uses" "h" 9 20 []) [] {} (hS, m, [mS]) rfl rfl rfl (by simp)
    (Or.inl (by decide)) (by decide) rfl (by decide +kernel)

/- module t { prefix t; namespace "urn:t"; grouping tg { leaf q { type string; } } uses tg; leaf z { type string; } } -/
def tgS : Stmt := st "t" "grouping" "tg" 2 3 [st "t" "leaf" "q" 2 15 [ty "t" "string"]]
def utS : Stmt := st "t" "uses" "tg" 3 3 []
def tS : Stmt := st "t" "module" "t" 1 1
  [st "t" "prefix" "t" 1 12 [], st "t" "namespace" "urn:t" 1 20 [], tgS, utS, st "t" "leaf" "z" 4 3 [ty "t" "string"]]
def t : Mod := { seq := 0, stmt := tS }
def envT : Env := { reg := { mods := [t], modules := [("t", 0)] }, tres := typesLite, linked := [0] }
-- `module_gets_copy` applies to module t: its entry starts with the grouping's leaf q, then z
example : ∃ tail, (toEntry envT 42 t [] t.stmt [] {}).1.dir = denoteGrouping envT 40 (tgS, t, [tS]) [nodeId t tS] {} ++ tail :=
  module_gets_copy envT 40 t utS [] {} (tgS, t, [tS]) (Or.inl rfl) rfl rfl rfl rfl (Or.inl (by decide)) (by decide) rfl
    (by decide +kernel)
-- the top-level call `processAll` makes on module t, with the model's fuel, no fuel hypothesis
example : ∃ k, entryFuel envT.reg = k + 2 ∧ ∃ tail, (toEntry envT (entryFuel envT.reg) t [] t.stmt [] {}).1.dir =
    denoteGrouping envT k (tgS, t, [tS]) [nodeId t tS] {} ++ tail := by
  refine ⟨entryFuel envT.reg - 2, by decide, ?_⟩
  have hf : entryFuel envT.reg = entryFuel envT.reg - 2 + 2 := by decide
  have hr : Reached envT (entryFuel envT.reg - 2 + 2) t [] t.stmt [] := hf ▸ Reached.top (List.mem_cons_self ..)
  have h := module_gets_copy_in_process envT (entryFuel envT.reg - 2) t utS [] {} (tgS, t, [tS]) hr (Or.inl rfl) rfl rfl rfl rfl
    (Or.inl (by decide)) rfl (by decide +kernel)
  rw [← hf] at h
  exact h
example : (toEntry envT 42 t [] t.stmt [] {}).1.dir.map (·.name) = ["q", "z"] := by decide +kernel
-- the module cache after that conversion holds the entry it returned (`cache_miss_stores`), and a
-- second conversion answers from it (`module_cached_same`)
example : (toEntry envT 42 t [] t.stmt [] {}).2.cache.map (·.1) = [0] := by decide +kernel
example (e : Entry) : toEntry envT 42 t [] t.stmt [] { cache := [(0, e)] } = (e, { cache := [(0, e)] }) :=
  (module_cached_same envT 41 t [] [] t.stmt [] [] { cache := [(0, e)] } 0 e (Or.inl rfl) rfl).1
end Ex

/-! A prefix is scoped per file: submodule `ms` (belongs-to main { prefix ms; }) imports `q` under
the prefix `m` that module `main` declares for itself; `uses m:params` written in the submodule
denotes `q`'s grouping, although `main` has a grouping `params` too (seeded change C06-d2). -/
namespace ExP
def st (file kw arg : String) (l c : Nat) (subs : List Stmt) : Stmt := .mk kw true arg file l c subs
def qParams : Stmt := st "q" "grouping" "params" 3 3 [st "q" "leaf" "from-q" 3 20 [st "q" "type" "string" 3 30 []]]
def qS : Stmt := st "q" "module" "q" 1 1 [st "q" "prefix" "q" 1 12 [], st "q" "namespace" "urn:q" 1 20 [], qParams]
def mainParams : Stmt := st "main" "grouping" "params" 3 3 [st "main" "leaf" "from-main" 3 20 [st "main" "type" "string" 3 30 []]]
def mainS : Stmt := st "main" "module" "main" 1 1
  [st "main" "prefix" "m" 1 12 [], st "main" "namespace" "urn:main" 1 20 [], st "main" "include" "main-sub" 2 3 [], mainParams]
def usesP : Stmt := st "sub" "uses" "m:params" 5 5 []
def subTop : Stmt := st "sub" "container" "sub-top" 4 3 [usesP]
def subS : Stmt := st "sub" "submodule" "main-sub" 1 1
  [st "sub" "belongs-to" "main" 2 3 [st "sub" "prefix" "ms" 2 20 []],
   st "sub" "import" "q" 3 3 [st "sub" "prefix" "m" 3 14 []], subTop]
def q : Mod := { seq := 0, stmt := qS }
def main : Mod := { seq := 1, stmt := mainS }
def sub : Mod := { seq := 2, stmt := subS }
def reg : Registry := { mods := [q, main, sub], modules := [("q", 0), ("main", 1)], subModules := [("main-sub", 2)] }

example : bindGrouping reg [0, 1, 2] sub [subTop] "m:params" = some (qParams, q, [qS]) := by rfl
example : bindGrouping reg [0, 1, 2] sub [subTop] "ms:params" = some (mainParams, main, [mainS]) := by rfl
example : bindGrouping reg [0, 1, 2] sub [subTop] "params" = some (mainParams, main, [mainS]) := by rfl
example : (findGrouping reg [0, 1, 2] 200 sub [subTop, subS] "m:params" []).1 = some (qParams, q, [qS]) :=
  (uses_binds_import reg [0, 1, 2] sub [subTop] "m:params" 200 (by decide) (by decide) (by decide) (by decide) (by decide)).trans rfl
end ExP

/-! The marks of the search are names.  Module `m` includes submodules `a` and `m` (a submodule
named like its module — against RFC 7950 5.1, but goyang loads it: modules and submodules are kept in
two tables).  Seen from submodule `a`, the walk goes to the owner `m` (marks "m"), from there to `a`
(marks "a") and skips the include of submodule `m`, whose name is marked: that file is reached but not
searched, and a grouping declared there is not found.  Go's `FindGrouping` does the same (it marks
`Module.Name`); `Process` reports "unknown group" for `uses g` written in `a` — together with a
circular-dependency error for `include m` in module `m`, so no tree is handed out for such a set. -/
namespace ExN
def st (file kw arg : String) (l c : Nat) (subs : List Stmt) : Stmt := .mk kw true arg file l c subs
def gS : Stmt := st "S" "grouping" "g" 2 3 [st "S" "leaf" "x" 2 15 [st "S" "type" "string" 2 20 []]]
def mS : Stmt := st "M" "module" "m" 1 1
  [st "M" "prefix" "p" 1 12 [], st "M" "namespace" "urn:m" 1 20 [], st "M" "include" "a" 2 3 [], st "M" "include" "m" 3 3 []]
def aS : Stmt := st "A" "submodule" "a" 1 1
  [st "A" "belongs-to" "m" 1 12 [st "A" "prefix" "p" 1 20 []], st "A" "container" "c" 2 3 [st "A" "uses" "g" 2 15 []]]
def smS : Stmt := st "S" "submodule" "m" 1 1 [st "S" "belongs-to" "m" 1 12 [st "S" "prefix" "p" 1 20 []], gS]
def m : Mod := { seq := 0, stmt := mS }
def a : Mod := { seq := 1, stmt := aS }
def sm : Mod := { seq := 2, stmt := smS }
def reg : Registry := { mods := [m, a, sm], modules := [("m", 0)], subModules := [("a", 1), ("m", 2)] }

theorem clash_reached : Reach reg [0, 1, 2] a sm :=
  Reach.tail (Reach.tail (Reach.refl _) (Spec.Uses.Step.owner (by decide) (by decide) rfl))
    (Spec.Uses.Step.incl (i := st "M" "include" "m" 3 3 []) (by decide) (by decide)
      (show st "M" "include" "m" 3 3 [] ∈ [st "M" "include" "a" 2 3 [], st "M" "include" "m" 3 3 []] by simp) rfl)

theorem clash_order : (searchOrder reg [0, 1, 2] a).map (·.seq) = [1, 0, 1] := by decide +kernel

example : bindGrouping reg [0, 1, 2] a [st "A" "container" "c" 2 3 [st "A" "uses" "g" 2 15 []]] "g" = none := by
  decide +kernel
example : (findGrouping reg [0, 1, 2] 200 a [st "A" "container" "c" 2 3 [st "A" "uses" "g" 2 15 []], aS] "g" []).1 = none :=
  (uses_binds_lexically reg [0, 1, 2] a [st "A" "container" "c" 2 3 [st "A" "uses" "g" 2 15 []]] "g" 200
    (by decide) (by decide) (by decide)).trans (by decide +kernel)
end ExN

/-- **search_order_needs_distinct_names.**  Without the hypothesis on the names,
`search_order_complete` is false: in `ExN.reg` the submodule named `m` is reached from submodule
`a` and is not in the search order from `a`. -/
theorem search_order_needs_distinct_names :
    ∃ (reg : Registry) (linked : List Nat) (m x : Mod), Reach reg linked m x ∧ x ∉ searchOrder reg linked m := by
  refine ⟨ExN.reg, [0, 1, 2], ExN.a, ExN.sm, ExN.clash_reached, ?_⟩
  intro h
  have h2 : ExN.sm.seq ∈ (searchOrder ExN.reg [0, 1, 2] ExN.a).map (·.seq) := List.mem_map_of_mem h
  rw [ExN.clash_order] at h2
  revert h2
  decide

end Goyang.Props.C06
