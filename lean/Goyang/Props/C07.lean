import Goyang.Lemmas.AugmentReport
import Goyang.Lemmas.AugmentPaths
import Goyang.Lemmas.AugmentExamples
import Goyang.Lemmas.AugmentErrs
import Goyang.Lemmas.AugmentErrsExamples
/-
C07 — augments are applied exactly once, order-independently, or reported.
Property theorems only; the work is in Goyang/Lemmas/Augment*.lean.

Reading aid.

* `Spec.Augment` (Goyang/Spec/Augment.lean) is the reference semantics on the *flat view* of a
  forest: `viewOf f l d` = "location `l` (tree, node names from its root) exists in `f` and carries
  data `d`" (all recorded data except the error list); an rpc / action node has an `input` and an
  `output` child whether or not the source wrote them.  `Aug` = a resolved augment (target
  location, namespace of the writing module, body).  `A.Applicable v` = the target exists in `v` as
  a node that can have children (not leaf / leaf-list / anydata / anyxml / an rpc or action node
  itself); `A.Collides v` = some node name of the body is already a child of the target;
  `graft v A` = `v` plus, below the target, the subtree of every body node with its root stamped
  with the module's namespace.  `Valid P v seq` = `seq` is a collision-free run over the pending
  set `P` (each member applicable and collision-free when applied, none twice), `Complete` = no
  pending augment outside `seq` is applicable at the end, `IsResult` = final view + unapplied set of
  a complete run.

* The model (`Model/Process.lean`: `augmentTree`, `augmentPass`, `augmentLoop`, `augmentPhase`,
  `processAll`) is analysed through `Lemmas.AugmentModel`: `augmentLoopR R …` is the same loop with
  the forest-independent part of `Find` (which tree, which step names — `Res.tgt`; the module
  namespace — `Res.ns`) as a parameter `R`, and with the *trace* of the run as an extra result:
  `loopState`, `loopMods`, `loopTrace` are its three results started with an empty trace; an event
  `ev` of the trace records owner tree, augment entry and the forest it was applied to
  (`ev.before`).  `model_loop_eq` says that for `R = Res.ofReg reg` this is exactly the model's
  `augmentLoop reg`, for pending augments whose arguments are absolute schema node identifiers
  (`PlainPending`: no `.`, `..` or empty steps — the Go code tolerates those, RFC 7950 does not
  have them).  `absAug R f0 id a` is the `Spec` augment of the pending entry `a` of tree `id`.
  The parameter exists because `String.splitOn` does not reduce in the kernel: the non-vacuity
  examples run the loop on concrete forests with a table for `R`.

* `mu s` is the number of pending augments (per row of the pending table); `Cover s mods` says
  the module list mentions every tree that has pending augments; `NodupPending s` that no augment
  entry is listed twice for one tree; `FVisErr f er` that error `er` is recorded on a node of `f`
  that can be reached by names (such errors are among those `GetErrors` sweeps: `visible_error_swept`).

What is claimed where.  (a) `augment_monotone`, (b) `graft_paths` + `graft_stamps` +
`grafted_namespace` + `view_eq_paths`, (c) `loop_is_complete_run` + `loop_no_truncation` + `model_fuel_sufficient`,
(d) `augment_loop_confluent` + `augment_loop_confluent_free` + `collision_in_every_order`,
(d′, on the ERROR LIST) `application_errors` + `failed_attempt_errors` (the bound on the errors one
attempt can add — exact, not only from above), `loop_error_set` (which errors `GetErrors` sweeps after
the loop), `augment_loop_confluent_errors` / `_observed` / `_model` (collision-free first order ⇒ every order ends
with the same error set, the same `canonErrs` list, no `duplicate-node` error),
`augment_loop_clean_iff` (one order ends without errors iff every order does),
`collision_error_in_every_order` + `fresh_duplicate_error_in_every_order` (a collision in one order ⇔
a new `duplicate-node` error, reported in every order), (e) `augment_exactly_once`,
(f) `augment_reported` (+ `augment_reported_phase` on the parametrised model).
The error-list theorems (d′) take three well-formedness hypotheses on the pure-value forest that Go
has for free from maps and pointers: one tree per id, `Spec.Tree.KeysUnique` of every tree (sibling
names pairwise different, at most one rpc input / output), and `KeysUnique` of the children of the
applied augment entries — `Entry.updateAt` rewrites every child of the name on its path and
`Forest.setTree` every tree of the id, so without them a second, invisible copy of the target could
collide on its own.  Props/C07Bridge.lean proves them of the state `processAll` enters the phase with
(`phaseStart_wellformed`).  In a run with collisions the error SETS of two orders differ by design
(the application that comes second is blamed: see the `Bad.collide` example); what is order
independent then is that a `duplicate-node` error is reported.
The invariant
"child names are distinct at every level" (`NoDupNames`), which `view_eq_paths` takes as a
hypothesis, is proved in Props/C07Bridge.lean: `merge` keeps it unconditionally
(`noDupNames_merge`), every tree has it when the augment phase starts, and every tree in which no
error is recorded has it after the loop (`phaseStart_noDupNames`, `loop_noDupNames`,
`view_eq_paths_phaseStart` / `_loop` / `_processAll`).  Equality of forests is equality of the flat
view: same locations with the same data; child order and whether an unwritten rpc input / output
entry has been created are abstracted (the dump sorts children; the correspondence run compares
the created entries).  `PhaseInput` (hypotheses of (f) about what `ToEntry` and the registry hand
to the loop) is not derived here; Props/C07Bridge.lean derives it from the `ToEntry` model for the
state `processAll` enters the phase with (`phaseInput_holds`) and restates (d), (e), (f) for
`processAll` itself (`augment_loop_confluent_processAll`, `augment_exactly_once_processAll`,
`augment_reported_processAll`, and for (d′) `augment_clean_iff_processAll`,
`augment_error_list_order_independent_processAll`).  What remains there are two decidable predicates
on the loaded statements: `AugPosDistinct` (augment statements of one module stand at different
positions) and `AugArgsPlain` (augment arguments are absolute schema node identifiers); C07Bridge
shows by kernel-checked witnesses that neither can be dropped (`augPosDistinct_needed`, the `..` example),
derives `AugPosDistinct` for registries loaded from C02-admissible texts (`augPosDistinct_of_loadTexts`;
the `_loadTexts` restatements keep `AugArgsPlain` only), and proves the error-set equality also when
pending augment entries carry errors of their own (`phaseStart_keysUnique`,
`augment_error_set_order_independent_processAll`).
Outside the claim, as in the property text: the implicit case of a shorthand choice member as
target (such an augment is applied by the stage after FixChoice — since the repair of D67 a fixpoint:
the loop is retried over the modules that still hold pending augments, FixChoice after every
productive round, then one reporting sweep `Augment(true)`; (f) counts it as applied there:
second trace of `phaseR`) and uses-augment.
-/
namespace Goyang.Props.C07
open Goyang.Model Goyang.Spec.Augment
open Goyang.Lemmas.AugmentConfl Goyang.Lemmas.AugmentTree Goyang.Lemmas.AugmentModel Goyang.Lemmas.AugmentStep
open Goyang.Lemmas.AugmentLoop Goyang.Lemmas.Augment Goyang.Lemmas.AugmentReport Goyang.Lemmas.AugmentPaths
open Goyang.Lemmas.AugmentErrs (FErr FKU)
open Goyang.Spec.Tree (KeysUnique)

/-! ### the reference semantics is well defined -/

/-- `Spec.IsResult` is a function of the pending set: two complete collision-free runs from the
same view end in the same view and leave the same augments unapplied. -/
theorem result_unique (P : Aug → Prop) (v0 f1 f2 : View) (u1 u2 : Aug → Prop)
    (h1 : IsResult P v0 f1 u1) (h2 : IsResult P v0 f2 u2) :
    (∀ l d, f1 l d ↔ f2 l d) ∧ (∀ a, u1 a ↔ u2 a) :=
  Goyang.Lemmas.AugmentConfl.result_unique P v0 f1 f2 u1 u2 h1 h2

/-- If ONE complete collision-free run exists, no collision-free run can get into a state in
which a still pending, applicable augment collides: a collision is a property of the pending set,
not of the order. -/
theorem never_collides (P : Aug → Prop) (v0 : View) (hp0 : PrefixClosed v0)
    (seq1 : List Aug) (hv1 : Valid P v0 seq1) (hc1 : Complete P v0 seq1)
    (seq2 : List Aug) (hv2 : Valid P v0 seq2) (a : Aug) (haP : P a) (hpend : a ∉ seq2)
    (happ : a.Applicable (after v0 seq2)) : ¬ a.Collides (after v0 seq2) :=
  Goyang.Lemmas.AugmentConfl.never_collides P v0 hp0 seq1 hv1 hc1 seq2 hv2 a haP hpend happ

/-! ### the model's loop is the analysed loop -/

/-- For augments with plain paths the model's `augmentLoop` is the parametrised loop at the
registry's resolution, trace erased. -/
theorem model_loop_eq (reg : Registry) (fuel : Nat) (mods : Array Nat) (s : PState) (hp : PlainPending reg s) :
    augmentLoop reg fuel mods s =
      (loopMods (Res.ofReg reg) fuel mods s, loopState (Res.ofReg reg) fuel mods s) :=
  augmentLoop_eq reg fuel mods s [] hp

/-- Likewise the whole augment part of `Process` (loop, FixChoice, retry rounds with FixChoice,
reporting sweep, FixChoice). -/
theorem model_phase_eq (reg : Registry) (order : List Nat) (fuel : Nat) (s : PState) (hp : PlainPending reg s) :
    augmentPhase reg order fuel s = (phaseR (Res.ofReg reg) order fuel s).1 :=
  augmentPhase_eq reg order fuel s hp

/-! ### (a) a step never removes or changes an existing node -/

/-- One attempt of one augment (one iteration of the loop in `Entry.Augment`), applied or not,
with or without `addErrors`: every location of the forest is still there afterwards with the same
data, every error recorded on a visible node is still recorded, and the same trees exist.  (What
may change: the target's child list and error lists; implicit rpc input / output nodes may have
been created, which the view contains anyway.) -/
theorem augment_monotone (R : Res) (id : Nat) (addErrors : Bool) (nsOf : String) (a : Entry) (f : Forest) :
    let f' := (attemptR R id addErrors nsOf a f).1
    (∀ l d, viewOf f l d → viewOf f' l d) ∧ (∀ er, FVisErr f er → FVisErr f' er) ∧
    (∀ t, (f'.tree? t).isSome = (f.tree? t).isSome) := by
  have hle : FLe f (attemptR R id addErrors nsOf a f).1 := by
    cases h : attemptR R id addErrors nsOf a f with
    | mk f' b =>
      cases b with
      | false => exact (attempt_fail h).2.1
      | true => exact attempt_ok_le h
  exact ⟨fun l d h => hle.view h, fun er h => h.mono hle, fun t => hle.isSome t⟩

/-- The same for the model's `augmentTree` (a whole `Entry.Augment` call). -/
theorem augment_monotone_model (reg : Registry) (id : Nat) (addErrors : Bool) (s : PState)
    (hp : PlainPending reg s) :
    let s' := (augmentTree reg id addErrors s).1
    (∀ l d, viewOf s.forest l d → viewOf s'.forest l d) ∧ (∀ er, FVisErr s.forest er → FVisErr s'.forest er) ∧
    (∀ t, (s'.forest.tree? t).isSome = (s.forest.tree? t).isSome) := by
  rw [augmentTree_eq reg id addErrors s (hp id)]
  obtain ⟨f', U, tr, hrel, hval, _⟩ := augmentTreeR_spec (Res.ofReg reg) id addErrors s
  have hle : FLe s.forest (augmentTreeR (Res.ofReg reg) id addErrors s).1.forest := by
    rw [hval]; exact FoldRel.le hrel
  exact ⟨fun l d h => hle.view h, fun er h => h.mono hle, fun t => hle.isSome t⟩

/-! ### (b) what a step adds -/

/-- A successful attempt whose body names are distinct and do not collide changes the view by
exactly `Spec.graft`: nothing is removed, and what is added is, below the target, the subtree of
each body node.  The augment was applicable.  (`nsOf` is what `augmentTree` passes: the namespace
of the owner's module.) -/
theorem graft_paths (R : Res) (id : Nat) (addErrors : Bool) (a : Entry) (f f' f0 : Forest)
    (h : attemptR R id addErrors (nsOfR R f0 id) a f = (f', true))
    (hnd : (absAug R f0 id a).roots.Nodup) (hnc : ¬ (absAug R f0 id a).Collides (viewOf f)) :
    (absAug R f0 id a).Applicable (viewOf f) ∧ viewOf f' = graft (viewOf f) (absAug R f0 id a) := by
  obtain ⟨_, happ, hgraft, _⟩ := attempt_ok h f0 rfl
  exact ⟨happ, hgraft hnd hnc⟩

/-- Exactly once and attribution, in the added part: each body node appears at
`target/name` and the root of the copy carries the augmenting module's namespace. -/
theorem graft_stamps (A : Aug) (t : NLoc) (ht : A.target = some t) (c : Entry) (hc : c ∈ A.body.dir) :
    A.adds (Aug.rootLoc t c.name) (nodeData (stamp A.ns c).d) ∧ (nodeData (stamp A.ns c).d).ns = some A.ns ∧
    (nodeData (stamp A.ns c).d).name = c.name :=
  ⟨⟨t, ht, rfl, c, hc, [], rfl, _, rfl, rfl⟩, by simp [stamp, nodeData], by simp [stamp, nodeData, Entry.name]⟩

/-- Attribution of descendants: `Namespace()` of a node below a stamped node — here: below the
root of a grafted copy — is that node's stamp, as far down as no deeper node carries a stamp of
its own (a node grafted into the copy by a further augment does, and starts its own region). -/
theorem grafted_namespace (reg : Registry) (f : Forest) (t : Nat) (root x : Entry) (p q : Path) (n : String)
    (ht : f.tree? t = some root) (hp : p ≠ []) (hx : root.getAt p = some x) (hn : x.d.ns = some n)
    (hq : ∀ q' y, q' ≠ [] → q' <+: q → x.getAt q' = some y → y.d.ns = none) :
    namespaceAt reg f (t, p ++ q) = n := by
  simp [namespaceAt, ht, stampAt_below root x p q n hp hx hn hq]

/-- The flat view as a list: for a tree whose child names are distinct at every level,
`Spec.paths` lists exactly the locations of the view with their data. -/
theorem view_eq_paths (f : Forest) (t : Nat) (root : Entry) (h : f.tree? t = some root) (hn : NoDupNames root)
    (P : NPath) (d : EData) : viewOf f (t, P) d ↔ (P, d) ∈ paths root := by
  rw [viewOf_at h, mem_paths root hn]

/-! ### (c) the loop performs a complete run, within its fuel -/

/-- Whatever the order and multiplicity of the module list (as long as it mentions every tree with
pending augments) and whatever the order inside the pending lists: with fuel above `mu s` the loop
ends in a state where no pending augment is applicable; its trace is a chain of successful
attempts from the initial to the final forest; the pending lists shrink by exactly the trace; and
the returned module list still mentions every tree with pending augments. -/
theorem loop_is_complete_run (R : Res) (fuel : Nat) (mods : Array Nat) (s : PState) (hn : NodupPending s)
    (hcov : Cover s mods) (hfuel : mu s < fuel) :
    Chain R s.forest s.forest (loopTrace R fuel mods s) (loopState R fuel mods s).forest ∧
    Book s (loopState R fuel mods s) (loopTrace R fuel mods s) ∧
    Cover (loopState R fuel mods s) (loopMods R fuel mods s) ∧
    (∀ id, ∀ a ∈ (loopState R fuel mods s).pendingOf id,
      ¬ (absAug R s.forest id a).Applicable (viewOf (loopState R fuel mods s).forest)) := by
  obtain ⟨h1, h2, h3, _, h5⟩ := loop_run R fuel mods s hn hcov hfuel
  exact ⟨h1, h2, h3, h5⟩

/-- In the reference semantics: when the loop leaves no `duplicate-node` error, its trace is a
complete collision-free run, its final view is the run's result and its leftover set is the run's
unapplied set — i.e. `Spec.IsResult`. -/
theorem loop_result (R : Res) (fuel : Nat) (mods : Array Nat) (s : PState) (hn : NodupPending s)
    (hcov : Cover s mods) (hfuel : mu s < fuel)
    (hfree : ∀ er, FVisErr (loopState R fuel mods s).forest er → er.cls ≠ "duplicate-node") :
    IsResult (PSet R s.forest s) (viewOf s.forest) (viewOf (loopState R fuel mods s).forest)
      (PSet R s.forest (loopState R fuel mods s)) := by
  obtain ⟨hv, hc, hview, hleft⟩ := loop_isResult R fuel mods s hn hcov hfuel hfree
  exact ⟨_, hv, hc, fun l d => by rw [hview], hleft⟩

/-- No truncation: above `mu s` the amount of fuel does not matter. -/
theorem loop_no_truncation (R : Res) (fuel1 fuel2 : Nat) (mods : Array Nat) (s : PState) (tr : List Ev)
    (hn : NodupPending s) (h1 : mu s < fuel1) (h2 : mu s < fuel2) :
    augmentLoopR R fuel1 mods s tr = augmentLoopR R fuel2 mods s tr :=
  loop_fuel_irrelevant R fuel1 fuel2 mods s tr hn h1 h2

/-- The fuel `processAll` gives the loop (`total + 2`, `total` = sum of the lengths of the rows of
the pending table) is above `mu` when the table has one row per tree: the bound in the model is
sufficient (with one unit to spare). -/
theorem model_fuel_sufficient (s : PState) (hk : (keys s).Nodup) :
    mu s < s.pending.foldl (fun n p => n + p.2.length) 0 + 2 :=
  fuel_sufficient s hk

/-! ### (d) order independence -/

/-- Two runs of the loop from the same forest over the same pending sets: any two module lists
(orders, repetitions) that mention the trees with pending augments, any order inside each pending
list.  If the first run leaves no `duplicate-node` error then the second run never collides,
applies the same augments, ends in the same view and leaves the same augments unapplied. -/
theorem augment_loop_confluent (R : Res) (fuel1 fuel2 : Nat) (mods1 mods2 : Array Nat) (s1 s2 : PState)
    (hforest : s2.forest = s1.forest) (hpend : ∀ id a, a ∈ s2.pendingOf id ↔ a ∈ s1.pendingOf id)
    (hn1 : NodupPending s1) (hn2 : NodupPending s2) (hcov1 : Cover s1 mods1) (hcov2 : Cover s2 mods2)
    (hfuel1 : mu s1 < fuel1) (hfuel2 : mu s2 < fuel2)
    (hfree : ∀ er, FVisErr (loopState R fuel1 mods1 s1).forest er → er.cls ≠ "duplicate-node") :
    viewOf (loopState R fuel2 mods2 s2).forest = viewOf (loopState R fuel1 mods1 s1).forest ∧
    (∀ id a, a ∈ (loopState R fuel2 mods2 s2).pendingOf id ↔ a ∈ (loopState R fuel1 mods1 s1).pendingOf id) ∧
    (∀ ev ∈ loopTrace R fuel2 mods2 s2, EvFree R s1.forest ev) ∧
    (∀ x, x ∈ (loopTrace R fuel2 mods2 s2).map Ev.key ↔ x ∈ (loopTrace R fuel1 mods1 s1).map Ev.key) :=
  loop_confluent R fuel1 fuel2 mods1 mods2 s1 s2 hforest hpend hn1 hn2 hcov1 hcov2 hfuel1 hfuel2 hfree

/-- The symmetric form, with collision-freeness stated on the applications themselves: if no
application of one order collides, none of any other order does, and both orders apply the same
augments, end in the same view and leave the same augments unapplied. -/
theorem augment_loop_confluent_free (R : Res) (fuel1 fuel2 : Nat) (mods1 mods2 : Array Nat) (s1 s2 : PState)
    (hforest : s2.forest = s1.forest) (hpend : ∀ id a, a ∈ s2.pendingOf id ↔ a ∈ s1.pendingOf id)
    (hn1 : NodupPending s1) (hn2 : NodupPending s2) (hcov1 : Cover s1 mods1) (hcov2 : Cover s2 mods2)
    (hfuel1 : mu s1 < fuel1) (hfuel2 : mu s2 < fuel2)
    (hfr1 : ∀ ev ∈ loopTrace R fuel1 mods1 s1, EvFree R s1.forest ev) :
    viewOf (loopState R fuel2 mods2 s2).forest = viewOf (loopState R fuel1 mods1 s1).forest ∧
    (∀ id a, a ∈ (loopState R fuel2 mods2 s2).pendingOf id ↔ a ∈ (loopState R fuel1 mods1 s1).pendingOf id) ∧
    (∀ ev ∈ loopTrace R fuel2 mods2 s2, EvFree R s1.forest ev) ∧
    (∀ x, x ∈ (loopTrace R fuel2 mods2 s2).map Ev.key ↔ x ∈ (loopTrace R fuel1 mods1 s1).map Ev.key) :=
  loop_confluent_free R fuel1 fuel2 mods1 mods2 s1 s2 hforest hpend hn1 hn2 hcov1 hcov2 hfuel1 hfuel2 hfr1

/-- The same for the model's `augmentLoop` (what cannot be said without the trace is left out). -/
theorem augment_loop_confluent_model (reg : Registry) (fuel1 fuel2 : Nat) (mods1 mods2 : Array Nat) (s1 s2 : PState)
    (hp1 : PlainPending reg s1) (hp2 : PlainPending reg s2)
    (hforest : s2.forest = s1.forest) (hpend : ∀ id a, a ∈ s2.pendingOf id ↔ a ∈ s1.pendingOf id)
    (hn1 : NodupPending s1) (hn2 : NodupPending s2) (hcov1 : Cover s1 mods1) (hcov2 : Cover s2 mods2)
    (hfuel1 : mu s1 < fuel1) (hfuel2 : mu s2 < fuel2)
    (hfree : ∀ er, FVisErr (augmentLoop reg fuel1 mods1 s1).2.forest er → er.cls ≠ "duplicate-node") :
    viewOf (augmentLoop reg fuel2 mods2 s2).2.forest = viewOf (augmentLoop reg fuel1 mods1 s1).2.forest ∧
    (∀ id a, a ∈ (augmentLoop reg fuel2 mods2 s2).2.pendingOf id ↔ a ∈ (augmentLoop reg fuel1 mods1 s1).2.pendingOf id) := by
  rw [model_loop_eq reg fuel1 mods1 s1 hp1] at hfree ⊢
  rw [model_loop_eq reg fuel2 mods2 s2 hp2]
  obtain ⟨h1, h2, _, _⟩ := loop_confluent (Res.ofReg reg) fuel1 fuel2 mods1 mods2 s1 s2 hforest hpend hn1 hn2
    hcov1 hcov2 hfuel1 hfuel2 hfree
  exact ⟨h1, h2⟩

/-- Collision in one order ⇒ collision, and an error, in every order.  Part 1: an application
that collides (a body name already present below the target, or repeated inside the body) leaves
a `duplicate-node` error on a visible node of the final forest, in any order.  Part 2 is the third
conjunct of `augment_loop_confluent`: if one order ends without such an error, no application of
any other order collides — so if some application of some order collides, every order ends with a
`duplicate-node` error. -/
theorem collision_in_every_order (R : Res) (fuel1 fuel2 : Nat) (mods1 mods2 : Array Nat) (s1 s2 : PState)
    (hforest : s2.forest = s1.forest) (hpend : ∀ id a, a ∈ s2.pendingOf id ↔ a ∈ s1.pendingOf id)
    (hn1 : NodupPending s1) (hn2 : NodupPending s2) (hcov1 : Cover s1 mods1) (hcov2 : Cover s2 mods2)
    (hfuel1 : mu s1 < fuel1) (hfuel2 : mu s2 < fuel2)
    (ev : Ev) (hev : ev ∈ loopTrace R fuel2 mods2 s2)
    (hbad : ¬ (absEv R s1.forest ev).roots.Nodup ∨ (absEv R s1.forest ev).Collides (viewOf ev.before)) :
    (∃ er, FVisErr (loopState R fuel2 mods2 s2).forest er ∧ er.cls = "duplicate-node") ∧
    (∃ er, FVisErr (loopState R fuel1 mods1 s1).forest er ∧ er.cls = "duplicate-node") := by
  refine ⟨?_, ?_⟩
  · have := loop_collision_reported R fuel2 mods2 s2 hn2 hcov2 hfuel2 ev hev (by rw [hforest]; exact hbad)
    exact this
  · apply Classical.byContradiction
    intro hno
    have hfree : ∀ er, FVisErr (loopState R fuel1 mods1 s1).forest er → er.cls ≠ "duplicate-node" :=
      fun er h1 h2 => hno ⟨er, h1, h2⟩
    obtain ⟨_, _, hfr, _⟩ := loop_confluent R fuel1 fuel2 mods1 mods2 s1 s2 hforest hpend hn1 hn2 hcov1 hcov2
      hfuel1 hfuel2 hfree
    rcases hbad with h | h
    · exact h (hfr ev hev).1
    · exact (hfr ev hev).2 h

/-! ### (d′) order independence of the ERROR LIST

`FErr f er`: error `er` is recorded somewhere in a tree of `f` (one that `tree?` finds); with one tree
per id this is membership in the sweep `allErrs f` (`GetErrors`).  `FKU f`: every tree has
`Spec.Tree.KeysUnique` (C04: sibling names pairwise different, at most one rpc input / output at
every node).  The pure-value model needs both where Go has maps and pointers: `updateAt` rewrites
every child of the name on its path and `setTree` every tree of the id. -/

/-- **Upper bound on the errors of one application** (with the lower bound: it is exact).  A
successful attempt adds to the errors recorded in the forest the errors recorded inside the augment
entry (`merge` imports them) and the `duplicate-node` error positioned at the augment statement —
the latter exactly when a body name is repeated or already a child of the target; nothing else. -/
theorem application_errors (R : Res) (id : Nat) (nsOf : String) (a : Entry) (f f' : Forest)
    (h : attemptR R id false nsOf a f = (f', true)) (hku : FKU f) (er : Err) :
    FErr f' er ↔ FErr f er ∨ er ∈ a.allErrors ∨
      (er = Err.at_ a.d.node "duplicate-node" ∧
        (¬ (absAug R f id a).roots.Nodup ∨ (absAug R f id a).Collides (viewOf f))) := by
  have hout := Goyang.Lemmas.AugmentErrs.attempt_errs R id nsOf a f
  rw [h] at hout
  generalize hfe : (f', true) = res at hout
  cases hout with
  | fail _ _ _ _ => simp at hfe
  | ok f'' _ _ h3 =>
    simp only [Prod.mk.injEq, and_true] at hfe
    subst hfe
    exact h3 hku er

/-- A failed attempt of the loop adds nothing — except the `other` error `Find` records on the root
of the owner's tree when the first prefix of the path denotes no module. -/
theorem failed_attempt_errors (R : Res) (id : Nat) (nsOf : String) (a : Entry) (f f' : Forest)
    (h : attemptR R id false nsOf a f = (f', false)) (hku : FKU f) (er : Err) :
    FErr f' er ↔ FErr f er ∨ (er = Err.bare "other" ∧ R.tgt id a = .badPrefix ∧ (f.tree? id).isSome = true) := by
  have hout := Goyang.Lemmas.AugmentErrs.attempt_errs R id nsOf a f
  rw [h] at hout
  generalize hfe : (f', false) = res at hout
  cases hout with
  | ok _ _ _ _ => simp at hfe
  | fail f'' _ _ h3 =>
    simp only [Prod.mk.injEq, and_true] at hfe
    subst hfe
    exact h3 hku er

/-- **The error list of the loop.**  For a forest with one tree per id and unique keys, and applied
augment bodies with unique keys: `GetErrors` after the loop sweeps exactly the errors recorded before
the loop, the `other` error when some pending augment of an existing tree has an unresolvable first
prefix, the errors recorded inside the APPLIED augment entries, and, for each applied augment, the
`duplicate-node` error at its statement when — and only when — its application collided. -/
theorem loop_error_set (R : Res) (fuel : Nat) (mods : Array Nat) (s : PState) (hcov : Cover s mods) (hfuel : 0 < fuel)
    (hids : (s.forest.trees.map (·.1)).Nodup) (hku : ∀ t ∈ s.forest.trees, KeysUnique t.2)
    (hbody : ∀ ev ∈ loopTrace R fuel mods s, ∀ c ∈ ev.aug.dir, KeysUnique c) (er : Err) :
    er ∈ allErrs (loopState R fuel mods s).forest ↔
      er ∈ allErrs s.forest ∨
      (er = Err.bare "other" ∧
        ∃ id a, a ∈ s.pendingOf id ∧ R.tgt id a = .badPrefix ∧ (s.forest.tree? id).isSome = true) ∨
      ∃ ev ∈ loopTrace R fuel mods s, er ∈ ev.aug.allErrors ∨
        (er = Err.at_ ev.aug.d.node "duplicate-node" ∧
          (¬ (absEv R s.forest ev).roots.Nodup ∨ (absEv R s.forest ev).Collides (viewOf ev.before))) :=
  Goyang.Lemmas.AugmentErrs.loop_errs R fuel mods s hcov hfuel hids hku hbody er

/-- **Confluence on the error list.**  Two runs of the loop from the same forest over the same
pending sets (any module lists that mention the trees with pending augments, any order inside the
pending lists).  If no application of the first run collides, both runs end with the same SET of
recorded errors, hence with the same canonical (sorted, duplicate-free) error list. -/
theorem augment_loop_confluent_errors (R : Res) (fuel1 fuel2 : Nat) (mods1 mods2 : Array Nat) (s1 s2 : PState)
    (hforest : s2.forest = s1.forest) (hpend : ∀ id a, a ∈ s2.pendingOf id ↔ a ∈ s1.pendingOf id)
    (hn1 : NodupPending s1) (hn2 : NodupPending s2) (hcov1 : Cover s1 mods1) (hcov2 : Cover s2 mods2)
    (hfuel1 : mu s1 < fuel1) (hfuel2 : mu s2 < fuel2)
    (hids : (s1.forest.trees.map (·.1)).Nodup) (hku : ∀ t ∈ s1.forest.trees, KeysUnique t.2)
    (hbody : ∀ ev ∈ loopTrace R fuel1 mods1 s1, ∀ c ∈ ev.aug.dir, KeysUnique c)
    (hfr1 : ∀ ev ∈ loopTrace R fuel1 mods1 s1, EvFree R s1.forest ev) :
    (∀ er, er ∈ allErrs (loopState R fuel2 mods2 s2).forest ↔ er ∈ allErrs (loopState R fuel1 mods1 s1).forest) ∧
    canonErrs (allErrs (loopState R fuel2 mods2 s2).forest) = canonErrs (allErrs (loopState R fuel1 mods1 s1).forest) := by
  have h := Goyang.Lemmas.AugmentErrs.loop_errs_confluent R fuel1 fuel2 mods1 mods2 s1 s2 hforest hpend hn1 hn2 hcov1 hcov2
    hfuel1 hfuel2 hids hku hbody hfr1
  exact ⟨h, Goyang.Lemmas.AugmentErrs.canonErrs_set_invariant h⟩

/-- The same with the observable hypothesis of `augment_loop_confluent`: the first run leaves no
`duplicate-node` error.  Then the second run's error list is the first's — in particular it has no
`duplicate-node` error either. -/
theorem augment_loop_confluent_errors_observed (R : Res) (fuel1 fuel2 : Nat) (mods1 mods2 : Array Nat) (s1 s2 : PState)
    (hforest : s2.forest = s1.forest) (hpend : ∀ id a, a ∈ s2.pendingOf id ↔ a ∈ s1.pendingOf id)
    (hn1 : NodupPending s1) (hn2 : NodupPending s2) (hcov1 : Cover s1 mods1) (hcov2 : Cover s2 mods2)
    (hfuel1 : mu s1 < fuel1) (hfuel2 : mu s2 < fuel2)
    (hids : (s1.forest.trees.map (·.1)).Nodup) (hku : ∀ t ∈ s1.forest.trees, KeysUnique t.2)
    (hbody : ∀ ev ∈ loopTrace R fuel1 mods1 s1, ∀ c ∈ ev.aug.dir, KeysUnique c)
    (hfree : ∀ er ∈ allErrs (loopState R fuel1 mods1 s1).forest, er.cls ≠ "duplicate-node") :
    (∀ er, er ∈ allErrs (loopState R fuel2 mods2 s2).forest ↔ er ∈ allErrs (loopState R fuel1 mods1 s1).forest) ∧
    canonErrs (allErrs (loopState R fuel2 mods2 s2).forest) = canonErrs (allErrs (loopState R fuel1 mods1 s1).forest) ∧
    (∀ er ∈ allErrs (loopState R fuel2 mods2 s2).forest, er.cls ≠ "duplicate-node") := by
  have hfr1 := chain_free_of_no_dup_err (loop_run R fuel1 mods1 s1 hn1 hcov1 hfuel1).1
    (fun er h => hfree er (fVisErr_allErrs h))
  obtain ⟨h1, h2⟩ := augment_loop_confluent_errors R fuel1 fuel2 mods1 mods2 s1 s2 hforest hpend hn1 hn2 hcov1 hcov2
    hfuel1 hfuel2 hids hku hbody hfr1
  exact ⟨h1, h2, fun er her => hfree er ((h1 er).mp her)⟩

/-- The same for the model's `augmentLoop` (the hypothesis on the bodies is stated on the pending
entries, since the model's loop returns no trace). -/
theorem augment_loop_confluent_errors_model (reg : Registry) (fuel1 fuel2 : Nat) (mods1 mods2 : Array Nat) (s1 s2 : PState)
    (hp1 : PlainPending reg s1) (hp2 : PlainPending reg s2)
    (hforest : s2.forest = s1.forest) (hpend : ∀ id a, a ∈ s2.pendingOf id ↔ a ∈ s1.pendingOf id)
    (hn1 : NodupPending s1) (hn2 : NodupPending s2) (hcov1 : Cover s1 mods1) (hcov2 : Cover s2 mods2)
    (hfuel1 : mu s1 < fuel1) (hfuel2 : mu s2 < fuel2)
    (hids : (s1.forest.trees.map (·.1)).Nodup) (hku : ∀ t ∈ s1.forest.trees, KeysUnique t.2)
    (hbody : ∀ id, ∀ a ∈ s1.pendingOf id, ∀ c ∈ a.dir, KeysUnique c)
    (hfree : ∀ er ∈ allErrs (augmentLoop reg fuel1 mods1 s1).2.forest, er.cls ≠ "duplicate-node") :
    (∀ er, er ∈ allErrs (augmentLoop reg fuel2 mods2 s2).2.forest ↔ er ∈ allErrs (augmentLoop reg fuel1 mods1 s1).2.forest) ∧
    canonErrs (allErrs (augmentLoop reg fuel2 mods2 s2).2.forest) =
      canonErrs (allErrs (augmentLoop reg fuel1 mods1 s1).2.forest) ∧
    (∀ er ∈ allErrs (augmentLoop reg fuel2 mods2 s2).2.forest, er.cls ≠ "duplicate-node") := by
  rw [model_loop_eq reg fuel1 mods1 s1 hp1] at hfree ⊢
  rw [model_loop_eq reg fuel2 mods2 s2 hp2]
  have hbook := (loop_run (Res.ofReg reg) fuel1 mods1 s1 hn1 hcov1 hfuel1).2.1
  exact augment_loop_confluent_errors_observed (Res.ofReg reg) fuel1 fuel2 mods1 mods2 s1 s2 hforest hpend hn1 hn2 hcov1 hcov2
    hfuel1 hfuel2 hids hku (fun ev hev => hbody ev.owner ev.aug (hbook.fromPending ev hev)) hfree

/-- **One order ends without errors iff every other order does.**  Only augment entries WITHOUT
recorded errors are asked to have unique keys (an entry with errors is never applied in a clean run:
its errors would be imported). -/
theorem augment_loop_clean_iff (R : Res) (fuel1 fuel2 : Nat) (mods1 mods2 : Array Nat) (s1 s2 : PState)
    (hforest : s2.forest = s1.forest) (hpend : ∀ id a, a ∈ s2.pendingOf id ↔ a ∈ s1.pendingOf id)
    (hn1 : NodupPending s1) (hn2 : NodupPending s2) (hcov1 : Cover s1 mods1) (hcov2 : Cover s2 mods2)
    (hfuel1 : mu s1 < fuel1) (hfuel2 : mu s2 < fuel2)
    (hids : (s1.forest.trees.map (·.1)).Nodup) (hku : ∀ t ∈ s1.forest.trees, KeysUnique t.2)
    (hbody : ∀ id, ∀ a ∈ s1.pendingOf id, a.allErrors = [] → ∀ c ∈ a.dir, KeysUnique c) :
    allErrs (loopState R fuel1 mods1 s1).forest = [] ↔ allErrs (loopState R fuel2 mods2 s2).forest = [] := by
  constructor
  · exact Goyang.Lemmas.AugmentErrs.loop_clean_imp R fuel1 fuel2 mods1 mods2 s1 s2 hforest hpend hn1 hn2 hcov1 hcov2
      hfuel1 hfuel2 hids hku hbody
  · exact Goyang.Lemmas.AugmentErrs.loop_clean_imp R fuel2 fuel1 mods2 mods1 s2 s1 hforest.symm
      (fun id a => (hpend id a).symm) hn2 hn1 hcov2 hcov1 hfuel2 hfuel1 (by rw [hforest]; exact hids)
      (by rw [hforest]; exact hku) (fun id a ha => hbody id a ((hpend id a).mp ha))

/-- `collision_in_every_order` on the error list: an application of some order that collides puts a
`duplicate-node` error into the error list of EVERY order. -/
theorem collision_error_in_every_order (R : Res) (fuel1 fuel2 : Nat) (mods1 mods2 : Array Nat) (s1 s2 : PState)
    (hforest : s2.forest = s1.forest) (hpend : ∀ id a, a ∈ s2.pendingOf id ↔ a ∈ s1.pendingOf id)
    (hn1 : NodupPending s1) (hn2 : NodupPending s2) (hcov1 : Cover s1 mods1) (hcov2 : Cover s2 mods2)
    (hfuel1 : mu s1 < fuel1) (hfuel2 : mu s2 < fuel2)
    (ev : Ev) (hev : ev ∈ loopTrace R fuel2 mods2 s2)
    (hbad : ¬ (absEv R s1.forest ev).roots.Nodup ∨ (absEv R s1.forest ev).Collides (viewOf ev.before)) :
    (∃ er ∈ allErrs (loopState R fuel2 mods2 s2).forest, er.cls = "duplicate-node") ∧
    (∃ er ∈ allErrs (loopState R fuel1 mods1 s1).forest, er.cls = "duplicate-node") := by
  obtain ⟨⟨e2, h2, c2⟩, ⟨e1, h1, c1⟩⟩ := collision_in_every_order R fuel1 fuel2 mods1 mods2 s1 s2 hforest hpend hn1 hn2
    hcov1 hcov2 hfuel1 hfuel2 ev hev hbad
  exact ⟨⟨e2, fVisErr_allErrs h2, c2⟩, ⟨e1, fVisErr_allErrs h1, c1⟩⟩

/-- The converse tie between the error list and the applications: a `duplicate-node` error in the
error list of one order that was not there before the loop and is not recorded inside a pending
augment entry stems from a colliding application — so every other order reports a `duplicate-node`
error too. -/
theorem fresh_duplicate_error_in_every_order (R : Res) (fuel1 fuel2 : Nat) (mods1 mods2 : Array Nat) (s1 s2 : PState)
    (hforest : s2.forest = s1.forest) (hpend : ∀ id a, a ∈ s2.pendingOf id ↔ a ∈ s1.pendingOf id)
    (hn1 : NodupPending s1) (hn2 : NodupPending s2) (hcov1 : Cover s1 mods1) (hcov2 : Cover s2 mods2)
    (hfuel1 : mu s1 < fuel1) (hfuel2 : mu s2 < fuel2)
    (hids : (s1.forest.trees.map (·.1)).Nodup) (hku : ∀ t ∈ s1.forest.trees, KeysUnique t.2)
    (hbody : ∀ ev ∈ loopTrace R fuel1 mods1 s1, ∀ c ∈ ev.aug.dir, KeysUnique c)
    (er : Err) (her : er ∈ allErrs (loopState R fuel1 mods1 s1).forest) (hcls : er.cls = "duplicate-node")
    (hnew : er ∉ allErrs s1.forest) (hnotbody : ∀ id, ∀ a ∈ s1.pendingOf id, er ∉ a.allErrors) :
    (∃ ev ∈ loopTrace R fuel1 mods1 s1, er = Err.at_ ev.aug.d.node "duplicate-node" ∧
      (¬ (absEv R s1.forest ev).roots.Nodup ∨ (absEv R s1.forest ev).Collides (viewOf ev.before))) ∧
    ∃ er' ∈ allErrs (loopState R fuel2 mods2 s2).forest, er'.cls = "duplicate-node" := by
  have hbook1 := (loop_run R fuel1 mods1 s1 hn1 hcov1 hfuel1).2.1
  rcases (loop_error_set R fuel1 mods1 s1 hcov1 (by omega) hids hku hbody er).mp her with h | ⟨h, _⟩ | ⟨ev, hev, h | ⟨h1, h2⟩⟩
  · exact absurd h hnew
  · rw [h] at hcls; exact absurd hcls (by decide)
  · exact absurd h (hnotbody ev.owner ev.aug (hbook1.fromPending ev hev))
  · refine ⟨⟨ev, hev, h1, h2⟩, ?_⟩
    obtain ⟨_, ⟨e2, h3, c2⟩⟩ := collision_in_every_order R fuel2 fuel1 mods2 mods1 s2 s1 hforest.symm
      (fun id a => (hpend id a).symm) hn2 hn1 hcov2 hcov1 hfuel2 hfuel1 ev hev h2
    exact ⟨e2, fVisErr_allErrs h3, c2⟩

/-! ### (e) exactly once -/

/-- Every pending augment is applied at most once (the trace has no repetition), and it is
applied exactly when its target exists in the final forest as a node that can have children —
which is the same as: it is no longer pending at the end. -/
theorem augment_exactly_once (R : Res) (fuel : Nat) (mods : Array Nat) (s : PState) (hn : NodupPending s)
    (hcov : Cover s mods) (hfuel : mu s < fuel) :
    ((loopTrace R fuel mods s).map Ev.key).Nodup ∧
    ∀ id, ∀ a ∈ s.pendingOf id,
      ((id, a) ∈ (loopTrace R fuel mods s).map Ev.key ↔
        (absAug R s.forest id a).Applicable (viewOf (loopState R fuel mods s).forest)) ∧
      ((id, a) ∈ (loopTrace R fuel mods s).map Ev.key ↔ a ∉ (loopState R fuel mods s).pendingOf id) :=
  loop_exactly_once R fuel mods s hn hcov hfuel

/-- When the loop leaves no `duplicate-node` error, the target of every applied augment holds, in
the final forest, the stamped copy of each node the augment defines. -/
theorem augment_copies_present (R : Res) (fuel : Nat) (mods : Array Nat) (s : PState) (hn : NodupPending s)
    (hcov : Cover s mods) (hfuel : mu s < fuel)
    (hfree : ∀ er, FVisErr (loopState R fuel mods s).forest er → er.cls ≠ "duplicate-node")
    (ev : Ev) (hev : ev ∈ loopTrace R fuel mods s) (t : NLoc) (ht : (absEv R s.forest ev).target = some t)
    (c : Entry) (hc : c ∈ ev.aug.dir) :
    viewOf (loopState R fuel mods s).forest (Aug.rootLoc t c.name) (nodeData (stamp (absEv R s.forest ev).ns c).d) := by
  obtain ⟨_, _, hview, _⟩ := loop_isResult R fuel mods s hn hcov hfuel hfree
  rw [hview]
  refine (mem_after _ _ _ _).mpr (Or.inr ⟨absEv R s.forest ev, List.mem_map.mpr ⟨ev, hev, rfl⟩, ?_⟩)
  exact (graft_stamps (absEv R s.forest ev) t ht c hc).1

/-- The model's reading of (e): an augment has left the pending list of the model's loop exactly
when its target exists in the loop's final forest as a node that can have children. -/
theorem augment_exactly_once_model (reg : Registry) (fuel : Nat) (mods : Array Nat) (s : PState)
    (hp : PlainPending reg s) (hn : NodupPending s) (hcov : Cover s mods) (hfuel : mu s < fuel) :
    ∀ id, ∀ a ∈ s.pendingOf id,
      (a ∉ (augmentLoop reg fuel mods s).2.pendingOf id ↔
        (absAug (Res.ofReg reg) s.forest id a).Applicable (viewOf (augmentLoop reg fuel mods s).2.forest)) := by
  rw [model_loop_eq reg fuel mods s hp]
  intro id a ha
  obtain ⟨_, h⟩ := loop_exactly_once (Res.ofReg reg) fuel mods s hn hcov hfuel
  obtain ⟨h1, h2⟩ := h id a ha
  exact h2.symm.trans h1

/-! ### (f) … or reported -/

/-- A visible error is swept: `GetErrors` (the model's `allErrors` of every tree) contains it. -/
theorem visible_error_swept (f : Forest) (er : Err) (h : FVisErr f er) : er ∈ allErrs f :=
  fVisErr_allErrs h

/-- On the parametrised model of the whole augment part of `Process`: every augment pending at
the start is applied by the loop, or applied by the stage after FixChoice — a retry round or the
reporting sweep, second trace of `phaseR` — (which happens only for targets that FixChoice creates:
implicit cases, and what augments applied there create in turn — outside the claim), or its `augment-not-found` error is
among the errors swept at the end; and an application of the loop that collides leaves a
`duplicate-node` error among them. -/
theorem augment_reported_phase (R : Res) (order : List Nat) (fuel : Nat) (s : PState) (hn : NodupPending s)
    (hcov : Cover s order.toArray) (hfuel : mu s < fuel)
    (hpres : ∀ id, s.pendingOf id ≠ [] → (s.forest.tree? id).isSome = true) :
    (∀ id, ∀ a ∈ s.pendingOf id,
      (id, a) ∈ (phaseR R order fuel s).2.1.map Ev.key ∨ (id, a) ∈ (phaseR R order fuel s).2.2.map Ev.key ∨
      notFound a ∈ allErrs (phaseR R order fuel s).1.forest) ∧
    (∀ ev ∈ (phaseR R order fuel s).2.1,
      (¬ (absEv R s.forest ev).roots.Nodup ∨ (absEv R s.forest ev).Collides (viewOf ev.before)) →
      ∃ er ∈ allErrs (phaseR R order fuel s).1.forest, er.cls = "duplicate-node") :=
  phase_reported R order fuel s hn hcov hfuel hpres

/-- For `processAll` itself.  `phaseStart reg opts plug` is the state and module order with which
`processAll` enters the augment phase (`none`: it stops before, with errors from linking,
identities, typedefs or conversion).  From that state — provided what reaches the phase is well
formed (`PhaseInput`: plain augment paths, no augment entry twice, the tree of every module with
augments present, one row per tree; that the loop's module order mentions every tree with augments
is proved: `phaseStart_cover`) — every pending augment is applied (by the loop, or by the
stage after FixChoice) or `processAll` returns errors, and a colliding application makes `processAll`
return errors. -/
theorem augment_reported (reg : Registry) (opts : Opts) (plug : Plug) :
    (phaseStart reg opts plug = none → ∃ errs, errs ≠ [] ∧ (processAll reg opts plug).errors = canonErrs errs) ∧
    (∀ s order, phaseStart reg opts plug = some (s, order) → allErrs s.forest = [] ∧
      (PhaseInput reg s →
        let fuel := s.pending.foldl (fun n p => n + p.2.length) 0 + 2
        let ph := phaseR (Res.ofReg reg) order fuel s
        (∀ id, ∀ a ∈ s.pendingOf id,
          (id, a) ∈ ph.2.1.map Ev.key ∨ (id, a) ∈ ph.2.2.map Ev.key ∨ (processAll reg opts plug).errors ≠ []) ∧
        (∀ ev ∈ ph.2.1,
          (¬ (absEv (Res.ofReg reg) s.forest ev).roots.Nodup ∨
            (absEv (Res.ofReg reg) s.forest ev).Collides (viewOf ev.before)) →
          (processAll reg opts plug).errors ≠ []))) :=
  processAll_reported_pinned reg opts plug

/-- `phaseStart` is where `processAll` enters the augment phase: what `processAll` returns is the
error sweep after `augmentPhase` run from there (plus the errors of the deviations). -/
theorem phaseStart_is_processAll (reg : Registry) (opts : Opts) (plug : Plug) (s : PState) (order : List Nat)
    (h : phaseStart reg opts plug = some (s, order)) :
    ∃ derrs, (processAll reg opts plug).errors =
      canonErrs (allErrs (augmentPhase reg order (s.pending.foldl (fun n p => n + p.2.length) 0 + 2) s).forest ++ derrs) :=
  ((processAll_phaseStart reg opts plug).2 s order h).2

/-! ### non-vacuity: the hypotheses hold, and the conclusions say something, on concrete inputs

The scenarios are in Goyang/Lemmas/AugmentExamples.lean.  Everything below is evaluated by the
kernel (`decide`) on the functions the theorems are about. -/
section Examples
open Goyang.Lemmas.AugmentExamples

/-! #### chain A → B → C across three modules, worst order (hypotheses of (c), (d), (e)) -/

example : NodupPending Chain.s1 ∧ NodupPending Chain.s2 := ⟨nodupPending_of _ (by decide), nodupPending_of _ (by decide)⟩
example : Cover Chain.s1 #[0, 1, 2] ∧ Cover Chain.s2 #[1, 2, 0, 1, 2] := ⟨cover_of _ _ (by decide), cover_of _ _ (by decide)⟩
example : mu Chain.s1 < 5 ∧ mu Chain.s2 < 5 := by decide
example : Chain.s2.forest = Chain.s1.forest := rfl
/-- the two states have the same pending sets (module a's augments swapped, table rows permuted) -/
example : ∀ id a, a ∈ Chain.s2.pendingOf id ↔ a ∈ Chain.s1.pendingOf id := by
  intro id a
  have h : ∀ id, Chain.s2.pendingOf id = Chain.s1.pendingOf id ∨
      (Chain.s2.pendingOf id = [Chain.a0, Chain.a3] ∧ Chain.s1.pendingOf id = [Chain.a3, Chain.a0]) := by
    intro id
    match id with
    | 0 => exact Or.inr ⟨rfl, rfl⟩
    | 1 => exact Or.inl rfl
    | 2 => exact Or.inl rfl
    | n + 3 => exact Or.inl rfl
  rcases h id with h | ⟨h2, h1⟩
  · rw [h]
  · rw [h1, h2]; simp [or_comm]
/-- the first order ends without `duplicate-node` error -/
example : ∀ er, FVisErr (loopState Chain.R 5 #[0, 1, 2] Chain.s1).forest er → er.cls ≠ "duplicate-node" :=
  noDupErr_of _ (by decide)
/-- the worst order needs three passes: the last link (module a, visited first) is applied last -/
example : (loopTrace Chain.R 5 #[0, 1, 2] Chain.s1).map (fun ev => (ev.owner, ev.aug.d.name)) =
    [(0, "/a:top"), (2, "/a:top"), (1, "/a:top/c:b1"), (0, "/a:top/c:b1/b:c1")] := by decide
/-- another module order (with repetitions) and declaration order: other trace, … -/
example : (loopTrace Chain.R 5 #[1, 2, 0, 1, 2] Chain.s2).map (fun ev => (ev.owner, ev.aug.d.name)) =
    [(2, "/a:top"), (1, "/a:top/c:b1"), (0, "/a:top"), (0, "/a:top/c:b1/b:c1")] := by decide
/-- … same nodes, each once, each attributed to the module that grafted it (child order differs:
the dump sorts children) -/
example : ((loopState Chain.R 5 #[0, 1, 2] Chain.s1).forest.tree? 0).map (fun t => (paths t).map fun x => (x.1, x.2.ns)) =
    some [([], none), (["top"], none), (["top", "la"], some "urn:a"), (["top", "b1"], some "urn:c"),
      (["top", "b1", "c1"], some "urn:b"), (["top", "b1", "c1", "l3"], some "urn:a")] := by decide
example : ((loopState Chain.R 5 #[1, 2, 0, 1, 2] Chain.s2).forest.tree? 0).map (fun t => (paths t).map fun x => (x.1, x.2.ns)) =
    some [([], none), (["top"], none), (["top", "b1"], some "urn:c"), (["top", "b1", "c1"], some "urn:b"),
      (["top", "b1", "c1", "l3"], some "urn:a"), (["top", "la"], some "urn:a")] := by decide
/-- `Namespace()` of the chain's nodes: each link answers the module that grafted it -/
example : ((loopState Chain.R 5 #[0, 1, 2] Chain.s1).forest.tree? 0).map (fun t =>
      [t.stampAt [.child "top"], t.stampAt [.child "top", .child "b1"], t.stampAt [.child "top", .child "b1", .child "c1"],
       t.stampAt [.child "top", .child "b1", .child "c1", .child "l3"]]) =
    some [none, some "urn:c", some "urn:b", some "urn:a"] := by decide
example : (loopState Chain.R 5 #[0, 1, 2] Chain.s1).pending.all (·.2.isEmpty) = true ∧
    (loopState Chain.R 5 #[1, 2, 0, 1, 2] Chain.s2).pending.all (·.2.isEmpty) = true := by decide
/-- the fuel `processAll` would give (`total + 2 = 6`) and the minimal one (`mu + 1 = 5`) agree -/
example : (augmentLoopR Chain.R 6 #[0, 1, 2] Chain.s1 []).2.2.length = (augmentLoopR Chain.R 5 #[0, 1, 2] Chain.s1 []).2.2.length := by
  decide
example : (keys Chain.s1).Nodup := by decide

/-! #### a target created by `uses`; targets in an rpc's implicit input and written output -/

example : NodupPending UsesRpc.s ∧ Cover UsesRpc.s #[0, 1] ∧ mu UsesRpc.s < 4 :=
  ⟨nodupPending_of _ (by decide), cover_of _ _ (by decide), by decide⟩
example : ∀ er, FVisErr (loopState UsesRpc.R 4 #[0, 1] UsesRpc.s).forest er → er.cls ≠ "duplicate-node" :=
  noDupErr_of _ (by decide)
example : ((loopState UsesRpc.R 4 #[0, 1] UsesRpc.s).forest.tree? 0).map (fun t => (paths t).map fun x => (x.1, x.2.ns)) =
    some [([], none), (["c"], none), (["c", "g1"], none), (["c", "g1", "x"], none), (["c", "g1", "y"], some "urn:n"),
      (["r"], none), (["r", "input"], none), (["r", "input", "i1"], some "urn:n"), (["r", "output"], none),
      (["r", "output", "o"], none), (["r", "output", "o1"], some "urn:n")] := by decide
/-- the implicit input is in the view before anything is applied (the specification treats it as
always there), and an rpc node itself is not a target that can have children -/
example : (nodeAt UsesRpc.forest (0, ["r", "input"])).map (·.d.kind) = some Kind.input := by decide
example : (nodeAt UsesRpc.forest (0, ["r"])).map (fun e => canHaveChildren e.d) = some false := by decide

/-! #### reported: collision between two modules (either order), leaf target, missing target (f) -/

example : NodupPending Bad.collide ∧ Cover Bad.collide #[1, 2] ∧ Cover Bad.collide #[2, 1] ∧ mu Bad.collide < 3 :=
  ⟨nodupPending_of _ (by decide), cover_of _ _ (by decide), cover_of _ _ (by decide), by decide⟩
/-- both augments are applied in both orders; the second one collides and is blamed -/
example : (allErrs (loopState Bad.R 3 #[1, 2] Bad.collide).forest).map (fun e => (e.line, e.cls)) = [(20, "duplicate-node")] ∧
    (allErrs (loopState Bad.R 3 #[2, 1] Bad.collide).forest).map (fun e => (e.line, e.cls)) = [(10, "duplicate-node")] := by
  decide
example : NodupPending Bad.unfound ∧ Cover Bad.unfound [1].toArray ∧ mu Bad.unfound < 4 ∧
    (∀ id, Bad.unfound.pendingOf id ≠ [] → (Bad.unfound.forest.tree? id).isSome = true) := by
  refine ⟨nodupPending_of _ (by decide), cover_of _ _ (by decide), by decide, ?_⟩
  intro id hne
  rcases pendingOf_cases Bad.unfound id with h | ⟨p, hp, hid, _⟩
  · exact absurd h hne
  · have : p.1 = 1 := by
      have : ∀ p ∈ Bad.unfound.pending, p.1 = 1 := by decide
      exact this p hp
    rw [← hid, this]; decide
/-- neither the leaf target nor the missing target is applied; both are reported -/
example : (phaseR Bad.R [1] 4 Bad.unfound).2.1 = [] ∧ (phaseR Bad.R [1] 4 Bad.unfound).2.2 = [] := by
  constructor <;> (apply List.eq_nil_of_length_eq_zero; decide)
example : (allErrs (phaseR Bad.R [1] 4 Bad.unfound).1.forest).map (fun e => (e.line, e.cls)) =
    [(30, "augment-not-found"), (40, "augment-not-found")] := by decide

/-! #### the error list (d′): a body with a recorded error, a chain, an unknown prefix, two orders -/

example : NodupPending Errs.s1 ∧ NodupPending Errs.s2 := ⟨nodupPending_of _ (by decide), nodupPending_of _ (by decide)⟩
example : Cover Errs.s1 #[2, 1] ∧ Cover Errs.s2 #[1, 2, 1] := ⟨cover_of _ _ (by decide), cover_of _ _ (by decide)⟩
example : mu Errs.s1 < 4 ∧ mu Errs.s2 < 4 := by decide
example : Errs.s2.forest = Errs.s1.forest := rfl
example : ∀ id a, a ∈ Errs.s2.pendingOf id ↔ a ∈ Errs.s1.pendingOf id := by
  intro id a
  have h : ∀ id, Errs.s2.pendingOf id = Errs.s1.pendingOf id ∨
      (Errs.s2.pendingOf id = [Errs.e3, Errs.e2] ∧ Errs.s1.pendingOf id = [Errs.e2, Errs.e3]) := by
    intro id
    match id with
    | 0 => exact Or.inl rfl
    | 1 => exact Or.inl rfl
    | 2 => exact Or.inr ⟨rfl, rfl⟩
    | n + 3 => exact Or.inl rfl
  rcases h id with h | ⟨h2, h1⟩
  · rw [h]
  · rw [h1, h2]; simp [or_comm]
/-- one tree per id, unique keys in every tree and in every applied augment body -/
example : (Errs.s1.forest.trees.map (·.1)).Nodup ∧ (∀ t ∈ Errs.s1.forest.trees, KeysUnique t.2) := by decide
example : ∀ ev ∈ loopTrace Errs.R 4 #[2, 1] Errs.s1, ∀ c ∈ ev.aug.dir, KeysUnique c := by decide
example : ∀ id, ∀ a ∈ Errs.s1.pendingOf id, a.allErrors = [] → ∀ c ∈ a.dir, KeysUnique c := by
  intro id a ha
  have : ∀ p ∈ Errs.s1.pending, ∀ a ∈ p.2, a.allErrors = [] → ∀ c ∈ a.dir, KeysUnique c := by decide
  rcases pendingOf_cases Errs.s1 id with h | ⟨p, hp, _, h⟩
  · rw [h] at ha; cases ha
  · rw [h] at ha; exact this p hp a ha
/-- the first order leaves no `duplicate-node` error (hypothesis of `augment_loop_confluent_errors_observed`) -/
example : ∀ er ∈ allErrs (loopState Errs.R 4 #[2, 1] Errs.s1).forest, er.cls ≠ "duplicate-node" := by decide
/-- both orders apply the chain (the second link of module o after the first of module n) … -/
example : (loopTrace Errs.R 4 #[2, 1] Errs.s1).map (fun ev => (ev.owner, ev.aug.d.name)) = [(1, "/m:c"), (2, "/m:c/n:d")] ∧
    (loopTrace Errs.R 4 #[1, 2, 1] Errs.s2).map (fun ev => (ev.owner, ev.aug.d.name)) = [(1, "/m:c"), (2, "/m:c/n:d")] := by
  decide
/-- … and sweep the same errors: the error recorded inside the applied body (on the target and in the
grafted copy) and the `other` error of the unknown prefix, once per attempt — as lists they differ
(the first order attempts `/zz:q` three times, the second twice), as sets and as canonical lists
they are equal, which is what `augment_loop_confluent_errors` says. -/
example : (allErrs (loopState Errs.R 4 #[2, 1] Errs.s1).forest).map (fun e => (e.line, e.cls)) =
      [(11, "unknown-type"), (11, "unknown-type"), (0, "other"), (0, "other"), (0, "other")] ∧
    (allErrs (loopState Errs.R 4 #[1, 2, 1] Errs.s2).forest).map (fun e => (e.line, e.cls)) =
      [(11, "unknown-type"), (11, "unknown-type"), (0, "other"), (0, "other")] := by decide
/-- the collision scenario (`Bad.collide`) satisfies the hypotheses of `fresh_duplicate_error_in_every_order`:
the error of the first order is new and is not recorded inside a pending entry -/
example : (Bad.collide.forest.trees.map (·.1)).Nodup ∧ (∀ t ∈ Bad.collide.forest.trees, KeysUnique t.2) ∧
    (∀ ev ∈ loopTrace Bad.R 3 #[1, 2] Bad.collide, ∀ c ∈ ev.aug.dir, KeysUnique c) ∧
    allErrs Bad.collide.forest = [] ∧ (∀ p ∈ Bad.collide.pending, ∀ a ∈ p.2, a.allErrors = []) := by decide

end Examples

end Goyang.Props.C07
