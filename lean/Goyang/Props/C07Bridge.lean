import Goyang.Lemmas.Bridge
import Goyang.Lemmas.BridgeRegistry
import Goyang.Lemmas.BridgeLoad
import Goyang.Lemmas.Find
import Goyang.Lemmas.AugmentErrsBridge
import Goyang.Props.C07
import Goyang.Props.C04
import Goyang.Props.C02
import Goyang.Lemmas.AugPosLoad
import Goyang.Lemmas.AugmentKU
import Goyang.Lemmas.AugPosAny
/-
C07, bridge to `processAll` — the hypotheses `PhaseInput` and `NoDupNames` of Props/C07.lean are
discharged for the state with which `processAll` really enters the augment phase.

Reading aid.  `phaseStart reg opts plug` (Lemmas/AugmentReport.lean) is the text of `processAll` up
to the call of `augmentPhase`; it is C04's `Lemmas.Tree.pstate0` (`phaseStart_is_pstate0`).  C07
analysed the loop from there under four hypotheses about that state (`PhaseInput`) and, for
`view_eq_paths`, under `NoDupNames` of the tree.  Here they are derived from how `toEntry` builds the
state (`Lemmas/BridgeTraverse.lean`: C04's traversal of `toEntry`, with the call sites known), so
that what is left are decidable predicates on the registry and on the statements loaded into it:

* `Fuel.LoadedShape reg`  — sequence numbers are distinct and no (sub)module is bound in both
  tables (C01 states the same hypothesis): proved of every registry that `Registry.add` /
  `loadAll` produce, whatever is loaded (`loaded_registry_shape`), so it is no hypothesis on the input;
* `AugPosDistinct reg`    — the augment statements of one (sub)module stand at different positions
  of its text (true of every parsed text; two statements at one position would be one `Stmt` value);
* `AugArgsPlain reg`      — every augment argument is an absolute schema node identifier: starts
  with `/`, and no step is empty, `.` or `..`, before or behind its prefix (RFC 7950 has no such
  steps; the Go code tolerates them);
* `ModsAreModules reg`    — every loaded statement is a `module` / `submodule` statement (only needed
  for "EVERY module has its tree"; the hypotheses of C07 need the trees of the modules with augments);
  proved, together with `LoadedShape`, of every registry `Model.loadTexts` (= `Modules.Parse` per text)
  produces (`loadTexts_registry_shape`).  `AugPosDistinct` IS derived for registries loaded from
  C02-admissible texts (`augPosDistinct_of_loadTexts`, section "`AugPosDistinct` derived"); that it
  cannot simply be dropped for arbitrary registry values is `augPosDistinct_needed` below.

`NoDupNames` (C07) and `KeysUnique` (C04) are the same condition on `Dir` (pairwise different
sibling names at every node, `keysUnique_iff`); neither asks that names be non-empty, so no side
condition on the input is needed for them.  `merge` keeps `NoDupNames` unconditionally
(`noDupNames_merge`: a child whose name is taken is refused), and so does the whole augment stage
given it for the children of the pending entries (`augment_stage_keeps_noDupNames`).  For the trees
`toEntry` builds it is C04's conditional invariant: a tree (or pending augment entry) in which no
error is recorded has it (C04's traversal cannot exclude two error entries with the empty name below
one node, which only the out-of-fuel branch produces; `phaseStart_keysUnique` below excludes them with
C01's fuel bound and gives `KeysUnique` — hence `NoDupNames` — of every tree and pending entry,
errors or not).

The error list (C07 (d′)).  The well-formedness the error-list theorems need — one tree per id,
`KeysUnique` of every tree, `KeysUnique` of the pending augment entries without recorded errors — is
proved of the phase-start state (`phaseStart_wellformed`, from C04's conditional invariant of
`toEntry`), so that for `processAll`: its run of the loop ends without errors iff every other order
does (`augment_clean_iff_processAll`, no new hypothesis), and when no pending augment entry carries an
error of its own and its run leaves no `duplicate-node` error, every other order ends with the same
error set and canonical error list (`augment_error_list_order_independent_processAll`).

The two remaining input predicates cannot be dropped (section "why the two input predicates cannot be
dropped"): `augPosDistinct_needed` exhibits a registry of the loaded shape with the same augment
statement value twice, for which `NodupPending` fails at phase start; the `..` example shows that for
a non-plain argument Go's `Find` (`walkParts`) and the analysed loop / the reference semantics
(`walkN`, `walk`) disagree (replayed on the Go code: `augment "/a:c/a:d/.."` is applied to `c`).

`AugPosDistinct` for registries loaded from TEXTS (2026-09-29): proved for texts that are UTF-8
encodings of Unicode texts without the four constructs C02 excludes (`AdmissibleTexts`) —
`offset_position_injective` (offset ↦ (line, col) is injective inside one text),
`token_offsets_increase`, `sibling_positions_distinct` (reference reader: sibling statements, at the
top level and below every statement, stand at pairwise different (line, col)),
`augPosDistinct_of_loadTexts` (transport through the refinement of the byte-level parser, `toStmt?` and
`Registry.add`).  Every `_processAll` theorem is restated as `_loadTexts` for such registries, with
`AugArgsPlain` as the only input hypothesis left.  The same for texts OUTSIDE C02's claim (ill-formed
UTF-8, a comment opener inside an unquoted token, the three excluded double-quoted-string shapes) is
proved too (2026-09-29, third session), by a direct proof on the byte-level lexer model that does not go
through the reference reader: `lexer_tokens_increase_anyText` (for every byte string the non-error
tokens of the lexer model stand at strictly increasing (line, col)), `parsed_siblings_increase_anyText`
(the generic parser keeps that order among sibling statements), `augPosDistinct_anyTexts`
(`AugPosDistinct` of EVERY registry `loadTexts` produces), and every `_loadTexts` theorem restated
without `AdmissibleTexts` as `_anyTexts` (section "`AugPosDistinct` for ALL byte strings").
`AugPosDistinct` is therefore no hypothesis on loaded input any more; `AugArgsPlain` is the only one left
(not droppable: the `..` example).

The error set with pending entries that carry errors of their own (2026-09-29): `phaseStart_keysUnique`
(every tree and every pending augment entry has unique keys, errors or not: C04's traversal repeated
with C01's fuel bound, `Lemmas/AugmentKU.lean`) and `augment_error_set_order_independent_processAll`
(/`_loadTexts`): `augment_error_list_order_independent_processAll` without its hypothesis `hbodies`.
-/
namespace Goyang.Props.C07Bridge
open Goyang.Model Goyang.Spec.Augment Goyang.Spec.Tree
open Goyang.Lemmas.AugmentConfl Goyang.Lemmas.AugmentTree Goyang.Lemmas.AugmentModel Goyang.Lemmas.AugmentStep
open Goyang.Lemmas.AugmentLoop Goyang.Lemmas.Augment Goyang.Lemmas.AugmentReport Goyang.Lemmas.AugmentPaths
open Goyang.Lemmas.Bridge
open Goyang.Lemmas.Fuel (LoadedShape)

/-! ### the state the augment phase starts from -/

/-- C07's `phaseStart` is C04's `pstate0` with C04's `augOrder`. -/
theorem phaseStart_is_pstate0 (reg : Registry) (opts : Opts) (plug : Plug) (s : PState) (order : List Nat)
    (h : phaseStart reg opts plug = some (s, order)) :
    s = Lemmas.Tree.pstate0 reg opts plug ∧ order = (Lemmas.Tree.augOrder reg).map (·.seq) :=
  phaseStart_eq reg opts plug s order h

/-- How `TState.augs` reaches the pending table: the pending list of a tree is empty, or it is the
row a loaded (sub)module `m` filed when it was converted — one entry per augment statement of `m`,
in written order, each remembering its statement and its module, and named by the statement's
argument (an error entry has the empty name). -/
theorem pending_rows (reg : Registry) (opts : Opts) (plug : Plug) (s : PState) (order : List Nat)
    (h : phaseStart reg opts plug = some (s, order)) (id : Nat) :
    s.pendingOf id = [] ∨
    ∃ m ∈ reg.mods, m.seq = id ∧ (s.pendingOf id).map (·.d.node) = m.stmt.all "augment" ∧
      (∀ a ∈ s.pendingOf id, a.d.nodeMod = m.seq) ∧ ∀ a ∈ s.pendingOf id, a.name = a.d.node.arg ∨ a.name = "" := by
  obtain ⟨rfl, _⟩ := phaseStart_eq reg opts plug s order h
  rcases pendingOf_pstate0 reg opts plug id with h0 | ⟨p, hp, h1, h2⟩
  · exact Or.inl h0
  · obtain ⟨m, hm, e1, e2, e3, e4⟩ := tstate_rows reg opts plug p hp
    right
    rw [h2]
    exact ⟨m, hm, by rw [← e1, h1], e2, e3, e4⟩

/-- The tree of every (sub)module that has pending augments exists (`PhaseInput.trees`): a
(sub)module files its augments and its cache entry in the same conversion. -/
theorem pending_trees_exist (reg : Registry) (opts : Opts) (plug : Plug) (s : PState) (order : List Nat)
    (h : phaseStart reg opts plug = some (s, order)) :
    ∀ id, s.pendingOf id ≠ [] → (s.forest.tree? id).isSome = true := by
  obtain ⟨rfl, _⟩ := phaseStart_eq reg opts plug s order h
  exact trees_pstate0 reg opts plug

/-- The cache holds the tree of EVERY (sub)module bound in the two tables (the rows of the pending
table are exactly these), when the loaded statements are module / submodule statements. -/
theorem all_trees_exist (reg : Registry) (opts : Opts) (plug : Plug) (hmods : ModsAreModules reg) (s : PState)
    (order : List Nat) (h : phaseStart reg opts plug = some (s, order)) :
    (∀ m ∈ reg.distinctModules ++ reg.distinctSubs, (s.forest.tree? m.seq).isSome = true) ∧
    keys s = (reg.distinctModules ++ reg.distinctSubs).map (·.seq) := by
  obtain ⟨rfl, _⟩ := phaseStart_eq reg opts plug s order h
  refine ⟨trees_all_pstate0 reg opts plug hmods, ?_⟩
  simp only [keys, Lemmas.Tree.pstate0, Lemmas.Tree.pending0, Lemmas.Tree.allMods, List.map_map]
  rfl

/-- One cache entry — one tree — per converted (sub)module: tree ids are not repeated.  (A row is
filed only on a cache miss, and a (sub)module whose conversion is in progress is not converted
again.) -/
theorem one_tree_per_module (reg : Registry) (opts : Opts) (plug : Plug) (hL : LoadedShape reg) (s : PState)
    (order : List Nat) (h : phaseStart reg opts plug = some (s, order)) : (s.forest.trees.map (·.1)).Nodup := by
  obtain ⟨rfl, _⟩ := phaseStart_eq reg opts plug s order h
  exact tstate_ckeys_nodup reg opts plug hL

/-- One row per tree in the pending table (`PhaseInput.keys`). -/
theorem pending_one_row_per_tree (reg : Registry) (opts : Opts) (plug : Plug) (hL : LoadedShape reg) (s : PState)
    (order : List Nat) (h : phaseStart reg opts plug = some (s, order)) : (keys s).Nodup := by
  obtain ⟨rfl, _⟩ := phaseStart_eq reg opts plug s order h
  exact keys_pstate0 reg opts plug hL

/-- No augment entry is listed twice for one module (`PhaseInput.nodup`): a row has one entry per
augment statement, each entry remembers its statement, and the statements differ. -/
theorem pending_no_entry_twice (reg : Registry) (opts : Opts) (plug : Plug) (hpos : AugPosDistinct reg) (s : PState)
    (order : List Nat) (h : phaseStart reg opts plug = some (s, order)) : NodupPending s := by
  obtain ⟨rfl, _⟩ := phaseStart_eq reg opts plug s order h
  exact nodupPending_pstate0 reg opts plug hpos

/-- The pending augments have plain paths (`PhaseInput.plain`). -/
theorem pending_paths_plain (reg : Registry) (opts : Opts) (plug : Plug) (hplain : AugArgsPlain reg) (s : PState)
    (order : List Nat) (h : phaseStart reg opts plug = some (s, order)) : PlainPending reg s := by
  obtain ⟨rfl, _⟩ := phaseStart_eq reg opts plug s order h
  exact plainPending_pstate0 reg opts plug hplain

/-- **`PhaseInput` holds of the state `processAll` hands to the augment loop**, for every registry
of the loaded shape whose augment statements are distinct and have absolute schema node
identifiers as arguments. -/
theorem phaseInput_holds (reg : Registry) (opts : Opts) (plug : Plug) (hL : LoadedShape reg)
    (hpos : AugPosDistinct reg) (hplain : AugArgsPlain reg) (s : PState) (order : List Nat)
    (h : phaseStart reg opts plug = some (s, order)) : PhaseInput reg s := by
  obtain ⟨rfl, _⟩ := phaseStart_eq reg opts plug s order h
  exact phaseInput_pstate0 reg opts plug hL hpos hplain

/-- `LoadedShape` is what loading produces: of every list of statements loaded into a fresh
registry (each load is one `Modules.add`; rejected loads leave the registry unchanged). -/
theorem loaded_registry_shape (ss : List Stmt) : LoadedShape (Registry.loadAll ss).1 :=
  loadedShape_loadAll ss

/-- … and `ModsAreModules` holds when every loaded statement is a module / submodule statement. -/
theorem loaded_registry_modules (ss : List Stmt) (h : ∀ s ∈ ss, isModKw s = true) :
    ModsAreModules (Registry.loadAll ss).1 := by
  intro m hm
  rcases loadFrom_src ss {} m hm with h1 | h1
  · simp at h1
  · exact h m.stmt h1

/-- `PhaseInput` for a loaded set of texts: only the two predicates on the augment statements remain. -/
theorem phaseInput_holds_loaded (ss : List Stmt) (opts : Opts) (plug : Plug)
    (hpos : AugPosDistinct (Registry.loadAll ss).1) (hplain : AugArgsPlain (Registry.loadAll ss).1)
    (s : PState) (order : List Nat) (h : phaseStart (Registry.loadAll ss).1 opts plug = some (s, order)) :
    PhaseInput (Registry.loadAll ss).1 s :=
  phaseInput_holds _ opts plug (loadedShape_loadAll ss) hpos hplain s order h

/-- Loading from raw texts (`Model.loadTexts` = `Modules.Parse` per text: generic parser, AST builder,
top-level check, `Registry.add`) produces `LoadedShape` and `ModsAreModules`, whichever texts are
accepted or rejected: for such registries only the two predicates on the augment statements remain. -/
theorem loadTexts_registry_shape (texts : List (List UInt8 × List UInt8)) :
    LoadedShape (loadTexts texts).1 ∧ ModsAreModules (loadTexts texts).1 :=
  ⟨loadedShape_loadTexts texts, modsAreModules_loadTexts texts⟩

theorem phaseInput_holds_loadTexts (texts : List (List UInt8 × List UInt8)) (opts : Opts) (plug : Plug)
    (hpos : AugPosDistinct (loadTexts texts).1) (hplain : AugArgsPlain (loadTexts texts).1)
    (s : PState) (order : List Nat) (h : phaseStart (loadTexts texts).1 opts plug = some (s, order)) :
    PhaseInput (loadTexts texts).1 s :=
  phaseInput_holds _ opts plug (loadedShape_loadTexts texts) hpos hplain s order h

/-! ### `NoDupNames` -/

/-- C04's `KeysUnique` is C07's `NoDupNames` together with "at most one rpc input and one rpc
output at every node". -/
theorem keysUnique_iff_noDupNames (e : Entry) : KeysUnique e ↔
    NoDupNames e ∧ everyNode (fun x => decide (x.inp.length ≤ 1) && decide (x.out.length ≤ 1)) e = true :=
  keysUnique_iff e

/-- `merge` keeps `NoDupNames`, collision or not. -/
theorem noDupNames_merge (e : Entry) (ns : Option String) (oe : Entry) (he : NoDupNames e)
    (ho : ∀ c ∈ oe.dir, NoDupNames c) : NoDupNames (e.merge ns oe) :=
  Lemmas.Bridge.noDupNames_merge e ns oe he ho

/-- One `Entry.Augment` call (`augmentTree`, with or without `addErrors`) keeps `NoDupNames` of
every tree, when the children of the pending augment entries have it. -/
theorem noDupNames_augmentTree (reg : Registry) (id : Nat) (addErrors : Bool) (s : PState)
    (ht : ∀ t ∈ s.forest.trees, NoDupNames t.2) (hp : ∀ p ∈ s.pending, ∀ a ∈ p.2, ∀ c ∈ a.dir, NoDupNames c) :
    ∀ t ∈ (augmentTree reg id addErrors s).1.forest.trees, NoDupNames t.2 :=
  (Lemmas.Tree.augmentTree_ainv augClosed_noDupNames reg id addErrors s ⟨ht, hp⟩).trees

/-- So does the whole loop, for every fuel and module order. -/
theorem augment_stage_keeps_noDupNames (reg : Registry) (fuel : Nat) (mods : Array Nat) (s : PState)
    (ht : ∀ t ∈ s.forest.trees, NoDupNames t.2) (hp : ∀ p ∈ s.pending, ∀ a ∈ p.2, ∀ c ∈ a.dir, NoDupNames c) :
    ∀ t ∈ (augmentLoop reg fuel mods s).2.forest.trees, NoDupNames t.2 :=
  (Lemmas.Tree.augmentLoop_ainv augClosed_noDupNames reg fuel mods s ⟨ht, hp⟩).trees

/-- Every tree has `NoDupNames` when the augment phase starts. -/
theorem phaseStart_noDupNames (reg : Registry) (opts : Opts) (plug : Plug) (s : PState) (order : List Nat)
    (h : phaseStart reg opts plug = some (s, order)) (t : Nat) (root : Entry) (ht : s.forest.tree? t = some root) :
    NoDupNames root := by
  have h0 := ((processAll_phaseStart reg opts plug).2 s order h).1
  obtain ⟨rfl, _⟩ := phaseStart_eq reg opts plug s order h
  simp only [Forest.tree?, Option.map_eq_some_iff] at ht
  obtain ⟨x, hx, rfl⟩ := ht
  exact noDupNames_pstate0 reg opts plug h0 x (List.mem_of_find?_eq_some hx)

/-- Along the loop, from there, for every fuel and module order: a tree in which no error is
recorded — in particular no collision — has `NoDupNames`. -/
theorem loop_noDupNames (reg : Registry) (opts : Opts) (plug : Plug) (s : PState) (order : List Nat)
    (h : phaseStart reg opts plug = some (s, order)) (fuel : Nat) (mods : Array Nat) (t : Nat) (root : Entry)
    (ht : (augmentLoop reg fuel mods s).2.forest.tree? t = some root) (hne : root.allErrors = []) :
    NoDupNames root := by
  obtain ⟨rfl, _⟩ := phaseStart_eq reg opts plug s order h
  simp only [Forest.tree?, Option.map_eq_some_iff] at ht
  obtain ⟨x, hx, rfl⟩ := ht
  exact noDupNames_loop reg opts plug fuel mods x (List.mem_of_find?_eq_some hx) ((Lemmas.Tree.noErrors_iff _).2 hne)

/-- `view_eq_paths` (C07 (b)) without its hypothesis, at the start of the augment phase … -/
theorem view_eq_paths_phaseStart (reg : Registry) (opts : Opts) (plug : Plug) (s : PState) (order : List Nat)
    (h : phaseStart reg opts plug = some (s, order)) (t : Nat) (root : Entry) (ht : s.forest.tree? t = some root)
    (P : NPath) (d : EData) : viewOf s.forest (t, P) d ↔ (P, d) ∈ paths root :=
  C07.view_eq_paths s.forest t root ht (phaseStart_noDupNames reg opts plug s order h t root ht) P d

/-- … after the loop, for every error-free tree … -/
theorem view_eq_paths_loop (reg : Registry) (opts : Opts) (plug : Plug) (s : PState) (order : List Nat)
    (h : phaseStart reg opts plug = some (s, order)) (fuel : Nat) (mods : Array Nat) (t : Nat) (root : Entry)
    (ht : (augmentLoop reg fuel mods s).2.forest.tree? t = some root) (hne : root.allErrors = [])
    (P : NPath) (d : EData) : viewOf (augmentLoop reg fuel mods s).2.forest (t, P) d ↔ (P, d) ∈ paths root :=
  C07.view_eq_paths _ t root ht (loop_noDupNames reg opts plug s order h fuel mods t root ht hne) P d

/-- … and for every tree `processAll` returns when it returns no errors. -/
theorem view_eq_paths_processAll (reg : Registry) (opts : Opts) (plug : Plug)
    (h : (processAll reg opts plug).errors = []) (t : Nat) (root : Entry)
    (ht : (processAll reg opts plug).forest.tree? t = some root) (P : NPath) (d : EData) :
    viewOf (processAll reg opts plug).forest (t, P) d ↔ (P, d) ∈ paths root := by
  refine C07.view_eq_paths _ t root ht ?_ P d
  simp only [Forest.tree?, Option.map_eq_some_iff] at ht
  obtain ⟨x, hx, rfl⟩ := ht
  exact noDupNames_of_keysUnique _ (C04.process_clean_wf reg opts plug h x (List.mem_of_find?_eq_some hx)).1.1

/-! ### the theorems of C07 for `processAll` itself -/

/-- **(f) "… or reported", for `processAll`**, `PhaseInput` discharged: `processAll` stops before
the augment phase with errors, or it enters it in a state without recorded errors from which every
pending augment is applied (by the loop, or by the stage after FixChoice: retry rounds, reporting sweep) or `processAll` returns errors;
and an application of the loop that collides makes `processAll` return errors. -/
theorem augment_reported_processAll (reg : Registry) (opts : Opts) (plug : Plug) (hL : LoadedShape reg)
    (hpos : AugPosDistinct reg) (hplain : AugArgsPlain reg) :
    (phaseStart reg opts plug = none → ∃ errs, errs ≠ [] ∧ (processAll reg opts plug).errors = canonErrs errs) ∧
    (∀ s order, phaseStart reg opts plug = some (s, order) → allErrs s.forest = [] ∧
      (let fuel := s.pending.foldl (fun n p => n + p.2.length) 0 + 2
       let ph := phaseR (Res.ofReg reg) order fuel s
       (∀ id, ∀ a ∈ s.pendingOf id,
         (id, a) ∈ ph.2.1.map Ev.key ∨ (id, a) ∈ ph.2.2.map Ev.key ∨ (processAll reg opts plug).errors ≠ []) ∧
       (∀ ev ∈ ph.2.1,
         (¬ (absEv (Res.ofReg reg) s.forest ev).roots.Nodup ∨
           (absEv (Res.ofReg reg) s.forest ev).Collides (viewOf ev.before)) →
         (processAll reg opts plug).errors ≠ []))) := by
  obtain ⟨h1, h2⟩ := C07.augment_reported reg opts plug
  refine ⟨h1, fun s order hs => ?_⟩
  obtain ⟨h0, h3⟩ := h2 s order hs
  exact ⟨h0, h3 (phaseInput_holds reg opts plug hL hpos hplain s order hs)⟩

/-- Consequently: when `processAll` returns no errors, every augment statement of every loaded
(sub)module (every entry of every pending list) has been applied, by the loop or — for a target
that only FixChoice creates, or that such an augment creates — by the stage after FixChoice (retry
rounds, reporting sweep); and no application of the loop collided. -/
theorem clean_process_applied_all (reg : Registry) (opts : Opts) (plug : Plug) (hL : LoadedShape reg)
    (hpos : AugPosDistinct reg) (hplain : AugArgsPlain reg) (hclean : (processAll reg opts plug).errors = []) :
    ∃ s order, phaseStart reg opts plug = some (s, order) ∧
      (let fuel := s.pending.foldl (fun n p => n + p.2.length) 0 + 2
       let ph := phaseR (Res.ofReg reg) order fuel s
       (∀ id, ∀ a ∈ s.pendingOf id, (id, a) ∈ ph.2.1.map Ev.key ∨ (id, a) ∈ ph.2.2.map Ev.key) ∧
       (∀ ev ∈ ph.2.1, (absEv (Res.ofReg reg) s.forest ev).roots.Nodup ∧
         ¬ (absEv (Res.ofReg reg) s.forest ev).Collides (viewOf ev.before))) := by
  obtain ⟨h1, h2⟩ := augment_reported_processAll reg opts plug hL hpos hplain
  cases hs : phaseStart reg opts plug with
  | none =>
    obtain ⟨errs, hne, he⟩ := h1 hs
    rw [hclean] at he
    exact absurd ((C04.canonErrs_empty_iff errs).1 he.symm) hne
  | some so =>
    obtain ⟨s, order⟩ := so
    obtain ⟨_, h3, h4⟩ := h2 s order hs
    refine ⟨s, order, rfl, ?_, ?_⟩
    · intro id a ha
      rcases h3 id a ha with h | h | h
      · exact Or.inl h
      · exact Or.inr h
      · exact absurd hclean h
    · intro ev hev
      constructor
      · exact Classical.byContradiction fun hn => h4 ev hev (Or.inl hn) hclean
      · exact fun hc => h4 ev hev (Or.inr hc) hclean

/-- **(e) exactly once, for `processAll`**: with the module order and the fuel `processAll` uses,
an augment has left the pending list of the loop exactly when its target exists in the loop's final
forest as a node that can have children. -/
theorem augment_exactly_once_processAll (reg : Registry) (opts : Opts) (plug : Plug) (hL : LoadedShape reg)
    (hpos : AugPosDistinct reg) (hplain : AugArgsPlain reg) (s : PState) (order : List Nat)
    (h : phaseStart reg opts plug = some (s, order)) :
    let fuel := s.pending.foldl (fun n p => n + p.2.length) 0 + 2
    ∀ id, ∀ a ∈ s.pendingOf id,
      (a ∉ (augmentLoop reg fuel order.toArray s).2.pendingOf id ↔
        (absAug (Res.ofReg reg) s.forest id a).Applicable (viewOf (augmentLoop reg fuel order.toArray s).2.forest)) := by
  have hin := phaseInput_holds reg opts plug hL hpos hplain s order h
  exact C07.augment_exactly_once_model reg _ order.toArray s hin.plain hin.nodup (phaseStart_cover reg opts plug s order h)
    (C07.model_fuel_sufficient s hin.keys)

/-- **(d) order independence, for `processAll`**: the run `processAll` makes (its module order, its
fuel) against any other run from the same forest over the same pending sets — any module list that
mentions the trees with pending augments (any order, repetitions), any order inside the pending
lists (`s2`), any sufficient fuel.  If `processAll`'s run leaves no `duplicate-node` error, the other
run ends in the same view and leaves the same augments unapplied. -/
theorem augment_loop_confluent_processAll (reg : Registry) (opts : Opts) (plug : Plug) (hL : LoadedShape reg)
    (hpos : AugPosDistinct reg) (hplain : AugArgsPlain reg) (s : PState) (order : List Nat)
    (h : phaseStart reg opts plug = some (s, order))
    (fuel2 : Nat) (mods2 : Array Nat) (s2 : PState)
    (hforest : s2.forest = s.forest) (hpend : ∀ id a, a ∈ s2.pendingOf id ↔ a ∈ s.pendingOf id)
    (hn2 : NodupPending s2) (hcov2 : Cover s2 mods2) (hfuel2 : mu s2 < fuel2) :
    let fuel := s.pending.foldl (fun n p => n + p.2.length) 0 + 2
    (∀ er, FVisErr (augmentLoop reg fuel order.toArray s).2.forest er → er.cls ≠ "duplicate-node") →
    viewOf (augmentLoop reg fuel2 mods2 s2).2.forest = viewOf (augmentLoop reg fuel order.toArray s).2.forest ∧
    (∀ id a, a ∈ (augmentLoop reg fuel2 mods2 s2).2.pendingOf id ↔
      a ∈ (augmentLoop reg fuel order.toArray s).2.pendingOf id) := by
  intro fuel hfree
  have hin := phaseInput_holds reg opts plug hL hpos hplain s order h
  have hp2 : PlainPending reg s2 := fun id a ha => hin.plain id a ((hpend id a).1 ha)
  exact C07.augment_loop_confluent_model reg fuel fuel2 order.toArray mods2 s s2 hin.plain hp2 hforest hpend hin.nodup hn2
    (phaseStart_cover reg opts plug s order h) hcov2 (C07.model_fuel_sufficient s hin.keys) hfuel2 hfree

/-- The special case "another module order, another fuel": same state, any module list that
mentions the trees with pending augments, any fuel above `mu s`. -/
theorem augment_order_independent_processAll (reg : Registry) (opts : Opts) (plug : Plug) (hL : LoadedShape reg)
    (hpos : AugPosDistinct reg) (hplain : AugArgsPlain reg) (s : PState) (order : List Nat)
    (h : phaseStart reg opts plug = some (s, order)) (fuel2 : Nat) (mods2 : Array Nat)
    (hcov2 : Cover s mods2) (hfuel2 : mu s < fuel2) :
    let fuel := s.pending.foldl (fun n p => n + p.2.length) 0 + 2
    (∀ er, FVisErr (augmentLoop reg fuel order.toArray s).2.forest er → er.cls ≠ "duplicate-node") →
    viewOf (augmentLoop reg fuel2 mods2 s).2.forest = viewOf (augmentLoop reg fuel order.toArray s).2.forest ∧
    (∀ id a, a ∈ (augmentLoop reg fuel2 mods2 s).2.pendingOf id ↔
      a ∈ (augmentLoop reg fuel order.toArray s).2.pendingOf id) :=
  augment_loop_confluent_processAll reg opts plug hL hpos hplain s order h fuel2 mods2 s rfl (fun _ _ => Iff.rfl)
    (phaseInput_holds reg opts plug hL hpos hplain s order h).nodup hcov2 hfuel2

/-! ### the error list (C07 (d′)) for `processAll` -/

/-- What the error-list theorems of Props/C07.lean ask of the forest holds of the state `processAll`
hands to the augment loop: one tree per id, unique keys in every tree, and unique keys in every
pending augment entry in which no error is recorded. -/
theorem phaseStart_wellformed (reg : Registry) (opts : Opts) (plug : Plug) (hL : LoadedShape reg) (s : PState)
    (order : List Nat) (h : phaseStart reg opts plug = some (s, order)) :
    (s.forest.trees.map (·.1)).Nodup ∧ (∀ t ∈ s.forest.trees, KeysUnique t.2) ∧
    (∀ id, ∀ a ∈ s.pendingOf id, a.allErrors = [] → ∀ c ∈ a.dir, KeysUnique c) := by
  have h0 := ((processAll_phaseStart reg opts plug).2 s order h).1
  have h1 := one_tree_per_module reg opts plug hL s order h
  obtain ⟨rfl, _⟩ := phaseStart_eq reg opts plug s order h
  exact ⟨h1, Lemmas.AugmentErrsBridge.keysUnique_pstate0 reg opts plug h0,
    Lemmas.AugmentErrsBridge.keysUnique_pending reg opts plug⟩

/-- **(d′) for `processAll`: one order ends without errors iff every other order does.**  The run
`processAll` makes (its module order, its fuel) against any other run from the same forest over the
same pending sets: the loop of one leaves no error in the forest exactly when the loop of the other
leaves none.  No hypothesis beyond those of `augment_loop_confluent_processAll`. -/
theorem augment_clean_iff_processAll (reg : Registry) (opts : Opts) (plug : Plug) (hL : LoadedShape reg)
    (hpos : AugPosDistinct reg) (hplain : AugArgsPlain reg) (s : PState) (order : List Nat)
    (h : phaseStart reg opts plug = some (s, order))
    (fuel2 : Nat) (mods2 : Array Nat) (s2 : PState)
    (hforest : s2.forest = s.forest) (hpend : ∀ id a, a ∈ s2.pendingOf id ↔ a ∈ s.pendingOf id)
    (hn2 : NodupPending s2) (hcov2 : Cover s2 mods2) (hfuel2 : mu s2 < fuel2) :
    let fuel := s.pending.foldl (fun n p => n + p.2.length) 0 + 2
    allErrs (augmentLoop reg fuel order.toArray s).2.forest = [] ↔
      allErrs (augmentLoop reg fuel2 mods2 s2).2.forest = [] := by
  intro fuel
  have hin := phaseInput_holds reg opts plug hL hpos hplain s order h
  have hp2 : PlainPending reg s2 := fun id a ha => hin.plain id a ((hpend id a).1 ha)
  obtain ⟨hids, hku, hbody⟩ := phaseStart_wellformed reg opts plug hL s order h
  rw [C07.model_loop_eq reg fuel order.toArray s hin.plain, C07.model_loop_eq reg fuel2 mods2 s2 hp2]
  exact C07.augment_loop_clean_iff (Res.ofReg reg) fuel fuel2 order.toArray mods2 s s2 hforest hpend hin.nodup hn2
    (phaseStart_cover reg opts plug s order h) hcov2 (C07.model_fuel_sufficient s hin.keys) hfuel2 hids hku hbody

/-- **(d′) for `processAll`: the error list does not depend on the order.**  When no pending augment
entry carries an error of its own and `processAll`'s run of the loop leaves no `duplicate-node` error,
every other run from the same forest over the same pending sets ends with the same set of recorded
errors — the same canonical error list — and in particular without `duplicate-node` error. -/
theorem augment_error_list_order_independent_processAll (reg : Registry) (opts : Opts) (plug : Plug)
    (hL : LoadedShape reg) (hpos : AugPosDistinct reg) (hplain : AugArgsPlain reg) (s : PState) (order : List Nat)
    (h : phaseStart reg opts plug = some (s, order))
    (fuel2 : Nat) (mods2 : Array Nat) (s2 : PState)
    (hforest : s2.forest = s.forest) (hpend : ∀ id a, a ∈ s2.pendingOf id ↔ a ∈ s.pendingOf id)
    (hn2 : NodupPending s2) (hcov2 : Cover s2 mods2) (hfuel2 : mu s2 < fuel2)
    (hbodies : ∀ id, ∀ a ∈ s.pendingOf id, a.allErrors = []) :
    let fuel := s.pending.foldl (fun n p => n + p.2.length) 0 + 2
    (∀ er ∈ allErrs (augmentLoop reg fuel order.toArray s).2.forest, er.cls ≠ "duplicate-node") →
    (∀ er, er ∈ allErrs (augmentLoop reg fuel2 mods2 s2).2.forest ↔
      er ∈ allErrs (augmentLoop reg fuel order.toArray s).2.forest) ∧
    canonErrs (allErrs (augmentLoop reg fuel2 mods2 s2).2.forest) =
      canonErrs (allErrs (augmentLoop reg fuel order.toArray s).2.forest) ∧
    (∀ er ∈ allErrs (augmentLoop reg fuel2 mods2 s2).2.forest, er.cls ≠ "duplicate-node") := by
  intro fuel hfree
  have hin := phaseInput_holds reg opts plug hL hpos hplain s order h
  have hp2 : PlainPending reg s2 := fun id a ha => hin.plain id a ((hpend id a).1 ha)
  obtain ⟨hids, hku, hbody⟩ := phaseStart_wellformed reg opts plug hL s order h
  have hcov := phaseStart_cover reg opts plug s order h
  have hfuel := C07.model_fuel_sufficient s hin.keys
  rw [C07.model_loop_eq reg fuel order.toArray s hin.plain] at hfree ⊢
  rw [C07.model_loop_eq reg fuel2 mods2 s2 hp2]
  have hbook := (loop_run (Res.ofReg reg) fuel order.toArray s hin.nodup hcov hfuel).2.1
  have hb : ∀ ev ∈ loopTrace (Res.ofReg reg) fuel order.toArray s, ∀ c ∈ ev.aug.dir, KeysUnique c :=
    fun ev hev => hbody ev.owner ev.aug (hbook.fromPending ev hev) (hbodies ev.owner ev.aug (hbook.fromPending ev hev))
  exact C07.augment_loop_confluent_errors_observed (Res.ofReg reg) fuel fuel2 order.toArray mods2 s s2 hforest hpend
    hin.nodup hn2 hcov hcov2 hfuel hfuel2 hids hku hb hfree

/-! ### the error list when pending augment entries carry errors of their own

C04's invariant gives `KeysUnique` of a converted entry only when no error is recorded in it: its
traversal cannot exclude two error entries with the empty name below one node, which arise in the
out-of-fuel branch of `toEntry` only.  C01's fuel bound shows that branch is never reached for the
calls `processAll` makes, so the traversal can be repeated with that branch answering an entry named
after its statement (`Lemmas/AugmentKU.lean`): every tree and every pending augment entry has unique
keys, errors or not.  Hence the hypothesis `hbodies` of
`augment_error_list_order_independent_processAll` can be dropped. -/

/-- Every tree and every pending augment entry (so each of its children) the conversion hands to the
augment phase has unique keys at every node — whether or not errors are recorded in it; no hypothesis
on the registry. -/
theorem phaseStart_keysUnique (reg : Registry) (opts : Opts) (plug : Plug) (s : PState)
    (order : List Nat) (h : phaseStart reg opts plug = some (s, order)) :
    (∀ t ∈ s.forest.trees, KeysUnique t.2) ∧
    (∀ id, ∀ a ∈ s.pendingOf id, KeysUnique a ∧ ∀ c ∈ a.dir, KeysUnique c) := by
  obtain ⟨rfl, _⟩ := phaseStart_eq reg opts plug s order h
  exact ⟨Lemmas.AugmentKU.keysUnique_pstate0_all reg opts plug,
    fun id => Lemmas.AugmentKU.keysUnique_pending_all reg opts plug id⟩

/-- **(d′) for `processAll`, pending entries with errors of their own included: the error set does
not depend on the order.**  When `processAll`'s run of the loop leaves no `duplicate-node` error,
every other run from the same forest over the same pending sets ends with the same set of recorded
errors — the same canonical error list — and without `duplicate-node` error.  (The errors recorded
inside an augment entry — an unknown type, a bad `config` value, a duplicate key in its body … — enter
the forest when the entry is applied; they are the same in every order.) -/
theorem augment_error_set_order_independent_processAll (reg : Registry) (opts : Opts) (plug : Plug)
    (hL : LoadedShape reg) (hpos : AugPosDistinct reg) (hplain : AugArgsPlain reg) (s : PState) (order : List Nat)
    (h : phaseStart reg opts plug = some (s, order))
    (fuel2 : Nat) (mods2 : Array Nat) (s2 : PState)
    (hforest : s2.forest = s.forest) (hpend : ∀ id a, a ∈ s2.pendingOf id ↔ a ∈ s.pendingOf id)
    (hn2 : NodupPending s2) (hcov2 : Cover s2 mods2) (hfuel2 : mu s2 < fuel2) :
    let fuel := s.pending.foldl (fun n p => n + p.2.length) 0 + 2
    (∀ er ∈ allErrs (augmentLoop reg fuel order.toArray s).2.forest, er.cls ≠ "duplicate-node") →
    (∀ er, er ∈ allErrs (augmentLoop reg fuel2 mods2 s2).2.forest ↔
      er ∈ allErrs (augmentLoop reg fuel order.toArray s).2.forest) ∧
    canonErrs (allErrs (augmentLoop reg fuel2 mods2 s2).2.forest) =
      canonErrs (allErrs (augmentLoop reg fuel order.toArray s).2.forest) ∧
    (∀ er ∈ allErrs (augmentLoop reg fuel2 mods2 s2).2.forest, er.cls ≠ "duplicate-node") := by
  intro fuel hfree
  have hin := phaseInput_holds reg opts plug hL hpos hplain s order h
  have hp2 : PlainPending reg s2 := fun id a ha => hin.plain id a ((hpend id a).1 ha)
  have hids := one_tree_per_module reg opts plug hL s order h
  obtain ⟨hku, hbody⟩ := phaseStart_keysUnique reg opts plug s order h
  have hcov := phaseStart_cover reg opts plug s order h
  have hfuel := C07.model_fuel_sufficient s hin.keys
  rw [C07.model_loop_eq reg fuel order.toArray s hin.plain] at hfree ⊢
  rw [C07.model_loop_eq reg fuel2 mods2 s2 hp2]
  have hbook := (loop_run (Res.ofReg reg) fuel order.toArray s hin.nodup hcov hfuel).2.1
  have hb : ∀ ev ∈ loopTrace (Res.ofReg reg) fuel order.toArray s, ∀ c ∈ ev.aug.dir, KeysUnique c :=
    fun ev hev => (hbody ev.owner ev.aug (hbook.fromPending ev hev)).2
  exact C07.augment_loop_confluent_errors_observed (Res.ofReg reg) fuel fuel2 order.toArray mods2 s s2 hforest hpend
    hin.nodup hn2 hcov hcov2 hfuel hfuel2 hids hku hb hfree

/-! ### `AugPosDistinct` derived: registries loaded from texts

`Model.loadTexts` is `Modules.Parse` per text (generic parser, AST builder, top-level check,
`Registry.add`).  For texts that are UTF-8 encodings of Unicode texts without the four constructs C02
leaves outside its claim (`AdmissibleTexts`; the refinement of the byte-level parser to the reference
reader is proved for those only) the predicate is a theorem: in the reference reader the tokens of a
text start at strictly increasing offsets, sibling statements stand at the offsets of a sublist of
them, and offset ↦ (line, col) is injective inside one text (`Lemmas/AugPosSpec.lean`); the
conversion to resolver statements and `Registry.add` keep the statements (`Lemmas/AugPosLoad.lean`).
The `_processAll` theorems are restated below for such registries with `AugArgsPlain` as the only
hypothesis on the input. -/

/-- Two different character offsets of one text (up to its end) have different (line, col). -/
theorem offset_position_injective (text : List Char) (a b : Nat) (hab : a < b) (hb : b ≤ text.length) :
    (Spec.Parse.lineOf text a, Spec.Parse.colOf text a) ≠ (Spec.Parse.lineOf text b, Spec.Parse.colOf text b) :=
  Lemmas.AugPosSpec.pos_ne_of_lt text a b hab hb

/-- The tokens of the reference reader start at strictly increasing offsets. -/
theorem token_offsets_increase (text : List Char) (toks : List Spec.Parse.PTok)
    (h : Spec.Parse.tokenize text = some toks) : toks.Pairwise (fun a b => a.off < b.off) :=
  Lemmas.AugPosSpec.tokenize_sorted text toks h

/-- **Sibling statements of a parsed text stand at different positions** (reference reader): the
top-level statements have pairwise different (line, col), and so have the substatements of every
statement of the forest, at any depth (`SibDistinct`). -/
theorem sibling_positions_distinct (text : List Char) (forest : List Spec.Parse.Stmt)
    (h : Spec.Parse.parse text = some forest) :
    (forest.map fun s => (s.line, s.col)).Nodup ∧ ∀ s ∈ forest, Lemmas.AugPosSpec.SibDistinct s :=
  Lemmas.AugPosSpec.parse_sibDistinct text forest h

/-- The texts handed to `loadTexts` are UTF-8 encodings (core Lean's encoder, `Props.C02.utf8`) of
Unicode texts without the four constructs C02 excludes. -/
def AdmissibleTexts (texts : List (List UInt8 × List UInt8)) : Prop :=
  ∀ nt ∈ texts, ∃ t : List Char, nt.2 = Goyang.Props.C02.utf8 t ∧ Spec.Parse.Admissible t = true

/-- **`AugPosDistinct` holds of every registry loaded from C02-admissible texts**, whichever of them
are accepted or rejected. -/
theorem augPosDistinct_of_loadTexts (texts : List (List UInt8 × List UInt8)) (hadm : AdmissibleTexts texts) :
    AugPosDistinct (loadTexts texts).1 := by
  refine Lemmas.AugPosLoad.augPosDistinct_loadTexts texts ?_
  intro nt hnt
  obtain ⟨t, e, ha⟩ := hadm nt hnt
  exact ⟨t, by rw [e, Goyang.Props.C02.utf8_eq], ha⟩

/-- the registry `Modules.Parse` builds from the texts, in order -/
abbrev loaded (texts : List (List UInt8 × List UInt8)) : Registry := (loadTexts texts).1

/-- `PhaseInput` for registries loaded from admissible texts: `AugArgsPlain` is the only hypothesis left. -/
theorem phaseInput_holds_texts (texts : List (List UInt8 × List UInt8)) (hadm : AdmissibleTexts texts)
    (opts : Opts) (plug : Plug) (hplain : AugArgsPlain (loaded texts))
    (s : PState) (order : List Nat) (h : phaseStart (loaded texts) opts plug = some (s, order)) :
    PhaseInput (loaded texts) s :=
  phaseInput_holds _ opts plug (loadedShape_loadTexts texts) (augPosDistinct_of_loadTexts texts hadm) hplain s order h

/-- `augment_reported_processAll` ((f) "… or reported") for registries loaded from admissible texts. -/
theorem augment_reported_loadTexts (texts : List (List UInt8 × List UInt8)) (hadm : AdmissibleTexts texts)
    (opts : Opts) (plug : Plug) (hplain : AugArgsPlain (loaded texts)) :
    (phaseStart (loaded texts) opts plug = none →
      ∃ errs, errs ≠ [] ∧ (processAll (loaded texts) opts plug).errors = canonErrs errs) ∧
    (∀ s order, phaseStart (loaded texts) opts plug = some (s, order) → allErrs s.forest = [] ∧
      (let fuel := s.pending.foldl (fun n p => n + p.2.length) 0 + 2
       let ph := phaseR (Res.ofReg (loaded texts)) order fuel s
       (∀ id, ∀ a ∈ s.pendingOf id,
         (id, a) ∈ ph.2.1.map Ev.key ∨ (id, a) ∈ ph.2.2.map Ev.key ∨ (processAll (loaded texts) opts plug).errors ≠ []) ∧
       (∀ ev ∈ ph.2.1,
         (¬ (absEv (Res.ofReg (loaded texts)) s.forest ev).roots.Nodup ∨
           (absEv (Res.ofReg (loaded texts)) s.forest ev).Collides (viewOf ev.before)) →
         (processAll (loaded texts) opts plug).errors ≠ []))) :=
  augment_reported_processAll _ opts plug (loadedShape_loadTexts texts) (augPosDistinct_of_loadTexts texts hadm) hplain

/-- `clean_process_applied_all` for registries loaded from admissible texts. -/
theorem clean_process_applied_all_loadTexts (texts : List (List UInt8 × List UInt8)) (hadm : AdmissibleTexts texts)
    (opts : Opts) (plug : Plug) (hplain : AugArgsPlain (loaded texts))
    (hclean : (processAll (loaded texts) opts plug).errors = []) :
    ∃ s order, phaseStart (loaded texts) opts plug = some (s, order) ∧
      (let fuel := s.pending.foldl (fun n p => n + p.2.length) 0 + 2
       let ph := phaseR (Res.ofReg (loaded texts)) order fuel s
       (∀ id, ∀ a ∈ s.pendingOf id, (id, a) ∈ ph.2.1.map Ev.key ∨ (id, a) ∈ ph.2.2.map Ev.key) ∧
       (∀ ev ∈ ph.2.1, (absEv (Res.ofReg (loaded texts)) s.forest ev).roots.Nodup ∧
         ¬ (absEv (Res.ofReg (loaded texts)) s.forest ev).Collides (viewOf ev.before))) :=
  clean_process_applied_all _ opts plug (loadedShape_loadTexts texts) (augPosDistinct_of_loadTexts texts hadm) hplain hclean

/-- `augment_exactly_once_processAll` ((e)) for registries loaded from admissible texts. -/
theorem augment_exactly_once_loadTexts (texts : List (List UInt8 × List UInt8)) (hadm : AdmissibleTexts texts)
    (opts : Opts) (plug : Plug) (hplain : AugArgsPlain (loaded texts)) (s : PState) (order : List Nat)
    (h : phaseStart (loaded texts) opts plug = some (s, order)) :
    let fuel := s.pending.foldl (fun n p => n + p.2.length) 0 + 2
    ∀ id, ∀ a ∈ s.pendingOf id,
      (a ∉ (augmentLoop (loaded texts) fuel order.toArray s).2.pendingOf id ↔
        (absAug (Res.ofReg (loaded texts)) s.forest id a).Applicable
          (viewOf (augmentLoop (loaded texts) fuel order.toArray s).2.forest)) :=
  augment_exactly_once_processAll _ opts plug (loadedShape_loadTexts texts) (augPosDistinct_of_loadTexts texts hadm)
    hplain s order h

/-- `augment_loop_confluent_processAll` ((d)) for registries loaded from admissible texts. -/
theorem augment_loop_confluent_loadTexts (texts : List (List UInt8 × List UInt8)) (hadm : AdmissibleTexts texts)
    (opts : Opts) (plug : Plug) (hplain : AugArgsPlain (loaded texts)) (s : PState) (order : List Nat)
    (h : phaseStart (loaded texts) opts plug = some (s, order))
    (fuel2 : Nat) (mods2 : Array Nat) (s2 : PState)
    (hforest : s2.forest = s.forest) (hpend : ∀ id a, a ∈ s2.pendingOf id ↔ a ∈ s.pendingOf id)
    (hn2 : NodupPending s2) (hcov2 : Cover s2 mods2) (hfuel2 : mu s2 < fuel2) :
    let fuel := s.pending.foldl (fun n p => n + p.2.length) 0 + 2
    (∀ er, FVisErr (augmentLoop (loaded texts) fuel order.toArray s).2.forest er → er.cls ≠ "duplicate-node") →
    viewOf (augmentLoop (loaded texts) fuel2 mods2 s2).2.forest =
      viewOf (augmentLoop (loaded texts) fuel order.toArray s).2.forest ∧
    (∀ id a, a ∈ (augmentLoop (loaded texts) fuel2 mods2 s2).2.pendingOf id ↔
      a ∈ (augmentLoop (loaded texts) fuel order.toArray s).2.pendingOf id) :=
  augment_loop_confluent_processAll _ opts plug (loadedShape_loadTexts texts) (augPosDistinct_of_loadTexts texts hadm)
    hplain s order h fuel2 mods2 s2 hforest hpend hn2 hcov2 hfuel2

/-- `augment_order_independent_processAll` for registries loaded from admissible texts. -/
theorem augment_order_independent_loadTexts (texts : List (List UInt8 × List UInt8)) (hadm : AdmissibleTexts texts)
    (opts : Opts) (plug : Plug) (hplain : AugArgsPlain (loaded texts)) (s : PState) (order : List Nat)
    (h : phaseStart (loaded texts) opts plug = some (s, order)) (fuel2 : Nat) (mods2 : Array Nat)
    (hcov2 : Cover s mods2) (hfuel2 : mu s < fuel2) :
    let fuel := s.pending.foldl (fun n p => n + p.2.length) 0 + 2
    (∀ er, FVisErr (augmentLoop (loaded texts) fuel order.toArray s).2.forest er → er.cls ≠ "duplicate-node") →
    viewOf (augmentLoop (loaded texts) fuel2 mods2 s).2.forest =
      viewOf (augmentLoop (loaded texts) fuel order.toArray s).2.forest ∧
    (∀ id a, a ∈ (augmentLoop (loaded texts) fuel2 mods2 s).2.pendingOf id ↔
      a ∈ (augmentLoop (loaded texts) fuel order.toArray s).2.pendingOf id) :=
  augment_order_independent_processAll _ opts plug (loadedShape_loadTexts texts) (augPosDistinct_of_loadTexts texts hadm)
    hplain s order h fuel2 mods2 hcov2 hfuel2

/-- `augment_clean_iff_processAll` ((d′)) for registries loaded from admissible texts. -/
theorem augment_clean_iff_loadTexts (texts : List (List UInt8 × List UInt8)) (hadm : AdmissibleTexts texts)
    (opts : Opts) (plug : Plug) (hplain : AugArgsPlain (loaded texts)) (s : PState) (order : List Nat)
    (h : phaseStart (loaded texts) opts plug = some (s, order))
    (fuel2 : Nat) (mods2 : Array Nat) (s2 : PState)
    (hforest : s2.forest = s.forest) (hpend : ∀ id a, a ∈ s2.pendingOf id ↔ a ∈ s.pendingOf id)
    (hn2 : NodupPending s2) (hcov2 : Cover s2 mods2) (hfuel2 : mu s2 < fuel2) :
    let fuel := s.pending.foldl (fun n p => n + p.2.length) 0 + 2
    allErrs (augmentLoop (loaded texts) fuel order.toArray s).2.forest = [] ↔
      allErrs (augmentLoop (loaded texts) fuel2 mods2 s2).2.forest = [] :=
  augment_clean_iff_processAll _ opts plug (loadedShape_loadTexts texts) (augPosDistinct_of_loadTexts texts hadm)
    hplain s order h fuel2 mods2 s2 hforest hpend hn2 hcov2 hfuel2

/-- `augment_error_list_order_independent_processAll` ((d′)) for registries loaded from admissible texts. -/
theorem augment_error_list_order_independent_loadTexts (texts : List (List UInt8 × List UInt8))
    (hadm : AdmissibleTexts texts) (opts : Opts) (plug : Plug) (hplain : AugArgsPlain (loaded texts))
    (s : PState) (order : List Nat) (h : phaseStart (loaded texts) opts plug = some (s, order))
    (fuel2 : Nat) (mods2 : Array Nat) (s2 : PState)
    (hforest : s2.forest = s.forest) (hpend : ∀ id a, a ∈ s2.pendingOf id ↔ a ∈ s.pendingOf id)
    (hn2 : NodupPending s2) (hcov2 : Cover s2 mods2) (hfuel2 : mu s2 < fuel2)
    (hbodies : ∀ id, ∀ a ∈ s.pendingOf id, a.allErrors = []) :
    let fuel := s.pending.foldl (fun n p => n + p.2.length) 0 + 2
    (∀ er ∈ allErrs (augmentLoop (loaded texts) fuel order.toArray s).2.forest, er.cls ≠ "duplicate-node") →
    (∀ er, er ∈ allErrs (augmentLoop (loaded texts) fuel2 mods2 s2).2.forest ↔
      er ∈ allErrs (augmentLoop (loaded texts) fuel order.toArray s).2.forest) ∧
    canonErrs (allErrs (augmentLoop (loaded texts) fuel2 mods2 s2).2.forest) =
      canonErrs (allErrs (augmentLoop (loaded texts) fuel order.toArray s).2.forest) ∧
    (∀ er ∈ allErrs (augmentLoop (loaded texts) fuel2 mods2 s2).2.forest, er.cls ≠ "duplicate-node") :=
  augment_error_list_order_independent_processAll _ opts plug (loadedShape_loadTexts texts)
    (augPosDistinct_of_loadTexts texts hadm) hplain s order h fuel2 mods2 s2 hforest hpend hn2 hcov2 hfuel2 hbodies

/-- `augment_error_set_order_independent_processAll` ((d′), pending entries with errors of their own
included) for registries loaded from admissible texts. -/
theorem augment_error_set_order_independent_loadTexts (texts : List (List UInt8 × List UInt8))
    (hadm : AdmissibleTexts texts) (opts : Opts) (plug : Plug) (hplain : AugArgsPlain (loaded texts))
    (s : PState) (order : List Nat) (h : phaseStart (loaded texts) opts plug = some (s, order))
    (fuel2 : Nat) (mods2 : Array Nat) (s2 : PState)
    (hforest : s2.forest = s.forest) (hpend : ∀ id a, a ∈ s2.pendingOf id ↔ a ∈ s.pendingOf id)
    (hn2 : NodupPending s2) (hcov2 : Cover s2 mods2) (hfuel2 : mu s2 < fuel2) :
    let fuel := s.pending.foldl (fun n p => n + p.2.length) 0 + 2
    (∀ er ∈ allErrs (augmentLoop (loaded texts) fuel order.toArray s).2.forest, er.cls ≠ "duplicate-node") →
    (∀ er, er ∈ allErrs (augmentLoop (loaded texts) fuel2 mods2 s2).2.forest ↔
      er ∈ allErrs (augmentLoop (loaded texts) fuel order.toArray s).2.forest) ∧
    canonErrs (allErrs (augmentLoop (loaded texts) fuel2 mods2 s2).2.forest) =
      canonErrs (allErrs (augmentLoop (loaded texts) fuel order.toArray s).2.forest) ∧
    (∀ er ∈ allErrs (augmentLoop (loaded texts) fuel2 mods2 s2).2.forest, er.cls ≠ "duplicate-node") :=
  augment_error_set_order_independent_processAll _ opts plug (loadedShape_loadTexts texts)
    (augPosDistinct_of_loadTexts texts hadm) hplain s order h fuel2 mods2 s2 hforest hpend hn2 hcov2 hfuel2

/-! ### `AugPosDistinct` for ALL byte strings: the `_anyTexts` theorems

The direct proof on the byte-level lexer model (2026-09-29, `Lemmas/AugPosLex.lean`,
`Lemmas/AugPosParse.lean`, `Lemmas/AugPosLoadAny.lean`, `Lemmas/AugPosAny.lean`).  For EVERY byte string
(ill-formed UTF-8, comment openers inside tokens, every quoted-string shape) the tokens the lexer
model hands the parser — error tokens aside, which the parser never sees — stand at strictly
increasing (line, col) in lexicographic order (`lexer_tokens_increase_anyText`); the generic parser
builds statements at the positions of their keyword tokens, pulled in that order (push-back keeps
it), so sibling statements — at the top level and below every statement, the sentinel `ignoreMe`
of a syntax error aside — stand at strictly increasing positions (`parsed_siblings_increase_anyText`);
`toStmt?` and `Registry.add` keep them, hence `AugPosDistinct` holds of EVERY registry `loadTexts` can
produce (`augPosDistinct_anyTexts`).  The `_loadTexts` theorems are restated without `AdmissibleTexts`
as `_anyTexts`; `AugArgsPlain` is the only input hypothesis left.

Two facts about the model (and the Go code it transliterates) found on the way:
* the cursor (line, col) is NOT a function of the byte offset: `peek` before a newline goes through
  `backup`, which resets `col` to 0 (and `line` back); so "offset ↦ (line, col) is monotone" is false of
  the lexer state in general and the proof does not go through offsets.  It carries the invariant
  "the cursor stands after the last token, or the next rune is a newline and the last token is on
  this or an earlier line" (`Lemmas.AugPosLex.F`): token starts are read off the cursor only after
  white space has been skipped, where it is exact again.  Ill-formed bytes are no problem: every
  decoded rune, ill-formed or not, advances `col` by one (`next`) — the suspected witness (a
  multi-byte ill-formed sequence that does not advance the column) does not exist.
* ERROR tokens do share a position with the following token (an invalid escape inside a
  double-quoted string queues an error token at the string's own position, then the string): the
  statement is about the tokens the parser sees (`skipErrors` drops error tokens), see the example. -/

/-- **The lexer model hands the parser tokens at strictly increasing (line, col), for every byte
string**: `Lemmas.AugPosLex.LInv q l` — every token the lexer state `l` still has queued or will still
read stands strictly after `q`, in strictly increasing order — holds initially with `q = (0, 0)`, and a
token pulled under `LInv q` stands after `q` and re-establishes `LInv` at its own position
(`Lemmas.AugPosOrd.SrcMono`). -/
theorem lexer_tokens_increase_anyText (text file : List UInt8) :
    Lemmas.AugPosOrd.SrcMono Parse.lexSource Lemmas.AugPosLex.LInv ∧
    Lemmas.AugPosLex.LInv (0, 0) (Lex.newLexer text file) :=
  ⟨Lemmas.AugPosLex.lexSource_mono, Lemmas.AugPosLex.newLexer_inv text file⟩

/-- **Sibling statements of ANY parsed text stand at strictly increasing positions** (byte-level
parser model, every byte string): the top-level statements and the substatements of every statement,
at any depth, are pairwise in the relation "the later one is `ignoreMe` or stands strictly after the
earlier one" (`Lemmas.AugPosOrd.ForestOK`). -/
theorem parsed_siblings_increase_anyText (name text : List UInt8) (forest : List Parse.Statement)
    (h : Parse.parseText name text = .ok forest) : Lemmas.AugPosOrd.ForestOK forest :=
  Lemmas.AugPosAny.parseText_forestOK name text forest h

/-- **`AugPosDistinct` holds of every registry loaded from raw texts, whatever the bytes are.** -/
theorem augPosDistinct_anyTexts (texts : List (List UInt8 × List UInt8)) : AugPosDistinct (loadTexts texts).1 :=
  Lemmas.AugPosAny.augPosDistinct_loadTexts_any texts

/-- `PhaseInput` for registries loaded from ANY texts (no admissibility hypothesis): `AugArgsPlain` is the only hypothesis left. -/
theorem phaseInput_holds_anyTexts (texts : List (List UInt8 × List UInt8))
    (opts : Opts) (plug : Plug) (hplain : AugArgsPlain (loaded texts))
    (s : PState) (order : List Nat) (h : phaseStart (loaded texts) opts plug = some (s, order)) :
    PhaseInput (loaded texts) s :=
  phaseInput_holds _ opts plug (loadedShape_loadTexts texts) (augPosDistinct_anyTexts texts) hplain s order h

/-- `augment_reported_processAll` ((f) "… or reported") for registries loaded from ANY texts (no admissibility hypothesis). -/
theorem augment_reported_anyTexts (texts : List (List UInt8 × List UInt8))
    (opts : Opts) (plug : Plug) (hplain : AugArgsPlain (loaded texts)) :
    (phaseStart (loaded texts) opts plug = none →
      ∃ errs, errs ≠ [] ∧ (processAll (loaded texts) opts plug).errors = canonErrs errs) ∧
    (∀ s order, phaseStart (loaded texts) opts plug = some (s, order) → allErrs s.forest = [] ∧
      (let fuel := s.pending.foldl (fun n p => n + p.2.length) 0 + 2
       let ph := phaseR (Res.ofReg (loaded texts)) order fuel s
       (∀ id, ∀ a ∈ s.pendingOf id,
         (id, a) ∈ ph.2.1.map Ev.key ∨ (id, a) ∈ ph.2.2.map Ev.key ∨ (processAll (loaded texts) opts plug).errors ≠ []) ∧
       (∀ ev ∈ ph.2.1,
         (¬ (absEv (Res.ofReg (loaded texts)) s.forest ev).roots.Nodup ∨
           (absEv (Res.ofReg (loaded texts)) s.forest ev).Collides (viewOf ev.before)) →
         (processAll (loaded texts) opts plug).errors ≠ []))) :=
  augment_reported_processAll _ opts plug (loadedShape_loadTexts texts) (augPosDistinct_anyTexts texts) hplain

/-- `clean_process_applied_all` for registries loaded from ANY texts (no admissibility hypothesis). -/
theorem clean_process_applied_all_anyTexts (texts : List (List UInt8 × List UInt8))
    (opts : Opts) (plug : Plug) (hplain : AugArgsPlain (loaded texts))
    (hclean : (processAll (loaded texts) opts plug).errors = []) :
    ∃ s order, phaseStart (loaded texts) opts plug = some (s, order) ∧
      (let fuel := s.pending.foldl (fun n p => n + p.2.length) 0 + 2
       let ph := phaseR (Res.ofReg (loaded texts)) order fuel s
       (∀ id, ∀ a ∈ s.pendingOf id, (id, a) ∈ ph.2.1.map Ev.key ∨ (id, a) ∈ ph.2.2.map Ev.key) ∧
       (∀ ev ∈ ph.2.1, (absEv (Res.ofReg (loaded texts)) s.forest ev).roots.Nodup ∧
         ¬ (absEv (Res.ofReg (loaded texts)) s.forest ev).Collides (viewOf ev.before))) :=
  clean_process_applied_all _ opts plug (loadedShape_loadTexts texts) (augPosDistinct_anyTexts texts) hplain hclean

/-- `augment_exactly_once_processAll` ((e)) for registries loaded from ANY texts (no admissibility hypothesis). -/
theorem augment_exactly_once_anyTexts (texts : List (List UInt8 × List UInt8))
    (opts : Opts) (plug : Plug) (hplain : AugArgsPlain (loaded texts)) (s : PState) (order : List Nat)
    (h : phaseStart (loaded texts) opts plug = some (s, order)) :
    let fuel := s.pending.foldl (fun n p => n + p.2.length) 0 + 2
    ∀ id, ∀ a ∈ s.pendingOf id,
      (a ∉ (augmentLoop (loaded texts) fuel order.toArray s).2.pendingOf id ↔
        (absAug (Res.ofReg (loaded texts)) s.forest id a).Applicable
          (viewOf (augmentLoop (loaded texts) fuel order.toArray s).2.forest)) :=
  augment_exactly_once_processAll _ opts plug (loadedShape_loadTexts texts) (augPosDistinct_anyTexts texts)
    hplain s order h

/-- `augment_loop_confluent_processAll` ((d)) for registries loaded from ANY texts (no admissibility hypothesis). -/
theorem augment_loop_confluent_anyTexts (texts : List (List UInt8 × List UInt8))
    (opts : Opts) (plug : Plug) (hplain : AugArgsPlain (loaded texts)) (s : PState) (order : List Nat)
    (h : phaseStart (loaded texts) opts plug = some (s, order))
    (fuel2 : Nat) (mods2 : Array Nat) (s2 : PState)
    (hforest : s2.forest = s.forest) (hpend : ∀ id a, a ∈ s2.pendingOf id ↔ a ∈ s.pendingOf id)
    (hn2 : NodupPending s2) (hcov2 : Cover s2 mods2) (hfuel2 : mu s2 < fuel2) :
    let fuel := s.pending.foldl (fun n p => n + p.2.length) 0 + 2
    (∀ er, FVisErr (augmentLoop (loaded texts) fuel order.toArray s).2.forest er → er.cls ≠ "duplicate-node") →
    viewOf (augmentLoop (loaded texts) fuel2 mods2 s2).2.forest =
      viewOf (augmentLoop (loaded texts) fuel order.toArray s).2.forest ∧
    (∀ id a, a ∈ (augmentLoop (loaded texts) fuel2 mods2 s2).2.pendingOf id ↔
      a ∈ (augmentLoop (loaded texts) fuel order.toArray s).2.pendingOf id) :=
  augment_loop_confluent_processAll _ opts plug (loadedShape_loadTexts texts) (augPosDistinct_anyTexts texts)
    hplain s order h fuel2 mods2 s2 hforest hpend hn2 hcov2 hfuel2

/-- `augment_order_independent_processAll` for registries loaded from ANY texts (no admissibility hypothesis). -/
theorem augment_order_independent_anyTexts (texts : List (List UInt8 × List UInt8))
    (opts : Opts) (plug : Plug) (hplain : AugArgsPlain (loaded texts)) (s : PState) (order : List Nat)
    (h : phaseStart (loaded texts) opts plug = some (s, order)) (fuel2 : Nat) (mods2 : Array Nat)
    (hcov2 : Cover s mods2) (hfuel2 : mu s < fuel2) :
    let fuel := s.pending.foldl (fun n p => n + p.2.length) 0 + 2
    (∀ er, FVisErr (augmentLoop (loaded texts) fuel order.toArray s).2.forest er → er.cls ≠ "duplicate-node") →
    viewOf (augmentLoop (loaded texts) fuel2 mods2 s).2.forest =
      viewOf (augmentLoop (loaded texts) fuel order.toArray s).2.forest ∧
    (∀ id a, a ∈ (augmentLoop (loaded texts) fuel2 mods2 s).2.pendingOf id ↔
      a ∈ (augmentLoop (loaded texts) fuel order.toArray s).2.pendingOf id) :=
  augment_order_independent_processAll _ opts plug (loadedShape_loadTexts texts) (augPosDistinct_anyTexts texts)
    hplain s order h fuel2 mods2 hcov2 hfuel2

/-- `augment_clean_iff_processAll` ((d′)) for registries loaded from ANY texts (no admissibility hypothesis). -/
theorem augment_clean_iff_anyTexts (texts : List (List UInt8 × List UInt8))
    (opts : Opts) (plug : Plug) (hplain : AugArgsPlain (loaded texts)) (s : PState) (order : List Nat)
    (h : phaseStart (loaded texts) opts plug = some (s, order))
    (fuel2 : Nat) (mods2 : Array Nat) (s2 : PState)
    (hforest : s2.forest = s.forest) (hpend : ∀ id a, a ∈ s2.pendingOf id ↔ a ∈ s.pendingOf id)
    (hn2 : NodupPending s2) (hcov2 : Cover s2 mods2) (hfuel2 : mu s2 < fuel2) :
    let fuel := s.pending.foldl (fun n p => n + p.2.length) 0 + 2
    allErrs (augmentLoop (loaded texts) fuel order.toArray s).2.forest = [] ↔
      allErrs (augmentLoop (loaded texts) fuel2 mods2 s2).2.forest = [] :=
  augment_clean_iff_processAll _ opts plug (loadedShape_loadTexts texts) (augPosDistinct_anyTexts texts)
    hplain s order h fuel2 mods2 s2 hforest hpend hn2 hcov2 hfuel2

/-- `augment_error_list_order_independent_processAll` ((d′)) for registries loaded from ANY texts (no admissibility hypothesis). -/
theorem augment_error_list_order_independent_anyTexts (texts : List (List UInt8 × List UInt8))
    (opts : Opts) (plug : Plug) (hplain : AugArgsPlain (loaded texts))
    (s : PState) (order : List Nat) (h : phaseStart (loaded texts) opts plug = some (s, order))
    (fuel2 : Nat) (mods2 : Array Nat) (s2 : PState)
    (hforest : s2.forest = s.forest) (hpend : ∀ id a, a ∈ s2.pendingOf id ↔ a ∈ s.pendingOf id)
    (hn2 : NodupPending s2) (hcov2 : Cover s2 mods2) (hfuel2 : mu s2 < fuel2)
    (hbodies : ∀ id, ∀ a ∈ s.pendingOf id, a.allErrors = []) :
    let fuel := s.pending.foldl (fun n p => n + p.2.length) 0 + 2
    (∀ er ∈ allErrs (augmentLoop (loaded texts) fuel order.toArray s).2.forest, er.cls ≠ "duplicate-node") →
    (∀ er, er ∈ allErrs (augmentLoop (loaded texts) fuel2 mods2 s2).2.forest ↔
      er ∈ allErrs (augmentLoop (loaded texts) fuel order.toArray s).2.forest) ∧
    canonErrs (allErrs (augmentLoop (loaded texts) fuel2 mods2 s2).2.forest) =
      canonErrs (allErrs (augmentLoop (loaded texts) fuel order.toArray s).2.forest) ∧
    (∀ er ∈ allErrs (augmentLoop (loaded texts) fuel2 mods2 s2).2.forest, er.cls ≠ "duplicate-node") :=
  augment_error_list_order_independent_processAll _ opts plug (loadedShape_loadTexts texts)
    (augPosDistinct_anyTexts texts) hplain s order h fuel2 mods2 s2 hforest hpend hn2 hcov2 hfuel2 hbodies

/-- `augment_error_set_order_independent_processAll` ((d′), pending entries with errors of their own
included) for registries loaded from ANY texts (no admissibility hypothesis). -/
theorem augment_error_set_order_independent_anyTexts (texts : List (List UInt8 × List UInt8))
    (opts : Opts) (plug : Plug) (hplain : AugArgsPlain (loaded texts))
    (s : PState) (order : List Nat) (h : phaseStart (loaded texts) opts plug = some (s, order))
    (fuel2 : Nat) (mods2 : Array Nat) (s2 : PState)
    (hforest : s2.forest = s.forest) (hpend : ∀ id a, a ∈ s2.pendingOf id ↔ a ∈ s.pendingOf id)
    (hn2 : NodupPending s2) (hcov2 : Cover s2 mods2) (hfuel2 : mu s2 < fuel2) :
    let fuel := s.pending.foldl (fun n p => n + p.2.length) 0 + 2
    (∀ er ∈ allErrs (augmentLoop (loaded texts) fuel order.toArray s).2.forest, er.cls ≠ "duplicate-node") →
    (∀ er, er ∈ allErrs (augmentLoop (loaded texts) fuel2 mods2 s2).2.forest ↔
      er ∈ allErrs (augmentLoop (loaded texts) fuel order.toArray s).2.forest) ∧
    canonErrs (allErrs (augmentLoop (loaded texts) fuel2 mods2 s2).2.forest) =
      canonErrs (allErrs (augmentLoop (loaded texts) fuel order.toArray s).2.forest) ∧
    (∀ er ∈ allErrs (augmentLoop (loaded texts) fuel2 mods2 s2).2.forest, er.cls ≠ "duplicate-node") :=
  augment_error_set_order_independent_processAll _ opts plug (loadedShape_loadTexts texts)
    (augPosDistinct_anyTexts texts) hplain s order h fuel2 mods2 s2 hforest hpend hn2 hcov2 hfuel2

/-! ### non-vacuity: the input predicates hold of a concrete two-module set with an augment -/
section Examples
open Goyang.Props.C04.Ex

/-- `"/a:c"` is an absolute schema node identifier with one plain step (the legacy `String.splitOn`
does not reduce in the kernel; `Lemmas.Find.splitOn_char` turns it into `List.splitOn`). -/
theorem plainAbsArg_example : PlainAbsArg "/a:c" := by
  have hs : "/a:c".splitOn "/" = ["", "a:c"] := by
    rw [Lemmas.Find.slash_eq, Lemmas.Find.splitOn_char]; decide
  unfold PlainAbsArg
  rw [hs]
  exact ⟨rfl, by decide⟩

/-- C04's example registry: module `a` and module `b`, which imports `a` and augments `/a:c`. -/
example : LoadedShape reg2 ∧ AugPosDistinct reg2 ∧ ModsAreModules reg2 := by decide +kernel

example : AugArgsPlain reg2 := by
  intro m hm s hs
  have hall : ∀ m ∈ reg2.mods, ∀ s ∈ m.stmt.all "augment", s.arg = "/a:c" := by decide +kernel
  rw [hall m hm s hs]
  exact plainAbsArg_example

/-- `processAll` enters the augment phase on it, with one pending augment in the row of `b`. -/
example : ((phaseStart reg2 {} plug).map fun x => (x.1.pending.map fun p => (p.1, p.2.length), x.2)) =
    some ([(0, 0), (1, 1)], [0, 1]) := by decide +kernel

/-- An argument with a `..` step, an empty step or without the leading `/` is not plain. -/
example : ¬ PlainAbsArg "/a:c/../d" ∧ ¬ PlainAbsArg "a:c" := by
  have h1 : "/a:c/../d".splitOn "/" = ["", "a:c", "..", "d"] := by
    rw [Lemmas.Find.slash_eq, Lemmas.Find.splitOn_char]; decide
  have h2 : "a:c".splitOn "/" = ["a:c"] := by
    rw [Lemmas.Find.slash_eq, Lemmas.Find.splitOn_char]; decide
  unfold PlainAbsArg
  rw [h1, h2]
  decide

/-! ### why the two input predicates cannot be dropped (kernel-checked witnesses) -/

/-- A registry value in which module `b` holds the SAME augment statement value twice (same
position — no parsed text yields this, every `Registry` value of the loaded shape may). -/
def modB2 : Stmt :=
  st 1 "module" "b" [
    st 2 "namespace" "urn:b", st 3 "prefix" "b",
    st 4 "import" "a" [st 5 "prefix" "a"],
    st 6 "augment" "/a:c" [st 7 "leaf" "w" [st 8 "type" "string"]],
    st 6 "augment" "/a:c" [st 7 "leaf" "w" [st 8 "type" "string"]]]
def reg3 : Registry := (Registry.loadAll [modA, modB2]).1
def pend3 : List Entry := match phaseStart reg3 {} plug with | some x => x.1.pendingOf 1 | none => []

theorem pend3_twice : pend3.length = 2 ∧ pend3.head?.toList ++ pend3.head?.toList = pend3 :=
  ⟨by decide +kernel, by unfold pend3; rfl⟩

/-- **`AugPosDistinct` cannot be dropped** from `pending_no_entry_twice` (hence from `PhaseInput`):
for this registry of the loaded shape, with plain augment arguments, `processAll` enters the augment
phase with the same entry listed twice for module `b` — `NodupPending`, on which exactly-once and the
trace bookkeeping rest, is false.  (For registries loaded from C02-admissible texts the predicate is a
theorem: `augPosDistinct_of_loadTexts`.) -/
theorem augPosDistinct_needed : ∃ reg : Registry, LoadedShape reg ∧ AugArgsPlain reg ∧ ¬ AugPosDistinct reg ∧
    ∃ s order, phaseStart reg {} plug = some (s, order) ∧ ¬ NodupPending s := by
  refine ⟨reg3, by decide +kernel, ?_, by decide +kernel, ?_⟩
  · intro m hm s hs
    have hall : ∀ m ∈ reg3.mods, ∀ s ∈ m.stmt.all "augment", s.arg = "/a:c" := by decide +kernel
    rw [hall m hm s hs]
    exact plainAbsArg_example
  · obtain ⟨hlen, hdup⟩ := pend3_twice
    cases h : phaseStart reg3 {} plug with
    | none => simp [pend3, h] at hlen
    | some x =>
      refine ⟨x.1, x.2, rfl, fun hn => ?_⟩
      have h1 : pend3 = x.1.pendingOf 1 := by simp [pend3, h]
      rw [h1] at hlen hdup
      have hnd := hn 1
      cases hl : x.1.pendingOf 1 with
      | nil => rw [hl] at hlen; cases hlen
      | cons a t =>
        rw [hl] at hdup hnd
        simp only [List.head?_cons, Option.toList_some, List.cons_append, List.nil_append, List.cons.injEq, true_and] at hdup
        rw [← hdup] at hnd
        simp at hnd

/-- **`AugArgsPlain` cannot be dropped**: it is a condition on the input (RFC 7950 has no `.`, `..` or
empty steps in an absolute schema node identifier; the Go code tolerates them).  With a `..` step Go's
`Find` — the model's `walkParts` — steps back to the parent, so `augment "/a:c/a:d/.."` is applied to
`c` (replayed on the Go code: no error, `z` becomes a child of `c`); the reference semantics addresses
nodes by names from the root and has no node `..`: the analysed loop (`walkN`) and the specification
(`walk`) find no target.  `model_loop_eq` and every statement about `absAug` would be false of it. -/
example : let root := Lemmas.AugmentExamples.dir "a" [Lemmas.AugmentExamples.dir "c" [Lemmas.AugmentExamples.dir "d" []]]
    (walkParts ["a:c", "a:d", ".."] root (some [])).1 = some [.child "c"] ∧
    (walkN (["a:c", "a:d", ".."].map stripPrefix) root (some [])).1 = none ∧
    walk root ["c", "d", ".."] = none := by decide

/-- the extra hypothesis of `augment_error_list_order_independent_processAll` (no pending augment
entry carries an error of its own) holds of the two-module example -/
example : ((phaseStart reg2 {} plug).map fun x => x.1.pending.all fun p => p.2.all fun a => a.allErrors.isEmpty) =
    some true := by decide +kernel

/-! ### a pending augment entry with an error of its own -/

/-- module `b` whose augment body has a bad `config` value -/
def modB4 : Stmt :=
  st 1 "module" "b" [
    st 2 "namespace" "urn:b", st 3 "prefix" "b",
    st 4 "import" "a" [st 5 "prefix" "a"],
    st 6 "augment" "/a:c" [st 7 "leaf" "w" [st 8 "type" "string", st 9 "config" "maybe"]]]
def reg4 : Registry := (Registry.loadAll [modA, modB4]).1

/-- the hypotheses of `augment_error_set_order_independent_processAll` hold of it … -/
example : LoadedShape reg4 ∧ AugPosDistinct reg4 := by decide +kernel
example : AugArgsPlain reg4 := by
  intro m hm s hs
  have hall : ∀ m ∈ reg4.mods, ∀ s ∈ m.stmt.all "augment", s.arg = "/a:c" := by decide +kernel
  rw [hall m hm s hs]
  exact plainAbsArg_example

/-- … `processAll` enters the augment phase on it, and the pending entry of `b` carries an error (the
case `augment_error_list_order_independent_processAll` excludes); its keys are unique, as
`phaseStart_keysUnique` says (here evaluated by the kernel) -/
example : ((phaseStart reg4 {} plug).map fun x =>
      (x.1.pending.map fun p => (p.1, p.2.map fun a => (a.allErrors.length, decide (KeysUnique a))))) =
    some [(0, []), (1, [(1, true)])] := by decide +kernel

/-! ### a registry loaded from a text: the hypotheses of the `_loadTexts` theorems hold -/

/-- `module b{namespace u;prefix b;container c{}augment /b:c{leaf w{type string;}}` ⏎ ⇥
`augment /b:c{leaf v{type string;}}}`: two augment statements with the same argument, the second on
line 2 behind a tab. -/
def textB : List Char :=
  ['m', 'o', 'd', 'u', 'l', 'e', ' ', 'b', '{', 'n', 'a', 'm', 'e', 's', 'p', 'a', 'c', 'e', ' ', 'u', ';',
   'p', 'r', 'e', 'f', 'i', 'x', ' ', 'b', ';', 'c', 'o', 'n', 't', 'a', 'i', 'n', 'e', 'r', ' ', 'c', '{',
   '}', 'a', 'u', 'g', 'm', 'e', 'n', 't', ' ', '/', 'b', ':', 'c', '{', 'l', 'e', 'a', 'f', ' ', 'w', '{',
   't', 'y', 'p', 'e', ' ', 's', 't', 'r', 'i', 'n', 'g', ';', '}', '}', '\n', '\t', 'a', 'u', 'g', 'm', 'e',
   'n', 't', ' ', '/', 'b', ':', 'c', '{', 'l', 'e', 'a', 'f', ' ', 'v', '{', 't', 'y', 'p', 'e', ' ', 's',
   't', 'r', 'i', 'n', 'g', ';', '}', '}', '}']

def textsB : List (List UInt8 × List UInt8) := [([98], Goyang.Props.C02.utf8 textB)]

set_option maxRecDepth 100000 in
example : AdmissibleTexts textsB := by
  intro nt hnt
  simp only [textsB, List.mem_singleton] at hnt
  subst hnt
  exact ⟨textB, rfl, by decide⟩

set_option maxRecDepth 100000 in
/-- the reference reader accepts it (hypothesis of `sibling_positions_distinct`), with 36 tokens
(hypothesis of `token_offsets_increase`) -/
example : (Spec.Parse.parse textB).isSome = true ∧ ((Spec.Parse.tokenize textB).map List.length) = some 36 :=
  ⟨by decide, by decide⟩

set_option maxRecDepth 100000 in
/-- `Modules.Parse` accepts it; the two augment statements stand at 1:44 and 2:2 -/
example : ((loaded textsB).mods.map fun m => (m.stmt.all "augment").map fun s => (s.line, s.col, s.arg)) =
    [[(1, 44, "/b:c"), (2, 2, "/b:c")]] := by decide +kernel

theorem plainAbsArg_example_b : PlainAbsArg "/b:c" := by
  have hs : "/b:c".splitOn "/" = ["", "b:c"] := by
    rw [Lemmas.Find.slash_eq, Lemmas.Find.splitOn_char]; decide
  unfold PlainAbsArg
  rw [hs]
  exact ⟨rfl, by decide⟩

set_option maxRecDepth 100000 in
example : AugArgsPlain (loaded textsB) := by
  intro m hm s hs
  have hall : ∀ m ∈ (loaded textsB).mods, ∀ s ∈ m.stmt.all "augment", s.arg = "/b:c" := by decide +kernel
  rw [hall m hm s hs]
  exact plainAbsArg_example_b

set_option maxRecDepth 100000 in
/-- `processAll` enters the augment phase on it with two pending augments in the row of `b`, none of
them with an error of its own -/
example : ((phaseStart (loaded textsB) {} plug).map fun x =>
      (x.1.pending.map fun p => (p.1, p.2.length), x.2,
        x.1.pending.all fun p => p.2.all fun a => a.allErrors.isEmpty)) =
    some ([(0, 2)], [0], true) := by decide +kernel

/-! ### registries loaded from texts OUTSIDE C02's claim: the hypotheses of the `_anyTexts` theorems hold -/

/-- `module b{namespace u;prefix b;description "` — then the single byte 0xFF (ill-formed UTF-8) — -/
def textDpre : List Char :=
  ['m', 'o', 'd', 'u', 'l', 'e', ' ', 'b', '{', 'n', 'a', 'm', 'e', 's', 'p', 'a', 'c', 'e', ' ', 'u', ';',
   'p', 'r', 'e', 'f', 'i', 'x', ' ', 'b', ';', 'd', 'e', 's', 'c', 'r', 'i', 'p', 't', 'i', 'o', 'n', ' ',
   '"']
/-- `";container c{}augment /b:c{leaf w{type string;}}` ⏎ ⇥ `augment /b:c{leaf v{type string;}}}` -/
def textDpost : List Char :=
  ['"', ';', 'c', 'o', 'n', 't', 'a', 'i', 'n', 'e', 'r', ' ', 'c', '{', '}', 'a', 'u', 'g', 'm', 'e', 'n',
   't', ' ', '/', 'b', ':', 'c', '{', 'l', 'e', 'a', 'f', ' ', 'w', '{', 't', 'y', 'p', 'e', ' ', 's', 't',
   'r', 'i', 'n', 'g', ';', '}', '}', '\n', '\t', 'a', 'u', 'g', 'm', 'e', 'n', 't', ' ', '/', 'b', ':', 'c',
   '{', 'l', 'e', 'a', 'f', ' ', 'v', '{', 't', 'y', 'p', 'e', ' ', 's', 't', 'r', 'i', 'n', 'g', ';', '}',
   '}', '}']
/-- a text with ILL-FORMED UTF-8 inside a description and two augment statements -/
def textD : List UInt8 := Goyang.Props.C02.utf8 textDpre ++ [0xFF] ++ Goyang.Props.C02.utf8 textDpost
def textsD : List (List UInt8 × List UInt8) := [([98], textD)]

set_option maxRecDepth 100000 in
/-- `Modules.Parse` accepts it (the lexer reads the byte as U+FFFD and the description carries its
encoding, as in Go); the two augment statements stand at 1:60 and 2:2 -/
example : ((loaded textsD).mods.map fun m => (m.stmt.all "augment").map fun s => (s.line, s.col, s.arg)) =
    [[(1, 60, "/b:c"), (2, 2, "/b:c")]] ∧
    ((loaded textsD).mods.map fun m => (m.stmt.all "description").map fun s => s.arg.toList.map Char.toNat) =
    [[[65533]]] := by decide +kernel

set_option maxRecDepth 100000 in
example : AugArgsPlain (loaded textsD) := by
  intro m hm s hs
  have hall : ∀ m ∈ (loaded textsD).mods, ∀ s ∈ m.stmt.all "augment", s.arg = "/b:c" := by decide +kernel
  rw [hall m hm s hs]
  exact plainAbsArg_example_b

set_option maxRecDepth 100000 in
/-- `processAll` enters the augment phase on it with two pending augments in the row of `b` -/
example : ((phaseStart (loaded textsD) {} plug).map fun x => (x.1.pending.map fun p => (p.1, p.2.length), x.2)) =
    some ([(0, 2)], [0]) := by decide +kernel

/-- `module b{namespace u;prefix b;description a//b;container c{}augment /b:c{leaf w{type string;}}` ⏎ ⇥
`augment /b:c{leaf v{type string;}}}`: a comment opener inside an unquoted token (outside C02's claim) -/
def textC : List Char :=
  ['m', 'o', 'd', 'u', 'l', 'e', ' ', 'b', '{', 'n', 'a', 'm', 'e', 's', 'p', 'a', 'c', 'e', ' ', 'u', ';',
   'p', 'r', 'e', 'f', 'i', 'x', ' ', 'b', ';', 'd', 'e', 's', 'c', 'r', 'i', 'p', 't', 'i', 'o', 'n', ' ',
   'a', '/', '/', 'b', ';', 'c', 'o', 'n', 't', 'a', 'i', 'n', 'e', 'r', ' ', 'c', '{', '}', 'a', 'u', 'g',
   'm', 'e', 'n', 't', ' ', '/', 'b', ':', 'c', '{', 'l', 'e', 'a', 'f', ' ', 'w', '{', 't', 'y', 'p', 'e',
   ' ', 's', 't', 'r', 'i', 'n', 'g', ';', '}', '}', '\n', '\t', 'a', 'u', 'g', 'm', 'e', 'n', 't', ' ', '/',
   'b', ':', 'c', '{', 'l', 'e', 'a', 'f', ' ', 'v', '{', 't', 'y', 'p', 'e', ' ', 's', 't', 'r', 'i', 'n',
   'g', ';', '}', '}', '}']
def textsC : List (List UInt8 × List UInt8) := [([98], Goyang.Props.C02.utf8 textC)]

set_option maxRecDepth 100000 in
/-- not admissible, accepted by `Modules.Parse`, the augment statements at 1:61 and 2:2 -/
example : Spec.Parse.Admissible textC = false ∧
    ((loaded textsC).mods.map fun m => (m.stmt.all "augment").map fun s => (s.line, s.col, s.arg)) =
    [[(1, 61, "/b:c"), (2, 2, "/b:c")]] := ⟨by decide, by decide +kernel⟩

/-- the cursor is not a function of the offset: after the token `ab` of `ab⏎` the lexer stands at
offset 2 with (line, col) = (1, 0) — `peek` looked at the newline and `backup` reset the column -/
example : (let l := (Lex.nextToken (Lex.newLexer [97, 98, 10] [])).2; (l.pos, l.line, l.col)) = (2, 1, 0) := by
  decide +kernel

/-- error tokens do share positions: `"\q"` yields an error token at 1:1 (invalid escape) and then
the string token at 1:1 -/
example : (let r := Lex.nextToken (Lex.newLexer [34, 92, 113, 34] []);
      (r.1.map fun t => (t.code, t.line, t.col), r.2.items.map fun t => (t.code, t.line, t.col))) =
    (some (Lex.Code.error, 1, 1), [(Lex.Code.string, 1, 1)]) := by decide +kernel

end Examples

end Goyang.Props.C07Bridge
