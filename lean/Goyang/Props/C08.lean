import Goyang.Model.Process
import Goyang.Spec.Deviate
import Goyang.Lemmas.Deviate
import Goyang.Lemmas.DevExtMain
import Goyang.Lemmas.DevExtAugMain
import Goyang.Lemmas.DevExtUses
import Goyang.Lemmas.DevExtLink
import Goyang.Lemmas.DevExtFuel
import Goyang.Lemmas.DevExtLoad
/-
C08 — deviations change exactly what they name, in written order, or are reported.
Property theorems only; helper lemmas live in Goyang/Lemmas/Deviate.lean and, for the frame across
module sets, in Goyang/Lemmas/DevExt{Base,Stage,Conv,Main}.lean (base without `uses` / augments),
DevExt{Aug,AugLoop,AugMain}.lean (augments in the base) and DevExt{Uses,Link,Fg,Fuel,Load}.lean (`uses` in the base:
two registries at one fuel, the linking stage, the grouping search at two fuels, `toEntry` at two fuels;
`DevExtCore` from `Registry.add`).

Reading aid.
* `Spec.Deviate` is the transcription of RFC 7950 §7.20.3.2: `violations p s` lists every condition
  the deviate statement `s` breaks on a node with properties `p`, `effect` is what the statement
  does to the properties, `deviate` = first broken condition or the effect, `deviateSeq` = several
  statements in written order.  `DevErr.claimed` marks the broken conditions the property says must
  be reported.
* `propsOf : Entry → NodeProps` reads the §7.20.3 properties off a schema tree node, `stmtOf kind e`
  reads the statement off a deviate entry (`toEntry` of a `deviate` statement), `untouched` is
  everything else about a node: its children and all other data fields.
* `applyOneDeviate` is Go's `ApplyDeviate` for one deviate statement on the target node: new node,
  "remove it from its parent", errors.  `nodeFold` is the loop over the deviate statements of one
  deviation, `applyDeviations` all deviations of a module, `deviationStage` the loop over the modules
  in `processAll` (`processAll_clean` ties it to `processAll`).
* Locations: `(tree, path)`; `obs f t q` = the node data at a location of forest `f` (`none` if it
  does not exist), `obsE` = the same with the recorded-errors list blanked.

Where the Go code is more lenient or stricter than the transcription (all replayed on the real
code, see `harness/cmd/corr-c08`, combinations `add/config/leaf/different`, `replace/default/leaf/absent`,
`delete/config/leaf/different`, `delete/default/leaf-list/same`):
  L1  `add` of a single-instance property other than default that the target already has: overwritten;
  L2  `replace` of a property the target does not have: set;
  L3  `delete` of config / mandatory that is absent or has another value: unset;
  L5  add / replace / delete after a not-supported in the same deviation: applied to the unlinked node, silently;
  S1  `delete` of a leaf-list default that is there: refused as unsupported (the library's own test
      "error case - deviation delete on a leaf-list" pins this).
None of L1–L3, L5 is in the property's list of conditions that must be reported; S1 is reported.
`deviate_code_exact` states exactly what the code does, `deviate_matches_rfc_fails` refutes the full
RFC statement on these witnesses, `deviate_matches_rfc_partial` proves it everywhere else.

The four witness shapes against the property text (re-run on the Go code at /repo 0c84daa with a
stand-alone program: base module with `leaf l1 {config false}`, `leaf l2`, `leaf-list ll {default a; default b}`
and one deviating module; outcomes as the `witness_*` theorems say):
  L1  `deviate add {config true}` on l1: no error, config = true.      RFC: invalid deviation (the property exists).
  L2  `deviate replace {default x}` on l2: no error, default = [x].    RFC: invalid deviation (nothing to replace).
  L3  `deviate delete {config true}` on l1: no error, config unset.    RFC: invalid deviation (value differs).
  S1  `deviate delete {default a}` on ll: one error, ll unchanged.     RFC: valid, default becomes [b].
L1–L3 are OUTSIDE the claim of C08: the property enumerates the deviations that "cannot be applied" and
must be reported (missing target, adding a default where one exists, deleting a default or element
bound that is absent or different, element bounds on a non-list, unresolvable replacement type,
unknown kind); an `add` of an existing config / mandatory / units / type, a `replace` of an absent
property and a `delete` of a config / mandatory that is absent or different are not in that list.  The
code applies them, and what it then leaves at the target is the named property with the statement's
value (add / replace) or unset (delete) — the RFC effect function, `deviate_code_exact` (3) — and
nothing else.  S1 is INSIDE the disjunction of the claim ("… or are reported"): the deviation is
never applied silently or partly, it is refused with an error (`witness_delete_leaflist_default`, and
`deviate_reported_conditions` for the general case); the library documents the refusal in the source
(TODO in `ApplyDeviate`) and pins it in its own test ("error case - deviation delete on a leaf-list"),
so a change would break the unedited test suite.  None of the four is therefore a defect of the code
with respect to the property text; `deviate_matches_rfc_partial` names exactly these shapes as
excluded from the stronger "equals RFC 7950 everywhere" statement.

Status of the statements of DESIGN 7.8.
* `deviate_matches_rfc`: `deviate_code_exact` (all inputs), `deviate_matches_rfc_partial` (all inputs outside
  L1–L3, S1), refuted in full (`deviate_matches_rfc_fails`, `_fails_strict`).
* `deviate_written_order`: proved (`deviate_source_order`, `deviate_written_order`, `deviate_written_order_spec`).
* `deviate_frame`: inside one run `deviate_frame_partial` / `deviate_frame_module` (all inputs); across the
  runs with and without the deviating modules:
  - `frame_across_modules`: deviation-only modules loaded last and sorting last (`DevExt`); base without
    submodules, `uses`, top-level `augment`;
  - `frame_across_modules_augments`: the same WITHOUT the restriction on augments (any top-level augments
    in the base: applied, chained, left over) — restriction (b) is lifted in full
    (`preDevAgree_of_devExt`: the hypothesis of `frame_across_modules_of_preDev` always holds);
  - `frame_across_modules_of_conv`: base with any `uses` and augments (`DevExtCore` = `DevExt` without
    the `uses` restriction), from the hypothesis that the conversions of the base statements agree in
    the two runs (`ConvAgree`);
  - `frame_across_modules_uses`: `ConvAgree` reduced, for a base with `uses`, to (i) `DeepImports` and
    `LinkAgree` (finite conditions on the two registries) and (ii) `FuelStable`: the conversion in the
    base registry ALONE is the same at the larger fuel of the run with the new modules, at EVERY call
    (any list of statements of the module as scope).  Kept as it was; `FuelStable` / `ConvAgree` ask
    more than the frame needs and more than is true for a base in which a `uses` resolves (a scope list
    longer than the fuel of the grouping search lets the search succeed at the larger fuel only), so
    this theorem says little there — superseded by `frame_across_modules_with_uses`;
  - `linkAgree_of_devExtCore`: `LinkAgree` IS a consequence of `DevExtCore` (the new modules are walked
    last by `linkAll` and mark new modules only; `Lemmas/DevExtLink.lean`), and
    `frame_across_modules_uses_linked` = `frame_across_modules_uses` with that hypothesis discharged;
  - `fuelStableTop_all`: for EVERY registry the conversions `processAll` starts itself (module and
    submodule statements, deviate statements: `TopCall`) are the same at every fuel from `entryFuel` on —
    the grouping search is never cut short at the fuels that occur (`Lemmas/DevExtFg.lean`: fuel
    independence of `findGrouping` from a bound without the length of the name; `DevExtFuel.lean`: that
    bound against the slack of `entryFuel`, induction along the reached calls);
  - `frame_across_modules_of_convTop`: the frame from agreement of the top-level conversions
    (`ConvAgreeTop`; all the lemma files now ask for no more);
  - `frame_across_modules_with_uses` (+ `_flat`): **base with any `uses` and any augments, nothing about
    fuel or linking assumed**: `DevExtCore`, `PlugAgree` and `ModImports` (imports of nested statements
    with the keyword `module` / `submodule` resolve alike; vacuous — `FlatModKw` — for every tree the AST
    builder accepts).  Restriction (a) "no `uses` in the base" is lifted in full.
  - `frame_across_modules_loaded`: the same with the structural half of `DevExtCore` computed from
    `Registry.add` of one more module onto a loaded base (`Lemmas/DevExtLoad.lean`).
  Still restrictions of the proofs, not of the claim: the new modules sort after the base modules
  (table keys and full names), no submodules.  Where the hypotheses do not hold the runner's
  with/without comparison checks the statement case by case.
* `deviate_reported`: statement level `claimed_violation_reported`, `deviate_reported_conditions`; chain to
  `processAll` `deviate_reported`; the two conversion-time conditions (unknown kind, unresolvable type):
  here `deviate_reported_conversion_partial`, `deviate_reported_unknown_kind_partial` (entry level), completed
  in Props/C08Bridge.lean (`conversionErrorsReported`, `_loaded`, `_loadTexts`: `processAll` returns errors, for
  every registry loading can produce; false for registries loading cannot produce,
  `conversionErrorsReported_needs_loadedShape`).  Nothing of `deviate_reported` is left open.
* `ignore_not_supported_option`: proved.
-/
namespace Goyang.Props.C08
open Goyang.Model
open Goyang.Spec.Deviate
open Goyang.Lemmas.Deviate

/-! ### deviate_matches_rfc -/

/-- The full statement for one deviate statement on one target (with a parent): the data outside
§7.20.3 and the children are untouched, an error is reported iff `Spec.deviate` errs, and otherwise
the node's properties afterwards (or its removal) are what `Spec.deviate` says. -/
def MatchesRfc (opts : Opts) (ms : Stmt) (kind : String) (spec node : Entry) : Prop :=
  let r := applyOneDeviate opts ms kind spec true node
  untouched r.1 = untouched node ∧
  match deviate opts.ignoreNotSupported (propsOf node) (stmtOf kind spec) with
  | .error _ => r.2.2 ≠ []
  | .ok res => r.2.2 = [] ∧ res = (if r.2.1 then none else some (propsOf r.1))

/-- **What the code does, exactly**, for every option, kind, deviate entry and target node:
(1) children and all data outside the §7.20.3 properties are untouched, reported or not;
(2) no error is reported iff none of the broken RFC conditions is one the code checks (the
    conditions the property lists, see `reportedByCode`) and the statement is not a deletion of a
    leaf-list default;
(3) when no error is reported the node's properties afterwards are exactly the RFC effect of the
    statement — for not-supported: removal, or the unchanged node under the ignore option. -/
theorem deviate_code_exact (opts : Opts) (ms : Stmt) (kind : String) (spec node : Entry) :
    let r := applyOneDeviate opts ms kind spec true node
    untouched r.1 = untouched node ∧
    (r.2.2 = [] ↔ ((∀ e ∈ violations (propsOf node) (stmtOf kind spec), reportedByCode e = false) ∧
                    leafListDeleteUnsupported (propsOf node) (stmtOf kind spec) = false)) ∧
    (r.2.2 = [] → effect opts.ignoreNotSupported (propsOf node) (stmtOf kind spec) =
                    if r.2.1 then none else some (propsOf r.1)) := by
  intro r
  refine ⟨applyOneDeviate_untouched opts ms kind spec true node, ?_, ?_⟩
  · show (applyOneDeviate opts ms kind spec true node).2.2 = [] ↔ _
    rw [applyOneDeviate_eq_staged, staged_errs opts ms kind spec true node (fun _ => rfl), unrep_iff]
  · intro h
    show effect _ _ _ = if (applyOneDeviate opts ms kind spec true node).2.1 then none
      else some (propsOf (applyOneDeviate opts ms kind spec true node).1)
    have h' : (applyOneDeviate opts ms kind spec true node).2.2 = [] := h
    rw [applyOneDeviate_eq_staged] at h' ⊢
    exact staged_effect opts ms kind spec true node h'

/-- The conditions the code checks are the ones the property lists, plus "more than one default for a
node that takes one" (which no parsed deviate statement can carry). -/
theorem claimed_are_checked (e : DevErr) : e.claimed = true → reportedByCode e = true := by
  intro h; simp [reportedByCode, h]

/-- **Every claimed error condition of a single statement is reported**: adding a default where one
exists, deleting a default or element bound that is absent or different, element bounds on a
non-list, unknown kind. -/
theorem claimed_violation_reported (opts : Opts) (ms : Stmt) (kind : String) (spec node : Entry) (hp : Bool)
    (e : DevErr) (he : e ∈ violations (propsOf node) (stmtOf kind spec)) (hc : e.claimed = true) :
    (applyOneDeviate opts ms kind spec hp node).2.2 ≠ [] := by
  rw [applyOneDeviate_eq_staged]
  intro hnil
  by_cases hk : kindOf kind = .notSupported
  · have : violations (propsOf node) (stmtOf kind spec) = [] := by simp [violations, kind_stmtOf, hk]
    rw [this] at he; cases he
  · have := (staged_errs opts ms kind spec hp node (fun h => absurd h hk)).mp hnil
    have hu := (unrep_iff _).mp this.1 e he
    rw [claimed_are_checked e hc] at hu
    cases hu

/-- The full RFC statement holds wherever every broken condition is one the code checks and the
statement is not a deletion of a leaf-list default — i.e. outside L1–L3 and S1. -/
theorem deviate_matches_rfc_partial (opts : Opts) (ms : Stmt) (kind : String) (spec node : Entry)
    (hchecked : ∀ e ∈ violations (propsOf node) (stmtOf kind spec), reportedByCode e = true)
    (hsupp : leafListDeleteUnsupported (propsOf node) (stmtOf kind spec) = false) :
    MatchesRfc opts ms kind spec node := by
  obtain ⟨h1, h2, h3⟩ := deviate_code_exact opts ms kind spec node
  refine ⟨h1, ?_⟩
  unfold deviate
  cases hv : violations (propsOf node) (stmtOf kind spec) with
  | nil =>
    simp only
    have hnil : (applyOneDeviate opts ms kind spec true node).2.2 = [] := h2.mpr ⟨by simp [hv], hsupp⟩
    exact ⟨hnil, h3 hnil⟩
  | cons e es =>
    simp only
    intro hnil
    have := (h2.mp hnil).1 e (by simp [hv])
    rw [hchecked e (by simp [hv])] at this
    cases this

/-! #### the witnesses -/

def wModStmt : Stmt := .mk "module" true "d" "d.yang" 1 1 []
/-- `leaf l { type string; config false; }` -/
def wLeafCfgFalse : Entry := .mk { name := "l", kind := .leaf, hasDir := false, config := .false_ } [] [] []
/-- `leaf l { type string; }` -/
def wLeafPlain : Entry := .mk { name := "l", kind := .leaf, hasDir := false } [] [] []
/-- `leaf-list l { type string; default a; default b; }` -/
def wLeafListAB : Entry :=
  .mk { name := "l", kind := .leaf, hasDir := false, listAttr := some {}, default := ["a", "b"] } [] [] []
/-- `deviate … { config true; }` -/
def wDevCfgTrue : Entry := .mk { kind := .deviate, config := .true_ } [] [] []
/-- `deviate … { default x; }` / `{ default a; }` -/
def wDevDefault (v : String) : Entry := .mk { kind := .deviate, default := [v] } [] [] []

/-- L1: `deviate add { config true; }` on a leaf with `config false` is accepted and overwrites. -/
theorem witness_add_existing_config :
    (applyOneDeviate {} wModStmt "add" wDevCfgTrue true wLeafCfgFalse).2.2 = [] ∧
    (applyOneDeviate {} wModStmt "add" wDevCfgTrue true wLeafCfgFalse).1.d.config = .true_ ∧
    violations (propsOf wLeafCfgFalse) (stmtOf "add" wDevCfgTrue) = [.addExists .config] := by decide

/-- L2: `deviate replace { default x; }` on a leaf without default is accepted and sets it. -/
theorem witness_replace_absent_default :
    (applyOneDeviate {} wModStmt "replace" (wDevDefault "x") true wLeafPlain).2.2 = [] ∧
    (applyOneDeviate {} wModStmt "replace" (wDevDefault "x") true wLeafPlain).1.d.default = ["x"] ∧
    violations (propsOf wLeafPlain) (stmtOf "replace" (wDevDefault "x")) = [.replaceAbsent .default] := by decide

/-- L3: `deviate delete { config true; }` on a leaf with `config false` is accepted and unsets it. -/
theorem witness_delete_other_config :
    (applyOneDeviate {} wModStmt "delete" wDevCfgTrue true wLeafCfgFalse).2.2 = [] ∧
    (applyOneDeviate {} wModStmt "delete" wDevCfgTrue true wLeafCfgFalse).1.d.config = .unset ∧
    violations (propsOf wLeafCfgFalse) (stmtOf "delete" wDevCfgTrue) = [.deleteMismatch .config] := by decide

/-- S1: `deviate delete { default a; }` on a leaf-list with defaults a, b breaks no RFC condition and is
refused. -/
theorem witness_delete_leaflist_default :
    (applyOneDeviate {} wModStmt "delete" (wDevDefault "a") true wLeafListAB).2.2 ≠ [] ∧
    violations (propsOf wLeafListAB) (stmtOf "delete" (wDevDefault "a")) = [] ∧
    effect false (propsOf wLeafListAB) (stmtOf "delete" (wDevDefault "a")) =
      some { propsOf wLeafListAB with default := ["b"] } := by decide

/-- The full RFC statement is false of the code: more lenient (L1) and stricter (S1) than §7.20.3.2. -/
theorem deviate_matches_rfc_fails : ¬ ∀ (opts : Opts) (ms : Stmt) (kind : String) (spec node : Entry),
    MatchesRfc opts ms kind spec node := by
  intro h
  have h1 := (h {} wModStmt "add" wDevCfgTrue wLeafCfgFalse).2
  unfold deviate at h1
  rw [witness_add_existing_config.2.2] at h1
  exact h1 witness_add_existing_config.1

/-- … and in the other direction: S1 alone refutes it too. -/
theorem deviate_matches_rfc_fails_strict :
    ¬ MatchesRfc {} wModStmt "delete" (wDevDefault "a") wLeafListAB := by
  intro h
  have h1 := h.2
  unfold deviate at h1
  rw [witness_delete_leaflist_default.2.1] at h1
  exact witness_delete_leaflist_default.1 h1.1

/-- Non-vacuity of `deviate_matches_rfc_partial`: `deviate add { default x; }` on a leaf without a
default satisfies its hypotheses, and is applied. -/
example : (∀ e ∈ violations (propsOf wLeafPlain) (stmtOf "add" (wDevDefault "x")), reportedByCode e = true) ∧
    leafListDeleteUnsupported (propsOf wLeafPlain) (stmtOf "add" (wDevDefault "x")) = false ∧
    (applyOneDeviate {} wModStmt "add" (wDevDefault "x") true wLeafPlain).1.d.default = ["x"] := by decide
/-- … and an instance where the hypotheses hold because the broken condition is a checked one. -/
example : violations (propsOf wLeafListAB) (stmtOf "add" (.mk { kind := .deviate, hasMin := true, listAttr := some { min := 1 } } [] [] [])) = [] ∧
    violations (propsOf wLeafPlain) (stmtOf "add" (.mk { kind := .deviate, hasMin := true, listAttr := some { min := 1 } } [] [] [])) =
      [.boundOnNonList .min] := by decide

/-! ### deviate_written_order -/

/-- The deviation statements and, per deviation, the deviate statements reach `applyDeviations` in
the order they are written in the module: the lists are filters of the substatement lists. -/
theorem deviate_source_order (env : Env) (fuel : Nat) (m : Mod) :
    (devsOf env fuel m).map (·.1) = m.stmt.subs.filter (·.kw == "deviation") ∧
    ∀ x ∈ devsOf env fuel m,
      x.2.map (·.1) = ((x.1.subs.filter (·.kw == "deviate")).map (·.arg)).filter (deviateKinds.contains ·) := by
  constructor
  · simp [devsOf, Stmt.all, Function.comp_def]
  · intro x hx
    simp only [devsOf, List.mem_map] at hx
    obtain ⟨dv, _, rfl⟩ := hx
    simp only [Stmt.all]
    induction dv.subs.filter (·.kw == "deviate") with
    | nil => rfl
    | cons s ss ih =>
      by_cases hc : deviateKinds.contains s.arg = true
      · simp only [List.filterMap_cons, List.map_cons, List.filter_cons, hc, if_true, ih]
      · simp only [List.filterMap_cons, List.map_cons, List.filter_cons, hc, if_false, Bool.false_eq_true, ih]

/-- **Several deviate statements on one target take effect in list order.**  The forest holds `node0`
at the target `(t, path)` when the deviation starts.  After the inner loop of `applyDeviations`:
the node / unlinked flag / errors are the left fold `nodeFold` of `applyOneDeviate` over the statements;
while no not-supported has been applied the target location holds exactly that node; afterwards
neither the target nor anything below it exists.  A longer statement list continues the shorter one. -/
theorem deviate_written_order (opts : Opts) (m : Mod) (t : Nat) (path : Path) (ds : List (String × Entry))
    (f : Forest) (node0 : Entry) (errs : List Err) (h0 : (f.tree? t).bind (·.getAt path) = some node0) :
    let r := ds.foldl (innerStep opts m t path) (f, node0, false, errs)
    let n := nodeFold opts m.stmt (!path.isEmpty) (node0, false, errs) ds
    r.2 = n ∧
    (n.2.1 = false → (r.1.tree? t).bind (·.getAt path) = some n.1) ∧
    (n.2.1 = true → ∀ q, (r.1.tree? t).bind (·.getAt (path ++ q)) = none) ∧
    (∀ a b, ds = a ++ b →
      n = nodeFold opts m.stmt (!path.isEmpty) (nodeFold opts m.stmt (!path.isEmpty) (node0, false, errs) a) b) := by
  intro r n
  obtain ⟨h1, h2, h3⟩ := innerFold_spec opts m t path ds f node0 errs h0
  exact ⟨h1, h2, h3, fun a b hab => by subst hab; exact nodeFold_append _ _ _ _ a b⟩

/-- **… and the fold is the specification's fold.**  When the statements of a deviation (target with a
parent) go through without an error, the target's properties afterwards are what `Spec.deviateSeq`
computes from the statements in written order — `none` exactly when the node was unlinked — and the
specification saw no broken condition that the code checks and no leaf-list default deletion. -/
theorem deviate_written_order_spec (opts : Opts) (ms : Stmt) (ds : List (String × Entry)) (node0 : Entry)
    (h : (nodeFold opts ms true (node0, false, []) ds).2.2 = []) :
    let n := nodeFold opts ms true (node0, false, []) ds
    let s := deviateSeq opts.ignoreNotSupported (propsOf node0) (ds.map fun d => stmtOf d.1 d.2)
    s.node = (if n.2.1 then none else some (propsOf n.1)) ∧
    (∀ e ∈ s.errs, reportedByCode e = false) ∧ s.unsupported = false := by
  intro n s
  have hr : SeqRel (node0, false, []) { node := some (propsOf node0) } := ⟨rfl, rfl, rfl, rfl⟩
  obtain ⟨_, h2, h3, h4⟩ := nodeFold_seq opts ms ds _ _ hr h
  exact ⟨h2, (unrep_iff _).mp h3, h4⟩

/-- Non-vacuity and order sensitivity: on a leaf with default "x", `delete {default x}` then
`add {default y}` goes through and leaves "y"; in the other order the add is refused. -/
example :
    let leafX : Entry := .mk { name := "l", kind := .leaf, hasDir := false, default := ["x"] } [] [] []
    (nodeFold {} wModStmt true (leafX, false, []) [("delete", wDevDefault "x"), ("add", wDevDefault "y")]).2.2 = [] ∧
    (nodeFold {} wModStmt true (leafX, false, []) [("delete", wDevDefault "x"), ("add", wDevDefault "y")]).1.d.default = ["y"] ∧
    (nodeFold {} wModStmt true (leafX, false, []) [("add", wDevDefault "y"), ("delete", wDevDefault "x")]).2.2 ≠ [] := by
  decide

/-! ### deviate_frame -/

/-- Frame of `updateAt`: a location that is neither the updated one nor below it holds the same data
afterwards (`NameStable`: the update does not rename the node it is applied to — `applyOneDeviate`
never does, `applyOneDeviate_name`). -/
theorem updateAt_frame (f : Entry → Entry) (p q : Path) (hs : NameStable p f) (root : Entry) (h : ¬ p <+: q) :
    ((root.updateAt p f).getAt q).map (·.d) = (root.getAt q).map (·.d) :=
  getAt_updateAt_frame f p q hs root h

/-- … the updated location holds the updated node, and below it nothing changes when the update
keeps the children (`applyOneDeviate` does: `deviate_code_exact` (1)). -/
theorem updateAt_target (f : Entry → Entry) (p : Path) (hs : NameStable p f) (root : Entry) :
    (root.updateAt p f).getAt p = (root.getAt p).map f ∧
    ((∀ x, (f x).dir = x.dir ∧ (f x).inp = x.inp ∧ (f x).out = x.out) →
      ∀ s r, (root.updateAt p f).getAt (p ++ s :: r) = root.getAt (p ++ s :: r)) :=
  ⟨getAt_updateAt_self f p hs root, fun hk s r => getAt_updateAt_below f p hs root hk s r⟩

/-- Frame of `removeAt` (not-supported): the removed location and everything below it is gone; every
other location holds the same data as before. -/
theorem removeAt_frame (root : Entry) (p : Path) (hp : p ≠ []) :
    (∀ r, (removeAt root p).getAt (p ++ r) = none) ∧
    (∀ q, ¬ p <+: q → ((removeAt root p).getAt q).map (·.d) = (root.getAt q).map (·.d)) :=
  ⟨getAt_removeAt_gone root p hp, fun q h => getAt_removeAt_frame root p q h⟩

/-- **Frame of the deviation stage of `processAll`**, for a run that reports no error.  The forest
returned is what the deviation stage made of the forest `f0` of the earlier stages, and every location
that exists in `f0` and is neither a target of some deviation nor below one (`stageTargets`: the
locations the deviation paths resolve to, each at its turn) shows the same data in the result
(recorded-errors list aside: a path lookup that fails on its prefix records an error on the root
of the deviating module's own tree). -/
theorem deviate_frame_partial (reg : Registry) (opts : Opts) (plug : Plug) (h : (processAll reg opts plug).errors = []) :
    ∃ (env : Env) (f0 : Forest), env.reg = reg ∧ env.opts = opts ∧ env.tres = plug.tres ∧
      (processAll reg opts plug).forest = (deviationStage reg opts env (entryFuel reg) f0).1 ∧
      ∀ (t : Nat) (q : Path) (dd : EData), obsE f0 t q = some dd →
        (∀ loc ∈ stageTargets reg opts env (entryFuel reg) (devOrderOf reg) (f0, [], []), ¬ (loc.1 = t ∧ loc.2 <+: q)) →
        obsE (processAll reg opts plug).forest t q = some dd := by
  obtain ⟨env, f0, h1, h2, h3, _, hf⟩ := processAll_clean reg opts plug h
  refine ⟨env, f0, h1, h2, h3, hf, ?_⟩
  intro t q dd hobs hq
  rw [hf]
  exact stage_frame reg opts env (entryFuel reg) t q dd (devOrderOf reg) (f0, [], []) hobs hq

/-- The frame of one module's deviations, for any forest and whether or not errors are reported. -/
theorem deviate_frame_module (reg : Registry) (opts : Opts) (m : Mod) (devs : List (Stmt × List (String × Entry)))
    (f : Forest) (t : Nat) (q : Path) (dd : EData) (hobs : obsE f t q = some dd)
    (hq : ∀ loc ∈ targetsFrom reg opts m devs (f, []), ¬ (loc.1 = t ∧ loc.2 <+: q)) :
    obsE (applyDeviations reg opts m devs f).1 t q = some dd := by
  rw [applyDeviations_eq]
  exact applyDeviations_frame' reg opts m t q dd devs (f, []) hobs hq

/-- The full frame statement of the property, across module sets: the run with the deviating modules
equals the run without them except at targets.  `regWithout` is the registry without the deviating
modules; the claim is about every location of the run without them.  PROVED below as
`frame_across_modules` for registries `regWith` that extend `regWithout` by deviation-only modules
(`DevExt`), with `targets` = the locations the deviations of the new modules resolve to
(`newTargets`); what the hypotheses leave out is listed there; `frame_across_modules_augments` lifts
the restriction on augments, `frame_across_modules_of_conv` / `_uses` treat `uses` in the base.  The correspondence runner processes
every case with and without the deviating modules on the model and on the Go code. -/
def FrameAcrossModules (regWith regWithout : Registry) (opts : Opts) (plug : Plug)
    (targets : List Loc) : Prop :=
  (processAll regWith opts plug).errors = [] → (processAll regWithout opts plug).errors = [] →
  ∀ (t : Nat) (q : Path) (dd : EData), obsE (processAll regWithout opts plug).forest t q = some dd →
    (∀ loc ∈ targets, ¬ (loc.1 = t ∧ loc.2 <+: q)) →
    obsE (processAll regWith opts plug).forest t q = some dd

open Goyang.Lemmas.DevExt in
/-- **Every node that no deviation targets is identical to what the same modules yield without the
deviating modules.**  `B` is the registry without, `X` the registry with the deviating modules `ds`
(`dk` = their rows of the module table).  Hypotheses (`Lemmas/DevExtBase.lean`, `DevExt`; all are
decidable conditions on the two registries, see the example below):
* `X` is `B` with the modules `ds` loaded after it, under new sequence numbers and new table keys;
* each new module is deviation-only: header statements, imports and deviations (`DeviationOnly`);
* nobody in `B` imports a new module or belongs to one (stated on the lookups: every import of a
  module of `B` resolves in `X` to what it resolves to in `B`);
* the plugged-in type resolution answers the same for the modules of `B` in both registries (`PlugAgree`);
* restrictions of the present proof, not of the claim: the new modules sort after the modules of `B`
  (table keys and full names: conversion order, and the swap-remove order of the augment loop, are
  then the same for the modules of `B`), `B` has no submodules, no `uses` statement (the fuel of the
  grouping search depends on the size of the registry) and no top-level `augment` statement
  (`NoAugments`; with augments the two runs visit the pending augments in different orders, and what
  C07 proves about that is equality of the flat view, not of the forests).
Conclusion: every location of the run without the new modules that is neither a target of one of
their deviations nor below one (`newTargets`: the locations their deviation paths resolve to, each at
its turn in the run with them) shows the same data in the run with them.  The stages, each proved
insensitive to the new modules for the trees of `B` (`Lemmas/DevExt*.lean`): registry lookups
(`byId_ext`, `findModuleByPrefix_ext`), `Find` (`find_ext`, `find_tree_old`), conversion
(`toEntry_env`: the conversion of a statement of `B` is the same in both environments at any two
sufficient fuels; `toEntry_devOnly`: a deviation-only module files one tree without data nodes and an
empty row of pending augments), the augment stage and `fixChoice` (`preDev_ext`), the deviations of
the modules of `B` (`stageFold_ext`), and then `stage_frame` for the deviations of the new modules. -/
theorem frame_across_modules (B X : Registry) (ds : List Mod) (dk : KeyMap) (opts : Opts) (plug : Plug)
    (hext : DevExt B X ds dk) (hno : NoAugments B) (hplug : PlugAgree plug B X) :
    FrameAcrossModules X B opts plug (newTargets B X opts plug) := by
  intro hX hB t q dd ho hq
  exact frame_core hext.toDevExtCore hno (convAgree_noUses hext.toDevExtCore hext.noUsesB hplug opts).top hX hB t q dd ho hq

open Goyang.Lemmas.DevExt in
/-- The same from the deviation stage on, without the restriction on augments: if the two runs reach
the deviation stage with forests that agree on the trees of `B` (`PreDevAgree`: the forest of the run
with the new modules is that of the run without them plus trees of new modules — what `preDev_ext`
proves when `B` has no top-level augment), the results agree outside the targets. -/
theorem frame_across_modules_of_preDev (B X : Registry) (ds : List Mod) (dk : KeyMap) (opts : Opts) (plug : Plug)
    (hext : DevExt B X ds dk) (hplug : PlugAgree plug B X) (hpre : PreDevAgree B X ds opts plug) :
    FrameAcrossModules X B opts plug (newTargets B X opts plug) := by
  intro hX hB t q dd ho hq
  exact frame_core_of_preDev hext.toDevExtCore (convAgree_noUses hext.toDevExtCore hext.noUsesB hplug opts).top hpre hX hB t q dd ho hq

open Goyang.Lemmas.DevExt in
/-- **The same without the restriction on augments**: the base registry `B` may have any top-level
`augment` statements (applied, chained, or left over and reported — the claim is about clean runs).
The other hypotheses are those of `frame_across_modules`.  How: the run with the new modules visits,
in the augment loop, the modules of `B` followed by the new modules (they sort last); a new module has
nothing pending, so the swap-remove of `augmentPass` drops it the first time it is visited
(`Lemmas/DevExtAugLoop.lean`: `drain_mid`, `drain_end`), after which the loop's array is that of the
run without them (`pass_ext`, `loop_ext`); on the states, every `augmentTree` for a tree of `B` does in
`X` what it does in `B` (`augmentTree_lift`: `find`, the target's namespace and the merge do not see
the new modules).  This yields `PreDevAgree` (`preDev_ext_aug`), and `frame_across_modules_of_preDev`
does the rest. -/
theorem frame_across_modules_augments (B X : Registry) (ds : List Mod) (dk : KeyMap) (opts : Opts) (plug : Plug)
    (hext : DevExt B X ds dk) (hplug : PlugAgree plug B X) :
    FrameAcrossModules X B opts plug (newTargets B X opts plug) :=
  frame_across_modules_of_preDev B X ds dk opts plug hext hplug
    (preDev_ext_aug hext.toDevExtCore (convAgree_noUses hext.toDevExtCore hext.noUsesB hplug opts).top)

open Goyang.Lemmas.DevExt in
/-- `PreDevAgree` holds under `DevExt` alone: the hypothesis of `frame_across_modules_of_preDev` is
always satisfied for deviation-only modules that sort last. -/
theorem preDevAgree_of_devExt (B X : Registry) (ds : List Mod) (dk : KeyMap) (opts : Opts) (plug : Plug)
    (hext : DevExt B X ds dk) (hplug : PlugAgree plug B X) : PreDevAgree B X ds opts plug :=
  preDev_ext_aug hext.toDevExtCore (convAgree_noUses hext.toDevExtCore hext.noUsesB hplug opts).top

open Goyang.Lemmas.DevExt in
/-- **The frame from the conversions on**, for a base with any `uses` and any augments: if the
conversions of the statements of `B` agree in the two runs (`ConvAgree`: `toEntry` in the environment
of `X` at `entryFuel X` against `toEntry` in the environment of `B` at `entryFuel B`), the results
agree outside the targets.  `DevExtCore` is `DevExt` without the restriction on `uses`.
`convAgree_noUses` proves `ConvAgree` for a base without `uses`; `frame_across_modules_uses` below
reduces it, for a base with `uses`, to a fact about `B` alone. -/
theorem frame_across_modules_of_conv (B X : Registry) (ds : List Mod) (dk : KeyMap) (opts : Opts) (plug : Plug)
    (hext : DevExtCore B X ds dk) (hconv : ConvAgree B X opts plug) :
    FrameAcrossModules X B opts plug (newTargets B X opts plug) :=
  fun hX hB t q dd ho hq => frame_core_of_preDev hext hconv.top (preDev_ext_aug hext hconv.top) hX hB t q dd ho hq

open Goyang.Lemmas.DevExt in
/-- **`uses` (and augments) in the base registry**, up to one fact about `B` alone.  Hypotheses besides
`DevExtCore` and `PlugAgree`:
* `DeepImports B X`: the import statements of every statement of a module of `B` resolve alike in both
  registries (`DevExtCore.imports` says this of the top-level ones; a statement tree may carry a
  `module` keyword further down, and the grouping search would read its imports) — a finite
  conjunction for a given registry, see the example;
* `LinkAgree B X`: a module of `B` is linked (`linkAll`) in the one run iff in the other (the grouping
  search follows the imports of linked modules only) — decidable for a given pair of registries;
* `FuelStable B (entryFuel X)`: the conversion of the statements of `B`, in `B` alone, is the same at
  the fuel `entryFuel X` as at `entryFuel B`.  This is the part that is NOT proved for a base with
  `uses`: `toEntry` hands `2 * fuel + 16` to the grouping search, and that the search is not cut short
  at the fuels that occur needs a sharper bound than `groupingNeed` (which counts the length of the
  name).  For a base without `uses` it holds (`fuelStable_noUses`).
What IS proved for `uses` (`Lemmas/DevExtUses.lean`): at one and the same fuel the two environments
convert every statement of `B` alike (`toEntry_sameFuel`), the grouping search included (`fg_all`: a
step-by-step simulation of `findGrouping` / `fgScope` / `fgImports` / `fgIncludes` between the two
registries). -/
theorem frame_across_modules_uses (B X : Registry) (ds : List Mod) (dk : KeyMap) (opts : Opts) (plug : Plug)
    (hext : DevExtCore B X ds dk) (hplug : PlugAgree plug B X) (hdeep : DeepImports B X) (hlink : LinkAgree B X)
    (hst : FuelStable B (entryFuel X) opts plug) :
    FrameAcrossModules X B opts plug (newTargets B X opts plug) :=
  frame_across_modules_of_conv B X ds dk opts plug hext (convAgree_of_stable hext hplug opts hdeep hlink hst)

open Goyang.Lemmas.DevExt in
/-- **`LinkAgree` is a consequence of `DevExtCore`**: a module of the base is linked (`linkAll`) in the run
with the deviation-only modules iff it is in the run without them.  `linkAll X` walks the modules of `B`
first (the new ones sort last); those walks stay in `B` and are the walks of `linkAll B`, at either
fuel (`Lemmas/DevExtLink.lean`: `includeWalk_ext`, `includeWalk_fuels`); after them every module the table
of `B` points to is marked, so the walks from the new modules mark new modules only (`includeWalk_new`):
`(linkAll X).1 = N ++ (linkAll B).1` with `N` sequence numbers of new modules (`linkAll_ext`). -/
theorem linkAgree_of_devExtCore (B X : Registry) (ds : List Mod) (dk : KeyMap) (hext : DevExtCore B X ds dk) :
    LinkAgree B X :=
  Goyang.Lemmas.DevExt.linkAgree_of_devExtCore hext

open Goyang.Lemmas.DevExt in
/-- `frame_across_modules_uses` with the hypothesis `LinkAgree` discharged (`linkAgree_of_devExtCore`). -/
theorem frame_across_modules_uses_linked (B X : Registry) (ds : List Mod) (dk : KeyMap) (opts : Opts) (plug : Plug)
    (hext : DevExtCore B X ds dk) (hplug : PlugAgree plug B X) (hdeep : DeepImports B X)
    (hst : FuelStable B (entryFuel X) opts plug) :
    FrameAcrossModules X B opts plug (newTargets B X opts plug) :=
  frame_across_modules_uses B X ds dk opts plug hext hplug hdeep (linkAgree_of_devExtCore B X ds dk hext) hst

open Goyang.Lemmas.DevExt in
/-- **Fuel stability of the conversions `processAll` starts, for EVERY registry**: the conversion of a
loaded (sub)module statement, and of a deviate statement of a deviation (`TopCall`), is the same at every
fuel `fX ≥ entryFuel B` as at `entryFuel B` — whatever `uses`, groupings, submodules and names `B` has.
How (`Lemmas/DevExtFg.lean`, `DevExtFuel.lean`): the grouping search is independent of its fuel from
`scope.length + W + 3 + (loaded modules + 1) * (W + 4)` on, `W` the widest statement — the name does not
enter the bound, because the model's import hop fires only when what follows the prefix has no further
colon (`findGrouping_fuelC`, potential "has a colon" + unseen modules); that bound is at most
`2 * (entryFuel - entryNeed) + 18` (`fgBound_le_slack`: arithmetic over statement counts, with
`widest + highest ≤ total + 1`), which `2 * fuel + 16` reaches at every call reached from a top-level one
(C06's `Uses.reached_good`: the remaining fuel stays `need + slack`); induction along the reached calls
(`toEntry_shift`).  `FuelStable` — the same for EVERY call whose scope is any list of statements of the
module — is strictly more than the frame theorems need and is not true in general (a scope list longer
than the fuel of the grouping search makes a search succeed at the larger fuel only); the frame theorems
below use `FuelStableTop` / `ConvAgreeTop`. -/
theorem fuelStableTop_all (B : Registry) (fX : Nat) (hf : entryFuel B ≤ fX) (opts : Opts) (plug : Plug) :
    FuelStableTop B fX opts plug :=
  fuelStableTop B fX hf opts plug

open Goyang.Lemmas.DevExt in
/-- The frame from the conversions on, from agreement of the conversions `processAll` starts itself
(`ConvAgreeTop`; `frame_across_modules_of_conv` asks for agreement at every call). -/
theorem frame_across_modules_of_convTop (B X : Registry) (ds : List Mod) (dk : KeyMap) (opts : Opts) (plug : Plug)
    (hext : DevExtCore B X ds dk) (hconv : ConvAgreeTop B X opts plug) :
    FrameAcrossModules X B opts plug (newTargets B X opts plug) :=
  fun hX hB t q dd ho hq => frame_core_of_preDev hext hconv (preDev_ext_aug hext hconv) hX hB t q dd ho hq

open Goyang.Lemmas.DevExt in
/-- **The frame across module sets for a base WITH `uses` (and augments)** — no hypothesis about fuel or
linking left.  Hypotheses: `DevExtCore` (the deviation-only modules are loaded last, under new sequence
numbers and keys, sort last, nobody in `B` imports them, no submodules), `PlugAgree`, and `ModImports`:
the import statements of every statement of `B` that carries the keyword `module` / `submodule` resolve
alike in both registries (`DevExtCore.imports` says this of the module statements themselves;
`frame_across_modules_with_uses_flat`: nothing more to ask when no such keyword occurs further down).
Proof: same fuel, two registries — `toEntry_sameFuel` with `linkAgree_of_devExtCore`; same registry, two
fuels — `fuelStableTop_all`; together `ConvAgreeTop` (`convAgreeTop_of_devExtCore`), then
`frame_across_modules_of_convTop`. -/
theorem frame_across_modules_with_uses (B X : Registry) (ds : List Mod) (dk : KeyMap) (opts : Opts) (plug : Plug)
    (hext : DevExtCore B X ds dk) (hplug : PlugAgree plug B X) (hmi : ModImports B X) :
    FrameAcrossModules X B opts plug (newTargets B X opts plug) :=
  frame_across_modules_of_convTop B X ds dk opts plug hext (convAgreeTop_of_devExtCore hext hplug opts hmi)

open Goyang.Lemmas.DevExt in
/-- The same for a base in which no statement below a (sub)module statement has the keyword `module` or
`submodule` (`FlatModKw`; decidable through `flatModKw_of_noModKw`; true of every tree the AST builder
accepts): `DevExtCore` and `PlugAgree` suffice. -/
theorem frame_across_modules_with_uses_flat (B X : Registry) (ds : List Mod) (dk : KeyMap) (opts : Opts) (plug : Plug)
    (hext : DevExtCore B X ds dk) (hplug : PlugAgree plug B X) (hflat : FlatModKw B) :
    FrameAcrossModules X B opts plug (newTargets B X opts plug) :=
  frame_across_modules_with_uses B X ds dk opts plug hext hplug (modImports_of_flat hext hflat)

open Goyang.Lemmas.DevExt in
/-- **The same in terms of loading**: `B` a registry as loading produces it (`Bridge.TablesOK`: sequence
numbers are positions, the rows of the tables point to loaded modules — proved of every result of
`Registry.loadAll` / `Model.loadTexts`), `X` the result of adding (`Registry.add` = `Modules.add`) one more
module statement `d` whose name is not yet bound.  The structural half of `DevExtCore` (module list and
table grow at the end, new sequence number, rows) then holds by computation (`Lemmas/DevExtLoad.lean`:
`add_fresh`, `devExtCore_of_add`); what is asked are the conditions on the contents: `d` is deviation-only
and sorts after the modules of `B` (rows `newRows` and full name), nobody in `B` imports it or belongs to it,
`B` has no submodules and no nested `module` keyword, the type resolution agrees. -/
theorem frame_across_modules_loaded (B X : Registry) (d : Stmt) (opts : Opts) (plug : Plug)
    (hB : Goyang.Lemmas.Bridge.TablesOK B) (ha : B.add d = .ok X)
    (hsub : (⟨B.mods.length, d⟩ : Mod).isSub = false) (hfresh : B.modules.get? d.arg = none)
    (subsB : B.subModules = [])
    (keyLast : ∀ kb ∈ B.modules, ∀ kd ∈ newRows B.mods.length d, kb.1 < kd.1)
    (nameLast : ∀ m ∈ B.mods, m.fullName < (⟨B.mods.length, d⟩ : Mod).fullName)
    (imports : ∀ m ∈ B.mods, ∀ i ∈ m.imports, X.findModule false i = B.findModule false i)
    (ownerEq : ∀ m ∈ B.mods, X.owner m = B.owner m)
    (devOnly : DeviationOnly d) (hplug : PlugAgree plug B X) (hflat : FlatModKw B) :
    FrameAcrossModules X B opts plug (newTargets B X opts plug) :=
  frame_across_modules_with_uses_flat B X _ _ opts plug
    (devExtCore_of_add hB ha hsub hfresh subsB keyLast nameLast imports ownerEq devOnly) hplug hflat

/-! #### non-vacuity -/
section FrameExample
open Goyang.Lemmas.DevExt

private def fst_ (file : String) (line : Nat) (kw arg : String) (subs : List Stmt := []) : Stmt :=
  .mk kw true arg file line 1 subs

/-- `module a { namespace urn:a; prefix a; import b { prefix b; } container c { leaf x { type string; } } }` -/
private def exA : Stmt := fst_ "a.yang" 1 "module" "a" [fst_ "a.yang" 2 "namespace" "urn:a", fst_ "a.yang" 3 "prefix" "a",
  fst_ "a.yang" 4 "import" "b" [fst_ "a.yang" 4 "prefix" "b"],
  fst_ "a.yang" 5 "container" "c" [fst_ "a.yang" 6 "leaf" "x" [fst_ "a.yang" 6 "type" "string"]]]
/-- `module b { namespace urn:b; prefix b; leaf y { type string; } }` -/
private def exB : Stmt := fst_ "b.yang" 1 "module" "b" [fst_ "b.yang" 2 "namespace" "urn:b", fst_ "b.yang" 3 "prefix" "b",
  fst_ "b.yang" 4 "leaf" "y" [fst_ "b.yang" 4 "type" "string"]]
/-- `module z-dev { namespace urn:z; prefix z; import a { prefix a; } revision 2024-01-01; }` -/
private def exZ : Stmt := fst_ "z.yang" 1 "module" "z-dev" [fst_ "z.yang" 2 "namespace" "urn:z", fst_ "z.yang" 3 "prefix" "z",
  fst_ "z.yang" 4 "import" "a" [fst_ "z.yang" 4 "prefix" "a"], fst_ "z.yang" 5 "revision" "2024-01-01"]
/-- the same with `deviation /a:c/a:x { deviate replace { default w; } }` -/
private def exZ' : Stmt := fst_ "z.yang" 1 "module" "z-dev" [fst_ "z.yang" 2 "namespace" "urn:z", fst_ "z.yang" 3 "prefix" "z",
  fst_ "z.yang" 4 "import" "a" [fst_ "z.yang" 4 "prefix" "a"],
  fst_ "z.yang" 5 "deviation" "/a:c/a:x" [fst_ "z.yang" 6 "deviate" "replace" [fst_ "z.yang" 7 "default" "w"]]]

private def exPlug : Plug :=
  { tres := { resolve := fun _ _ _ t => (some { dump := t.arg }, []) },
    identityErrs := fun _ => [], typedefErrs := fun _ => [] }

private def regB : Registry := (Registry.loadAll [exA, exB]).1
private def regX : Registry := (Registry.loadAll [exA, exB, exZ]).1
private def regX' : Registry := (Registry.loadAll [exA, exB, exZ']).1

/-- The hypotheses of `frame_across_modules` hold of the three-module set a, b, z-dev (a imports b,
z-dev imports a and is loaded last), both runs are clean, and the run without z-dev has the leaf
`/a/c/x` the conclusion speaks about (all evaluated by the kernel); the hypothesis `PreDevAgree` of
`frame_across_modules_of_preDev` holds of it too. -/
example : DevExt regB regX [⟨2, exZ⟩] [("z-dev@2024-01-01", 2), ("z-dev", 2)] ∧ NoAugments regB ∧
    PlugAgree exPlug regB regX ∧
    (processAll regX {} exPlug).errors = [] ∧ (processAll regB {} exPlug).errors = [] ∧
    (obsE (processAll regB {} exPlug).forest 0 [.child "c", .child "x"]).isSome = true ∧
    PreDevAgree regB regX [⟨2, exZ⟩] {} exPlug := by
  suffices hs : DevExt regB regX [⟨2, exZ⟩] [("z-dev@2024-01-01", 2), ("z-dev", 2)] ∧ NoAugments regB ∧
      PlugAgree exPlug regB regX from
    ⟨hs.1, hs.2.1, hs.2.2, by decide +kernel, by decide +kernel, by decide +kernel,
      preDev_ext hs.1.toDevExtCore hs.2.1 (convAgree_noUses hs.1.toDevExtCore hs.1.noUsesB hs.2.2 {}).top⟩
  refine ⟨⟨⟨rfl, by decide +kernel, rfl, rfl, by decide +kernel, by decide +kernel, by decide +kernel, by decide +kernel,
    by decide +kernel, ?_, ?_, by decide +kernel⟩, by decide +kernel⟩, ?_, fun _ _ _ _ => rfl⟩
  · intro m hm i hi
    have hB : regB.mods = [⟨0, exA⟩, ⟨1, exB⟩] := rfl
    rw [hB] at hm
    simp only [List.mem_cons, List.not_mem_nil, or_false] at hm
    rcases hm with rfl | rfl
    · have : Mod.imports ⟨0, exA⟩ = [fst_ "a.yang" 4 "import" "b" [fst_ "a.yang" 4 "prefix" "b"]] := rfl
      rw [this] at hi
      simp only [List.mem_cons, List.not_mem_nil, or_false] at hi
      subst hi
      rfl
    · have : Mod.imports ⟨1, exB⟩ = [] := rfl
      rw [this] at hi
      cases hi
  · intro m hm
    have hB : regB.mods = [⟨0, exA⟩, ⟨1, exB⟩] := rfl
    rw [hB] at hm
    simp only [List.mem_cons, List.not_mem_nil, or_false] at hm
    rcases hm with rfl | rfl <;> rfl
  · intro m hm
    have hB : regB.mods = [⟨0, exA⟩, ⟨1, exB⟩] := rfl
    rw [hB] at hm
    simp only [List.mem_cons, List.not_mem_nil, or_false] at hm
    rcases hm with rfl | rfl <;> rfl

/-- … and with a real deviation in the new module (`deviation /a:c/a:x { deviate replace { default w; } }`)
the hypotheses on the registries hold as well.  (That both runs are clean cannot be evaluated by the
kernel here: applying a deviation goes through `String.splitOn`, which does not reduce; the
correspondence runner runs such sets with and without the deviating module.) -/
example : DevExt regB regX' [⟨2, exZ'⟩] [("z-dev", 2)] ∧ NoAugments regB ∧ PlugAgree exPlug regB regX' := by
  refine ⟨⟨⟨rfl, by decide +kernel, rfl, rfl, by decide +kernel, by decide +kernel, by decide +kernel, by decide +kernel,
    by decide +kernel, ?_, ?_, by decide +kernel⟩, by decide +kernel⟩, ?_, fun _ _ _ _ => rfl⟩
  · intro m hm i hi
    have hB : regB.mods = [⟨0, exA⟩, ⟨1, exB⟩] := rfl
    rw [hB] at hm
    simp only [List.mem_cons, List.not_mem_nil, or_false] at hm
    rcases hm with rfl | rfl
    · have : Mod.imports ⟨0, exA⟩ = [fst_ "a.yang" 4 "import" "b" [fst_ "a.yang" 4 "prefix" "b"]] := rfl
      rw [this] at hi
      simp only [List.mem_cons, List.not_mem_nil, or_false] at hi
      subst hi
      rfl
    · have : Mod.imports ⟨1, exB⟩ = [] := rfl
      rw [this] at hi
      cases hi
  · intro m hm
    have hB : regB.mods = [⟨0, exA⟩, ⟨1, exB⟩] := rfl
    rw [hB] at hm
    simp only [List.mem_cons, List.not_mem_nil, or_false] at hm
    rcases hm with rfl | rfl <;> rfl
  · intro m hm
    have hB : regB.mods = [⟨0, exA⟩, ⟨1, exB⟩] := rfl
    rw [hB] at hm
    simp only [List.mem_cons, List.not_mem_nil, or_false] at hm
    rcases hm with rfl | rfl <;> rfl

/-- `module a { namespace urn:a; prefix a; import b { prefix b; } augment /b:k { leaf z { type string; } } }` -/
private def exAug : Stmt := fst_ "a.yang" 1 "module" "a" [fst_ "a.yang" 2 "namespace" "urn:a", fst_ "a.yang" 3 "prefix" "a",
  fst_ "a.yang" 4 "import" "b" [fst_ "a.yang" 4 "prefix" "b"],
  fst_ "a.yang" 5 "augment" "/b:k" [fst_ "a.yang" 6 "leaf" "z" [fst_ "a.yang" 6 "type" "string"]]]
/-- `module b { namespace urn:b; prefix b; container k { leaf y { type string; } } }` -/
private def exBk : Stmt := fst_ "b.yang" 1 "module" "b" [fst_ "b.yang" 2 "namespace" "urn:b", fst_ "b.yang" 3 "prefix" "b",
  fst_ "b.yang" 4 "container" "k" [fst_ "b.yang" 5 "leaf" "y" [fst_ "b.yang" 5 "type" "string"]]]
private def regBa : Registry := (Registry.loadAll [exAug, exBk]).1
private def regXa : Registry := (Registry.loadAll [exAug, exBk, exZ']).1

/-- Non-vacuity of `frame_across_modules_augments`: a base registry WITH a top-level augment (a augments
`/b:k`) and the deviating module z-dev (`deviation /a:c/a:x …`, here reported as a missing target —
the hypotheses are about the registries): `DevExt` and `PlugAgree` hold, `NoAugments` does not.
(Clean runs with an applied augment cannot be evaluated by the kernel: `find` splits the path with
`String.splitOn`; the correspondence runner runs such sets with and without the deviating module.) -/
example : DevExt regBa regXa [⟨2, exZ'⟩] [("z-dev", 2)] ∧ PlugAgree exPlug regBa regXa ∧ ¬ NoAugments regBa := by
  have hB : regBa.mods = [⟨0, exAug⟩, ⟨1, exBk⟩] := rfl
  refine ⟨⟨⟨rfl, by decide +kernel, rfl, rfl, by decide +kernel, by decide +kernel, by decide +kernel, by decide +kernel,
    by decide +kernel, ?_, ?_, by decide +kernel⟩, by decide +kernel⟩, fun _ _ _ _ => rfl, ?_⟩
  · intro m hm i hi
    rw [hB] at hm
    simp only [List.mem_cons, List.not_mem_nil, or_false] at hm
    rcases hm with rfl | rfl
    · have : Mod.imports ⟨0, exAug⟩ = [fst_ "a.yang" 4 "import" "b" [fst_ "a.yang" 4 "prefix" "b"]] := rfl
      rw [this] at hi
      simp only [List.mem_cons, List.not_mem_nil, or_false] at hi
      subst hi
      rfl
    · have : Mod.imports ⟨1, exBk⟩ = [] := rfl
      rw [this] at hi
      cases hi
  · intro m hm
    rw [hB] at hm
    simp only [List.mem_cons, List.not_mem_nil, or_false] at hm
    rcases hm with rfl | rfl <;> rfl
  · intro hno
    have h1 := hno ⟨0, exAug⟩ (by rw [hB]; exact List.mem_cons_self ..)
    have h2 : exAug.all "augment" =
        [fst_ "a.yang" 5 "augment" "/b:k" [fst_ "a.yang" 6 "leaf" "z" [fst_ "a.yang" 6 "type" "string"]]] := rfl
    change exAug.all "augment" = [] at h1
    rw [h2] at h1
    cases h1

set_option linter.unusedSimpArgs false in
/-- The hypotheses of `frame_across_modules_of_conv` and of `frame_across_modules_uses` hold of the
set a, b, z-dev above (a base without `uses`, where `FuelStable` is proved; for a base with `uses`
`FuelStable` is the open part, and the other hypotheses are of the same finite kind as here). -/
example : DevExtCore regB regX [⟨2, exZ⟩] [("z-dev@2024-01-01", 2), ("z-dev", 2)] ∧ PlugAgree exPlug regB regX ∧
    ConvAgree regB regX {} exPlug ∧ DeepImports regB regX ∧ LinkAgree regB regX ∧
    FuelStable regB (entryFuel regX) {} exPlug := by
  have hB : regB.mods = [⟨0, exA⟩, ⟨1, exB⟩] := rfl
  have hno : ∀ m ∈ regB.mods, noUses m.stmt = true := by
    intro m hm
    rw [hB] at hm
    simp only [List.mem_cons, List.not_mem_nil, or_false] at hm
    rcases hm with rfl | rfl <;> rfl
  have hplug : PlugAgree exPlug regB regX := fun _ _ _ _ => rfl
  have hcore : DevExtCore regB regX [⟨2, exZ⟩] [("z-dev@2024-01-01", 2), ("z-dev", 2)] := by
    refine ⟨rfl, by decide +kernel, rfl, rfl, by decide +kernel, by decide +kernel, by decide +kernel, by decide +kernel,
      by decide +kernel, ?_, ?_, by decide +kernel⟩
    · intro m hm i hi
      rw [hB] at hm
      simp only [List.mem_cons, List.not_mem_nil, or_false] at hm
      rcases hm with rfl | rfl
      · have : Mod.imports ⟨0, exA⟩ = [fst_ "a.yang" 4 "import" "b" [fst_ "a.yang" 4 "prefix" "b"]] := rfl
        rw [this] at hi
        simp only [List.mem_cons, List.not_mem_nil, or_false] at hi
        subst hi
        rfl
      · have : Mod.imports ⟨1, exB⟩ = [] := rfl
        rw [this] at hi
        cases hi
    · intro m hm
      rw [hB] at hm
      simp only [List.mem_cons, List.not_mem_nil, or_false] at hm
      rcases hm with rfl | rfl <;> rfl
  refine ⟨hcore, hplug, convAgree_noUses hcore hno hplug {}, ?_, ?_,
    fuelStable_noUses hno _ (by decide +kernel) {} exPlug⟩
  · intro m hm
    rw [hB] at hm
    simp only [List.mem_cons, List.not_mem_nil, or_false] at hm
    rcases hm with rfl | rfl
    · simp only [exA, fst_, Deep, DeepL, and_true]
      repeat' apply And.intro
      all_goals intro i hi
      all_goals simp (config := { decide := true }) only [Stmt.all, Stmt.subs, Stmt.kw, List.filter_cons, List.filter_nil,
        List.mem_cons, List.not_mem_nil, or_false, if_true, if_false, Bool.false_eq_true] at hi
      all_goals try subst hi
      all_goals rfl
    · simp only [exB, fst_, Deep, DeepL, and_true]
      repeat' apply And.intro
      all_goals intro i hi
      all_goals simp (config := { decide := true }) only [Stmt.all, Stmt.subs, Stmt.kw, List.filter_cons, List.filter_nil,
        List.mem_cons, List.not_mem_nil, or_false, if_true, if_false, Bool.false_eq_true] at hi
  · intro m hm
    rw [hB] at hm
    simp only [List.mem_cons, List.not_mem_nil, or_false] at hm
    rcases hm with rfl | rfl <;> decide +kernel

/-- `module a { namespace urn:a; prefix a; import b { prefix b; } grouping g { leaf x { type string; } }
container c { uses g; } }` -/
private def exAu : Stmt := fst_ "a.yang" 1 "module" "a" [fst_ "a.yang" 2 "namespace" "urn:a", fst_ "a.yang" 3 "prefix" "a",
  fst_ "a.yang" 4 "import" "b" [fst_ "a.yang" 4 "prefix" "b"],
  fst_ "a.yang" 5 "grouping" "g" [fst_ "a.yang" 6 "leaf" "x" [fst_ "a.yang" 6 "type" "string"]],
  fst_ "a.yang" 7 "container" "c" [fst_ "a.yang" 8 "uses" "g"]]
private def regBu : Registry := (Registry.loadAll [exAu, exB]).1
private def regXu : Registry := (Registry.loadAll [exAu, exB, exZ]).1

/-- Non-vacuity of `frame_across_modules_with_uses` / `_flat`, `linkAgree_of_devExtCore`, `fuelStableTop_all`
and `frame_across_modules_of_convTop`: a base WITH a `uses` (module a: `container c { uses g; }`, b, and the
deviation-only module z-dev loaded last): `DevExtCore`, `PlugAgree`, `FlatModKw` (hence `ModImports`) hold,
the base is outside `DevExt` (`noUses` fails), the fuels of the two runs differ (`entryFuel` 353 against
593), both runs are clean and the run without z-dev has the leaf `/a/c/x` — copied from the grouping — that
the conclusion speaks about (all evaluated by the kernel); `LinkAgree`, `FuelStableTop` and `ConvAgreeTop`
then hold by the theorems. -/
example : DevExtCore regBu regXu [⟨2, exZ⟩] [("z-dev@2024-01-01", 2), ("z-dev", 2)] ∧ PlugAgree exPlug regBu regXu ∧
    FlatModKw regBu ∧ ModImports regBu regXu ∧ ¬ (∀ m ∈ regBu.mods, noUses m.stmt = true) ∧
    entryFuel regBu < entryFuel regXu ∧
    (processAll regXu {} exPlug).errors = [] ∧ (processAll regBu {} exPlug).errors = [] ∧
    (obsE (processAll regBu {} exPlug).forest 0 [.child "c", .child "x"]).isSome = true ∧
    LinkAgree regBu regXu ∧ FuelStableTop regBu (entryFuel regXu) {} exPlug ∧ ConvAgreeTop regBu regXu {} exPlug := by
  have hB : regBu.mods = [⟨0, exAu⟩, ⟨1, exB⟩] := rfl
  have hplug : PlugAgree exPlug regBu regXu := fun _ _ _ _ => rfl
  have hcore : DevExtCore regBu regXu [⟨2, exZ⟩] [("z-dev@2024-01-01", 2), ("z-dev", 2)] := by
    refine ⟨rfl, by decide +kernel, rfl, rfl, by decide +kernel, by decide +kernel, by decide +kernel, by decide +kernel,
      by decide +kernel, ?_, ?_, by decide +kernel⟩
    · intro m hm i hi
      rw [hB] at hm
      simp only [List.mem_cons, List.not_mem_nil, or_false] at hm
      rcases hm with rfl | rfl
      · have : Mod.imports ⟨0, exAu⟩ = [fst_ "a.yang" 4 "import" "b" [fst_ "a.yang" 4 "prefix" "b"]] := rfl
        rw [this] at hi
        simp only [List.mem_cons, List.not_mem_nil, or_false] at hi
        subst hi
        rfl
      · have : Mod.imports ⟨1, exB⟩ = [] := rfl
        rw [this] at hi
        cases hi
    · intro m hm
      rw [hB] at hm
      simp only [List.mem_cons, List.not_mem_nil, or_false] at hm
      rcases hm with rfl | rfl <;> rfl
  have hflat : FlatModKw regBu := by
    apply flatModKw_of_noModKw
    intro m hm
    rw [hB] at hm
    simp only [List.mem_cons, List.not_mem_nil, or_false] at hm
    rcases hm with rfl | rfl <;> rfl
  have hmi : ModImports regBu regXu := modImports_of_flat hcore hflat
  refine ⟨hcore, hplug, hflat, hmi, ?_, by decide +kernel, by decide +kernel, by decide +kernel, by decide +kernel,
    Goyang.Lemmas.DevExt.linkAgree_of_devExtCore hcore, fuelStableTop _ _ (entryFuel_le hcore) _ _,
    convAgreeTop_of_devExtCore hcore hplug {} hmi⟩
  intro hno
  have h1 := hno ⟨0, exAu⟩ (by rw [hB]; exact List.mem_cons_self ..)
  have h2 : noUses exAu = false := rfl
  change noUses exAu = true at h1
  rw [h2] at h1
  cases h1

/-- Non-vacuity of `frame_across_modules_loaded`: the registry with z-dev IS the result of adding z-dev to the
loaded base a (with `uses`), b; the base has `TablesOK` (as every loaded registry), z-dev is a module with a
fresh name, and its rows are the ones `newRows` computes. -/
example : Goyang.Lemmas.Bridge.TablesOK regBu ∧ regBu.add exZ = .ok regXu ∧
    (⟨regBu.mods.length, exZ⟩ : Mod).isSub = false ∧ regBu.modules.get? exZ.arg = none ∧
    newRows regBu.mods.length exZ = [("z-dev@2024-01-01", 2), ("z-dev", 2)] :=
  ⟨Goyang.Lemmas.Bridge.tablesOK_loadFrom _ _ Goyang.Lemmas.Bridge.tablesOK_empty, rfl, by decide +kernel,
    by decide +kernel, by decide +kernel⟩

/-- **`FuelStable` (the hypothesis of `frame_across_modules_uses`) asks too much**: it fails for the base
a, b above, whose `uses g` resolves.  The call: the `uses` statement of module a with 800 copies of the
container statement and the module statement as scope (all statements of a, so `Fuel.Inv` holds — no run
of `processAll` makes this call).  At `entryFuel regBu = 353` the grouping search gets `2 * 352 + 16 = 720`
units, fewer than the scope is long: "unknown-group"; at `entryFuel regXu = 593` it gets 1200 and finds
`g`.  The frame theorems therefore work with `FuelStableTop` (`fuelStableTop_all`: true of every
registry). -/
theorem fuelStable_fails : ¬ FuelStable regBu (entryFuel regXu) {} exPlug := by
  intro hst
  have hc : fst_ "a.yang" 7 "container" "c" [fst_ "a.yang" 8 "uses" "g"] ∈ exAu.subs :=
    List.mem_cons_of_mem _ (List.mem_cons_of_mem _ (List.mem_cons_of_mem _ (List.mem_cons_of_mem _ (List.mem_cons_self ..))))
  have hu : fst_ "a.yang" 8 "uses" "g" ∈ (fst_ "a.yang" 7 "container" "c" [fst_ "a.yang" 8 "uses" "g"]).subs :=
    List.mem_cons_self ..
  have hsub : Goyang.Lemmas.Fuel.Sub (fst_ "a.yang" 7 "container" "c" [fst_ "a.yang" 8 "uses" "g"]) exAu :=
    .step (t := exAu) hc (.refl _)
  have inv : Goyang.Lemmas.Fuel.Inv (Goyang.Lemmas.Tree.envOf regBu {} exPlug) ⟨0, exAu⟩
      (List.replicate 800 (fst_ "a.yang" 7 "container" "c" [fst_ "a.yang" 8 "uses" "g"]) ++ [exAu])
      (fst_ "a.yang" 8 "uses" "g") := by
    refine ⟨?_, .step (t := exAu) hc (.step hu (.refl _)), ?_⟩
    · show (⟨0, exAu⟩ : Mod) ∈ [⟨0, exAu⟩, ⟨1, exB⟩]
      exact List.mem_cons_self ..
    · intro s hs
      rcases List.mem_append.mp hs with hs | hs
      · rw [List.eq_of_mem_replicate hs]; exact hsub
      · rw [List.mem_singleton] at hs; subst hs; exact .refl _
  have h := congrArg (fun r => r.1.d.errors.isEmpty) (hst ⟨0, exAu⟩ _ _ [] {} inv)
  revert h
  decide +kernel

/-- … and so does `ConvAgree` (the hypothesis of `frame_across_modules_of_conv`) for the pair above, on the
same call: the run with z-dev (fuel 593) finds the grouping, the run without it (fuel 353) does not.
`ConvAgreeTop`, which holds (example above), is what `frame_across_modules_of_convTop` asks for. -/
theorem convAgree_fails : ¬ ConvAgree regBu regXu {} exPlug := by
  intro hcv
  have hc : fst_ "a.yang" 7 "container" "c" [fst_ "a.yang" 8 "uses" "g"] ∈ exAu.subs :=
    List.mem_cons_of_mem _ (List.mem_cons_of_mem _ (List.mem_cons_of_mem _ (List.mem_cons_of_mem _ (List.mem_cons_self ..))))
  have hu : fst_ "a.yang" 8 "uses" "g" ∈ (fst_ "a.yang" 7 "container" "c" [fst_ "a.yang" 8 "uses" "g"]).subs :=
    List.mem_cons_self ..
  have inv : Goyang.Lemmas.Fuel.Inv (Goyang.Lemmas.Tree.envOf regBu {} exPlug) ⟨0, exAu⟩
      (List.replicate 800 (fst_ "a.yang" 7 "container" "c" [fst_ "a.yang" 8 "uses" "g"]) ++ [exAu])
      (fst_ "a.yang" 8 "uses" "g") := by
    refine ⟨?_, .step (t := exAu) hc (.step hu (.refl _)), ?_⟩
    · show (⟨0, exAu⟩ : Mod) ∈ [⟨0, exAu⟩, ⟨1, exB⟩]
      exact List.mem_cons_self ..
    · intro s hs
      rcases List.mem_append.mp hs with hs | hs
      · rw [List.eq_of_mem_replicate hs]; exact .step (t := exAu) hc (.refl _)
      · rw [List.mem_singleton] at hs; subst hs; exact .refl _
  have h := congrArg (fun r => r.1.d.errors.isEmpty) (hcv ⟨0, exAu⟩ _ _ [] {} inv)
  revert h
  decide +kernel

end FrameExample

/-! ### deviate_reported -/

/-- **A deviation that cannot be applied makes `processAll` return errors** — the chain from one
statement to the result:
(a) a deviate statement that breaks a condition the property lists reports (`claimed_violation_reported`);
(b) a statement that reports at its turn makes its deviation report; so does a target path that
    resolves to nothing;
(c) a deviation that reports at its turn makes its module's `applyDeviations` report;
(d) a module that reports at its turn makes the deviation stage report;
(e) if the deviation stage it ran reported anything, or an earlier stage did, `processAll` returns
    errors: a clean `processAll` ran the stage and the stage reported nothing. -/
theorem deviate_reported :
    -- (b) statement → deviation
    (∀ (reg : Registry) (opts : Opts) (m : Mod) (acc : Forest × List Err) (dstmt : Stmt)
        (pre post : List (String × Entry)) (d : String × Entry) (t : Nat) (path : Path) (node0 : Entry),
      (find reg acc.1 (m.seq, []) m.seq dstmt.arg).1 = some (t, path) →
      ((find reg acc.1 (m.seq, []) m.seq dstmt.arg).2.tree? t).bind (·.getAt path) = some node0 →
      (applyOneDeviate opts m.stmt d.1 d.2 (!path.isEmpty)
        (nodeFold opts m.stmt (!path.isEmpty) (node0, false, acc.2) pre).1).2.2 ≠ [] →
      (outerStep reg opts m acc (dstmt, pre ++ d :: post)).2 ≠ []) ∧
    -- (b) missing target → deviation
    (∀ (reg : Registry) (opts : Opts) (m : Mod) (acc : Forest × List Err) (dv : Stmt × List (String × Entry)),
      (find reg acc.1 (m.seq, []) m.seq dv.1.arg).1 = none → (outerStep reg opts m acc dv).2 ≠ []) ∧
    -- (c) deviation → module
    (∀ (reg : Registry) (opts : Opts) (m : Mod) (f : Forest) (pre post : List (Stmt × List (String × Entry)))
        (dv : Stmt × List (String × Entry)),
      (outerStep reg opts m (pre.foldl (outerStep reg opts m) (f, [])) dv).2 ≠ [] →
      (applyDeviations reg opts m (pre ++ dv :: post) f).2 ≠ []) ∧
    -- (d) module → stage
    (∀ (reg : Registry) (opts : Opts) (env : Env) (fuel : Nat) (f0 : Forest) (pre post : List Mod) (m : Mod),
      devOrderOf reg = pre ++ m :: post →
      (pre.foldl (stageStep reg opts env fuel) (f0, [], [])).2.2.contains m.name = false →
      (applyDeviations reg opts m (devsOf env fuel m) (pre.foldl (stageStep reg opts env fuel) (f0, [], [])).1).2 ≠ [] →
      (deviationStage reg opts env fuel f0).2.1 ≠ []) ∧
    -- (e) stage → processAll
    (∀ (reg : Registry) (opts : Opts) (plug : Plug), (processAll reg opts plug).errors = [] →
      ∃ (env : Env) (f0 : Forest), env.reg = reg ∧ env.opts = opts ∧ env.tres = plug.tres ∧
        (deviationStage reg opts env (entryFuel reg) f0).2.1 = [] ∧
        (processAll reg opts plug).forest = (deviationStage reg opts env (entryFuel reg) f0).1) :=
  ⟨fun reg opts m acc dstmt pre post d t path node0 h1 h2 h3 =>
      outerStep_reports_stmt reg opts m acc dstmt pre post d t path node0 h1 h2 h3,
   fun reg opts m acc dv h => outerStep_reports_missing reg opts m acc dv (fun loc hl => by rw [h] at hl; cases hl),
   fun reg opts m f pre post dv h => applyDeviations_reports reg opts m f pre post dv h,
   fun reg opts env fuel f0 pre post m h1 h2 h3 => stage_reports reg opts env fuel f0 pre post m h1 h2 h3,
   fun reg opts plug h => processAll_clean reg opts plug h⟩

/-- The four statement-level conditions of the property, spelled out on the model's data
(instances of `claimed_violation_reported`): a default added where one exists (not a leaf-list); a
default deleted that is absent or different (not a leaf-list — there every deletion is refused);
an element bound deleted whose value differs from the target's; an element bound on a node that
is neither list nor leaf-list (any kind). -/
theorem deviate_reported_conditions (opts : Opts) (ms : Stmt) (spec node : Entry) (hp : Bool) :
    (spec.d.default ≠ [] → node.isLeafList = false → node.d.default ≠ [] →
      (applyOneDeviate opts ms "add" spec hp node).2.2 ≠ []) ∧
    (spec.d.default ≠ [] → spec.d.default.head? ≠ node.d.default.head? →
      (applyOneDeviate opts ms "delete" spec hp node).2.2 ≠ []) ∧
    (spec.d.hasMin = true → nodeMin node ≠ specMin spec.d → (applyOneDeviate opts ms "delete" spec hp node).2.2 ≠ []) ∧
    (spec.d.hasMax = true → nodeMax node ≠ specMax spec.d → (applyOneDeviate opts ms "delete" spec hp node).2.2 ≠ []) ∧
    (∀ kind, kind = "add" ∨ kind = "replace" ∨ kind = "delete" → (spec.d.hasMin = true ∨ spec.d.hasMax = true) →
      listLike node = false → (applyOneDeviate opts ms kind spec hp node).2.2 ≠ []) ∧
    (∀ kind, kindOf kind = .other → (applyOneDeviate opts ms kind spec hp node).2.2 ≠ []) := by
  refine ⟨?_, ?_, ?_, ?_, ?_, ?_⟩
  · intro h1 h2 h3
    rw [applyOneDeviate_eq_staged]
    show (addReplace ms true spec node).2.2 ≠ []
    intro hnil
    have := ((addReplace_errs ms true spec node).mp hnil).1
    rw [stDefAR_errs, (flags_stCfg _ _).2, default_stCfg] at this
    simp [h1, h2, h3] at this
  · intro h1 h2
    rw [applyOneDeviate_eq_staged]
    show (delete_ ms spec node).2.2 ≠ []
    intro hnil
    have := ((delete_errs ms spec node).mp hnil).1
    rw [stDefDel_errs, (flags_stCfgDel _ _).2, default_stCfgDel] at this
    simp [h1, h2] at this
  · intro h1 h2
    rw [applyOneDeviate_eq_staged]
    show (delete_ ms spec node).2.2 ≠ []
    intro hnil
    exact h2 (((delete_errs ms spec node).mp hnil).2.1 h1).2
  · intro h1 h2
    rw [applyOneDeviate_eq_staged]
    show (delete_ ms spec node).2.2 ≠ []
    intro hnil
    exact h2 (((delete_errs ms spec node).mp hnil).2.2 h1).2
  · intro kind hk hb hl
    rw [applyOneDeviate_eq_staged]
    intro hnil
    rcases hk with rfl | rfl | rfl
    · have := (addReplace_errs ms true spec node).mp hnil
      rcases hb with hb | hb
      · exact this.2.1 ⟨hb, hl⟩
      · exact this.2.2 ⟨hb, hl⟩
    · have := (addReplace_errs ms false spec node).mp hnil
      rcases hb with hb | hb
      · exact this.2.1 ⟨hb, hl⟩
      · exact this.2.2 ⟨hb, hl⟩
    · have := (delete_errs ms spec node).mp hnil
      rcases hb with hb | hb
      · have := (this.2.1 hb).1; rw [hl] at this; cases this
      · have := (this.2.2 hb).1; rw [hl] at this; cases this
  · intro kind hk
    rw [applyOneDeviate_eq_staged]
    exact staged_other_errs opts ms kind spec hp node hk

/-- The two conditions that are detected when the deviating module is converted (`toEntry`), before
the deviation stage: an unknown deviate argument and a replacement type that does not resolve.
FULL STATEMENT, not proved in this file; PROVED in Props/C08Bridge.lean (`conversionErrorsReported`)
for every registry of the loaded shape whose loaded statements are module / submodule statements —
hence for everything `Registry.loadAll` / `Model.loadTexts` produce (`conversionErrorsReported_loaded`,
`conversionErrorsReported_loadTexts`) — and REFUTED there for arbitrary registries
(`conversionErrorsReported_needs_loadedShape`: two entries under one sequence number): `processAll`
returns errors whenever a loaded module contains such a statement.  Proved here
(`deviate_reported_conversion_partial`): the entry of the `deviation` statement
carries a recorded error whenever one of its deviate statements has an unknown argument or a deviate
entry with an error, for every fuel, scope and conversion state.  Missing here, supplied by the bridge (`deviate_bad_type_recorded`, `deviation_errors_recorded`,
`module_errors_cached`): (i) that the `"type"` case
of `Model.toEntry` leaves `deviate-bad-type` on the deviate entry through the remaining field steps
(plain unfolding of the seven nested steps), and (ii) the way from the deviation entry into the module
entry (the `"deviation"` step imports it; ten more field steps follow) and through the conversion
cache to "the forest `processAll` inspects contains that module entry" — an invariant of the whole
`toEntry` recursion, which is the subject of C04.  The runner covers both conditions
(`unknown-kind/*`, `bad-type/*` combinations, and at random). -/
def ConversionErrorsReported (reg : Registry) (opts : Opts) (plug : Plug) : Prop :=
  (∃ m ∈ reg.distinctModules ++ reg.distinctSubs, ∃ dv ∈ m.stmt.all "deviation", ∃ ds ∈ dv.all "deviate",
      deviateKinds.contains ds.arg = false ∨
      (∃ ty, ds.one? "type" = some ty ∧ (plug.tres.resolve reg m [ds, dv, m.stmt] ty).2 ≠ [])) →
    (processAll reg opts plug).errors ≠ []

/-- The conversion records the error where the module's error sweep finds it: on the entry of the
deviation statement (which `toEntry` of the module imports into the module entry). -/
theorem deviate_reported_conversion_partial (env : Env) (fuel : Nat) (root : Mod) (scope : List Stmt) (n : Stmt)
    (visiting : List NodeId) (st : TState) (hkw : n.kw = "deviation")
    (h : ∃ ds ∈ n.all "deviate", deviateKinds.contains ds.arg = false ∨
      ∀ st', (toEntry env (fuel - 1) root (n :: scope) ds visiting st').1.d.errors ≠ []) :
    (toEntry env fuel root scope n visiting st).1.d.errors ≠ [] :=
  toEntry_deviation_errs env fuel root scope n visiting st hkw h

/-- Non-vacuity: `deviation /b:t { deviate shrink; }`. -/
example :
    let n : Stmt := .mk "deviation" true "/b:t" "d.yang" 3 3 [.mk "deviate" true "shrink" "d.yang" 4 5 []]
    n.kw = "deviation" ∧ ∃ ds ∈ n.all "deviate", deviateKinds.contains ds.arg = false := by
  refine ⟨rfl, .mk "deviate" true "shrink" "d.yang" 4 5 [], ?_, by decide⟩
  simp [Stmt.all, Stmt.subs, Stmt.kw]

/-- What is proved of it: an unknown kind never reaches the deviation stage as something to apply
(it is filtered out, so the report has to come — and in the model does come — from the conversion),
and if it did reach `applyOneDeviate` it would be reported there too. -/
theorem deviate_reported_unknown_kind_partial (env : Env) (fuel : Nat) (m : Mod) :
    (∀ x ∈ devsOf env fuel m, ∀ d ∈ x.2, deviateKinds.contains d.1 = true) ∧
    (∀ (opts : Opts) (ms : Stmt) (kind : String) (spec node : Entry) (hp : Bool), kindOf kind = .other →
      (applyOneDeviate opts ms kind spec hp node).2.2 ≠ []) := by
  constructor
  · intro x hx d hd
    simp only [devsOf, List.mem_map] at hx
    obtain ⟨dv, _, rfl⟩ := hx
    simp only [List.mem_filterMap] at hd
    obtain ⟨s, _, hs⟩ := hd
    split at hs
    · next hc => simp only [Option.some.injEq] at hs; subst hs; exact hc
    · cases hs
  · intro opts ms kind spec node hp hk
    rw [applyOneDeviate_eq_staged]
    exact staged_other_errs opts ms kind spec hp node hk

/-! ### ignore_not_supported_option -/

/-- **With the ignore option the target of not-supported is retained and everything else is
unchanged.**  (1) not-supported on a target with a parent returns the node as it is, does not remove
it and reports nothing; (2) for every other kind the option plays no role at all; (3) with the
option no statement whatsoever asks for a removal, so `removeAt` is never called; (4) the
specification agrees: under the option no statement removes the node. -/
theorem ignore_not_supported_option (ms : Stmt) (spec node : Entry) :
    (∀ ic, applyOneDeviate { ignoreCircular := ic, ignoreNotSupported := true } ms "not-supported" spec true node =
      (node, false, [])) ∧
    (∀ (kind : String) (hp : Bool) (o1 o2 : Opts), kind ≠ "not-supported" →
      applyOneDeviate o1 ms kind spec hp node = applyOneDeviate o2 ms kind spec hp node) ∧
    (∀ (opts : Opts) (kind : String) (hp : Bool), opts.ignoreNotSupported = true →
      (applyOneDeviate opts ms kind spec hp node).2.1 = false) ∧
    (∀ (p : NodeProps) (s : DeviateStmt), effect true p s ≠ none) := by
  refine ⟨fun _ => rfl, ?_, ?_, ?_⟩
  · intro kind hp o1 o2 hk
    rw [applyOneDeviate_eq_staged, applyOneDeviate_eq_staged]
    unfold staged
    have : kindOf kind ≠ .notSupported := by
      unfold kindOf
      repeat' split
      all_goals first | (intro h; cases h) | (intro _; contradiction)
    cases hkk : kindOf kind <;> first | rfl | exact absurd hkk this
  · intro opts kind hp ho
    cases hr : (applyOneDeviate opts ms kind spec hp node).2.1 with
    | false => rfl
    | true =>
      have := (applyOneDeviate_remove opts ms kind spec hp node hr).2
      rw [ho] at this; cases this
  · intro p s
    unfold effect
    cases s.kind <;> simp

/-- Without the option not-supported on a target with a parent asks for the removal (and
`deviate_written_order` shows the subtree is then gone). -/
example : (applyOneDeviate {} wModStmt "not-supported" (.mk { kind := .deviate } [] [] []) true wLeafPlain).2.1 = true := by
  decide

end Goyang.Props.C08
