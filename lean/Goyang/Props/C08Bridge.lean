import Goyang.Lemmas.BridgeDeviate
import Goyang.Lemmas.BridgeRegistry
import Goyang.Lemmas.BridgeLoad
import Goyang.Props.C08
import Goyang.Props.C04
/-
C08, bridge to `processAll` — `ConversionErrorsReported` (Props/C08.lean: stated, not proved there).
This file completes `deviate_reported_conversion_partial` and `deviate_reported_unknown_kind_partial` of
Props/C08.lean: with `conversionErrorsReported_loadTexts` no hypothesis is left for registries loaded
from texts.  (The other statement Props/C08.lean once left open, `FrameAcrossModules`, is proved there
as `frame_across_modules`; this file does not touch it.)

The two conditions that are detected when the deviating (sub)module is converted (`toEntry`), before
the deviation stage — an unknown deviate argument, a replacement type that does not resolve — make
`processAll` return errors.  The chain (Lemmas/BridgeDeviate.lean):

  (i)   the `"type"` step of the deviate statement records `deviate-bad-type`, and the six other field
        steps keep it (`toEntry_deviate_errs`);
  (ii)  the `"deviate"` step of the deviation statement records `deviate-unknown-kind`, or imports the
        deviate entry's error (C08's `toEntry_deviation_errs`);
  (iii) the `"deviation"` step of the (sub)module imports the deviation entry's error into the module
        entry, and the later field steps keep it;
  (iv)  the module entry is filed in the cache, or — on a cache hit — is an entry that was built the
        same way (cache-row invariant of the traversal of `toEntry` with the call sites known,
        Lemmas/BridgeTraverse.lean);
  (v)   every (sub)module bound in the tables is converted and its entry stays in the cache, which is
        the forest the first error sweep inspects.

Hypotheses: `Fuel.LoadedShape reg` (distinct sequence numbers; what loading produces —
`loadedShape_loadAll`) and `ModsAreModules reg` (every loaded statement is a module / submodule
statement).  Both are needed: `conversionErrorsReported_needs_loadedShape` is a registry with two
entries under one sequence number, of which `processAll` converts only the first, so that the bad
deviation of the second goes unnoticed — the statement of Props/C08.lean quantified over ALL
registries is false; over the registries loading produces it is `conversionErrorsReported_loaded`
(statements handed to `Registry.loadAll`) and, with no hypothesis left, `conversionErrorsReported_loadTexts`
(raw texts through `Model.loadTexts` = `Modules.Parse`).
-/
namespace Goyang.Props.C08Bridge
open Goyang.Model
open Goyang.Lemmas.Bridge
open Goyang.Lemmas.Fuel (LoadedShape)

/-- A deviate statement whose replacement type does not resolve: its entry carries an error — for
every fuel, scope and conversion state ((i), missing piece of C08's `deviate_reported_conversion_partial`). -/
theorem deviate_bad_type_recorded (env : Env) (fuel : Nat) (root : Mod) (scope : List Stmt) (ds : Stmt)
    (visiting : List NodeId) (st : TState) (hkw : ds.kw = "deviate") (ty : Stmt) (h1 : ds.one? "type" = some ty)
    (h2 : (env.tres.resolve env.reg root (ds :: scope) ty).2 ≠ []) :
    (toEntry env fuel root scope ds visiting st).1.d.errors ≠ [] :=
  toEntry_deviate_errs env fuel root scope ds visiting st hkw ⟨ty, h1, h2⟩

/-- A deviation statement with a deviate statement of unknown kind, or with a replacement type that
does not resolve: its entry carries an error ((i) + (ii)). -/
theorem deviation_errors_recorded (env : Env) (fuel : Nat) (root : Mod) (scope : List Stmt) (dv : Stmt)
    (visiting : List NodeId) (st : TState) (hkw : dv.kw = "deviation")
    (h : ∃ ds ∈ dv.all "deviate", deviateKinds.contains ds.arg = false ∨
      ∃ ty, ds.one? "type" = some ty ∧ (env.tres.resolve env.reg root (ds :: dv :: scope) ty).2 ≠ []) :
    (toEntry env fuel root scope dv visiting st).1.d.errors ≠ [] :=
  toEntry_deviation_errs' env fuel root scope dv visiting st hkw h

/-- Every cache row of the conversion whose (sub)module has such a deviation carries the error on
its root ((iii) + (iv)). -/
theorem module_errors_cached (reg : Registry) (opts : Opts) (plug : Plug) (hL : LoadedShape reg) :
    ∀ p ∈ (Lemmas.Tree.tstate reg opts plug).cache, ∀ m ∈ reg.mods, m.seq = p.1 →
      (∃ dv ∈ m.stmt.all "deviation", ∃ ds ∈ dv.all "deviate", deviateKinds.contains ds.arg = false ∨
        ∃ ty, ds.one? "type" = some ty ∧ (plug.tres.resolve reg m [ds, dv, m.stmt] ty).2 ≠ []) →
      p.2.d.errors ≠ [] :=
  tstate_dev_rows reg opts plug hL

/-- **`ConversionErrorsReported`** (Props/C08.lean), for every registry of the loaded shape whose
loaded statements are module / submodule statements, every option set and every plugged-in type,
identity and typedef stage. -/
theorem conversionErrorsReported (reg : Registry) (opts : Opts) (plug : Plug) (hL : LoadedShape reg)
    (hmods : ModsAreModules reg) : C08.ConversionErrorsReported reg opts plug := by
  rintro ⟨m, hm, dv, hdv, ds, hds, hbad⟩
  exact processAll_conversion_errors reg opts plug hL hmods m hm ⟨dv, hdv, ds, hds, hbad⟩

/-- The same for what loading produces: module / submodule statements loaded into a fresh registry. -/
theorem conversionErrorsReported_loaded (ss : List Stmt) (hss : ∀ s ∈ ss, isModKw s = true) (opts : Opts) (plug : Plug) :
    C08.ConversionErrorsReported (Registry.loadAll ss).1 opts plug := by
  refine conversionErrorsReported _ opts plug (loadedShape_loadAll ss) ?_
  intro m hm
  rcases loadFrom_src ss {} m hm with h1 | h1
  · simp at h1
  · exact hss m.stmt h1

/-- … and for what `Modules.Parse` produces from raw texts (`Model.loadTexts`: generic parser, AST
builder, the top-level check, `Registry.add`): no hypothesis is left — both `LoadedShape` and
`ModsAreModules` hold of every such registry, whichever texts are accepted or rejected. -/
theorem conversionErrorsReported_loadTexts (texts : List (List UInt8 × List UInt8)) (opts : Opts) (plug : Plug) :
    C08.ConversionErrorsReported (loadTexts texts).1 opts plug :=
  conversionErrorsReported _ opts plug (loadedShape_loadTexts texts) (modsAreModules_loadTexts texts)

/-! ### non-vacuity, and why the hypothesis on the registry is needed -/
section Examples

private def st (line : Nat) (kw arg : String) (subs : List Stmt := []) : Stmt := .mk kw true arg "x.yang" line 1 subs

/-- `module a` (clean). -/
private def modA : Stmt := st 1 "module" "a" [st 2 "namespace" "urn:a", st 3 "prefix" "a", st 4 "leaf" "x" [st 5 "type" "string"]]

/-- `module b` with `deviation /a:x { deviate shrink; }`. -/
private def modB : Stmt :=
  st 1 "module" "b" [st 2 "namespace" "urn:b", st 3 "prefix" "b",
    st 4 "deviation" "/a:x" [st 5 "deviate" "shrink"]]

private def plug : Plug :=
  { tres := { resolve := fun _ _ _ t => (some { dump := t.arg }, []) },
    identityErrs := fun _ => [], typedefErrs := fun _ => [] }

private def regGood : Registry := (Registry.loadAll [modA, modB]).1

/-- Loaded the ordinary way the set satisfies the hypotheses, the premise of
`ConversionErrorsReported` holds (the unknown kind `shrink`), and `processAll` does return errors
(evaluated by the kernel, independently of the proof). -/
example : LoadedShape regGood ∧ ModsAreModules regGood ∧ (processAll regGood {} plug).errors ≠ [] := by decide +kernel

/-- A registry that loading cannot produce: two entries under sequence number 0, one table row. -/
private def regBad : Registry := { mods := [⟨0, modA⟩, ⟨0, modB⟩], modules := [("a", 0)] }

/-- **Without `LoadedShape` the statement is false**: `b` counts as a distinct module (the filter
of `distinctModules` looks at sequence numbers), but the conversion order resolves sequence number 0
to `a` only; `b` is never converted and its `deviate shrink` goes unnoticed. -/
theorem conversionErrorsReported_needs_loadedShape : ¬ C08.ConversionErrorsReported regBad {} plug := by
  intro h
  have hd : regBad.distinctModules ++ regBad.distinctSubs = [⟨0, modA⟩, ⟨0, modB⟩] := by rfl
  have hclean : (processAll regBad {} plug).errors = [] := by decide +kernel
  refine h ⟨⟨0, modB⟩, by rw [hd]; simp, st 4 "deviation" "/a:x" [st 5 "deviate" "shrink"], ?_,
    st 5 "deviate" "shrink", ?_, Or.inl (by decide)⟩ hclean
  · simp [modB, st, Stmt.all, Stmt.subs, Stmt.kw]
  · simp [st, Stmt.all, Stmt.subs, Stmt.kw]

example : ¬ LoadedShape regBad := by decide +kernel

end Examples

end Goyang.Props.C08Bridge
