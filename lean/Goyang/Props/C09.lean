import Goyang.Lemmas.Types
/-
C09 — type names bind lexically and derived types inherit the whole chain.

Statements are about the impl model `Goyang.Model.Types` (a transliteration of pkg/yang/types.go
after the repairs listed there, tied to the Go code by harness/cmd/corr-c09) against the
specification `Goyang.Spec.Types`: the binding relation `Binds` (nearest enclosing scope, then the
module and its submodules; a foreign prefix: exactly the imported module and its submodules), the
finite-derivation predicate `Resolvable`, the derivation chain `DerivesFrom` and "nearest
definition wins / patterns accumulate" over that chain.  Helper lemmas: Goyang/Lemmas/Types.lean.

`env : Env` is what the type layer reads from the loaded set (registry, include links, identity
dictionary, fuel); the theorems hold for every environment, in particular for `Env.of reg`.
-/
namespace Goyang.Props.C09
open Goyang.Model Goyang.Model.Types Goyang.Spec.Types Goyang.Lemmas.Types

/-- **Lexical binding.**  Whatever typedef the resolver picks for a type statement `t` is the one the
name denotes: for an unprefixed or own-prefixed name the typedef of the nearest enclosing scope
that declares it, else a top-level typedef of the module `t` stands in, of the module that belongs
to, or of their submodules; for a foreign prefix a top-level typedef of exactly the module imported
under that prefix or of its submodules.  (`t` is a `type` statement: it declares no typedefs.) -/
theorem resolve_binds (env : Env) (root : Mod) (scope : List Stmt) (t : Stmt)
    (ht : scopeKinds.contains t.kw = false) (src : Source) (r : TdRef)
    (h : lookup env root scope t = .typedef src r) :
    Binds env.reg root scope t.arg r.root r.td r.scope := by
  unfold lookup at h
  split at h
  · cases h
  · rename_i hb
    have hnb := builtin_none hb
    simp only at h
    split at h
    · -- unprefixed or own prefix
      rename_i hloc
      have hlocal : isLocalRef root t.arg = true := by
        unfold isLocalRef
        rw [Bool.or_eq_true] at hloc ⊢
        cases hloc with
        | inl h1 => exact Or.inl h1
        | inr h2 => exact Or.inr (by rw [beq_iff_eq] at h2 ⊢; exact h2.symm)
      split at h
      · rename_i r' hfs
        simp only [Bound.typedef.injEq] at h
        obtain ⟨_, hr⟩ := h
        subst hr
        obtain ⟨pre, n, up, hsc, hpre, htd, hroot, hscope⟩ := findInScope_some hfs
        cases pre with
        | nil =>
          simp only [List.nil_append, List.cons.injEq] at hsc
          obtain ⟨htn, _⟩ := hsc
          subst htn
          rw [declared_of_not_scope ht] at htd
          cases htd
        | cons t' pre' =>
          simp only [List.cons_append, List.cons.injEq] at hsc
          obtain ⟨_, hsc⟩ := hsc
          rw [hroot, hscope]
          exact Binds.lexical pre' n up _ hnb hlocal hsc
            (fun x hx => hpre x (List.mem_cons_of_mem _ hx)) htd
      · rename_i hfs
        split at h
        · rename_i r' hfl
          simp only [Bound.typedef.injEq] at h
          obtain ⟨_, hr⟩ := h
          subst hr
          obtain ⟨hunit, htd, hscope⟩ := findLocalModules_sound env root _ _ hfl
          rw [hscope]
          exact Binds.moduleLevel _ _ hnb hlocal
            (fun x hx => findInScope_none hfs x (List.mem_cons_of_mem _ hx)) hunit htd
        · cases h
        · cases h
    · -- foreign prefix
      rename_i hloc
      have hforeign : isLocalRef root t.arg = false := by
        unfold isLocalRef
        rw [Bool.not_eq_true] at hloc
        rw [Bool.or_eq_false_iff] at hloc ⊢
        exact ⟨hloc.1, by rw [beq_eq_false_iff_ne] at hloc ⊢; exact fun e => hloc.2 e.symm⟩
      split at h
      · cases h
      · rename_i ext hext
        split at h
        · rename_i r' hfm
          simp only [Bound.typedef.injEq] at h
          obtain ⟨_, hr⟩ := h
          subst hr
          have hfm' := Prod.ext (p := findInModule env (splitPrefix t.arg).2 env.modFuel ext [])
            (q := (Lookup.found r', (findInModule env (splitPrefix t.arg).2 env.modFuel ext []).2)) hfm rfl
          obtain ⟨hstar, htd, hscope⟩ := findInModule_sound env _ _ _ _ _ _ hfm'
          rw [hscope]
          unfold Registry.findModuleByPrefix at hext
          rw [if_neg hloc] at hext
          split at hext
          · rename_i i hi
            have himp : i ∈ root.imports := List.mem_of_find?_eq_some hi
            have hpfx := List.find?_some hi
            simp only [beq_iff_eq] at hpfx
            exact Binds.foreign i ext _ _ hnb hforeign himp hpfx hext hstar htd
          · cases hext
        · cases h
        · cases h

/-- Non-vacuity of `resolve_binds`: shadowing typedefs at three scopes (module, container, list);
the reference in the list binds to the list's typedef. -/
example :
    let ty := Stmt.mk "type" true "t" "m.yang" 5 20 []
    let leaf := Stmt.mk "leaf" true "x" "m.yang" 5 10 [ty]
    let tdL := Stmt.mk "typedef" true "t" "m.yang" 4 10 [Stmt.mk "type" true "int32" "m.yang" 4 20 []]
    let lst := Stmt.mk "list" true "l" "m.yang" 4 5 [tdL, leaf]
    let tdC := Stmt.mk "typedef" true "t" "m.yang" 3 10 [Stmt.mk "type" true "int16" "m.yang" 3 20 []]
    let con := Stmt.mk "container" true "c" "m.yang" 3 1 [tdC, lst]
    let tdM := Stmt.mk "typedef" true "t" "m.yang" 2 10 [Stmt.mk "type" true "int8" "m.yang" 2 20 []]
    let m := Stmt.mk "module" true "m" "m.yang" 1 1 [Stmt.mk "prefix" true "p" "m.yang" 1 10 [], tdM, con]
    match Registry.add {} m with
    | .ok reg =>
      (match lookup (Env.of reg) ⟨0, m⟩ [leaf, lst, con, m] ty with
       | .typedef _ r => r.td == tdL
       | _ => false) = true
    | .error _ => False := by
  decide

end Goyang.Props.C09
