import Goyang.Lemmas.Types
/-
C09 — type names bind lexically and derived types inherit the whole chain.

Statements are about the impl model `Goyang.Model.Types` (a transliteration of pkg/yang/types.go
after the repairs listed there, tied to the Go code by harness/cmd/corr-c09) against the
specification `Goyang.Spec.Types`: the binding relation `Binds` (nearest enclosing scope, then the
module and its submodules; a foreign prefix: exactly the imported module and its submodules), the
finite-derivation predicate `Resolvable`, the derivation chain `DerivesFrom` and "nearest
definition wins / patterns accumulate" over that chain.  Helper lemmas: Goyang/Lemmas/Types.lean.

`env : Env` is what the type layer reads from the loaded set (registry, include links, identity
dictionary, fuel); the theorems hold for every environment, in particular for `Env.of reg`.
-/
namespace Goyang.Props.C09
open Goyang.Model Goyang.Model.Types Goyang.Spec.Types Goyang.Lemmas.Types

/-- **Lexical binding.**  Whatever typedef the resolver picks for a type statement `t` is the one the
name denotes: for an unprefixed or own-prefixed name the typedef of the nearest enclosing scope
that declares it, else a top-level typedef of the module `t` stands in, of the module that belongs
to, or of their submodules; for a foreign prefix a top-level typedef of exactly the module imported
under that prefix or of its submodules.  (`t` is a `type` statement: it declares no typedefs.) -/
theorem resolve_binds (env : Env) (root : Mod) (scope : List Stmt) (t : Stmt)
    (ht : scopeKinds.contains t.kw = false) (src : Source) (r : TdRef)
    (h : lookup env root scope t = .typedef src r) :
    Binds env.reg root scope t.arg r.root r.td r.scope := by
  unfold lookup at h
  split at h
  · cases h
  · rename_i hb
    have hnb := builtin_none hb
    simp only at h
    split at h
    · -- unprefixed or own prefix
      rename_i hloc
      have hlocal : isLocalRef root t.arg = true := by
        unfold isLocalRef
        rw [Bool.or_eq_true] at hloc ⊢
        cases hloc with
        | inl h1 => exact Or.inl h1
        | inr h2 => exact Or.inr (by rw [beq_iff_eq] at h2 ⊢; exact h2.symm)
      split at h
      · rename_i r' hfs
        simp only [Bound.typedef.injEq] at h
        obtain ⟨_, hr⟩ := h
        subst hr
        obtain ⟨pre, n, up, hsc, hpre, htd, hroot, hscope⟩ := findInScope_some hfs
        cases pre with
        | nil =>
          simp only [List.nil_append, List.cons.injEq] at hsc
          obtain ⟨htn, _⟩ := hsc
          subst htn
          rw [declared_of_not_scope ht] at htd
          cases htd
        | cons t' pre' =>
          simp only [List.cons_append, List.cons.injEq] at hsc
          obtain ⟨_, hsc⟩ := hsc
          rw [hroot, hscope]
          exact Binds.lexical pre' n up _ hnb hlocal hsc
            (fun x hx => hpre x (List.mem_cons_of_mem _ hx)) htd
      · rename_i hfs
        split at h
        · rename_i r' hfl
          simp only [Bound.typedef.injEq] at h
          obtain ⟨_, hr⟩ := h
          subst hr
          obtain ⟨hunit, htd, hscope⟩ := findLocalModules_sound env root _ _ hfl
          rw [hscope]
          exact Binds.moduleLevel _ _ hnb hlocal
            (fun x hx => findInScope_none hfs x (List.mem_cons_of_mem _ hx)) hunit htd
        · cases h
        · cases h
    · -- foreign prefix
      rename_i hloc
      have hl1 : ((splitPrefix t.arg).1 == "") = false := by
        cases hq : ((splitPrefix t.arg).1 == "") with
        | false => rfl
        | true => rw [hq] at hloc; simp at hloc
      have hl2 : ((splitPrefix t.arg).1 == root.getPrefix) = false := by
        cases hq : ((splitPrefix t.arg).1 == root.getPrefix) with
        | false => rfl
        | true =>
          rw [beq_iff_eq] at hq
          rw [hq] at hloc
          simp at hloc
      have hforeign : isLocalRef root t.arg = false := by
        unfold isLocalRef; rw [hl1, hl2]; rfl
      split at h
      · cases h
      · rename_i ext hext
        split at h
        · rename_i r' hfm
          simp only [Bound.typedef.injEq] at h
          obtain ⟨_, hr⟩ := h
          subst hr
          obtain ⟨hstar, htd, hscope⟩ := findInModule_sound' env _ _ _ _ _ hfm
          rw [hscope]
          unfold Registry.findModuleByPrefix at hext
          rw [hl1, hl2] at hext
          simp only [Bool.or_self, Bool.false_eq_true, if_false] at hext
          split at hext
          · rename_i i hi
            have himp : i ∈ root.imports := List.mem_of_find?_eq_some hi
            have hpfx := List.find?_some hi
            simp only [beq_iff_eq] at hpfx
            exact Binds.foreign i ext _ _ hnb hforeign himp hpfx hext hstar htd
          · cases hext
        · cases h
        · cases h

/-- **Unknown, unresolvable or cyclic references are errors.**  If `Type.resolve` returns no error
for a type statement, then the statement has a finite derivation in the sense of the
specification: every name on the way (the statement's own, those of the typedefs it is derived
from, those of all union member types, recursively) binds as `Binds` says, down to built-in types.
Contrapositive: a reference to a name or prefix that binds to nothing, a typedef whose own type
cannot be resolved, and a definition in terms of itself (no finite derivation exists) are all
reported.  Holds for every fuel and every set of types in progress (running out of fuel is
reported as an error as well). -/
theorem resolve_errors (env : Env) :
    ∀ (fuel : Nat) (root : Mod) (scope : List Stmt) (t : Stmt) (stack : List TypeKey),
      scopeKinds.contains t.kw = false →
      (resolveTypeF env fuel root scope t stack).errs = [] → Resolvable env.reg root scope t := by
  intro fuel
  induction fuel with
  | zero => intro root scope t stack _ h; simp [resolveTypeF] at h
  | succ fuel ih =>
    intro root scope t stack ht h
    unfold resolveTypeF at h
    simp only at h
    split at h
    · simp at h
    · -- the member types, once the overlay is known to be error-free
      have hmem : ∀ {src : Source} {tdY : YType},
          (overlayType env root t src tdY
            ((t.all "type").map fun ut => resolveTypeF env fuel root (t :: scope) ut (typeKey root t :: stack))).errs = [] →
          ∀ ut ∈ t.all "type", Resolvable env.reg root (t :: scope) ut := by
        intro src tdY ho ut hut
        have := overlayType_errs_nil ho _ (List.mem_map_of_mem (f := fun ut =>
          resolveTypeF env fuel root (t :: scope) ut (typeKey root t :: stack)) hut)
        exact ih root (t :: scope) ut _ (type_not_scope (kw_of_all hut)) this
      split at h
      · simp at h
      · rename_i y hl
        have hb : builtinNames.contains t.arg = true := by
          unfold lookup at hl
          split at hl
          · rename_i y' hy; exact builtin_some hy
          · simp only at hl
            split at hl
            · split at hl
              · cases hl
              · split at hl <;> cases hl
            · split at hl
              · cases hl
              · split at hl <;> cases hl
        exact Resolvable.builtin hb (hmem h)
      · rename_i src r hl
        split at h
        · simp at h
        · rename_i tt htt
          split at h
          · -- the typedef's own type has errors: they are returned
            rename_i hbase
            simp only at h
            rw [h] at hbase
            simp at hbase
          · rename_i hbase
            have hbase' : (resolveTypeF env fuel r.root (r.td :: r.scope) tt (typeKey root t :: stack)).errs = [] := by
              simpa using hbase
            split at h
            · simp at h
            · split at h
              · rename_i hne
                simp only at h
                rw [h] at hne
                simp at hne
              · split at h
                · simp at h
                · exact Resolvable.derived r.root r.td r.scope tt
                    (resolve_binds env root scope t ht src r hl) htt
                    (ih r.root (r.td :: r.scope) tt _ (type_not_scope (kw_of_one htt)) hbase')
                    (hmem h)

end Goyang.Props.C09
