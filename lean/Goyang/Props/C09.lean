import Goyang.Lemmas.Types
import Goyang.Lemmas.TypesFuel
import Goyang.Lemmas.TypesAdm
import Goyang.Lemmas.TypesSpecErr
import Goyang.Lemmas.TypesLinked
import Goyang.Lemmas.TypesWfMain
import Goyang.Lemmas.TypesSpecClaim
import Goyang.Lemmas.TypesEnumRfc
import Goyang.Lemmas.TypesFdRfc
import Goyang.Lemmas.TypesPartOf
import Goyang.Lemmas.TypesWellLinked
import Goyang.Lemmas.TypesAgreeFull
import Goyang.Lemmas.TypesRangeRfc
/-
C09 — type names bind lexically and derived types inherit the whole chain.

Statements are about the impl model `Goyang.Model.Types` (a transliteration of pkg/yang/types.go
after the repairs listed there, tied to the Go code by harness/cmd/corr-c09) against the
specification `Goyang.Spec.Types`: the binding relation `Binds` (nearest enclosing scope, then the
module and its submodules; a foreign prefix: exactly the imported module and its submodules), the
finite-derivation predicate `Resolvable`, the derivation chain `DerivesFrom` and "nearest
definition wins / patterns accumulate" over that chain.  Helper lemmas: Goyang/Lemmas/Types.lean.

`env : Env` is what the type layer reads from the loaded set (registry, include links, identity
dictionary, fuel); the theorems hold for every environment, in particular for `Env.of reg`.

What is proved (all for unbounded inputs):
* soundness: `resolve_binds`, `resolve_errors` (+ `unknown_is_error`, `unresolvable_is_error`,
  `cyclic_is_error_below`), `resolve_chain` / `resolve_inherits` / `resolve_members`, `fuel_suffices`;
* completeness: `resolve_complete_binding` (for a `Resolvable` type statement the model raises no
  binding-level error: unknown and cyclic names are the ONLY binding-level error sources),
  `resolve_complete` (what the specification accepts — `Admissible`: a finite derivation along which
  every restriction passes the decidable side conditions `typeOk` / `typedefOk` of
  Lemmas/TypesRestr.lean — is resolved without error, with the kind / fraction-digits / range /
  length the specification computes), `resolve_accepts` (converse) and `resolve_errors_iff` (the
  model reports an error iff the specification rejects).  Standing hypotheses of the completeness
  half (`Standing`, Lemmas/TypesComplete.lean): sequence numbers identify the loaded modules, every
  include is linked, import prefixes are distinct, no name met below the reference denotes two
  typedefs (`UnambiguousBelow`), type statements met below the reference are identified by their
  position (`KeysIdentify`); the reference stands in the loaded set; fuel above the number of type
  statements.  All are shown satisfiable on a concrete schema (`Ex.standing_env`);
* executable vs relational specification: `spec_exec_binds_sound`, `spec_exec_binds_iff`,
  `spec_exec_unbound`, `spec_exec_chain`, `spec_exec_chain_unique`, `spec_exec_inherits`,
  `spec_exec_members`, `spec_exec_accepts`, `spec_exec_error`;
* `unambiguous_false`: the hypothesis `Spec.Types.Unambiguous` of the older `cyclic_is_error` holds of
  no registry (that theorem is vacuous, kept for the record, superseded by `cyclic_is_error_below`).
* discharging the hypotheses: `env_of_linked` (`Env.of reg` satisfies `Linked` whenever `linkOk reg`,
  through C11's `linkAll_spec`), `standing_of_wellformed` (`SeqId`, `ImportsDistinct`,
  `UnambiguousBelow`, `KeysIdentify` follow from the DECIDABLE well-formedness `WfReg` of the loaded
  set — distinct sequence numbers / import prefixes / statement positions, no typedef name declared
  twice in a statement or at the top level of a module and its submodules — for every reference
  that stands in it, `InPlace`); `resolve_complete_loaded`, `resolve_errors_iff_loaded`: completeness
  and the iff in terms of `resolveType reg` (what the driver computes) under `linkOk`, `WfReg`,
  `InPlace`, `PartOfSchema`.
* when the executable specification makes no claim (Lemmas/TypesSpecFuel.lean, TypesSpecClaim.lean):
  `spec_budget_suffices` (with the budget `specFuel reg` neither `chainOf` nor `specResolve` ever answers
  `noClaim "fuel"` for a type statement of the loaded set — no hypothesis on the set: a chain either
  ends within the number of loaded `type` statements or comes back to a statement in progress, the
  cyclic verdict `error`), `spec_noClaim_reason` (a `noClaim w` gives one of six reasons and names a
  `Feature` of a type statement met below the reference: ambiguous name, typedef without type,
  malformed enum values / bit positions / fraction-digits, a member type whose chain restates),
  `spec_ok_inside_claim` (an `ok` answer meets no such feature; on the way `chainOf_ok_stable`: `ok`
  answers do not depend on budget or statements in progress), `chainOf_noClaim_iff` and
  `specResolve_noClaim_iff` (exactly when no claim is made), `chainOf_ok_iff` (`ok` iff `Resolvable`
  and `InsideClaim`), `chainOf_error_iff` (inside the claim: `error` iff not `Resolvable`);
* the main theorems against the executable specification, without `noClaim`:
  `resolve_verdict_inside_claim` (inside the claim the verdict is `error` — then the model reports an
  error — or `ok k ls` — then the model raises no binding-level error and an error-free result agrees
  with `inherit k ls`; no third case), `resolve_complete_exec`, `resolve_errors_iff_exec` (restatements
  of `resolve_complete` / `resolve_errors_iff` for `resolveType reg` under `linkOk`, `WfReg`, `InPlace`,
  `PartOfSchema`, `InsideClaim`);
* one side condition tied to its sub-model's specification: `resolve_enum_rfc`, `resolve_bits_rfc`
  (the enum / bit table of an error-free resolution holds exactly the values `Spec.Enum.assign` /
  `table` of RFC 7950 sections 9.6.4.2 / 9.7.4.2 give the written members, through C14's `text_fold`;
  Lemmas/TypesEnumRfc.lean), `resolve_fd_rfc` (the fraction-digits of an error-free resolution are the
  written integer, which lies in 1 … 18, through C15's `asRangeInt_exact`; Lemmas/TypesFdRfc.lean).
* the executable specification's own reading of enum values / bit positions tied to the RFC assignment
  of property C14: `assignValues_table` (an answer of `assignValues` is `Spec.Enum.table` of the members
  read as integers, names pairwise different, values in range), `assignValues_eq_assign_bits` (it IS
  `Spec.Enum.assign .bits`), `assignValues_eq_assign_enum` (it is `Spec.Enum.assign .enumeration` up to
  the uniqueness of values, which the executable specification checks in `chainInClaim`)
  (Lemmas/TypesAssignDefs.lean, TypesAssign.lean);
* full agreement: `AgreesWithFull` (= `AgreesWith` + enum table + bit table + fraction-digits) and
  `resolve_verdict_inside_claim_full` (+ `resolve_complete_exec_full`): inside the claim an error-free resolution agrees with
  `inherit k ls` in every attribute, nearest definition winning along the chain — for chains whose
  integer arguments (`value`, `position`, `fraction-digits`) are canonically written (`CanonArgs` /
  `CanonInt`: optional `-`, decimal digits, no superfluous leading zero; Lemmas/TypesStrBridge.lean ties
  core Lean's `String.toNat!` / `toNat?` / `toUTF8` to the literals of C14 / C15, Lemmas/TypesAssignFold.lean
  and TypesAgreeFull.lean do the rest); `canonArgs_of_canonReg`: it suffices that every such argument of the
  loaded set is canonically written (`CanonReg`).  The hypothesis cannot be dropped:
  `Ex.noncanonical_value_disagrees` (`value 010` is 8 for the model and for Go — `ParseInt` with base 0 —
  and 10 for `parseIntLit`; replayed on the Go code);
* `linkOk` / `PartOfSchema` against the Bool checks of the executable specification, for registries
  produced by loading (`Goyang.Lemmas.Bridge.TablesOK`; `loaded_tables_ok`, `loaded_texts_tables_ok`):
  `modules_entries_nonsub` (the registry invariant: entries of `ms.Modules` are loaded non-submodules),
  `partOfSchema_of_PartOfSchema`, `linkOk_resolved` (after an error-free `Process` every include / import
  of every part of a schema names a loaded (sub)module), `wellLinked_of_linkOk` (when every loaded
  (sub)module is part of a schema), `wellLinked_iff_of_linkOk` (in general: exactly up to the dangling
  includes / imports of (sub)modules that belong to no schema), `wellLinked_of_linkOk_fails` (the
  unrestricted implication is FALSE: a submodule nobody includes with an unresolved import — `Process`
  reports nothing, replayed on the Go code), and `specResolve_noClaim_iff_loaded`
  (`specResolve_noClaim_iff` without the cases `wellLinked` / `partOfSchema` and without `SeqId`)
  (Lemmas/TypesPartOf.lean, TypesWellLinked.lean);
* the range / length side condition tied to property C10's specification: `resolve_range_denotes` (the
  range of an error-free resolution of a numeric type is reached from the built-in range of its kind by
  the `range` statements of the chain, each an accepted step `Goyang.Props.C10.StepOk`: denotes exactly
  the written set relative to the one before it, sorted / disjoint / coalesced, within it),
  `resolve_range_within_base`, `resolve_length_denotes` (Lemmas/TypesRangeRfc.lean).
Not proved / outside: the identityref side condition of `typeOk` is stated with the sub-model's function
(`Identity.findIdentityBase`), whose own specification is the subject of C11; for a reference outside the
claim (`¬ InsideClaim`: one of the six features is met below it, exactly the `noClaim` answers) the
executable specification claims nothing — the relational theorems (`resolve_errors_iff` …) still
apply wherever `UnambiguousBelow` holds; `AgreesWithFull` is proved for canonically written integer
arguments only (outside that form the two readings genuinely differ, see above) and does not compare
union members (`resolve_members` / `spec_exec_members` speak about them separately); the kernel cannot evaluate `String.toNat!`, so the
non-vacuity examples with explicit `value` / `fraction-digits` arguments (`Ex.inside_tyR`, `Ex.inside_tyF`) go
through `insideClaim_builtin` and the evaluation lemmas of Lemmas/TypesStrBridge.lean instead of one kernel
evaluation of `chainOf`;
a reference in a submodule nobody includes is outside the claim (`PartOfSchema`), as in the executable
specification.
Helper lemmas: Goyang/Lemmas/Types*.lean.
-/
namespace Goyang.Props.C09
open Goyang.Model hiding Env
open Goyang.Model.Types Goyang.Spec.Types Goyang.Lemmas.Types
open Goyang.Lemmas.TypesDefs Goyang.Lemmas.TypesComplete Goyang.Lemmas.TypesRestr Goyang.Lemmas.TypesAdm
open Goyang.Lemmas.TypesSpecBind Goyang.Lemmas.TypesSpecChain Goyang.Lemmas.TypesSpecErr
open Goyang.Lemmas.TypesWf Goyang.Lemmas.TypesWfMain
open Goyang.Lemmas.TypesSpecFuel Goyang.Lemmas.TypesSpecClaim

/-- **Lexical binding.**  Whatever typedef the resolver picks for a type statement `t` is the one the
name denotes: for an unprefixed or own-prefixed name the typedef of the nearest enclosing scope
that declares it, else a top-level typedef of the module `t` stands in, of the module that belongs
to, or of their submodules; for a foreign prefix a top-level typedef of exactly the module imported
under that prefix or of its submodules.  (`t` is a `type` statement: it declares no typedefs.) -/
theorem resolve_binds (env : Env) (root : Mod) (scope : List Stmt) (t : Stmt)
    (ht : scopeKinds.contains t.kw = false) (src : Source) (r : TdRef)
    (h : lookup env root scope t = .typedef src r) :
    Binds env.reg root scope t.arg r.root r.td r.scope := by
  unfold lookup at h
  split at h
  · cases h
  · rename_i hb
    have hnb := builtin_none hb
    simp only at h
    split at h
    · -- unprefixed or own prefix
      rename_i hloc
      have hlocal : isLocalRef root t.arg = true := by
        unfold isLocalRef
        rw [Bool.or_eq_true] at hloc ⊢
        cases hloc with
        | inl h1 => exact Or.inl h1
        | inr h2 => exact Or.inr (by rw [beq_iff_eq] at h2 ⊢; exact h2.symm)
      split at h
      · rename_i r' hfs
        simp only [Bound.typedef.injEq] at h
        obtain ⟨_, hr⟩ := h
        subst hr
        obtain ⟨pre, n, up, hsc, hpre, htd, hroot, hscope⟩ := findInScope_some hfs
        cases pre with
        | nil =>
          simp only [List.nil_append, List.cons.injEq] at hsc
          obtain ⟨htn, _⟩ := hsc
          subst htn
          rw [declared_of_not_scope ht] at htd
          cases htd
        | cons t' pre' =>
          simp only [List.cons_append, List.cons.injEq] at hsc
          obtain ⟨_, hsc⟩ := hsc
          rw [hroot, hscope]
          exact Binds.lexical pre' n up _ hnb hlocal hsc
            (fun x hx => hpre x (List.mem_cons_of_mem _ hx)) htd
      · rename_i hfs
        split at h
        · rename_i r' hfl
          simp only [Bound.typedef.injEq] at h
          obtain ⟨_, hr⟩ := h
          subst hr
          obtain ⟨hunit, htd, hscope⟩ := findLocalModules_sound env root _ _ hfl
          rw [hscope]
          exact Binds.moduleLevel _ _ hnb hlocal
            (fun x hx => findInScope_none hfs x (List.mem_cons_of_mem _ hx)) hunit htd
        · cases h
        · cases h
    · -- foreign prefix
      rename_i hloc
      have hl1 : ((splitPrefix t.arg).1 == "") = false := by
        cases hq : ((splitPrefix t.arg).1 == "") with
        | false => rfl
        | true => rw [hq] at hloc; simp at hloc
      have hl2 : ((splitPrefix t.arg).1 == root.getPrefix) = false := by
        cases hq : ((splitPrefix t.arg).1 == root.getPrefix) with
        | false => rfl
        | true =>
          rw [beq_iff_eq] at hq
          rw [hq] at hloc
          simp at hloc
      have hforeign : isLocalRef root t.arg = false := by
        unfold isLocalRef; rw [hl1, hl2]; rfl
      split at h
      · cases h
      · rename_i ext hext
        split at h
        · rename_i r' hfm
          simp only [Bound.typedef.injEq] at h
          obtain ⟨_, hr⟩ := h
          subst hr
          obtain ⟨hstar, htd, hscope⟩ := findInModule_sound' env _ _ _ _ _ hfm
          rw [hscope]
          unfold Registry.findModuleByPrefix at hext
          rw [hl1, hl2] at hext
          simp only [Bool.or_self, Bool.false_eq_true, if_false] at hext
          split at hext
          · rename_i i hi
            have himp : i ∈ root.imports := List.mem_of_find?_eq_some hi
            have hpfx := List.find?_some hi
            simp only [beq_iff_eq] at hpfx
            exact Binds.foreign i ext _ _ hnb hforeign himp hpfx hext hstar htd
          · cases hext
        · cases h
        · cases h

/-- **Unknown, unresolvable or cyclic references are errors.**  If `Type.resolve` returns no error
for a type statement, then the statement has a finite derivation in the sense of the
specification: every name on the way (the statement's own, those of the typedefs it is derived
from, those of all union member types, recursively) binds as `Binds` says, down to built-in types.
Contrapositive: a reference to a name or prefix that binds to nothing, a typedef whose own type
cannot be resolved, and a definition in terms of itself (no finite derivation exists) are all
reported.  Holds for every fuel and every set of types in progress (running out of fuel is
reported as an error as well). -/
theorem resolve_errors (env : Env) :
    ∀ (fuel : Nat) (root : Mod) (scope : List Stmt) (t : Stmt) (stack : List TypeKey),
      scopeKinds.contains t.kw = false →
      (resolveTypeF env fuel root scope t stack).errs = [] → Resolvable env.reg root scope t := by
  intro fuel
  induction fuel with
  | zero => intro root scope t stack _ h; simp [resolveTypeF] at h
  | succ fuel ih =>
    intro root scope t stack ht h
    unfold resolveTypeF at h
    simp only at h
    split at h
    · simp at h
    · -- the member types, once the overlay is known to be error-free
      have hmem : ∀ {src : Source} {tdY : YType},
          (overlayType env root t src tdY
            ((t.all "type").map fun ut => resolveTypeF env fuel root (t :: scope) ut (typeKey root t :: stack))).errs = [] →
          ∀ ut ∈ t.all "type", Resolvable env.reg root (t :: scope) ut := by
        intro src tdY ho ut hut
        have := overlayType_errs_nil ho _ (List.mem_map_of_mem (f := fun ut =>
          resolveTypeF env fuel root (t :: scope) ut (typeKey root t :: stack)) hut)
        exact ih root (t :: scope) ut _ (type_not_scope (kw_of_all hut)) this
      split at h
      · simp at h
      · rename_i y hl
        have hb : builtinNames.contains t.arg = true := by
          unfold lookup at hl
          split at hl
          · rename_i y' hy; exact builtin_some hy
          · simp only at hl
            split at hl
            · split at hl
              · cases hl
              · split at hl <;> cases hl
            · split at hl
              · cases hl
              · split at hl <;> cases hl
        exact Resolvable.builtin hb (hmem h)
      · rename_i src r hl
        split at h
        · simp at h
        · rename_i tt htt
          split at h
          · -- the typedef's own type has errors: they are returned
            rename_i hbase
            simp only at h
            rw [h] at hbase
            simp at hbase
          · rename_i hbase
            have hbase' : (resolveTypeF env fuel r.root (r.td :: r.scope) tt (typeKey root t :: stack)).errs = [] := by
              simpa using hbase
            split at h
            · simp at h
            · split at h
              · rename_i hne
                simp only at h
                rw [h] at hne
                simp at hne
              · split at h
                · simp at h
                · exact Resolvable.derived r.root r.td r.scope tt
                    (resolve_binds env root scope t ht src r hl) htt
                    (ih r.root (r.td :: r.scope) tt _ (type_not_scope (kw_of_one htt)) hbase')
                    (hmem h)

/-- Reading `resolve_errors` the other way round, case by case: a name that binds to nothing
(unknown name, unknown prefix, a typedef that is not visible from the reference) is an error. -/
theorem unknown_is_error (env : Env) (fuel : Nat) (root : Mod) (scope : List Stmt) (t : Stmt) (stack : List TypeKey)
    (ht : scopeKinds.contains t.kw = false) (hb : builtinNames.contains t.arg = false)
    (hunbound : ∀ m td sc, ¬ Binds env.reg root scope t.arg m td sc) :
    (resolveTypeF env fuel root scope t stack).errs ≠ [] := by
  intro h
  cases resolve_errors env fuel root scope t stack ht h with
  | builtin hb' _ => rw [hb] at hb'; cases hb'
  | derived m td sc tt hbind _ _ _ => exact hunbound m td sc hbind

/-- … a typedef whose own type statement, or a union one of whose member types, cannot be resolved
is an error (errors are handed up the derivation). -/
theorem unresolvable_is_error (env : Env) (fuel : Nat) (root : Mod) (scope : List Stmt) (t : Stmt) (stack : List TypeKey)
    (ht : scopeKinds.contains t.kw = false) (h : ¬ Resolvable env.reg root scope t) :
    (resolveTypeF env fuel root scope t stack).errs ≠ [] :=
  fun he => h (resolve_errors env fuel root scope t stack ht he)

/-- … and so is a type statement that is defined in terms of itself or depends on one that is
(`Cyclic`: a chain of "names the typedef whose type is" / "has the member type" steps that comes
back to where it started), in every schema in which no name denotes two typedefs.
SUPERSEDED by `cyclic_is_error_below`: the hypothesis `Unambiguous env.reg` holds of no registry
(`unambiguous_false` below), so this statement is vacuous; it is kept unchanged for the record. -/
theorem cyclic_is_error (env : Env) (hU : Unambiguous env.reg) (fuel : Nat) (root : Mod) (scope : List Stmt) (t : Stmt)
    (stack : List TypeKey) (ht : scopeKinds.contains t.kw = false) (hc : Cyclic env.reg (root, scope, t)) :
    (resolveTypeF env fuel root scope t stack).errs ≠ [] :=
  fun he => resolvable_not_cyclic hU (resolve_errors env fuel root scope t stack ht he) hc

/-- What a resolved type `y` shows of a derivation chain (nearest first) ending in the built-in
`kind`: the base kind; units and default of the nearest typedef that states them; the path of the
nearest type statement that states one; exactly the patterns of all type statements of the chain;
the enum (bit) table the resolve loop builds from the members of the nearest type statement that
lists any (which values that table holds is property C14); the fraction-digits of the nearest type
statement that states them (read by `asRangeInt(1, 18)`, property C15). -/
def Inherits (y : YType) (kind : String) (chain : List Link) : Prop :=
  y.kind = kind ∧
  y.units = (chainUnits chain).getD "" ∧
  y.hasDefault = (chainDefault chain).isSome ∧ y.default = (chainDefault chain).getD "" ∧
  y.path = (chainPath chain).getD "" ∧
  (∀ p, p ∈ y.pattern ↔ p ∈ chainPatterns chain) ∧
  y.enum = (chainEnums chain).map (fun es => (enumFold newEnum "value" es).1) ∧
  y.bit = (chainBits chain).map (fun bs => (enumFold newBits "position" bs).1) ∧
  y.fractionDigits = ((chainFractionDigits chain).map parseFd).getD 0

/-- The union members a resolved type `y` shows of a derivation chain: every member is the
error-free resolution of a member type statement of one of the chain's type statements, and every
such statement resolved error-free to a type that is in the list or was left out because a type
that is `Equal` to it is (Go de-duplicates union members by `YangType.Equal`). -/
def MembersOf (env : Env) (y : YType) (chain : List Link) : Prop :=
  (∀ m ∈ y.members, ∃ lroot lscope lt ut fuel' stack', Link.ty lroot lscope lt ∈ chain ∧ ut ∈ lt.all "type" ∧
      resolveTypeF env fuel' lroot (lt :: lscope) ut stack' = { ty := some m, errs := [] }) ∧
  (∀ lroot lscope lt, Link.ty lroot lscope lt ∈ chain → ∀ ut ∈ lt.all "type", ∃ fuel' stack' m,
      resolveTypeF env fuel' lroot (lt :: lscope) ut stack' = { ty := some m, errs := [] } ∧
      ∃ m' ∈ y.members, m' = m ∨ m.equal m' = true)

set_option linter.unusedSimpArgs false in
/-- The induction behind `resolve_inherits` and `resolve_members`. -/
theorem resolve_chain (env : Env) :
    ∀ (fuel : Nat) (root : Mod) (scope : List Stmt) (t : Stmt) (stack : List TypeKey) (y : YType),
      scopeKinds.contains t.kw = false →
      resolveTypeF env fuel root scope t stack = { ty := some y, errs := [] } →
      ∃ kind chain, DerivesFrom env.reg root scope t kind chain ∧ Inherits y kind chain ∧ MembersOf env y chain := by
  intro fuel
  induction fuel with
  | zero => intro root scope t stack y _ h; simp [resolveTypeF] at h
  | succ fuel ih =>
    intro root scope t stack y ht h
    unfold resolveTypeF at h
    simp only at h
    split at h
    · simp at h
    · split at h
      · simp at h
      · -- a built-in type
        rename_i y0 hl
        have hb0 : builtin? t.arg = some y0 := by
          unfold lookup at hl
          split at hl
          · rename_i y' hy; simp only [Bound.builtin.injEq] at hl; rw [← hl]; exact hy
          · simp only at hl
            split at hl
            · split at hl
              · cases hl
              · split at hl <;> cases hl
            · split at hl
              · cases hl
              · split at hl <;> cases hl
        obtain ⟨_, hkind, _, hu, hhd, hd, hp, hpat, hen, hbi, hmem0, hfd⟩ := builtin_shape hb0
        obtain ⟨a1, a2, a3, a4, a5, a6, a7, a8, a9, _⟩ := overlay_attrs h
        obtain ⟨m1, m2, _⟩ := level_members h
        refine ⟨t.arg, [.ty root scope t], DerivesFrom.builtin (builtin_some hb0), ?_, ?_⟩
        · refine ⟨by rw [a1, hkind], ?_, ?_, ?_, ?_, ?_, ?_, ?_, ?_⟩
          · rw [a2, hu]; simp [chainUnits]
          · rw [a3, hhd]; simp [chainDefault]
          · rw [a4, hd]; simp [chainDefault]
          · rw [a5, hp]; simp [chainPath]
          · intro p
            rw [a6, mem_appendNew, hpat]
            simp [chainPatterns]
          · rw [a7, hen]
            simp only [chainEnums, List.findSome?_cons, List.findSome?_nil]
            split <;> rename_i he <;> simp [he]
          · rw [a8, hbi]
            simp only [chainBits, List.findSome?_cons, List.findSome?_nil]
            split <;> rename_i he <;> simp [he]
          · rw [a9, hfd]
            simp only [chainFractionDigits, List.findSome?_cons, List.findSome?_nil]
            cases t.one? "fraction-digits" <;> simp
        · constructor
          · intro m hm
            rcases m1 m hm with h0 | ⟨ut, hut, hres⟩
            · rw [hmem0] at h0; cases h0
            · exact ⟨root, scope, t, ut, fuel, _, List.mem_singleton.mpr rfl, hut, hres⟩
          · intro lroot lscope lt hlink ut hut
            rw [List.mem_singleton] at hlink
            cases hlink
            obtain ⟨m, hres, hcov⟩ := m2 ut hut
            exact ⟨fuel, _, m, hres, hcov⟩
      · -- derived from a typedef
        rename_i src r hl
        split at h
        · simp at h
        · rename_i tt htt
          split at h
          · rename_i hbase
            simp only [Res.mk.injEq] at h
            rw [h.2] at hbase
            simp at hbase
          · rename_i hbase
            split at h
            · simp at h
            · rename_i bty hbty
              have hbase' : resolveTypeF env fuel r.root (r.td :: r.scope) tt (typeKey root t :: stack)
                  = { ty := some bty, errs := [] } := by
                have he : (resolveTypeF env fuel r.root (r.td :: r.scope) tt (typeKey root t :: stack)).errs = [] := by
                  simpa using hbase
                rw [← he, ← hbty]
              split at h
              · rename_i hne
                simp only [Res.mk.injEq] at h
                rw [h.2] at hne
                simp at hne
              · rename_i htdr
                split at h
                · simp at h
                · rename_i tdY htdY
                  have htd : typedefOverlay env r.root r.td tt bty = { ty := some tdY, errs := [] } := by
                    have he : (typedefOverlay env r.root r.td tt bty).errs = [] := by simpa using htdr
                    rw [← he, ← htdY]
                  obtain ⟨kind, chain, hder, ⟨hk, hu, hhd, hd, hp, hpat, hen, hbi, hfd⟩, hmA, hmB⟩ :=
                    ih r.root (r.td :: r.scope) tt _ bty (type_not_scope (kw_of_one htt)) hbase'
                  obtain ⟨_, b2, b3, b4, b5, b6, b7, b8, b9, b10, b11⟩ := typedefOverlay_ok htd
                  obtain ⟨a1, a2, a3, a4, a5, a6, a7, a8, a9, _⟩ := overlay_attrs h
                  obtain ⟨m1, m2, m3⟩ := level_members h
                  refine ⟨kind, .ty root scope t :: .td r.td :: chain,
                    DerivesFrom.derived r.root r.td r.scope tt kind chain
                      (resolve_binds env root scope t ht src r hl) htt hder, ?_, ?_⟩
                  · refine ⟨by rw [a1, b2, hk], ?_, ?_, ?_, ?_, ?_, ?_, ?_, ?_⟩
                    · rw [a2, b3, hu]
                      simp only [chainUnits, List.findSome?_cons]
                      cases r.td.argOf? "units" <;> simp
                    · rw [a3, b4, hhd]
                      simp only [chainDefault, List.findSome?_cons]
                      cases r.td.argOf? "default" <;> simp
                    · rw [a4, b5, hd]
                      simp only [chainDefault, List.findSome?_cons]
                      cases r.td.argOf? "default" <;> simp
                    · rw [a5, b6, hp]
                      simp only [chainPath, List.findSome?_cons]
                      cases t.argOf? "path" <;> simp
                    · intro p
                      rw [a6, mem_appendNew, b7, hpat]
                      simp only [chainPatterns, List.flatMap_cons, List.mem_append, List.nil_append]
                      exact Or.comm
                    · rw [a7, b8, hen]
                      simp only [chainEnums, List.findSome?_cons]
                      split <;> rename_i he <;> simp [he]
                    · rw [a8, b9, hbi]
                      simp only [chainBits, List.findSome?_cons]
                      split <;> rename_i he <;> simp [he]
                    · rw [a9, b11, hfd]
                      simp only [chainFractionDigits, List.findSome?_cons]
                      cases t.one? "fraction-digits" <;> simp
                  · constructor
                    · intro m hm
                      rcases m1 m hm with h0 | ⟨ut, hut, hres⟩
                      · rw [b10] at h0
                        obtain ⟨lroot, lscope, lt, ut, f', s', hlink, hut, hres⟩ := hmA m h0
                        exact ⟨lroot, lscope, lt, ut, f', s',
                          List.mem_cons_of_mem _ (List.mem_cons_of_mem _ hlink), hut, hres⟩
                      · exact ⟨root, scope, t, ut, fuel, _, List.mem_cons_self, hut, hres⟩
                    · intro lroot lscope lt hlink ut hut
                      cases hlink with
                      | head =>
                        obtain ⟨m, hres, hcov⟩ := m2 ut hut
                        exact ⟨fuel, _, m, hres, hcov⟩
                      | tail _ hlink =>
                        cases hlink with
                        | tail _ hlink =>
                          obtain ⟨f', s', m, hres, m', hm', hcov⟩ := hmB lroot lscope lt hlink ut hut
                          exact ⟨f', s', m, hres, m', m3 m' (by rw [b10]; exact hm'), hcov⟩

/-- **Derived types inherit the whole chain.**  An error-free resolution of a type statement `t`
went along a derivation chain in the sense of the specification (every link binds as `Binds`
says, down to a built-in type), and the resolved type carries the chain's attributes: the base
kind, and — nearest definition winning — units, default, fraction-digits, enum / bit sets, path;
patterns accumulate (`Inherits`). -/
theorem resolve_inherits (env : Env) (fuel : Nat) (root : Mod) (scope : List Stmt) (t : Stmt)
    (stack : List TypeKey) (y : YType) (ht : scopeKinds.contains t.kw = false)
    (h : resolveTypeF env fuel root scope t stack = { ty := some y, errs := [] }) :
    ∃ kind chain, DerivesFrom env.reg root scope t kind chain ∧ Inherits y kind chain := by
  obtain ⟨kind, chain, hd, hi, _⟩ := resolve_chain env fuel root scope t stack y ht h
  exact ⟨kind, chain, hd, hi⟩

/-- **Union members** of the chain: the members the resolved type lists are exactly the resolved
member types of the chain's type statements, up to the de-duplication by `Equal`; each of them is
itself an error-free resolution, to which `resolve_inherits` and `resolve_members` apply again. -/
theorem resolve_members (env : Env) (fuel : Nat) (root : Mod) (scope : List Stmt) (t : Stmt)
    (stack : List TypeKey) (y : YType) (ht : scopeKinds.contains t.kw = false)
    (h : resolveTypeF env fuel root scope t stack = { ty := some y, errs := [] }) :
    ∃ kind chain, DerivesFrom env.reg root scope t kind chain ∧ MembersOf env y chain := by
  obtain ⟨kind, chain, hd, _, hm⟩ := resolve_chain env fuel root scope t stack y ht h
  exact ⟨kind, chain, hd, hm⟩

/-- **The recursion budget suffices.**  With the fuel `Env.of` supplies (two more than the number of
`type` statements loaded; one more than the number of loaded modules for the walk over a module
and its submodules), resolving a type statement that stands in the loaded set — `root` is a
loaded module, `t` a `type` statement of it, `scope` statements of it — never reports an exhausted
budget: the fuel arguments of the model do not cut any run short, every run ends because a
built-in type, an error or a type already in progress (a cycle) is reached. -/
theorem fuel_suffices (reg : Registry) (root : Mod) (scope : List Stmt) (t : Stmt)
    (hroot : root ∈ reg.mods) (ht : t ∈ descendants root.stmt) (hkw : t.kw = "type")
    (hscope : ∀ s ∈ scope, s ∈ descendants root.stmt) :
    ∀ e ∈ (resolveType reg root scope t).2, e.cls ≠ "out-of-fuel" := by
  have hreg : (Env.of reg).reg = reg := rfl
  have hfuel : (Env.of reg).fuel = (allTypeKeys reg).length + 2 := rfl
  unfold resolveType resolveTypeE
  simp only
  apply Goyang.Lemmas.TypesFuel.resolve_noOof (Env.of reg) (Env.of reg).fuel root scope t []
  · exact ⟨by rw [hreg]; exact hroot, ht, hscope⟩
  · exact hkw
  · exact List.nodup_nil
  · intro k hk; cases hk
  · rw [hreg, hfuel]; simp

/-! ## The hypothesis `Unambiguous` is unsatisfiable; its replacement

`Spec.Types.Unambiguous reg` asks that no name denote two typedefs at *any* conceivable site, made-up
enclosing statements included, and `Binds.lexical` accepts any scope list: a made-up container with
two `typedef x` refutes it for every registry.  `cyclic_is_error` above is therefore vacuous; it is
kept as it was and superseded by `cyclic_is_error_below`, whose hypothesis
(`UnambiguousBelow reg site`: only the sites met while resolving the reference) is satisfiable
(examples at the end of the file). -/

/-- `Unambiguous` holds of no registry. -/
theorem unambiguous_false (reg : Registry) : ¬ Unambiguous reg := by
  intro h
  let td1 : Stmt := Stmt.mk "typedef" true "x" "f" 2 1 []
  let td2 : Stmt := Stmt.mk "typedef" true "x" "f" 3 1 []
  let n : Stmt := Stmt.mk "container" true "c" "f" 1 1 [td1, td2]
  let r : Mod := ⟨0, Stmt.mk "module" true "m" "f" 1 1 []⟩
  have hd : declared n (baseName "x") = [td1, td2] := by rfl
  have h1 : Binds reg r [n] "x" r td1 [n] :=
    Binds.lexical [] n [] td1 (by decide) (by decide) rfl (by intro x hx; cases hx) (by rw [hd]; simp)
  have h2 : Binds reg r [n] "x" r td2 [n] :=
    Binds.lexical [] n [] td2 (by decide) (by decide) rfl (by intro x hx; cases hx) (by rw [hd]; simp)
  have := (h _ _ _ _ _ _ _ _ _ h1 h2).2.1
  simp [td1, td2] at this

/-- **A cyclic definition is an error** (supersedes `cyclic_is_error`): a type statement that is
defined in terms of itself or depends on one that is, is reported, whenever no name met while
resolving it denotes two typedefs. -/
theorem cyclic_is_error_below (env : Env) (fuel : Nat) (root : Mod) (scope : List Stmt) (t : Stmt)
    (hU : UnambiguousBelow env.reg (root, scope, t))
    (stack : List TypeKey) (ht : scopeKinds.contains t.kw = false) (hc : Cyclic env.reg (root, scope, t)) :
    (resolveTypeF env fuel root scope t stack).errs ≠ [] :=
  fun he => resolvable_not_cyclic' hU (resolve_errors env fuel root scope t stack ht he) hc

/-! ## The executable specification and the relational one agree

The runner judges every Go result by the executable rendering (`bindType`, `chainOf`, `finish`,
`inherit`); the theorems above are stated against the relations.  These theorems tie the two. -/

/-- Whatever typedef the executable binding answers is one the name `Binds` to. -/
theorem spec_exec_binds_sound (reg : Registry) (root : Mod) (scope : List Stmt) (name : String) (m : Mod) (td : Stmt)
    (sc : List Stmt) (h : bindType reg root scope name = .typedef m td sc) : Binds reg root scope name m td sc :=
  bindType_sound reg root scope name m td sc h

/-- **Binding.**  Where the executable binding makes a claim (it does not answer `ambiguous`: more than
one candidate), it answers the typedef `d` iff the name `Binds` to `d`. -/
theorem spec_exec_binds_iff (reg : Registry) (hid : SeqId reg) (root : Mod) (hroot : root ∈ reg.mods)
    (scope : List Stmt) (name : String) (hna : bindType reg root scope name ≠ .ambiguous)
    (m : Mod) (td : Stmt) (sc : List Stmt) :
    bindType reg root scope name = .typedef m td sc ↔ Binds reg root scope name m td sc := by
  constructor
  · exact bindType_sound reg root scope name m td sc
  · intro h
    rcases bindType_complete reg hid root hroot scope name m td sc h with h1 | h1
    · exact h1
    · exact absurd h1 hna

/-- … and it answers `unbound` only for a name that binds to nothing. -/
theorem spec_exec_unbound (reg : Registry) (hid : SeqId reg) (root : Mod) (hroot : root ∈ reg.mods)
    (scope : List Stmt) (name : String) (h : bindType reg root scope name = .unbound) (m : Mod) (td : Stmt) (sc : List Stmt) :
    ¬ Binds reg root scope name m td sc := by
  intro hb
  rcases bindType_complete reg hid root hroot scope name m td sc hb with h1 | h1 <;> rw [h] at h1 <;> cases h1

/-- **Derivation chain.**  When `chainOf` answers `ok kind layers`, the type statement has a
derivation chain in the sense of `DerivesFrom` ending in the built-in `kind`, and the layers are
what the statements of that chain say, link by link (`LayerOf`). -/
theorem spec_exec_chain (reg : Registry) (fuel : Nat) (root : Mod) (scope : List Stmt) (t : Stmt) (vis : List Key)
    (k : String) (ls : List Layer) (h : chainOf reg fuel root scope t vis = .ok k ls) :
    ∃ chain, DerivesFrom reg root scope t k chain ∧ List.Forall₂ (LayerOf reg) chain ls :=
  chainOf_sound reg (bindType_sound reg) fuel root scope t vis k ls h

/-- … that chain is the only one, when no name met on the way denotes two typedefs. -/
theorem spec_exec_chain_unique (reg : Registry) :
    ∀ (root : Mod) (scope : List Stmt) (t : Stmt) (k k' : String) (c c' : List Link),
      UnambiguousBelow reg (root, scope, t) →
      DerivesFrom reg root scope t k c → DerivesFrom reg root scope t k' c' → k = k' ∧ c = c' := by
  intro root scope t k k' c c' hU h
  induction h generalizing k' c' with
  | builtin hb =>
    intro h'
    cases h' with
    | builtin _ => exact ⟨rfl, rfl⟩
    | derived m td sc tt kind chain hbind _ _ => rw [Goyang.Lemmas.Types.binds_not_builtin hbind] at hb; cases hb
  | derived m td sc tt kind chain hbind htt hd ih =>
    intro h'
    cases h' with
    | builtin hb => rw [Goyang.Lemmas.Types.binds_not_builtin hbind] at hb; cases hb
    | derived m' td' sc' tt' kind' chain' hbind' htt' hd' =>
      obtain ⟨e1, e2, e3⟩ := hU _ (UsesStar.refl _) _ _ _ _ _ _ hbind hbind'
      subst e1 e2 e3
      rw [htt] at htt'
      cases htt'
      obtain ⟨hk, hc⟩ := ih _ _ (hU.step (UsesStar.tail (UsesStar.refl _) (Uses.base m td sc tt hbind htt))) hd'
      subst hk hc
      exact ⟨rfl, rfl⟩

/-- **Inheritance.**  `inherit` over the layers of a chain computes the relational chain functions:
base kind; units, default, path, fraction-digits, enum / bit members of the nearest statement that
states them; all patterns. -/
theorem spec_exec_inherits (reg : Registry) (chain : List Link) (ls : List Layer)
    (h : List.Forall₂ (LayerOf reg) chain ls) (k : String) :
    (inherit k ls).kind = k ∧
    (inherit k ls).units = (chainUnits chain).getD "" ∧
    (inherit k ls).default = chainDefault chain ∧
    (inherit k ls).path = (chainPath chain).getD "" ∧
    (inherit k ls).patterns = chainPatterns chain ∧
    (inherit k ls).enum = (chainEnums chain).bind (assignValues "value" (-2147483648) 2147483647) ∧
    (inherit k ls).bit = (chainBits chain).bind (assignValues "position" 0 4294967295) ∧
    (inherit k ls).fd = ((chainFractionDigits chain).bind (fun f => f.arg.toNat?)).getD 0 :=
  inherit_eq h k

/-- **Union members.**  The members `inherit` reports are the accepted member types of the nearest
type statement of the chain that has member types (none if there is none). -/
theorem spec_exec_members (reg : Registry) (chain : List Link) (ls : List Layer)
    (h : List.Forall₂ (LayerOf reg) chain ls) (k : String) :
    ((∀ r s t, Link.ty r s t ∈ chain → t.all "type" = []) ∧ (inherit k ls).members = []) ∨
    (∃ pre r s t post, chain = pre ++ Link.ty r s t :: post ∧ (∀ r' s' t', Link.ty r' s' t' ∈ pre → t'.all "type" = []) ∧
        t.all "type" ≠ [] ∧ ∃ fuel vis, List.Forall₂
          (fun ut st => finish (chainOf reg fuel r (t :: s) ut vis) = .ok st) (t.all "type") (inherit k ls).members) :=
  inherit_members h k

/-- **Acceptance.**  What the executable specification accepts (`finish (chainOf …) = ok st`) is
`Resolvable`, and `st` carries the attributes of its derivation chain. -/
theorem spec_exec_accepts (reg : Registry) (fuel : Nat) (root : Mod) (scope : List Stmt) (t : Stmt) (vis : List Key)
    (st : SType) (h : finish (chainOf reg fuel root scope t vis) = .ok st) :
    Resolvable reg root scope t ∧
    ∃ chain, DerivesFrom reg root scope t st.kind chain ∧
      st.units = (chainUnits chain).getD "" ∧ st.default = chainDefault chain ∧
      st.path = (chainPath chain).getD "" ∧ st.patterns = chainPatterns chain ∧
      st.enum = (chainEnums chain).bind (assignValues "value" (-2147483648) 2147483647) ∧
      st.bit = (chainBits chain).bind (assignValues "position" 0 4294967295) ∧
      st.fd = ((chainFractionDigits chain).bind (fun f => f.arg.toNat?)).getD 0 :=
  finish_chainOf_sound reg (bindType_sound reg) fuel root scope t vis st h

/-- **Rejection.**  The executable specification answers `error` (the verdict "an error is required")
only for a type statement without a finite derivation: an unknown name or prefix, or a cyclic
definition, somewhere below it.  (Hypotheses: sequence numbers identify the loaded modules; no name
met on the way denotes two typedefs; type statements are identified by their position.) -/
theorem spec_exec_error (reg : Registry) (hid : SeqId reg) (fuel : Nat) (root : Mod) (scope : List Stmt) (t : Stmt)
    (hroot : root ∈ reg.mods) (hU : UnambiguousBelow reg (root, scope, t)) (hK : KeysIdentify reg (root, scope, t))
    (h : chainOf reg fuel root scope t [] = .error) : ¬ Resolvable reg root scope t := by
  intro hres
  exact chainOf_not_error reg hid (root, scope, t) hU hK fuel root scope t [] hroot hres (UsesStar.refl _)
    (fun k hk => by cases hk) h

/-! ## Completeness: what the specification accepts is resolved without error -/

/-- **Unknown and cyclic names are the only binding-level error sources.**  For a type statement
with a finite derivation (`Resolvable`: every name on the way binds, no cycle) standing in the
loaded set, `Type.resolve` raises no binding-level error — no unknown type, no unknown prefix, no
cycle, no exhausted budget, none of the model's "cannot happen" records: every error it returns is
a restriction error (range, length, enum, fraction-digits, identity base, pattern, …).
Standing hypotheses (`Standing`): sequence numbers identify the loaded modules, every include of
every part of a schema is linked, import prefixes are distinct, no name met on the way denotes two typedefs, type statements
are identified by their position. -/
theorem resolve_complete_binding (env : Env) (root : Mod) (scope : List Stmt) (t : Stmt)
    (hS : Standing env (root, scope, t))
    (hroot : root ∈ env.reg.mods) (hsch : PartOfSchema env.reg root) (ht : t ∈ descendants root.stmt) (hkw : t.kw = "type")
    (hscope : ∀ s ∈ scope, s ∈ descendants root.stmt)
    (hres : Resolvable env.reg root scope t) (fuel : Nat) (hfuel : (allTypeKeys env.reg).length + 1 ≤ fuel) :
    ∀ e ∈ (resolveTypeF env fuel root scope t []).errs, ¬ BindErr e ∧ e.cls ≠ "out-of-fuel" :=
  resolve_noBind env (root, scope, t) hS fuel root scope t [] ⟨hroot, ht, hscope⟩ hsch hkw hres (UsesStar.refl _)
    (fun k hk => by cases hk) List.nodup_nil (fun k hk => by cases hk) (by simpa using hfuel)

/-- **Completeness.**  A type statement the specification accepts (`Admissible`: a finite derivation
along which every restriction passes its decidable side condition `typeOk` / `typedefOk`) is
resolved without any error, to a type whose kind, fraction-digits, range and length are the ones
the specification computes. -/
theorem resolve_complete (env : Env) (root : Mod) (scope : List Stmt) (t : Stmt) (a : Attrs)
    (hS : Standing env (root, scope, t))
    (hroot : root ∈ env.reg.mods) (hsch : PartOfSchema env.reg root) (ht : t ∈ descendants root.stmt) (hkw : t.kw = "type")
    (hscope : ∀ s ∈ scope, s ∈ descendants root.stmt)
    (hadm : Admissible env root scope t a) (fuel : Nat) (hfuel : (allTypeKeys env.reg).length + 1 ≤ fuel) :
    ∃ y, resolveTypeF env fuel root scope t [] = { ty := some y, errs := [] } ∧ attrsOf y = a :=
  resolve_admissible env (root, scope, t) hS fuel root scope t [] a ⟨hroot, ht, hscope⟩ hsch hkw hadm (UsesStar.refl _)
    (fun k hk => by cases hk) List.nodup_nil (fun k hk => by cases hk) (by simpa using hfuel)

/-- The converse (soundness of acceptance, no hypotheses on the loaded set): an error-free
resolution is of a type statement the specification accepts. -/
theorem resolve_accepts (env : Env) (fuel : Nat) (root : Mod) (scope : List Stmt) (t : Stmt) (stack : List TypeKey)
    (ht : scopeKinds.contains t.kw = false) (h : (resolveTypeF env fuel root scope t stack).errs = []) :
    ∃ a, Admissible env root scope t a := by
  obtain ⟨y, hy⟩ := resolve_ty_some env fuel root scope t stack h
  exact ⟨attrsOf y, resolve_ok_admissible env fuel root scope t stack y ht hy⟩

/-- **The model reports an error iff the specification rejects.** -/
theorem resolve_errors_iff (env : Env) (root : Mod) (scope : List Stmt) (t : Stmt)
    (hS : Standing env (root, scope, t))
    (hroot : root ∈ env.reg.mods) (hsch : PartOfSchema env.reg root) (ht : t ∈ descendants root.stmt) (hkw : t.kw = "type")
    (hscope : ∀ s ∈ scope, s ∈ descendants root.stmt) (fuel : Nat) (hfuel : (allTypeKeys env.reg).length + 1 ≤ fuel) :
    (resolveTypeF env fuel root scope t []).errs ≠ [] ↔ ¬ ∃ a, Admissible env root scope t a := by
  constructor
  · rintro hne ⟨a, hadm⟩
    obtain ⟨y, hy, _⟩ := resolve_complete env root scope t a hS hroot hsch ht hkw hscope hadm fuel hfuel
    rw [hy] at hne
    exact hne rfl
  · intro hno he
    exact hno (resolve_accepts env fuel root scope t [] (type_not_scope hkw) he)

/-- The link state `Env.of reg` works with has every include statement of every part of a schema
linked, whenever `Modules.Process` linked all includes and imports without error (`linkOk reg`, which
the driver checks before it answers): the standing hypothesis `Linked` holds of the environment the
correspondence run uses. -/
theorem env_of_linked (reg : Registry) (hok : linkOk reg = true) : Linked (Env.of reg) :=
  Goyang.Lemmas.TypesLinked.linked_envOf reg hok

/-- **Completeness for a loaded set**, in terms of `resolveType reg` (what the driver computes): if
`Process` linked everything, sequence numbers and import prefixes are distinct, no name met below
the reference denotes two typedefs and type statements below it are identified by position, then a
type statement of a part of a schema that the specification accepts is resolved without error. -/
theorem resolve_complete_loaded (reg : Registry) (hok : linkOk reg = true) (hid : SeqId reg) (himp : ImportsDistinct reg)
    (root : Mod) (scope : List Stmt) (t : Stmt) (a : Attrs)
    (hU : UnambiguousBelow reg (root, scope, t)) (hK : KeysIdentify reg (root, scope, t))
    (hroot : root ∈ reg.mods) (hsch : PartOfSchema reg root) (ht : t ∈ descendants root.stmt) (hkw : t.kw = "type")
    (hscope : ∀ s ∈ scope, s ∈ descendants root.stmt)
    (hadm : Admissible (Env.of reg) root scope t a) :
    (resolveType reg root scope t).2 = [] := by
  have hS : Standing (Env.of reg) (root, scope, t) :=
    { seqId := hid, linked := env_of_linked reg hok, imports := himp, unamb := hU, keys := hK }
  obtain ⟨y, hy, _⟩ := resolve_complete (Env.of reg) root scope t a hS hroot hsch ht hkw hscope hadm
    (Env.of reg).fuel (by show (allTypeKeys reg).length + 1 ≤ (allTypeKeys reg).length + 2; omega)
  unfold resolveType resolveTypeE
  simp only
  rw [hy]

/-- **The standing hypotheses follow from decidable well-formedness.**  In a loaded set that is
well-formed (`WfReg`, decidable: sequence numbers and, per module, import prefixes pairwise
different; the statements of a module at pairwise different positions; no typedef name declared
twice in one statement, nor twice at the top level of a module and its submodules) and linked,
every reference that stands in the loaded set (`InPlace`: its module is loaded, the type statement
with its enclosing statements is a path of that module's statement tree) satisfies `Standing`: in
particular no name met below it denotes two typedefs and positions identify the type statements. -/
theorem standing_of_wellformed (env : Env) (hwf : WfReg env.reg) (hlink : Linked env) (root : Mod) (scope : List Stmt)
    (t : Stmt) (hin : InPlace env.reg (root, scope, t)) : Standing env (root, scope, t) :=
  standing_of_wf env hwf hlink (root, scope, t) hin

/-- **The model reports an error iff the specification rejects — for a loaded set**, in terms of
`resolveType reg` (what the driver computes), with decidable hypotheses on the loaded set: `Process`
linked everything (`linkOk`), the set is well-formed (`WfReg`), the reference stands in it
(`InPlace`) in a part of a schema. -/
theorem resolve_errors_iff_loaded (reg : Registry) (hok : linkOk reg = true) (hwf : WfReg reg)
    (root : Mod) (scope : List Stmt) (t : Stmt) (hin : InPlace reg (root, scope, t)) (hsch : PartOfSchema reg root)
    (hkw : t.kw = "type") :
    (resolveType reg root scope t).2 ≠ [] ↔ ¬ ∃ a, Admissible (Env.of reg) root scope t a := by
  have hS := standing_of_wellformed (Env.of reg) hwf (env_of_linked reg hok) root scope t hin
  obtain ⟨hroot, ht, hscope⟩ := inSet_of_inPlace (env := Env.of reg) hin
  have := resolve_errors_iff (Env.of reg) root scope t hS hroot hsch ht hkw hscope (Env.of reg).fuel
    (by show (allTypeKeys reg).length + 1 ≤ (allTypeKeys reg).length + 2; omega)
  unfold resolveType resolveTypeE
  simp only
  exact this

/-! ## When the executable specification makes no claim; its budget

`chainOf` answers `ok`, `error` or `noClaim why`.  The theorems of this section say exactly when the
third answer is given with the budget `specFuel reg` the runner uses: never for lack of budget, and
only for a reference below which a `Feature` (Lemmas/TypesSpecFuel.lean) is met: a name that denotes
two typedefs, a typedef without a type statement, malformed enum values / bit positions /
fraction-digits, a member type whose chain restates enum / bit members, member types or
fraction-digits.  `InsideClaim reg site` (Lemmas/TypesSpecClaim.lean): no such feature is met. -/

/-- **Why no claim.**  With the budget `specFuel reg`, for a type statement standing in the loaded set
(no other hypothesis on the set), a `noClaim w` answer of `chainOf` gives one of six reasons — never
`"fuel"` — and the reason names a feature of a type statement met while resolving the reference. -/
theorem spec_noClaim_reason (reg : Registry) (root : Mod) (scope : List Stmt) (t : Stmt)
    (hroot : root ∈ reg.mods) (ht : t ∈ descendants root.stmt) (hkw : t.kw = "type")
    (hscope : ∀ s ∈ scope, s ∈ descendants root.stmt) (w : String)
    (h : chainOf reg (specFuel reg) root scope t [] = .noClaim w) :
    w ∈ ["ambiguous", "typedef-without-type", "enum-values", "bit-positions", "fraction-digits", "restated"] ∧
    ∃ site, UsesStar reg (root, scope, t) site ∧ Feature reg site w := by
  obtain ⟨site, hs, hf⟩ := chainOf_noClaim_reason reg _ root scope t [] w hroot ht hscope hkw List.nodup_nil
    (fun k hk => by cases hk) (specFuel_ge reg) h
  exact ⟨hf.reason, site, hs, hf⟩

/-- **The budget of the executable specification suffices.**  With `specFuel reg` (two more than the
number of `type` statements loaded) neither `chainOf` nor `specResolve` ever answers `noClaim "fuel"`
for a type statement that stands in the loaded set: the type statements in progress are pairwise
different `type` statements of the loaded set, so a derivation either ends within that many steps
or comes back to a statement in progress, which is answered `error` (the cyclic verdict). -/
theorem spec_budget_suffices (reg : Registry) (root : Mod) (scope : List Stmt) (t : Stmt)
    (hroot : root ∈ reg.mods) (ht : t ∈ descendants root.stmt) (hkw : t.kw = "type")
    (hscope : ∀ s ∈ scope, s ∈ descendants root.stmt) :
    chainOf reg (specFuel reg) root scope t [] ≠ .noClaim "fuel" ∧
    specResolve reg (specFuel reg) root scope t [] ≠ .noClaim "fuel" := by
  have h1 : chainOf reg (specFuel reg) root scope t [] ≠ .noClaim "fuel" :=
    chainOf_not_fuel reg _ root scope t [] hroot ht hscope hkw List.nodup_nil (fun k hk => by cases hk) (specFuel_ge reg)
  refine ⟨h1, ?_⟩
  unfold specResolve
  split
  · intro h; injection h with h; revert h; decide
  · split
    · intro h; injection h with h; revert h; decide
    · intro h
      rcases finish_noClaim h with h | ⟨_, _, _, _, h⟩
      · exact h1 h
      · revert h; decide

/-- **An `ok` answer is inside the claim**: no feature that would have made the answer `noClaim` is
met anywhere below the reference (for every budget and every set of statements in progress). -/
theorem spec_ok_inside_claim (reg : Registry) (hid : SeqId reg) (fuel : Nat) (root : Mod) (scope : List Stmt) (t : Stmt)
    (vis : List Key) (k : String) (ls : List Layer) (hroot : root ∈ reg.mods)
    (h : chainOf reg fuel root scope t vis = .ok k ls) : InsideClaim reg (root, scope, t) :=
  chainOf_ok_no_feature reg hid fuel root scope t vis k ls hroot h

/-- **Exactly when no claim is made.**  With the budget `specFuel reg`, `chainOf` answers `noClaim`
iff it does not answer `error` and a feature outside the claim is met below the reference. -/
theorem chainOf_noClaim_iff (reg : Registry) (hid : SeqId reg) (root : Mod) (scope : List Stmt) (t : Stmt)
    (hroot : root ∈ reg.mods) (ht : t ∈ descendants root.stmt) (hkw : t.kw = "type")
    (hscope : ∀ s ∈ scope, s ∈ descendants root.stmt) :
    (∃ w, chainOf reg (specFuel reg) root scope t [] = .noClaim w) ↔
      chainOf reg (specFuel reg) root scope t [] ≠ .error ∧
      ∃ site w, UsesStar reg (root, scope, t) site ∧ Feature reg site w := by
  constructor
  · rintro ⟨w, h⟩
    refine ⟨(by rw [h]; intro h'; cases h'), ?_⟩
    obtain ⟨_, site, hs, hf⟩ := spec_noClaim_reason reg root scope t hroot ht hkw hscope w h
    exact ⟨site, w, hs, hf⟩
  · rintro ⟨hne, site, w, hs, hf⟩
    cases hc : chainOf reg (specFuel reg) root scope t [] with
    | ok k ls => exact absurd hf (spec_ok_inside_claim reg hid _ root scope t [] k ls hroot hc site w hs)
    | error => exact absurd hc hne
    | noClaim w' => exact ⟨w', rfl⟩

/-- **Exactly when `specResolve` (the verdict the runner applies) makes no claim**, with the budget
`specFuel reg`: an include or import of the loaded set is unresolved; the reference stands in a
submodule nobody includes; or the chain is not answered `error` and a feature outside the claim is
met below the reference, or the reference's own chain restates enum / bit members, member types or
fraction-digits.  Never for lack of budget (`spec_budget_suffices`). -/
theorem specResolve_noClaim_iff (reg : Registry) (hid : SeqId reg) (root : Mod) (scope : List Stmt) (t : Stmt)
    (hroot : root ∈ reg.mods) (ht : t ∈ descendants root.stmt) (hkw : t.kw = "type")
    (hscope : ∀ s ∈ scope, s ∈ descendants root.stmt) :
    (∃ w, specResolve reg (specFuel reg) root scope t [] = .noClaim w) ↔
      wellLinked reg = false ∨ partOfSchema reg root = false ∨
      (chainOf reg (specFuel reg) root scope t [] ≠ .error ∧
        ((∃ site w, UsesStar reg (root, scope, t) site ∧ Feature reg site w) ∨
         ∃ k ls, chainOf reg (specFuel reg) root scope t [] = .ok k ls ∧ chainInClaim ls = false)) := by
  unfold specResolve
  cases hwl : wellLinked reg with
  | false => simp
  | true =>
    cases hps : partOfSchema reg root with
    | false => simp
    | true =>
      simp only [Bool.not_true, Bool.false_eq_true, if_false, Bool.true_eq_false, false_or]
      constructor
      · rintro ⟨w, h⟩
        rcases finish_noClaim h with hc | ⟨k, ls, hc, hcl, _⟩
        · have := (chainOf_noClaim_iff reg hid root scope t hroot ht hkw hscope).mp ⟨w, hc⟩
          exact ⟨this.1, Or.inl this.2⟩
        · exact ⟨(by rw [hc]; intro h'; cases h'), Or.inr ⟨k, ls, hc, hcl⟩⟩
      · rintro ⟨hne, hfeat | ⟨k, ls, hc, hcl⟩⟩
        · obtain ⟨w, hc⟩ := (chainOf_noClaim_iff reg hid root scope t hroot ht hkw hscope).mpr ⟨hne, hfeat⟩
          exact ⟨w, by rw [hc]; rfl⟩
        · exact ⟨"restated", by rw [hc]; simp [finish, hcl]⟩

/-- **Exactly when the type statement is accepted**: `chainOf` answers `ok` iff the type statement has
a finite derivation and is inside the claim.  (No name met on the way denotes two typedefs; type
statements are identified by their position.) -/
theorem chainOf_ok_iff (reg : Registry) (hid : SeqId reg) (root : Mod) (scope : List Stmt) (t : Stmt)
    (hU : UnambiguousBelow reg (root, scope, t)) (hK : KeysIdentify reg (root, scope, t))
    (hroot : root ∈ reg.mods) (ht : t ∈ descendants root.stmt) (hkw : t.kw = "type")
    (hscope : ∀ s ∈ scope, s ∈ descendants root.stmt) :
    (∃ k ls, chainOf reg (specFuel reg) root scope t [] = .ok k ls) ↔
      Resolvable reg root scope t ∧ InsideClaim reg (root, scope, t) := by
  constructor
  · rintro ⟨k, ls, h⟩
    exact ⟨chainOf_resolvable reg (bindType_sound reg) _ root scope t [] k ls h,
      spec_ok_inside_claim reg hid _ root scope t [] k ls hroot h⟩
  · rintro ⟨hres, hcl⟩
    cases hc : chainOf reg (specFuel reg) root scope t [] with
    | ok k ls => exact ⟨k, ls, rfl⟩
    | error => exact absurd hres (spec_exec_error reg hid _ root scope t hroot hU hK hc)
    | noClaim w =>
      obtain ⟨_, site, hs, hf⟩ := spec_noClaim_reason reg root scope t hroot ht hkw hscope w hc
      exact absurd hf (hcl site w hs)

/-- **Exactly when an error is demanded**, inside the claim: `chainOf` answers `error` iff the type
statement has no finite derivation (an unknown name or prefix, or a cyclic definition, below it). -/
theorem chainOf_error_iff (reg : Registry) (hid : SeqId reg) (root : Mod) (scope : List Stmt) (t : Stmt)
    (hU : UnambiguousBelow reg (root, scope, t)) (hK : KeysIdentify reg (root, scope, t))
    (hroot : root ∈ reg.mods) (ht : t ∈ descendants root.stmt) (hkw : t.kw = "type")
    (hscope : ∀ s ∈ scope, s ∈ descendants root.stmt) (hcl : InsideClaim reg (root, scope, t)) :
    chainOf reg (specFuel reg) root scope t [] = .error ↔ ¬ Resolvable reg root scope t := by
  constructor
  · exact spec_exec_error reg hid _ root scope t hroot hU hK
  · intro hno
    cases hc : chainOf reg (specFuel reg) root scope t [] with
    | ok k ls => exact absurd (chainOf_resolvable reg (bindType_sound reg) _ root scope t [] k ls hc) hno
    | error => rfl
    | noClaim w =>
      obtain ⟨_, site, hs, hf⟩ := spec_noClaim_reason reg root scope t hroot ht hkw hscope w hc
      exact absurd hf (hcl site w hs)

/-! ## The main theorems against the executable specification, without `noClaim`

For a reference inside the claim the verdict of the executable specification (budget `specFuel reg`,
what the runner applies to every Go result) is `error` or `ok`, and the model does what the verdict
demands. -/

/-- What a resolved type `y` shows of the type `st` the executable specification computes: base kind,
units, default, path, and the same patterns. -/
def AgreesWith (y : YType) (st : SType) : Prop :=
  y.kind = st.kind ∧ y.units = st.units ∧ y.hasDefault = st.default.isSome ∧ y.default = st.default.getD "" ∧
  y.path = st.path ∧ ∀ p, p ∈ y.pattern ↔ p ∈ st.patterns

/-- **Verdict and model, inside the claim** (for a loaded set: `linkOk`, `WfReg`, `InPlace`,
`PartOfSchema`): either the executable specification demands an error — then the type statement has
no finite derivation and the model reports an error — or it answers `ok k ls` — then the type
statement has a finite derivation, the model raises no binding-level error, and whenever it raises no
error at all the resolved type agrees with `inherit k ls`.  There is no third case. -/
theorem resolve_verdict_inside_claim (reg : Registry) (hok : linkOk reg = true) (hwf : WfReg reg)
    (root : Mod) (scope : List Stmt) (t : Stmt) (hin : InPlace reg (root, scope, t)) (hsch : PartOfSchema reg root)
    (hkw : t.kw = "type") (hcl : InsideClaim reg (root, scope, t)) :
    (chainOf reg (specFuel reg) root scope t [] = .error ∧ ¬ Resolvable reg root scope t ∧
      (resolveType reg root scope t).2 ≠ []) ∨
    (∃ k ls, chainOf reg (specFuel reg) root scope t [] = .ok k ls ∧ Resolvable reg root scope t ∧
      (∀ e ∈ (resolveType reg root scope t).2, ¬ BindErr e ∧ e.cls ≠ "out-of-fuel") ∧
      (∀ y, resolveType reg root scope t = (some y, []) → AgreesWith y (inherit k ls))) := by
  have hS := standing_of_wellformed (Env.of reg) hwf (env_of_linked reg hok) root scope t hin
  obtain ⟨hroot, ht, hscope⟩ := inSet_of_inPlace (env := Env.of reg) hin
  have hid : SeqId reg := hS.seqId
  have hU : UnambiguousBelow reg (root, scope, t) := hS.unamb
  have hK : KeysIdentify reg (root, scope, t) := hS.keys
  have hroot' : root ∈ reg.mods := hroot
  by_cases hres : Resolvable reg root scope t
  · right
    obtain ⟨k, ls, hc⟩ := (chainOf_ok_iff reg hid root scope t hU hK hroot' ht hkw hscope).mpr ⟨hres, hcl⟩
    refine ⟨k, ls, hc, hres, ?_, ?_⟩
    · have := resolve_complete_binding (Env.of reg) root scope t hS hroot hsch ht hkw hscope hres (Env.of reg).fuel
        (by show (allTypeKeys reg).length + 1 ≤ (allTypeKeys reg).length + 2; omega)
      unfold resolveType resolveTypeE
      simp only
      exact this
    · intro y hy
      unfold resolveType resolveTypeE at hy
      simp only [Prod.mk.injEq] at hy
      have hy' := res_eq hy.1 hy.2
      obtain ⟨kind, chain, hder, ⟨i1, i2, i3, i4, i5, i6, _⟩, _⟩ :=
        resolve_chain (Env.of reg) _ root scope t [] y (type_not_scope hkw) hy'
      obtain ⟨chain', hder', hfor⟩ := spec_exec_chain reg _ root scope t [] k ls hc
      obtain ⟨rfl, rfl⟩ := spec_exec_chain_unique reg root scope t kind k chain chain' hU hder hder'
      obtain ⟨j1, j2, j3, j4, j5, _⟩ := spec_exec_inherits reg chain ls hfor kind
      refine ⟨by rw [i1, j1], by rw [i2, j2], by rw [i3, j3], by rw [i4, j3], by rw [i5, j4], ?_⟩
      intro p
      rw [i6, j5]
  · left
    refine ⟨(chainOf_error_iff reg hid root scope t hU hK hroot' ht hkw hscope hcl).mpr hres, hres, ?_⟩
    intro he
    apply hres
    unfold resolveType resolveTypeE at he
    simp only at he
    exact resolve_errors (Env.of reg) _ root scope t [] (type_not_scope hkw) he

/-- **Completeness, against the executable specification** (`resolve_complete` restated): inside the
claim, a type statement the specification accepts gets the verdict `ok` (not `noClaim`), is resolved
without error, and the resolved type agrees with what the executable specification computes. -/
theorem resolve_complete_exec (reg : Registry) (hok : linkOk reg = true) (hwf : WfReg reg)
    (root : Mod) (scope : List Stmt) (t : Stmt) (a : Attrs) (hin : InPlace reg (root, scope, t))
    (hsch : PartOfSchema reg root) (hkw : t.kw = "type") (hcl : InsideClaim reg (root, scope, t))
    (hadm : Admissible (Env.of reg) root scope t a) :
    ∃ k ls y, chainOf reg (specFuel reg) root scope t [] = .ok k ls ∧
      resolveType reg root scope t = (some y, []) ∧ attrsOf y = a ∧ AgreesWith y (inherit k ls) := by
  have hS := standing_of_wellformed (Env.of reg) hwf (env_of_linked reg hok) root scope t hin
  obtain ⟨hroot, ht, hscope⟩ := inSet_of_inPlace (env := Env.of reg) hin
  obtain ⟨y, hy, ha⟩ := resolve_complete (Env.of reg) root scope t a hS hroot hsch ht hkw hscope hadm
    (Env.of reg).fuel (by show (allTypeKeys reg).length + 1 ≤ (allTypeKeys reg).length + 2; omega)
  have hy' : resolveType reg root scope t = (some y, []) := by
    unfold resolveType resolveTypeE
    simp only
    rw [hy]
  rcases resolve_verdict_inside_claim reg hok hwf root scope t hin hsch hkw hcl with ⟨_, hno, _⟩ | ⟨k, ls, hc, _, _, hag⟩
  · exact absurd (admissible_resolvable hadm) hno
  · exact ⟨k, ls, y, hc, hy', ha, hag y hy'⟩

/-- **The model reports an error iff the executable specification demands one or a restriction
fails** (`resolve_errors_iff` restated, inside the claim): the verdict `noClaim` does not occur. -/
theorem resolve_errors_iff_exec (reg : Registry) (hok : linkOk reg = true) (hwf : WfReg reg)
    (root : Mod) (scope : List Stmt) (t : Stmt) (hin : InPlace reg (root, scope, t)) (hsch : PartOfSchema reg root)
    (hkw : t.kw = "type") (hcl : InsideClaim reg (root, scope, t)) :
    (resolveType reg root scope t).2 ≠ [] ↔
      chainOf reg (specFuel reg) root scope t [] = .error ∨
      ((∃ k ls, chainOf reg (specFuel reg) root scope t [] = .ok k ls) ∧
        ¬ ∃ a, Admissible (Env.of reg) root scope t a) := by
  have hiff := resolve_errors_iff_loaded reg hok hwf root scope t hin hsch hkw
  constructor
  · intro hne
    have hno := hiff.mp hne
    rcases resolve_verdict_inside_claim reg hok hwf root scope t hin hsch hkw hcl with ⟨hc, _, _⟩ | ⟨k, ls, hc, _, _, _⟩
    · exact Or.inl hc
    · exact Or.inr ⟨⟨k, ls, hc⟩, hno⟩
  · rintro (hc | ⟨_, hno⟩)
    · rcases resolve_verdict_inside_claim reg hok hwf root scope t hin hsch hkw hcl with ⟨_, _, hne⟩ | ⟨k, ls, hc', _, _, _⟩
      · exact hne
      · rw [hc] at hc'; cases hc'
    · exact hiff.mpr hno

/-! ## One side condition tied to its sub-model's specification: enum / bit members (C14)

`Inherits` says which statement's members the resolved type carries, as the table `enumFold` builds.
Through property C14 (`Goyang.Props.C14.text_fold`, used by Lemmas/TypesEnumRfc.lean) that table is
the RFC 7950 assignment (`Spec.Enum.assign` / `table`: an explicit value is kept, a member without a
value gets 0 if it is the first and else one more than the highest value so far). -/

/-- **A resolved enumeration carries the RFC values.**  An error-free resolution went along a
derivation chain; if the nearest type statement of that chain that lists `enum` members lists the
members `ms` (names, and values written as integer literals without superfluous zeros), the resolved
type has an enum table, the RFC assignment accepts `ms`, and the table holds exactly the RFC values. -/
theorem resolve_enum_rfc (env : Env) (fuel : Nat) (root : Mod) (scope : List Stmt) (t : Stmt)
    (stack : List TypeKey) (y : YType) (ht : scopeKinds.contains t.kw = false)
    (h : resolveTypeF env fuel root scope t stack = { ty := some y, errs := [] }) :
    ∃ kind chain, DerivesFrom env.reg root scope t kind chain ∧
      ∀ es, chainEnums chain = some es →
        ∀ ms : List (Goyang.Spec.Enum.Name × Option Goyang.Spec.Number.Lit),
          (∀ p ∈ ms, ∀ l, p.2 = some l → Goyang.Lemmas.Enum.LitForm l) →
          es.map (fun e => (bytesOf e.arg, (e.argOf? "value").map bytesOf))
            = ms.map (fun p => (p.1, p.2.map Goyang.Spec.Number.Lit.render)) →
          ∃ tab, y.enum = some tab ∧
            Goyang.Spec.Enum.assign .enumeration (ms.map fun p => (p.1, p.2.map Goyang.Spec.Number.Lit.num))
              = some (Goyang.Spec.Enum.table (ms.map fun p => (p.1, p.2.map Goyang.Spec.Number.Lit.num))) ∧
            tab.toInt = (Goyang.Spec.Enum.table (ms.map fun p => (p.1, p.2.map Goyang.Spec.Number.Lit.num))).reverse := by
  obtain ⟨kind, chain, hder, hen, _, hE, _⟩ :=
    Goyang.Lemmas.TypesEnumRfc.resolve_chain_folds env fuel root scope t stack y ht h
  refine ⟨kind, chain, hder, ?_⟩
  intro es hes ms hform hwritten
  obtain ⟨h1, h2⟩ := Goyang.Lemmas.TypesEnumRfc.enumFold_rfc .enumeration "value" es ms hform hwritten (hE es hes)
  exact ⟨_, by rw [hen, hes]; rfl, h1, h2⟩

/-- **… and a resolved bits type the RFC positions** (the same for `bit` members and `position`). -/
theorem resolve_bits_rfc (env : Env) (fuel : Nat) (root : Mod) (scope : List Stmt) (t : Stmt)
    (stack : List TypeKey) (y : YType) (ht : scopeKinds.contains t.kw = false)
    (h : resolveTypeF env fuel root scope t stack = { ty := some y, errs := [] }) :
    ∃ kind chain, DerivesFrom env.reg root scope t kind chain ∧
      ∀ bs, chainBits chain = some bs →
        ∀ ms : List (Goyang.Spec.Enum.Name × Option Goyang.Spec.Number.Lit),
          (∀ p ∈ ms, ∀ l, p.2 = some l → Goyang.Lemmas.Enum.LitForm l) →
          bs.map (fun e => (bytesOf e.arg, (e.argOf? "position").map bytesOf))
            = ms.map (fun p => (p.1, p.2.map Goyang.Spec.Number.Lit.render)) →
          ∃ tab, y.bit = some tab ∧
            Goyang.Spec.Enum.assign .bits (ms.map fun p => (p.1, p.2.map Goyang.Spec.Number.Lit.num))
              = some (Goyang.Spec.Enum.table (ms.map fun p => (p.1, p.2.map Goyang.Spec.Number.Lit.num))) ∧
            tab.toInt = (Goyang.Spec.Enum.table (ms.map fun p => (p.1, p.2.map Goyang.Spec.Number.Lit.num))).reverse := by
  obtain ⟨kind, chain, hder, _, hbi, _, hB⟩ :=
    Goyang.Lemmas.TypesEnumRfc.resolve_chain_folds env fuel root scope t stack y ht h
  refine ⟨kind, chain, hder, ?_⟩
  intro bs hbs ms hform hwritten
  obtain ⟨h1, h2⟩ := Goyang.Lemmas.TypesEnumRfc.enumFold_rfc .bits "position" bs ms hform hwritten (hB bs hbs)
  exact ⟨_, by rw [hbi, hbs]; rfl, h1, h2⟩

/-- **A resolved decimal64 carries the written fraction-digits, and they lie in 1 … 18** (the
fraction-digits side condition tied to C15's reading of integer arguments, `asRangeInt_exact`): in an
error-free resolution, if the nearest type statement of the chain that states fraction-digits writes
them as the integer literal `l` (digits, no superfluous leading zeros), then `1 ≤ l.num ≤ 18` and the
resolved type has exactly `l.num` fraction digits. -/
theorem resolve_fd_rfc (env : Env) (fuel : Nat) (root : Mod) (scope : List Stmt) (t : Stmt)
    (stack : List TypeKey) (y : YType) (ht : scopeKinds.contains t.kw = false)
    (h : resolveTypeF env fuel root scope t stack = { ty := some y, errs := [] }) :
    ∃ kind chain, DerivesFrom env.reg root scope t kind chain ∧
      ∀ f, chainFractionDigits chain = some f →
        ∀ l : Goyang.Spec.Number.Lit, l.digitsOK → l.ip ≠ [] → l.fp = none → l.noLeadingZero →
          bytesOf f.arg = l.render →
          1 ≤ l.num ∧ l.num ≤ 18 ∧ (y.fractionDigits : Int) = l.num := by
  obtain ⟨kind, chain, hder, _, hF⟩ := Goyang.Lemmas.TypesFdRfc.resolve_chain_fd env fuel root scope t stack y ht h
  refine ⟨kind, chain, hder, ?_⟩
  intro f hf l hd hip hfp hz hw
  obtain ⟨i, hi, hy⟩ := hF f hf
  obtain ⟨h1, h2, h3⟩ := Goyang.Lemmas.TypesFdRfc.fd_written hd hip hfp hz hw hi
  subst h1
  refine ⟨h2, h3, ?_⟩
  rw [hy]
  omega

/-! ## `linkOk` / `PartOfSchema` against the executable `wellLinked` / `partOfSchema`

`specResolve` makes no claim when `wellLinked reg = false` or `partOfSchema reg root = false`; the
main theorems are stated with the model-side `linkOk reg` and `PartOfSchema reg root`.  For a
registry produced by loading (`TablesOK`, Lemmas/BridgeRegistry.lean: sequence numbers are positions
and every entry of `ms.Modules` / `ms.SubModules` is a loaded module of that kind — the invariant
"`modules` entries are non-submodules") the second follows; the first follows exactly up to
(sub)modules that belong to no schema, which `Modules.Process` never visits. -/

/-- Loading produces registries that satisfy the table invariant (one statement per load … -/
theorem loaded_tables_ok (loads : List Stmt) : Goyang.Lemmas.Bridge.TablesOK (Registry.loadAll loads).1 :=
  Goyang.Lemmas.TypesPartOf.tablesOK_loadAll loads

/-- … or whole texts, each accepted or refused atomically). -/
theorem loaded_texts_tables_ok (texts : List (List Stmt)) : Goyang.Lemmas.Bridge.TablesOK (Registry.loadTexts texts).1 :=
  Goyang.Lemmas.TypesPartOf.tablesOK_loadTexts texts

/-- **The registry invariant**: in a registry produced by loading every entry of `ms.Modules` is a
loaded module that is not a submodule. -/
theorem modules_entries_nonsub (reg : Registry) (h : Goyang.Lemmas.Bridge.TablesOK reg) :
    ∀ top ∈ Identity.moduleEntries reg, top ∈ reg.mods ∧ top.isSub = false :=
  Goyang.Lemmas.TypesPartOf.moduleEntries_nonSub h

/-- `PartOfSchema` implies the Bool check `partOfSchema` of the executable specification, for loaded registries. -/
theorem partOfSchema_of_PartOfSchema (reg : Registry) (h : Goyang.Lemmas.Bridge.TablesOK reg) (root : Mod)
    (hp : PartOfSchema reg root) : partOfSchema reg root = true :=
  Goyang.Lemmas.TypesPartOf.partOfSchema_of_PartOfSchema h hp

/-- When `Modules.Process` linked everything without error, every include and import statement of
every part of a schema names a loaded (sub)module. -/
theorem linkOk_resolved (reg : Registry) (hok : linkOk reg = true) :
    ∀ m ∈ reg.mods, PartOfSchema reg m →
      (m.includes.all fun i => (reg.findModule true i).isSome) = true ∧
      (m.imports.all fun i => (reg.findModule false i).isSome) = true :=
  Goyang.Lemmas.TypesWellLinked.linkOk_resolved reg hok

/-- `linkOk` implies the Bool check `wellLinked` of the executable specification when every loaded
(sub)module is part of a schema … -/
theorem wellLinked_of_linkOk (reg : Registry) (hok : linkOk reg = true)
    (hall : ∀ m ∈ reg.mods, PartOfSchema reg m) : wellLinked reg = true :=
  Goyang.Lemmas.TypesWellLinked.wellLinked_of_linkOk reg hok hall

/-- … and in general exactly when the (sub)modules that are part of no schema have no dangling
include or import either. -/
theorem wellLinked_iff_of_linkOk (reg : Registry) (hok : linkOk reg = true) :
    wellLinked reg = true ↔
      ∀ m ∈ reg.mods, ¬ PartOfSchema reg m →
        (m.includes.all fun i => (reg.findModule true i).isSome) = true ∧
        (m.imports.all fun i => (reg.findModule false i).isSome) = true :=
  Goyang.Lemmas.TypesWellLinked.wellLinked_iff_of_linkOk reg hok

/-- The unrestricted implication is FALSE, also for registries produced by loading: a submodule that
nobody includes is never visited by `Modules.Process` (no error is reported for its unresolved import —
replayed on the Go code), while `wellLinked` looks at every loaded (sub)module. -/
theorem wellLinked_of_linkOk_fails :
    ¬ ∀ reg : Registry, Goyang.Lemmas.Bridge.TablesOK reg → linkOk reg = true → wellLinked reg = true := by
  intro h
  have hT : Goyang.Lemmas.Bridge.TablesOK Goyang.Lemmas.TypesWellLinked.Ex.regW := by
    refine ⟨?_, ?_⟩
    · intro i hi
      have hi' : i < 2 := hi
      match i, hi' with
      | 0, _ => rfl
      | 1, _ => rfl
    · intro sub kv hkv
      cases sub with
      | false =>
        have hkv' : kv ∈ [("m", 0)] := hkv
        rw [List.mem_singleton] at hkv'
        subst hkv'
        exact ⟨⟨0, Goyang.Lemmas.TypesWellLinked.Ex.m⟩, List.Mem.head _, rfl, rfl⟩
      | true =>
        have hkv' : kv ∈ [("s", 1)] := hkv
        rw [List.mem_singleton] at hkv'
        subst hkv'
        exact ⟨⟨1, Goyang.Lemmas.TypesWellLinked.Ex.s⟩, List.Mem.tail _ (List.Mem.head _), rfl, rfl⟩
  have := h _ hT Goyang.Lemmas.TypesWellLinked.Ex.linkOk_regW
  rw [Goyang.Lemmas.TypesWellLinked.Ex.wellLinked_regW] at this
  cases this

/-- **Exactly when `specResolve` makes no claim, for a loaded registry** (`TablesOK`, `linkOk`) and a
reference in a part of a schema: the cases `wellLinked reg = false` / `partOfSchema reg root = false`
of `specResolve_noClaim_iff` reduce to "some (sub)module that is part of no schema has a dangling
include or import"; the hypothesis `SeqId` follows from `TablesOK`. -/
theorem specResolve_noClaim_iff_loaded (reg : Registry) (hT : Goyang.Lemmas.Bridge.TablesOK reg) (hok : linkOk reg = true)
    (root : Mod) (scope : List Stmt) (t : Stmt)
    (hroot : root ∈ reg.mods) (hsch : PartOfSchema reg root) (ht : t ∈ descendants root.stmt) (hkw : t.kw = "type")
    (hscope : ∀ s ∈ scope, s ∈ descendants root.stmt) :
    (∃ w, specResolve reg (specFuel reg) root scope t [] = .noClaim w) ↔
      (∃ m ∈ reg.mods, ¬ PartOfSchema reg m ∧
        ¬ ((m.includes.all fun i => (reg.findModule true i).isSome) = true ∧
           (m.imports.all fun i => (reg.findModule false i).isSome) = true)) ∨
      (chainOf reg (specFuel reg) root scope t [] ≠ .error ∧
        ((∃ site w, UsesStar reg (root, scope, t) site ∧ Feature reg site w) ∨
         ∃ k ls, chainOf reg (specFuel reg) root scope t [] = .ok k ls ∧ chainInClaim ls = false)) := by
  have hid : SeqId reg := Goyang.Lemmas.TypesPartOf.seqId_of_tablesOK hT
  have hp : partOfSchema reg root = true := partOfSchema_of_PartOfSchema reg hT root hsch
  rw [specResolve_noClaim_iff reg hid root scope t hroot ht hkw hscope]
  constructor
  · rintro (hw | hp' | hc)
    · left
      apply Classical.byContradiction
      intro hne
      have : wellLinked reg = true := (wellLinked_iff_of_linkOk reg hok).mpr (fun m hm hnp =>
        Classical.byContradiction fun hx => hne ⟨m, hm, hnp, hx⟩)
      rw [this] at hw
      cases hw
    · rw [hp] at hp'; cases hp'
    · exact Or.inr hc
  · rintro (⟨m, hm, hnp, hx⟩ | hc)
    · left
      cases hw : wellLinked reg with
      | false => rfl
      | true => exact absurd ((wellLinked_iff_of_linkOk reg hok).mp hw m hm hnp) hx
    · exact Or.inr (Or.inr hc)

/-! ## The executable specification's reading of enum values is the RFC 7950 assignment; full agreement

`assignValues` (Spec/Types.lean) folds over the members; `Spec.Enum.assign` / `table` (property C14)
is the declarative RFC assignment.  With the members read as integers (`readMembers`,
Lemmas/TypesAssignDefs.lean: name and `parseIntLit` of the `value` / `position` argument) the two
coincide, up to the uniqueness of enum values, which the executable specification checks separately
(`chainInClaim`).  Through this tie, property C14 (`text_fold`) and C15 (`asRangeInt_exact`), the enum
table, bit table and fraction-digits of an error-free resolution are those of `inherit k ls` —
`AgreesWithFull` — whenever the integer arguments on the chain are canonically written (`CanonInt`:
optional `-`, digits, no superfluous leading zero; Lemmas/TypesStrBridge.lean).  Outside that form the
two readings differ: `noncanonical_value_disagrees`. -/

open Goyang.Lemmas.TypesAssign in
/-- **`assignValues` is the RFC table**: when it answers `tab`, the members were readable as integers
`ms`, and `tab` (names as bytes) is `Spec.Enum.table ms`, names pairwise different, values in range. -/
theorem assignValues_table (kw : String) (lo hi : Int) (es : List Stmt) (tab : List (String × Int))
    (h : assignValues kw lo hi es = some tab) :
    ∃ ms, readMembers kw es = some ms ∧
      toB tab = Goyang.Spec.Enum.table (ms.map fun p => (bytesOf p.1, p.2)) ∧
      (tab.map (·.1)).Nodup ∧ ∀ p ∈ tab, lo ≤ p.2 ∧ p.2 ≤ hi := by
  obtain ⟨ms, hr, ht, hn, hrg⟩ := assignValues_some h
  subst ht
  exact ⟨ms, hr, toB_tableS ms, hn, hrg⟩

open Goyang.Lemmas.TypesAssign in
/-- **Bit positions**: `assignValues` is exactly `Spec.Enum.assign .bits` of the members read. -/
theorem assignValues_eq_assign_bits (kw : String) (es : List Stmt) :
    (assignValues kw 0 4294967295 es).map toB
      = (readMembers kw es).bind fun ms => Goyang.Spec.Enum.assign .bits (ms.map fun p => (bytesOf p.1, p.2)) :=
  Goyang.Lemmas.TypesAssign.assignValues_eq_assign_bits (fun _ _ h => Goyang.Lemmas.TypesStrBridge.bytesOf_inj h) kw es

open Goyang.Lemmas.TypesAssign in
/-- **Enum values**: `assignValues` answers with pairwise different values exactly what
`Spec.Enum.assign .enumeration` answers (it does not itself check that values are pairwise different:
`chainInClaim` does). -/
theorem assignValues_eq_assign_enum (kw : String) (es : List Stmt) :
    ((assignValues kw (-2147483648) 2147483647 es).filter fun tab => decide ((tab.map (·.2)).Nodup)).map toB
      = (readMembers kw es).bind fun ms => Goyang.Spec.Enum.assign .enumeration (ms.map fun p => (bytesOf p.1, p.2)) :=
  Goyang.Lemmas.TypesAssign.assignValues_eq_assign_enum (fun _ _ h => Goyang.Lemmas.TypesStrBridge.bytesOf_inj h) kw es

open Goyang.Lemmas.TypesAssign in
/-- `AgreesWith`, and the same enum table, bit table (the model lists the members last first, names as
bytes) and fraction-digits. -/
def AgreesWithFull (y : YType) (st : SType) : Prop :=
  AgreesWith y st ∧
  y.enum.map (·.toInt) = st.enum.map (fun tab => (toB tab).reverse) ∧
  y.bit.map (·.toInt) = st.bit.map (fun tab => (toB tab).reverse) ∧
  y.fractionDigits = st.fd

open Goyang.Lemmas.TypesAgreeFull in
/-- **Verdict and model, inside the claim, all attributes** (`resolve_verdict_inside_claim` extended):
when the integer arguments of the derivation chain are canonically written, an error-free resolution
agrees with `inherit k ls` also in the enum table, the bit table and the fraction-digits, nearest
definition winning along the chain. -/
theorem resolve_verdict_inside_claim_full (reg : Registry) (hok : linkOk reg = true) (hwf : WfReg reg)
    (root : Mod) (scope : List Stmt) (t : Stmt) (hin : InPlace reg (root, scope, t)) (hsch : PartOfSchema reg root)
    (hkw : t.kw = "type") (hcl : InsideClaim reg (root, scope, t))
    (hcanon : ∀ kind chain, DerivesFrom reg root scope t kind chain → CanonArgs chain) :
    (chainOf reg (specFuel reg) root scope t [] = .error ∧ ¬ Resolvable reg root scope t ∧
      (resolveType reg root scope t).2 ≠ []) ∨
    (∃ k ls, chainOf reg (specFuel reg) root scope t [] = .ok k ls ∧ Resolvable reg root scope t ∧
      (∀ e ∈ (resolveType reg root scope t).2, ¬ BindErr e ∧ e.cls ≠ "out-of-fuel") ∧
      (∀ y, resolveType reg root scope t = (some y, []) → AgreesWithFull y (inherit k ls))) := by
  rcases resolve_verdict_inside_claim reg hok hwf root scope t hin hsch hkw hcl with h | ⟨k, ls, hc, hres, hnb, hag⟩
  · exact Or.inl h
  · right
    refine ⟨k, ls, hc, hres, hnb, ?_⟩
    intro y hy
    have hS := standing_of_wellformed (Env.of reg) hwf (env_of_linked reg hok) root scope t hin
    have hU : UnambiguousBelow reg (root, scope, t) := hS.unamb
    have hy0 := hy
    unfold resolveType resolveTypeE at hy
    simp only [Prod.mk.injEq] at hy
    have hy' := res_eq hy.1 hy.2
    obtain ⟨chain', hder', hfor⟩ := spec_exec_chain reg _ root scope t [] k ls hc
    obtain ⟨k1, c1, hd1, hen, hbi, hE, hB⟩ :=
      Goyang.Lemmas.TypesEnumRfc.resolve_chain_folds (Env.of reg) _ root scope t [] y (type_not_scope hkw) hy'
    obtain ⟨k2, c2, hd2, hfd, hF⟩ :=
      Goyang.Lemmas.TypesFdRfc.resolve_chain_fd (Env.of reg) _ root scope t [] y (type_not_scope hkw) hy'
    obtain ⟨_, e1⟩ := spec_exec_chain_unique reg root scope t k1 k c1 chain' hU hd1 hder'
    obtain ⟨_, e2⟩ := spec_exec_chain_unique reg root scope t k2 k c2 chain' hU hd2 hder'
    subst e1 e2
    have hc' := hcanon k _ hder'
    exact ⟨hag y hy0, enum_agree k hfor hc' hen hE, bit_agree k hfor hc' hbi hB, fd_agree k hfor hc' hfd hF⟩

open Goyang.Lemmas.TypesAgreeFull in
/-- **Completeness against the executable specification, all attributes** (`resolve_complete_exec`
extended): what the specification accepts is resolved without error to a type that agrees with
`inherit k ls` also in enum table, bit table and fraction-digits. -/
theorem resolve_complete_exec_full (reg : Registry) (hok : linkOk reg = true) (hwf : WfReg reg)
    (root : Mod) (scope : List Stmt) (t : Stmt) (a : Attrs) (hin : InPlace reg (root, scope, t))
    (hsch : PartOfSchema reg root) (hkw : t.kw = "type") (hcl : InsideClaim reg (root, scope, t))
    (hcanon : ∀ kind chain, DerivesFrom reg root scope t kind chain → CanonArgs chain)
    (hadm : Admissible (Env.of reg) root scope t a) :
    ∃ k ls y, chainOf reg (specFuel reg) root scope t [] = .ok k ls ∧
      resolveType reg root scope t = (some y, []) ∧ attrsOf y = a ∧ AgreesWithFull y (inherit k ls) := by
  obtain ⟨k, ls, y, hc, hy, ha, _⟩ := resolve_complete_exec reg hok hwf root scope t a hin hsch hkw hcl hadm
  rcases resolve_verdict_inside_claim_full reg hok hwf root scope t hin hsch hkw hcl hcanon with
    ⟨he, _, _⟩ | ⟨k', ls', hc', _, _, hag⟩
  · rw [hc] at he; cases he
  · rw [hc] at hc'
    cases hc'
    exact ⟨k, ls, y, hc, hy, ha, hag y hy⟩

/-- **A registry-level sufficient condition** for the hypothesis of `resolve_verdict_inside_claim_full`:
when every `value` / `position` / `fraction-digits` argument of the loaded set is canonically written
(`CanonReg`), every derivation chain of a reference that stands in the set has canonical arguments (the
statements of a chain stand in the loaded set). -/
theorem canonArgs_of_canonReg (reg : Registry) (hc : Goyang.Lemmas.TypesAgreeFull.CanonReg reg)
    (root : Mod) (scope : List Stmt) (t : Stmt) (hin : InPlace reg (root, scope, t)) :
    ∀ kind chain, DerivesFrom reg root scope t kind chain → Goyang.Lemmas.TypesAgreeFull.CanonArgs chain := by
  intro kind chain h
  obtain ⟨hroot, ht, hscope⟩ := inSet_of_inPlace (env := Env.of reg) hin
  exact Goyang.Lemmas.TypesAgreeFull.canonArgs_of_canonReg hc hroot ht hscope h

/-! ## The range / length side condition tied to property C10's specification

`Inherits` / `AgreesWith` do not speak about `range` and `length`: their meaning is the subject of
property C10 (`Goyang.Props.C10.StepOk`: an accepted restriction denotes exactly the set written, `min` /
`max` being the bounds of the set before it, is sorted, disjoint and coalesced, and lies within the set
before it).  Lemmas/TypesRangeRfc.lean follows the resolution along the derivation chain. -/

/-- **The range of an error-free resolution denotes the written sets, narrowing along the chain.**  An
error-free resolution went along a derivation chain ending in the built-in `kind`; if `kind` is numeric
(`BaseOf`: the eight integer types at scale `(false, 0)` with their built-in ranges; decimal64 at
`(true, f)`, `f` the fraction-digits of the resolved type, from `decimalBase f`) then the range of the
resolved type is reached from the built-in range by the `range` statements of the chain's type
statements, farthest first, each an accepted step in the sense of C10 (`RangeSteps` of `StepOk`), and is
again a legitimate non-empty parent. -/
theorem resolve_range_denotes (env : Env) (fuel : Nat) (root : Mod) (scope : List Stmt) (t : Stmt)
    (stack : List TypeKey) (y : YType) (ht : scopeKinds.contains t.kw = false)
    (h : resolveTypeF env fuel root scope t stack = { ty := some y, errs := [] }) :
    ∃ kind chain, DerivesFrom env.reg root scope t kind chain ∧ y.kind = kind ∧
      ∀ dec f base, Goyang.Lemmas.TypesRangeRfc.BaseOf kind y.fractionDigits dec f base →
        Goyang.Props.C10.IsBase dec f base ∧
        Goyang.Lemmas.TypesRangeRfc.RangeSteps dec f base (Goyang.Lemmas.TypesRangeRfc.chainRanges chain).reverse y.range ∧
        Goyang.Lemmas.Range.ParentOk f y.range ∧ y.range ≠ [] :=
  Goyang.Lemmas.TypesRangeRfc.resolve_chain_range env fuel root scope t stack y ht h

/-- … hence it denotes a subset of the built-in range of its kind. -/
theorem resolve_range_within_base (env : Env) (fuel : Nat) (root : Mod) (scope : List Stmt) (t : Stmt)
    (stack : List TypeKey) (y : YType) (ht : scopeKinds.contains t.kw = false)
    (h : resolveTypeF env fuel root scope t stack = { ty := some y, errs := [] })
    (dec : Bool) (f : Nat) (base : Goyang.Model.Range.YangRange)
    (hb : Goyang.Lemmas.TypesRangeRfc.BaseOf y.kind y.fractionDigits dec f base) :
    Goyang.Spec.Range.Within (Goyang.Lemmas.Range.abs y.range) (Goyang.Lemmas.Range.abs base) :=
  Goyang.Lemmas.TypesRangeRfc.resolve_range_within_base env fuel root scope t stack y ht h dec f base hb

/-- **… and the same for `length`**, whatever the kind: the length of the resolved type is reached from
`0..2^64-1` by the `length` statements of the chain (each an accepted step in the sense of C10); it is
empty exactly when the chain states no length. -/
theorem resolve_length_denotes (env : Env) (fuel : Nat) (root : Mod) (scope : List Stmt) (t : Stmt)
    (stack : List TypeKey) (y : YType) (ht : scopeKinds.contains t.kw = false)
    (h : resolveTypeF env fuel root scope t stack = { ty := some y, errs := [] }) :
    ∃ kind chain, DerivesFrom env.reg root scope t kind chain ∧
      Goyang.Lemmas.TypesRangeRfc.RangeSteps false 0 Goyang.Model.Range.uint64Range
        (Goyang.Lemmas.TypesRangeRfc.chainLengths chain).reverse
        (if y.length.isEmpty then Goyang.Model.Range.uint64Range else y.length) ∧
      Goyang.Lemmas.Range.ParentOk 0 y.length ∧ (y.length = [] ↔ Goyang.Lemmas.TypesRangeRfc.chainLengths chain = []) :=
  Goyang.Lemmas.TypesRangeRfc.resolve_chain_length env fuel root scope t stack y ht h

/-! ## Non-vacuity: concrete schemas on which the hypotheses of the theorems hold

The environments are written out (registry, include links) instead of being computed by `Env.of`,
so that the kernel can evaluate the examples; the theorems hold for every environment. -/
namespace Ex
/-- statement in file `f` -/
def S (f kw arg : String) (l c : Nat) (subs : List Stmt) : Stmt := Stmt.mk kw true arg f l c subs

/-! Shadowing at three scopes: module, container, list all declare `t`. -/
def ty : Stmt := S "m.yang" "type" "t" 5 20 []
def leaf : Stmt := S "m.yang" "leaf" "x" 5 10 [ty]
def tdL : Stmt := S "m.yang" "typedef" "t" 4 10 [S "m.yang" "type" "int32" 4 20 []]
def lst : Stmt := S "m.yang" "list" "l" 4 5 [tdL, leaf]
def tdC : Stmt := S "m.yang" "typedef" "t" 3 10 [S "m.yang" "type" "int16" 3 20 []]
def tyC : Stmt := S "m.yang" "type" "p:t" 3 60 []
def leafC : Stmt := S "m.yang" "leaf" "y" 3 50 [tyC]
def con : Stmt := S "m.yang" "container" "c" 3 1 [tdC, leafC, lst]
def tdM : Stmt := S "m.yang" "typedef" "t" 2 10 [S "m.yang" "type" "int8" 2 20 []]
def tyM : Stmt := S "m.yang" "type" "t" 6 20 []
def leafM : Stmt := S "m.yang" "leaf" "z" 6 10 [tyM]
def m : Stmt := S "m.yang" "module" "m" 1 1 [S "m.yang" "prefix" "p" 1 10 [], tdM, con, leafM]
def mM : Mod := ⟨0, m⟩
def env : Env := { reg := { mods := [mM], modules := [("m", 0)] }, link := {}, dict := [], fuel := 10 }

example : (match lookup env mM [leaf, lst, con, m] ty with
    | .typedef _ r => r.td.line == 4 && r.scope.map (·.line) == [4, 3, 1] | _ => false) = true := by decide
example : (match lookup env mM [leafC, con, m] tyC with
    | .typedef _ r => r.td.line == 3 && r.scope.map (·.line) == [3, 1] | _ => false) = true := by decide
example : (match lookup env mM [leafM, m] tyM with
    | .typedef _ r => r.td.line == 2 && r.scope.map (·.line) == [1] | _ => false) = true := by decide
example : (resolveTypeF env 10 mM [leaf, lst, con, m] ty []).errs = [] ∧
    ((resolveTypeF env 10 mM [leaf, lst, con, m] ty []).ty.map (·.kind)) = some "int32" := by decide

/-! A chain of depth 3 across an import (`a` imports `b` as `q`; `b` includes submodule `bs`). -/
def t1 : Stmt := S "bs.yang" "typedef" "t1" 2 1
  [S "bs.yang" "type" "string" 2 10 [S "bs.yang" "pattern" "p1" 2 20 []], S "bs.yang" "units" "u1" 2 30 [], S "bs.yang" "default" "d1" 2 40 []]
def bs : Stmt := S "bs.yang" "submodule" "bs" 1 1 [S "bs.yang" "belongs-to" "b" 1 10 [S "bs.yang" "prefix" "pb" 1 20 []], t1]
def t2 : Stmt := S "b.yang" "typedef" "t2" 3 1
  [S "b.yang" "type" "t1" 3 10 [S "b.yang" "pattern" "p2" 3 20 []], S "b.yang" "default" "d2" 3 40 []]
def b : Stmt := S "b.yang" "module" "b" 1 1 [S "b.yang" "prefix" "pb" 1 10 [], S "b.yang" "include" "bs" 2 1 [], t2]
def t3 : Stmt := S "a.yang" "typedef" "t3" 3 1 [S "a.yang" "type" "q:t2" 3 10 [S "a.yang" "pattern" "p3" 3 20 []]]
def tyA : Stmt := S "a.yang" "type" "t3" 4 10 [S "a.yang" "pattern" "p1" 4 20 []]
def leafA : Stmt := S "a.yang" "leaf" "l" 4 1 [tyA]
def a : Stmt := S "a.yang" "module" "a" 1 1
  [S "a.yang" "prefix" "pa" 1 10 [], S "a.yang" "import" "b" 2 1 [S "a.yang" "prefix" "q" 2 10 []], t3, leafA]
def mA : Mod := ⟨0, a⟩
def env2 : Env :=
  { reg := { mods := [mA, ⟨1, b⟩, ⟨2, bs⟩], modules := [("a", 0), ("b", 1)], subModules := [("bs", 2)] },
    link := { visited := [0, 1, 2], linked := [(1, 0)] }, dict := [], fuel := 10 }

example : (resolveTypeF env2 10 mA [leafA, a] tyA []).errs = [] := by decide
example : (match (resolveTypeF env2 10 mA [leafA, a] tyA []).ty with
    | some y => y.kind == "string" && y.name == "t3" && y.units == "u1" && y.hasDefault && y.default == "d2" &&
        y.pattern == ["p1", "p2", "p3"]
    | none => false) = true := by decide

/-! Unknown names, unknown prefixes and cyclic definitions are errors. -/
def cyA : Stmt := S "c.yang" "typedef" "a" 2 1 [S "c.yang" "type" "b" 2 10 []]
def cyB : Stmt := S "c.yang" "typedef" "b" 3 1 [S "c.yang" "type" "union" 3 10 [S "c.yang" "type" "string" 3 20 [], S "c.yang" "type" "a" 3 30 []]]
def tyCy : Stmt := S "c.yang" "type" "a" 4 10 []
def tyUn : Stmt := S "c.yang" "type" "nosuch" 5 10 []
def tyPf : Stmt := S "c.yang" "type" "zz:a" 6 10 []
def c : Stmt := S "c.yang" "module" "c" 1 1 [S "c.yang" "prefix" "pc" 1 10 [], cyA, cyB,
  S "c.yang" "leaf" "l1" 4 1 [tyCy], S "c.yang" "leaf" "l2" 5 1 [tyUn], S "c.yang" "leaf" "l3" 6 1 [tyPf]]
def mC : Mod := ⟨0, c⟩
def env3 : Env := { reg := { mods := [mC], modules := [("c", 0)] }, link := {}, dict := [], fuel := 10 }
example : ((resolveTypeF env3 10 mC [S "c.yang" "leaf" "l1" 4 1 [tyCy], c] tyCy []).errs.map (·.cls)) = ["cycle"] := by decide
example : ((resolveTypeF env3 10 mC [S "c.yang" "leaf" "l2" 5 1 [tyUn], c] tyUn []).errs.map (·.cls)) = ["unknown-type"] := by decide
example : ((resolveTypeF env3 10 mC [S "c.yang" "leaf" "l3" 6 1 [tyPf], c] tyPf []).errs.map (·.cls)) = ["unknown-prefix"] := by decide
/-! ### Completeness on the shadowing example: `type t` in the list binds to the list's typedef

The standing hypotheses are discharged through the executable binding (`bindType … = …` by kernel
evaluation, then `unambiguousAt_of_bind`, `uses_of_bind`): the sites below the reference are the
reference itself (`s0`) and the type statement of the list's typedef (`s1`). -/
def tyL : Stmt := S "m.yang" "type" "int32" 4 20 []
def s0 : Site := (mM, [leaf, lst, con, m], ty)
def s1 : Site := (mM, [tdL, lst, con, m], tyL)

theorem seqId_env : SeqId env.reg := by
  intro a ha b hb _
  have ha' : a ∈ [mM] := ha
  have hb' : b ∈ [mM] := hb
  rw [List.mem_singleton] at ha' hb'
  rw [ha', hb']

theorem mM_mem : mM ∈ env.reg.mods := List.mem_singleton.mpr rfl
theorem mM_sch : PartOfSchema env.reg mM :=
  ⟨mM, (show Identity.moduleEntries env.reg = [mM] from rfl) ▸ List.mem_singleton.mpr rfl, IncludesStar.refl _⟩

theorem bind0 : bindType env.reg mM [leaf, lst, con, m] ty.arg = .typedef mM tdL [lst, con, m] := by rfl

theorem uses_s0 {x : Site} (h : Uses env.reg s0 x) : x = s1 := by
  rcases uses_of_bind seqId_env mM_mem bind0 (tt := tyL) rfl h with h | ⟨ut, hut, _⟩
  · exact h
  · exact absurd hut (by rw [show ty.all "type" = [] from rfl]; exact List.not_mem_nil)

theorem uses_s1 {x : Site} (h : Uses env.reg s1 x) : False := by
  obtain ⟨ut, hut, _⟩ := uses_of_builtin (t := tyL) (by decide) h
  exact absurd hut (by rw [show tyL.all "type" = [] from rfl]; exact List.not_mem_nil)

theorem reach {a : Site} (h : UsesStar env.reg s0 a) : a = s0 ∨ a = s1 := by
  induction h with
  | refl => exact Or.inl rfl
  | tail _ hbc ih =>
    rcases ih with rfl | rfl
    · exact Or.inr (uses_s0 hbc)
    · exact (uses_s1 hbc).elim

theorem plus_s1 {x : Site} (h : UsesPlus env.reg s1 x) : False := by
  cases h with
  | one h => exact uses_s1 h
  | cons h _ => exact uses_s1 h

theorem plus_s0 {x : Site} (h : UsesPlus env.reg s0 x) : x = s1 := by
  cases h with
  | one h => exact uses_s0 h
  | cons h h' => rw [uses_s0 h] at h'; exact (plus_s1 h').elim

/-- The standing hypotheses of `resolve_complete` hold of the example. -/
theorem standing_env : Standing env s0 where
  seqId := seqId_env
  linked := by
    intro a ha _
    have ha' : a ∈ [mM] := ha
    rw [List.mem_singleton] at ha'
    subst ha'
    rfl
  imports := by
    intro a ha i hi
    have ha' : a ∈ [mM] := ha
    rw [List.mem_singleton] at ha'
    subst ha'
    exact absurd hi (by rw [show mM.imports = [] from rfl]; exact List.not_mem_nil)
  unamb := by
    intro a ha
    rcases reach ha with rfl | rfl
    · exact unambiguousAt_of_bind seqId_env mM_mem bind0
    · exact unambiguousAt_of_builtin (t := tyL) (by decide)
  keys := by
    intro a b ha hab hk
    rcases reach ha with rfl | rfl
    · rw [plus_s0 hab] at hk
      exact absurd hk (by decide)
    · exact (plus_s1 hab).elim

theorem no_members_ty : ∀ ut ∈ ty.all "type", Resolvable env.reg mM (ty :: [leaf, lst, con, m]) ut := by
  intro ut hut
  exact absurd hut (by rw [show ty.all "type" = [] from rfl]; exact List.not_mem_nil)

/-- The reference is `Resolvable` … -/
theorem resolvable_ty : Resolvable env.reg mM [leaf, lst, con, m] ty :=
  Resolvable.derived mM tdL [lst, con, m] tyL (bindType_sound _ _ _ _ _ _ _ bind0) rfl
    (Resolvable.builtin (by decide)
      (by intro ut hut; exact absurd hut (by rw [show tyL.all "type" = [] from rfl]; exact List.not_mem_nil)))
    no_members_ty

/-- … and accepted by the specification (`typeOk` / `typedefOk` evaluate to `true` at both levels). -/
theorem admissible_ty : ∃ a, Admissible env mM [leaf, lst, con, m] ty a := by
  obtain ⟨y, hy⟩ : ∃ y, builtin? tyL.arg = some y := ⟨_, rfl⟩
  refine ⟨_, Admissible.derived mM tdL [lst, con, m] tyL _ (fun _ => ⟨"", 0, [], []⟩)
    (bindType_sound _ _ _ _ _ _ _ bind0) rfl
    (Admissible.builtin y (fun _ => ⟨"", 0, [], []⟩) hy ?_ ?_) ?_ ?_ ?_⟩
  · cases hy; decide +kernel
  · intro ut hut; exact absurd hut (by rw [show tyL.all "type" = [] from rfl]; exact List.not_mem_nil)
  · decide +kernel
  · cases hy; decide +kernel
  · intro ut hut; exact absurd hut (by rw [show ty.all "type" = [] from rfl]; exact List.not_mem_nil)

open Goyang.Lemmas.TypesFuel in
theorem ty_in_m : ty ∈ descendants mM.stmt ∧ ∀ s ∈ [leaf, lst, con, m], s ∈ descendants mM.stmt := by
  have hm : m ∈ descendants mM.stmt := self_mem_descendants _
  have hcon : con ∈ descendants mM.stmt := child_below hm (List.Mem.tail _ (List.Mem.tail _ (List.Mem.head _)))
  have hlst : lst ∈ descendants mM.stmt := child_below hcon (List.Mem.tail _ (List.Mem.tail _ (List.Mem.head _)))
  have hleaf : leaf ∈ descendants mM.stmt := child_below hlst (List.Mem.tail _ (List.Mem.head _))
  refine ⟨child_below hleaf (List.Mem.head _), ?_⟩
  intro s hs
  simp only [List.mem_cons, List.not_mem_nil, or_false] at hs
  rcases hs with rfl | rfl | rfl | rfl <;> assumption

/-- `resolve_complete_binding`, `resolve_complete` and `resolve_errors_iff` apply: no error, for every sufficient fuel. -/
example (fuel : Nat) (hfuel : (allTypeKeys env.reg).length + 1 ≤ fuel) :
    (resolveTypeF env fuel mM [leaf, lst, con, m] ty []).errs = [] := by
  obtain ⟨a, hadm⟩ := admissible_ty
  obtain ⟨y, hy, _⟩ := resolve_complete env mM [leaf, lst, con, m] ty a standing_env mM_mem mM_sch ty_in_m.1 rfl ty_in_m.2 hadm fuel hfuel
  rw [hy]
example (fuel : Nat) (hfuel : (allTypeKeys env.reg).length + 1 ≤ fuel) :
    ∀ e ∈ (resolveTypeF env fuel mM [leaf, lst, con, m] ty []).errs, ¬ BindErr e ∧ e.cls ≠ "out-of-fuel" :=
  resolve_complete_binding env mM [leaf, lst, con, m] ty standing_env mM_mem mM_sch ty_in_m.1 rfl ty_in_m.2 resolvable_ty fuel hfuel
/-- The example set is well-formed in the decidable sense, the reference stands in it: `standing_of_wellformed` applies. -/
example : WfReg env.reg := by decide +kernel
example : InPlace env.reg (mM, [leaf, lst, con, m], ty) :=
  ⟨mM_mem, List.Mem.head _, List.Mem.tail _ (List.Mem.head _), List.Mem.tail _ (List.Mem.tail _ (List.Mem.head _)),
    List.Mem.tail _ (List.Mem.tail _ (List.Mem.head _)), rfl⟩
/-- The executable specification accepts the reference (so `spec_exec_accepts` applies) … -/
example : (match finish (chainOf env.reg 10 mM [leaf, lst, con, m] ty []) with
    | .ok st => st.kind == "int32" | _ => false) = true := by decide +kernel
/-- … and `spec_exec_binds_iff` applies at the reference (the binding is not `ambiguous`). -/
example : bindType env.reg mM [leaf, lst, con, m] ty.arg ≠ .ambiguous := by rw [bind0]; intro h; cases h

/-! ### A cyclic pair of typedefs (`typedef a { type b; } typedef b { type a; }`): `cyclic_is_error_below` applies -/
def tyQa : Stmt := S "d.yang" "type" "b" 2 10 []
def tyQb : Stmt := S "d.yang" "type" "a" 3 10 []
def qa : Stmt := S "d.yang" "typedef" "a" 2 1 [tyQa]
def qb : Stmt := S "d.yang" "typedef" "b" 3 1 [tyQb]
def tyQ : Stmt := S "d.yang" "type" "a" 4 10 []
def leafQ : Stmt := S "d.yang" "leaf" "l" 4 1 [tyQ]
def d : Stmt := S "d.yang" "module" "d" 1 1 [S "d.yang" "prefix" "pd" 1 10 [], qa, qb, leafQ]
def mD : Mod := ⟨0, d⟩
def env4 : Env := { reg := { mods := [mD], modules := [("d", 0)] }, link := {}, dict := [], fuel := 10 }
def q0 : Site := (mD, [leafQ, d], tyQ)
def q1 : Site := (mD, [qa, d], tyQa)
def q2 : Site := (mD, [qb, d], tyQb)

theorem seqId_env4 : SeqId env4.reg := by
  intro a ha b hb _
  have ha' : a ∈ [mD] := ha
  have hb' : b ∈ [mD] := hb
  rw [List.mem_singleton] at ha' hb'
  rw [ha', hb']
theorem mD_mem : mD ∈ env4.reg.mods := List.mem_singleton.mpr rfl
theorem bindQ0 : bindType env4.reg mD [leafQ, d] tyQ.arg = .typedef mD qa [d] := by rfl
theorem bindQ1 : bindType env4.reg mD [qa, d] tyQa.arg = .typedef mD qb [d] := by rfl
theorem bindQ2 : bindType env4.reg mD [qb, d] tyQb.arg = .typedef mD qa [d] := by rfl

theorem usesQ0 : Uses env4.reg q0 q1 := Uses.base mD qa [d] tyQa (bindType_sound _ _ _ _ _ _ _ bindQ0) rfl
theorem usesQ1 : Uses env4.reg q1 q2 := Uses.base mD qb [d] tyQb (bindType_sound _ _ _ _ _ _ _ bindQ1) rfl
theorem usesQ2 : Uses env4.reg q2 q1 := Uses.base mD qa [d] tyQa (bindType_sound _ _ _ _ _ _ _ bindQ2) rfl

/-- The reference `type a` of the leaf depends on a definition in terms of itself. -/
theorem cyclic_q0 : Cyclic env4.reg q0 :=
  ⟨q1, Or.inr (UsesPlus.one usesQ0), UsesPlus.cons usesQ1 (UsesPlus.one usesQ2)⟩

theorem reachQ {a : Site} (h : UsesStar env4.reg q0 a) : a = q0 ∨ a = q1 ∨ a = q2 := by
  induction h with
  | refl => exact Or.inl rfl
  | tail _ hbc ih =>
    rcases ih with rfl | rfl | rfl
    · rcases uses_of_bind seqId_env4 mD_mem bindQ0 (tt := tyQa) rfl hbc with h | ⟨ut, hut, _⟩
      · exact Or.inr (Or.inl h)
      · exact absurd hut (by rw [show tyQ.all "type" = [] from rfl]; exact List.not_mem_nil)
    · rcases uses_of_bind seqId_env4 mD_mem bindQ1 (tt := tyQb) rfl hbc with h | ⟨ut, hut, _⟩
      · exact Or.inr (Or.inr h)
      · exact absurd hut (by rw [show tyQa.all "type" = [] from rfl]; exact List.not_mem_nil)
    · rcases uses_of_bind seqId_env4 mD_mem bindQ2 (tt := tyQa) rfl hbc with h | ⟨ut, hut, _⟩
      · exact Or.inr (Or.inl h)
      · exact absurd hut (by rw [show tyQb.all "type" = [] from rfl]; exact List.not_mem_nil)

/-- No name met while resolving it denotes two typedefs. -/
theorem unamb_q0 : UnambiguousBelow env4.reg q0 := by
  intro a ha
  rcases reachQ ha with rfl | rfl | rfl
  · exact unambiguousAt_of_bind seqId_env4 mD_mem bindQ0
  · exact unambiguousAt_of_bind seqId_env4 mD_mem bindQ1
  · exact unambiguousAt_of_bind seqId_env4 mD_mem bindQ2

/-- `cyclic_is_error_below` applies: an error for every fuel and stack (the model says `cycle`). -/
example (fuel : Nat) (stack : List TypeKey) : (resolveTypeF env4 fuel mD [leafQ, d] tyQ stack).errs ≠ [] :=
  cyclic_is_error_below env4 fuel mD [leafQ, d] tyQ unamb_q0 stack (by decide) cyclic_q0
example : ((resolveTypeF env4 10 mD [leafQ, d] tyQ []).errs.map (·.cls)) = ["cycle"] := by decide
/-- The executable specification demands the error (`spec_exec_error` applies). -/
example : (match chainOf env4.reg 10 mD [leafQ, d] tyQ [] with | .error => true | _ => false) = true := by decide +kernel

/-! ### The `noClaim` theorems on the examples -/

/-- The shadowing example is inside the claim: the executable specification answers `ok`. -/
theorem ok_ty : ∃ k ls, chainOf env.reg 10 mM [leaf, lst, con, m] ty [] = .ok k ls := by
  have h : (match chainOf env.reg 10 mM [leaf, lst, con, m] ty [] with | .ok _ _ => true | _ => false) = true := by
    decide +kernel
  cases hc : chainOf env.reg 10 mM [leaf, lst, con, m] ty [] with
  | ok k ls => exact ⟨k, ls, rfl⟩
  | error => rw [hc] at h; cases h
  | noClaim w => rw [hc] at h; cases h

theorem inside_ty : InsideClaim env.reg s0 := by
  obtain ⟨k, ls, h⟩ := ok_ty
  exact spec_ok_inside_claim env.reg seqId_env 10 mM [leaf, lst, con, m] ty [] k ls mM_mem h

theorem inPlace_ty : InPlace env.reg (mM, [leaf, lst, con, m], ty) :=
  ⟨mM_mem, List.Mem.head _, List.Mem.tail _ (List.Mem.head _), List.Mem.tail _ (List.Mem.tail _ (List.Mem.head _)),
    List.Mem.tail _ (List.Mem.tail _ (List.Mem.head _)), rfl⟩

/-- `spec_budget_suffices`, `chainOf_noClaim_iff`, `chainOf_ok_iff`, `chainOf_error_iff` apply to it … -/
example : chainOf env.reg (specFuel env.reg) mM [leaf, lst, con, m] ty [] ≠ .noClaim "fuel" :=
  (spec_budget_suffices env.reg mM [leaf, lst, con, m] ty mM_mem ty_in_m.1 rfl ty_in_m.2).1
example : ∃ k ls, chainOf env.reg (specFuel env.reg) mM [leaf, lst, con, m] ty [] = .ok k ls :=
  (chainOf_ok_iff env.reg seqId_env mM [leaf, lst, con, m] ty standing_env.unamb standing_env.keys mM_mem
    ty_in_m.1 rfl ty_in_m.2).mpr ⟨resolvable_ty, inside_ty⟩
/-- … and so do the theorems for a loaded set (`linkOk`, `WfReg`, `InPlace`, `PartOfSchema`, `InsideClaim`):
the second case of `resolve_verdict_inside_claim` holds of it. -/
example : linkOk env.reg = true := by decide +kernel
example : ∃ k ls, chainOf env.reg (specFuel env.reg) mM [leaf, lst, con, m] ty [] = .ok k ls ∧
    ∀ y, resolveType env.reg mM [leaf, lst, con, m] ty = (some y, []) → AgreesWith y (inherit k ls) := by
  rcases resolve_verdict_inside_claim env.reg (by decide +kernel) (by decide +kernel) mM [leaf, lst, con, m] ty
    inPlace_ty mM_sch rfl inside_ty with ⟨_, hno, _⟩ | ⟨k, ls, hc, _, _, hag⟩
  · exact absurd resolvable_ty hno
  · exact ⟨k, ls, hc, hag⟩

/-! An enumeration that lists the name `a` twice: the executable specification answers
`noClaim "enum-values"`, and `spec_noClaim_reason` names the feature (at the type statement itself). -/
def tyE : Stmt := S "e.yang" "type" "enumeration" 2 10 [S "e.yang" "enum" "a" 2 30 [], S "e.yang" "enum" "a" 2 40 []]
def leafE : Stmt := S "e.yang" "leaf" "l" 2 1 [tyE]
def e : Stmt := S "e.yang" "module" "e" 1 1 [S "e.yang" "prefix" "pe" 1 10 [], leafE]
def mE : Mod := ⟨0, e⟩
def regE : Registry := { mods := [mE], modules := [("e", 0)] }

open Goyang.Lemmas.TypesFuel in
theorem tyE_in_e : tyE ∈ descendants mE.stmt ∧ ∀ s ∈ [leafE, e], s ∈ descendants mE.stmt := by
  have he : e ∈ descendants mE.stmt := self_mem_descendants _
  have hleaf : leafE ∈ descendants mE.stmt := child_below he (List.Mem.tail _ (List.Mem.head _))
  refine ⟨child_below hleaf (List.Mem.head _), ?_⟩
  intro s hs
  simp only [List.mem_cons, List.not_mem_nil, or_false] at hs
  rcases hs with rfl | rfl <;> assumption

example : (match chainOf regE (specFuel regE) mE [leafE, e] tyE [] with
    | .noClaim w => w == "enum-values" | _ => false) = true := by decide +kernel
example (w : String) (h : chainOf regE (specFuel regE) mE [leafE, e] tyE [] = .noClaim w) :
    ∃ site, UsesStar regE (mE, [leafE, e], tyE) site ∧ Feature regE site w :=
  (spec_noClaim_reason regE mE [leafE, e] tyE (List.mem_singleton.mpr rfl) tyE_in_e.1 rfl tyE_in_e.2 w h).2
/-- The feature, directly. -/
example : Feature regE (mE, [leafE, e], tyE) "enum-values" :=
  Feature.enumValues (by intro h; cases h) (by decide +kernel)

/-! ### `resolve_enum_rfc` on `type enumeration { enum a; enum b { value 5; } enum c; }`: the values are 0, 5, 6 -/
def tyR : Stmt := S "r.yang" "type" "enumeration" 2 10
  [S "r.yang" "enum" "a" 2 30 [], S "r.yang" "enum" "b" 2 40 [S "r.yang" "value" "5" 2 50 []], S "r.yang" "enum" "c" 2 60 []]
def leafR : Stmt := S "r.yang" "leaf" "l" 2 1 [tyR]
def r : Stmt := S "r.yang" "module" "r" 1 1 [S "r.yang" "prefix" "pr" 1 10 [], leafR]
def mR : Mod := ⟨0, r⟩
def envR : Env := { reg := { mods := [mR], modules := [("r", 0)] }, link := {}, dict := [], fuel := 10 }
/-- the members as written: names as bytes, `5` as a literal -/
def msR : List (Goyang.Spec.Enum.Name × Option Goyang.Spec.Number.Lit) :=
  [([97], none), ([98], some ⟨none, [5], none⟩), ([99], none)]

example : (resolveTypeF envR 10 mR [leafR, r] tyR []).errs = [] := by decide +kernel
example : ∀ p ∈ msR, ∀ l, p.2 = some l → Goyang.Lemmas.Enum.LitForm l := by
  intro p hp l hl
  simp only [msR, List.mem_cons, List.not_mem_nil, or_false] at hp
  rcases hp with rfl | rfl | rfl
  · cases hl
  · cases hl; exact ⟨⟨by decide, by decide⟩, by decide, rfl, by decide⟩
  · cases hl
example : (tyR.all "enum").map (fun e => (bytesOf e.arg, (e.argOf? "value").map bytesOf))
    = msR.map (fun p => (p.1, p.2.map Goyang.Spec.Number.Lit.render)) := by decide +kernel
example : Goyang.Spec.Enum.table (msR.map fun p => (p.1, p.2.map Goyang.Spec.Number.Lit.num))
    = [([97], 0), ([98], 5), ([99], 6)] := by decide +kernel

/-! ### `resolve_fd_rfc` on `type decimal64 { fraction-digits 3; }` -/
def tyF : Stmt := S "f.yang" "type" "decimal64" 2 10 [S "f.yang" "fraction-digits" "3" 2 30 []]
def leafF : Stmt := S "f.yang" "leaf" "l" 2 1 [tyF]
def fM : Stmt := S "f.yang" "module" "f" 1 1 [S "f.yang" "prefix" "pf" 1 10 [], leafF]
def mF : Mod := ⟨0, fM⟩
def envF : Env := { reg := { mods := [mF], modules := [("f", 0)] }, link := {}, dict := [], fuel := 10 }
def litF : Goyang.Spec.Number.Lit := ⟨none, [3], none⟩
example : (resolveTypeF envF 10 mF [leafF, fM] tyF []).errs = [] ∧
    ((resolveTypeF envF 10 mF [leafF, fM] tyF []).ty.map (·.fractionDigits)) = some 3 := by decide +kernel
example : litF.digitsOK ∧ litF.ip ≠ [] ∧ litF.fp = none ∧ litF.noLeadingZero :=
  ⟨⟨by decide, by decide⟩, by decide, rfl, by decide⟩
example : bytesOf "3" = litF.render := by decide +kernel

/-! ### `specResolve_noClaim_iff_loaded`, `resolve_verdict_inside_claim_full` on
`type enumeration { enum a; enum b; }` (values 0 and 1 are assigned) -/
def tyN : Stmt := S "n.yang" "type" "enumeration" 2 10 [S "n.yang" "enum" "a" 2 30 [], S "n.yang" "enum" "b" 2 40 []]
def leafN : Stmt := S "n.yang" "leaf" "l" 2 1 [tyN]
def n : Stmt := S "n.yang" "module" "n" 1 1 [S "n.yang" "prefix" "pn" 1 10 [], leafN]
def mN : Mod := ⟨0, n⟩
def regN : Registry := { mods := [mN], modules := [("n", 0)] }

theorem seqId_regN : SeqId regN := by
  intro a ha b hb _
  have ha' : a ∈ [mN] := ha
  have hb' : b ∈ [mN] := hb
  rw [List.mem_singleton] at ha' hb'
  rw [ha', hb']
theorem mN_mem : mN ∈ regN.mods := List.mem_singleton.mpr rfl
theorem mN_sch : PartOfSchema regN mN :=
  ⟨mN, (show Identity.moduleEntries regN = [mN] from rfl) ▸ List.mem_singleton.mpr rfl, IncludesStar.refl _⟩
theorem inPlace_tyN : InPlace regN (mN, [leafN, n], tyN) :=
  ⟨mN_mem, List.Mem.head _, List.Mem.tail _ (List.Mem.head _), rfl⟩
theorem tablesOK_regN : Goyang.Lemmas.Bridge.TablesOK regN := by
  refine ⟨?_, ?_⟩
  · intro i hi
    have hi' : i < 1 := hi
    match i, hi' with
    | 0, _ => rfl
  · intro sub kv hkv
    cases sub with
    | false =>
      have hkv' : kv ∈ [("n", 0)] := hkv
      rw [List.mem_singleton] at hkv'
      subst hkv'
      exact ⟨mN, List.Mem.head _, rfl, rfl⟩
    | true => exact absurd hkv (by show kv ∉ ([] : List (String × Nat)); exact List.not_mem_nil)
theorem ok_tyN : ∃ k ls, chainOf regN 10 mN [leafN, n] tyN [] = .ok k ls := by
  have h : (match chainOf regN 10 mN [leafN, n] tyN [] with | .ok _ _ => true | _ => false) = true := by
    decide +kernel
  cases hc : chainOf regN 10 mN [leafN, n] tyN [] with
  | ok k ls => exact ⟨k, ls, rfl⟩
  | error => rw [hc] at h; cases h
  | noClaim w => rw [hc] at h; cases h
theorem inside_tyN : InsideClaim regN (mN, [leafN, n], tyN) := by
  obtain ⟨k, ls, h⟩ := ok_tyN
  exact spec_ok_inside_claim regN seqId_regN 10 mN [leafN, n] tyN [] k ls mN_mem h
/-- No integer argument is written on the chain (the members have no `value`): `CanonArgs` holds. -/
theorem canon_tyN : ∀ kind chain, DerivesFrom regN mN [leafN, n] tyN kind chain →
    Goyang.Lemmas.TypesAgreeFull.CanonArgs chain := by
  intro kind chain h
  have hch := Goyang.Lemmas.TypesAgreeFull.derives_builtin (t := tyN) (by decide) h
  subst hch
  refine ⟨?_, ?_, ?_⟩
  · intro es hes e he a ha
    have h0 : chainEnums [Link.ty mN [leafN, n] tyN] = some [S "n.yang" "enum" "a" 2 30 [], S "n.yang" "enum" "b" 2 40 []] := rfl
    rw [h0] at hes
    cases hes
    simp only [List.mem_cons, List.not_mem_nil, or_false] at he
    rcases he with rfl | rfl
    · exact absurd ha (by show (none : Option String) ≠ some a; intro h'; cases h')
    · exact absurd ha (by show (none : Option String) ≠ some a; intro h'; cases h')
  · intro bs hbs
    have h0 : chainBits [Link.ty mN [leafN, n] tyN] = none := rfl
    rw [h0] at hbs
    cases hbs
  · intro f hf
    have h0 : chainFractionDigits [Link.ty mN [leafN, n] tyN] = none := rfl
    rw [h0] at hf
    cases hf

/-- The model resolves it without error to the table a ↦ 0, b ↦ 1 (last member first) … -/
example : (resolveType regN mN [leafN, n] tyN).2 = [] ∧
    ((resolveType regN mN [leafN, n] tyN).1.bind (·.enum)).map (·.toInt) = some [([98], 1), ([97], 0)] := by decide +kernel
/-- … `resolve_verdict_inside_claim_full` applies: its second case holds … -/
example : ∃ k ls, chainOf regN (specFuel regN) mN [leafN, n] tyN [] = .ok k ls ∧
    ∀ y, resolveType regN mN [leafN, n] tyN = (some y, []) → AgreesWithFull y (inherit k ls) := by
  rcases resolve_verdict_inside_claim_full regN (by decide +kernel) (by decide +kernel) mN [leafN, n] tyN
    inPlace_tyN mN_sch rfl inside_tyN canon_tyN with ⟨_, hno, _⟩ | ⟨k, ls, hc, _, _, hag⟩
  · exact absurd (Resolvable.builtin (by decide)
      (by intro ut hut; exact absurd hut (by rw [show tyN.all "type" = [] from rfl]; exact List.not_mem_nil))) hno
  · exact ⟨k, ls, hc, hag⟩
/-- … and so does `specResolve_noClaim_iff_loaded` (`TablesOK`, `linkOk`): here the specification makes a claim. -/
example : ¬ ∃ m ∈ regN.mods, ¬ PartOfSchema regN m := by
  rintro ⟨m, hm, hn⟩
  have hm' : m ∈ [mN] := hm
  rw [List.mem_singleton] at hm'
  subst hm'
  exact hn mN_sch
open Goyang.Lemmas.TypesFuel in
example : (∃ w, specResolve regN (specFuel regN) mN [leafN, n] tyN [] = .noClaim w) →
    ∃ k ls, chainOf regN (specFuel regN) mN [leafN, n] tyN [] = .ok k ls ∧ chainInClaim ls = false := by
  intro h
  have hiff := specResolve_noClaim_iff_loaded regN tablesOK_regN (by decide +kernel) mN [leafN, n] tyN mN_mem mN_sch
    (child_below (child_below (self_mem_descendants _) (List.Mem.tail _ (List.Mem.head _))) (List.Mem.head _)) rfl
    (by
      intro s hs
      simp only [List.mem_cons, List.not_mem_nil, or_false] at hs
      rcases hs with rfl | rfl
      · exact child_below (self_mem_descendants _) (List.Mem.tail _ (List.Mem.head _))
      · exact self_mem_descendants _)
  rcases hiff.mp h with ⟨m, hm, hn, _⟩ | ⟨_, ⟨site, w, hs, hf⟩ | hc⟩
  · have hm' : m ∈ [mN] := hm
    rw [List.mem_singleton] at hm'
    subst hm'
    exact absurd mN_sch hn
  · exact absurd hf (inside_tyN site w hs)
  · exact hc
/-- `wellLinked_of_linkOk` applies (every loaded module is part of a schema). -/
example : wellLinked regN = true :=
  wellLinked_of_linkOk regN (by decide +kernel) (by
    intro m hm
    have hm' : m ∈ [mN] := hm
    rw [List.mem_singleton] at hm'
    subst hm'
    exact mN_sch)

/-! ### `resolve_verdict_inside_claim_full` with an explicit value: `enum a; enum b { value 5; } enum c;`

The kernel cannot evaluate `chainOf` here (`parseIntLit "5"` runs `String.toNat!`), so `InsideClaim` is
shown through `insideClaim_builtin` and the evaluation lemmas of Lemmas/TypesStrBridge.lean. -/
def eRa : Stmt := S "r.yang" "enum" "a" 2 30 []
def eRb : Stmt := S "r.yang" "enum" "b" 2 40 [S "r.yang" "value" "5" 2 50 []]
def eRc : Stmt := S "r.yang" "enum" "c" 2 60 []
theorem enums_tyR : tyR.all "enum" = [eRa, eRb, eRc] := rfl

open Goyang.Lemmas.TypesAssign Goyang.Lemmas.TypesStrBridge in
/-- The executable specification assigns 0, 5, 6. -/
theorem assign_tyR : assignValues "value" (-2147483648) 2147483647 (tyR.all "enum") = some [("a", 0), ("b", 5), ("c", 6)] := by
  have h3 : parseIntLit "5" = some 5 := by
    rw [parseIntLit_digits "5" ['5'] (by simp) (by simp) (by simp) (by simp)]; rfl
  have hr : readMembers "value" (tyR.all "enum") = some [("a", none), ("b", some 5), ("c", none)] := by
    rw [enums_tyR]
    unfold readMembers
    have ha : eRa.argOf? "value" = none := rfl
    have hb : eRb.argOf? "value" = some "5" := rfl
    have hc : eRc.argOf? "value" = none := rfl
    simp [ha, hb, hc, h3]
    exact ⟨rfl, rfl, rfl⟩
  rw [assignValues_eq, hr]
  rfl

theorem seqId_regR : SeqId envR.reg := by
  intro a ha b hb _
  have ha' : a ∈ [mR] := ha
  have hb' : b ∈ [mR] := hb
  rw [List.mem_singleton] at ha' hb'
  rw [ha', hb']
theorem mR_mem : mR ∈ envR.reg.mods := List.mem_singleton.mpr rfl
theorem mR_sch : PartOfSchema envR.reg mR :=
  ⟨mR, (show Identity.moduleEntries envR.reg = [mR] from rfl) ▸ List.mem_singleton.mpr rfl, IncludesStar.refl _⟩
theorem inPlace_tyR : InPlace envR.reg (mR, [leafR, r], tyR) :=
  ⟨mR_mem, List.Mem.head _, List.Mem.tail _ (List.Mem.head _), rfl⟩
theorem inside_tyR : InsideClaim envR.reg (mR, [leafR, r], tyR) :=
  Goyang.Lemmas.TypesAgreeFull.insideClaim_builtin (t := tyR) (by decide) rfl ⟨_, rfl⟩
    (fun _ => by rw [assign_tyR]; intro h; cases h)
    (fun h => absurd (show tyR.all "bit" = [] from rfl) h)
    (fun a ha => by
      have h0 : tyR.argOf? "fraction-digits" = none := rfl
      rw [h0] at ha
      cases ha)
/-- The only integer argument on the chain is `5`: canonical. -/
theorem canon_tyR : ∀ kind chain, DerivesFrom envR.reg mR [leafR, r] tyR kind chain →
    Goyang.Lemmas.TypesAgreeFull.CanonArgs chain := by
  intro kind chain h
  have hch := Goyang.Lemmas.TypesAgreeFull.derives_builtin (t := tyR) (by decide) h
  subst hch
  refine ⟨?_, ?_, ?_⟩
  · intro es hes e he a ha
    have h0 : chainEnums [Link.ty mR [leafR, r] tyR] = some [eRa, eRb, eRc] := rfl
    rw [h0] at hes
    cases hes
    simp only [List.mem_cons, List.not_mem_nil, or_false] at he
    rcases he with rfl | rfl | rfl
    · exact absurd ha (by show (none : Option String) ≠ some a; intro h'; cases h')
    · have hb : eRb.argOf? "value" = some "5" := rfl
      rw [hb] at ha
      cases ha
      exact ⟨false, ['5'], by simp, by simp, by simp, Or.inr (by simp)⟩
    · exact absurd ha (by show (none : Option String) ≠ some a; intro h'; cases h')
  · intro bs hbs
    have h0 : chainBits [Link.ty mR [leafR, r] tyR] = none := rfl
    rw [h0] at hbs
    cases hbs
  · intro f hf
    have h0 : chainFractionDigits [Link.ty mR [leafR, r] tyR] = none := rfl
    rw [h0] at hf
    cases hf

/-- The model's table (last member first) … -/
example : (resolveType envR.reg mR [leafR, r] tyR).2 = [] ∧
    ((resolveType envR.reg mR [leafR, r] tyR).1.bind (·.enum)).map (·.toInt) = some [([99], 6), ([98], 5), ([97], 0)] := by
  decide +kernel
/-- … agrees with the executable specification: the second case of `resolve_verdict_inside_claim_full`. -/
example : ∃ k ls, chainOf envR.reg (specFuel envR.reg) mR [leafR, r] tyR [] = .ok k ls ∧
    ∀ y, resolveType envR.reg mR [leafR, r] tyR = (some y, []) → AgreesWithFull y (inherit k ls) := by
  rcases resolve_verdict_inside_claim_full envR.reg (by decide +kernel) (by decide +kernel) mR [leafR, r] tyR
    inPlace_tyR mR_sch rfl inside_tyR canon_tyR with ⟨_, hno, _⟩ | ⟨k, ls, hc, _, _, hag⟩
  · exact absurd (Resolvable.builtin (by decide)
      (by intro ut hut; exact absurd hut (by rw [show tyR.all "type" = [] from rfl]; exact List.not_mem_nil))) hno
  · exact ⟨k, ls, hc, hag⟩

/-- `CanonReg` holds of the explicit-value example (its only integer argument is `5`), so
`canonArgs_of_canonReg` gives `canon_tyR` again. -/
theorem canonReg_envR : Goyang.Lemmas.TypesAgreeFull.CanonReg envR.reg := by
  intro m hm s hs
  have hm' : m ∈ [mR] := hm
  rw [List.mem_singleton] at hm'
  subst hm'
  have hs' : s ∈ [r, S "r.yang" "prefix" "pr" 1 10 [], leafR, tyR, eRa, eRb, S "r.yang" "value" "5" 2 50 [], eRc] := hs
  simp only [List.mem_cons, List.not_mem_nil, or_false] at hs'
  have hno : ∀ (x : Stmt) (k : String), x.argOf? k = none → ∀ a, x.argOf? k = some a →
      Goyang.Lemmas.TypesStrBridge.CanonInt a := by
    intro x k h0 a ha; rw [h0] at ha; cases ha
  rcases hs' with rfl | rfl | rfl | rfl | rfl | rfl | rfl | rfl
  · exact ⟨hno _ _ rfl, hno _ _ rfl, hno _ _ rfl⟩
  · exact ⟨hno _ _ rfl, hno _ _ rfl, hno _ _ rfl⟩
  · exact ⟨hno _ _ rfl, hno _ _ rfl, hno _ _ rfl⟩
  · exact ⟨hno _ _ rfl, hno _ _ rfl, hno _ _ rfl⟩
  · exact ⟨hno _ _ rfl, hno _ _ rfl, hno _ _ rfl⟩
  · refine ⟨?_, hno _ _ rfl, hno _ _ rfl⟩
    intro a ha
    have hb : eRb.argOf? "value" = some "5" := rfl
    rw [hb] at ha
    cases ha
    exact ⟨false, ['5'], by simp, by simp, by simp, Or.inr (by simp)⟩
  · exact ⟨hno _ _ rfl, hno _ _ rfl, hno _ _ rfl⟩
  · exact ⟨hno _ _ rfl, hno _ _ rfl, hno _ _ rfl⟩
example : ∀ kind chain, DerivesFrom envR.reg mR [leafR, r] tyR kind chain → Goyang.Lemmas.TypesAgreeFull.CanonArgs chain :=
  canonArgs_of_canonReg envR.reg canonReg_envR mR [leafR, r] tyR inPlace_tyR

/-! ### … and with fraction-digits: `type decimal64 { fraction-digits 3; }` -/
def fdF : Stmt := S "f.yang" "fraction-digits" "3" 2 30 []
theorem mF_mem : mF ∈ envF.reg.mods := List.mem_singleton.mpr rfl
theorem mF_sch : PartOfSchema envF.reg mF :=
  ⟨mF, (show Identity.moduleEntries envF.reg = [mF] from rfl) ▸ List.mem_singleton.mpr rfl, IncludesStar.refl _⟩
theorem inPlace_tyF : InPlace envF.reg (mF, [leafF, fM], tyF) :=
  ⟨mF_mem, List.Mem.head _, List.Mem.tail _ (List.Mem.head _), rfl⟩
open Goyang.Lemmas.TypesStrBridge in
theorem inside_tyF : InsideClaim envF.reg (mF, [leafF, fM], tyF) :=
  Goyang.Lemmas.TypesAgreeFull.insideClaim_builtin (t := tyF) (by decide) rfl ⟨_, rfl⟩
    (fun h => absurd (show tyF.all "enum" = [] from rfl) h)
    (fun h => absurd (show tyF.all "bit" = [] from rfl) h)
    (fun a ha => by
      have h0 : tyF.argOf? "fraction-digits" = some "3" := rfl
      rw [h0] at ha
      cases ha
      exact ⟨3, by rw [toNat?_digits "3" ['3'] (by simp) (by simp) (by simp)]; rfl, by omega, by omega⟩)
theorem canon_tyF : ∀ kind chain, DerivesFrom envF.reg mF [leafF, fM] tyF kind chain →
    Goyang.Lemmas.TypesAgreeFull.CanonArgs chain := by
  intro kind chain h
  have hch := Goyang.Lemmas.TypesAgreeFull.derives_builtin (t := tyF) (by decide) h
  subst hch
  refine ⟨?_, ?_, ?_⟩
  · intro es hes
    have h0 : chainEnums [Link.ty mF [leafF, fM] tyF] = none := rfl
    rw [h0] at hes
    cases hes
  · intro bs hbs
    have h0 : chainBits [Link.ty mF [leafF, fM] tyF] = none := rfl
    rw [h0] at hbs
    cases hbs
  · intro f hf
    have h0 : chainFractionDigits [Link.ty mF [leafF, fM] tyF] = some fdF := rfl
    rw [h0] at hf
    cases hf
    exact ⟨false, ['3'], by show ("3" : String).toList = _; simp, by simp, by simp, Or.inr (by simp)⟩
/-- The resolved type has 3 fraction digits, and so has the type the executable specification computes. -/
example : ∃ k ls, chainOf envF.reg (specFuel envF.reg) mF [leafF, fM] tyF [] = .ok k ls ∧
    ∀ y, resolveType envF.reg mF [leafF, fM] tyF = (some y, []) → AgreesWithFull y (inherit k ls) := by
  rcases resolve_verdict_inside_claim_full envF.reg (by decide +kernel) (by decide +kernel) mF [leafF, fM] tyF
    inPlace_tyF mF_sch rfl inside_tyF canon_tyF with ⟨_, hno, _⟩ | ⟨k, ls, hc, _, _, hag⟩
  · exact absurd (Resolvable.builtin (by decide)
      (by intro ut hut; exact absurd hut (by rw [show tyF.all "type" = [] from rfl]; exact List.not_mem_nil))) hno
  · exact ⟨k, ls, hc, hag⟩

/-! ### Outside the canonical form the two readings differ: `enum a { value 010; }`

Go's `ParseInt` reads the argument with base 0 (`010` is octal 8: replayed on the Go code, which also
reads `0x10` as 16 and `1_0` as 10); the executable specification's `parseIntLit` reads decimal digits
(10).  So the hypothesis `CanonArgs` of `resolve_verdict_inside_claim_full` cannot be dropped. -/
def eZ : Stmt := S "z.yang" "enum" "a" 2 30 [S "z.yang" "value" "010" 2 40 []]
def tyZ : Stmt := S "z.yang" "type" "enumeration" 2 10 [eZ]
def leafZ : Stmt := S "z.yang" "leaf" "l" 2 1 [tyZ]
def z : Stmt := S "z.yang" "module" "z" 1 1 [S "z.yang" "prefix" "pz" 1 10 [], leafZ]
def mZ : Mod := ⟨0, z⟩
def regZ : Registry := { mods := [mZ], modules := [("z", 0)] }

open Goyang.Lemmas.TypesAssign Goyang.Lemmas.TypesStrBridge in
/-- The model resolves `value 010` without error to 8; the executable specification assigns 10. -/
theorem noncanonical_value_disagrees :
    ((resolveType regZ mZ [leafZ, z] tyZ).2 = [] ∧
      ((resolveType regZ mZ [leafZ, z] tyZ).1.bind (·.enum)).map (·.toInt) = some [([97], 8)]) ∧
    assignValues "value" (-2147483648) 2147483647 (tyZ.all "enum") = some [("a", 10)] ∧
    ¬ CanonInt "010" := by
  refine ⟨by decide +kernel, ?_, ?_⟩
  · have h3 : parseIntLit "010" = some 10 := by
      rw [parseIntLit_digits "010" ['0', '1', '0'] (by simp) (by simp) (by simp) (by simp)]; rfl
    have hr : readMembers "value" (tyZ.all "enum") = some [("a", some 10)] := by
      show readMembers "value" [eZ] = _
      unfold readMembers
      have h2 : eZ.argOf? "value" = some "010" := rfl
      simp [h2, h3]
      rfl
    rw [assignValues_eq, hr]
    rfl
  · rintro ⟨neg, ds, h, _, hd, hz⟩
    have h0 : ("010" : String).toList = ['0', '1', '0'] := by simp
    rw [h0] at h
    cases neg with
    | true =>
      simp only [if_true, List.cons_append, List.nil_append, List.cons.injEq] at h
      exact absurd h.1 (by decide)
    | false =>
      simp only [Bool.false_eq_true, if_false, List.nil_append] at h
      subst h
      rcases hz with hz | hz
      · cases hz
      · exact hz rfl

/-! ### `resolve_range_denotes`, `resolve_range_within_base`, `resolve_length_denotes` need only an error-free
resolution: they apply to the shadowing example (`type t` resolves to `int32`, shown by `decide` above);
chains with `range` / `length` statements at two levels are evaluated at the end of Lemmas/TypesRangeRfc.lean. -/
example (y : YType) (h : resolveTypeF env 10 mM [leaf, lst, con, m] ty [] = { ty := some y, errs := [] })
    (hk : y.kind = "int32") :
    Goyang.Spec.Range.Within (Goyang.Lemmas.Range.abs y.range) (Goyang.Lemmas.Range.abs Goyang.Model.Range.int32Range) :=
  resolve_range_within_base env 10 mM [leaf, lst, con, m] ty [] y (by decide) h false 0 _
    (by rw [hk]; exact .int .int32)
/-- canonical integer arguments: `CanonInt` -/
example : Goyang.Lemmas.TypesStrBridge.CanonInt "3" ∧ Goyang.Lemmas.TypesStrBridge.CanonInt "-12" :=
  ⟨⟨false, ['3'], by simp, by simp, by simp, Or.inr (by simp)⟩, ⟨true, ['1', '2'], by simp, by simp, by simp, Or.inr (by simp)⟩⟩

end Ex

end Goyang.Props.C09
