import Goyang.Lemmas.Range
/-
C10 — range and length restrictions denote the written set and only ever narrow.

Everything is stated against `Goyang.Spec.Range`: the denotation `Mem x (abs r)` ("x ∈ ⟦r⟧", `abs r`
being the list of mantissa intervals of the model value `r`), `SDC` (sorted, disjoint, coalesced),
`Within` (⊆), the reading of the restriction text `read (lit dec f) s` and the value of the written
parts `writtenIvs ⟦parent⟧ w`, in which `min` / `max` are the least / greatest element of the parent's
set (`min_is_least`, `max_is_greatest`).

Scope of the quantifiers, as in the property: `ScaleOk dec f` = integers and lengths (`dec = false`,
`f = 0`) or decimal64 at `1 ≤ f ≤ 18`; `ParentOk f y` = the parent is at that scale with 64-bit
magnitudes and is sorted, disjoint and coalesced — which holds for the eight built-in ranges, the
decimal64 base ranges, `0..2^64-1` for lengths, and is preserved by every accepted restriction
(`parse_denotes`), so it holds for every "previously restricted" parent (`chain_narrows`).  The empty
parent `[]` is "no parent" (`ParseRangesInt` / `ParseRangesDecimal`): nothing to be inside of, and
`min`/`max` have no value.  Nothing is assumed about magnitudes staying away from `2^64 - 1` or
`-2^63`: the wrap-around of `addQuantum` is part of the model and is handled in
`Goyang.Lemmas.Range.coalesceLoop_abs`.

Helper lemmas: `Goyang/Lemmas/RangeZ.lean` (interval algebra over ℤ), `Goyang/Lemmas/Range.lean`
(refinement of the `Number`-level model to it; parsing).
-/
namespace Goyang.Props.C10
open Goyang.Model.Number Goyang.Model.Range Goyang.Spec.Range
open Goyang.Lemmas.RangeZ Goyang.Lemmas.Range
open Goyang.Spec.Number (num)

/-! ### meaning of `min` and `max` -/

/-- `min` stands for the least element of the parent's set … -/
theorem min_is_least (p : List Iv) (m : Int) (h : Bound.eval p .min = some m) : IsLeast p m :=
  lowest_isLeast p m h

/-- … and `max` for the greatest. -/
theorem max_is_greatest (p : List Iv) (m : Int) (h : Bound.eval p .max = some m) : IsGreatest p m :=
  highest_isGreatest p m h

/-! ### parse_denotes -/

/-- A successful parse: the text reads as parts `w` (grammar of the specification), their values
`ivs` are defined and every part is in order; the result denotes exactly the union of the written
parts, is sorted, disjoint and coalesced, is at the scale of the type with 64-bit magnitudes and not
empty (so it is again a legitimate parent), and is a subset of the parent's set. -/
theorem parse_denotes (dec : Bool) (f : Nat) (hsc : ScaleOk dec f) (y : YangRange) (hy : ParentOk f y)
    (s : List UInt8) (r : YangRange) (h : parseChildRanges y s dec f = .ok r) :
    ∃ w ivs, Goyang.Spec.Range.read (lit dec f) s = some w ∧ writtenIvs (abs y) w = some ivs ∧ ordered ivs = true ∧
      SetEq (abs r) ivs ∧ SDC (abs r) ∧ (y ≠ [] → Within (abs r) (abs y)) ∧ ParentOk f r ∧ r ≠ [] := by
  obtain ⟨w, ivs, hw, hiv, hall, hmem, hsdc, hu, hne, hin⟩ := parse_ok hsc hy s r h
  refine ⟨w, ivs, hw, hiv, (ordered_iff ivs).mpr hall, hmem, hsdc, ?_, ⟨hu, hsdc⟩, hne⟩
  intro hy0
  rcases hin with h0 | h0
  · exact absurd h0 hy0
  · exact h0

/-- the hypotheses of `parse_denotes` are satisfiable: `range "1..10 | 11..20|-0"` under int8 gives `-0..20` -/
example : ScaleOk false 0 ∧ ParentOk 0 int8Range ∧
    parseChildRanges int8Range [49, 46, 46, 49, 48, 32, 124, 32, 49, 49, 46, 46, 50, 48, 124, 45, 48] false 0
      = .ok [{ min := { value := 0, fd := 0, neg := true }, max := { value := 20, fd := 0, neg := false } }] := by
  refine ⟨Or.inl ⟨rfl, rfl⟩, ⟨?_, ?_⟩, by rfl⟩
  · intro p hp
    simp [int8Range, intRange] at hp
    subst hp
    exact ⟨⟨rfl, by decide⟩, ⟨rfl, by decide⟩⟩
  · exact (sdcB_iff _).mp (by decide)

/-! ### parse_rejects (and its converse) -/

/-- A restriction is rejected with an error whenever it is syntactically invalid, or uses `min`/`max`
where they have no value (no parent), or has a part whose bounds are out of order, or denotes a value
its parent's set does not contain. -/
theorem parse_rejects (dec : Bool) (f : Nat) (hsc : ScaleOk dec f) (y : YangRange) (hy : ParentOk f y)
    (s : List UInt8)
    (hbad : Goyang.Spec.Range.read (lit dec f) s = none ∨
      ∃ w, Goyang.Spec.Range.read (lit dec f) s = some w ∧
        (writtenIvs (abs y) w = none ∨
         ∃ ivs, writtenIvs (abs y) w = some ivs ∧ (ordered ivs = false ∨ (y ≠ [] ∧ ¬ Within ivs (abs y))))) :
    ∃ e, parseChildRanges y s dec f = .error e := by
  cases hp : parseChildRanges y s dec f with
  | error e => exact ⟨e, rfl⟩
  | ok r =>
    exfalso
    obtain ⟨w, ivs, hw, hiv, hall, hmem, _, _, _, hin⟩ := parse_ok hsc hy s r hp
    rcases hbad with h | ⟨w', hw', h⟩
    · rw [hw] at h; cases h
    · rw [hw] at hw'
      simp only [Option.some.injEq] at hw'
      subst hw'
      rcases h with h | ⟨ivs', hiv', h⟩
      · rw [hiv] at h; cases h
      · rw [hiv] at hiv'
        simp only [Option.some.injEq] at hiv'
        subst hiv'
        rcases h with h | ⟨hy0, hout⟩
        · rw [(ordered_iff ivs).mpr hall] at h; cases h
        · rcases hin with h0 | h0
          · exact hy0 h0
          · exact hout (fun x hx => h0 x ((hmem x).mpr hx))

/-- satisfiable: `range "5..1"` (out of order) and `range "1..200"` under int8 (outside) -/
example : ordered [((5 : Int), (1 : Int))] = false ∧ ¬ Within [((1 : Int), (200 : Int))] (abs int8Range) := by
  refine ⟨by decide, ?_⟩
  intro h
  obtain ⟨q, hq, _, h2⟩ := h 200 ⟨(1, 200), List.mem_cons_self .., by decide, by decide⟩
  simp [abs, int8Range, intRange, absP, num] at hq
  subst hq
  simp at h2

/-- Conversely nothing else is rejected: a well-formed restriction whose parts are in order and which
stays inside the parent's set (or has no parent) is accepted. -/
theorem parse_accepts (dec : Bool) (f : Nat) (hsc : ScaleOk dec f) (y : YangRange) (hy : ParentOk f y)
    (s : List UInt8) (w : List Part) (ivs : List Iv)
    (hw : Goyang.Spec.Range.read (lit dec f) s = some w) (hiv : writtenIvs (abs y) w = some ivs)
    (hord : ordered ivs = true) (hin : y = [] ∨ Within ivs (abs y)) :
    ∃ r, parseChildRanges y s dec f = .ok r := by
  cases hp : parseChildRanges y s dec f with
  | ok r => exact ⟨r, rfl⟩
  | error e =>
    exfalso
    obtain ⟨hy0, hout⟩ := parse_err hsc hy s e hp w ivs hw hiv ((ordered_iff ivs).mp hord)
    rcases hin with h | h
    · exact hy0 h
    · exact hout h

/-- The three theorems above in one executable judgement — the oracle `Spec.Range.conforms` that the
correspondence runner applies to every outcome of the Go code (driver op `spec.step`): the model's
outcome always conforms.  (`none` = no parent / an error; the inclusion and equality tests of the
oracle are the critical-point tests, shown equivalent to `Within` / `SetEq` in `Lemmas.RangeZ`.) -/
theorem model_conforms (dec : Bool) (f : Nat) (hsc : ScaleOk dec f) (y : YangRange) (hy : ParentOk f y)
    (s : List UInt8) :
    conforms (if y = [] then none else some (abs y)) (Goyang.Spec.Range.read (lit dec f) s)
      (match parseChildRanges y s dec f with | .ok r => some (abs r) | .error _ => none) = true := by
  have hgetD : (if y = [] then none else some (abs y) : Option (List Iv)).getD [] = abs y := by
    by_cases h0 : y = []
    · simp [h0, abs]
    · simp [h0]
  cases hp : parseChildRanges y s dec f with
  | ok r =>
    obtain ⟨w, ivs, hw, hiv, hord, hmem, hsdc, hin, _, _⟩ := parse_denotes dec f hsc y hy s r hp
    have hacc : mustAccept (if y = [] then none else some (abs y)) w = some ivs := by
      unfold mustAccept
      rw [hgetD, hiv]
      simp only [hord, Bool.true_and]
      by_cases h0 : y = []
      · simp [h0]
      · simp only [h0, if_false]
        have : subsetB ivs (abs y) = true :=
          (subsetB_iff _ _).mpr (fun x hx => hin h0 x ((hmem x).mpr hx))
        simp [this]
    simp only [conforms, hw, hacc, Bool.and_eq_true]
    exact ⟨(sdcB_iff _).mpr hsdc, (setEqB_iff _ _).mpr hmem⟩
  | error e =>
    simp only
    cases hw : Goyang.Spec.Range.read (lit dec f) s with
    | none => simp [conforms]
    | some w =>
      cases hacc : mustAccept (if y = [] then none else some (abs y)) w with
      | none => simp [conforms, hacc]
      | some ivs =>
        exfalso
        unfold mustAccept at hacc
        rw [hgetD] at hacc
        cases hiv : writtenIvs (abs y) w with
        | none => simp [hiv] at hacc
        | some ivs' =>
          rw [hiv] at hacc
          simp only at hacc
          have hacc' : ordered ivs' = true ∧ (y = [] ∨ Within ivs' (abs y)) := by
            by_cases h0 : y = []
            · subst h0
              simp only [if_true, Bool.and_true] at hacc
              cases ho : ordered ivs' with
              | true => exact ⟨rfl, Or.inl rfl⟩
              | false => simp [ho] at hacc
            · simp only [h0, if_false] at hacc
              cases ho : ordered ivs' with
              | false => simp [ho] at hacc
              | true =>
                cases hs : subsetB ivs' (abs y) with
                | false => simp [ho, hs] at hacc
                | true => exact ⟨rfl, Or.inr ((subsetB_iff _ _).mp hs)⟩
          obtain ⟨r, hr⟩ := parse_accepts dec f hsc y hy s w ivs' hw hiv hacc'.1 hacc'.2
          rw [hp] at hr
          cases hr

/-! ### coalesce at the extremes -/

/-- `coalesce` on valid parts sorted by lower bound returns a sorted, disjoint, coalesced list with the
same denotation — for all 64-bit magnitudes, in particular when a part ends at `2^64 - 1`, where
`max + one quantum` wraps around (the repaired guard). -/
theorem coalesce_denotes (f : Nat) (hf : f ≤ 18) (r : YangRange) (hu : Uniform f r)
    (hv : AllValid (abs r)) (hs : SortedLo (abs r)) :
    SDC (abs (coalesce r)) ∧ SetEq (abs (coalesce r)) (abs r) ∧ Uniform f (coalesce r) := by
  obtain ⟨ha, hcu⟩ := coalesce_abs hf hu
  have hspec := coalZ_spec (abs r) hv hs
  rw [ha]
  exact ⟨hspec.1, hspec.2, hcu⟩

/-- satisfiable at the wrap: `0..18446744073709551615|18446744073709551615` (finding D21) is merged into one part -/
example : coalesce [{ min := ⟨0, 0, false⟩, max := ⟨18446744073709551615, 0, false⟩ },
    { min := ⟨18446744073709551615, 0, false⟩, max := ⟨18446744073709551615, 0, false⟩ }]
    = [{ min := ⟨0, 0, false⟩, max := ⟨18446744073709551615, 0, false⟩ }] := by decide

/-- `sort.Sort` is not stable, but parts that tie under `YangRange.Less` have equal mantissas: whatever
order ties end up in, the same intervals are in the same places.  (`coalesce_denotes` asks only for
"sorted by lower bound", so the denotation and shape of the result do not depend on the order of
ties at all; what can differ is the sign of a zero bound in the printed result, `-0` vs `0`.) -/
theorem sort_ties_denote_equal (f : Nat) (hf : f ≤ 18) (a b : YRange) (ha : PartOk f a) (hb : PartOk f b)
    (h1 : rangeLess a b = false) (h2 : rangeLess b a = false) : absP a = absP b :=
  rangeLess_tie hf ha hb h1 h2

/-- satisfiable: `-0..5` and `0..5` tie -/
example : rangeLess ⟨⟨0, 0, true⟩, ⟨5, 0, false⟩⟩ ⟨⟨0, 0, false⟩, ⟨5, 0, false⟩⟩ = false ∧
    rangeLess ⟨⟨0, 0, false⟩, ⟨5, 0, false⟩⟩ ⟨⟨0, 0, true⟩, ⟨5, 0, false⟩⟩ = false := ⟨by rfl, by rfl⟩

/-- `Sort` then `coalesce` of any list of in-order parts: the normal form of the written set. -/
theorem sort_coalesce_denotes (f : Nat) (hf : f ≤ 18) (r : YangRange) (hu : Uniform f r) (hv : AllValid (abs r)) :
    SDC (abs (coalesce (sort r))) ∧ SetEq (abs (coalesce (sort r))) (abs r) := by
  have hsu := sort_uniform hu
  have hsabs := sort_abs hf hu
  obtain ⟨h1, h2, _⟩ := coalesce_denotes f hf (sort r) hsu
    (by rw [hsabs]; exact sortZ_allValid _ hv) (by rw [hsabs]; exact sortZ_sortedLo _)
  refine ⟨h1, fun x => ?_⟩
  rw [h2 x, hsabs, sortZ_mem]

/-- `Validate` accepts every sorted, disjoint, coalesced list (so the final check of
`parseChildRanges` never fires after `coalesce`). -/
theorem validate_sdc (f : Nat) (hf : f ≤ 18) (r : YangRange) (hu : Uniform f r) (hs : SDC (abs r)) :
    validate r = none := by
  rw [validate_abs hf hu]
  exact validateZ_sdc _ hs

/-! ### contains_iff -/

/-- On sorted, disjoint, coalesced lists `r.Contains(s)` is `⟦s⟧ ⊆ ⟦r⟧`, except that an empty receiver
stands for "everything" (an empty argument denotes the empty set and is contained in anything). -/
theorem contains_iff (f : Nat) (hf : f ≤ 18) (r s : YangRange) (hr : Uniform f r) (hs : Uniform f s)
    (hrs : SDC (abs r)) (hss : SDC (abs s)) :
    contains r s = true ↔ (r = [] ∨ Within (abs s) (abs r)) := by
  rw [contains_abs hf hr hs, containsZ_iff _ _ hrs hss]
  constructor
  · rintro (h | h)
    · left
      cases r with
      | nil => rfl
      | cons _ _ => simp [abs] at h
    · exact Or.inr h
  · rintro (h | h)
    · left; rw [h]; rfl
    · exact Or.inr h

/-- satisfiable and non-trivial: `10..20|30..40` contains `12..15|30` but not `20..30` -/
example :
    let n (v : Nat) : Number := ⟨v, 0, false⟩
    let r : YangRange := [⟨n 10, n 20⟩, ⟨n 30, n 40⟩]
    SDC (abs r) ∧ contains r [⟨n 12, n 15⟩, ⟨n 30, n 30⟩] = true ∧ contains r [⟨n 20, n 30⟩] = false := by
  exact ⟨(sdcB_iff _).mp (by decide), by rfl, by rfl⟩

/-- Observation (not part of the property; the Go comment says as much: "Both range lists should be in
order and non-adjacent (coalesced)"): without the shape hypothesis `Contains` is not inclusion —
`1..2|3..4` (adjacent, not coalesced) does not "contain" `2..3`.  `parseChildRanges` only ever calls
it on coalesced lists (`parse_denotes`). -/
theorem contains_iff_fails_without_sdc :
    ¬ (∀ r s : YangRange, Uniform 0 r → Uniform 0 s → (contains r s = true ↔ (r = [] ∨ Within (abs s) (abs r)))) := by
  intro h
  let n (v : Nat) : Number := ⟨v, 0, false⟩
  have hu : ∀ (l : YangRange), (∀ p ∈ l, p.min.fd = 0 ∧ p.min.value < W ∧ p.max.fd = 0 ∧ p.max.value < W) → Uniform 0 l :=
    fun l hl p hp => ⟨⟨(hl p hp).1, (hl p hp).2.1⟩, ⟨(hl p hp).2.2.1, (hl p hp).2.2.2⟩⟩
  have := (h [⟨n 1, n 2⟩, ⟨n 3, n 4⟩] [⟨n 2, n 3⟩] (hu _ (by decide)) (hu _ (by decide))).mpr
    (Or.inr ((subsetB_iff _ _).mp (by decide)))
  have hc : contains [⟨n 1, n 2⟩, ⟨n 3, n 4⟩] [⟨n 2, n 3⟩] = false := by decide
  rw [hc] at this
  cases this

/-- Observation (not part of the property): `Validate` compares every later part with the first part
only, so on its own it misses an overlap further down (`0|2..3|3` passes).  Unreachable from
`parseChildRanges`, which validates what `coalesce` returned (`validate_sdc`). -/
theorem validate_first_only_observation :
    validate [⟨⟨0, 0, false⟩, ⟨0, 0, false⟩⟩, ⟨⟨2, 0, false⟩, ⟨3, 0, false⟩⟩, ⟨⟨3, 0, false⟩, ⟨3, 0, false⟩⟩] = none := by
  rfl

/-! ### chain_narrows -/

/-- the sets a derivation chain can start from: the eight integer types, decimal64 at 1…18
fraction digits (types.go:258), and `0..2^64-1` for lengths (`Uint64Range`) -/
inductive IsBase : Bool → Nat → YangRange → Prop
  | int8 : IsBase false 0 int8Range
  | int16 : IsBase false 0 int16Range
  | int32 : IsBase false 0 int32Range
  | int64 : IsBase false 0 int64Range
  | uint8 : IsBase false 0 uint8Range
  | uint16 : IsBase false 0 uint16Range
  | uint32 : IsBase false 0 uint32Range
  | uint64 : IsBase false 0 uint64Range
  | dec (f : Nat) (h1 : 1 ≤ f) (h2 : f ≤ 18) : IsBase true f (decimalBase f)

/-- The model's built-in ranges are what `mustParseRangesInt` computes from the literals in the Go
source (`Int8Range = mustParseRangesInt("-128..127")` …); the runner also compares them with the Go
variables. -/
theorem builtin_parse :
    parseRangesInt [45, 49, 50, 56, 46, 46, 49, 50, 55] = .ok int8Range ∧
    parseRangesInt [45, 51, 50, 55, 54, 56, 46, 46, 51, 50, 55, 54, 55] = .ok int16Range ∧
    parseRangesInt [45, 50, 49, 52, 55, 52, 56, 51, 54, 52, 56, 46, 46, 50, 49, 52, 55, 52, 56, 51, 54, 52, 55] = .ok int32Range ∧
    parseRangesInt [45, 57, 50, 50, 51, 51, 55, 50, 48, 51, 54, 56, 53, 52, 55, 55, 53, 56, 48, 56, 46, 46, 57, 50, 50, 51, 51, 55, 50, 48, 51, 54, 56, 53, 52, 55, 55, 53, 56, 48, 55] = .ok int64Range ∧
    parseRangesInt [48, 46, 46, 50, 53, 53] = .ok uint8Range ∧
    parseRangesInt [48, 46, 46, 54, 53, 53, 51, 53] = .ok uint16Range ∧
    parseRangesInt [48, 46, 46, 52, 50, 57, 52, 57, 54, 55, 50, 57, 53] = .ok uint32Range ∧
    parseRangesInt [48, 46, 46, 49, 56, 52, 52, 54, 55, 52, 52, 48, 55, 51, 55, 48, 57, 53, 53, 49, 54, 49, 53] = .ok uint64Range := by
  refine ⟨?_, ?_, ?_, ?_, ?_, ?_, ?_, ?_⟩ <;> rfl

/-- every base is a legitimate, non-empty parent at its scale -/
theorem base_ok (dec : Bool) (f : Nat) (b : YangRange) (hb : IsBase dec f b) :
    ScaleOk dec f ∧ ParentOk f b ∧ b ≠ [] := by
  cases hb with
  | int8 => exact ⟨Or.inl ⟨rfl, rfl⟩, intRange_ok _ _ (by decide) (by decide)⟩
  | int16 => exact ⟨Or.inl ⟨rfl, rfl⟩, intRange_ok _ _ (by decide) (by decide)⟩
  | int32 => exact ⟨Or.inl ⟨rfl, rfl⟩, intRange_ok _ _ (by decide) (by decide)⟩
  | int64 => exact ⟨Or.inl ⟨rfl, rfl⟩, intRange_ok _ _ (by decide) (by decide)⟩
  | uint8 => exact ⟨Or.inl ⟨rfl, rfl⟩, uintRange_ok _ (by decide)⟩
  | uint16 => exact ⟨Or.inl ⟨rfl, rfl⟩, uintRange_ok _ (by decide)⟩
  | uint32 => exact ⟨Or.inl ⟨rfl, rfl⟩, uintRange_ok _ (by decide)⟩
  | uint64 => exact ⟨Or.inl ⟨rfl, rfl⟩, uintRange_ok _ (by decide)⟩
  | dec f h1 h2 =>
    refine ⟨Or.inr ⟨rfl, h1, h2⟩, ⟨?_, ?_⟩, by simp [decimalBase]⟩
    · intro p hp
      simp [decimalBase] at hp
      subst hp
      exact ⟨⟨rfl, by show H < W; unfold H W; omega⟩, ⟨rfl, by show H - 1 < W; unfold H W; omega⟩⟩
    · simp only [abs, decimalBase, List.map, absP, num, SDC]
      unfold H
      decide

/-- One accepted restriction step `prev --s--> r` is correct: `r` denotes the set written in `s`
(with `min`/`max` the bounds of `prev`), is sorted, disjoint and coalesced, and narrows `prev`. -/
def StepOk (dec : Bool) (f : Nat) (prev : YangRange) (s : List UInt8) (r : YangRange) : Prop :=
  (∃ w ivs, Goyang.Spec.Range.read (lit dec f) s = some w ∧ writtenIvs (abs prev) w = some ivs ∧ ordered ivs = true ∧
    SetEq (abs r) ivs) ∧
  SDC (abs r) ∧ Within (abs r) (abs prev)

/-- What the range overlay of `Type.resolve` (types.go:290) does to a legitimate non-empty parent:
either an error and the parent's set is kept, or a correct step to a legitimate non-empty parent. -/
theorem applyRange_step (dec : Bool) (f : Nat) (hsc : ScaleOk dec f) (y : YangRange) (hy : ParentOk f y) (hne : y ≠ [])
    (s : List UInt8) :
    match applyRange y s dec f with
    | (y', some _) => y' = y
    | (y', none) => StepOk dec f y s y' ∧ ParentOk f y' ∧ y' ≠ [] := by
  unfold applyRange
  cases hp : parseChildRanges y s dec f with
  | error e => simp
  | ok yr =>
    obtain ⟨w, ivs, hw, hiv, hord, hmem, hsdc, hin, hpo, hyr⟩ := parse_denotes dec f hsc y hy s yr hp
    by_cases he : Goyang.Model.Range.equal yr y = true
    · -- `yr.Equal(y.Range)`: the old value is kept; it denotes the same set
      simp only [he, if_true]
      have habs := equal_abs hsc.le yr y hpo.1 hy.1 he
      refine ⟨⟨⟨w, ivs, hw, hiv, hord, ?_⟩, hy.2, fun x hx => hx⟩, hy, hne⟩
      rw [← habs]
      exact hmem
    · simp only [he, Bool.false_eq_true, if_false]
      exact ⟨⟨⟨w, ivs, hw, hiv, hord, hmem⟩, hsdc, hin hne⟩, hpo, hyr⟩

/-- A whole chain is correct: every accepted step is a `StepOk` from the value before it; after a
rejected step the chain ends. -/
def ChainOk (dec : Bool) (f : Nat) : YangRange → List (List UInt8) → List (YangRange × Option RangeErr) → Prop
  | _, [], out => out = []
  | prev, s :: ss, out =>
    match out with
    | [] => False
    | (r, none) :: rest => StepOk dec f prev s r ∧ ChainOk dec f r ss rest
    | (r, some _) :: rest => r = prev ∧ rest = []

theorem rangeChain_ok (dec : Bool) (f : Nat) (hsc : ScaleOk dec f) (steps : List (List UInt8)) :
    ∀ (y : YangRange), ParentOk f y → y ≠ [] → ChainOk dec f y steps (rangeChain dec f y steps) := by
  induction steps with
  | nil => intro y _ _; simp [rangeChain, ChainOk]
  | cons s ss ih =>
    intro y hy hne
    have hstep := applyRange_step dec f hsc y hy hne s
    unfold rangeChain
    cases ha : applyRange y s dec f with
    | mk y' e =>
      rw [ha] at hstep
      cases e with
      | some e' =>
        simp only at hstep
        simp [ChainOk, hstep]
      | none =>
        simp only at hstep
        obtain ⟨hso, hpo, hne'⟩ := hstep
        simp only [ChainOk]
        exact ⟨hso, ih y' hpo hne'⟩

/-- Derivation chains only narrow: starting from a built-in range (any of the eight integer types,
decimal64 at any fraction-digits 1…18), every accepted restriction of a typedef chain denotes exactly
what is written relative to the set before it, is sorted, disjoint and coalesced, and is a subset of
the set before it. -/
theorem chain_narrows (dec : Bool) (f : Nat) (base : YangRange) (hb : IsBase dec f base) (steps : List (List UInt8)) :
    ChainOk dec f base steps (rangeChain dec f base steps) := by
  obtain ⟨hsc, hpo, hne⟩ := base_ok dec f base hb
  exact rangeChain_ok dec f hsc steps base hpo hne

/-- … hence every set along the chain is a subset of the built-in range it started from. -/
theorem chain_within_base (dec : Bool) (f : Nat) (base : YangRange) (hb : IsBase dec f base) (steps : List (List UInt8)) :
    ∀ p ∈ rangeChain dec f base steps, Within (abs p.1) (abs base) := by
  obtain ⟨hsc, hpo, hne⟩ := base_ok dec f base hb
  -- generalise: any legitimate start inside `base`
  have key : ∀ (steps : List (List UInt8)) (y : YangRange), ParentOk f y → y ≠ [] → Within (abs y) (abs base) →
      ∀ p ∈ rangeChain dec f y steps, Within (abs p.1) (abs base) := by
    intro steps
    induction steps with
    | nil => intro y _ _ _ p hp; simp [rangeChain] at hp
    | cons s ss ih =>
      intro y hy hney hin p hp
      have hstep := applyRange_step dec f hsc y hy hney s
      unfold rangeChain at hp
      cases ha : applyRange y s dec f with
      | mk y' e =>
        rw [ha] at hstep hp
        cases e with
        | some e' =>
          simp only at hstep hp
          simp only [List.mem_singleton] at hp
          subst hp
          subst hstep
          exact hin
        | none =>
          simp only at hstep hp
          obtain ⟨hso, hpo', hne'⟩ := hstep
          have hin' : Within (abs y') (abs base) := fun x hx => hin x (hso.2.2 x hx)
          rcases List.mem_cons.mp hp with rfl | hp
          · exact hin'
          · exact ih y' hpo' hne' hin' p hp
  exact key steps base hpo hne (fun x hx => hx)

/-- satisfiable: int8, `range "1..10 | 11..20|-0"` gives `-0..20`, then `range "min..5|max"` gives
`-0..5|20`, then `range "min..6"` is rejected (6 is not in the set) and the chain ends -/
example : rangeChain false 0 int8Range
    [[49, 46, 46, 49, 48, 32, 124, 32, 49, 49, 46, 46, 50, 48, 124, 45, 48],
     [109, 105, 110, 46, 46, 53, 124, 109, 97, 120], [109, 105, 110, 46, 46, 54]]
    = [([⟨⟨0, 0, true⟩, ⟨20, 0, false⟩⟩], none),
       ([⟨⟨0, 0, true⟩, ⟨5, 0, false⟩⟩, ⟨⟨20, 0, false⟩, ⟨20, 0, false⟩⟩], none),
       ([⟨⟨0, 0, true⟩, ⟨5, 0, false⟩⟩, ⟨⟨20, 0, false⟩, ⟨20, 0, false⟩⟩], some .outside)] := by
  rfl

/-! ### lengths -/

/-- The length overlay (types.go:301): the parent is the inherited length, or `0..2^64-1`. An accepted
step is correct and narrows; a step reporting an error ends the chain (the "negative length" error is
reported although the new value is stored, see the model). -/
theorem applyLength_step (y : YangRange) (hy : ParentOk 0 y) (s : List UInt8) :
    match applyLength y s with
    | (_, some _) => True
    | (y', none) => StepOk false 0 (if y.isEmpty then uint64Range else y) s y' ∧ ParentOk 0 y' ∧ y' ≠ [] := by
  have hsc : ScaleOk false 0 := Or.inl ⟨rfl, rfl⟩
  have hu64 := uintRange_ok 18446744073709551615 (by decide)
  unfold applyLength
  simp only
  have hpar : ParentOk 0 (if y.isEmpty then uint64Range else y) ∧ (if y.isEmpty then uint64Range else y) ≠ [] := by
    cases y with
    | nil => exact hu64
    | cons a l => exact ⟨hy, List.cons_ne_nil _ _⟩
  generalize (if y.isEmpty then uint64Range else y) = parent at hpar ⊢
  cases hp : parseChildRanges parent s false 0 with
  | error e => simp
  | ok yr =>
    obtain ⟨w, ivs, hw, hiv, hord, hmem, hsdc, hin, hpo, hyr⟩ := parse_denotes false 0 hsc parent hpar.1 s yr hp
    by_cases he : Goyang.Model.Range.equal yr y = true
    · simp only [he, if_true]
      have habs := equal_abs (by decide) yr y hpo.1 hy.1 he
      have hyne : y ≠ [] := by
        intro h0
        rw [h0] at habs
        cases yr with
        | nil => exact hyr rfl
        | cons _ _ => simp [abs] at habs
      refine ⟨⟨⟨w, ivs, hw, hiv, hord, ?_⟩, hy.2, ?_⟩, hy, hyne⟩
      · rw [← habs]; exact hmem
      · rw [← habs]; exact hin hpar.2
    · simp only [he, Bool.false_eq_true, if_false]
      split
      · trivial
      · rename_i heq
        simp only [Prod.mk.injEq] at heq
        obtain ⟨h1, _⟩ := heq
        subst h1
        exact ⟨⟨⟨w, ivs, hw, hiv, hord, hmem⟩, hsdc, hin hpar.2⟩, hpo, hyr⟩

/-- Length chains only narrow, starting from "no length yet" (parent `0..2^64-1`). -/
theorem length_chain_narrows (steps : List (List UInt8)) :
    ∀ (y : YangRange), ParentOk 0 y →
    ∀ p ∈ lengthChain y steps, p.2 = none →
      SDC (abs p.1) ∧ Within (abs p.1) (abs (if y.isEmpty then uint64Range else y)) := by
  induction steps with
  | nil => intro y _ p hp; simp [lengthChain] at hp
  | cons s ss ih =>
    intro y hy p hp hnone
    have hstep := applyLength_step y hy s
    unfold lengthChain at hp
    cases ha : applyLength y s with
    | mk y' e =>
      rw [ha] at hstep hp
      cases e with
      | some e' =>
        simp only [List.mem_singleton] at hp
        subst hp
        simp at hnone
      | none =>
        simp only at hstep hp
        obtain ⟨hso, hpo', hne'⟩ := hstep
        rcases List.mem_cons.mp hp with rfl | hp
        · exact ⟨hso.2.1, hso.2.2⟩
        · obtain ⟨h1, h2⟩ := ih y' hpo' p hp hnone
          refine ⟨h1, fun x hx => hso.2.2 x ?_⟩
          have : (if y'.isEmpty then uint64Range else y') = y' := by
            cases y' with
            | nil => exact absurd rfl hne'
            | cons _ _ => rfl
          rw [this] at h2
          exact h2 x hx

end Goyang.Props.C10
