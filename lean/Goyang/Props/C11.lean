import Goyang.Model.Identity
import Goyang.Spec.Identity
import Goyang.Lemmas.IdentityLink
/-
C11 — each identity lists exactly its transitive derivations, once, in fixed order.
Property theorems only; helper lemmas live in Goyang/Lemmas/Identity*.lean.

Reading aid.
* `Model.Identity.resolveIdentities o r lk vals0` is Go's `ms.resolveIdentities()` (after the
  repairs of D3, D25, nested includes, absent owners) on the loaded set `r`, with the
  `Include.Module` links `lk` that `ms.include` left, starting from `Values` lists `vals0`
  (`fun _ => []` on fresh `Modules`); `o` decides the order of every `range` over a Go map.
  `none` would mean that the recursion budget the model hands to the two recursive walks was too
  small; every theorem below shows `some`.
* `Spec.Identity.graph r` is the identity graph read off the schema: `verts` (one per identity
  statement of a loaded module or of a submodule included — directly or through other submodules —
  by one), `edges` (derived, base), `dangling` (base statements that name no vertex), `orphans`
  (included submodules whose `belongs-to` module is not loaded).  `Derives G j i`: a non-empty
  chain of base statements leads from `j` to `i`.
* `ValuesOK G i l`: `l` holds exactly the `j` with `Derives G j i`, strictly ascending by
  (identity name, module name).  There is exactly one such list (`values_unique`).

Hypotheses that appear, and why.
* `o.Valid`: the oracle visits every map entry exactly once.
* `Linked r lk`: the include statements of every part of the schema are linked.  That is what
  `ms.include` establishes when no include/import fails (`include_establishes_linked`); failing
  ones are reported by `process` as "no such (sub)module" and are outside this property (the runner
  only checks that report).  `process_end_to_end` has neither this hypothesis nor (a) below.
* `WellFormed r`: (a) the module table holds modules only — an invariant of `Modules.add`
  (`loaded_module_table`);
  (b) no module name contains a colon (YANG identifiers never do) — otherwise `m:a:b` is
  ambiguous in Go's string-keyed dictionary; (c) no two identity statements of the schema define the
  same vertex (RFC 7950 §7.18; module names unique) — with duplicates, or with two revisions of one
  module loaded, one statement shadows the other in Go's dictionary (the later key in sorted key
  order wins; modelled and compared by the runner, but not a derivation graph).
-/
namespace Goyang.Props.C11
open Goyang.Model Goyang.Model.Identity
open Goyang.Spec.Identity (Reach closure Graph graph Derives Acyclic AllBasesResolve ValuesOK Before
  OneStatementPerVertex refTarget names Vertex)
open Goyang.Lemmas.Identity (LinkOK Hyp RegOK resolveIdentities_graph vtxLt_iff vtxLt_strictTotal
  sorted_unique graph_facts GraphFacts derives_left_vertex resolve_agrees buildDict_spec
  closure_spec walk_nil pairwise_before regOK_of_entries linkOK_of_all acyclic_of_rank
  regOK_of_loadAll linkAll_spec)

/-- The include statements of every part of the schema are linked (see the header). -/
abbrev Linked (r : Registry) (lk : Link) : Prop := LinkOK r lk

/-- Well-formedness of the loaded set (see the header). -/
abbrev WellFormed (r : Registry) : Prop := Hyp r

/-! ### the specification's one algorithm means reachability -/

/-- When the breadth-first `closure` of the specification answers, the answer holds exactly what is
reachable from the start set — so `parts` are the (sub)modules reachable from the loaded modules
through include statements, and `derived G i` are the vertices `j` with `Derives G j i`. -/
theorem closure_is_reachability {α : Type} [DecidableEq α] (succ : α → List α) (rounds : Nat)
    (s out : List α) (h : closure succ rounds s = some out) (y : α) :
    y ∈ out ↔ ∃ c ∈ s, Reach succ c y :=
  closure_spec succ rounds s out h y

/-- Go's recursive walk (`addChildren`, `includeClosure`: the result slice is the visited set), on
any graph — cyclic ones included — whose nodes are among the `fuel - 1` elements of `U`: it
terminates and returns exactly the nodes reachable from the start, each once. -/
theorem walk_terminates_and_is_reachability {α : Type} [DecidableEq α] (succ : α → List α) (U : List α)
    (hU : ∀ x ∈ U, ∀ y ∈ succ x, y ∈ U) (fuel : Nat) (r : α) (hr : r ∈ U) (hf : U.length < fuel) :
    ∃ out, walk succ fuel r [] = some out ∧ out.Nodup ∧ ∀ y, y ∈ out ↔ Reach succ r y :=
  walk_nil succ U hU fuel r hr hf

/-! ### the lists -/

/-- There is only one list that satisfies the specification. -/
theorem values_unique (G : Graph) (i : Vertex) (l1 l2 : List Vertex)
    (h1 : ValuesOK G i l1) (h2 : ValuesOK G i l2) : l1 = l2 :=
  sorted_unique vtxLt_strictTotal
    (h1.ascending.imp (fun hab => (vtxLt_iff _ _).mpr hab))
    (h2.ascending.imp (fun hab => (vtxLt_iff _ _).mpr hab))
    (fun a => (h1.exact a).trans (h2.exact a).symm)

/-- For every map order: `resolveIdentities` terminates, and every identity of the schema ends up
with the ascending list of exactly the identities derived from it — whether or not the graph has
cycles or dangling bases. -/
theorem values_are_derived (r : Registry) (lk : Link) (hl : Linked r lk) (hw : WellFormed r)
    (G : Graph) (hG : graph r = some G) (o : Oracle) (ho : o.Valid) :
    ∃ res, resolveIdentities o r lk (fun _ => []) = some res ∧
      ∀ i ∈ G.verts, ValuesOK G i (res.vals i) := by
  obtain ⟨res, hres, _, hvals, _, _⟩ :=
    resolveIdentities_graph o ho r lk hl hw G hG (fun _ => []) (by intro _ _ h; cases h)
  exact ⟨res, hres, fun i hi => ⟨(hvals i hi).1, pairwise_before (hvals i hi).2⟩⟩

/-- DESIGN 7.11 `values_eq_closure`: acyclic graph, all bases resolve ⇒ for every map order no
error is reported and every identity lists exactly its strict transitive derivations, each once
(strictly ascending), never itself. -/
theorem values_eq_closure (r : Registry) (lk : Link) (hl : Linked r lk) (hw : WellFormed r)
    (G : Graph) (hG : graph r = some G) (hac : Acyclic G) (hall : AllBasesResolve G)
    (o : Oracle) (ho : o.Valid) :
    ∃ res, resolveIdentities o r lk (fun _ => []) = some res ∧ res.errs = [] ∧
      ∀ i ∈ G.verts, ValuesOK G i (res.vals i) ∧ (res.vals i).Nodup ∧ i ∉ res.vals i := by
  obtain ⟨res, hres, _, hvals, _, herrs⟩ :=
    resolveIdentities_graph o ho r lk hl hw G hG (fun _ => []) (by intro _ _ h; cases h)
  refine ⟨res, hres, herrs.mpr ⟨hall.2, hall.1, fun v _ => hac v⟩, ?_⟩
  intro i hi
  obtain ⟨h1, h2⟩ := hvals i hi
  refine ⟨⟨h1, pairwise_before h2⟩, ?_, fun hmem => hac i ((h1 i).mp hmem)⟩
  refine h2.imp ?_
  intro a b hab e
  subst e
  rw [vtxLt_strictTotal.irrefl] at hab
  cases hab

/-- The result does not depend on the order in which Go walks its maps: same lists for every
identity (and for everything else: empty), and errors under one order iff errors under the other. -/
theorem values_oracle_independent (r : Registry) (lk : Link) (hl : Linked r lk) (hw : WellFormed r)
    (G : Graph) (hG : graph r = some G) (o1 o2 : Oracle) (h1 : o1.Valid) (h2 : o2.Valid) :
    ∃ res1 res2, resolveIdentities o1 r lk (fun _ => []) = some res1 ∧
      resolveIdentities o2 r lk (fun _ => []) = some res2 ∧
      res1.vals = res2.vals ∧ (res1.errs = [] ↔ res2.errs = []) := by
  obtain ⟨res1, hr1, _, hv1, ho1, he1⟩ :=
    resolveIdentities_graph o1 h1 r lk hl hw G hG (fun _ => []) (by intro _ _ h; cases h)
  obtain ⟨res2, hr2, _, hv2, ho2, he2⟩ :=
    resolveIdentities_graph o2 h2 r lk hl hw G hG (fun _ => []) (by intro _ _ h; cases h)
  refine ⟨res1, res2, hr1, hr2, ?_, he1.trans he2.symm⟩
  funext x
  by_cases hx : x ∈ G.verts
  · exact sorted_unique vtxLt_strictTotal (hv1 x hx).2 (hv2 x hx).2
      (fun a => ((hv1 x hx).1 a).trans ((hv2 x hx).1 a).symm)
  · rw [ho1 x hx, ho2 x hx]

/-- A second `Process` on the same `Modules`: even if it started from the lists the first one left
(the AST mutation persists) and appended the direct children again, the result would be the same.
(Since commit 41df8a9 Go clears the lists first, which is the case `vals0 = fun _ => []` directly;
the runner processes every source set twice on one `Modules` and compares.) -/
theorem second_process_same (r : Registry) (lk : Link) (hl : Linked r lk) (hw : WellFormed r)
    (G : Graph) (hG : graph r = some G) (o1 o2 : Oracle) (h1 : o1.Valid) (h2 : o2.Valid) :
    ∃ res1 res2, resolveIdentities o1 r lk (fun _ => []) = some res1 ∧
      resolveIdentities o2 r lk res1.vals = some res2 ∧
      res2.vals = res1.vals ∧ (res2.errs = [] ↔ res1.errs = []) := by
  obtain ⟨res1, hr1, _, hv1, ho1, he1⟩ :=
    resolveIdentities_graph o1 h1 r lk hl hw G hG (fun _ => []) (by intro _ _ h; cases h)
  have hup : ∀ x j, j ∈ res1.vals x → Derives G j x := by
    intro x j hj
    by_cases hx : x ∈ G.verts
    · exact ((hv1 x hx).1 j).mp hj
    · rw [ho1 x hx] at hj; cases hj
  obtain ⟨res2, hr2, _, hv2, ho2, he2⟩ := resolveIdentities_graph o2 h2 r lk hl hw G hG res1.vals hup
  refine ⟨res1, res2, hr1, hr2, ?_, he2.trans he1.symm⟩
  funext x
  by_cases hx : x ∈ G.verts
  · exact sorted_unique vtxLt_strictTotal (hv2 x hx).2 (hv1 x hx).2
      (fun a => ((hv2 x hx).1 a).trans ((hv1 x hx).1 a).symm)
  · rw [ho1 x hx, ho2 x hx]

/-! ### errors -/

/-- DESIGN 7.11 `identity_errors`, both directions: `resolveIdentities` reports an error exactly
when a base statement names no identity, an included submodule has no loaded owner, or some
identity is derived from itself — under every map order. -/
theorem errors_iff (r : Registry) (lk : Link) (hl : Linked r lk) (hw : WellFormed r)
    (G : Graph) (hG : graph r = some G) (o : Oracle) (ho : o.Valid) :
    ∃ res, resolveIdentities o r lk (fun _ => []) = some res ∧
      (res.errs ≠ [] ↔ (G.dangling ≠ [] ∨ G.orphans ≠ [] ∨ ∃ v, Derives G v v)) := by
  obtain ⟨res, hres, _, _, _, herrs⟩ :=
    resolveIdentities_graph o ho r lk hl hw G hG (fun _ => []) (by intro _ _ h; cases h)
  obtain ⟨ps, gf⟩ := graph_facts hG
  refine ⟨res, hres, ?_⟩
  rw [Ne, herrs]
  constructor
  · intro h
    apply Classical.byContradiction
    intro hn
    simp only [not_or, not_exists, Ne, Decidable.not_not] at hn
    exact h ⟨hn.2.1, hn.1, fun v _ => hn.2.2 v⟩
  · rintro (h | h | ⟨v, hv⟩) ⟨h1, h2, h3⟩
    · exact h h2
    · exact h h1
    · exact h3 v (derives_left_vertex gf hv) hv

/-- DESIGN 7.11 `identity_errors`: an undefined base or a derivation cycle is reported. -/
theorem identity_errors (r : Registry) (lk : Link) (hl : Linked r lk) (hw : WellFormed r)
    (G : Graph) (hG : graph r = some G) (hbad : G.dangling ≠ [] ∨ ¬ Acyclic G) (o : Oracle) (ho : o.Valid) :
    ∃ res, resolveIdentities o r lk (fun _ => []) = some res ∧ res.errs ≠ [] := by
  obtain ⟨res, hres, h⟩ := errors_iff r lk hl hw G hG o ho
  refine ⟨res, hres, h.mpr ?_⟩
  rcases hbad with h | h
  · exact Or.inl h
  · right; right
    unfold Acyclic at h
    exact Classical.not_forall_not.mp h

/-! ### identityref -/

/-- DESIGN 7.11 `identityref_base`: an identityref type written in a loaded (sub)module `m`, with
base statement `b`, resolves exactly when `b` names a vertex of the graph, and then
`YangType.IdentityBase` is that vertex's dictionary entry — so the type sees the list of
`values_are_derived`.  (Every dictionary entry is a vertex and vice versa.) -/
theorem identityref_base (r : Registry) (lk : Link) (hl : Linked r lk) (hw : WellFormed r)
    (G : Graph) (hG : graph r = some G) (o : Oracle) (ho : o.Valid) :
    ∃ res, resolveIdentities o r lk (fun _ => []) = some res ∧
      (∀ v, (∃ e ∈ res.dict, e.vtx = v) ↔ v ∈ G.verts) ∧
      ∀ m ∈ r.mods, ∀ (ty b : Stmt), ty.one? "base" = some b → ∀ v,
        (∃ e, identityrefBase r res.dict m ty = .ok e ∧ e ∈ res.dict ∧ e.vtx = v) ↔
          refTarget r G m b.arg = some v := by
  obtain ⟨res, hres, hverts, _, _, _⟩ :=
    resolveIdentities_graph o ho r lk hl hw G hG (fun _ => []) (by intro _ _ h; cases h)
  obtain ⟨ps, gf⟩ := graph_facts hG
  obtain ⟨dict, errs1, hbd, hs, hc, _⟩ := buildDict_spec o ho r lk hl
  have hd : res.dict = dict := by
    unfold resolveIdentities at hres
    simp only [hbd] at hres
    split at hres
    · cases hres
    · cases hres; rfl
  refine ⟨res, hres, hverts, ?_⟩
  intro m hm ty b hb v
  have hagree := resolve_agrees hw (hw.one G hG) gf hs hc hm b.arg v
  unfold identityrefBase refTarget
  simp only [hb, hd]
  constructor
  · rintro ⟨e, hf, _, hv⟩
    obtain ⟨hn, hmem⟩ := hagree.mp ⟨e, hf, hv⟩
    simp [hn, hmem]
  · intro h
    have : names r m b.arg = some v ∧ v ∈ G.verts := by
      cases hn : names r m b.arg with
      | none => simp [hn] at h
      | some w =>
        simp only [hn, Option.filter_some] at h
        split at h
        · rename_i hw'
          cases h
          exact ⟨rfl, by simpa using hw'⟩
        · cases h
    obtain ⟨e, hf, hv⟩ := hagree.mpr this
    refine ⟨e, hf, ?_, hv⟩
    unfold findIdentityBase at hf
    simp only at hf
    repeat' split at hf
    all_goals first
      | (cases hf; done)
      | (cases hf; exact (Goyang.Lemmas.Identity.get?_some (by assumption)).1)

/-- An identityref without a base statement is an error. -/
theorem identityref_needs_base (r : Registry) (dict : Dict) (m : Mod) (ty : Stmt)
    (h : ty.one? "base" = none) : ∃ err, identityrefBase r dict m ty = .error err := by
  unfold identityrefBase
  simp [h]

/-! ### end to end: load, link, resolve -/

/-- `Modules.add` keeps modules, and only modules, in the module table: part (a) of `WellFormed`
holds of whatever was loaded. -/
theorem loaded_module_table (files : List SrcFile) (r : Registry) (h : loadAll files = .ok r) :
    ∀ k m, r.getModule k = some m → m.isSub = false :=
  regOK_of_loadAll h

/-- `ms.include` over all modules (any map order) never exhausts the recursion budget, and when it
reports no error the hypothesis `Linked` of the theorems above holds of the links it leaves. -/
theorem include_establishes_linked (r : Registry) (o : Oracle) (ho : o.Valid) :
    ∃ lk errs, linkAll o r = some (lk, errs) ∧ (errs = [] → Linked r lk) :=
  linkAll_spec o ho r

/-- The whole of what `Process` does for identities, from the loaded texts, for every map order:
either an include/import is reported missing, or every identity of the schema gets the ascending
list of exactly its derived identities and an error is reported exactly when a base names no
identity, an included submodule has no loaded owner, or an identity is derived from itself.  The
model never runs out of recursion budget.  (Remaining hypotheses: module names without colon,
one identity statement per vertex.) -/
theorem process_end_to_end (files : List SrcFile) (r : Registry) (hload : loadAll files = .ok r)
    (hnc : ∀ m ∈ r.mods, ':' ∉ m.name.toList) (G : Graph) (hG : graph r = some G)
    (hone : OneStatementPerVertex G) (o : Oracle) (ho : o.Valid) :
    (∃ errs, run o r = .linkFailed errs ∧ errs ≠ []) ∨
    (∃ res, run o r = .done res (identityrefLeaves r res.dict) ∧
      (∀ i ∈ G.verts, ValuesOK G i (res.vals i)) ∧
      (res.errs ≠ [] ↔ (G.dangling ≠ [] ∨ G.orphans ≠ [] ∨ ∃ v, Derives G v v))) := by
  obtain ⟨lk, lerrs, hlink, hlinked⟩ := linkAll_spec o ho r
  have hw : WellFormed r := ⟨regOK_of_loadAll hload, hnc, fun G' hG' => by
    rw [hG] at hG'; cases hG'; exact hone⟩
  unfold run
  simp only [hlink]
  cases lerrs with
  | cons e es => exact Or.inl ⟨e :: es, by simp, by simp⟩
  | nil =>
    right
    have hl : Linked r lk := hlinked rfl
    obtain ⟨res, hres, hvals⟩ := values_are_derived r lk hl hw G hG o ho
    obtain ⟨res', hres', herr⟩ := errors_iff r lk hl hw G hG o ho
    rw [hres] at hres'
    cases hres'
    exact ⟨res, by simp [hres], hvals, herr⟩

/-! ### non-vacuity: a diamond across two modules, one corner in a sub-submodule

```
module a    { prefix a; include sa; identity top; identity left { base top; } }
submodule sa { belongs-to a { prefix a; } include sb; }
submodule sb { belongs-to a { prefix x; } identity deep { base x:left; } }
module b    { prefix b; import a { prefix pa; }
              identity right { base pa:top; } identity bottom { base pa:left; base right; }
              leaf l { type identityref { base pa:top; } } }
```
loaded in the order b, sb, a, sa.  All hypotheses of the theorems hold of it, and the model computes
`a:top ↦ [b:bottom, a:deep, a:left, b:right]` under two different map orders.  A second example (a
two-cycle through both modules plus a dangling base) shows the hypotheses of `identity_errors`. -/

def exStmt (kw arg : String) (subs : List Stmt := []) : Stmt := .mk kw true arg "x.yang" 1 1 subs

def exModA : Stmt := exStmt "module" "a" [exStmt "namespace" "urn:a", exStmt "prefix" "a", exStmt "include" "sa",
  exStmt "identity" "top", exStmt "identity" "left" [exStmt "base" "top"]]
def exSubSA : Stmt := exStmt "submodule" "sa" [exStmt "belongs-to" "a" [exStmt "prefix" "a"], exStmt "include" "sb"]
def exSubSB : Stmt := exStmt "submodule" "sb" [exStmt "belongs-to" "a" [exStmt "prefix" "x"],
  exStmt "identity" "deep" [exStmt "base" "x:left"]]
def exTypeL : Stmt := exStmt "type" "identityref" [exStmt "base" "pa:top"]
def exModB : Stmt := exStmt "module" "b" [exStmt "namespace" "urn:b", exStmt "prefix" "b", exStmt "import" "a" [exStmt "prefix" "pa"],
  exStmt "identity" "right" [exStmt "base" "pa:top"],
  exStmt "identity" "bottom" [exStmt "base" "pa:left", exStmt "base" "right"],
  exStmt "leaf" "l" [exTypeL]]

def exLoad (files : List SrcFile) : Registry :=
  match loadAll files with
  | .ok r => r
  | .error _ => {}

def exR : Registry := exLoad [⟨"b", [exModB]⟩, ⟨"sb", [exSubSB]⟩, ⟨"a", [exModA]⟩, ⟨"sa", [exSubSA]⟩]

def exLink (r : Registry) : Link :=
  match linkAll (Oracle.ofNat 0) r with
  | some (lk, _) => lk
  | none => {}

/-- The graph the specification reads off `exR`. -/
def exG : Graph :=
  { verts := [("b", "right"), ("b", "bottom"), ("a", "top"), ("a", "left"), ("a", "deep")]
    edges := [(("b", "right"), ("a", "top")), (("b", "bottom"), ("a", "left")), (("b", "bottom"), ("b", "right")),
      (("a", "left"), ("a", "top")), (("a", "deep"), ("a", "left"))]
    dangling := [], orphans := [], missing := [] }

deriving instance DecidableEq for Graph

example : graph exR = some exG := by decide
example : (linkAll (Oracle.ofNat 0) exR).map (·.2) = some [] := by decide
theorem example_linked : Linked exR (exLink exR) := linkOK_of_all (by decide)
theorem example_wellFormed : WellFormed exR :=
  ⟨regOK_of_entries (by decide), by decide, fun G hG => by
    have : graph exR = some exG := by decide
    rw [this] at hG
    cases hG
    show exG.verts.Nodup
    decide⟩
theorem example_acyclic : Acyclic exG :=
  acyclic_of_rank (fun v => if v.2 == "top" then 0 else if v.2 == "left" then 1 else if v.2 == "bottom" then 3 else 2)
    (by decide)
example : AllBasesResolve exG := ⟨rfl, rfl⟩
example : (Oracle.ofNat 0).order (α := Nat) 3 [1, 2, 3] ≠ (Oracle.ofNat 5).order 3 [1, 2, 3] := by decide

/-- What the model computes for the example, under two map orders. -/
example : ((resolveIdentities (Oracle.ofNat 0) exR (exLink exR) (fun _ => [])).map fun res =>
      (res.vals ("a", "top"), res.vals ("a", "left"))) =
    some ([("b", "bottom"), ("a", "deep"), ("a", "left"), ("b", "right")], [("b", "bottom"), ("a", "deep")]) := by
  decide
example : ((resolveIdentities (Oracle.ofNat 0) exR (exLink exR) (fun _ => [])).map fun res =>
      (res.vals ("b", "right"), res.vals ("b", "bottom"), res.errs.length)) =
    some ([("b", "bottom")], [], 0) := by decide
example : ((resolveIdentities (Oracle.ofNat 5) exR (exLink exR) (fun _ => [])).map fun res =>
      (res.vals ("a", "top"), res.vals ("a", "left"))) =
    some ([("b", "bottom"), ("a", "deep"), ("a", "left"), ("b", "right")], [("b", "bottom"), ("a", "deep")]) := by
  decide
example : ((resolveIdentities (Oracle.ofNat 5) exR (exLink exR) (fun _ => [])).map fun res =>
      (res.vals ("b", "right"), res.vals ("b", "bottom"), res.errs.length)) =
    some ([("b", "bottom")], [], 0) := by decide
/-- The identityref leaf of module `b` points at `a:top`. -/
example : ((resolveIdentities (Oracle.ofNat 0) exR (exLink exR) (fun _ => [])).bind fun res =>
      (exR.byId 0).map fun b => (identityrefBase exR res.dict b exTypeL).toOption.map (·.vtx)) = some (some ("a", "top")) := by
  decide
example : (exR.byId 0).map (fun b => refTarget exR exG b "pa:top") = some (some ("a", "top")) := by decide

/-- A two-cycle through both modules, and a dangling base. -/
def exModC : Stmt := exStmt "module" "c" [exStmt "namespace" "urn:c", exStmt "prefix" "c", exStmt "import" "d" [exStmt "prefix" "d"],
  exStmt "identity" "x" [exStmt "base" "d:y"], exStmt "identity" "z" [exStmt "base" "nosuch"]]
def exModD : Stmt := exStmt "module" "d" [exStmt "namespace" "urn:d", exStmt "prefix" "d", exStmt "import" "c" [exStmt "prefix" "c"],
  exStmt "identity" "y" [exStmt "base" "c:x"]]
def exR2 : Registry := exLoad [⟨"c", [exModC]⟩, ⟨"d", [exModD]⟩]
def exG2 : Graph :=
  { verts := [("c", "x"), ("c", "z"), ("d", "y")]
    edges := [(("c", "x"), ("d", "y")), (("d", "y"), ("c", "x"))]
    dangling := [(("c", "z"), "nosuch")], orphans := [], missing := [] }
example : graph exR2 = some exG2 := by decide
example : Linked exR2 (exLink exR2) := linkOK_of_all (by decide)
example : WellFormed exR2 :=
  ⟨regOK_of_entries (by decide), by decide, fun G hG => by
    have : graph exR2 = some exG2 := by decide
    rw [this] at hG
    cases hG
    show exG2.verts.Nodup
    decide⟩
example : exG2.dangling ≠ [] := by decide
example : ¬ Acyclic exG2 := fun h =>
  h ("c", "x") (Derives.step (k := ("d", "y")) (by decide) (Derives.base (by decide)))
example : ((resolveIdentities (Oracle.ofNat 0) exR2 (exLink exR2) (fun _ => [])).map fun res =>
      (res.vals ("c", "x"), res.errs.map (·.cls))) =
    some ([("c", "x"), ("d", "y")], ["identity-base-local", "cycle", "cycle"]) := by decide

end Goyang.Props.C11
