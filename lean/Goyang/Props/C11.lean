import Goyang.Model.Identity
import Goyang.Spec.Identity
import Goyang.Lemmas.IdentitySurvEq
import Goyang.Spec.IdentityReport
import Goyang.Lemmas.IdentityReports
/-
C11 — each identity lists exactly its transitive derivations, once, in fixed order.
Property theorems only; helper lemmas live in Goyang/Lemmas/Identity*.lean.

Reading aid.
* `Model.Identity.resolveIdentities o r lk vals0` is Go's `ms.resolveIdentities()` (after the
  repairs of D3, D25, nested includes, absent owners) on the loaded set `r`, with the
  `Include.Module` links `lk` that `ms.include` left, starting from `Values` lists `vals0`
  (`fun _ => []` on fresh `Modules`); `o` decides the order of every `range` over a Go map.
  `none` would mean that the recursion budget the model hands to the two recursive walks was too
  small; every theorem below shows `some`.
* `Spec.Identity.graph r` is the identity graph read off the schema: `verts` (one per identity
  statement of a loaded module or of a submodule included — directly or through other submodules —
  by one), `edges` (derived, base), `dangling` (base statements that name no vertex), `orphans`
  (included submodules whose `belongs-to` module is not loaded).  `Derives G j i`: a non-empty
  chain of base statements leads from `j` to `i`.
* `ValuesOK G i l`: `l` holds exactly the `j` with `Derives G j i`, strictly ascending by
  (identity name, module name).  There is exactly one such list (`values_unique`).

Hypotheses that appear, and why.
* `o.Valid`: the oracle visits every map entry exactly once.
* `Linked r lk`: the include statements of every part of the schema are linked.  That is what
  `ms.include` establishes when no include/import fails (`include_establishes_linked`); failing
  ones are reported by `process` as "no such (sub)module" and are outside this property (the runner
  only checks that report).  `process_end_to_end` has neither this hypothesis nor (a) below.
* `WellFormed r` (first group of theorems): (a) the module table holds modules only — an invariant
  of `Modules.add` (`loaded_module_table`);
  (b) no module name contains a colon — otherwise `m:a:b` is ambiguous in Go's string-keyed
  dictionary; DERIVED for texts whose (sub)module names are YANG identifiers
  (`identifier_names_colon_free`); goyang does not check names, and with the illegal names `m:a` /
  `a:b` it does misattribute a derived identity (`colon_in_module_name_misattributes`, replayed on
  the real code);
  (c) no two identity statements of the schema define the same vertex (RFC 7950 §7.18; module
  names unique).  NOT needed by the second group (`…_surviving`, `process_end_to_end_surviving`):
  with duplicates, or with two revisions of one module loaded, Go's dictionary keeps the statement
  registered last, and those theorems speak about `Spec.Identity.survivorGraph`, the identity graph
  of the surviving statements.  Go reports duplicates on no path (identity.go never looks for them).
* `LoadedOK r` (second group): (a), (a') the keys of the module table are distinct
  (`loaded_module_keys_distinct`), (b).  `loaded_ok`: all three hold of identifier-named texts that
  `Modules.add` accepted, so `process_end_to_end_surviving` has no hypothesis on the schema at all.
* `errors_oracle_independent` (the error lists under two map orders are permutations of each other,
  same dictionary, same lists) needs (a') only — no `Linked`, no `WellFormed`.

The specification always answers (`specification_answers`): `graph r`, `registrations r` and
`survivorGraph r` are `some` for EVERY registry — the rounds of `parts` and the step budget of the
explicit-stack traversal always suffice — so the hypotheses `graph r = some G` /
`survivorGraph r = some G` of the theorems only name the graph; `process_end_to_end_loaded` and
`process_end_to_end_total` are the end-to-end theorems without them.
The two groups are connected: when (c) holds, `survivorGraph r` is `graph r` up to the order of its
lists (`survivor_graph_is_graph`: vertices, edges, dangling bases are permutations of each other,
orphans and missing equal; the orders do differ, and without (c) it fails:
`survivor_graph_is_graph_without_c_fails`); lists, errors, derivations, acyclicity do not see the
order (`same_up_to_order_transports`); `process_end_to_end_via_surviving` (the statement of
`process_end_to_end`) and `values_are_derived_via_surviving` are the first-group main theorems
obtained as corollaries of the second group.

The error clause per defect (last section, `errors_are_exactly_the_defects` and corollaries):
`errors_iff` / `identity_errors` only say "the error list is non-empty exactly when a defect
exists".  Proved in addition, for every map order, over the surviving statements (and, under (c),
over `graph r` and all identity statements: `…_one_per_vertex`): EVERY vertex derived from itself
gets a `cycle` error at its own identity statement (`cycle_reported_per_member`; hence one per
cyclic component, a cycle derived from another cycle included: `cycle_reported_per_component`);
every dangling base gets an identity-base-local / identity-base-remote / identity-prefix error at
the module or submodule statement of the text that writes it (`undefined_base_reported`); no other
error carries these classes (`cycle_errors_sound`, `base_errors_sound`); the runner's executable
per-defect verdict `Spec.Identity.judgeReports` answers `holds` on the model's own errors and on
everything `Process` returns (`judgeReports_holds_of_model`, `judgeReports_holds_of_run`,
`judgeReports_holds_of_model_one_per_vertex`), so a `violates` of that verdict on Go's errors is
always a Go-vs-model difference; `error_clause_end_to_end` is all of it from identifier-named
loaded texts without further hypotheses.  Two undefined bases written in one text get two errors
that differ in nothing the comparison sees (position = the module statement, class), so the
statements are per writing text, as the verdict is.

What is not proved here: nothing about what the link stage reports under two map orders beyond its
presence; ownerless submodules (`G.orphans`) are covered by `errors_iff` only (their
no-such-module report at the belongs-to statement is not stated per orphan).  The runner's executable verdict (driver `spec.ident`) now judges schemas with several
statements per vertex too, over `survivorGraph` and the items of the surviving statements; several
such statements within ONE (sub)module text give dump items the driver cannot tell apart, and of
such a group it asks that one item carries the right list (model and Go are compared item by item
in any case).
-/
namespace Goyang.Props.C11
open Goyang.Model Goyang.Model.Identity
open Goyang.Spec.Identity (Reach closure Graph graph Derives Acyclic AllBasesResolve ValuesOK Before
  OneStatementPerVertex refTarget names Vertex survivorGraph registrations survivors isIdentifier)
open Goyang.Lemmas.Identity (LinkOK Hyp RegOK resolveIdentities_graph vtxLt_iff vtxLt_strictTotal
  sorted_unique graph_facts GraphFacts derives_left_vertex resolve_agrees buildDict_spec
  closure_spec walk_nil pairwise_before regOK_of_entries linkOK_of_all acyclic_of_rank
  regOK_of_loadAll linkAll_spec RegOK KeysDistinct keysDistinct_of_loadAll resolve_two_oracles
  resolveIdentities_survivors findIdentityBase_survivors survivorGraph_facts survivors_nodup derives_left_vertexS IdentifierNames
  noColon_of_identifierNames buildDict_eq dictStep walk_congr foldlM_congr_opt mem_modulesByKey
  GraphPerm survivorGraph_perm_graph graph_some survivorGraph_some registrations_some)
open Goyang.Spec.Identity (undefinedBaseClasses undefinedBases cycleClass locatedAt judgeReports Verdict)
open Goyang.Lemmas.Identity (resolveIdentities_reports survivor_dangling mem_undefinedBases locatedAt_at
  judgeReports_holds fullStmts survivors_perm_full)

/-- The include statements of every part of the schema are linked (see the header). -/
abbrev Linked (r : Registry) (lk : Link) : Prop := LinkOK r lk

/-- Well-formedness of the loaded set (see the header). -/
abbrev WellFormed (r : Registry) : Prop := Hyp r

/-! ### the specification's one algorithm means reachability -/

/-- When the breadth-first `closure` of the specification answers, the answer holds exactly what is
reachable from the start set — so `parts` are the (sub)modules reachable from the loaded modules
through include statements, and `derived G i` are the vertices `j` with `Derives G j i`. -/
theorem closure_is_reachability {α : Type} [DecidableEq α] (succ : α → List α) (rounds : Nat)
    (s out : List α) (h : closure succ rounds s = some out) (y : α) :
    y ∈ out ↔ ∃ c ∈ s, Reach succ c y :=
  closure_spec succ rounds s out h y

/-- Go's recursive walk (`addChildren`, `includeClosure`: the result slice is the visited set), on
any graph — cyclic ones included — whose nodes are among the `fuel - 1` elements of `U`: it
terminates and returns exactly the nodes reachable from the start, each once. -/
theorem walk_terminates_and_is_reachability {α : Type} [DecidableEq α] (succ : α → List α) (U : List α)
    (hU : ∀ x ∈ U, ∀ y ∈ succ x, y ∈ U) (fuel : Nat) (r : α) (hr : r ∈ U) (hf : U.length < fuel) :
    ∃ out, walk succ fuel r [] = some out ∧ out.Nodup ∧ ∀ y, y ∈ out ↔ Reach succ r y :=
  walk_nil succ U hU fuel r hr hf

/-! ### the lists -/

/-- There is only one list that satisfies the specification. -/
theorem values_unique (G : Graph) (i : Vertex) (l1 l2 : List Vertex)
    (h1 : ValuesOK G i l1) (h2 : ValuesOK G i l2) : l1 = l2 :=
  sorted_unique vtxLt_strictTotal
    (h1.ascending.imp (fun hab => (vtxLt_iff _ _).mpr hab))
    (h2.ascending.imp (fun hab => (vtxLt_iff _ _).mpr hab))
    (fun a => (h1.exact a).trans (h2.exact a).symm)

/-- For every map order: `resolveIdentities` terminates, and every identity of the schema ends up
with the ascending list of exactly the identities derived from it — whether or not the graph has
cycles or dangling bases. -/
theorem values_are_derived (r : Registry) (lk : Link) (hl : Linked r lk) (hw : WellFormed r)
    (G : Graph) (hG : graph r = some G) (o : Oracle) (ho : o.Valid) :
    ∃ res, resolveIdentities o r lk (fun _ => []) = some res ∧
      ∀ i ∈ G.verts, ValuesOK G i (res.vals i) := by
  obtain ⟨res, hres, _, hvals, _, _⟩ :=
    resolveIdentities_graph o ho r lk hl hw G hG (fun _ => []) (by intro _ _ h; cases h)
  exact ⟨res, hres, fun i hi => ⟨(hvals i hi).1, pairwise_before (hvals i hi).2⟩⟩

/-- DESIGN 7.11 `values_eq_closure`: acyclic graph, all bases resolve ⇒ for every map order no
error is reported and every identity lists exactly its strict transitive derivations, each once
(strictly ascending), never itself. -/
theorem values_eq_closure (r : Registry) (lk : Link) (hl : Linked r lk) (hw : WellFormed r)
    (G : Graph) (hG : graph r = some G) (hac : Acyclic G) (hall : AllBasesResolve G)
    (o : Oracle) (ho : o.Valid) :
    ∃ res, resolveIdentities o r lk (fun _ => []) = some res ∧ res.errs = [] ∧
      ∀ i ∈ G.verts, ValuesOK G i (res.vals i) ∧ (res.vals i).Nodup ∧ i ∉ res.vals i := by
  obtain ⟨res, hres, _, hvals, _, herrs⟩ :=
    resolveIdentities_graph o ho r lk hl hw G hG (fun _ => []) (by intro _ _ h; cases h)
  refine ⟨res, hres, herrs.mpr ⟨hall.2, hall.1, fun v _ => hac v⟩, ?_⟩
  intro i hi
  obtain ⟨h1, h2⟩ := hvals i hi
  refine ⟨⟨h1, pairwise_before h2⟩, ?_, fun hmem => hac i ((h1 i).mp hmem)⟩
  refine h2.imp ?_
  intro a b hab e
  subst e
  rw [vtxLt_strictTotal.irrefl] at hab
  cases hab

/-- The result does not depend on the order in which Go walks its maps: same lists for every
identity (and for everything else: empty), and errors under one order iff errors under the other. -/
theorem values_oracle_independent (r : Registry) (lk : Link) (hl : Linked r lk) (hw : WellFormed r)
    (G : Graph) (hG : graph r = some G) (o1 o2 : Oracle) (h1 : o1.Valid) (h2 : o2.Valid) :
    ∃ res1 res2, resolveIdentities o1 r lk (fun _ => []) = some res1 ∧
      resolveIdentities o2 r lk (fun _ => []) = some res2 ∧
      res1.vals = res2.vals ∧ (res1.errs = [] ↔ res2.errs = []) := by
  obtain ⟨res1, hr1, _, hv1, ho1, he1⟩ :=
    resolveIdentities_graph o1 h1 r lk hl hw G hG (fun _ => []) (by intro _ _ h; cases h)
  obtain ⟨res2, hr2, _, hv2, ho2, he2⟩ :=
    resolveIdentities_graph o2 h2 r lk hl hw G hG (fun _ => []) (by intro _ _ h; cases h)
  refine ⟨res1, res2, hr1, hr2, ?_, he1.trans he2.symm⟩
  funext x
  by_cases hx : x ∈ G.verts
  · exact sorted_unique vtxLt_strictTotal (hv1 x hx).2 (hv2 x hx).2
      (fun a => ((hv1 x hx).1 a).trans ((hv2 x hx).1 a).symm)
  · rw [ho1 x hx, ho2 x hx]

/-- A second `Process` on the same `Modules`: even if it started from the lists the first one left
(the AST mutation persists) and appended the direct children again, the result would be the same.
(Since commit 41df8a9 Go clears the lists first, which is the case `vals0 = fun _ => []` directly;
the runner processes every source set twice on one `Modules` and compares.) -/
theorem second_process_same (r : Registry) (lk : Link) (hl : Linked r lk) (hw : WellFormed r)
    (G : Graph) (hG : graph r = some G) (o1 o2 : Oracle) (h1 : o1.Valid) (h2 : o2.Valid) :
    ∃ res1 res2, resolveIdentities o1 r lk (fun _ => []) = some res1 ∧
      resolveIdentities o2 r lk res1.vals = some res2 ∧
      res2.vals = res1.vals ∧ (res2.errs = [] ↔ res1.errs = []) := by
  obtain ⟨res1, hr1, _, hv1, ho1, he1⟩ :=
    resolveIdentities_graph o1 h1 r lk hl hw G hG (fun _ => []) (by intro _ _ h; cases h)
  have hup : ∀ x j, j ∈ res1.vals x → Derives G j x := by
    intro x j hj
    by_cases hx : x ∈ G.verts
    · exact ((hv1 x hx).1 j).mp hj
    · rw [ho1 x hx] at hj; cases hj
  obtain ⟨res2, hr2, _, hv2, ho2, he2⟩ := resolveIdentities_graph o2 h2 r lk hl hw G hG res1.vals hup
  refine ⟨res1, res2, hr1, hr2, ?_, he2.trans he1.symm⟩
  funext x
  by_cases hx : x ∈ G.verts
  · exact sorted_unique vtxLt_strictTotal (hv2 x hx).2 (hv1 x hx).2
      (fun a => ((hv2 x hx).1 a).trans ((hv1 x hx).1 a).symm)
  · rw [ho1 x hx, ho2 x hx]

/-! ### errors -/

/-- DESIGN 7.11 `identity_errors`, both directions: `resolveIdentities` reports an error exactly
when a base statement names no identity, an included submodule has no loaded owner, or some
identity is derived from itself — under every map order. -/
theorem errors_iff (r : Registry) (lk : Link) (hl : Linked r lk) (hw : WellFormed r)
    (G : Graph) (hG : graph r = some G) (o : Oracle) (ho : o.Valid) :
    ∃ res, resolveIdentities o r lk (fun _ => []) = some res ∧
      (res.errs ≠ [] ↔ (G.dangling ≠ [] ∨ G.orphans ≠ [] ∨ ∃ v, Derives G v v)) := by
  obtain ⟨res, hres, _, _, _, herrs⟩ :=
    resolveIdentities_graph o ho r lk hl hw G hG (fun _ => []) (by intro _ _ h; cases h)
  obtain ⟨ps, gf⟩ := graph_facts hG
  refine ⟨res, hres, ?_⟩
  rw [Ne, herrs]
  constructor
  · intro h
    apply Classical.byContradiction
    intro hn
    simp only [not_or, not_exists, Ne, Decidable.not_not] at hn
    exact h ⟨hn.2.1, hn.1, fun v _ => hn.2.2 v⟩
  · rintro (h | h | ⟨v, hv⟩) ⟨h1, h2, h3⟩
    · exact h h2
    · exact h h1
    · exact h3 v (derives_left_vertex gf hv) hv

/-- DESIGN 7.11 `identity_errors`: an undefined base or a derivation cycle is reported. -/
theorem identity_errors (r : Registry) (lk : Link) (hl : Linked r lk) (hw : WellFormed r)
    (G : Graph) (hG : graph r = some G) (hbad : G.dangling ≠ [] ∨ ¬ Acyclic G) (o : Oracle) (ho : o.Valid) :
    ∃ res, resolveIdentities o r lk (fun _ => []) = some res ∧ res.errs ≠ [] := by
  obtain ⟨res, hres, h⟩ := errors_iff r lk hl hw G hG o ho
  refine ⟨res, hres, h.mpr ?_⟩
  rcases hbad with h | h
  · exact Or.inl h
  · right; right
    unfold Acyclic at h
    exact Classical.not_forall_not.mp h

/-! ### identityref -/

/-- DESIGN 7.11 `identityref_base`: an identityref type written in a loaded (sub)module `m`, with
base statement `b`, resolves exactly when `b` names a vertex of the graph, and then
`YangType.IdentityBase` is that vertex's dictionary entry — so the type sees the list of
`values_are_derived`.  (Every dictionary entry is a vertex and vice versa.) -/
theorem identityref_base (r : Registry) (lk : Link) (hl : Linked r lk) (hw : WellFormed r)
    (G : Graph) (hG : graph r = some G) (o : Oracle) (ho : o.Valid) :
    ∃ res, resolveIdentities o r lk (fun _ => []) = some res ∧
      (∀ v, (∃ e ∈ res.dict, e.vtx = v) ↔ v ∈ G.verts) ∧
      ∀ m ∈ r.mods, ∀ (ty b : Stmt), ty.one? "base" = some b → ∀ v,
        (∃ e, identityrefBase r res.dict m ty = .ok e ∧ e ∈ res.dict ∧ e.vtx = v) ↔
          refTarget r G m b.arg = some v := by
  obtain ⟨res, hres, hverts, _, _, _⟩ :=
    resolveIdentities_graph o ho r lk hl hw G hG (fun _ => []) (by intro _ _ h; cases h)
  obtain ⟨ps, gf⟩ := graph_facts hG
  obtain ⟨dict, errs1, hbd, hs, hc, _⟩ := buildDict_spec o ho r lk hl
  have hd : res.dict = dict := by
    unfold resolveIdentities at hres
    simp only [hbd] at hres
    split at hres
    · cases hres
    · cases hres; rfl
  refine ⟨res, hres, hverts, ?_⟩
  intro m hm ty b hb v
  have hagree := resolve_agrees hw (hw.one G hG) gf hs hc hm b.arg v
  unfold identityrefBase refTarget
  simp only [hb, hd]
  constructor
  · rintro ⟨e, hf, _, hv⟩
    obtain ⟨hn, hmem⟩ := hagree.mp ⟨e, hf, hv⟩
    simp [hn, hmem]
  · intro h
    have : names r m b.arg = some v ∧ v ∈ G.verts := by
      cases hn : names r m b.arg with
      | none => simp [hn] at h
      | some w =>
        simp only [hn, Option.filter_some] at h
        split at h
        · rename_i hw'
          cases h
          exact ⟨rfl, by simpa using hw'⟩
        · cases h
    obtain ⟨e, hf, hv⟩ := hagree.mpr this
    refine ⟨e, hf, ?_, hv⟩
    unfold findIdentityBase at hf
    simp only at hf
    repeat' split at hf
    all_goals first
      | (cases hf; done)
      | (cases hf; exact (Goyang.Lemmas.Identity.get?_some (by assumption)).1)

/-- An identityref without a base statement is an error. -/
theorem identityref_needs_base (r : Registry) (dict : Dict) (m : Mod) (ty : Stmt)
    (h : ty.one? "base" = none) : ∃ err, identityrefBase r dict m ty = .error err := by
  unfold identityrefBase
  simp [h]

/-! ### end to end: load, link, resolve -/

/-- `Modules.add` keeps modules, and only modules, in the module table: part (a) of `WellFormed`
holds of whatever was loaded. -/
theorem loaded_module_table (files : List SrcFile) (r : Registry) (h : loadAll files = .ok r) :
    ∀ k m, r.getModule k = some m → m.isSub = false :=
  regOK_of_loadAll h

/-- `ms.include` over all modules (any map order) never exhausts the recursion budget, and when it
reports no error the hypothesis `Linked` of the theorems above holds of the links it leaves. -/
theorem include_establishes_linked (r : Registry) (o : Oracle) (ho : o.Valid) :
    ∃ lk errs, linkAll o r = some (lk, errs) ∧ (errs = [] → Linked r lk) :=
  linkAll_spec o ho r

/-- The whole of what `Process` does for identities, from the loaded texts, for every map order:
either an include/import is reported missing, or every identity of the schema gets the ascending
list of exactly its derived identities and an error is reported exactly when a base names no
identity, an included submodule has no loaded owner, or an identity is derived from itself.  The
model never runs out of recursion budget.  (Remaining hypotheses: module names without colon,
one identity statement per vertex.) -/
theorem process_end_to_end (files : List SrcFile) (r : Registry) (hload : loadAll files = .ok r)
    (hnc : ∀ m ∈ r.mods, ':' ∉ m.name.toList) (G : Graph) (hG : graph r = some G)
    (hone : OneStatementPerVertex G) (o : Oracle) (ho : o.Valid) :
    (∃ errs, run o r = .linkFailed errs ∧ errs ≠ []) ∨
    (∃ res, run o r = .done res (identityrefLeaves r res.dict) ∧
      (∀ i ∈ G.verts, ValuesOK G i (res.vals i)) ∧
      (res.errs ≠ [] ↔ (G.dangling ≠ [] ∨ G.orphans ≠ [] ∨ ∃ v, Derives G v v))) := by
  obtain ⟨lk, lerrs, hlink, hlinked⟩ := linkAll_spec o ho r
  have hw : WellFormed r := ⟨regOK_of_loadAll hload, hnc, fun G' hG' => by
    rw [hG] at hG'; cases hG'; exact hone⟩
  unfold run
  simp only [hlink]
  cases lerrs with
  | cons e es => exact Or.inl ⟨e :: es, by simp, by simp⟩
  | nil =>
    right
    have hl : Linked r lk := hlinked rfl
    obtain ⟨res, hres, hvals⟩ := values_are_derived r lk hl hw G hG o ho
    obtain ⟨res', hres', herr⟩ := errors_iff r lk hl hw G hG o ho
    rw [hres] at hres'
    cases hres'
    exact ⟨res, by simp [hres], hvals, herr⟩

/-! ### independence of the map order, without hypotheses on the schema -/

/-- The keys of `ms.Modules` are distinct — it is a Go map; an invariant of `Modules.add`
(`loaded_module_keys_distinct`).  Then `sort.Strings(keys)` has one possible result. -/
abbrev ModuleKeysDistinct (r : Registry) : Prop := KeysDistinct r

/-- `Modules.add` keeps the keys of the module table distinct. -/
theorem loaded_module_keys_distinct (files : List SrcFile) (r : Registry) (h : loadAll files = .ok r) :
    ModuleKeysDistinct r :=
  keysDistinct_of_loadAll h

/-- The reported errors do not depend on the order in which Go walks its maps: under any two
admissible oracles `resolveIdentities` answers, builds the same dictionary, leaves the same lists,
and the two error lists are permutations of each other — the same errors, each the same number of
times; in particular the same set.  No hypothesis on the schema (duplicates, cycles, dangling
bases, colons, unlinked includes: all allowed); the registry only has to be one with distinct
table keys, as every loaded one is. -/
theorem errors_oracle_independent (r : Registry) (lk : Link) (hk : ModuleKeysDistinct r)
    (o1 o2 : Oracle) (h1 : o1.Valid) (h2 : o2.Valid) :
    ∃ res1 res2, resolveIdentities o1 r lk (fun _ => []) = some res1 ∧
      resolveIdentities o2 r lk (fun _ => []) = some res2 ∧
      res1.dict = res2.dict ∧ res1.vals = res2.vals ∧
      res1.errs.Perm res2.errs ∧ (∀ e, e ∈ res1.errs ↔ e ∈ res2.errs) := by
  obtain ⟨res1, res2, hr1, hr2, hd, hv, hp⟩ := resolve_two_oracles r lk hk o1 o2 h1 h2
  exact ⟨res1, res2, hr1, hr2, hd, hv, hp, fun e => hp.mem_iff⟩

/-- `resolveIdentities` reads the link state only through the include closures of the loaded
modules: two link states that both have every include of the schema linked (what `ms.include`
leaves under two map orders) give the same result. -/
theorem links_irrelevant (r : Registry) (lk1 lk2 : Link) (hl1 : Linked r lk1) (hl2 : Linked r lk2)
    (o : Oracle) (ho : o.Valid) (vals0 : Vtx → List Vtx) :
    resolveIdentities o r lk1 vals0 = resolveIdentities o r lk2 vals0 := by
  have hb : buildDict o r lk1 = buildDict o r lk2 := by
    rw [buildDict_eq, buildDict_eq]
    apply foldlM_congr_opt
    intro acc md hmd
    have hmd' := (mem_modulesByKey o ho r md).mp hmd
    unfold dictStep
    have : walk (includeSucc r lk1) (r.mods.length + 1) md.seq [] =
        walk (includeSucc r lk2) (r.mods.length + 1) md.seq [] := by
      apply walk_congr
      intro x hx
      have hin : Goyang.Lemmas.Identity.InSchema r x := by
        refine ⟨md, hmd', ?_⟩
        exact (Goyang.Lemmas.Identity.reach_congr (fun y hy => hl2 y ⟨md, hmd', hy⟩) x).mp hx
      rw [hl1 x hin, hl2 x hin]
    rw [this]
  unfold resolveIdentities
  rw [hb]

/-- What `Process` reports for identities (errors of `resolveIdentities` and of the typedefs, else
those of the identityref leaves) is, as a multiset, the same under any two map orders — also when
the two runs of `ms.include` left different link states. -/
theorem process_errors_oracle_independent (r : Registry) (lk1 lk2 : Link) (hl1 : Linked r lk1)
    (hl2 : Linked r lk2) (hk : ModuleKeysDistinct r) (o1 o2 : Oracle) (h1 : o1.Valid) (h2 : o2.Valid) :
    ∃ res1 res2, resolveIdentities o1 r lk1 (fun _ => []) = some res1 ∧
      resolveIdentities o2 r lk2 (fun _ => []) = some res2 ∧
      res1.vals = res2.vals ∧ identityrefLeaves r res1.dict = identityrefLeaves r res2.dict ∧
      (processErrs r res1 (identityrefLeaves r res1.dict)).Perm
        (processErrs r res2 (identityrefLeaves r res2.dict)) := by
  obtain ⟨res1, res2, hr1, hr2, hd, hv, hp, _⟩ := errors_oracle_independent r lk1 hk o1 o2 h1 h2
  rw [links_irrelevant r lk1 lk2 hl1 hl2 o2 h2] at hr2
  refine ⟨res1, res2, hr1, hr2, hv, by rw [hd], ?_⟩
  unfold processErrs
  simp only
  rw [← hd]
  have hs : (res1.errs ++ typedefErrs r res1.dict).Perm (res2.errs ++ typedefErrs r res1.dict) :=
    hp.append_right _
  have he : (res1.errs ++ typedefErrs r res1.dict).isEmpty = (res2.errs ++ typedefErrs r res1.dict).isEmpty := by
    have := hs.length_eq
    cases h1 : res1.errs ++ typedefErrs r res1.dict <;> cases h2 : res2.errs ++ typedefErrs r res1.dict <;>
      simp_all
  rw [he]
  split
  · exact List.Perm.refl _
  · exact hs

/-! ### schemas with several identity statements for one vertex

RFC 7950 rules them out, goyang loads them (two identity statements of one name in a module and
its submodules; several revisions of one module side by side).  Go's dictionary then keeps the
statement registered last; `Spec.Identity.survivorGraph` is the identity graph of these surviving
statements (registration order: module-table keys ascending, under a key the module and its
includes depth first, within a (sub)module source order).  The theorems above, over that graph,
without hypothesis (c). -/

/-- What the theorems over the surviving statements ask of the loaded set: (a) the module table
holds modules only, (a') its keys are distinct, (b) no module name contains a colon.  (a) and (a')
hold of everything `Modules.add` built, (b) when the names are YANG identifiers
(`loaded_ok`). -/
structure LoadedOK (r : Registry) : Prop where
  modulesOnly : ∀ k m, r.getModule k = some m → m.isSub = false
  keys : ModuleKeysDistinct r
  noColon : ∀ m ∈ r.mods, ':' ∉ m.name.toList

/-- The surviving statements define each vertex once: `survivorGraph` always is a graph in the
sense of the main theorems. -/
theorem survivor_graph_one_per_vertex (r : Registry) (G : Graph) (hG : survivorGraph r = some G) :
    OneStatementPerVertex G := by
  obtain ⟨ps, R, _, sf⟩ := survivorGraph_facts hG
  unfold OneStatementPerVertex
  rw [sf.vertsEq]
  exact survivors_nodup R

/-- `values_are_derived` for schemas with any number of statements per vertex: for every map
order, every vertex ends up with the ascending list of exactly the vertices derived from it through
base statements of SURVIVING statements; the dictionary holds exactly the surviving vertices. -/
theorem values_are_derived_surviving (r : Registry) (lk : Link) (hl : Linked r lk) (hw : LoadedOK r)
    (G : Graph) (hG : survivorGraph r = some G) (o : Oracle) (ho : o.Valid) :
    ∃ res, resolveIdentities o r lk (fun _ => []) = some res ∧
      (∀ v, (∃ e ∈ res.dict, e.vtx = v) ↔ v ∈ G.verts) ∧
      (∀ i ∈ G.verts, ValuesOK G i (res.vals i)) ∧ (∀ x, x ∉ G.verts → res.vals x = []) := by
  obtain ⟨res, hres, hverts, hvals, hout, _⟩ :=
    resolveIdentities_survivors o ho r lk hl hw.modulesOnly hw.keys hw.noColon G hG
  exact ⟨res, hres, hverts, fun i hi => ⟨(hvals i hi).1, pairwise_before (hvals i hi).2⟩, hout⟩

/-- `values_eq_closure` over the surviving statements: their graph acyclic, all their bases
resolve ⇒ no error, and every vertex lists exactly its strict transitive derivations, each once,
never itself. -/
theorem values_eq_closure_surviving (r : Registry) (lk : Link) (hl : Linked r lk) (hw : LoadedOK r)
    (G : Graph) (hG : survivorGraph r = some G) (hac : Acyclic G) (hall : AllBasesResolve G)
    (o : Oracle) (ho : o.Valid) :
    ∃ res, resolveIdentities o r lk (fun _ => []) = some res ∧ res.errs = [] ∧
      ∀ i ∈ G.verts, ValuesOK G i (res.vals i) ∧ (res.vals i).Nodup ∧ i ∉ res.vals i := by
  obtain ⟨res, hres, _, hvals, _, herrs⟩ :=
    resolveIdentities_survivors o ho r lk hl hw.modulesOnly hw.keys hw.noColon G hG
  refine ⟨res, hres, herrs.mpr ⟨hall.2, hall.1, fun v _ => hac v⟩, ?_⟩
  intro i hi
  obtain ⟨h1, h2⟩ := hvals i hi
  refine ⟨⟨h1, pairwise_before h2⟩, ?_, fun hmem => hac i ((h1 i).mp hmem)⟩
  refine h2.imp ?_
  intro a b hab e
  subst e
  rw [vtxLt_strictTotal.irrefl] at hab
  cases hab

/-- `errors_iff` over the surviving statements: an error is reported exactly when a base
statement of a surviving statement names no surviving vertex, an included submodule has no loaded
owner, or a surviving vertex is derived from itself.  A dangling base or a cycle that exists only
through shadowed statements is NOT reported. -/
theorem errors_iff_surviving (r : Registry) (lk : Link) (hl : Linked r lk) (hw : LoadedOK r)
    (G : Graph) (hG : survivorGraph r = some G) (o : Oracle) (ho : o.Valid) :
    ∃ res, resolveIdentities o r lk (fun _ => []) = some res ∧
      (res.errs ≠ [] ↔ (G.dangling ≠ [] ∨ G.orphans ≠ [] ∨ ∃ v, Derives G v v)) := by
  obtain ⟨res, hres, _, _, _, herrs⟩ :=
    resolveIdentities_survivors o ho r lk hl hw.modulesOnly hw.keys hw.noColon G hG
  obtain ⟨ps, R, _, sf⟩ := survivorGraph_facts hG
  refine ⟨res, hres, ?_⟩
  rw [Ne, herrs]
  constructor
  · intro h
    apply Classical.byContradiction
    intro hn
    simp only [not_or, not_exists, Ne, Decidable.not_not] at hn
    exact h ⟨hn.2.1, hn.1, fun v _ => hn.2.2 v⟩
  · rintro (h | h | ⟨v, hv⟩) ⟨h1, h2, h3⟩
    · exact h h2
    · exact h h1
    · exact h3 v (derives_left_vertexS sf hv) hv

/-- `identityref_base` over the surviving statements: an identityref type written in a loaded
(sub)module `m`, with base statement `b`, resolves exactly when `b` names a surviving vertex, and
then `YangType.IdentityBase` is that vertex's dictionary entry (the surviving statement). -/
theorem identityref_base_surviving (r : Registry) (lk : Link) (hl : Linked r lk) (hw : LoadedOK r)
    (G : Graph) (hG : survivorGraph r = some G) (o : Oracle) (ho : o.Valid) :
    ∃ res, resolveIdentities o r lk (fun _ => []) = some res ∧
      ∀ m ∈ r.mods, ∀ (ty b : Stmt), ty.one? "base" = some b → ∀ v,
        (∃ e, identityrefBase r res.dict m ty = .ok e ∧ e ∈ res.dict ∧ e.vtx = v) ↔
          refTarget r G m b.arg = some v := by
  obtain ⟨res, hres, hfind⟩ :=
    findIdentityBase_survivors o ho r lk hl hw.modulesOnly hw.keys hw.noColon G hG
  refine ⟨res, hres, ?_⟩
  intro m hm ty b hb v
  unfold identityrefBase refTarget
  simp only [hb]
  rw [hfind m hm b.arg v]
  constructor
  · rintro ⟨hn, hmem⟩
    simp [hn, hmem]
  · intro h
    cases hn : names r m b.arg with
    | none => simp [hn] at h
    | some w =>
      simp only [hn, Option.filter_some] at h
      split at h
      · rename_i hw'
        cases h
        exact ⟨rfl, by simpa using hw'⟩
      · cases h

/-! ### hypothesis (b): module names without colon -/

/-- The name of every module and submodule handed to `Modules.add` is a YANG identifier
(RFC 7950 §6.2: a letter or `_`, then letters, digits, `_`, `-`, `.`).  Every legal YANG text
satisfies this; goyang's parser and AST builder do not check it
(`colon_in_module_name_misattributes`). -/
abbrev IdentifierNamed (files : List SrcFile) : Prop := IdentifierNames files

/-- Hypothesis (b) is derived: texts whose (sub)module names are identifiers load into a registry
without a colon in any module name. -/
theorem identifier_names_colon_free (files : List SrcFile) (r : Registry) (h : loadAll files = .ok r)
    (hid : IdentifierNamed files) : ∀ m ∈ r.mods, ':' ∉ m.name.toList :=
  noColon_of_identifierNames h hid

/-- Everything `LoadedOK` asks holds of identifier-named texts that `Modules.add` accepted. -/
theorem loaded_ok (files : List SrcFile) (r : Registry) (h : loadAll files = .ok r)
    (hid : IdentifierNamed files) : LoadedOK r :=
  ⟨regOK_of_loadAll h, keysDistinct_of_loadAll h, noColon_of_identifierNames h hid⟩

/-- `process_end_to_end` without hypotheses (b) and (c): from identifier-named texts, for every
map order, either an include/import is reported missing, or every surviving vertex gets the
ascending list of exactly what is derived from it among the surviving statements, and an error is
reported exactly when one of them has a base that names no surviving vertex, an included submodule
has no loaded owner, or a surviving vertex is derived from itself. -/
theorem process_end_to_end_surviving (files : List SrcFile) (r : Registry) (hload : loadAll files = .ok r)
    (hid : IdentifierNamed files) (G : Graph) (hG : survivorGraph r = some G) (o : Oracle) (ho : o.Valid) :
    (∃ errs, run o r = .linkFailed errs ∧ errs ≠ []) ∨
    (∃ res, run o r = .done res (identityrefLeaves r res.dict) ∧
      (∀ i ∈ G.verts, ValuesOK G i (res.vals i)) ∧
      (res.errs ≠ [] ↔ (G.dangling ≠ [] ∨ G.orphans ≠ [] ∨ ∃ v, Derives G v v))) := by
  obtain ⟨lk, lerrs, hlink, hlinked⟩ := linkAll_spec o ho r
  have hw : LoadedOK r := loaded_ok files r hload hid
  unfold run
  simp only [hlink]
  cases lerrs with
  | cons e es => exact Or.inl ⟨e :: es, by simp, by simp⟩
  | nil =>
    right
    have hl : Linked r lk := hlinked rfl
    obtain ⟨res, hres, _, hvals, _⟩ := values_are_derived_surviving r lk hl hw G hG o ho
    obtain ⟨res', hres', herr⟩ := errors_iff_surviving r lk hl hw G hG o ho
    rw [hres] at hres'
    cases hres'
    exact ⟨res, by simp [hres], hvals, herr⟩

/-! ### non-vacuity: a diamond across two modules, one corner in a sub-submodule

```
module a    { prefix a; include sa; identity top; identity left { base top; } }
submodule sa { belongs-to a { prefix a; } include sb; }
submodule sb { belongs-to a { prefix x; } identity deep { base x:left; } }
module b    { prefix b; import a { prefix pa; }
              identity right { base pa:top; } identity bottom { base pa:left; base right; }
              leaf l { type identityref { base pa:top; } } }
```
loaded in the order b, sb, a, sa.  All hypotheses of the theorems hold of it, and the model computes
`a:top ↦ [b:bottom, a:deep, a:left, b:right]` under two different map orders.  A second example (a
two-cycle through both modules plus a dangling base) shows the hypotheses of `identity_errors`. -/

def exStmt (kw arg : String) (subs : List Stmt := []) : Stmt := .mk kw true arg "x.yang" 1 1 subs

def exModA : Stmt := exStmt "module" "a" [exStmt "namespace" "urn:a", exStmt "prefix" "a", exStmt "include" "sa",
  exStmt "identity" "top", exStmt "identity" "left" [exStmt "base" "top"]]
def exSubSA : Stmt := exStmt "submodule" "sa" [exStmt "belongs-to" "a" [exStmt "prefix" "a"], exStmt "include" "sb"]
def exSubSB : Stmt := exStmt "submodule" "sb" [exStmt "belongs-to" "a" [exStmt "prefix" "x"],
  exStmt "identity" "deep" [exStmt "base" "x:left"]]
def exTypeL : Stmt := exStmt "type" "identityref" [exStmt "base" "pa:top"]
def exModB : Stmt := exStmt "module" "b" [exStmt "namespace" "urn:b", exStmt "prefix" "b", exStmt "import" "a" [exStmt "prefix" "pa"],
  exStmt "identity" "right" [exStmt "base" "pa:top"],
  exStmt "identity" "bottom" [exStmt "base" "pa:left", exStmt "base" "right"],
  exStmt "leaf" "l" [exTypeL]]

def exLoad (files : List SrcFile) : Registry :=
  match loadAll files with
  | .ok r => r
  | .error _ => {}

def exR : Registry := exLoad [⟨"b", [exModB]⟩, ⟨"sb", [exSubSB]⟩, ⟨"a", [exModA]⟩, ⟨"sa", [exSubSA]⟩]

def exLink (r : Registry) : Link :=
  match linkAll (Oracle.ofNat 0) r with
  | some (lk, _) => lk
  | none => {}

/-- The graph the specification reads off `exR`. -/
def exG : Graph :=
  { verts := [("b", "right"), ("b", "bottom"), ("a", "top"), ("a", "left"), ("a", "deep")]
    edges := [(("b", "right"), ("a", "top")), (("b", "bottom"), ("a", "left")), (("b", "bottom"), ("b", "right")),
      (("a", "left"), ("a", "top")), (("a", "deep"), ("a", "left"))]
    dangling := [], orphans := [], missing := [] }

deriving instance DecidableEq for Graph

example : graph exR = some exG := by decide
example : (linkAll (Oracle.ofNat 0) exR).map (·.2) = some [] := by decide
theorem example_linked : Linked exR (exLink exR) := linkOK_of_all (by decide)
theorem example_wellFormed : WellFormed exR :=
  ⟨regOK_of_entries (by decide), by decide, fun G hG => by
    have : graph exR = some exG := by decide
    rw [this] at hG
    cases hG
    show exG.verts.Nodup
    decide⟩
theorem example_acyclic : Acyclic exG :=
  acyclic_of_rank (fun v => if v.2 == "top" then 0 else if v.2 == "left" then 1 else if v.2 == "bottom" then 3 else 2)
    (by decide)
example : AllBasesResolve exG := ⟨rfl, rfl⟩
example : (Oracle.ofNat 0).order (α := Nat) 3 [1, 2, 3] ≠ (Oracle.ofNat 5).order 3 [1, 2, 3] := by decide

/-- What the model computes for the example, under two map orders. -/
example : ((resolveIdentities (Oracle.ofNat 0) exR (exLink exR) (fun _ => [])).map fun res =>
      (res.vals ("a", "top"), res.vals ("a", "left"))) =
    some ([("b", "bottom"), ("a", "deep"), ("a", "left"), ("b", "right")], [("b", "bottom"), ("a", "deep")]) := by
  decide
example : ((resolveIdentities (Oracle.ofNat 0) exR (exLink exR) (fun _ => [])).map fun res =>
      (res.vals ("b", "right"), res.vals ("b", "bottom"), res.errs.length)) =
    some ([("b", "bottom")], [], 0) := by decide
example : ((resolveIdentities (Oracle.ofNat 5) exR (exLink exR) (fun _ => [])).map fun res =>
      (res.vals ("a", "top"), res.vals ("a", "left"))) =
    some ([("b", "bottom"), ("a", "deep"), ("a", "left"), ("b", "right")], [("b", "bottom"), ("a", "deep")]) := by
  decide
example : ((resolveIdentities (Oracle.ofNat 5) exR (exLink exR) (fun _ => [])).map fun res =>
      (res.vals ("b", "right"), res.vals ("b", "bottom"), res.errs.length)) =
    some ([("b", "bottom")], [], 0) := by decide
/-- The identityref leaf of module `b` points at `a:top`. -/
example : ((resolveIdentities (Oracle.ofNat 0) exR (exLink exR) (fun _ => [])).bind fun res =>
      (exR.byId 0).map fun b => (identityrefBase exR res.dict b exTypeL).toOption.map (·.vtx)) = some (some ("a", "top")) := by
  decide
example : (exR.byId 0).map (fun b => refTarget exR exG b "pa:top") = some (some ("a", "top")) := by decide

/-- A two-cycle through both modules, and a dangling base. -/
def exModC : Stmt := exStmt "module" "c" [exStmt "namespace" "urn:c", exStmt "prefix" "c", exStmt "import" "d" [exStmt "prefix" "d"],
  exStmt "identity" "x" [exStmt "base" "d:y"], exStmt "identity" "z" [exStmt "base" "nosuch"]]
def exModD : Stmt := exStmt "module" "d" [exStmt "namespace" "urn:d", exStmt "prefix" "d", exStmt "import" "c" [exStmt "prefix" "c"],
  exStmt "identity" "y" [exStmt "base" "c:x"]]
def exR2 : Registry := exLoad [⟨"c", [exModC]⟩, ⟨"d", [exModD]⟩]
def exG2 : Graph :=
  { verts := [("c", "x"), ("c", "z"), ("d", "y")]
    edges := [(("c", "x"), ("d", "y")), (("d", "y"), ("c", "x"))]
    dangling := [(("c", "z"), "nosuch")], orphans := [], missing := [] }
example : graph exR2 = some exG2 := by decide
example : Linked exR2 (exLink exR2) := linkOK_of_all (by decide)
example : WellFormed exR2 :=
  ⟨regOK_of_entries (by decide), by decide, fun G hG => by
    have : graph exR2 = some exG2 := by decide
    rw [this] at hG
    cases hG
    show exG2.verts.Nodup
    decide⟩
example : exG2.dangling ≠ [] := by decide
example : ¬ Acyclic exG2 := fun h =>
  h ("c", "x") (Derives.step (k := ("d", "y")) (by decide) (Derives.base (by decide)))
example : ((resolveIdentities (Oracle.ofNat 0) exR2 (exLink exR2) (fun _ => [])).map fun res =>
      (res.vals ("c", "x"), res.errs.map (·.cls))) =
    some ([("c", "x"), ("d", "y")], ["identity-base-local", "cycle", "cycle"]) := by decide


/-! ### non-vacuity of the new theorems -/

/-- The keys of `exR`'s module table are distinct; its names are identifiers. -/
example : ModuleKeysDistinct exR := by show (exR.modules.map (·.1)).Nodup; decide
/-- `exLoad` is the registry `loadAll` returns when it accepts the texts. -/
def exLoads (files : List SrcFile) : Bool :=
  match loadAll files with
  | .ok _ => true
  | .error _ => false
theorem exLoad_ok (files : List SrcFile) (h : exLoads files = true) : loadAll files = .ok (exLoad files) := by
  unfold exLoads at h
  unfold exLoad
  cases hl : loadAll files with
  | ok r => rfl
  | error e => simp [hl] at h
theorem example_identifierNamed :
    IdentifierNamed [⟨"b", [exModB]⟩, ⟨"sb", [exSubSB]⟩, ⟨"a", [exModA]⟩, ⟨"sa", [exSubSA]⟩] := by
  intro f hf s hs
  simp only [List.mem_cons, List.not_mem_nil, or_false] at hf
  rcases hf with rfl | rfl | rfl | rfl <;>
    (simp only [List.mem_singleton] at hs; subst hs; decide)
example : loadAll [⟨"b", [exModB]⟩, ⟨"sb", [exSubSB]⟩, ⟨"a", [exModA]⟩, ⟨"sa", [exSubSA]⟩] = .ok exR :=
  exLoad_ok _ (by decide)
/-- On a schema with one statement per vertex every statement survives: same vertices and edges
as `graph` (listed in registration order). -/
example : (survivorGraph exR).map (fun G => (G.verts, G.dangling, G.orphans)) =
    some ([("a", "top"), ("a", "left"), ("a", "deep"), ("b", "right"), ("b", "bottom")], [], []) := by decide

/-- Two revisions of module `a` side by side, and module `b` with two statements `identity dup`:
```
module a { revision 2019-01-01; identity top; identity old { base top; } }
module a { revision 2021-01-01; identity top; identity new { base top; } }
module b { import a { prefix pa; } identity dup { base pa:top; } identity dup; }
```
Table keys ascending: `a` (→ 2021), `a@2019-01-01`, `a@2021-01-01`, `b`.  Survivors: `top` and `new`
of revision 2021, `old` of revision 2019, the SECOND `dup` (which has no base).  Go lists
`a:top ↦ [new, old]` through the 2021 statement and nothing for `b:dup`'s first statement (replayed
on the real code: /tmp probe, both load orders). -/
def exStmtAt (line : Nat) (kw arg : String) (subs : List Stmt := []) : Stmt := .mk kw true arg "x.yang" line 1 subs
def exModA19 : Stmt := exStmt "module" "a" [exStmt "namespace" "urn:a", exStmt "prefix" "a", exStmt "revision" "2019-01-01",
  exStmtAt 19 "identity" "top", exStmtAt 19 "identity" "old" [exStmt "base" "top"]]
def exModA21 : Stmt := exStmt "module" "a" [exStmt "namespace" "urn:a", exStmt "prefix" "a", exStmt "revision" "2021-01-01",
  exStmtAt 21 "identity" "top", exStmtAt 21 "identity" "new" [exStmt "base" "top"]]
def exModDup : Stmt := exStmt "module" "b" [exStmt "namespace" "urn:b", exStmt "prefix" "b", exStmt "import" "a" [exStmt "prefix" "pa"],
  exStmtAt 1 "identity" "dup" [exStmt "base" "pa:top"], exStmtAt 2 "identity" "dup"]
def exFiles3 : List SrcFile := [⟨"a19", [exModA19]⟩, ⟨"a21", [exModA21]⟩, ⟨"b", [exModDup]⟩]
def exR3 : Registry := exLoad exFiles3

theorem example3_loaded : loadAll exFiles3 = .ok exR3 := exLoad_ok _ (by decide)
example : (Goyang.Spec.Identity.ascendingKeys exR3.modules).map (·.1) = ["a", "a@2019-01-01", "a@2021-01-01", "b"] := by
  decide
theorem example3_identifierNamed : IdentifierNamed exFiles3 := by
  intro f hf s hs
  simp only [exFiles3, List.mem_cons, List.not_mem_nil, or_false] at hf
  rcases hf with rfl | rfl | rfl <;>
    (simp only [List.mem_singleton] at hs; subst hs; decide)
/-- Hypothesis (c) of the first theorems fails here: `graph` has every vertex of `a` twice. -/
example : (graph exR3).map (fun G => G.verts) =
    some [("a", "top"), ("a", "old"), ("a", "top"), ("a", "new"), ("b", "dup"), ("b", "dup")] := by decide
/-- The registrations and who survives (line numbers tell the statements apart). -/
example : (registrations exR3).map (fun R => R.map fun x => (x.1, x.2.2.line)) =
    some [(("a", "top"), 21), (("a", "new"), 21), (("a", "top"), 19), (("a", "old"), 19),
      (("a", "top"), 21), (("a", "new"), 21), (("b", "dup"), 1), (("b", "dup"), 2)] := by decide
example : (registrations exR3).map (fun R => (survivors R).map fun x => (x.1, x.2.2.line)) =
    some [(("a", "old"), 19), (("a", "top"), 21), (("a", "new"), 21), (("b", "dup"), 2)] := by decide
def exG3 : Graph :=
  { verts := [("a", "old"), ("a", "top"), ("a", "new"), ("b", "dup")]
    edges := [(("a", "old"), ("a", "top")), (("a", "new"), ("a", "top"))]
    dangling := [], orphans := [], missing := [] }
theorem example3_graph : survivorGraph exR3 = some exG3 := by decide
example : Linked exR3 (exLink exR3) := linkOK_of_all (by decide)
example : LoadedOK exR3 := loaded_ok exFiles3 exR3 example3_loaded example3_identifierNamed
example : Acyclic exG3 := acyclic_of_rank (fun v => if v.2 == "top" then 0 else 1) (by decide)
example : AllBasesResolve exG3 := ⟨rfl, rfl⟩
/-- What the model computes (the same as Go): `b:dup` is not derived from `a:top`. -/
example : ((resolveIdentities (Oracle.ofNat 0) exR3 (exLink exR3) (fun _ => [])).map fun res =>
      (res.vals ("a", "top"), res.vals ("b", "dup"), res.errs.length)) =
    some ([("a", "new"), ("a", "old")], [], 0) := by decide
example : ((resolveIdentities (Oracle.ofNat 0) exR3 (exLink exR3) (fun _ => [])).map fun res =>
      res.dict.map (fun e => (e.vtx, e.stmt.line))) =
    some [(("a", "top"), 21), (("a", "new"), 21), (("a", "old"), 19), (("b", "dup"), 2)] := by decide
example : ((resolveIdentities (Oracle.ofNat 3) exR3 (exLink exR3) (fun _ => [])).map fun res =>
      (res.vals ("a", "top"), res.vals ("b", "dup"), res.errs.length)) =
    some ([("a", "new"), ("a", "old")], [], 0) := by decide

/-- The identityref leaf-less example still has hypotheses of `identityref_base_surviving` that can
be met: from module `b` (sequence number 2) the base `pa:top` names the surviving `a:top`. -/
example : (exR3.byId 2).map (fun b => refTarget exR3 exG3 b "pa:top") = some (some ("a", "top")) := by decide

/-! ### hypothesis (b) is needed, and goyang does not enforce it

```
module m:a { prefix p; identity b; }
module m   { prefix q; identity a:b; }
module z   { prefix z; import m { prefix q; } identity d3 { base q:a:b; } }
```
Neither `m:a` nor `a:b` is an identifier, but goyang's parser and AST builder accept the texts.
`m:a`+`:`+`b` and `m`+`:`+`a:b` are the same dictionary key, the entry of `m:a` (later table key)
wins, and `z:d3`, whose base names `a:b` of module `m`, is listed under `b` of module `m:a`.
Replayed on the real code: `identity b` of `m:a` gets `Values = [d3]`, `identity a:b` of `m` gets
none; without module `m:a` loaded `a:b` of `m` gets `[d3]`.  With legal YANG this cannot happen
(`identifier_names_colon_free`). -/
def exModMA : Stmt := exStmt "module" "m:a" [exStmt "namespace" "urn:ma", exStmt "prefix" "p", exStmt "identity" "b"]
def exModM : Stmt := exStmt "module" "m" [exStmt "namespace" "urn:m", exStmt "prefix" "q", exStmt "identity" "a:b"]
def exModZ : Stmt := exStmt "module" "z" [exStmt "namespace" "urn:z", exStmt "prefix" "z", exStmt "import" "m" [exStmt "prefix" "q"],
  exStmt "identity" "d3" [exStmt "base" "q:a:b"]]
def exR4 : Registry := exLoad [⟨"x", [exModMA]⟩, ⟨"y", [exModM]⟩, ⟨"z", [exModZ]⟩]
def exG4 : Graph :=
  { verts := [("m:a", "b"), ("m", "a:b"), ("z", "d3")]
    edges := [(("z", "d3"), ("m", "a:b"))]
    dangling := [], orphans := [], missing := [] }

/-- With a colon in a module name the lists are wrong although every other hypothesis of
`values_are_derived` holds: the schema says `z:d3` is derived from `a:b` of module `m`; the model
(and Go) list it under `b` of module `m:a` and leave the list of `m`'s `a:b` empty. -/
theorem colon_in_module_name_misattributes :
    graph exR4 = some exG4 ∧ OneStatementPerVertex exG4 ∧ Linked exR4 (exLink exR4) ∧
    (∀ k m, exR4.getModule k = some m → m.isSub = false) ∧
    Derives exG4 ("z", "d3") ("m", "a:b") ∧
    ((resolveIdentities (Oracle.ofNat 0) exR4 (exLink exR4) (fun _ => [])).map fun res =>
      (res.vals ("m", "a:b"), res.vals ("m:a", "b"))) = some ([], [("z", "d3")]) :=
  ⟨by decide, by show exG4.verts.Nodup; decide, linkOK_of_all (by decide), regOK_of_entries (by decide),
    Derives.base (by decide), by decide⟩
/-- The oracle that walks every map in insertion order. -/
def exIdOracle : Oracle := ⟨fun _ l => l⟩
theorem exIdOracle_valid : exIdOracle.Valid := fun _ _ l => List.Perm.refl l

/-- `values_are_derived` with hypothesis (b) dropped is false of the model (and of the Go code). -/
theorem values_are_derived_without_b_fails :
    ¬ ∀ (r : Registry) (lk : Link), Linked r lk → (∀ k m, r.getModule k = some m → m.isSub = false) →
      ∀ G, graph r = some G → OneStatementPerVertex G → ∀ o : Oracle, o.Valid →
      ∃ res, resolveIdentities o r lk (fun _ => []) = some res ∧ ∀ i ∈ G.verts, ValuesOK G i (res.vals i) := by
  intro h
  obtain ⟨hg, hone, hl, hreg, hd, _⟩ := colon_in_module_name_misattributes
  obtain ⟨res, hres, hv⟩ := h exR4 (exLink exR4) hl hreg exG4 hg hone exIdOracle exIdOracle_valid
  have hmem := ((hv ("m", "a:b") (by decide)).exact ("z", "d3")).mpr hd
  have hnil : (resolveIdentities exIdOracle exR4 (exLink exR4) (fun _ => [])).map
      (fun res => res.vals ("m", "a:b")) = some [] := by decide
  rw [hres] at hnil
  simp only [Option.map_some, Option.some.injEq] at hnil
  rw [hnil] at hmem
  cases hmem
/-- … and the names of that example are not identifiers. -/
example : isIdentifier "m:a" = false ∧ isIdentifier "a:b" = false ∧ isIdentifier "ietf-interfaces" = true := by decide

/-! ### the specification always answers; the two groups of theorems connected

`graph r`, `registrations r` and `survivorGraph r` are `some` for EVERY registry: the breadth-first
rounds of `parts` and the step budget of the explicit-stack traversal always suffice.  So the
hypotheses `graph r = some G` / `survivorGraph r = some G` above only NAME the graph.  And when
hypothesis (c) holds, `survivorGraph r` is `graph r` up to the order of its lists, so the first
group of theorems is a special case of the second. -/

/-- The specification answers for every registry, loaded or not. -/
theorem specification_answers (r : Registry) :
    (∃ G, graph r = some G) ∧ (∃ R, registrations r = some R) ∧ ∃ G, survivorGraph r = some G :=
  ⟨graph_some r, registrations_some r, survivorGraph_some r⟩

/-- Same vertices, same edges, same dangling bases — each the same number of times (the lists are
permutations of each other) — and the same orphans and missing references. -/
abbrev SameUpToOrder (G' G : Graph) : Prop := GraphPerm G' G

/-- With one identity statement per vertex every statement survives: `survivorGraph r` answers and
is `graph r` up to the order of the lists (`graph` lists by ascending part of the schema,
`survivorGraph` by registration; the example below shows the orders do differ). -/
theorem survivor_graph_is_graph (r : Registry) (G : Graph) (hG : graph r = some G)
    (hone : OneStatementPerVertex G) : ∃ G', survivorGraph r = some G' ∧ SameUpToOrder G' G :=
  survivorGraph_perm_graph hG hone

/-- Everything the theorems say about a graph is insensitive to the order of its lists. -/
theorem same_up_to_order_transports (G' G : Graph) (h : SameUpToOrder G' G) :
    (∀ v, v ∈ G'.verts ↔ v ∈ G.verts) ∧ (∀ j i, Derives G' j i ↔ Derives G j i) ∧
    (∀ i l, ValuesOK G' i l ↔ ValuesOK G i l) ∧ (Acyclic G' ↔ Acyclic G) ∧
    (AllBasesResolve G' ↔ AllBasesResolve G) ∧ (G'.dangling = [] ↔ G.dangling = []) ∧
    G'.orphans = G.orphans ∧ (OneStatementPerVertex G' ↔ OneStatementPerVertex G) :=
  ⟨fun _ => h.verts.mem_iff, h.derives_iff, h.valuesOK_iff, h.acyclic_iff, h.allBasesResolve_iff,
    Goyang.Lemmas.Identity.perm_nil_iff h.dangling, h.orphans, h.one_iff⟩

/-- Hypothesis (c) is needed for that: with two revisions of one module loaded `graph` has six
vertices, `survivorGraph` four. -/
theorem survivor_graph_is_graph_without_c_fails :
    ¬ ∀ (r : Registry) (G : Graph), graph r = some G → ∃ G', survivorGraph r = some G' ∧ SameUpToOrder G' G := by
  intro h
  obtain ⟨G, hG⟩ := graph_some exR3
  obtain ⟨G', hG', hp⟩ := h exR3 G hG
  rw [example3_graph] at hG'
  cases hG'
  have h6 : (graph exR3).map (fun G => G.verts.length) = some 6 := by decide
  rw [hG] at h6
  simp only [Option.map_some, Option.some.injEq] at h6
  have := hp.verts.length_eq
  rw [h6] at this
  exact absurd this (by decide)

/-- `values_are_derived` (first group) obtained from `values_are_derived_surviving` (second group):
under (c) the graph of the surviving statements is the identity graph.  (The second group asks for
distinct table keys, which `WellFormed` does not mention; every loaded registry has them.) -/
theorem values_are_derived_via_surviving (r : Registry) (lk : Link) (hl : Linked r lk) (hw : WellFormed r)
    (hk : ModuleKeysDistinct r) (G : Graph) (hG : graph r = some G) (o : Oracle) (ho : o.Valid) :
    ∃ res, resolveIdentities o r lk (fun _ => []) = some res ∧
      ∀ i ∈ G.verts, ValuesOK G i (res.vals i) := by
  obtain ⟨G', hG', hp⟩ := survivor_graph_is_graph r G hG (hw.one G hG)
  obtain ⟨res, hres, _, hvals, _⟩ :=
    values_are_derived_surviving r lk hl ⟨hw.reg, hk, hw.noColon⟩ G' hG' o ho
  exact ⟨res, hres, fun i hi => (hp.valuesOK_iff i _).mp (hvals i (hp.verts.mem_iff.mpr hi))⟩

/-- What `Process` does for identities on a registry with `LoadedOK`, over the surviving
statements (the core of `process_end_to_end_surviving`, without the loading step). -/
theorem process_surviving (r : Registry) (hw : LoadedOK r) (G : Graph) (hG : survivorGraph r = some G)
    (o : Oracle) (ho : o.Valid) :
    (∃ errs, run o r = .linkFailed errs ∧ errs ≠ []) ∨
    (∃ res, run o r = .done res (identityrefLeaves r res.dict) ∧
      (∀ i ∈ G.verts, ValuesOK G i (res.vals i)) ∧
      (res.errs ≠ [] ↔ (G.dangling ≠ [] ∨ G.orphans ≠ [] ∨ ∃ v, Derives G v v))) := by
  obtain ⟨lk, lerrs, hlink, hlinked⟩ := linkAll_spec o ho r
  unfold run
  simp only [hlink]
  cases lerrs with
  | cons e es => exact Or.inl ⟨e :: es, by simp, by simp⟩
  | nil =>
    right
    have hl : Linked r lk := hlinked rfl
    obtain ⟨res, hres, _, hvals, _⟩ := values_are_derived_surviving r lk hl hw G hG o ho
    obtain ⟨res', hres', herr⟩ := errors_iff_surviving r lk hl hw G hG o ho
    rw [hres] at hres'
    cases hres'
    exact ⟨res, by simp [hres], hvals, herr⟩

/-- The main theorem of the first group, `process_end_to_end` (same statement), as a corollary of
the second group: under (c) `survivorGraph r` is `graph r` up to order, and lists, errors and
derivations do not see the order. -/
theorem process_end_to_end_via_surviving (files : List SrcFile) (r : Registry) (hload : loadAll files = .ok r)
    (hnc : ∀ m ∈ r.mods, ':' ∉ m.name.toList) (G : Graph) (hG : graph r = some G)
    (hone : OneStatementPerVertex G) (o : Oracle) (ho : o.Valid) :
    (∃ errs, run o r = .linkFailed errs ∧ errs ≠ []) ∨
    (∃ res, run o r = .done res (identityrefLeaves r res.dict) ∧
      (∀ i ∈ G.verts, ValuesOK G i (res.vals i)) ∧
      (res.errs ≠ [] ↔ (G.dangling ≠ [] ∨ G.orphans ≠ [] ∨ ∃ v, Derives G v v))) := by
  obtain ⟨G', hG', hp⟩ := survivor_graph_is_graph r G hG hone
  have hw : LoadedOK r := ⟨regOK_of_loadAll hload, keysDistinct_of_loadAll hload, hnc⟩
  rcases process_surviving r hw G' hG' o ho with h | ⟨res, hrun, hvals, herr⟩
  · exact Or.inl h
  · right
    refine ⟨res, hrun, fun i hi => (hp.valuesOK_iff i _).mp (hvals i (hp.verts.mem_iff.mpr hi)), ?_⟩
    rw [herr, Ne, Ne, Goyang.Lemmas.Identity.perm_nil_iff hp.dangling, hp.orphans]
    constructor
    · rintro (h | h | ⟨v, hv⟩)
      · exact Or.inl h
      · exact Or.inr (Or.inl h)
      · exact Or.inr (Or.inr ⟨v, (hp.derives_iff v v).mp hv⟩)
    · rintro (h | h | ⟨v, hv⟩)
      · exact Or.inl h
      · exact Or.inr (Or.inl h)
      · exact Or.inr (Or.inr ⟨v, (hp.derives_iff v v).mpr hv⟩)

/-- `process_end_to_end_surviving` without the hypothesis `survivorGraph r = some G`: from
identifier-named texts that `Modules.add` accepted, for every map order — no hypothesis on the
schema, none on the specification.  The graph of the surviving statements exists, defines every
vertex once, and either an include/import is reported missing, or every surviving vertex gets the
ascending list of exactly what is derived from it among the surviving statements and an error is
reported exactly when one of them has a base that names no surviving vertex, an included submodule
has no loaded owner, or a surviving vertex is derived from itself. -/
theorem process_end_to_end_loaded (files : List SrcFile) (r : Registry) (hload : loadAll files = .ok r)
    (hid : IdentifierNamed files) (o : Oracle) (ho : o.Valid) :
    ∃ G, survivorGraph r = some G ∧ OneStatementPerVertex G ∧
      ((∃ errs, run o r = .linkFailed errs ∧ errs ≠ []) ∨
       (∃ res, run o r = .done res (identityrefLeaves r res.dict) ∧
        (∀ i ∈ G.verts, ValuesOK G i (res.vals i)) ∧
        (res.errs ≠ [] ↔ (G.dangling ≠ [] ∨ G.orphans ≠ [] ∨ ∃ v, Derives G v v)))) := by
  obtain ⟨G, hG⟩ := survivorGraph_some r
  exact ⟨G, hG, survivor_graph_one_per_vertex r G hG,
    process_end_to_end_surviving files r hload hid G hG o ho⟩

/-- The first group likewise loses `graph r = some G`: the identity graph exists, and when it has one
statement per vertex the conclusion of `process_end_to_end` holds of it. -/
theorem process_end_to_end_total (files : List SrcFile) (r : Registry) (hload : loadAll files = .ok r)
    (hnc : ∀ m ∈ r.mods, ':' ∉ m.name.toList) (o : Oracle) (ho : o.Valid) :
    ∃ G, graph r = some G ∧ (OneStatementPerVertex G →
      ((∃ errs, run o r = .linkFailed errs ∧ errs ≠ []) ∨
       (∃ res, run o r = .done res (identityrefLeaves r res.dict) ∧
        (∀ i ∈ G.verts, ValuesOK G i (res.vals i)) ∧
        (res.errs ≠ [] ↔ (G.dangling ≠ [] ∨ G.orphans ≠ [] ∨ ∃ v, Derives G v v))))) := by
  obtain ⟨G, hG⟩ := graph_some r
  exact ⟨G, hG, fun hone => process_end_to_end files r hload hnc G hG hone o ho⟩

/-! non-vacuity of this section -/

/-- The diamond example: hypotheses of `survivor_graph_is_graph`, `values_are_derived_via_surviving`
and `process_end_to_end_via_surviving` hold of it … -/
example : graph exR = some exG ∧ OneStatementPerVertex exG ∧ ModuleKeysDistinct exR ∧
    (∀ m ∈ exR.mods, ':' ∉ m.name.toList) :=
  ⟨by decide, by show exG.verts.Nodup; decide, by show (exR.modules.map (·.1)).Nodup; decide, by decide⟩
example : ∃ G', survivorGraph exR = some G' ∧ SameUpToOrder G' exG :=
  survivor_graph_is_graph exR exG (by decide) (by show exG.verts.Nodup; decide)
/-- … and the two graphs are NOT equal as records: the vertex lists come in different orders. -/
example : (survivorGraph exR).map (fun G => G.verts) ≠ (graph exR).map (fun G => G.verts) := by decide
example : (survivorGraph exR).map (fun G => G.edges) ≠ (graph exR).map (fun G => G.edges) := by decide
/-- `process_end_to_end_loaded` on the example with two revisions and a duplicate statement: all its
hypotheses hold (`example3_loaded`, `example3_identifierNamed`, `exIdOracle_valid`), and the graph it
speaks about is `exG3`. -/
example : ∃ G, survivorGraph exR3 = some G ∧ OneStatementPerVertex G := by
  obtain ⟨G, h1, h2, _⟩ :=
    process_end_to_end_loaded exFiles3 exR3 example3_loaded example3_identifierNamed exIdOracle exIdOracle_valid
  exact ⟨G, h1, h2⟩
/-- A registry that no loading produced (a module table entry that points nowhere, a submodule in
the module table): the specification still answers. -/
example : ∃ G, survivorGraph { mods := [⟨7, exSubSB⟩, ⟨7, exModA⟩], modules := [("zz", 3), ("a", 7)] } = some G :=
  (specification_answers _).2.2

/-! ### which errors: every cycle, every undefined base — and nothing else

`errors_iff` / `identity_errors` only say that the error list is non-empty exactly when the schema
has a defect.  The theorems of this section say WHICH errors the model reports, defect by defect,
over the surviving statements `survivors R` (`R = registrations r`; with one statement per vertex:
all identity statements): an entry `x = (vertex, declaring (sub)module, identity statement)`.

* every vertex derived from itself gets a `cycle` error at its OWN identity statement
  (`cycle_reported_per_member`), so every cyclic component is named by an error located at one of
  its members — a cycle derived from another cycle by its own members, not by the report of the
  upper one (`cycle_reported_per_component`);
* every dangling base of the graph is answered by an error of class identity-base-local /
  identity-base-remote / identity-prefix located at the module or submodule statement of the text
  that writes it (`undefined_base_reported`);
* nothing else carries these classes: a `cycle` error sits at the identity statement of a vertex
  derived from itself (`cycle_errors_sound`), an undefined-base error at the text of a base
  statement that is a dangling base of the graph (`base_errors_sound`);
* hence the runner's executable verdict `Spec.Identity.judgeReports` answers `holds` on the model's
  own errors, for every loaded registry and map order (`judgeReports_holds_of_model`,
  `judgeReports_holds_of_run`): a `violates` of the per-defect verdict on Go's errors is always a
  difference between Go and the model. -/

/-- All four per-defect statements at once, for the one result `resolveIdentities` returns. -/
theorem errors_are_exactly_the_defects (r : Registry) (lk : Link) (hl : Linked r lk) (hw : LoadedOK r)
    (G : Graph) (hG : survivorGraph r = some G) (R : List (Vertex × Mod × Stmt)) (hR : registrations r = some R)
    (o : Oracle) (ho : o.Valid) :
    ∃ res, resolveIdentities o r lk (fun _ => []) = some res ∧
      (∀ x ∈ survivors R, Derives G x.1 x.1 → Err.at_ x.2.2 cycleClass ∈ res.errs) ∧
      (∀ x ∈ survivors R, ∀ base ∈ x.2.2.all "base",
        (¬ ∃ b, names r x.2.1 base.arg = some b ∧ b ∈ G.verts) →
          ∃ c ∈ undefinedBaseClasses, Err.at_ x.2.1.stmt c ∈ res.errs) ∧
      (∀ e ∈ res.errs, e.cls = cycleClass →
        ∃ x ∈ survivors R, e = Err.at_ x.2.2 cycleClass ∧ Derives G x.1 x.1) ∧
      (∀ e ∈ res.errs, e.cls ∈ undefinedBaseClasses →
        ∃ x ∈ survivors R, ∃ base ∈ x.2.2.all "base", e = Err.at_ x.2.1.stmt e.cls ∧
          ¬ ∃ b, names r x.2.1 base.arg = some b ∧ b ∈ G.verts) := by
  obtain ⟨res, R', hres, hR', h⟩ :=
    resolveIdentities_reports o ho r lk hl hw.modulesOnly hw.keys hw.noColon G hG
  rw [hR] at hR'
  cases hR'
  exact ⟨res, hres, h⟩

/-- Every vertex that is derived from itself gets a `cycle` error at its own identity statement:
one report per MEMBER of every cycle, under every map order. -/
theorem cycle_reported_per_member (r : Registry) (lk : Link) (hl : Linked r lk) (hw : LoadedOK r)
    (G : Graph) (hG : survivorGraph r = some G) (R : List (Vertex × Mod × Stmt)) (hR : registrations r = some R)
    (o : Oracle) (ho : o.Valid) :
    ∃ res, resolveIdentities o r lk (fun _ => []) = some res ∧
      ∀ x ∈ survivors R, Derives G x.1 x.1 →
        ∃ e ∈ res.errs, e.cls = cycleClass ∧ locatedAt e x.2.2 = true := by
  obtain ⟨res, hres, hA, _⟩ := errors_are_exactly_the_defects r lk hl hw G hG R hR o ho
  exact ⟨res, hres, fun x hx hd => ⟨_, hA x hx hd, rfl, locatedAt_at _ _⟩⟩

/-- The error clause, cycles: for every vertex `v` that reaches itself the errors hold a `cycle`
error located at the identity statement of a member of ITS cycle (a vertex derived from `v` from
which `v` is derived).  A cycle derived from another cycle is answered by an error at one of its
own members. -/
theorem cycle_reported_per_component (r : Registry) (lk : Link) (hl : Linked r lk) (hw : LoadedOK r)
    (G : Graph) (hG : survivorGraph r = some G) (R : List (Vertex × Mod × Stmt)) (hR : registrations r = some R)
    (o : Oracle) (ho : o.Valid) :
    ∃ res, resolveIdentities o r lk (fun _ => []) = some res ∧
      ∀ v, Derives G v v → ∃ x ∈ survivors R, Derives G x.1 v ∧ Derives G v x.1 ∧
        ∃ e ∈ res.errs, e.cls = cycleClass ∧ locatedAt e x.2.2 = true := by
  obtain ⟨res, hres, hA⟩ := cycle_reported_per_member r lk hl hw G hG R hR o ho
  obtain ⟨ps, R', hR', sf⟩ := survivorGraph_facts hG
  rw [hR] at hR'
  cases hR'
  refine ⟨res, hres, ?_⟩
  intro v hv
  obtain ⟨x, hx, hxv⟩ := (sf.verts v).mp (derives_left_vertexS sf hv)
  subst hxv
  exact ⟨x, hx, hv, hv, hA x hx hv⟩

/-- The error clause, undefined bases: every dangling base `(identity, argument)` of the graph is a
base statement of a surviving identity statement, and the errors hold one of class
identity-base-local / identity-base-remote / identity-prefix located at the module or submodule
statement of the text that writes it. -/
theorem undefined_base_reported (r : Registry) (lk : Link) (hl : Linked r lk) (hw : LoadedOK r)
    (G : Graph) (hG : survivorGraph r = some G) (R : List (Vertex × Mod × Stmt)) (hR : registrations r = some R)
    (o : Oracle) (ho : o.Valid) :
    ∃ res, resolveIdentities o r lk (fun _ => []) = some res ∧
      ∀ va ∈ G.dangling, ∃ x ∈ survivors R, x.1 = va.1 ∧ (∃ b ∈ x.2.2.all "base", b.arg = va.2) ∧
        ∃ e ∈ res.errs, e.cls ∈ undefinedBaseClasses ∧ locatedAt e x.2.1.stmt = true := by
  obtain ⟨res, hres, _, hB, _⟩ := errors_are_exactly_the_defects r lk hl hw G hG R hR o ho
  refine ⟨res, hres, ?_⟩
  rintro ⟨v, a⟩ hva
  obtain ⟨m, hu⟩ := (survivor_dangling hG hR v a).mp hva
  obtain ⟨x, hx, b, hb, he, hno⟩ := mem_undefinedBases.mp hu
  simp only [Prod.mk.injEq] at he
  obtain ⟨hv, _, ha⟩ := he
  obtain ⟨c, hc, hmem⟩ := hB x hx b hb hno
  exact ⟨x, hx, hv.symm, ⟨b, hb, ha.symm⟩, _, hmem, hc, locatedAt_at _ _⟩

/-- Soundness of the cycle reports: every error of class `cycle` is located at the surviving
identity statement of a vertex that is derived from itself. -/
theorem cycle_errors_sound (r : Registry) (lk : Link) (hl : Linked r lk) (hw : LoadedOK r)
    (G : Graph) (hG : survivorGraph r = some G) (R : List (Vertex × Mod × Stmt)) (hR : registrations r = some R)
    (o : Oracle) (ho : o.Valid) :
    ∃ res, resolveIdentities o r lk (fun _ => []) = some res ∧
      ∀ e ∈ res.errs, e.cls = cycleClass →
        ∃ x ∈ survivors R, e = Err.at_ x.2.2 cycleClass ∧ Derives G x.1 x.1 := by
  obtain ⟨res, hres, _, _, hC, _⟩ := errors_are_exactly_the_defects r lk hl hw G hG R hR o ho
  exact ⟨res, hres, hC⟩

/-- Soundness of the undefined-base reports: every error of one of the three classes is located at
the (sub)module statement of a text in which a surviving identity statement has a base statement
that is a dangling base of the graph. -/
theorem base_errors_sound (r : Registry) (lk : Link) (hl : Linked r lk) (hw : LoadedOK r)
    (G : Graph) (hG : survivorGraph r = some G) (R : List (Vertex × Mod × Stmt)) (hR : registrations r = some R)
    (o : Oracle) (ho : o.Valid) :
    ∃ res, resolveIdentities o r lk (fun _ => []) = some res ∧
      ∀ e ∈ res.errs, e.cls ∈ undefinedBaseClasses →
        ∃ x ∈ survivors R, ∃ b ∈ x.2.2.all "base", e = Err.at_ x.2.1.stmt e.cls ∧
          (x.1, b.arg) ∈ G.dangling := by
  obtain ⟨res, hres, _, _, _, hD⟩ := errors_are_exactly_the_defects r lk hl hw G hG R hR o ho
  refine ⟨res, hres, ?_⟩
  intro e he hcls
  obtain ⟨x, hx, b, hb, heq, hno⟩ := hD e he hcls
  exact ⟨x, hx, b, hb, heq,
    (survivor_dangling hG hR x.1 b.arg).mpr ⟨x.2.1, mem_undefinedBases.mpr ⟨x, hx, b, hb, rfl, hno⟩⟩⟩

/-- The runner's per-defect verdict answers `holds` on the model's own errors — and on every error
list that contains them. -/
theorem judgeReports_holds_of_model (r : Registry) (lk : Link) (hl : Linked r lk) (hw : LoadedOK r)
    (G : Graph) (hG : survivorGraph r = some G) (R : List (Vertex × Mod × Stmt)) (hR : registrations r = some R)
    (o : Oracle) (ho : o.Valid) :
    ∃ res, resolveIdentities o r lk (fun _ => []) = some res ∧
      ∀ errs, (∀ e ∈ res.errs, e ∈ errs) → judgeReports r G (survivors R) errs = Verdict.holds := by
  obtain ⟨res, hres, hA, hB, _⟩ := errors_are_exactly_the_defects r lk hl hw G hG R hR o ho
  obtain ⟨ps, R', hR', sf⟩ := survivorGraph_facts hG
  rw [hR] at hR'
  cases hR'
  refine ⟨res, hres, ?_⟩
  intro errs hsub
  apply judgeReports_holds
  · intro v hv
    exact (sf.verts v).mp (derives_left_vertexS sf hv)
  · intro x hx hd
    exact ⟨_, hsub _ (hA x hx hd), rfl, locatedAt_at _ _⟩
  · intro u hu
    obtain ⟨x, hx, b, hb, rfl, hno⟩ := mem_undefinedBases.mp hu
    obtain ⟨c, hc, hmem⟩ := hB x hx b hb hno
    exact ⟨_, hsub _ hmem, hc, locatedAt_at _ _⟩

/-- The same from the loaded registry, for what `Process` returns: either an include/import is
reported missing, or the verdict on the errors of `resolveIdentities`, and on the whole error list
of `Process` (`processErrs`), is `holds`. -/
theorem judgeReports_holds_of_run (r : Registry) (hw : LoadedOK r) (G : Graph) (hG : survivorGraph r = some G)
    (R : List (Vertex × Mod × Stmt)) (hR : registrations r = some R) (o : Oracle) (ho : o.Valid) :
    (∃ errs, run o r = .linkFailed errs ∧ errs ≠ []) ∨
    (∃ res, run o r = .done res (identityrefLeaves r res.dict) ∧
      judgeReports r G (survivors R) res.errs = Verdict.holds ∧
      judgeReports r G (survivors R) (processErrs r res (identityrefLeaves r res.dict)) = Verdict.holds) := by
  obtain ⟨lk, lerrs, hlink, hlinked⟩ := linkAll_spec o ho r
  unfold run
  simp only [hlink]
  cases lerrs with
  | cons e es => exact Or.inl ⟨e :: es, by simp, by simp⟩
  | nil =>
    right
    have hl : Linked r lk := hlinked rfl
    obtain ⟨res, hres, hj⟩ := judgeReports_holds_of_model r lk hl hw G hG R hR o ho
    refine ⟨res, by simp [hres], hj _ (fun _ h => h), hj _ ?_⟩
    intro e he
    unfold processErrs
    simp only
    split
    · rename_i hemp
      have : res.errs ++ typedefErrs r res.dict = [] := by simpa using hemp
      rw [(List.append_eq_nil_iff.mp this).1] at he
      cases he
    · exact List.mem_append_left _ he

/-- The error clause end to end, without hypotheses on the schema: from identifier-named texts that
`Modules.add` accepted, for every map order, the graph `G` of the surviving statements and the
registrations `R` exist, and either an include/import is reported missing, or `Process` finishes
with the errors `res.errs` of `resolveIdentities` such that
(1) every surviving vertex derived from itself has a `cycle` error at its own identity statement,
(2) every dangling base of `G` is a base statement of a surviving statement and has an
    undefined-base error at the (sub)module statement of the text that writes it,
(3) every `cycle` error sits at the surviving statement of a vertex derived from itself,
(4) every undefined-base error sits at the text of a base statement that is a dangling base of `G`,
(5) the runner's per-defect verdict on everything `Process` returns is `holds`. -/
theorem error_clause_end_to_end (files : List SrcFile) (r : Registry) (hload : loadAll files = .ok r)
    (hid : IdentifierNamed files) (o : Oracle) (ho : o.Valid) :
    ∃ G R, survivorGraph r = some G ∧ registrations r = some R ∧
      ((∃ errs, run o r = .linkFailed errs ∧ errs ≠ []) ∨
       (∃ res, run o r = .done res (identityrefLeaves r res.dict) ∧
        (∀ x ∈ survivors R, Derives G x.1 x.1 →
          ∃ e ∈ res.errs, e.cls = cycleClass ∧ locatedAt e x.2.2 = true) ∧
        (∀ va ∈ G.dangling, ∃ x ∈ survivors R, x.1 = va.1 ∧ (∃ b ∈ x.2.2.all "base", b.arg = va.2) ∧
          ∃ e ∈ res.errs, e.cls ∈ undefinedBaseClasses ∧ locatedAt e x.2.1.stmt = true) ∧
        (∀ e ∈ res.errs, e.cls = cycleClass →
          ∃ x ∈ survivors R, e = Err.at_ x.2.2 cycleClass ∧ Derives G x.1 x.1) ∧
        (∀ e ∈ res.errs, e.cls ∈ undefinedBaseClasses →
          ∃ x ∈ survivors R, ∃ b ∈ x.2.2.all "base", e = Err.at_ x.2.1.stmt e.cls ∧
            (x.1, b.arg) ∈ G.dangling) ∧
        judgeReports r G (survivors R) (processErrs r res (identityrefLeaves r res.dict)) = Verdict.holds)) := by
  obtain ⟨G, hG⟩ := survivorGraph_some r
  obtain ⟨R, hR⟩ := registrations_some r
  have hw : LoadedOK r := loaded_ok files r hload hid
  refine ⟨G, R, hG, hR, ?_⟩
  rcases judgeReports_holds_of_run r hw G hG R hR o ho with h | ⟨res, hrun, _, hj⟩
  · exact Or.inl h
  · right
    obtain ⟨lk, lerrs, hlink, hlinked⟩ := linkAll_spec o ho r
    have hrun' := hrun
    unfold run at hrun'
    simp only [hlink] at hrun'
    cases lerrs with
    | cons e es => simp at hrun'
    | nil =>
      have hl : Linked r lk := hlinked rfl
      obtain ⟨res1, hres1, h1⟩ := cycle_reported_per_member r lk hl hw G hG R hR o ho
      obtain ⟨res2, hres2, h2⟩ := undefined_base_reported r lk hl hw G hG R hR o ho
      obtain ⟨res3, hres3, h3⟩ := cycle_errors_sound r lk hl hw G hG R hR o ho
      obtain ⟨res4, hres4, h4⟩ := base_errors_sound r lk hl hw G hG R hR o ho
      rw [hres1] at hres2 hres3 hres4
      cases hres2
      cases hres3
      cases hres4
      have hr : res = res1 := by
        simp only [hres1, List.isEmpty_nil, Bool.not_true, Bool.false_eq_true, if_false] at hrun'
        cases hrun'
        rfl
      subst hr
      exact ⟨res, hrun, h1, h2, h3, h4, hj⟩

/-! The same for the first group (one identity statement per vertex, `graph r`): the statements are
all identity statements of the parts of the schema — the list the driver hands to `judgeReports`
when no vertex has two statements. -/

/-- Every identity statement of the parts `ps` of the schema: (vertex, declaring (sub)module,
statement). -/
abbrev identityStatements (r : Registry) (ps : List Mod) : List (Vertex × Mod × Stmt) := fullStmts r ps

/-- `errors_are_exactly_the_defects` over `graph r` and all identity statements of the schema, under
hypothesis (c). -/
theorem errors_are_exactly_the_defects_one_per_vertex (r : Registry) (lk : Link) (hl : Linked r lk)
    (hw : WellFormed r) (hk : ModuleKeysDistinct r) (G : Graph) (hG : graph r = some G)
    (ps : List Mod) (hps : Goyang.Spec.Identity.parts r = some ps) (o : Oracle) (ho : o.Valid) :
    ∃ res, resolveIdentities o r lk (fun _ => []) = some res ∧
      (∀ x ∈ identityStatements r ps, Derives G x.1 x.1 → Err.at_ x.2.2 cycleClass ∈ res.errs) ∧
      (∀ x ∈ identityStatements r ps, ∀ base ∈ x.2.2.all "base",
        (¬ ∃ b, names r x.2.1 base.arg = some b ∧ b ∈ G.verts) →
          ∃ c ∈ undefinedBaseClasses, Err.at_ x.2.1.stmt c ∈ res.errs) ∧
      (∀ e ∈ res.errs, e.cls = cycleClass →
        ∃ x ∈ identityStatements r ps, e = Err.at_ x.2.2 cycleClass ∧ Derives G x.1 x.1) ∧
      (∀ e ∈ res.errs, e.cls ∈ undefinedBaseClasses →
        ∃ x ∈ identityStatements r ps, ∃ base ∈ x.2.2.all "base", e = Err.at_ x.2.1.stmt e.cls ∧
          ¬ ∃ b, names r x.2.1 base.arg = some b ∧ b ∈ G.verts) := by
  obtain ⟨G', hG', hp⟩ := survivor_graph_is_graph r G hG (hw.one G hG)
  obtain ⟨R, hR⟩ := registrations_some r
  obtain ⟨ps', gf⟩ := graph_facts hG
  have hpe : ps' = ps := by
    have := gf.parts
    rw [hps] at this
    cases this
    rfl
  subst hpe
  have hone : ((ps'.flatMap (Goyang.Spec.Identity.vertexStmts r)).map (·.1)).Nodup := by
    rw [← gf.vertsEq]; exact hw.one G hG
  have hperm := survivors_perm_full hps hR hone
  have hv : ∀ b, b ∈ G'.verts ↔ b ∈ G.verts := fun _ => hp.verts.mem_iff
  have hno : ∀ (m : Mod) (a : String), (¬ ∃ b, names r m a = some b ∧ b ∈ G.verts) ↔
      (¬ ∃ b, names r m a = some b ∧ b ∈ G'.verts) := by
    intro m a
    constructor
    · rintro h ⟨b, hb, hm⟩; exact h ⟨b, hb, (hv b).mp hm⟩
    · rintro h ⟨b, hb, hm⟩; exact h ⟨b, hb, (hv b).mpr hm⟩
  obtain ⟨res, hres, hA, hB, hC, hD⟩ :=
    errors_are_exactly_the_defects r lk hl ⟨hw.reg, hk, hw.noColon⟩ G' hG' R hR o ho
  refine ⟨res, hres, ?_, ?_, ?_, ?_⟩
  · intro x hx hd
    exact hA x (hperm.mem_iff.mpr hx) ((hp.derives_iff _ _).mpr hd)
  · intro x hx b hb h
    exact hB x (hperm.mem_iff.mpr hx) b hb ((hno _ _).mp h)
  · intro e he hc
    obtain ⟨x, hx, heq, hd⟩ := hC e he hc
    exact ⟨x, hperm.mem_iff.mp hx, heq, (hp.derives_iff _ _).mp hd⟩
  · intro e he hc
    obtain ⟨x, hx, b, hb, heq, h⟩ := hD e he hc
    exact ⟨x, hperm.mem_iff.mp hx, b, hb, heq, (hno _ _).mpr h⟩

/-- The per-defect verdict answers `holds` on the model's own errors over `graph r` too (the case
the driver judges when no vertex has two statements). -/
theorem judgeReports_holds_of_model_one_per_vertex (r : Registry) (lk : Link) (hl : Linked r lk)
    (hw : WellFormed r) (hk : ModuleKeysDistinct r) (G : Graph) (hG : graph r = some G)
    (ps : List Mod) (hps : Goyang.Spec.Identity.parts r = some ps) (o : Oracle) (ho : o.Valid) :
    ∃ res, resolveIdentities o r lk (fun _ => []) = some res ∧
      ∀ errs, (∀ e ∈ res.errs, e ∈ errs) →
        judgeReports r G (identityStatements r ps) errs = Verdict.holds := by
  obtain ⟨res, hres, hA, hB, _⟩ :=
    errors_are_exactly_the_defects_one_per_vertex r lk hl hw hk G hG ps hps o ho
  obtain ⟨ps', gf⟩ := graph_facts hG
  have hpe : ps' = ps := by
    have := gf.parts
    rw [hps] at this
    cases this
    rfl
  subst hpe
  refine ⟨res, hres, ?_⟩
  intro errs hsub
  apply judgeReports_holds
  · intro v hv
    obtain ⟨m, hm, vs, hvs, rfl⟩ := (gf.verts v).mp (derives_left_vertex gf hv)
    exact ⟨(vs.1, m, vs.2), Goyang.Lemmas.Identity.mem_fullStmts.mpr ⟨m, hm, vs, hvs, rfl⟩, rfl⟩
  · intro x hx hd
    exact ⟨_, hsub _ (hA x hx hd), rfl, locatedAt_at _ _⟩
  · intro u hu
    obtain ⟨x, hx, b, hb, rfl, hno⟩ := mem_undefinedBases.mp hu
    obtain ⟨c, hc, hmem⟩ := hB x hx b hb hno
    exact ⟨_, hsub _ hmem, hc, locatedAt_at _ _⟩

/-! non-vacuity: two cycles, the lower derived from the upper (the C11-m22 witness,
corpus/C11/m22-two-cycles-lower-derived-from-upper.json), and one undefined base

```
module up    { prefix u; identity P1 { base P2; } identity P2 { base P1; } }
module zdown { prefix d; import up { prefix u; }
               identity Q1 { base Q2; base u:P1; } identity Q2 { base Q1; }
               identity Z { base nosuch; } }
``` -/
def exModUp : Stmt := .mk "module" true "up" "up.yang" 1 1 [exStmt "namespace" "urn:up", exStmt "prefix" "u",
  .mk "identity" true "P1" "up.yang" 3 3 [exStmt "base" "P2"],
  .mk "identity" true "P2" "up.yang" 4 3 [exStmt "base" "P1"]]
def exModDown : Stmt := .mk "module" true "zdown" "zdown.yang" 1 1 [exStmt "namespace" "urn:zdown", exStmt "prefix" "d",
  exStmt "import" "up" [exStmt "prefix" "u"],
  .mk "identity" true "Q1" "zdown.yang" 4 3 [exStmt "base" "Q2", exStmt "base" "u:P1"],
  .mk "identity" true "Q2" "zdown.yang" 5 3 [exStmt "base" "Q1"],
  .mk "identity" true "Z" "zdown.yang" 6 3 [exStmt "base" "nosuch"]]
def exFiles5 : List SrcFile := [⟨"up", [exModUp]⟩, ⟨"zdown", [exModDown]⟩]
def exR5 : Registry := exLoad exFiles5
def exG5 : Graph :=
  { verts := [("up", "P1"), ("up", "P2"), ("zdown", "Q1"), ("zdown", "Q2"), ("zdown", "Z")]
    edges := [(("up", "P1"), ("up", "P2")), (("up", "P2"), ("up", "P1")), (("zdown", "Q1"), ("zdown", "Q2")),
      (("zdown", "Q1"), ("up", "P1")), (("zdown", "Q2"), ("zdown", "Q1"))]
    dangling := [(("zdown", "Z"), "nosuch")], orphans := [], missing := [] }
theorem example5_graph : survivorGraph exR5 = some exG5 := by decide
theorem example5_loaded : loadAll exFiles5 = .ok exR5 := exLoad_ok _ (by decide)
theorem example5_identifierNamed : IdentifierNamed exFiles5 := by
  intro f hf s hs
  simp only [exFiles5, List.mem_cons, List.not_mem_nil, or_false] at hf
  rcases hf with rfl | rfl <;>
    (simp only [List.mem_singleton] at hs; subst hs; decide)
/-- The hypotheses of the theorems of this section hold of the example. -/
example : Linked exR5 (exLink exR5) := linkOK_of_all (by decide)
example : LoadedOK exR5 := loaded_ok exFiles5 exR5 example5_loaded example5_identifierNamed
/-- … and those of the one-statement-per-vertex forms: `graph exR5` is `exG5` too (here even in the
same order), its vertices are distinct, the table keys are distinct. -/
example : graph exR5 = some exG5 := by decide
example : WellFormed exR5 :=
  ⟨regOK_of_entries (by decide), by decide, fun G hG => by
    have : graph exR5 = some exG5 := by decide
    rw [this] at hG
    cases hG
    show exG5.verts.Nodup
    decide⟩
example : ModuleKeysDistinct exR5 := by show (exR5.modules.map (·.1)).Nodup; decide
example : ((Goyang.Spec.Identity.parts exR5).map fun ps => (identityStatements exR5 ps).map fun x => (x.1, x.2.1.name, x.2.2.line)) =
    some [(("up", "P1"), "up", 3), (("up", "P2"), "up", 4), (("zdown", "Q1"), "zdown", 4),
      (("zdown", "Q2"), "zdown", 5), (("zdown", "Z"), "zdown", 6)] := by decide
/-- `error_clause_end_to_end` applies to the example (`example5_loaded`, `example5_identifierNamed`,
`exIdOracle_valid`), and the graph it speaks about is `exG5`. -/
example : ∃ G R, survivorGraph exR5 = some G ∧ registrations exR5 = some R := by
  obtain ⟨G, R, h1, h2, _⟩ :=
    error_clause_end_to_end exFiles5 exR5 example5_loaded example5_identifierNamed exIdOracle exIdOracle_valid
  exact ⟨G, R, h1, h2⟩
example : (match run exIdOracle exR5 with | .done _ _ => true | _ => false) = true := by decide
/-- The surviving statements: (vertex, declaring module, line of the identity statement). -/
def exSurv5 : List (Vertex × Mod × Stmt) :=
  match registrations exR5 with
  | some R => survivors R
  | none => []
example : (registrations exR5).map (fun R => (survivors R).map fun x => (x.1, x.2.1.name, x.2.2.line)) =
    some [(("up", "P1"), "up", 3), (("up", "P2"), "up", 4), (("zdown", "Q1"), "zdown", 4),
      (("zdown", "Q2"), "zdown", 5), (("zdown", "Z"), "zdown", 6)] := by decide
/-- Two cycles, the lower derived from the upper, and a dangling base: the defects are there. -/
example : Derives exG5 ("up", "P1") ("up", "P1") :=
  Derives.step (k := ("up", "P2")) (by decide) (Derives.base (by decide))
example : Derives exG5 ("zdown", "Q2") ("zdown", "Q2") :=
  Derives.step (k := ("zdown", "Q1")) (by decide) (Derives.base (by decide))
example : Derives exG5 ("zdown", "Q2") ("up", "P1") :=
  Derives.step (k := ("zdown", "Q1")) (by decide) (Derives.base (by decide))
example : exG5.dangling = [(("zdown", "Z"), "nosuch")] := rfl
/-- What the model reports: the undefined base at the module statement of `zdown`, and one cycle
error at the identity statement of EVERY member of both cycles. -/
example : ((resolveIdentities exIdOracle exR5 (exLink exR5) (fun _ => [])).map fun res =>
      res.errs.map fun e => (e.file, e.line, e.cls)) =
    some [("zdown.yang", 1, "identity-base-local"), ("up.yang", 3, "cycle"), ("up.yang", 4, "cycle"),
      ("zdown.yang", 4, "cycle"), ("zdown.yang", 5, "cycle")] := by decide
/-- The verdict on these errors is `holds`; with the reports of the lower cycle taken away (what the
seeded defect C11-m22 did: only the upper cycle reported) it is `violates`. -/
def exIsHolds : Verdict → Bool
  | .holds => true
  | _ => false
def exIsViolates : Verdict → Bool
  | .violates _ => true
  | _ => false
example : ((resolveIdentities exIdOracle exR5 (exLink exR5) (fun _ => [])).map fun res =>
      exIsHolds (judgeReports exR5 exG5 exSurv5 res.errs)) = some true := by decide
example : ((resolveIdentities exIdOracle exR5 (exLink exR5) (fun _ => [])).map fun res =>
      exIsViolates (judgeReports exR5 exG5 exSurv5 (res.errs.filter fun e => e.file != "zdown.yang" || e.cls != "cycle"))) =
    some true := by decide
example : ((resolveIdentities exIdOracle exR5 (exLink exR5) (fun _ => [])).map fun res =>
      exIsViolates (judgeReports exR5 exG5 exSurv5 (res.errs.filter fun e => e.cls == "cycle"))) =
    some true := by decide

end Goyang.Props.C11
