import Goyang.Model.Process
import Goyang.Spec.ConfigNs
import Goyang.Lemmas.ConfigNs
/-
C12 — config inheritance and namespace attribution follow the instantiated tree.
Property theorems only; helper lemmas live in Goyang/Lemmas/ConfigNs.lean, the declarative
readings in Goyang/Spec/ConfigNs.lean.

Reading aid.
* `configsAlong root p` lists (config, kind) of the nodes from the root to the node at `p`
  (`configsAlong_nodes`); `Spec.readOnly` is the property's sentence over that list: the *nearest*
  explicit config says false, or an output lies on the path.  `Spec.ReadOnly` is the same sentence
  with the path decomposition written out (`readOnly_rule_iff`).
* A node with a namespace stamp (`EData.ns`, Go's unexported `Entry.namespace`) is the root of a
  graft.  `namespaceOf` = the deepest graft root on the path decides, else the tree's module (its
  owner for a submodule).
* `Built reg f prov` is provenance: which (sub)module's text placed each node, defined over how a
  forest is built (conversion / graft by augment / FixChoice).  `ownerNs reg m` is the namespace
  that module's nodes must report.

What is proved about the model for *all* trees, paths, registries: the theorems below.  The end-to-end
composition — the forest `processAll` returns on an error-free run without deviations is `Built`
(`processAll_built_statement`, kept as a `def` at the end of this file because its proof needs the
bridge lemmas) — is PROVED in Props/C12Bridge.lean: `C12Bridge.processAll_built :
C12.processAll_built_statement`, with `processAll_namespace_placedBy` as the corollary stated directly on
`processAll`.  The three constructors of `Built` are exactly the stamp-relevant steps of `processAll` —
`augmentStep_is_graft` shows a successful augment step is the `graft` constructor's forest with the
augmenting tree's owner namespace, `uses_no_stamp` and `conversion_ops_no_stamp` show that every
tree-building operation `toEntry` applies (add a child, merge without a namespace for uses and include,
record errors, set a data field) keeps trees stamp-free — Props/C12Conv.lean carries this through
`toEntry`'s fuel recursion (`toEntry_noStamp`, `conversion_forest_built`: the forest `Process` starts its
augment phase from is `Built.init`).  The other steps the augment loop takes are accounted for in the
bridge: an error recorded on a root never disappears, so it is absent on an error-free run; a tree stored
back unchanged changes nothing; an rpc input / output created by `Find` is moved back through every
earlier graft and `FixChoice` to the conversion (Lemmas/ConfigNsComm.lean, Lemmas/ConfigNsBuilt.lean).
With deviations: Props/C12Bridge.lean `processAll_built_with_deviations` /
`processAll_namespace_readOnly_literal` — the forest of every error-free run is `BuiltD`: `Built` plus the
three steps of the deviation stage, each with its provenance clause (an rpc input / output created by the
path lookup of a deviation is placed by the placer of the rpc; a deviated node keeps its placer; a removed
one has none), no `congr` and no error-recording step; (`processAll_provenance` /
`processAll_namespace_readOnly` are the earlier versions for the wider class `BuiltX`).  Kernel-evaluated
module sets with augment and deviations: C12Bridge `ExDev`, `ExCorner`.
-/
namespace Goyang.Props.C12
open Goyang.Model
open Goyang.Spec.ConfigNs
open Goyang.Lemmas.ConfigNs (nsOfMod wraps)

/-! ### read-only -/

/-- **Config inheritance.**  For every tree and every path: under the property's exclusion (no
`config true` below an rpc/action output — the property excludes all config statements inside
rpc, action and notification) `ReadOnly()` is the property's rule: the nearest explicit config on
the path says false, or the path passes an output; with nothing on the path, read-write. -/
theorem readOnly_spec (root : Entry) (p : Path) (h : NoConfigTrueBelowOutput (configsAlong root p)) :
    root.readOnlyAt p = readOnly (configsAlong root p) := by
  rw [Lemmas.ConfigNs.readOnlyAt_exact, Lemmas.ConfigNs.readOnly_eq_exact _ h]

/-- Without any hypothesis: what `ReadOnly()` computes on every input — the nearest node that is
an output or has a config statement decides (an output counts as `config false` at that node). -/
theorem readOnly_exact (root : Entry) (p : Path) :
    root.readOnlyAt p = readOnlyExact (configsAlong root p) :=
  Lemmas.ConfigNs.readOnlyAt_exact root p

/-- The executable rule is the sentence of the property. -/
theorem readOnly_rule_iff (cs : List CK) : readOnly cs = true ↔ ReadOnly cs :=
  Lemmas.ConfigNs.readOnly_iff cs

/-- No config statement and no output on the path: read-write. -/
theorem readOnly_none (cs : List CK) (h : ∀ c ∈ cs, c.1 = .unset ∧ c.2 ≠ .output) : readOnly cs = false :=
  Lemmas.ConfigNs.readOnly_none cs h

/-- `configsAlong` is the list of nodes on the path: entry `i` is the node reached by the first
`i` steps, and there is one entry per node. -/
theorem configsAlong_nodes (root : Entry) (p : Path) (h : (root.getAt p).isSome) :
    (configsAlong root p).length = p.length + 1 ∧
    ∀ i, i ≤ p.length → (configsAlong root p)[i]? = (root.getAt (p.take i)).map ck :=
  ⟨Lemmas.ConfigNs.configsAlong_length root p h, fun i hi => Lemmas.ConfigNs.configsAlong_getElem? root p h i hi⟩

private def nd (name : String) (kind : Kind := .directory) (config : Tri := .unset) (ns : Option String := none)
    (kids : List Entry := []) (inp : List Entry := []) (out : List Entry := []) : Entry :=
  .mk { name := name, kind := kind, config := config, ns := ns } kids inp out

/-- explicit `config false` three levels above the leaf, nothing in between -/
private def tCfg : Entry :=
  nd "m" (kids := [nd "c1" (config := .false_) (kids := [nd "c2" (kids := [nd "c3" (kids := [nd "x" .leaf])])]),
                   nd "d1" (config := .false_) (kids := [nd "d2" (config := .true_) (kids := [nd "y" .leaf])])])
private def pX : Path := [.child "c1", .child "c2", .child "c3", .child "x"]
private def pY : Path := [.child "d1", .child "d2", .child "y"]

example : (tCfg.getAt pX).isSome = true ∧ tCfg.readOnlyAt pX = true ∧ readOnly (configsAlong tCfg pX) = true := by decide
example : NoConfigTrueBelowOutput (configsAlong tCfg pX) := by
  have hno : ∀ c ∈ configsAlong tCfg pX, c.2 ≠ .output := by decide
  intro pre c post h ho
  exact absurd ho (hno c (by rw [h]; simp))
-- the nearest statement wins: `config true` below `config false`
example : tCfg.readOnlyAt pY = false ∧ readOnly (configsAlong tCfg pY) = false := by decide

/-- an rpc with an output: everything in it is read-only although nothing says `config false` -/
private def tRpc : Entry :=
  nd "m" (kids := [.mk { name := "r", isRpc := true } []
    [nd "input" .input (kids := [nd "i" .leaf])]
    [nd "output" .output (kids := [nd "c" (kids := [nd "o" .leaf])])]])
private def pO : Path := [.child "r", .output, .child "c", .child "o"]
private def pI : Path := [.child "r", .input, .child "i"]

example : (tRpc.getAt pO).isSome = true ∧ tRpc.readOnlyAt pO = true ∧ readOnly (configsAlong tRpc pO) = true ∧
    tRpc.readOnlyAt pI = false ∧ readOnly (configsAlong tRpc pI) = false := by decide

/-- Outside the property's quantifier (RFC 7950 ignores config inside an rpc): a `config true`
written below an output makes the code answer read-write, where the property's sentence taken
literally says read-only.  So the exclusion in `readOnly_spec` is needed. -/
private def tBad : Entry :=
  nd "m" (kids := [.mk { name := "r", isRpc := true } [] []
    [nd "output" .output (kids := [nd "c" (config := .true_) (kids := [nd "o" .leaf])])]])

theorem readOnly_spec_without_exclusion_fails :
    ¬ ∀ (root : Entry) (p : Path), root.readOnlyAt p = readOnly (configsAlong root p) := by
  intro h
  have := h tBad pO
  revert this; decide

/-! ### namespace: grafts -/

/-- **Namespace, tree reading.**  `Namespace()` is the stamp of the deepest graft root on the
path (the root of the tree excluded), else the namespace of the tree's module — of the module it
belongs to, for a submodule. -/
theorem namespace_spec (reg : Registry) (f : Forest) (loc : Loc) :
    namespaceAt reg f loc = namespaceOf reg f loc :=
  Lemmas.ConfigNs.namespaceAt_eq_spec reg f loc

/-- What an augment stamps: the namespace its own tree's root reports is its module's, the
owner's for a submodule. -/
theorem augment_stamps_owner (reg : Registry) (f : Forest) (id : Nat) (root : Entry) (h : f.tree? id = some root) :
    namespaceAt reg f (id, []) = ownerNs reg id :=
  Lemmas.ConfigNs.namespaceAt_root reg f id root h

/-- **stamp_merge.**  The children of the receiver after `merge`: its own first; then those of the
merged entry whose names are free, stamped with the namespace when one is given (augment) and
untouched when none is (uses, include). -/
theorem stamp_merge (e : Entry) (ns : Option String) (oe : Entry) (k : String) :
    (e.merge ns oe).child? k =
      match e.child? k with
      | some c => some c
      | none => (oe.child? k).map (stamp ns) :=
  Lemmas.ConfigNs.merge_child? e ns oe k

/-- **stamp_augment.**  After grafting `a` under the node at `path` with namespace `n`: every
grafted child root carries the stamp `n`, every node at or below it reports `n` (the augment's
own content being stamp-free), and (frame) every path that does not enter a grafted child sees
exactly the stamps it saw before. -/
theorem stamp_augment (root : Entry) (path : Path) (te a : Entry) (n : String) (h : root.getAt path = some te) :
    let root' := root.updateAt path fun te => te.merge (some n) a
    (∀ k v, te.child? k = none → a.child? k = some v →
        root'.getAt (path ++ [.child k]) = some (stamp (some n) v) ∧
        (noStampBelow v = true → ∀ r, root'.stampAt (path ++ .child k :: r) = some n)) ∧
    (∀ q, (¬ ∃ k r, q = path ++ Step.child k :: r ∧ te.child? k = none ∧ (a.child? k).isSome) →
        root'.stampAt q = root.stampAt q) := by
  intro root'
  refine ⟨fun k v hk hv => ⟨Lemmas.ConfigNs.graft_root root path te a n k v h hk hv,
    fun hns r => Lemmas.ConfigNs.graft_new root path te a n k v r h hk hv hns⟩,
    fun q hq => Lemmas.ConfigNs.graft_frame root path te a (some n) q h hq⟩

/-- **uses_no_stamp.**  `merge` without a namespace — what `uses` and `include` do — writes no
stamp: merged children are copied as they are, a stamp-free receiver and stamp-free content give
a stamp-free result, and so every node of the result, grouping content at any depth included,
reports the namespace of the tree it has been copied into: the user's, not the definer's. -/
theorem uses_no_stamp (reg : Registry) (f : Forest) (id : Nat) (e oe : Entry)
    (he : noStampBelow e = true) (ho : noStampL oe.dir = true) (hf : f.tree? id = some (e.merge none oe)) :
    (∀ k, (e.merge none oe).child? k = match e.child? k with | some c => some c | none => oe.child? k) ∧
    noStampBelow (e.merge none oe) = true ∧
    ∀ p, namespaceAt reg f (id, p) = ownerNs reg id := by
  have hns := Lemmas.ConfigNs.noStampBelow_merge_none e oe he ho
  refine ⟨fun k => ?_, hns, fun p => ?_⟩
  · rw [Lemmas.ConfigNs.merge_child?]; cases e.child? k <;> cases oe.child? k <;> rfl
  · rw [Lemmas.ConfigNs.namespaceAt_tree reg f (id, p) _ hf]
    unfold Lemmas.ConfigNs.nsOfTree Entry.stampAt
    rw [Lemmas.ConfigNs.stampGo_noStampBelow _ _ _ hns]

/-- The operations `toEntry` builds trees with keep them stamp-free: adding a child, merging a
used grouping or an included submodule (no namespace), recording or importing errors, and any
update of the node's data that leaves the stamp field alone. -/
theorem conversion_ops_no_stamp (e v : Entry) (he : noStamp e = true) (hv : noStamp v = true) :
    (∀ key, noStamp (e.add key v) = true) ∧
    noStamp (e.merge none v) = true ∧
    noStamp (e.importErrors v) = true ∧
    (∀ x, noStamp (e.addErr x) = true) ∧ (∀ xs, noStamp (e.addErrs xs) = true) ∧
    (∀ f : EData → EData, (∀ d, (f d).ns = d.ns) → noStamp (e.withD f) = true) := by
  refine ⟨fun key => Lemmas.ConfigNs.noStamp_add e key v he hv, Lemmas.ConfigNs.noStamp_merge_none e v he hv,
    ?_, fun x => ?_, fun xs => ?_, fun f hf => ?_⟩
  · rw [Lemmas.ConfigNs.noStamp_importErrors]; exact he
  · rw [Lemmas.ConfigNs.noStamp_addErr]; exact he
  · rw [Lemmas.ConfigNs.noStamp_addErrs]; exact he
  · rw [Lemmas.ConfigNs.noStamp_withD e f hf]; exact he

/-- Frame for uses / include in an already stamped tree: whatever stamps exist stay where they
are; the walk through a merged child continues with the child's own stamps only. -/
theorem merge_none_frame (e oe : Entry) (k : String) (c : Entry) (h : e.child? k = some c) :
    (e.merge none oe).child? k = some c := by
  rw [Lemmas.ConfigNs.merge_child?, h]

/-! ### namespace: provenance -/

/-- **Namespace attribution.**  In any forest built by conversion, grafts (augments) and
`FixChoice`, a node placed by the text of (sub)module `m` reports the namespace of the module `m`
belongs to: grouping content the user's, augment content the augmenting module's, submodule
content the owner's. -/
theorem namespace_placedBy {reg : Registry} {f : Forest} {prov : Loc → Option Nat} (hb : Built reg f prov)
    (loc : Loc) (m : Nat) (root : Entry) (hroot : f.tree? loc.1 = some root) (hp : prov loc = some m) :
    namespaceAt reg f loc = ownerNs reg m :=
  Lemmas.ConfigNs.built_namespace hb loc m root hroot hp

/-- **instantiatingModule_spec.**  `InstantiatingModule()` is the name of the loaded module that
declares the node's namespace, provided loaded modules with that namespace all have that name
(in particular when namespaces of differently named modules are pairwise distinct; several
loaded revisions of one module are fine — D40, repaired). -/
theorem instantiatingModule_spec (reg : Registry) (f : Forest) (loc : Loc) (m : Mod)
    (hm : m ∈ reg.distinctModules) (hns : nsOfMod m = namespaceAt reg f loc)
    (hdistinct : ∀ m' ∈ reg.distinctModules, nsOfMod m' = nsOfMod m → m'.name = m.name) :
    instantiatingModuleAt reg f loc = some m.name :=
  (Lemmas.ConfigNs.instantiatingModuleAt_eq_some_iff reg f loc m.name).mpr
    ⟨⟨m, hm, hns, rfl⟩, fun m' hm' hns' => hdistinct m' hm' (hns'.trans hns.symm)⟩

/-- The exact behaviour: it answers `n` iff some loaded module with the namespace is called `n`
and all of them are; it fails iff none declares the namespace or two differently named ones do. -/
theorem instantiatingModule_exact (reg : Registry) (f : Forest) (loc : Loc) :
    (∀ n, instantiatingModuleAt reg f loc = some n ↔
      (∃ m ∈ reg.distinctModules, nsOfMod m = namespaceAt reg f loc ∧ m.name = n) ∧
      (∀ m ∈ reg.distinctModules, nsOfMod m = namespaceAt reg f loc → m.name = n)) ∧
    (instantiatingModuleAt reg f loc = none ↔
      (¬ ∃ m ∈ reg.distinctModules, nsOfMod m = namespaceAt reg f loc) ∨
      (∃ m ∈ reg.distinctModules, ∃ m' ∈ reg.distinctModules,
        nsOfMod m = namespaceAt reg f loc ∧ nsOfMod m' = namespaceAt reg f loc ∧ m.name ≠ m'.name)) :=
  ⟨fun n => Lemmas.ConfigNs.instantiatingModuleAt_eq_some_iff reg f loc n,
   Lemmas.ConfigNs.instantiatingModuleAt_eq_none_iff reg f loc⟩

/-- **The augment step of `Process` is the `graft` constructor.**  A successful augment of tree
`id` merges the augment's entry under the target with the namespace of the module tree `id`
belongs to, so a `Built` forest stays `Built` and exactly the nodes at and below the added children
are placed by module `id` (stated for one pending augment, and for a `Find` that did not have to
create an absent rpc input/output on the way).  (`Find` splits its path with `String.splitOn`, which
the kernel cannot evaluate, so `hfind` is not instantiated by an `example` here; every augment the
correspondence run applies is an instance.  The other hypotheses are those of `Built.graft`, shown
satisfiable below.) -/
theorem augmentStep_is_graft (reg : Registry) (id : Nat) (addErrors : Bool) (s : PState) (a : Entry)
    (t : Nat) (path : Path) (root te r0 : Entry) (prov : Loc → Option Nat)
    (hb : Built reg s.forest prov)
    (hid : s.forest.tree? id = some r0)
    (hp : s.pendingOf id = [a]) (ha : noStampL a.dir = true)
    (hfind : find reg s.forest (id, []) a.d.nodeMod a.d.name = (some (t, path), s.forest))
    (hroot : s.forest.tree? t = some root) (hte : root.getAt path = some te) (hok : cannotHaveChildren te = false) :
    (augmentTree reg id addErrors s).1.forest =
      s.forest.setTree t (root.updateAt path fun te => te.merge (some (ownerNs reg id)) a) ∧
    ∃ prov', Built reg (augmentTree reg id addErrors s).1.forest prov' ∧
      (∀ loc, NewBelow t path te a loc → prov' loc = some id) ∧
      (∀ loc, ¬ NewBelow t path te a loc → prov' loc = prov loc) := by
  refine ⟨?_, Lemmas.ConfigNs.augmentStep_built reg id addErrors s a t path root te r0 prov hb hid hp ha hfind hroot hte hok⟩
  rw [Lemmas.ConfigNs.augmentStep_eq reg id addErrors s a t path s.forest root te hp hfind hroot hte hok,
    Lemmas.ConfigNs.namespaceAt_root reg s.forest id r0 hid]

/-! ### FixChoice -/

/-- **fixChoice_preserves.**  Inserting the implied cases changes nothing for the nodes that were
there: each is found again at its translated path (`liftPath`: one more step in front of every
shorthand member of an error-free choice) with the same data, the same read-only answer and the
same namespace. -/
theorem fixChoice_preserves (reg : Registry) (f : Forest) (id : Nat) (root : Entry) (p : Path)
    (h : f.tree? id = some root) :
    (fixChoice root).getAt (liftPath root p) = (root.getAt p).map fixChoice ∧
    (∀ e, (fixChoice e).d = e.d) ∧
    (fixChoice root).readOnlyAt (liftPath root p) = root.readOnlyAt p ∧
    (fixChoice root).stampAt (liftPath root p) = root.stampAt p ∧
    namespaceAt reg (fixAll f) (id, liftPath root p) = namespaceAt reg f (id, p) := by
  refine ⟨Lemmas.ConfigNs.getAt_fix root p, Lemmas.ConfigNs.fixChoice_d, Lemmas.ConfigNs.readOnlyAt_fix root p,
    Lemmas.ConfigNs.stampAt_fix root p, ?_⟩
  rw [Lemmas.ConfigNs.namespaceAt_tree reg f (id, p) root h,
    Lemmas.ConfigNs.namespaceAt_tree reg (fixAll f) (id, liftPath root p) (fixChoice root)
      (by rw [Lemmas.ConfigNs.tree?_fixAll]; simp [h])]
  unfold Lemmas.ConfigNs.nsOfTree
  rw [Lemmas.ConfigNs.stampAt_fix]

/-- What the library-inserted case itself reports (DESIGN D39; the property does not speak about
these nodes and the correspondence excludes them from `ns`/`im`): it is a case node; its
namespace is the one seen at the *choice* — for a shorthand member grafted by an augment that is
the augmented module's namespace, while the member directly below reports its own stamp, the
augmenting module's; its read-only answer is the member's. -/
theorem impliedCase_reports (root : Entry) (p : Path) (e x : Entry) (k : String)
    (he : root.getAt p = some e) (hw : wraps e = true) (hx : e.child? k = some x) (hk : x.d.kind ≠ .case_) :
    let pc := liftPath root p ++ [Step.child k]
    ((fixChoice root).getAt pc).map (·.d.kind) = some .case_ ∧
    (fixChoice root).stampAt pc = root.stampAt p ∧
    (fixChoice root).stampAt (pc ++ [Step.child k]) = x.d.ns.or (root.stampAt p) ∧
    (x.d.kind ≠ .output → (fixChoice root).readOnlyAt pc = root.readOnlyAt (p ++ [Step.child k])) :=
  Lemmas.ConfigNs.impliedCase_reports root p e x k he hw hx hk

/-! ### non-vacuity: a grouping used from another module, an augment from a submodule, D39 -/

private def st (kw arg : String) (subs : List Stmt := []) : Stmt := .mk kw true arg "f" 1 1 subs

/-- module a (urn:a), module b (urn:b), submodule b-s of b -/
private def regX : Registry :=
  { mods := [⟨0, st "module" "a" [st "namespace" "urn:a", st "prefix" "pa"]⟩,
             ⟨1, st "module" "b" [st "namespace" "urn:b", st "prefix" "pb"]⟩,
             ⟨2, st "submodule" "b-s" [st "belongs-to" "b" [st "prefix" "pb"]]⟩],
    modules := [("a", 0), ("b", 1)], subModules := [("b-s", 2)] }

example : ownerNs regX 0 = "urn:a" ∧ ownerNs regX 1 = "urn:b" ∧ ownerNs regX 2 = "urn:b" := by decide

/-- grouping g of module a (its nodes' AST belongs to module 0), used in module b -/
private def gA : Entry := .mk { name := "g", nodeMod := 0 } [.mk { name := "c", nodeMod := 0 } [.mk { name := "x", kind := .leaf, nodeMod := 0 } [] [] []] [] []] [] []
private def tB : Entry := (nd "b" (kids := [nd "own"])).merge none gA
private def fB : Forest := { trees := [(1, tB)] }

example : (tB.getAt [.child "c", .child "x"]).isSome = true ∧
    namespaceAt regX fB (1, [.child "c", .child "x"]) = "urn:b" ∧
    instantiatingModuleAt regX fB (1, [.child "c", .child "x"]) = some "b" := by decide
example : noStampBelow (nd "b" (kids := [nd "own"])) = true ∧ noStampL gA.dir = true := by decide

/-- module a's tree with a choice; submodule b-s augments the choice with a container `via` -/
private def tA : Entry := nd "a" (kids := [nd "ch" .choice (kids := [nd "k1" .case_ (kids := [nd "l" .leaf])])])
private def teCh : Entry := nd "ch" .choice (kids := [nd "k1" .case_ (kids := [nd "l" .leaf])])
private def augS : Entry := .mk { name := "/pa:ch", nodeMod := 2 } [nd "via" (kids := [nd "y" .leaf])] [] []
private def fA : Forest := { trees := [(0, tA), (2, nd "b-s")] }
private def tA' : Entry := tA.updateAt [.child "ch"] fun te => te.merge (some (ownerNs regX 2)) augS
private def fA' : Forest := fA.setTree 0 tA'

-- the graft root and what is below report the owner of the augmenting submodule; the rest of a's tree does not
example : namespaceAt regX fA' (0, [.child "ch", .child "via"]) = "urn:b" ∧
    namespaceAt regX fA' (0, [.child "ch", .child "via", .child "y"]) = "urn:b" ∧
    instantiatingModuleAt regX fA' (0, [.child "ch", .child "via", .child "y"]) = some "b" ∧
    namespaceAt regX fA' (0, [.child "ch", .child "k1", .child "l"]) = "urn:a" ∧
    namespaceAt regX fA' (0, [.child "ch"]) = "urn:a" := by decide

-- the hypotheses of the `graft` constructor are satisfiable, with a provenance that says "b-s"
example : ∃ prov, Built regX fA' prov ∧ prov (0, [.child "ch", .child "via", .child "y"]) = some 2 ∧
    prov (0, [.child "ch", .child "k1"]) = some 0 := by
  classical
  refine ⟨fun loc => if NewBelow 0 [.child "ch"] teCh augS loc
      then some 2 else some loc.1, ?_, ?_, ?_⟩
  · exact Built.graft (f := fA) (prov := fun loc => some loc.1) (by_ := 2) (t := 0) (path := [.child "ch"])
      (root := tA) (te := teCh) (a := augS)
      (Built.init (by
        intro id t h
        have : t = tA ∨ t = nd "b-s" := by
          unfold fA Forest.tree? at h
          simp only [List.find?] at h
          split at h
          · left; simpa using h.symm
          · split at h
            · right; simpa using h.symm
            · cases h
        rcases this with rfl | rfl <;> decide))
      rfl rfl (by decide)
      (fun loc h => by simp only [h, if_true]) (fun loc h => by simp only [h, if_false])
  · have : NewBelow 0 [.child "ch"] teCh augS
        (0, [.child "ch", .child "via", .child "y"]) :=
      ⟨rfl, "via", [.child "y"], rfl, by decide, by decide⟩
    simp [this]
  · have : ¬ NewBelow 0 [.child "ch"] teCh augS
        (0, [.child "ch", .child "k1"]) := by
      rintro ⟨_, k, r, h, _, hk⟩
      simp only [List.cons_append, List.nil_append, List.cons.injEq, Step.child.injEq, true_and] at h
      obtain ⟨rfl, _⟩ := h
      revert hk; decide
    simp [this]

-- D39: after FixChoice the implied case `via` reports the augmented module, its child the augmenting one
example : ((fixChoice tA').getAt [.child "ch", .child "via"]).map (·.d.kind) = some .case_ ∧
    namespaceAt regX (fixAll fA') (0, [.child "ch", .child "via"]) = "urn:a" ∧
    namespaceAt regX (fixAll fA') (0, [.child "ch", .child "via", .child "via"]) = "urn:b" ∧
    namespaceAt regX (fixAll fA') (0, [.child "ch", .child "via", .child "via", .child "y"]) = "urn:b" ∧
    liftPath tA' [.child "ch", .child "via", .child "y"] = [.child "ch", .child "via", .child "via", .child "y"] := by
  decide

/-! ### `FindModuleByNamespace` asked directly; near-twin namespaces -/

/-- `InstantiatingModule()` is `FindModuleByNamespace` applied to the node's namespace. -/
theorem instantiatingModule_is_findByNamespace (reg : Registry) (f : Forest) (loc : Loc) :
    instantiatingModuleAt reg f loc = findByNamespace reg (namespaceAt reg f loc) :=
  Lemmas.ConfigNs.instantiatingModuleAt_eq_findByNamespace reg f loc

/-- **Namespaces are compared as strings.**  `FindModuleByNamespace(ns)` answers `n` exactly when
some loaded module declares exactly `ns` and is called `n` and all loaded modules declaring
exactly `ns` are called `n`; a spelling that no loaded module declares exactly — another letter
case, a trailing slash or blank, another percent-encoding, a prefix of a declared namespace —
finds nothing, whatever else is loaded and whatever was asked before (the function has no state). -/
theorem findByNamespace_exact (reg : Registry) (ns : String) :
    (∀ n, findByNamespace reg ns = some n ↔
      (∃ m ∈ reg.distinctModules, nsOfMod m = ns ∧ m.name = n) ∧
      (∀ m ∈ reg.distinctModules, nsOfMod m = ns → m.name = n)) ∧
    ((∀ m ∈ reg.distinctModules, nsOfMod m ≠ ns) → findByNamespace reg ns = none) :=
  ⟨fun n => Lemmas.ConfigNs.findByNamespace_eq_some_iff reg ns n,
   Lemmas.ConfigNs.findByNamespace_undeclared reg ns⟩

/-- two modules whose namespaces differ only in letter case, one whose namespace is a prefix -/
private def regTwin : Registry :=
  { mods := [⟨0, st "module" "va" [st "namespace" "urn:nt:Vendor", st "prefix" "va"]⟩,
             ⟨1, st "module" "vb" [st "namespace" "urn:nt:vendor", st "prefix" "vb"]⟩,
             ⟨2, st "module" "vc" [st "namespace" "urn:nt:vendor/", st "prefix" "vc"]⟩],
    modules := [("va", 0), ("vb", 1), ("vc", 2)] }

example : findByNamespace regTwin "urn:nt:Vendor" = some "va" ∧ findByNamespace regTwin "urn:nt:vendor" = some "vb" ∧
    findByNamespace regTwin "urn:nt:vendor/" = some "vc" ∧ findByNamespace regTwin "URN:NT:VENDOR" = none ∧
    findByNamespace regTwin "urn:nt:vendor " = none ∧ findByNamespace regTwin "urn:nt:vendo" = none := by decide

/-! ### two revisions of one module (D40) -/

private def regRev : Registry :=
  { mods := [⟨0, st "module" "m" [st "namespace" "urn:m", st "prefix" "m", st "revision" "2019-01-01"]⟩,
             ⟨1, st "module" "m" [st "namespace" "urn:m", st "prefix" "m", st "revision" "2020-01-01"]⟩],
    modules := [("m@2019-01-01", 0), ("m", 1), ("m@2020-01-01", 1)] }

example : instantiatingModuleAt regRev { trees := [(0, nd "m" (kids := [nd "c"])), (1, nd "m" (kids := [nd "c"]))] }
    (0, [.child "c"]) = some "m" := by decide

/-! ### the end-to-end statement (proved in Props/C12Bridge.lean: `processAll_built`) -/

/-- **Proved in Props/C12Bridge.lean** (`C12Bridge.processAll_built : processAll_built_statement`; the
statement is kept here as a `def` because the proof needs the bridge lemmas, which import this file):
the forest of an error-free `processAll` run without deviations is `Built`, with a provenance that
assigns every node of the initial trees to its tree's module and every grafted node to the module of the
augment.  Ingredients: the start (`conversion_forest_built` in Props/C12Conv.lean: the converted forest
is `Built.init` and every pending augment meets the premise of `graft`), each augment step
(`augmentStep_is_graft`), the `FixChoice` step (constructor `fix` with `fixChoice_preserves`), the
theorem that gives the namespaces of any `Built` forest (`namespace_placedBy`), and — in the bridge —
the threading through `augmentLoop` / `augmentPass` / the retry rounds / the reporting sweep with the three steps `Built` has
no constructor for: error recording on a root (absent on an error-free run: such errors stay), storing a
tree back unchanged, and `Find` creating an absent rpc input / output (commuted back to the conversion:
`C12Bridge.builtU_closed_implicit`).  With `Built'` for `Built` the statement holds for every input
(`C12Bridge.preDev_builtPrime`); the claim itself is also checked by the correspondence runner (Go-side
provenance oracle on generated schemas). -/
def processAll_built_statement : Prop :=
  ∀ (reg : Registry) (opts : Opts) (plug : Plug),
    (processAll reg opts plug).errors = [] →
    (∀ m ∈ reg.mods, m.stmt.all "deviation" = []) →
    ∃ prov, Built reg (processAll reg opts plug).forest prov

end Goyang.Props.C12
