import Goyang.Lemmas.BridgeBuilt
import Goyang.Lemmas.ConfigNsDev
import Goyang.Lemmas.ConfigNsBuilt
import Goyang.Lemmas.ConfigNsDevLit
import Goyang.Lemmas.ConfigNsEval
import Goyang.Props.C12
import Goyang.Props.C12Conv
import Goyang.Props.C04
/-
C12, bridge to `processAll` — the composition Props/C12.lean states as `processAll_built_statement`.

PROVED HERE, at full strength: `processAll_built : C12.processAll_built_statement` — the forest of an
error-free `processAll` run without deviations is `Spec.ConfigNs.Built` itself; corollary on `processAll`:
`processAll_namespace_placedBy`.  And, deviations included: `processAll_provenance` /
`processAll_namespace_readOnly` (class `BuiltX reg false`), `deviate_config_reflected`,
`deviate_readOnly_target`.

How.  `Built'` (Lemmas/BridgeBuilt.lean) is `Built` with the steps of the augment loop that write no
stamp, each leaving the provenance as it is:
  `rootErr`  — an error recorded on the root entry of a tree (`Find`: unresolvable prefix;
               `Entry.Augment` with `addErrors`: `augment-not-found`);
  `implicit` — `Find` creating the input / output an rpc / action did not spell out;
  `congr`    — a forest with the same `tree?` answers (`Find` stores the tree it walked back into
               the forest even when nothing changed; nothing ever reads a forest but through `tree?`).
Every `Built` forest is `Built'`; C12's provenance theorem holds for `Built'` (`namespace_placedBy_prime`);
`Built'` is threaded through `augmentTree`, `augmentPass`, `augmentLoop`, `FixChoice`, the retry rounds
(loop and `FixChoice` again), the reporting sweep and the last `FixChoice` for every input (`preDev_builtPrime`, `processAll_builtPrime`).

From `Built'` to `Built` on an error-free run (Lemmas/ConfigNsComm.lean, Lemmas/ConfigNsBuilt.lean):
  * `rootErr` is absent: an error on a root is never removed (`builtX_of_clean`; in the threading:
    the invariant is "`Built`, or some root carries an error", `preDev_built_or_rootError`);
  * `congr` is only ever used for literally equal forests or for storing a tree back, and the class is
    closed under that (`builtU_closed_store`);
  * `implicit` commutes back through every earlier `graft` (into the tree grafted into, or — when the
    rpc is inside a child the graft added — into the grafted entry) and every earlier `fix`
    (`FixChoice` commutes with the creation at the translated path; every rpc node of a fixed tree is the
    image of a node of the original), down to `init`, which absorbs it (`builtU_closed_implicit`).  The
    commutation needs the children of a node to be filed under pairwise different non-empty names and
    the paths to be proper (`U`, `PathOK` of Lemmas/Tree.lean, which the augment stage maintains):
    `BuiltU` is `Built` with these side conditions recorded; `builtU_is_built` forgets them.

The deviation stage (Lemmas/ConfigNsDev.lean): `BuiltX reg ae` = `Built'` + `retouch` (the deviated copy
of the target written back: same children, stamp, name, errors) + `remove` (`deviate not-supported`: the
removed locations lose their placer), with `rootErr` only when `ae = true`.  `final_builtX`: the forest
`processAll` ends with is `BuiltX reg true` for every input; `processAll_provenance`: `BuiltX reg false`
on an error-free run; `namespace_placedBy_dev`: the provenance theorem for it.  Read-only after a
deviation: `deviate_config_reflected` (which config the statement leaves on the target),
`deviate_readOnly_target` and `processAll_namespace_readOnly` (`ReadOnly()` is the rule on the returned
tree, so a written config is the node's explicit config from then on).

The namespace an augment of tree `id` stamps with is computed once per `Entry.Augment` call from the
root of tree `id`; it is `ownerNs reg id` because that tree exists — C04's invariant "the tree of
every (sub)module with pending augments exists" is part of the threaded invariant.  `FixChoice`
needs the path translation `liftPath` to be one-to-one on existing paths (`liftPath_injective`).
Runs WITH deviations, literally (section DevLiteral; Lemmas/ConfigNsDevLit.lean): `BuiltD reg` is `Built`
(conversion / graft / FixChoice) with the three steps the deviation stage takes on an error-free run,
each with a stated provenance — no `congr`, no `rootErr`:
  `implicit` — `Entry.Find` creates the input / output an rpc / action lacks because the path of a
               deviation names it: the created node is placed by the placer of the rpc (so it reports the
               namespace of the rpc's module), every other location keeps its placer;
  `retouch`  — the deviated copy of the target is written back (children, stamp, name, errors as before);
  `remove`   — `deviate not-supported` unlinks the target: the removed locations lose their placer.
`processAll_built_with_deviations`: the forest of every error-free `processAll` run is `BuiltD`;
`namespace_placedBy_builtD`: the provenance theorem for it; `processAll_namespace_readOnly_literal`: both
attributes of every node of such a run by the specification's rule.  How: the forest the deviations are
applied to is the literal `Built` (`preDev_built_clean`); the deviation stage keeps "`BuiltD`, or some root
carries an error" (`devStage_keeps_builtD_or_rootError`): storing a tree back unchanged yields the literal
same class (`builtD_closed_store`: the forest equality, not only the `tree?` answers), every creation is an
`implicit` step (`created_io_placedBy_rpc`), an unresolvable prefix records an error on a root, and
such an error stays to the end.  The creation is NOT commuted back to the conversion here, and cannot be:
`deviate not-supported` on a written rpc input followed by a second deviation whose path names that
input re-creates it after the removal (namespace `ExCorner`, evaluated by the kernel) — which is why the
step is a constructor with its own provenance clause.  `builtD_is_builtX`: every `BuiltD` forest is
`BuiltX reg false`.

Kernel evaluation on module sets with augments and deviations (Lemmas/ConfigNsEval.lean, on top of
Lemmas/IncludeAugK.lean): `String.splitOn` does not reduce in the kernel; `splitOn_slash_literal` turns
the split of a literal path into `List.splitOn` over its characters (`decide`), and
`processAll_errors_KD` / `processAll_forest_KD` rewrite `processAll` into a copy whose `Find` splits the
character list, which `decide +kernel` evaluates.  Namespace `ExDev`: a module set with an rpc without
written input, an augment from a second module, a deviation of the augmented leaf and a deviation whose
path names the rpc's input satisfies the hypotheses of the `processAll_*` theorems (`ExDev.clean`), and
the namespaces / read-only answers the theorems speak about are evaluated.
Not proved: nothing of C12's end-to-end statement remains open on the model side; the provenance is
existentially quantified (fixed by the derivation, not additionally characterised), and the class for
runs that END WITH ERRORS is `BuiltX reg true` (`final_builtX`), not a literal one.
-/
namespace Goyang.Props.C12Bridge
open Goyang.Model Goyang.Spec.ConfigNs
open Goyang.Lemmas.Bridge

/-- Every `Built` forest is `Built'`, with the same provenance. -/
theorem built_is_builtPrime {reg : Registry} {f : Forest} {prov : Loc → Option Nat} (h : Built reg f prov) :
    Built' reg f prov := Built.toBuilt' h

/-- **Namespace attribution** (C12's `namespace_placedBy`) **for `Built'`**: in any forest built by
conversion, grafts, `FixChoice` and the stamp-free steps of the augment loop, a node placed by the
text of (sub)module `m` reports the namespace of the module `m` belongs to. -/
theorem namespace_placedBy_prime {reg : Registry} {f : Forest} {prov : Loc → Option Nat} (hb : Built' reg f prov)
    (loc : Loc) (m : Nat) (root : Entry) (hroot : f.tree? loc.1 = some root) (hp : prov loc = some m) :
    namespaceAt reg f loc = ownerNs reg m :=
  built'_namespace hb loc m (by rw [hroot]; rfl) hp

/-- `Find` keeps a forest `Built'`, with the same provenance, whatever path it is asked — including
the paths on which it creates an absent rpc input / output, and those whose first prefix cannot be
resolved (error on the root of the start tree). -/
theorem find_keeps_builtPrime {reg : Registry} {f : Forest} {prov : Loc → Option Nat} (hb : Built' reg f prov)
    (start : Loc) (ctx : Nat) (name : String) : Built' reg (find reg f start ctx name).2 prov :=
  built'_find hb start ctx name

/-- The translation of paths by `FixChoice` is one-to-one on the paths that exist in the tree. -/
theorem liftPath_injective (e : Entry) (p p' : Path) (h : (e.getAt p).isSome = true) (h' : (e.getAt p').isSome = true)
    (heq : liftPath e p = liftPath e p') : p = p' :=
  liftPath_inj p e p' h h' heq

/-- One `Entry.Augment` call keeps the invariant of the augment stage: the forest is `Built'`, the
children of the pending augment entries are stamp-free, the tree of every (sub)module with pending
augments exists. -/
theorem augmentTree_keeps_builtPrime (reg : Registry) (id : Nat) (addErrors : Bool) (s : PState) (h : BI reg s) :
    BI reg (augmentTree reg id addErrors s).1 :=
  augmentTree_bi reg id addErrors s h

/-- So does the loop, for every fuel and module order. -/
theorem augmentLoop_keeps_builtPrime (reg : Registry) (fuel : Nat) (mods : Array Nat) (s : PState) (h : BI reg s) :
    BI reg (augmentLoop reg fuel mods s).2 :=
  augmentLoop_bi reg fuel mods s h

/-- The invariant holds where `processAll` starts the augment phase (C12's
`conversion_forest_built` + C04's "the tree of every module with augments exists"). -/
theorem phaseStart_builtPrime (reg : Registry) (opts : Opts) (plug : Plug) : BI reg (Lemmas.Tree.pstate0 reg opts plug) :=
  bi_pstate0 reg opts plug

/-- **The forest `processAll` applies its deviations to is `Built'`**: through the augment loop,
`FixChoice`, the retry rounds, the reporting sweep and the last `FixChoice` — for every registry, option set and
plugged-in type / identity / typedef stage. -/
theorem preDev_builtPrime (reg : Registry) (opts : Opts) (plug : Plug) :
    ∃ prov, Built' reg (Lemmas.Tree.preDev reg opts plug).forest prov :=
  (bi_preDev reg opts plug).built

/-- Without deviation statements the deviation stage does nothing. -/
theorem devStage_no_deviations (reg : Registry) (opts : Opts) (plug : Plug) (f0 : Forest)
    (hnd : ∀ m ∈ reg.mods, m.stmt.all "deviation" = []) :
    (Lemmas.Tree.devStage reg opts plug f0).1 = f0 := by
  unfold Lemmas.Tree.devStage
  refine Lemmas.Tree.foldl_inv (fun acc : Forest × List Err × List String => acc.1 = f0) _ _ _ rfl ?_
  rintro ⟨f, errs, done⟩ m hm hP
  dsimp only at hP ⊢
  split
  · exact hP
  · dsimp only
    have hmem : m ∈ reg.mods := by
      unfold Lemmas.Tree.keyOrder at hm
      simp only [List.mem_append, List.mem_filterMap] at hm
      rcases hm with ⟨kv, _, h⟩ | ⟨kv, _, h⟩ <;> exact List.mem_of_find?_eq_some h
    rw [hnd m hmem]
    simp only [List.map_nil, applyDeviations, List.foldl_nil]
    exact hP

/-- **C12's end-to-end statement** (`C12.processAll_built_statement`) **with `Built'`**: the forest
of an error-free `processAll` run without deviations is `Built'`, so every node of it that some
module's text placed reports that module's namespace (`namespace_placedBy_prime`). -/
theorem processAll_builtPrime (reg : Registry) (opts : Opts) (plug : Plug)
    (hclean : (processAll reg opts plug).errors = [])
    (hnd : ∀ m ∈ reg.mods, m.stmt.all "deviation" = []) :
    ∃ prov, Built' reg (processAll reg opts plug).forest prov := by
  obtain ⟨_, _, _, _, h5⟩ := Lemmas.Tree.processAll_clean reg opts plug hclean
  rw [h5, devStage_no_deviations reg opts plug _ hnd]
  exact preDev_builtPrime reg opts plug

/-! ### the deviation stage, and the error-free run -/
section Dev
open Goyang.Lemmas.ConfigNsDev (BuiltX Removed RootsClean)

/-- Every `Built'` forest is `BuiltX` (root errors allowed), with the same provenance.  `BuiltX reg ae`
(Lemmas/ConfigNsDev.lean) is `Built'` with the two steps of the deviation stage — `retouch`: the
deviated copy of the target is written back (same children, stamp, name, errors); `remove`: `deviate
not-supported` unlinks the target, the removed locations lose their placer — and with the error
recording step `rootErr` available only when `ae = true`. -/
theorem builtPrime_is_builtX {reg : Registry} {f : Forest} {prov : Loc → Option Nat} (h : Built' reg f prov) :
    BuiltX reg true f prov := Goyang.Lemmas.ConfigNsDev.Built'.toBuiltX h

/-- **Namespace attribution** (C12's `namespace_placedBy`) **through augments, `FixChoice` and
deviations**: in any `BuiltX` forest a location placed by the text of (sub)module `m` — and not removed
by a `deviate not-supported` — reports the namespace of the module `m` belongs to.  A deviation moves
no node and writes no stamp: the deviated node keeps the placer (and namespace) it had. -/
theorem namespace_placedBy_dev {reg : Registry} {ae : Bool} {f : Forest} {prov : Loc → Option Nat}
    (hb : BuiltX reg ae f prov) (loc : Loc) (m : Nat) (root : Entry) (hroot : f.tree? loc.1 = some root)
    (hp : prov loc = some m) : namespaceAt reg f loc = ownerNs reg m :=
  Goyang.Lemmas.ConfigNsDev.builtX_namespace hb loc m (by rw [hroot]; rfl) hp

/-- **On an error-free run the error-recording steps are absent.**  Errors recorded on a root entry
are never removed (a graft on the root appends to them, every other step leaves the root's own error
list alone); so a forest built with `rootErr` steps allowed whose visible roots carry no error was
built without one: it is `BuiltX reg false`.  (`Built'`'s other two extra steps — `Find` creating an
absent rpc input / output, storing back an unchanged tree — do occur on error-free runs; they write no
stamp and keep the provenance: the created input / output inherits the rpc's namespace.) -/
theorem builtX_of_clean {reg : Registry} {f : Forest} {prov : Loc → Option Nat} (hb : BuiltX reg true f prov)
    (hc : ∀ id t, f.tree? id = some t → t.d.errors = []) : BuiltX reg false f prov :=
  Goyang.Lemmas.ConfigNsDev.builtX_clean hb hc

/-- **The deviation stage keeps a forest `BuiltX`** — every registry, option set, plug and start
forest; deviations that apply, fail, or remove nodes included. -/
theorem devStage_keeps_builtX (reg : Registry) (opts : Opts) (plug : Plug) (f0 : Forest)
    (hb : ∃ prov, BuiltX reg true f0 prov) :
    ∃ prov, BuiltX reg true (Lemmas.Tree.devStage reg opts plug f0).1 prov :=
  Goyang.Lemmas.ConfigNsDev.devStage_builtX reg opts plug f0 hb

/-- **The forest `processAll` ends with** (whenever it reaches the augment phase; clean or not,
deviations or not) **is `BuiltX`**: conversion, augment loop, `FixChoice`, retry rounds, reporting
sweep, last `FixChoice`, deviation stage. -/
theorem final_builtX (reg : Registry) (opts : Opts) (plug : Plug) :
    ∃ prov, BuiltX reg true (Lemmas.Tree.devStage reg opts plug (Lemmas.Tree.preDev reg opts plug).forest).1 prov :=
  Goyang.Lemmas.ConfigNsDev.final_builtX reg opts plug

/-- **C12's end-to-end statement, deviations included**: the forest of an error-free `processAll`
run is `BuiltX reg false` — built by conversion, grafts, `FixChoice`, implicit rpc input / output
creation, write-back of deviated nodes and removal of not-supported ones; no error recording step. -/
theorem processAll_provenance (reg : Registry) (opts : Opts) (plug : Plug)
    (hclean : (processAll reg opts plug).errors = []) :
    ∃ prov, BuiltX reg false (processAll reg opts plug).forest prov :=
  Goyang.Lemmas.ConfigNsDev.processAll_builtX_clean reg opts plug hclean

/-- **End to end, on `processAll`.**  For an error-free run — deviations included — there is a
provenance `prov` of the returned forest (derived by `BuiltX reg false`: initial nodes placed by their
tree's module, grafted nodes by the module of the augment, library-inserted cases and removed
locations by nobody) such that for every tree and every path of it:
* a location with a placer `m` reports the namespace of the module `m` belongs to;
* `ReadOnly()` is what the nearest decisive node on the path of the *returned* tree says — so a config
  written by a deviation is the explicit config of that node from then on — and, under the property's
  exclusion, the property's rule. -/
theorem processAll_namespace_readOnly (reg : Registry) (opts : Opts) (plug : Plug)
    (hclean : (processAll reg opts plug).errors = []) :
    ∃ prov, BuiltX reg false (processAll reg opts plug).forest prov ∧
      ∀ (loc : Loc) (root : Entry), (processAll reg opts plug).forest.tree? loc.1 = some root →
        (∀ m, prov loc = some m → namespaceAt reg (processAll reg opts plug).forest loc = ownerNs reg m) ∧
        root.readOnlyAt loc.2 = readOnlyExact (configsAlong root loc.2) ∧
        (NoConfigTrueBelowOutput (configsAlong root loc.2) → root.readOnlyAt loc.2 = readOnly (configsAlong root loc.2)) := by
  obtain ⟨prov, hb⟩ := processAll_provenance reg opts plug hclean
  exact ⟨prov, hb, fun loc root hroot =>
    ⟨fun m hp => namespace_placedBy_dev hb loc m root hroot hp, C12.readOnly_exact root loc.2,
      fun h => C12.readOnly_spec root loc.2 h⟩⟩

/-- **What a deviate statement does to the config of its target**: `add` / `replace` with a `config`
substatement write that value; `delete` with one erases the node's config statement; `not-supported`,
an unknown kind, and a statement without `config` leave it alone.  (The statement's other effects do not
touch the config, whether or not they are reported.) -/
theorem deviate_config_reflected (opts : Opts) (ms : Stmt) (kind : String) (spec : Entry) (hp : Bool) (node : Entry) :
    (applyOneDeviate opts ms kind spec hp node).1.d.config =
      match Goyang.Lemmas.Deviate.kindOf kind with
      | .add | .replace => if spec.d.config != .unset then spec.d.config else node.d.config
      | .delete => if spec.d.config != .unset then .unset else node.d.config
      | _ => node.d.config :=
  Goyang.Lemmas.ConfigNsDev.applyOneDeviate_config opts ms kind spec hp node

/-- **The read-only clause after a deviation.**  The deviation stage writes the deviated copy `node'`
of the target back at its path; the property demands that from then on the written config is that
node's explicit config: `ReadOnly()` of the target is `node'`'s config (if it has one and is no rpc
output — config inside operations is outside the property), and every node below without a config of
its own inherits it (`processAll_namespace_readOnly`: `ReadOnly()` is the rule evaluated on the path of
the *returned* tree). -/
theorem deviate_readOnly_target (root : Entry) (path : Path) (node node' : Entry) (hg : root.getAt path = some node)
    (hname : node'.name = node.name) (hc : node'.d.config ≠ .unset) (hk : node'.d.kind ≠ .output) :
    (root.updateAt path fun _ => node').readOnlyAt path = (node'.d.config == .false_) := by
  have hst : Goyang.Lemmas.Deviate.NameStable path (fun _ => node') :=
    Goyang.Lemmas.Deviate.NameStable.of_pathNamed
      (Goyang.Lemmas.Deviate.pathNamed_step hname (Goyang.Lemmas.Deviate.pathNamed_of_getAt path root node hg))
  refine Goyang.Lemmas.ConfigNsDev.readOnlyAt_explicit _ path node' ?_ hc hk
  rw [Goyang.Lemmas.Deviate.getAt_updateAt_self _ path hst root, hg]; rfl

end Dev

/-! ### the literal `Built`: the composition gap closed -/
section Literal
open Goyang.Lemmas.ConfigNsBuilt (BuiltU BD Dirty)
open Goyang.Lemmas.ConfigNsComm (SlotEmpty)
open Goyang.Lemmas.Tree (U PathOK)

/-- `BuiltU` (Lemmas/ConfigNsBuilt.lean) is `Built` with side conditions recorded at each step — the
tree a graft goes into and the grafted entry have their children under pairwise different non-empty
names (`U`), the graft path has no empty name (`PathOK`), the target is no rpc; the trees `FixChoice` is
applied to satisfy `U`.  Every `BuiltU` forest is `Built`, with the same provenance. -/
theorem builtU_is_built {reg : Registry} {f : Forest} {prov : Loc → Option Nat} (h : BuiltU reg f prov) :
    Built reg f prov := h.toBuilt

/-- `Find` stores the tree it walked back into the forest even when nothing changed: `BuiltU` is closed
under that (the literal forest equality, not only the `tree?` answers), provenance unchanged. -/
theorem builtU_closed_store {reg : Registry} {f : Forest} {prov : Loc → Option Nat} (hb : BuiltU reg f prov)
    (t : Nat) (root : Entry) (ht : f.tree? t = some root) : BuiltU reg (f.setTree t root) prov :=
  Goyang.Lemmas.ConfigNsBuilt.builtU_store hb t root ht

/-- **`Find` creating an absent rpc input / output keeps a forest `BuiltU`** (hence `Built`): the
creation, at a proper existing path of any tree, at an rpc / action node that lacks the input (output),
commutes back through every earlier graft — into the tree grafted into or, when it happens inside a
child the graft added, into the grafted entry — and through every earlier `FixChoice`, down to the
conversion, where it meets a stamp-free tree.  The created node carries no stamp. -/
theorem builtU_closed_implicit {reg : Registry} {f : Forest} {prov : Loc → Option Nat} (hb : BuiltU reg f prov)
    (t : Nat) (root e : Entry) (p : Path) (b : Bool) (ht : f.tree? t = some root) (hg : root.getAt p = some e)
    (hr : e.d.isRpc = true) (hp : PathOK p) (he : SlotEmpty b e) :
    ∃ prov', Built reg (f.setTree t (root.updateAt p (Goyang.Spec.Find.addImplicit b))) prov' := by
  obtain ⟨prov', h⟩ := Goyang.Lemmas.ConfigNsBuilt.builtU_implicit hb t root e p b ht hg hr hp he
  exact ⟨prov', h.toBuilt⟩

/-- **The forest `processAll` applies its deviations to is `Built`, or some root carries an error** —
every registry, option set and plug.  (Errors recorded on a root are never removed: the third extra
step of `Built'` shows in the result.) -/
theorem preDev_built_or_rootError (reg : Registry) (opts : Opts) (plug : Plug) :
    (∃ prov, Built reg (Lemmas.Tree.preDev reg opts plug).forest prov) ∨
    (∃ t root, (Lemmas.Tree.preDev reg opts plug).forest.tree? t = some root ∧ root.d.errors ≠ []) := by
  rcases (Goyang.Lemmas.ConfigNsBuilt.bj_preDev reg opts plug).main with ⟨prov, hb⟩ | hd
  · exact Or.inl ⟨prov, hb.toBuilt⟩
  · exact Or.inr hd

/-- **C12's end-to-end statement, proved** (`C12.processAll_built_statement`): the forest of an
error-free `processAll` run without deviations is `Built` — conversion (`init`: every node of tree `id`
placed by (sub)module `id`), one `graft` per applied augment (the added children and everything below
them placed by the augmenting (sub)module), `FixChoice` (`fix`: placers kept under the path
translation, inserted cases placed by nobody).  The steps of the augment loop that `Built` has no
constructor for are accounted for: no error was recorded on a root (the run is error-free and such
errors stay), trees stored back unchanged change nothing, and every rpc input / output `Find` created
on the way is moved back to the conversion (`builtU_closed_implicit`). -/
theorem processAll_built : C12.processAll_built_statement := by
  intro reg opts plug hclean hnd
  obtain ⟨_, _, h3, _, h5⟩ := Lemmas.Tree.processAll_clean reg opts plug hclean
  rw [h5, devStage_no_deviations reg opts plug _ hnd]
  exact Goyang.Lemmas.ConfigNsBuilt.preDev_built_of_clean reg opts plug h3

/-- The same for the forest before the deviation stage, deviations or not. -/
theorem preDev_built_clean (reg : Registry) (opts : Opts) (plug : Plug)
    (hclean : (processAll reg opts plug).errors = []) :
    ∃ prov, Built reg (Lemmas.Tree.preDev reg opts plug).forest prov := by
  obtain ⟨_, _, h3, _, _⟩ := Lemmas.Tree.processAll_clean reg opts plug hclean
  exact Goyang.Lemmas.ConfigNsBuilt.preDev_built_of_clean reg opts plug h3

/-- **Namespace attribution, end to end, with the literal `Built`**: in the forest of an error-free
`processAll` run without deviations, every location placed by (sub)module `m` — a node of `m`'s own
tree, grouping content at any depth included, or a node grafted by one of `m`'s augments — reports the
namespace of the module `m` belongs to. -/
theorem processAll_namespace_placedBy (reg : Registry) (opts : Opts) (plug : Plug)
    (hclean : (processAll reg opts plug).errors = [])
    (hnd : ∀ m ∈ reg.mods, m.stmt.all "deviation" = []) :
    ∃ prov, Built reg (processAll reg opts plug).forest prov ∧
      ∀ (loc : Loc) (m : Nat) (root : Entry), (processAll reg opts plug).forest.tree? loc.1 = some root →
        prov loc = some m → namespaceAt reg (processAll reg opts plug).forest loc = ownerNs reg m := by
  obtain ⟨prov, hb⟩ := processAll_built reg opts plug hclean hnd
  exact ⟨prov, hb, fun loc m root hroot hp => C12.namespace_placedBy hb loc m root hroot hp⟩

end Literal

/-! ### runs WITH deviations: the literal class `BuiltD` -/
section DevLiteral
open Goyang.Lemmas.ConfigNsDevLit (BuiltD ioStep)
open Goyang.Lemmas.ConfigNsDev (BuiltX Removed)
open Goyang.Spec.Find (addImplicit)

/-- Every `Built` forest is `BuiltD` (Lemmas/ConfigNsDevLit.lean: `Built` + `implicit` + `retouch` +
`remove`, each with its provenance clause; no `congr`, no `rootErr`), with the same provenance. -/
theorem built_is_builtD {reg : Registry} {f : Forest} {prov : Loc → Option Nat} (h : Built reg f prov) :
    BuiltD reg f prov := Goyang.Lemmas.ConfigNsDevLit.Built.toBuiltD h

/-- Every `BuiltD` forest is `BuiltX reg false` (the class of `processAll_provenance`; its provenance
does not move the placer of a created input / output, hence "for some provenance"). -/
theorem builtD_is_builtX {reg : Registry} {f : Forest} {prov : Loc → Option Nat} (h : BuiltD reg f prov) :
    ∃ prov0, BuiltX reg false f prov0 := h.toBuiltX

/-- **Namespace attribution** (C12's `namespace_placedBy`) **for `BuiltD`**: in a forest built by
conversion, grafts, `FixChoice`, creation of absent rpc inputs / outputs, write-back of deviated nodes and
removal of not-supported ones, a location placed by the text of (sub)module `m` — a created input / output
counts as placed by the placer of its rpc — and not removed reports the namespace of the module `m`
belongs to. -/
theorem namespace_placedBy_builtD {reg : Registry} {f : Forest} {prov : Loc → Option Nat} (hb : BuiltD reg f prov)
    (loc : Loc) (m : Nat) (root : Entry) (hroot : f.tree? loc.1 = some root) (hp : prov loc = some m) :
    namespaceAt reg f loc = ownerNs reg m :=
  Goyang.Lemmas.ConfigNsDevLit.builtD_namespace hb loc m (by rw [hroot]; rfl) hp

/-- `Find` stores the tree it walked back into the forest even when nothing changed: `BuiltD` is closed
under that — the literal forest, with the same provenance (this replaces the `congr` step of `BuiltX`). -/
theorem builtD_closed_store {reg : Registry} {f : Forest} {prov : Loc → Option Nat} (hb : BuiltD reg f prov)
    (t : Nat) (root : Entry) (ht : f.tree? t = some root) : BuiltD reg (f.setTree t root) prov :=
  Goyang.Lemmas.ConfigNsDevLit.builtD_store hb t root ht

/-- **The implicitly created input / output is placed by the module of its rpc.**  When `Find` creates
the absent input (`b = true`) or output of the rpc / action `e` at path `p` of tree `t`, the forest stays
`BuiltD` with the provenance that differs only at the created location `p ++ [input]`, where it is the
placer `m` of the rpc; and the created node reports the namespace of the module `m` belongs to. -/
theorem created_io_placedBy_rpc {reg : Registry} {f : Forest} {prov : Loc → Option Nat} (hb : BuiltD reg f prov)
    (t : Nat) (root e : Entry) (p : Path) (b : Bool) (ht : f.tree? t = some root) (hg : root.getAt p = some e)
    (hr : e.d.isRpc = true) (he : if b = true then e.inp = [] else e.out = []) (m : Nat) (hp : prov (t, p) = some m) :
    ∃ prov', BuiltD reg (f.setTree t (root.updateAt p (addImplicit b))) prov' ∧
      prov' (t, p ++ [ioStep b]) = some m ∧ (∀ loc, loc ≠ (t, p ++ [ioStep b]) → prov' loc = prov loc) ∧
      namespaceAt reg (f.setTree t (root.updateAt p (addImplicit b))) (t, p ++ [ioStep b]) = ownerNs reg m := by
  classical
  have h1 : (fun loc => if loc = (t, p ++ [ioStep b]) then prov (t, p) else prov loc) (t, p ++ [ioStep b]) = prov (t, p) := by
    simp only [if_true]
  have hb' : BuiltD reg (f.setTree t (root.updateAt p (addImplicit b)))
      (fun loc => if loc = (t, p ++ [ioStep b]) then prov (t, p) else prov loc) :=
    BuiltD.implicit b hb ht hg hr he h1 (fun loc h => by simp only [h, if_false])
  refine ⟨_, hb', h1.trans hp, fun loc h => by simp only [h, if_false], ?_⟩
  exact Goyang.Lemmas.ConfigNsDevLit.builtD_namespace hb' (t, p ++ [ioStep b]) m
    (by simp only; rw [Goyang.Lemmas.ConfigNs.tree?_setTree, if_pos rfl, ht]; rfl) (h1.trans hp)

/-- **`Find` keeps "`BuiltD`, or some root carries an error"**, whatever path it is asked: the creations
are `implicit` steps, the store is absorbed, an unresolvable prefix records an error on a root. -/
theorem find_keeps_builtD_or_rootError (reg : Registry) (f : Forest) (start : Loc) (ctx : Nat) (name : String)
    (h : (∃ prov, BuiltD reg f prov) ∨ ∃ t root, f.tree? t = some root ∧ root.d.errors ≠ []) :
    (∃ prov, BuiltD reg (find reg f start ctx name).2 prov) ∨
      ∃ t root, (find reg f start ctx name).2.tree? t = some root ∧ root.d.errors ≠ [] :=
  Goyang.Lemmas.ConfigNsDevLit.bdv_find h start ctx name

/-- **The deviation stage keeps "`BuiltD`, or some root carries an error"** — every registry, option
set, plug and start forest; deviations that apply, fail, or remove nodes included. -/
theorem devStage_keeps_builtD_or_rootError (reg : Registry) (opts : Opts) (plug : Plug) (f0 : Forest)
    (h : (∃ prov, BuiltD reg f0 prov) ∨ ∃ t root, f0.tree? t = some root ∧ root.d.errors ≠ []) :
    (∃ prov, BuiltD reg (Lemmas.Tree.devStage reg opts plug f0).1 prov) ∨
      ∃ t root, (Lemmas.Tree.devStage reg opts plug f0).1.tree? t = some root ∧ root.d.errors ≠ [] :=
  Goyang.Lemmas.ConfigNsDevLit.devStage_bdv reg opts plug f0 h

/-- **C12's end-to-end statement for runs WITH deviations, literally**: the forest of an error-free
`processAll` run is `BuiltD` — conversion (`init`), one `graft` per applied augment, `FixChoice` (`fix`),
and in the deviation stage: creation of an rpc input / output the path of a deviation names (`implicit`:
placed by the rpc's placer), write-back of each deviated node (`retouch`: placer kept), removal by
`deviate not-supported` (`remove`: no placer).  No error-recording step and no `congr` step. -/
theorem processAll_built_with_deviations (reg : Registry) (opts : Opts) (plug : Plug)
    (hclean : (processAll reg opts plug).errors = []) :
    ∃ prov, BuiltD reg (processAll reg opts plug).forest prov :=
  Goyang.Lemmas.ConfigNsDevLit.processAll_builtD_clean reg opts plug hclean

/-- **End to end, on `processAll`, with the literal class.**  For an error-free run — deviations
included — there is a provenance `prov` of the returned forest, derived by `BuiltD` (initial nodes placed
by their tree's module, grafted nodes by the module of the augment, created rpc inputs / outputs by the
placer of the rpc, library-inserted cases and removed locations by nobody), such that for every tree and
every path of it: a location with a placer `m` reports the namespace of the module `m` belongs to, and
`ReadOnly()` is the specification's rule on the path of the returned tree. -/
theorem processAll_namespace_readOnly_literal (reg : Registry) (opts : Opts) (plug : Plug)
    (hclean : (processAll reg opts plug).errors = []) :
    ∃ prov, BuiltD reg (processAll reg opts plug).forest prov ∧
      ∀ (loc : Loc) (root : Entry), (processAll reg opts plug).forest.tree? loc.1 = some root →
        (∀ m, prov loc = some m → namespaceAt reg (processAll reg opts plug).forest loc = ownerNs reg m) ∧
        root.readOnlyAt loc.2 = readOnlyExact (configsAlong root loc.2) ∧
        (NoConfigTrueBelowOutput (configsAlong root loc.2) → root.readOnlyAt loc.2 = readOnly (configsAlong root loc.2)) := by
  obtain ⟨prov, hb⟩ := processAll_built_with_deviations reg opts plug hclean
  exact ⟨prov, hb, fun loc root hroot =>
    ⟨fun m hp => namespace_placedBy_builtD hb loc m root hroot hp, C12.readOnly_exact root loc.2,
      fun h => C12.readOnly_spec root loc.2 h⟩⟩

/-- The split of a literal path at `/` is the split of its character list, which `decide` evaluates
(`String.splitOn` itself does not reduce in the kernel). -/
theorem splitOn_slash_literal (s : String) : s.splitOn "/" = (s.toList.splitOn '/').map String.ofList :=
  Goyang.Lemmas.ConfigNsEval.splitOn_slash s

end DevLiteral

/-! ### non-vacuity -/
section Examples
open Goyang.Props.C04.Ex

/-- C04's example module satisfies the hypotheses of `processAll_builtPrime`. -/
example : (processAll reg1 {} plug).errors = [] ∧ (∀ m ∈ reg1.mods, m.stmt.all "deviation" = []) := by decide +kernel

/-- The two new stamp-free constructors on a concrete forest: an rpc without written input; `Find`
creates it, the forest stays `Built'` with the provenance it had, and the created node reports the
namespace of the tree's module. -/
example :
    let rpc : Entry := .mk { name := "r", isRpc := true } [] [] []
    let root : Entry := .mk { name := "m" } [rpc] [] []
    let f : Forest := { trees := [(0, root)] }
    let f' : Forest := f.setTree 0 (root.updateAt [.child "r"] (Goyang.Spec.Find.addImplicit true))
    ∀ reg : Registry, Built' reg f' (fun loc => some loc.1) ∧
      namespaceAt reg f' (0, [.child "r", .input]) = ownerNs reg 0 := by
  intro rpc root f f' reg
  have hb : Built' reg f (fun loc => some loc.1) := Built'.init (by
    intro id t h
    have : t = root := by
      simp only [f, Forest.tree?, List.find?] at h
      split at h
      · simpa using h.symm
      · cases h
    subst this; decide)
  have hb' : Built' reg f' (fun loc => some loc.1) :=
    Built'.implicit (t := 0) (root := root) (e := rpc) (p := [.child "r"]) true hb (by rfl) (by rfl)
      (by rw [if_pos rfl]; rfl)
  exact ⟨hb', built'_namespace hb' (0, [.child "r", .input]) 0 (by rfl) rfl⟩

/-- C04's example module satisfies the hypotheses of `processAll_built`, `processAll_namespace_placedBy`,
`preDev_built_clean`, `processAll_provenance` and `processAll_namespace_readOnly`; so its forest is `Built`. -/
example : ∃ prov, Built reg1 (processAll reg1 {} plug).forest prov :=
  processAll_built reg1 {} plug (by decide +kernel) (by decide +kernel)

/-- The commutation on a concrete forest: module tree with an rpc `r` that has no written input and a
container `c`; an augment grafts a leaf under `c`; then `Find` creates the input of `r`.  The hypotheses
of `builtU_closed_implicit` hold, and the resulting forest is `Built`: the creation is moved back before
the graft. -/
example :
    let rpc : Entry := .mk { name := "r", isRpc := true } [] [] []
    let cont : Entry := .mk { name := "c" } [] [] []
    let root : Entry := .mk { name := "m" } [rpc, cont] [] []
    let aug : Entry := .mk { name := "/c" } [.mk { name := "x", kind := .leaf, hasDir := false } [] [] []] [] []
    let f : Forest := { trees := [(0, root)] }
    ∀ reg : Registry,
      let root' := root.updateAt [.child "c"] fun te => te.merge (some (ownerNs reg 0)) aug
      ∃ prov', Built reg ((f.setTree 0 root').setTree 0 (root'.updateAt [.child "r"] (Goyang.Spec.Find.addImplicit true))) prov' := by
  intro rpc cont root aug f reg root'
  have h0 : Goyang.Lemmas.ConfigNsBuilt.BuiltU reg f (fun loc => some loc.1) :=
    Goyang.Lemmas.ConfigNsBuilt.BuiltU.init (by
      intro id t h
      have : t = root := by
        simp only [f, Forest.tree?, List.find?] at h
        split at h
        · simpa using h.symm
        · cases h
      subst this; decide)
  have h1 : Goyang.Lemmas.ConfigNsBuilt.BuiltU reg (f.setTree 0 root') (fun loc => some loc.1) :=
    Goyang.Lemmas.ConfigNsBuilt.BuiltU.graft (by_ := 0) (t := 0) (path := [.child "c"]) (root := root) (te := cont)
      (a := aug) (prov := fun loc => some loc.1) h0 (by rfl) (by rfl) (by decide) (by unfold Goyang.Lemmas.Tree.U; decide)
      (fun k hk => by simp only [List.mem_singleton, Step.child.injEq] at hk; subst hk; decide) rfl
      (by unfold Goyang.Lemmas.Tree.U; decide)
      (fun loc h => by rw [h.1]) (fun loc _ => rfl)
  exact builtU_closed_implicit h1 0 root' rpc [.child "r"] true (by rfl) (by rfl) rfl
    (fun k hk => by simp only [List.mem_singleton, Step.child.injEq] at hk; subst hk; decide) rfl

/-- The two constructors of the deviation stage on a concrete forest: `deviate replace { config false; }`
on the leaf `/c/x` (`retouch`: the placer stays, the namespace stays, `ReadOnly()` follows the written
config) and `deviate not-supported` on `/c/y` (`remove`: the removed location has no placer). -/
example :
    let x : Entry := .mk { name := "x", kind := .leaf, hasDir := false } [] [] []
    let x' : Entry := .mk { name := "x", kind := .leaf, hasDir := false, config := .false_ } [] [] []
    let y : Entry := .mk { name := "y", kind := .leaf, hasDir := false } [] [] []
    let root : Entry := .mk { name := "m" } [.mk { name := "c" } [x, y] [] []] [] []
    let f : Forest := { trees := [(0, root)] }
    let root1 := root.updateAt [.child "c", .child "x"] fun _ => x'
    let f1 := f.setTree 0 root1
    let f2 := f1.setTree 0 (removeAt root1 [.child "c", .child "y"])
    ∀ reg : Registry, ∃ prov, Goyang.Lemmas.ConfigNsDev.BuiltX reg false f2 prov ∧
      prov (0, [.child "c", .child "x"]) = some 0 ∧ prov (0, [.child "c", .child "y"]) = none ∧
      namespaceAt reg f2 (0, [.child "c", .child "x"]) = ownerNs reg 0 ∧
      root.readOnlyAt [.child "c", .child "x"] = false ∧
      (removeAt root1 [.child "c", .child "y"]).readOnlyAt [.child "c", .child "x"] = true := by
  intro x x' y root f root1 f1 f2 reg
  classical
  have h0 : Goyang.Lemmas.ConfigNsDev.BuiltX reg false f (fun loc => some loc.1) :=
    Goyang.Lemmas.ConfigNsDev.BuiltX.init (by
      intro id t h
      have : t = root := by
        simp only [f, Forest.tree?, List.find?] at h
        split at h
        · simpa using h.symm
        · cases h
      subst this; decide)
  have h1 : Goyang.Lemmas.ConfigNsDev.BuiltX reg false f1 (fun loc => some loc.1) :=
    Goyang.Lemmas.ConfigNsDev.BuiltX.retouch (t := 0) (root := root) (node := x) (node' := x')
      (path := [.child "c", .child "x"]) h0 (by rfl) (by rfl) rfl rfl rfl rfl rfl rfl
  have h2 : Goyang.Lemmas.ConfigNsDev.BuiltX reg false f2
      (fun loc => if Goyang.Lemmas.ConfigNsDev.Removed 0 [.child "c", .child "y"] loc then none else some loc.1) :=
    Goyang.Lemmas.ConfigNsDev.BuiltX.remove (t := 0) (root := root1) (path := [.child "c", .child "y"])
      h1 (by rfl) (by simp) (by decide) (fun loc h => by simp only [h, if_true]) (fun loc h => by simp only [h, if_false])
  have hx : ¬ Goyang.Lemmas.ConfigNsDev.Removed 0 [.child "c", .child "y"] (0, [.child "c", .child "x"]) := by
    rintro ⟨_, h⟩
    have := (List.cons_prefix_cons.mp h).2
    have := (List.cons_prefix_cons.mp this).1
    revert this; decide
  have hy : Goyang.Lemmas.ConfigNsDev.Removed 0 [.child "c", .child "y"] (0, [.child "c", .child "y"]) :=
    ⟨rfl, List.prefix_refl _⟩
  refine ⟨_, h2, by simp only [hx, if_false], by simp only [hy, if_true], ?_, by decide, by decide⟩
  exact namespace_placedBy_dev h2 (0, [.child "c", .child "x"]) 0 _ (by rfl) (by simp only [hx, if_false])

/-- The hypotheses of `deviate_readOnly_target` on the same tree: `/c/x` gets `config false`. -/
example :
    let x : Entry := .mk { name := "x", kind := .leaf, hasDir := false } [] [] []
    let x' : Entry := .mk { name := "x", kind := .leaf, hasDir := false, config := .false_ } [] [] []
    let root : Entry := .mk { name := "m" } [.mk { name := "c" } [x] [] []] [] []
    (root.updateAt [.child "c", .child "x"] fun _ => x').readOnlyAt [.child "c", .child "x"] = true ∧
      root.readOnlyAt [.child "c", .child "x"] = false := by
  intro x x' root
  exact ⟨deviate_readOnly_target root [.child "c", .child "x"] x x' (by rfl) rfl (by decide) (by decide), by decide⟩

/-- A literal path split by evaluation: `splitOn_slash_literal` then `decide`. -/
example : "/a:c/b:x".splitOn "/" = ["", "a:c", "b:x"] ∧ "/a:r/a:input".splitOn "/" = ["", "a:r", "a:input"] := by
  rw [splitOn_slash_literal, splitOn_slash_literal]; decide

/-- `BuiltD` on a concrete forest: an rpc without written input; the tree is stored back unchanged
(`builtD_closed_store`), then `Find` creates the input (`created_io_placedBy_rpc`): the forest is `BuiltD`,
the created input is placed by module 0 — the placer of the rpc — and reports its namespace. -/
example :
    let rpc : Entry := .mk { name := "r", isRpc := true } [] [] []
    let root : Entry := .mk { name := "m" } [rpc] [] []
    let f : Forest := { trees := [(0, root)] }
    let f' : Forest := (f.setTree 0 root).setTree 0 (root.updateAt [.child "r"] (Goyang.Spec.Find.addImplicit true))
    ∀ reg : Registry, ∃ prov', Goyang.Lemmas.ConfigNsDevLit.BuiltD reg f' prov' ∧
      prov' (0, [.child "r", .input]) = some 0 ∧ namespaceAt reg f' (0, [.child "r", .input]) = ownerNs reg 0 := by
  intro rpc root f f' reg
  have h0 : Goyang.Lemmas.ConfigNsDevLit.BuiltD reg f (fun loc => some loc.1) :=
    Goyang.Lemmas.ConfigNsDevLit.BuiltD.init (by
      intro id t h
      have : t = root := by
        simp only [f, Forest.tree?, List.find?] at h
        split at h
        · simpa using h.symm
        · cases h
      subst this; decide)
  have h1 := builtD_closed_store h0 0 root (by rfl)
  obtain ⟨prov', hb, hp, _, hns⟩ := created_io_placedBy_rpc h1 0 root rpc [.child "r"] true (by rfl) (by rfl) rfl
    (by rw [if_pos rfl]; rfl) 0 rfl
  exact ⟨prov', hb, hp, hns⟩


end Examples

/-! ### non-vacuity on `processAll`, evaluated by the kernel: a module set with an augment and deviations -/
namespace ExDev
open Goyang.Lemmas.Tree Goyang.Lemmas.IncludeAugK Goyang.Lemmas.ConfigNsEval

def st (file kw arg : String) (l c : Nat) (subs : List Stmt) : Stmt := .mk kw true arg file l c subs
def plug : Plug := Goyang.Props.C04.Ex.plug
/-- `module a`: a container `c` with a leaf `k`, an rpc `r` with neither input nor output written. -/
def aS : Stmt := st "a" "module" "a" 1 1 [st "a" "namespace" "urn:a" 2 3 [], st "a" "prefix" "a" 3 3 [],
  st "a" "container" "c" 4 3 [st "a" "leaf" "k" 5 5 [st "a" "type" "string" 5 12 []]],
  st "a" "rpc" "r" 6 3 []]
/-- `module b`: augments `/a:c` with a leaf `x`, deviates that leaf (`config false`), and has a deviation
whose path names the unwritten input of `a`'s rpc (`Find` creates it). -/
def bS : Stmt := st "b" "module" "b" 1 1 [st "b" "namespace" "urn:b" 2 3 [], st "b" "prefix" "b" 3 3 [],
  st "b" "import" "a" 4 3 [st "b" "prefix" "a" 4 12 []],
  st "b" "augment" "/a:c" 5 3 [st "b" "leaf" "x" 6 5 [st "b" "type" "string" 6 12 []]],
  st "b" "deviation" "/a:c/b:x" 7 3 [st "b" "deviate" "add" 8 5 [st "b" "config" "false" 8 18 []]],
  st "b" "deviation" "/a:r/a:input" 9 3 [st "b" "deviate" "add" 10 5 []]]
def R : Registry := (Registry.loadAll [aS, bS]).1

/-- The hypothesis of `processAll_built_with_deviations`, `processAll_namespace_readOnly_literal`,
`processAll_provenance`, `processAll_namespace_readOnly` and `preDev_built_clean` holds of this set
(augment and deviations applied; evaluated by the kernel through `processAll_errors_KD`). -/
theorem clean : (processAll R {} plug).errors = [] := by
  rw [processAll_errors_KD R {} plug (by decide +kernel) (by decide +kernel)]; decide +kernel

theorem forestK : (processAll R {} plug).forest = (devStageK R {} plug (preDevK R {} plug).forest).1 :=
  processAll_forest_KD R {} plug (by decide +kernel) (by decide +kernel)

/-- So its forest is `BuiltD`, with the conclusions of `processAll_namespace_readOnly_literal`. -/
example : ∃ prov, Goyang.Lemmas.ConfigNsDevLit.BuiltD R (processAll R {} plug).forest prov :=
  processAll_built_with_deviations R {} plug clean

/-- What the theorems speak about, evaluated independently of the proofs: the grafted leaf `/c/x` reports
`b`'s namespace and — after the deviation — is read-only; `a`'s own leaf `/c/k` reports `a`'s and is
not; the input of `r`, created by the lookup of the second deviation, exists and reports `a`'s namespace
(the module of the rpc). -/
theorem evaluated :
    namespaceAt R (processAll R {} plug).forest (0, [.child "c", .child "x"]) = "urn:b" ∧
    namespaceAt R (processAll R {} plug).forest (0, [.child "c", .child "k"]) = "urn:a" ∧
    namespaceAt R (processAll R {} plug).forest (0, [.child "r", .input]) = "urn:a" ∧
    (((processAll R {} plug).forest.tree? 0).bind (·.getAt [.child "r", .input])).isSome = true ∧
    (((processAll R {} plug).forest.tree? 0).map (·.readOnlyAt [.child "c", .child "x"])) = some true ∧
    (((processAll R {} plug).forest.tree? 0).map (·.readOnlyAt [.child "c", .child "k"])) = some false := by
  rw [forestK]; decide +kernel
end ExDev

/-! ### the corner that makes `implicit` a constructor: removal of a written rpc input, then a lookup through it -/
namespace ExCorner
open Goyang.Lemmas.Tree Goyang.Lemmas.IncludeAugK Goyang.Lemmas.ConfigNsEval
open ExDev (st plug)

/-- `module a`: an rpc `r` with a written input holding a leaf `q`. -/
def aS : Stmt := st "a" "module" "a" 1 1 [st "a" "namespace" "urn:a" 2 3 [], st "a" "prefix" "a" 3 3 [],
  st "a" "rpc" "r" 6 3 [st "a" "input" "" 7 5 [st "a" "leaf" "q" 8 7 [st "a" "type" "string" 8 14 []]]]]
/-- `module b`: `deviate not-supported` on that input, then a second deviation with the same path. -/
def bS : Stmt := st "b" "module" "b" 1 1 [st "b" "namespace" "urn:b" 2 3 [], st "b" "prefix" "b" 3 3 [],
  st "b" "import" "a" 4 3 [st "b" "prefix" "a" 4 12 []],
  st "b" "deviation" "/a:r/a:input" 7 3 [st "b" "deviate" "not-supported" 8 5 []],
  st "b" "deviation" "/a:r/a:input" 9 3 [st "b" "deviate" "add" 10 5 []]]
def R : Registry := (Registry.loadAll [aS, bS]).1

theorem clean : (processAll R {} plug).errors = [] := by
  rw [processAll_errors_KD R {} plug (by decide +kernel) (by decide +kernel)]; decide +kernel

theorem forestK : (processAll R {} plug).forest = (devStageK R {} plug (preDevK R {} plug).forest).1 :=
  processAll_forest_KD R {} plug (by decide +kernel) (by decide +kernel)

/-- The run is error-free; the written input was removed (its leaf `q` is gone) and an empty input was
created after the removal by the lookup of the second deviation; it reports the namespace of the rpc's
module.  No forest built without a creation step AFTER the removal has this shape. -/
theorem recreated :
    (((processAll R {} plug).forest.tree? 0).bind (·.getAt [.child "r", .input])).isSome = true ∧
    (((processAll R {} plug).forest.tree? 0).bind (·.getAt [.child "r", .input, .child "q"])).isSome = false ∧
    namespaceAt R (processAll R {} plug).forest (0, [.child "r", .input]) = "urn:a" := by
  rw [forestK]; decide +kernel

example : ∃ prov, Goyang.Lemmas.ConfigNsDevLit.BuiltD R (processAll R {} plug).forest prov :=
  processAll_built_with_deviations R {} plug clean
end ExCorner

end Goyang.Props.C12Bridge
