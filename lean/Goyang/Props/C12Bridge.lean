import Goyang.Lemmas.BridgeBuilt
import Goyang.Lemmas.ConfigNsDev
import Goyang.Lemmas.ConfigNsBuilt
import Goyang.Props.C12
import Goyang.Props.C12Conv
import Goyang.Props.C04
/-
C12, bridge to `processAll` — the composition Props/C12.lean states as `processAll_built_statement`.

PROVED HERE, at full strength: `processAll_built : C12.processAll_built_statement` — the forest of an
error-free `processAll` run without deviations is `Spec.ConfigNs.Built` itself; corollary on `processAll`:
`processAll_namespace_placedBy`.  And, deviations included: `processAll_provenance` /
`processAll_namespace_readOnly` (class `BuiltX reg false`), `deviate_config_reflected`,
`deviate_readOnly_target`.

How.  `Built'` (Lemmas/BridgeBuilt.lean) is `Built` with the steps of the augment loop that write no
stamp, each leaving the provenance as it is:
  `rootErr`  — an error recorded on the root entry of a tree (`Find`: unresolvable prefix;
               `Entry.Augment` with `addErrors`: `augment-not-found`);
  `implicit` — `Find` creating the input / output an rpc / action did not spell out;
  `congr`    — a forest with the same `tree?` answers (`Find` stores the tree it walked back into
               the forest even when nothing changed; nothing ever reads a forest but through `tree?`).
Every `Built` forest is `Built'`; C12's provenance theorem holds for `Built'` (`namespace_placedBy_prime`);
`Built'` is threaded through `augmentTree`, `augmentPass`, `augmentLoop`, `FixChoice`, the retry rounds
(loop and `FixChoice` again), the reporting sweep and the last `FixChoice` for every input (`preDev_builtPrime`, `processAll_builtPrime`).

From `Built'` to `Built` on an error-free run (Lemmas/ConfigNsComm.lean, Lemmas/ConfigNsBuilt.lean):
  * `rootErr` is absent: an error on a root is never removed (`builtX_of_clean`; in the threading:
    the invariant is "`Built`, or some root carries an error", `preDev_built_or_rootError`);
  * `congr` is only ever used for literally equal forests or for storing a tree back, and the class is
    closed under that (`builtU_closed_store`);
  * `implicit` commutes back through every earlier `graft` (into the tree grafted into, or — when the
    rpc is inside a child the graft added — into the grafted entry) and every earlier `fix`
    (`FixChoice` commutes with the creation at the translated path; every rpc node of a fixed tree is the
    image of a node of the original), down to `init`, which absorbs it (`builtU_closed_implicit`).  The
    commutation needs the children of a node to be filed under pairwise different non-empty names and
    the paths to be proper (`U`, `PathOK` of Lemmas/Tree.lean, which the augment stage maintains):
    `BuiltU` is `Built` with these side conditions recorded; `builtU_is_built` forgets them.

The deviation stage (Lemmas/ConfigNsDev.lean): `BuiltX reg ae` = `Built'` + `retouch` (the deviated copy
of the target written back: same children, stamp, name, errors) + `remove` (`deviate not-supported`: the
removed locations lose their placer), with `rootErr` only when `ae = true`.  `final_builtX`: the forest
`processAll` ends with is `BuiltX reg true` for every input; `processAll_provenance`: `BuiltX reg false`
on an error-free run; `namespace_placedBy_dev`: the provenance theorem for it.  Read-only after a
deviation: `deviate_config_reflected` (which config the statement leaves on the target),
`deviate_readOnly_target` and `processAll_namespace_readOnly` (`ReadOnly()` is the rule on the returned
tree, so a written config is the node's explicit config from then on).

The namespace an augment of tree `id` stamps with is computed once per `Entry.Augment` call from the
root of tree `id`; it is `ownerNs reg id` because that tree exists — C04's invariant "the tree of
every (sub)module with pending augments exists" is part of the threaded invariant.  `FixChoice`
needs the path translation `liftPath` to be one-to-one on existing paths (`liftPath_injective`).
Not proved: the literal `Built`-style class for runs WITH deviations whose path lookup creates an rpc
input / output (there the class is `BuiltX`, which keeps `implicit` and `congr` as constructors); hypotheses
of the `processAll_*` theorems cannot be instantiated by `decide` on a module set with an augment or a
deviation (`String.splitOn` does not reduce in the kernel): the examples use C04's module and explicit trees.
-/
namespace Goyang.Props.C12Bridge
open Goyang.Model Goyang.Spec.ConfigNs
open Goyang.Lemmas.Bridge

/-- Every `Built` forest is `Built'`, with the same provenance. -/
theorem built_is_builtPrime {reg : Registry} {f : Forest} {prov : Loc → Option Nat} (h : Built reg f prov) :
    Built' reg f prov := Built.toBuilt' h

/-- **Namespace attribution** (C12's `namespace_placedBy`) **for `Built'`**: in any forest built by
conversion, grafts, `FixChoice` and the stamp-free steps of the augment loop, a node placed by the
text of (sub)module `m` reports the namespace of the module `m` belongs to. -/
theorem namespace_placedBy_prime {reg : Registry} {f : Forest} {prov : Loc → Option Nat} (hb : Built' reg f prov)
    (loc : Loc) (m : Nat) (root : Entry) (hroot : f.tree? loc.1 = some root) (hp : prov loc = some m) :
    namespaceAt reg f loc = ownerNs reg m :=
  built'_namespace hb loc m (by rw [hroot]; rfl) hp

/-- `Find` keeps a forest `Built'`, with the same provenance, whatever path it is asked — including
the paths on which it creates an absent rpc input / output, and those whose first prefix cannot be
resolved (error on the root of the start tree). -/
theorem find_keeps_builtPrime {reg : Registry} {f : Forest} {prov : Loc → Option Nat} (hb : Built' reg f prov)
    (start : Loc) (ctx : Nat) (name : String) : Built' reg (find reg f start ctx name).2 prov :=
  built'_find hb start ctx name

/-- The translation of paths by `FixChoice` is one-to-one on the paths that exist in the tree. -/
theorem liftPath_injective (e : Entry) (p p' : Path) (h : (e.getAt p).isSome = true) (h' : (e.getAt p').isSome = true)
    (heq : liftPath e p = liftPath e p') : p = p' :=
  liftPath_inj p e p' h h' heq

/-- One `Entry.Augment` call keeps the invariant of the augment stage: the forest is `Built'`, the
children of the pending augment entries are stamp-free, the tree of every (sub)module with pending
augments exists. -/
theorem augmentTree_keeps_builtPrime (reg : Registry) (id : Nat) (addErrors : Bool) (s : PState) (h : BI reg s) :
    BI reg (augmentTree reg id addErrors s).1 :=
  augmentTree_bi reg id addErrors s h

/-- So does the loop, for every fuel and module order. -/
theorem augmentLoop_keeps_builtPrime (reg : Registry) (fuel : Nat) (mods : Array Nat) (s : PState) (h : BI reg s) :
    BI reg (augmentLoop reg fuel mods s).2 :=
  augmentLoop_bi reg fuel mods s h

/-- The invariant holds where `processAll` starts the augment phase (C12's
`conversion_forest_built` + C04's "the tree of every module with augments exists"). -/
theorem phaseStart_builtPrime (reg : Registry) (opts : Opts) (plug : Plug) : BI reg (Lemmas.Tree.pstate0 reg opts plug) :=
  bi_pstate0 reg opts plug

/-- **The forest `processAll` applies its deviations to is `Built'`**: through the augment loop,
`FixChoice`, the retry rounds, the reporting sweep and the last `FixChoice` — for every registry, option set and
plugged-in type / identity / typedef stage. -/
theorem preDev_builtPrime (reg : Registry) (opts : Opts) (plug : Plug) :
    ∃ prov, Built' reg (Lemmas.Tree.preDev reg opts plug).forest prov :=
  (bi_preDev reg opts plug).built

/-- Without deviation statements the deviation stage does nothing. -/
theorem devStage_no_deviations (reg : Registry) (opts : Opts) (plug : Plug) (f0 : Forest)
    (hnd : ∀ m ∈ reg.mods, m.stmt.all "deviation" = []) :
    (Lemmas.Tree.devStage reg opts plug f0).1 = f0 := by
  unfold Lemmas.Tree.devStage
  refine Lemmas.Tree.foldl_inv (fun acc : Forest × List Err × List String => acc.1 = f0) _ _ _ rfl ?_
  rintro ⟨f, errs, done⟩ m hm hP
  dsimp only at hP ⊢
  split
  · exact hP
  · dsimp only
    have hmem : m ∈ reg.mods := by
      unfold Lemmas.Tree.keyOrder at hm
      simp only [List.mem_append, List.mem_filterMap] at hm
      rcases hm with ⟨kv, _, h⟩ | ⟨kv, _, h⟩ <;> exact List.mem_of_find?_eq_some h
    rw [hnd m hmem]
    simp only [List.map_nil, applyDeviations, List.foldl_nil]
    exact hP

/-- **C12's end-to-end statement** (`C12.processAll_built_statement`) **with `Built'`**: the forest
of an error-free `processAll` run without deviations is `Built'`, so every node of it that some
module's text placed reports that module's namespace (`namespace_placedBy_prime`). -/
theorem processAll_builtPrime (reg : Registry) (opts : Opts) (plug : Plug)
    (hclean : (processAll reg opts plug).errors = [])
    (hnd : ∀ m ∈ reg.mods, m.stmt.all "deviation" = []) :
    ∃ prov, Built' reg (processAll reg opts plug).forest prov := by
  obtain ⟨_, _, _, _, h5⟩ := Lemmas.Tree.processAll_clean reg opts plug hclean
  rw [h5, devStage_no_deviations reg opts plug _ hnd]
  exact preDev_builtPrime reg opts plug

/-! ### the deviation stage, and the error-free run -/
section Dev
open Goyang.Lemmas.ConfigNsDev (BuiltX Removed RootsClean)

/-- Every `Built'` forest is `BuiltX` (root errors allowed), with the same provenance.  `BuiltX reg ae`
(Lemmas/ConfigNsDev.lean) is `Built'` with the two steps of the deviation stage — `retouch`: the
deviated copy of the target is written back (same children, stamp, name, errors); `remove`: `deviate
not-supported` unlinks the target, the removed locations lose their placer — and with the error
recording step `rootErr` available only when `ae = true`. -/
theorem builtPrime_is_builtX {reg : Registry} {f : Forest} {prov : Loc → Option Nat} (h : Built' reg f prov) :
    BuiltX reg true f prov := Goyang.Lemmas.ConfigNsDev.Built'.toBuiltX h

/-- **Namespace attribution** (C12's `namespace_placedBy`) **through augments, `FixChoice` and
deviations**: in any `BuiltX` forest a location placed by the text of (sub)module `m` — and not removed
by a `deviate not-supported` — reports the namespace of the module `m` belongs to.  A deviation moves
no node and writes no stamp: the deviated node keeps the placer (and namespace) it had. -/
theorem namespace_placedBy_dev {reg : Registry} {ae : Bool} {f : Forest} {prov : Loc → Option Nat}
    (hb : BuiltX reg ae f prov) (loc : Loc) (m : Nat) (root : Entry) (hroot : f.tree? loc.1 = some root)
    (hp : prov loc = some m) : namespaceAt reg f loc = ownerNs reg m :=
  Goyang.Lemmas.ConfigNsDev.builtX_namespace hb loc m (by rw [hroot]; rfl) hp

/-- **On an error-free run the error-recording steps are absent.**  Errors recorded on a root entry
are never removed (a graft on the root appends to them, every other step leaves the root's own error
list alone); so a forest built with `rootErr` steps allowed whose visible roots carry no error was
built without one: it is `BuiltX reg false`.  (`Built'`'s other two extra steps — `Find` creating an
absent rpc input / output, storing back an unchanged tree — do occur on error-free runs; they write no
stamp and keep the provenance: the created input / output inherits the rpc's namespace.) -/
theorem builtX_of_clean {reg : Registry} {f : Forest} {prov : Loc → Option Nat} (hb : BuiltX reg true f prov)
    (hc : ∀ id t, f.tree? id = some t → t.d.errors = []) : BuiltX reg false f prov :=
  Goyang.Lemmas.ConfigNsDev.builtX_clean hb hc

/-- **The deviation stage keeps a forest `BuiltX`** — every registry, option set, plug and start
forest; deviations that apply, fail, or remove nodes included. -/
theorem devStage_keeps_builtX (reg : Registry) (opts : Opts) (plug : Plug) (f0 : Forest)
    (hb : ∃ prov, BuiltX reg true f0 prov) :
    ∃ prov, BuiltX reg true (Lemmas.Tree.devStage reg opts plug f0).1 prov :=
  Goyang.Lemmas.ConfigNsDev.devStage_builtX reg opts plug f0 hb

/-- **The forest `processAll` ends with** (whenever it reaches the augment phase; clean or not,
deviations or not) **is `BuiltX`**: conversion, augment loop, `FixChoice`, retry rounds, reporting
sweep, last `FixChoice`, deviation stage. -/
theorem final_builtX (reg : Registry) (opts : Opts) (plug : Plug) :
    ∃ prov, BuiltX reg true (Lemmas.Tree.devStage reg opts plug (Lemmas.Tree.preDev reg opts plug).forest).1 prov :=
  Goyang.Lemmas.ConfigNsDev.final_builtX reg opts plug

/-- **C12's end-to-end statement, deviations included**: the forest of an error-free `processAll`
run is `BuiltX reg false` — built by conversion, grafts, `FixChoice`, implicit rpc input / output
creation, write-back of deviated nodes and removal of not-supported ones; no error recording step. -/
theorem processAll_provenance (reg : Registry) (opts : Opts) (plug : Plug)
    (hclean : (processAll reg opts plug).errors = []) :
    ∃ prov, BuiltX reg false (processAll reg opts plug).forest prov :=
  Goyang.Lemmas.ConfigNsDev.processAll_builtX_clean reg opts plug hclean

/-- **End to end, on `processAll`.**  For an error-free run — deviations included — there is a
provenance `prov` of the returned forest (derived by `BuiltX reg false`: initial nodes placed by their
tree's module, grafted nodes by the module of the augment, library-inserted cases and removed
locations by nobody) such that for every tree and every path of it:
* a location with a placer `m` reports the namespace of the module `m` belongs to;
* `ReadOnly()` is what the nearest decisive node on the path of the *returned* tree says — so a config
  written by a deviation is the explicit config of that node from then on — and, under the property's
  exclusion, the property's rule. -/
theorem processAll_namespace_readOnly (reg : Registry) (opts : Opts) (plug : Plug)
    (hclean : (processAll reg opts plug).errors = []) :
    ∃ prov, BuiltX reg false (processAll reg opts plug).forest prov ∧
      ∀ (loc : Loc) (root : Entry), (processAll reg opts plug).forest.tree? loc.1 = some root →
        (∀ m, prov loc = some m → namespaceAt reg (processAll reg opts plug).forest loc = ownerNs reg m) ∧
        root.readOnlyAt loc.2 = readOnlyExact (configsAlong root loc.2) ∧
        (NoConfigTrueBelowOutput (configsAlong root loc.2) → root.readOnlyAt loc.2 = readOnly (configsAlong root loc.2)) := by
  obtain ⟨prov, hb⟩ := processAll_provenance reg opts plug hclean
  exact ⟨prov, hb, fun loc root hroot =>
    ⟨fun m hp => namespace_placedBy_dev hb loc m root hroot hp, C12.readOnly_exact root loc.2,
      fun h => C12.readOnly_spec root loc.2 h⟩⟩

/-- **What a deviate statement does to the config of its target**: `add` / `replace` with a `config`
substatement write that value; `delete` with one erases the node's config statement; `not-supported`,
an unknown kind, and a statement without `config` leave it alone.  (The statement's other effects do not
touch the config, whether or not they are reported.) -/
theorem deviate_config_reflected (opts : Opts) (ms : Stmt) (kind : String) (spec : Entry) (hp : Bool) (node : Entry) :
    (applyOneDeviate opts ms kind spec hp node).1.d.config =
      match Goyang.Lemmas.Deviate.kindOf kind with
      | .add | .replace => if spec.d.config != .unset then spec.d.config else node.d.config
      | .delete => if spec.d.config != .unset then .unset else node.d.config
      | _ => node.d.config :=
  Goyang.Lemmas.ConfigNsDev.applyOneDeviate_config opts ms kind spec hp node

/-- **The read-only clause after a deviation.**  The deviation stage writes the deviated copy `node'`
of the target back at its path; the property demands that from then on the written config is that
node's explicit config: `ReadOnly()` of the target is `node'`'s config (if it has one and is no rpc
output — config inside operations is outside the property), and every node below without a config of
its own inherits it (`processAll_namespace_readOnly`: `ReadOnly()` is the rule evaluated on the path of
the *returned* tree). -/
theorem deviate_readOnly_target (root : Entry) (path : Path) (node node' : Entry) (hg : root.getAt path = some node)
    (hname : node'.name = node.name) (hc : node'.d.config ≠ .unset) (hk : node'.d.kind ≠ .output) :
    (root.updateAt path fun _ => node').readOnlyAt path = (node'.d.config == .false_) := by
  have hst : Goyang.Lemmas.Deviate.NameStable path (fun _ => node') :=
    Goyang.Lemmas.Deviate.NameStable.of_pathNamed
      (Goyang.Lemmas.Deviate.pathNamed_step hname (Goyang.Lemmas.Deviate.pathNamed_of_getAt path root node hg))
  refine Goyang.Lemmas.ConfigNsDev.readOnlyAt_explicit _ path node' ?_ hc hk
  rw [Goyang.Lemmas.Deviate.getAt_updateAt_self _ path hst root, hg]; rfl

end Dev

/-! ### the literal `Built`: the composition gap closed -/
section Literal
open Goyang.Lemmas.ConfigNsBuilt (BuiltU BD Dirty)
open Goyang.Lemmas.ConfigNsComm (SlotEmpty)
open Goyang.Lemmas.Tree (U PathOK)

/-- `BuiltU` (Lemmas/ConfigNsBuilt.lean) is `Built` with side conditions recorded at each step — the
tree a graft goes into and the grafted entry have their children under pairwise different non-empty
names (`U`), the graft path has no empty name (`PathOK`), the target is no rpc; the trees `FixChoice` is
applied to satisfy `U`.  Every `BuiltU` forest is `Built`, with the same provenance. -/
theorem builtU_is_built {reg : Registry} {f : Forest} {prov : Loc → Option Nat} (h : BuiltU reg f prov) :
    Built reg f prov := h.toBuilt

/-- `Find` stores the tree it walked back into the forest even when nothing changed: `BuiltU` is closed
under that (the literal forest equality, not only the `tree?` answers), provenance unchanged. -/
theorem builtU_closed_store {reg : Registry} {f : Forest} {prov : Loc → Option Nat} (hb : BuiltU reg f prov)
    (t : Nat) (root : Entry) (ht : f.tree? t = some root) : BuiltU reg (f.setTree t root) prov :=
  Goyang.Lemmas.ConfigNsBuilt.builtU_store hb t root ht

/-- **`Find` creating an absent rpc input / output keeps a forest `BuiltU`** (hence `Built`): the
creation, at a proper existing path of any tree, at an rpc / action node that lacks the input (output),
commutes back through every earlier graft — into the tree grafted into or, when it happens inside a
child the graft added, into the grafted entry — and through every earlier `FixChoice`, down to the
conversion, where it meets a stamp-free tree.  The created node carries no stamp. -/
theorem builtU_closed_implicit {reg : Registry} {f : Forest} {prov : Loc → Option Nat} (hb : BuiltU reg f prov)
    (t : Nat) (root e : Entry) (p : Path) (b : Bool) (ht : f.tree? t = some root) (hg : root.getAt p = some e)
    (hr : e.d.isRpc = true) (hp : PathOK p) (he : SlotEmpty b e) :
    ∃ prov', Built reg (f.setTree t (root.updateAt p (Goyang.Spec.Find.addImplicit b))) prov' := by
  obtain ⟨prov', h⟩ := Goyang.Lemmas.ConfigNsBuilt.builtU_implicit hb t root e p b ht hg hr hp he
  exact ⟨prov', h.toBuilt⟩

/-- **The forest `processAll` applies its deviations to is `Built`, or some root carries an error** —
every registry, option set and plug.  (Errors recorded on a root are never removed: the third extra
step of `Built'` shows in the result.) -/
theorem preDev_built_or_rootError (reg : Registry) (opts : Opts) (plug : Plug) :
    (∃ prov, Built reg (Lemmas.Tree.preDev reg opts plug).forest prov) ∨
    (∃ t root, (Lemmas.Tree.preDev reg opts plug).forest.tree? t = some root ∧ root.d.errors ≠ []) := by
  rcases (Goyang.Lemmas.ConfigNsBuilt.bj_preDev reg opts plug).main with ⟨prov, hb⟩ | hd
  · exact Or.inl ⟨prov, hb.toBuilt⟩
  · exact Or.inr hd

/-- **C12's end-to-end statement, proved** (`C12.processAll_built_statement`): the forest of an
error-free `processAll` run without deviations is `Built` — conversion (`init`: every node of tree `id`
placed by (sub)module `id`), one `graft` per applied augment (the added children and everything below
them placed by the augmenting (sub)module), `FixChoice` (`fix`: placers kept under the path
translation, inserted cases placed by nobody).  The steps of the augment loop that `Built` has no
constructor for are accounted for: no error was recorded on a root (the run is error-free and such
errors stay), trees stored back unchanged change nothing, and every rpc input / output `Find` created
on the way is moved back to the conversion (`builtU_closed_implicit`). -/
theorem processAll_built : C12.processAll_built_statement := by
  intro reg opts plug hclean hnd
  obtain ⟨_, _, h3, _, h5⟩ := Lemmas.Tree.processAll_clean reg opts plug hclean
  rw [h5, devStage_no_deviations reg opts plug _ hnd]
  exact Goyang.Lemmas.ConfigNsBuilt.preDev_built_of_clean reg opts plug h3

/-- The same for the forest before the deviation stage, deviations or not. -/
theorem preDev_built_clean (reg : Registry) (opts : Opts) (plug : Plug)
    (hclean : (processAll reg opts plug).errors = []) :
    ∃ prov, Built reg (Lemmas.Tree.preDev reg opts plug).forest prov := by
  obtain ⟨_, _, h3, _, _⟩ := Lemmas.Tree.processAll_clean reg opts plug hclean
  exact Goyang.Lemmas.ConfigNsBuilt.preDev_built_of_clean reg opts plug h3

/-- **Namespace attribution, end to end, with the literal `Built`**: in the forest of an error-free
`processAll` run without deviations, every location placed by (sub)module `m` — a node of `m`'s own
tree, grouping content at any depth included, or a node grafted by one of `m`'s augments — reports the
namespace of the module `m` belongs to. -/
theorem processAll_namespace_placedBy (reg : Registry) (opts : Opts) (plug : Plug)
    (hclean : (processAll reg opts plug).errors = [])
    (hnd : ∀ m ∈ reg.mods, m.stmt.all "deviation" = []) :
    ∃ prov, Built reg (processAll reg opts plug).forest prov ∧
      ∀ (loc : Loc) (m : Nat) (root : Entry), (processAll reg opts plug).forest.tree? loc.1 = some root →
        prov loc = some m → namespaceAt reg (processAll reg opts plug).forest loc = ownerNs reg m := by
  obtain ⟨prov, hb⟩ := processAll_built reg opts plug hclean hnd
  exact ⟨prov, hb, fun loc m root hroot hp => C12.namespace_placedBy hb loc m root hroot hp⟩

end Literal

/-! ### non-vacuity -/
section Examples
open Goyang.Props.C04.Ex

/-- C04's example module satisfies the hypotheses of `processAll_builtPrime`. -/
example : (processAll reg1 {} plug).errors = [] ∧ (∀ m ∈ reg1.mods, m.stmt.all "deviation" = []) := by decide +kernel

/-- The two new stamp-free constructors on a concrete forest: an rpc without written input; `Find`
creates it, the forest stays `Built'` with the provenance it had, and the created node reports the
namespace of the tree's module. -/
example :
    let rpc : Entry := .mk { name := "r", isRpc := true } [] [] []
    let root : Entry := .mk { name := "m" } [rpc] [] []
    let f : Forest := { trees := [(0, root)] }
    let f' : Forest := f.setTree 0 (root.updateAt [.child "r"] (Goyang.Spec.Find.addImplicit true))
    ∀ reg : Registry, Built' reg f' (fun loc => some loc.1) ∧
      namespaceAt reg f' (0, [.child "r", .input]) = ownerNs reg 0 := by
  intro rpc root f f' reg
  have hb : Built' reg f (fun loc => some loc.1) := Built'.init (by
    intro id t h
    have : t = root := by
      simp only [f, Forest.tree?, List.find?] at h
      split at h
      · simpa using h.symm
      · cases h
    subst this; decide)
  have hb' : Built' reg f' (fun loc => some loc.1) :=
    Built'.implicit (t := 0) (root := root) (e := rpc) (p := [.child "r"]) true hb (by rfl) (by rfl)
      (by rw [if_pos rfl]; rfl)
  exact ⟨hb', built'_namespace hb' (0, [.child "r", .input]) 0 (by rfl) rfl⟩

/-- C04's example module satisfies the hypotheses of `processAll_built`, `processAll_namespace_placedBy`,
`preDev_built_clean`, `processAll_provenance` and `processAll_namespace_readOnly`; so its forest is `Built`. -/
example : ∃ prov, Built reg1 (processAll reg1 {} plug).forest prov :=
  processAll_built reg1 {} plug (by decide +kernel) (by decide +kernel)

/-- The commutation on a concrete forest: module tree with an rpc `r` that has no written input and a
container `c`; an augment grafts a leaf under `c`; then `Find` creates the input of `r`.  The hypotheses
of `builtU_closed_implicit` hold, and the resulting forest is `Built`: the creation is moved back before
the graft. -/
example :
    let rpc : Entry := .mk { name := "r", isRpc := true } [] [] []
    let cont : Entry := .mk { name := "c" } [] [] []
    let root : Entry := .mk { name := "m" } [rpc, cont] [] []
    let aug : Entry := .mk { name := "/c" } [.mk { name := "x", kind := .leaf, hasDir := false } [] [] []] [] []
    let f : Forest := { trees := [(0, root)] }
    ∀ reg : Registry,
      let root' := root.updateAt [.child "c"] fun te => te.merge (some (ownerNs reg 0)) aug
      ∃ prov', Built reg ((f.setTree 0 root').setTree 0 (root'.updateAt [.child "r"] (Goyang.Spec.Find.addImplicit true))) prov' := by
  intro rpc cont root aug f reg root'
  have h0 : Goyang.Lemmas.ConfigNsBuilt.BuiltU reg f (fun loc => some loc.1) :=
    Goyang.Lemmas.ConfigNsBuilt.BuiltU.init (by
      intro id t h
      have : t = root := by
        simp only [f, Forest.tree?, List.find?] at h
        split at h
        · simpa using h.symm
        · cases h
      subst this; decide)
  have h1 : Goyang.Lemmas.ConfigNsBuilt.BuiltU reg (f.setTree 0 root') (fun loc => some loc.1) :=
    Goyang.Lemmas.ConfigNsBuilt.BuiltU.graft (by_ := 0) (t := 0) (path := [.child "c"]) (root := root) (te := cont)
      (a := aug) (prov := fun loc => some loc.1) h0 (by rfl) (by rfl) (by decide) (by unfold Goyang.Lemmas.Tree.U; decide)
      (fun k hk => by simp only [List.mem_singleton, Step.child.injEq] at hk; subst hk; decide) rfl
      (by unfold Goyang.Lemmas.Tree.U; decide)
      (fun loc h => by rw [h.1]) (fun loc _ => rfl)
  exact builtU_closed_implicit h1 0 root' rpc [.child "r"] true (by rfl) (by rfl) rfl
    (fun k hk => by simp only [List.mem_singleton, Step.child.injEq] at hk; subst hk; decide) rfl

/-- The two constructors of the deviation stage on a concrete forest: `deviate replace { config false; }`
on the leaf `/c/x` (`retouch`: the placer stays, the namespace stays, `ReadOnly()` follows the written
config) and `deviate not-supported` on `/c/y` (`remove`: the removed location has no placer). -/
example :
    let x : Entry := .mk { name := "x", kind := .leaf, hasDir := false } [] [] []
    let x' : Entry := .mk { name := "x", kind := .leaf, hasDir := false, config := .false_ } [] [] []
    let y : Entry := .mk { name := "y", kind := .leaf, hasDir := false } [] [] []
    let root : Entry := .mk { name := "m" } [.mk { name := "c" } [x, y] [] []] [] []
    let f : Forest := { trees := [(0, root)] }
    let root1 := root.updateAt [.child "c", .child "x"] fun _ => x'
    let f1 := f.setTree 0 root1
    let f2 := f1.setTree 0 (removeAt root1 [.child "c", .child "y"])
    ∀ reg : Registry, ∃ prov, Goyang.Lemmas.ConfigNsDev.BuiltX reg false f2 prov ∧
      prov (0, [.child "c", .child "x"]) = some 0 ∧ prov (0, [.child "c", .child "y"]) = none ∧
      namespaceAt reg f2 (0, [.child "c", .child "x"]) = ownerNs reg 0 ∧
      root.readOnlyAt [.child "c", .child "x"] = false ∧
      (removeAt root1 [.child "c", .child "y"]).readOnlyAt [.child "c", .child "x"] = true := by
  intro x x' y root f root1 f1 f2 reg
  classical
  have h0 : Goyang.Lemmas.ConfigNsDev.BuiltX reg false f (fun loc => some loc.1) :=
    Goyang.Lemmas.ConfigNsDev.BuiltX.init (by
      intro id t h
      have : t = root := by
        simp only [f, Forest.tree?, List.find?] at h
        split at h
        · simpa using h.symm
        · cases h
      subst this; decide)
  have h1 : Goyang.Lemmas.ConfigNsDev.BuiltX reg false f1 (fun loc => some loc.1) :=
    Goyang.Lemmas.ConfigNsDev.BuiltX.retouch (t := 0) (root := root) (node := x) (node' := x')
      (path := [.child "c", .child "x"]) h0 (by rfl) (by rfl) rfl rfl rfl rfl rfl rfl
  have h2 : Goyang.Lemmas.ConfigNsDev.BuiltX reg false f2
      (fun loc => if Goyang.Lemmas.ConfigNsDev.Removed 0 [.child "c", .child "y"] loc then none else some loc.1) :=
    Goyang.Lemmas.ConfigNsDev.BuiltX.remove (t := 0) (root := root1) (path := [.child "c", .child "y"])
      h1 (by rfl) (by simp) (by decide) (fun loc h => by simp only [h, if_true]) (fun loc h => by simp only [h, if_false])
  have hx : ¬ Goyang.Lemmas.ConfigNsDev.Removed 0 [.child "c", .child "y"] (0, [.child "c", .child "x"]) := by
    rintro ⟨_, h⟩
    have := (List.cons_prefix_cons.mp h).2
    have := (List.cons_prefix_cons.mp this).1
    revert this; decide
  have hy : Goyang.Lemmas.ConfigNsDev.Removed 0 [.child "c", .child "y"] (0, [.child "c", .child "y"]) :=
    ⟨rfl, List.prefix_refl _⟩
  refine ⟨_, h2, by simp only [hx, if_false], by simp only [hy, if_true], ?_, by decide, by decide⟩
  exact namespace_placedBy_dev h2 (0, [.child "c", .child "x"]) 0 _ (by rfl) (by simp only [hx, if_false])

/-- The hypotheses of `deviate_readOnly_target` on the same tree: `/c/x` gets `config false`. -/
example :
    let x : Entry := .mk { name := "x", kind := .leaf, hasDir := false } [] [] []
    let x' : Entry := .mk { name := "x", kind := .leaf, hasDir := false, config := .false_ } [] [] []
    let root : Entry := .mk { name := "m" } [.mk { name := "c" } [x] [] []] [] []
    (root.updateAt [.child "c", .child "x"] fun _ => x').readOnlyAt [.child "c", .child "x"] = true ∧
      root.readOnlyAt [.child "c", .child "x"] = false := by
  intro x x' root
  exact ⟨deviate_readOnly_target root [.child "c", .child "x"] x x' (by rfl) rfl (by decide) (by decide), by decide⟩

end Examples

end Goyang.Props.C12Bridge
