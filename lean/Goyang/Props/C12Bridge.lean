import Goyang.Lemmas.BridgeBuilt
import Goyang.Lemmas.ConfigNsDev
import Goyang.Props.C12
import Goyang.Props.C12Conv
import Goyang.Props.C04
/-
C12, bridge to `processAll` — the composition Props/C12.lean keeps visible as
`processAll_built_statement` ("Missing: threading these through `augmentLoop`/`augmentPass` …,
`Find` creating an absent rpc input/output, error recording on the root").

`Built'` (Lemmas/BridgeBuilt.lean) is `Spec.ConfigNs.Built` with the steps of the augment loop that
write no stamp, each leaving the provenance as it is:
  `rootErr`  — an error recorded on the root entry of a tree (`Find`: unresolvable prefix;
               `Entry.Augment` with `addErrors`: `augment-not-found`);
  `implicit` — `Find` creating the input / output an rpc / action did not spell out;
  `congr`    — a forest with the same `tree?` answers (`Find` stores the tree it walked back into
               the forest even when nothing changed; nothing ever reads a forest but through `tree?`).
Every `Built` forest is `Built'`; C12's provenance theorem holds for `Built'` (`namespace_placedBy_prime`);
and `Built'` is threaded through `augmentTree`, `augmentPass`, `augmentLoop`, `FixChoice`, the leftover
pass and the second `FixChoice`: the forest `processAll` applies its deviations to is `Built'`
(`preDev_builtPrime`, for every registry, option set and plugged-in stage), hence so is the forest an
error-free `processAll` returns when no loaded module has a deviation statement
(`processAll_builtPrime`: C12's end-to-end statement with `Built'` for `Built`).

The namespace an augment of tree `id` stamps with is computed once per `Entry.Augment` call from the
root of tree `id`; it is `ownerNs reg id` because that tree exists — C04's invariant "the tree of
every (sub)module with pending augments exists" is part of the threaded invariant.  `FixChoice`
needs the path translation `liftPath` to be one-to-one on existing paths (`liftPath_injective`).
Not covered: the deviation stage (replaces node data, removes nodes, writes no stamp).
-/
namespace Goyang.Props.C12Bridge
open Goyang.Model Goyang.Spec.ConfigNs
open Goyang.Lemmas.Bridge

/-- Every `Built` forest is `Built'`, with the same provenance. -/
theorem built_is_builtPrime {reg : Registry} {f : Forest} {prov : Loc → Option Nat} (h : Built reg f prov) :
    Built' reg f prov := Built.toBuilt' h

/-- **Namespace attribution** (C12's `namespace_placedBy`) **for `Built'`**: in any forest built by
conversion, grafts, `FixChoice` and the stamp-free steps of the augment loop, a node placed by the
text of (sub)module `m` reports the namespace of the module `m` belongs to. -/
theorem namespace_placedBy_prime {reg : Registry} {f : Forest} {prov : Loc → Option Nat} (hb : Built' reg f prov)
    (loc : Loc) (m : Nat) (root : Entry) (hroot : f.tree? loc.1 = some root) (hp : prov loc = some m) :
    namespaceAt reg f loc = ownerNs reg m :=
  built'_namespace hb loc m (by rw [hroot]; rfl) hp

/-- `Find` keeps a forest `Built'`, with the same provenance, whatever path it is asked — including
the paths on which it creates an absent rpc input / output, and those whose first prefix cannot be
resolved (error on the root of the start tree). -/
theorem find_keeps_builtPrime {reg : Registry} {f : Forest} {prov : Loc → Option Nat} (hb : Built' reg f prov)
    (start : Loc) (ctx : Nat) (name : String) : Built' reg (find reg f start ctx name).2 prov :=
  built'_find hb start ctx name

/-- The translation of paths by `FixChoice` is one-to-one on the paths that exist in the tree. -/
theorem liftPath_injective (e : Entry) (p p' : Path) (h : (e.getAt p).isSome = true) (h' : (e.getAt p').isSome = true)
    (heq : liftPath e p = liftPath e p') : p = p' :=
  liftPath_inj p e p' h h' heq

/-- One `Entry.Augment` call keeps the invariant of the augment stage: the forest is `Built'`, the
children of the pending augment entries are stamp-free, the tree of every (sub)module with pending
augments exists. -/
theorem augmentTree_keeps_builtPrime (reg : Registry) (id : Nat) (addErrors : Bool) (s : PState) (h : BI reg s) :
    BI reg (augmentTree reg id addErrors s).1 :=
  augmentTree_bi reg id addErrors s h

/-- So does the loop, for every fuel and module order. -/
theorem augmentLoop_keeps_builtPrime (reg : Registry) (fuel : Nat) (mods : Array Nat) (s : PState) (h : BI reg s) :
    BI reg (augmentLoop reg fuel mods s).2 :=
  augmentLoop_bi reg fuel mods s h

/-- The invariant holds where `processAll` starts the augment phase (C12's
`conversion_forest_built` + C04's "the tree of every module with augments exists"). -/
theorem phaseStart_builtPrime (reg : Registry) (opts : Opts) (plug : Plug) : BI reg (Lemmas.Tree.pstate0 reg opts plug) :=
  bi_pstate0 reg opts plug

/-- **The forest `processAll` applies its deviations to is `Built'`**: through the augment loop,
`FixChoice`, the leftover pass and the second `FixChoice` — for every registry, option set and
plugged-in type / identity / typedef stage. -/
theorem preDev_builtPrime (reg : Registry) (opts : Opts) (plug : Plug) :
    ∃ prov, Built' reg (Lemmas.Tree.preDev reg opts plug).forest prov :=
  (bi_preDev reg opts plug).built

/-- Without deviation statements the deviation stage does nothing. -/
theorem devStage_no_deviations (reg : Registry) (opts : Opts) (plug : Plug) (f0 : Forest)
    (hnd : ∀ m ∈ reg.mods, m.stmt.all "deviation" = []) :
    (Lemmas.Tree.devStage reg opts plug f0).1 = f0 := by
  unfold Lemmas.Tree.devStage
  refine Lemmas.Tree.foldl_inv (fun acc : Forest × List Err × List String => acc.1 = f0) _ _ _ rfl ?_
  rintro ⟨f, errs, done⟩ m hm hP
  dsimp only at hP ⊢
  split
  · exact hP
  · dsimp only
    have hmem : m ∈ reg.mods := by
      unfold Lemmas.Tree.keyOrder at hm
      simp only [List.mem_append, List.mem_filterMap] at hm
      rcases hm with ⟨kv, _, h⟩ | ⟨kv, _, h⟩ <;> exact List.mem_of_find?_eq_some h
    rw [hnd m hmem]
    simp only [List.map_nil, applyDeviations, List.foldl_nil]
    exact hP

/-- **C12's end-to-end statement** (`C12.processAll_built_statement`) **with `Built'`**: the forest
of an error-free `processAll` run without deviations is `Built'`, so every node of it that some
module's text placed reports that module's namespace (`namespace_placedBy_prime`). -/
theorem processAll_builtPrime (reg : Registry) (opts : Opts) (plug : Plug)
    (hclean : (processAll reg opts plug).errors = [])
    (hnd : ∀ m ∈ reg.mods, m.stmt.all "deviation" = []) :
    ∃ prov, Built' reg (processAll reg opts plug).forest prov := by
  obtain ⟨_, _, _, _, h5⟩ := Lemmas.Tree.processAll_clean reg opts plug hclean
  rw [h5, devStage_no_deviations reg opts plug _ hnd]
  exact preDev_builtPrime reg opts plug

/-! ### the deviation stage, and the error-free run -/
section Dev
open Goyang.Lemmas.ConfigNsDev (BuiltX Removed RootsClean)

/-- Every `Built'` forest is `BuiltX` (root errors allowed), with the same provenance.  `BuiltX reg ae`
(Lemmas/ConfigNsDev.lean) is `Built'` with the two steps of the deviation stage — `retouch`: the
deviated copy of the target is written back (same children, stamp, name, errors); `remove`: `deviate
not-supported` unlinks the target, the removed locations lose their placer — and with the error
recording step `rootErr` available only when `ae = true`. -/
theorem builtPrime_is_builtX {reg : Registry} {f : Forest} {prov : Loc → Option Nat} (h : Built' reg f prov) :
    BuiltX reg true f prov := Goyang.Lemmas.ConfigNsDev.Built'.toBuiltX h

/-- **Namespace attribution** (C12's `namespace_placedBy`) **through augments, `FixChoice` and
deviations**: in any `BuiltX` forest a location placed by the text of (sub)module `m` — and not removed
by a `deviate not-supported` — reports the namespace of the module `m` belongs to.  A deviation moves
no node and writes no stamp: the deviated node keeps the placer (and namespace) it had. -/
theorem namespace_placedBy_dev {reg : Registry} {ae : Bool} {f : Forest} {prov : Loc → Option Nat}
    (hb : BuiltX reg ae f prov) (loc : Loc) (m : Nat) (root : Entry) (hroot : f.tree? loc.1 = some root)
    (hp : prov loc = some m) : namespaceAt reg f loc = ownerNs reg m :=
  Goyang.Lemmas.ConfigNsDev.builtX_namespace hb loc m (by rw [hroot]; rfl) hp

/-- **On an error-free run the error-recording steps are absent.**  Errors recorded on a root entry
are never removed (a graft on the root appends to them, every other step leaves the root's own error
list alone); so a forest built with `rootErr` steps allowed whose visible roots carry no error was
built without one: it is `BuiltX reg false`.  (`Built'`'s other two extra steps — `Find` creating an
absent rpc input / output, storing back an unchanged tree — do occur on error-free runs; they write no
stamp and keep the provenance: the created input / output inherits the rpc's namespace.) -/
theorem builtX_of_clean {reg : Registry} {f : Forest} {prov : Loc → Option Nat} (hb : BuiltX reg true f prov)
    (hc : ∀ id t, f.tree? id = some t → t.d.errors = []) : BuiltX reg false f prov :=
  Goyang.Lemmas.ConfigNsDev.builtX_clean hb hc

/-- **The deviation stage keeps a forest `BuiltX`** — every registry, option set, plug and start
forest; deviations that apply, fail, or remove nodes included. -/
theorem devStage_keeps_builtX (reg : Registry) (opts : Opts) (plug : Plug) (f0 : Forest)
    (hb : ∃ prov, BuiltX reg true f0 prov) :
    ∃ prov, BuiltX reg true (Lemmas.Tree.devStage reg opts plug f0).1 prov :=
  Goyang.Lemmas.ConfigNsDev.devStage_builtX reg opts plug f0 hb

/-- **The forest `processAll` ends with** (whenever it reaches the augment phase; clean or not,
deviations or not) **is `BuiltX`**: conversion, augment loop, `FixChoice`, leftover pass, second
`FixChoice`, deviation stage. -/
theorem final_builtX (reg : Registry) (opts : Opts) (plug : Plug) :
    ∃ prov, BuiltX reg true (Lemmas.Tree.devStage reg opts plug (Lemmas.Tree.preDev reg opts plug).forest).1 prov :=
  Goyang.Lemmas.ConfigNsDev.final_builtX reg opts plug

/-- **C12's end-to-end statement, deviations included**: the forest of an error-free `processAll`
run is `BuiltX reg false` — built by conversion, grafts, `FixChoice`, implicit rpc input / output
creation, write-back of deviated nodes and removal of not-supported ones; no error recording step. -/
theorem processAll_provenance (reg : Registry) (opts : Opts) (plug : Plug)
    (hclean : (processAll reg opts plug).errors = []) :
    ∃ prov, BuiltX reg false (processAll reg opts plug).forest prov :=
  Goyang.Lemmas.ConfigNsDev.processAll_builtX_clean reg opts plug hclean

/-- **End to end, on `processAll`.**  For an error-free run — deviations included — there is a
provenance `prov` of the returned forest (derived by `BuiltX reg false`: initial nodes placed by their
tree's module, grafted nodes by the module of the augment, library-inserted cases and removed
locations by nobody) such that for every tree and every path of it:
* a location with a placer `m` reports the namespace of the module `m` belongs to;
* `ReadOnly()` is what the nearest decisive node on the path of the *returned* tree says — so a config
  written by a deviation is the explicit config of that node from then on — and, under the property's
  exclusion, the property's rule. -/
theorem processAll_namespace_readOnly (reg : Registry) (opts : Opts) (plug : Plug)
    (hclean : (processAll reg opts plug).errors = []) :
    ∃ prov, BuiltX reg false (processAll reg opts plug).forest prov ∧
      ∀ (loc : Loc) (root : Entry), (processAll reg opts plug).forest.tree? loc.1 = some root →
        (∀ m, prov loc = some m → namespaceAt reg (processAll reg opts plug).forest loc = ownerNs reg m) ∧
        root.readOnlyAt loc.2 = readOnlyExact (configsAlong root loc.2) ∧
        (NoConfigTrueBelowOutput (configsAlong root loc.2) → root.readOnlyAt loc.2 = readOnly (configsAlong root loc.2)) := by
  obtain ⟨prov, hb⟩ := processAll_provenance reg opts plug hclean
  exact ⟨prov, hb, fun loc root hroot =>
    ⟨fun m hp => namespace_placedBy_dev hb loc m root hroot hp, C12.readOnly_exact root loc.2,
      fun h => C12.readOnly_spec root loc.2 h⟩⟩

end Dev

/-! ### non-vacuity -/
section Examples
open Goyang.Props.C04.Ex

/-- C04's example module satisfies the hypotheses of `processAll_builtPrime`. -/
example : (processAll reg1 {} plug).errors = [] ∧ (∀ m ∈ reg1.mods, m.stmt.all "deviation" = []) := by decide +kernel

/-- The two new stamp-free constructors on a concrete forest: an rpc without written input; `Find`
creates it, the forest stays `Built'` with the provenance it had, and the created node reports the
namespace of the tree's module. -/
example :
    let rpc : Entry := .mk { name := "r", isRpc := true } [] [] []
    let root : Entry := .mk { name := "m" } [rpc] [] []
    let f : Forest := { trees := [(0, root)] }
    let f' : Forest := f.setTree 0 (root.updateAt [.child "r"] (Goyang.Spec.Find.addImplicit true))
    ∀ reg : Registry, Built' reg f' (fun loc => some loc.1) ∧
      namespaceAt reg f' (0, [.child "r", .input]) = ownerNs reg 0 := by
  intro rpc root f f' reg
  have hb : Built' reg f (fun loc => some loc.1) := Built'.init (by
    intro id t h
    have : t = root := by
      simp only [f, Forest.tree?, List.find?] at h
      split at h
      · simpa using h.symm
      · cases h
    subst this; decide)
  have hb' : Built' reg f' (fun loc => some loc.1) :=
    Built'.implicit (t := 0) (root := root) (e := rpc) (p := [.child "r"]) true hb (by rfl) (by rfl)
      (by rw [if_pos rfl]; rfl)
  exact ⟨hb', built'_namespace hb' (0, [.child "r", .input]) 0 (by rfl) rfl⟩

end Examples

end Goyang.Props.C12Bridge
