import Goyang.Props.C12
import Goyang.Lemmas.ConfigNsToEntry
/-
C12, conversion part (kept in a file of its own because its proof follows the text of
`Goyang.Model.toEntry`, see Lemmas/ConfigNsToEntry.lean): `ToEntry` writes no namespace stamp, so
the forest `Process` starts its augment phase from is `Built.init`: every node of a module's tree —
own body, bodies of included submodules, contents of used groupings at any depth, from whichever
module they come — is placed by that module and reports its namespace.
-/
namespace Goyang.Props.C12
open Goyang.Model
open Goyang.Spec.ConfigNs

/-- **ToEntry writes no stamp.**  For every fuel, node, scope and state: if the trees already in
the conversion caches (module entries, grouping entries, pending augments) are stamp-free, then
so are the returned tree and everything in the caches afterwards. -/
theorem toEntry_noStamp (env : Env) (fuel : Nat) (root : Mod) (scope : List Stmt) (n : Stmt)
    (visiting : List NodeId) (st : TState)
    (hst : (∀ x ∈ st.cache, noStamp x.2 = true) ∧ (∀ x ∈ st.gcache, noStamp x.2 = true) ∧
      (∀ x ∈ st.augs, noStampL x.2 = true)) :
    let r := toEntry env fuel root scope n visiting st
    noStamp r.1 = true ∧ (∀ x ∈ r.2.cache, noStamp x.2 = true) ∧ (∀ x ∈ r.2.gcache, noStamp x.2 = true) ∧
      (∀ x ∈ r.2.augs, noStampL x.2 = true) :=
  Lemmas.ConfigNsToEntry.toEntry_noStamp env fuel root scope n visiting st hst

/-- **The forest after the conversion phase of `Process` is `Built`** (constructor `init`), with
the provenance "everything in tree `id` is placed by (sub)module `id`"; and every pending augment
entry satisfies the premise of the `graft` constructor. `ms` is the list of modules and submodules
in conversion order, `{ trees := st.cache }` is the forest `processAll` continues with. -/
theorem conversion_forest_built (env : Env) (fuel : Nat) (ms : List Mod) :
    let st := ms.foldl (fun st m => (toEntry env fuel m [] m.stmt [] st).2) {}
    Built env.reg { trees := st.cache } (fun loc => some loc.1) ∧
    (∀ x ∈ st.augs, ∀ a ∈ x.2, noStampL a.dir = true) := by
  intro st
  have hst := Lemmas.ConfigNsToEntry.conversion_stOK env fuel ms
  refine ⟨Built.init ?_, ?_⟩
  · intro id t ht
    unfold Forest.tree? at ht
    simp only at ht
    cases hf : List.find? (fun x => x.1 == id) st.cache with
    | none => rw [hf] at ht; cases ht
    | some x =>
      rw [hf] at ht
      simp only [Option.map_some, Option.some.injEq] at ht
      have := hst.1 x (List.mem_of_find?_eq_some hf)
      rw [ht] at this
      exact ((Lemmas.ConfigNs.noStamp_iff t).mp this).2
  · intro x hx a ha
    exact Lemmas.ConfigNs.noStamp_dir a ((Lemmas.ConfigNs.noStampL_iff _).mp (hst.2.2 x hx) a ha)

/-- Consequently, before any augment is applied, every node of every tree reports the namespace
of its tree's module (the owner, for a submodule's tree): grouping content takes the namespace of
the module that uses it, not of the module that defines it — now as a statement about the model's
`toEntry`, for all module sets. -/
theorem converted_tree_namespace (env : Env) (fuel : Nat) (ms : List Mod) (id : Nat) (p : Path) (root : Entry) :
    let st := ms.foldl (fun st m => (toEntry env fuel m [] m.stmt [] st).2) {}
    Forest.tree? { trees := st.cache } id = some root →
    namespaceAt env.reg { trees := st.cache } (id, p) = ownerNs env.reg id := by
  intro st h
  exact namespace_placedBy (conversion_forest_built env fuel ms).1 (id, p) id root h rfl

end Goyang.Props.C12
