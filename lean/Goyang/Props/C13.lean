import Goyang.Model.Ctx
import Goyang.Model.File
import Goyang.Spec.Registry
import Goyang.Spec.File
import Goyang.Lemmas.Registry
import Goyang.Lemmas.File
/-
C13 — names bind to the right module revision (a); the file chooser (b).
(Part (c), "include = inline", is stated with the resolver model, not here.)

Property theorems only; helper lemmas are in Goyang/Lemmas/{StrOrd,Date,Registry,File}.lean.

Reading aid, part (a).  A *load* is the top-level statement of one module or submodule as the AST
builder hands it to `Modules.add`; `loadAll loads` runs `add` on each in order, into a fresh
`NewModules()`, and returns the final registry together with the error of every load (if any).
Of a load only its *header* matters: kind (module / submodule), name, and `Module.Current()` —
the latest of its revision statements, `""` when there is none (`header`).
`bound loads sub key` is the header of the module that `ms.Modules[key]` (`sub = false`) or
`ms.SubModules[key]` (`sub = true`) points to afterwards.  `Spec.Registry.denotes` says what a key
should denote, given only the *collection* of headers: `name@date` the header with that name
and date; the bare `name` the header of that name no other is later than, dates compared as
dates, a header without revision ranking below every date.

Names.  `Modules.add` refuses a module or submodule whose name contains `@` (repair of defect D61:
`@` separates name and revision-date in the table keys `name@date`, so such a name — never a
YANG identifier — could be taken for a revision of another module or the other way round,
depending on the load order).  Such a load is rejected wherever it stands and leaves no trace;
`loadable` drops these headers.  No theorem below needs a hypothesis on the names of the loads;
`bare_is_latest` and `exact_revision_when_loaded` speak about one loaded module and ask that *its*
name has no `@` (otherwise it is not loaded at all).

Dates.  `DatesOk`: `Current()` of every load is `""` or a well-formed `YYYY-MM-DD` (for anything
else "latest" has no meaning; the code then falls back to byte order of the strings, and the
theorems that do not mention dates — order independence, exact revision, duplicates — hold
without this hypothesis).
-/
namespace Goyang.Props.C13
open Goyang.Model Goyang.Spec.Registry
open Goyang.Lemmas.Registry (hdrOf lk NoAt Inv loadAll_specG denotesS denotesS_perm denotesS_eq_denotes
  den_of_denotesS denotesS_exact_of_mem denotesS_mem noAt_hdrs key_inj key_ne_name sLe_eq_revLe exists_max
  denotesS_ne_none_of_den findModule_eq lk_mem inj_of_nodup_map good noAt_filter_good map_hdr_filter_good
  good_of_noAt noAt_of_good toOutcome isSome_eq_toOutcome rejAfterG rejAfterG_eq rejAfterG_perm
  outcomesAfterG_getElem? add_accepts_only_ok_names loadAll_names_ok)
/- `header s`: the header of a load — kind, name, `Current()` (`Lemmas.Registry.hdr`);
`hdrOf m` the same of a loaded module. -/
open Goyang.Lemmas.Registry renaming hdr → header

/-! ## (a) registry -/

/-- Every load has no revision or a well-formed date as its latest revision. -/
def DatesOk (loads : List Stmt) : Prop := ∀ s ∈ loads, WellFormedRev (header s).rev

/-- The header of what `key` is bound to in `ms.Modules` / `ms.SubModules` after the loads. -/
def bound (loads : List Stmt) (sub : Bool) (key : String) : Option Header :=
  (lk (Registry.loadAll loads).1 sub key).map hdrOf

/-- The statement `key` is bound to after the loads. -/
def boundStmt (loads : List Stmt) (sub : Bool) (key : String) : Option Stmt :=
  (lk (Registry.loadAll loads).1 sub key).map (·.stmt)

/-- Per load, in order: accepted, rejected as a duplicate, or rejected for its name. -/
def loadOutcomes (loads : List Stmt) : List Outcome := (Registry.loadAll loads).2.map toOutcome

/-- Per load, in order: was it rejected (`Parse` returned an error)? -/
def rejectedFlags (loads : List Stmt) : List Bool := (Registry.loadAll loads).2.map Option.isSome

/-- The headers of the rejected loads, in load order. -/
def rejectedHeaders (loads : List Stmt) : List Header :=
  (((loads.map header).zip (rejectedFlags loads)).filter (·.2)).map (·.1)

instance (r : String) : Decidable (WellFormedRev r) := by unfold WellFormedRev; infer_instance
instance (loads : List Stmt) : Decidable (DatesOk loads) := by unfold DatesOk; infer_instance

theorem rejectedFlags_eq (loads : List Stmt) : rejectedFlags loads = (loadOutcomes loads).map (· != .ok) := by
  unfold rejectedFlags loadOutcomes
  rw [List.map_map]
  apply List.map_congr_left
  intro o _
  exact isSome_eq_toOutcome o

/-- **`add` accepts only names without `@`** — so every registry reached from a fresh
`NewModules()` by loads holds only such modules, whatever was offered. -/
theorem add_accepts_only_ok_names {r r' : Registry} {s : Stmt} (h : r.add s = .ok r') : '@' ∉ s.arg.toList :=
  Goyang.Lemmas.Registry.add_accepts_only_ok_names h

theorem loaded_names_ok (loads : List Stmt) : ∀ m ∈ (Registry.loadAll loads).1.mods, '@' ∉ m.stmt.arg.toList :=
  loadAll_names_ok loads

/-- **The registry is the specification.**  After any sequence of loads every key of both tables is
bound as `Spec.Registry.denotes` says among the loadable headers; a load whose name contains `@`
is rejected, any other exactly when a load with the same header came before it. -/
theorem registry_eq_spec (loads : List Stmt) (hd : DatesOk loads) :
    (∀ sub key, bound loads sub key = denotes (loadable (loads.map header)) sub key) ∧
    loadOutcomes loads = outcomesG (loads.map header) := by
  obtain ⟨inv, hout⟩ := loadAll_specG loads
  refine ⟨fun sub key => ?_, hout⟩
  unfold bound
  rw [inv.look, map_hdr_filter_good, denotesS_eq_denotes]
  intro h hh
  obtain ⟨s, hs, rfl⟩ := List.mem_map.mp (List.mem_filter.mp hh).1
  exact hd s hs

/-- **Load order does not matter.**  Two load orders of the same modules — any names, any revision
strings — bind every key of both tables to modules with the same header, and reject the same
headers the same number of times. -/
theorem registry_perm_invariant {loads₁ loads₂ : List Stmt} (hp : loads₁.Perm loads₂) :
    (∀ sub key, bound loads₁ sub key = bound loads₂ sub key) ∧
    (rejectedHeaders loads₁).Perm (rejectedHeaders loads₂) := by
  obtain ⟨inv₁, out₁⟩ := loadAll_specG loads₁
  obtain ⟨inv₂, out₂⟩ := loadAll_specG loads₂
  have hph : (loads₁.map header).Perm (loads₂.map header) := hp.map header
  constructor
  · intro sub key
    unfold bound
    rw [inv₁.look, inv₂.look]
    exact denotesS_perm ((hp.filter good).map header) (noAt_hdrs (noAt_filter_good loads₁)) sub key
  · unfold rejectedHeaders
    rw [rejectedFlags_eq, rejectedFlags_eq]
    unfold loadOutcomes
    rw [out₁, out₂]
    unfold outcomesG
    rw [rejAfterG_eq, rejAfterG_eq]
    exact rejAfterG_perm hph

/-- When no two loads have the same header, the *statements* bound are the same in every load
order, not only their headers. -/
theorem registry_perm_invariant_stmt {loads₁ loads₂ : List Stmt} (hp : loads₁.Perm loads₂)
    (hnodup : (loads₁.map header).Nodup) (sub : Bool) (key : String) :
    boundStmt loads₁ sub key = boundStmt loads₂ sub key := by
  obtain ⟨inv₁, _⟩ := loadAll_specG loads₁
  obtain ⟨inv₂, _⟩ := loadAll_specG loads₂
  have hb := (registry_perm_invariant hp).1 sub key
  unfold bound at hb
  unfold boundStmt
  -- a statement of `loads₁` is determined by its header
  have inj : ∀ s ∈ loads₁, ∀ t ∈ loads₁, header s = header t → s = t := by
    intro s hs t ht he
    exact inj_of_nodup_map header hnodup s hs t ht he
  cases h1 : lk (Registry.loadAll loads₁).1 sub key with
  | none =>
    rw [h1] at hb
    cases h2 : lk (Registry.loadAll loads₂).1 sub key with
    | none => rfl
    | some m₂ => rw [h2] at hb; simp at hb
  | some m₁ =>
    rw [h1] at hb
    cases h2 : lk (Registry.loadAll loads₂).1 sub key with
    | none => rw [h2] at hb; simp at hb
    | some m₂ =>
      rw [h2] at hb
      simp only [Option.map_some, Option.some.injEq] at hb ⊢
      have hm₁ : m₁.stmt ∈ loads₁ := (List.mem_filter.mp (inv₁.src _ (lk_mem h1))).1
      have hm₂ : m₂.stmt ∈ loads₁ := hp.mem_iff.mpr (List.mem_filter.mp (inv₂.src _ (lk_mem h2))).1
      exact inj _ hm₁ _ hm₂ hb

/-- **The bare name denotes the latest revision.**  If a module (submodule) named `n` — no `@` in
`n` — is among the loads, then `ms.Modules[n]` (`ms.SubModules[n]`) is bound afterwards, to a
loaded module of that kind and name, and no load of that kind and name has a later revision
date — one without revision counting as earlier than every date. -/
theorem bare_is_latest (loads : List Stmt) (hd : DatesOk loads)
    {s : Stmt} (hs : s ∈ loads) (hname : '@' ∉ s.arg.toList) :
    ∃ h, bound loads (header s).isSub (header s).name = some h ∧
      h ∈ loads.map header ∧ h.isSub = (header s).isSub ∧ h.name = (header s).name ∧
      ∀ t ∈ loads, (header t).isSub = (header s).isSub → (header t).name = (header s).name →
        revLe (header t).rev h.rev = true := by
  obtain ⟨inv, _⟩ := loadAll_specG loads
  have hsn : NoAt (header s).name := hname
  have hsg : s ∈ loads.filter good := List.mem_filter.mpr ⟨hs, good_of_noAt hname⟩
  have hmem : header s ∈ (loads.filter good).map header := List.mem_map_of_mem hsg
  have sub_loads : ∀ h ∈ (loads.filter good).map header, h ∈ loads.map header := by
    intro h hh
    obtain ⟨u, hu, rfl⟩ := List.mem_map.mp hh
    exact List.mem_map_of_mem (List.mem_filter.mp hu).1
  cases hb : denotesS ((loads.filter good).map header) (header s).isSub (header s).name with
  | none =>
    exfalso
    obtain ⟨o, hm, hmax⟩ := exists_max
      ((((loads.filter good).map header).filter (·.isSub == (header s).isSub)).filter (·.name = (header s).name))
      (by intro e
          have : header s ∈ (((loads.filter good).map header).filter (·.isSub == (header s).isSub)).filter
              (·.name = (header s).name) := by simp only [List.mem_filter]; exact ⟨⟨hmem, by simp⟩, by simp⟩
          rw [e] at this; simp at this)
    simp only [List.mem_filter, beq_iff_eq, decide_eq_true_eq] at hm
    refine denotesS_ne_none_of_den (x := o) ⟨hm.1.1, hm.1.2, .inr ⟨?_, hm.2, ?_⟩⟩ hb
    · intro g _ _ hg
      exact key_ne_name hsn hg.2
    · intro g hg hgs hgn
      exact hmax g (by simp only [List.mem_filter, beq_iff_eq, decide_eq_true_eq]; exact ⟨⟨hg, hgs⟩, hgn⟩)
  | some h =>
    refine ⟨h, ?_, ?_⟩
    · unfold bound; rw [inv.look, hb]
    · obtain ⟨hm, hsub, h3⟩ := den_of_denotesS hb
      rcases h3 with ⟨_, hk⟩ | ⟨_, hname', hmax⟩
      · exact absurd hk (key_ne_name hsn)
      · refine ⟨sub_loads h hm, hsub, hname', ?_⟩
        intro t ht hts htn
        have htg : t ∈ loads.filter good :=
          List.mem_filter.mpr ⟨ht, good_of_noAt (by show NoAt (header t).name; rw [htn]; exact hsn)⟩
        have hwt : WellFormedRev (header t).rev := hd t ht
        have hwh : WellFormedRev h.rev := by
          obtain ⟨u, hu, rfl⟩ := List.mem_map.mp (sub_loads h hm)
          exact hd u hu
        rw [← sLe_eq_revLe hwt hwh]
        exact hmax (header t) (List.mem_map_of_mem htg) hts htn

/-- **An import or include with a revision-date denotes exactly that revision when it is
loaded.**  `findModule` (the in-memory part of `Modules.FindModule`) on an `import n
{ revision-date d; }` (`isInclude = false`) or `include n { revision-date d; }` returns a module
with name `n` and latest revision `d` whenever such a module (submodule), `n` without `@`, is
among the loads. -/
theorem exact_revision_when_loaded (loads : List Stmt)
    {s : Stmt} (hs : s ∈ loads) (hname : '@' ∉ s.arg.toList) (hr : (header s).rev ≠ "")
    (i : Stmt) (hi : i.arg = (header s).name) (hd : i.argOf? "revision-date" = some (header s).rev) :
    ∃ m, (Registry.loadAll loads).1.findModule (header s).isSub i = some m ∧ hdrOf m = header s := by
  obtain ⟨inv, _⟩ := loadAll_specG loads
  have hn := noAt_filter_good loads
  have hsg : s ∈ loads.filter good := List.mem_filter.mpr ⟨hs, good_of_noAt hname⟩
  have hmem : header s ∈ (loads.filter good).map header := List.mem_map_of_mem hsg
  obtain ⟨x, hx⟩ := denotesS_exact_of_mem hmem hr
  have hxeq : x = header s := by
    obtain ⟨hm, hsub, h3⟩ := denotesS_mem hx
    rcases h3 with ⟨_, hk⟩ | hk
    · have := key_inj (noAt_hdrs hn x hm) (show NoAt (header s).name from hname) hk
      cases x; cases hh : header s; simp_all
    · exact absurd hk.symm (key_ne_name (noAt_hdrs hn x hm))
  have hlook := inv.look (header s).isSub ((header s).name ++ "@" ++ (header s).rev)
  rw [hx, hxeq] at hlook
  cases hl : lk (Registry.loadAll loads).1 (header s).isSub ((header s).name ++ "@" ++ (header s).rev) with
  | none => rw [hl] at hlook; simp at hlook
  | some m =>
    rw [hl] at hlook
    refine ⟨m, ?_, by simpa using hlook⟩
    rw [findModule_eq, hd, hi]
    simp only [hl]

/-- **Loading the same name and revision twice is rejected, in any order** (and a name with `@`
always).  Load `j` is rejected for its name when that contains `@`; otherwise it is rejected, as a
duplicate, exactly when an earlier load has the same kind, name and latest revision — so of two
such loads the one that comes second is rejected, whichever it is. -/
theorem duplicate_rejected (loads : List Stmt) (j : Nat) (hj : j < loads.length) :
    (loadOutcomes loads)[j]? = some
      (if '@' ∈ loads[j].arg.toList then .badName
       else if ∃ i, ∃ hi : i < j, header (loads[i]'(by omega)) = header loads[j] then .dup else .ok) := by
  obtain ⟨_, hout⟩ := loadAll_specG loads
  unfold loadOutcomes
  rw [hout]
  unfold outcomesG
  rw [outcomesAfterG_getElem?]
  simp only [List.getElem?_map, List.getElem?_eq_getElem hj, Option.map_some, List.nil_append,
    Option.some.injEq]
  by_cases hbad : '@' ∈ loads[j].arg.toList
  · have : nameOk (header loads[j]) = false := by
      show (!loads[j].arg.toList.contains '@') = false
      simp [hbad]
    rw [this, if_pos hbad]; rfl
  · have hok : nameOk (header loads[j]) = true := by
      show (!loads[j].arg.toList.contains '@') = true
      simp [hbad]
    rw [hok, if_neg hbad]
    simp only [if_true]
    congr 1
    simp only [List.contains_iff_mem, eq_iff_iff]
    unfold loadable
    rw [List.mem_filter]
    constructor
    · rintro ⟨hm, _⟩
      rw [← List.map_take, List.mem_map] at hm
      obtain ⟨t, ht, he⟩ := hm
      obtain ⟨i, hi, rfl⟩ := List.getElem_of_mem ht
      simp only [List.length_take] at hi
      exact ⟨i, by omega, by rw [← he, List.getElem_take]⟩
    · rintro ⟨i, hi, he⟩
      refine ⟨?_, hok⟩
      rw [← List.map_take, List.mem_map]
      refine ⟨loads[i], ?_, he⟩
      rw [List.mem_take_iff_getElem]
      exact ⟨i, by omega, rfl⟩

/-- Corollary in the words of the property: two loads with the same name and revision, at
positions `i < j` — the later one is rejected. -/
theorem duplicate_rejected_second (loads : List Stmt) {i j : Nat} (hij : i < j)
    (hj : j < loads.length) (he : header (loads[i]'(by omega)) = header loads[j]) :
    (rejectedFlags loads)[j]? = some true := by
  rw [rejectedFlags_eq, List.getElem?_map, duplicate_rejected loads j hj]
  by_cases hbad : '@' ∈ loads[j].arg.toList
  · rw [if_pos hbad]; rfl
  · rw [if_neg hbad, if_pos ⟨i, hij, he⟩]; rfl

/-! ### texts with several modules

`Modules.Parse` accepts a text that holds several module / submodule statements.  It adds them one
after the other, each seeing the ones before it (`Registry.addText`), and gives the whole text up
when one is refused (`Registry.loadTexts`: the registry stays as it was before the text).
`loadAll` above is the case of one statement per text (`loads_are_texts`). -/

/-- The statements of the texts that were accepted, in load order. -/
def acceptedStmts (texts : List (List Stmt)) : List Stmt :=
  (Goyang.Lemmas.Registry.acceptedTexts {} texts).flatten

theorem loads_are_texts (loads : List Stmt) : Registry.loadTexts (loads.map fun s => [s]) = Registry.loadAll loads :=
  Goyang.Lemmas.Registry.loadTextsFrom_singletons loads {}

/-- **Texts reduce to loads.**  After any sequence of texts the registry is the one obtained by
loading the statements of the accepted texts one by one, and none of those loads is rejected — so
`registry_eq_spec`, `bare_is_latest`, `exact_revision_when_loaded`, `registry_perm_invariant` speak
about it (with `loads := acceptedStmts texts`).  Those statements have `@`-free names and pairwise
different headers. -/
theorem texts_as_loads (texts : List (List Stmt)) :
    (Registry.loadTexts texts).1 = (Registry.loadAll (acceptedStmts texts)).1 ∧
    (rejectedFlags (acceptedStmts texts)).all (· == false) = true ∧
    (∀ s ∈ acceptedStmts texts, '@' ∉ s.arg.toList) ∧ ((acceptedStmts texts).map header).Nodup := by
  obtain ⟨h1, h2⟩ := Goyang.Lemmas.Registry.loadTextsFrom_eq_loadFrom texts {}
  obtain ⟨_, h3, h4⟩ := Goyang.Lemmas.Registry.loadTextsFrom_spec texts Goyang.Lemmas.Registry.inv_empty
    (by simp) (by simp)
  refine ⟨h1, ?_, fun s hs => h3 s (by simpa [acceptedStmts] using hs), by simpa [acceptedStmts] using h4⟩
  unfold rejectedFlags Registry.loadAll acceptedStmts
  rw [List.all_map]
  rw [← h2]
  apply Goyang.Lemmas.Registry.all_congr_mem
  intro o _
  cases o <;> rfl

/-- **Which text is accepted.**  After any texts, a further text is accepted exactly when no name
in it contains `@`, no two of its statements have the same kind, name and latest revision, and
none of its statements has the kind, name and latest revision of a statement of an accepted
earlier text. -/
theorem text_accepted_iff (before : List (List Stmt)) (text : List Stmt) :
    (∃ r', (Registry.loadTexts before).1.addText text = .ok r') ↔
      (∀ s ∈ text, '@' ∉ s.arg.toList) ∧ (text.map header).Nodup ∧
      ∀ s ∈ text, header s ∉ (acceptedStmts before).map header := by
  obtain ⟨inv, h3, _⟩ := Goyang.Lemmas.Registry.loadTextsFrom_spec before Goyang.Lemmas.Registry.inv_empty
    (by simp) (by simp)
  simp only [List.nil_append] at inv h3
  have step := Goyang.Lemmas.Registry.addText_spec inv h3 text
  unfold Registry.loadTexts acceptedStmts
  cases hadd : (Registry.loadTextsFrom {} before).1.addText text with
  | ok r' => rw [hadd] at step; exact ⟨fun _ => step.1, fun _ => ⟨r', rfl⟩⟩
  | error e =>
    rw [hadd] at step
    exact ⟨fun ⟨_, h⟩ => (by cases h), fun h => absurd h step⟩

/-- **The same name and revision twice in one text is rejected** — like twice in two texts
(`duplicate_rejected`): whatever was loaded before, a text in which two statements have the same
kind, name and latest revision is refused as a whole (and `loadTexts` keeps the registry as it
was before the text). -/
theorem duplicate_in_text_rejected (before : List (List Stmt)) (text : List Stmt) {i j : Nat} (hij : i < j)
    (hj : j < text.length) (he : header (text[i]'(by omega)) = header text[j]) :
    ∃ e, (Registry.loadTexts before).1.addText text = .error e := by
  cases hadd : (Registry.loadTexts before).1.addText text with
  | error e => exact ⟨e, rfl⟩
  | ok r' =>
    exfalso
    have hnd := ((text_accepted_iff before text).mp ⟨r', hadd⟩).2.1
    have hi : i < (text.map header).length := by simp; omega
    have hj' : j < (text.map header).length := by simp; omega
    have := (List.pairwise_iff_getElem.mp hnd) i j hi hj' hij
    simp only [List.getElem_map, ne_eq] at this
    exact this he

/-- A text that repeats the kind, name and latest revision of a statement of an accepted earlier
text is refused as a whole. -/
theorem duplicate_of_loaded_rejected (before : List (List Stmt)) (text : List Stmt) {s : Stmt} (hs : s ∈ text)
    (hdup : header s ∈ (acceptedStmts before).map header) :
    ∃ e, (Registry.loadTexts before).1.addText text = .error e := by
  cases hadd : (Registry.loadTexts before).1.addText text with
  | error e => exact ⟨e, rfl⟩
  | ok r' => exact absurd hdup (((text_accepted_iff before text).mp ⟨r', hadd⟩).2.2 s hs)

/-! ### the hypotheses are satisfiable, and the statements say something -/

/-- A module or submodule header as a statement (what the driver builds from the wire format). -/
def mk (sub : Bool) (name : String) (revs : List String) : Stmt :=
  Stmt.mk (if sub then "submodule" else "module") true name "f" 1 1
    ((if sub then [Stmt.mk "belongs-to" true "owner" "f" 1 1 []] else []) ++
      revs.map fun r => Stmt.mk "revision" true r "f" 1 1 [])

def exLoads : List Stmt :=
  [mk false "m" ["2020-01-01"], mk false "m" [], mk false "m" ["2019-12-31", "2019-01-01"], mk false "m" []]

example : DatesOk exLoads := by decide
-- the former defect D16: revision first, then the module without revision — both accepted, the
-- bare name stays with the revision; a second module without revision is rejected
example : rejectedFlags exLoads = [false, false, false, true] := by decide
example : bound exLoads false "m" = some ⟨false, "m", "2020-01-01"⟩ := by decide
example : bound exLoads false "m@2019-12-31" = some ⟨false, "m", "2019-12-31"⟩ := by decide
example : bound exLoads.reverse false "m" = some ⟨false, "m", "2020-01-01"⟩ := by decide
example : rejectedHeaders exLoads.reverse = [⟨false, "m", ""⟩] := by decide
example : exLoads.reverse.Perm exLoads := List.reverse_perm _
-- the former defect D61: `module m@2020 {}` (no revision) and `module m { revision 2020; }` claim
-- the same key; now the first is refused in both orders and `m@2020` denotes the revision of `m`
def exAt : List Stmt := [mk false "m@2020" [], mk false "m" ["2020"]]
example : loadOutcomes exAt = [.badName, .ok] ∧ loadOutcomes exAt.reverse = [.ok, .badName] := by decide
example : bound exAt false "m@2020" = some ⟨false, "m", "2020"⟩ ∧
    bound exAt.reverse false "m@2020" = some ⟨false, "m", "2020"⟩ := by decide
example : rejectedHeaders exAt = [⟨false, "m@2020", ""⟩] ∧ rejectedHeaders exAt.reverse = [⟨false, "m@2020", ""⟩] := by
  decide
-- one text with the same module and revision twice (second copy with another older revision): refused,
-- nothing of it stays — also not its first statement
def exText : List Stmt := [mk false "n" [], mk false "m" ["2020-01-01"], mk false "m" ["2020-01-01", "2019-01-01"]]
example : header (exText[1]) = header (exText[2]) := by decide
example : (Registry.loadTexts [[mk false "k" []], exText]).2.map Option.isSome = [false, true] := by decide
example : (acceptedStmts [[mk false "k" []], exText]).map header = [⟨false, "k", ""⟩] := by decide
example : ((lk (Registry.loadTexts [[mk false "k" []], exText]).1 false "n").map hdrOf) = none := by decide
example : (Registry.loadTexts [exText.take 2, exText.drop 2]).2.map Option.isSome = [false, true] := by decide
-- `registry_perm_invariant_stmt`: a list without two equal headers
example : ((exLoads.take 3).map header).Nodup := by decide
-- `exact_revision_when_loaded`: `import m { revision-date 2019-12-31; }` after `exLoads`
def exImport : Stmt := Stmt.mk "import" true "m" "" 0 0 [Stmt.mk "revision-date" true "2019-12-31" "" 0 0 []]
example : mk false "m" ["2019-12-31", "2019-01-01"] ∈ exLoads := .tail _ (.tail _ (.head _))
example : '@' ∉ (mk false "m" ["2019-12-31", "2019-01-01"]).arg.toList := by decide
example : (header (mk false "m" ["2019-12-31", "2019-01-01"])).rev ≠ "" := by decide
example : exImport.arg = (header (mk false "m" ["2019-12-31", "2019-01-01"])).name ∧
    exImport.argOf? "revision-date" = some (header (mk false "m" ["2019-12-31", "2019-01-01"])).rev := by decide
example : ((Registry.loadAll exLoads).1.findModule false exImport).map hdrOf = some ⟨false, "m", "2019-12-31"⟩ := by
  decide
-- `duplicate_rejected_second`: loads 1 and 3 of `exLoads` have the same header
example : header (exLoads[1]) = header (exLoads[3]) := by decide
-- dates are compared as dates only when they are dates: byte order would rank "2020-1-01" above
-- "2020-01-02"; `DatesOk` excludes such loads
example : ¬ DatesOk [mk false "m" ["2020-1-01"]] := by decide

/-! ## (b) the file chooser

Reading aid.  `findFile root path m` is `ms.findFile(m)` with `ms.Path = path` in a current
directory whose content is the tree `root` (`Model/File.lean` says what is modelled of the
operating system).  `Found.chosen` is the file name it returns.  `Spec.File.choose root' entries m`
is the specification: the directories `searchDirs` — the current directory, then what every
path entry stands for, in path order (a `d/...` entry standing for `d` and everything below it,
in the order `Spec.File.under`) — are considered one after the other, and the best candidate
(`bestIn`: `m.yang`, else the `m@YYYY-MM-DD.yang` with the greatest date) of the first directory
that has a candidate is taken.  `root.norm` is `root` with every listing in `ReadDir` (name)
order, `parsePath` the path entries in parsed form, `render` the path string of a component list.
-/
section File
open Goyang.Model.File Goyang.Spec.File
open Goyang.Lemmas.File (IsModuleName RootOk findFileIn_module findFileIn_candidate rootOk_norm datedOf_some
  lastSorted_eq_latestDated lastSorted_spec revsOf mem_dated dated_of_mem_revs exact_of_mem_files bestIn_mem)

/-- **First search-path directory holding a candidate; `name.yang`, else the latest date.**
For a module name `m` (no `/`, not ending in `.yang`), a current directory whose entries have
distinct names, and a search path of clean relative entries, `findFile` returns exactly the file
the specification chooses — and nothing when the specification finds no candidate. -/
theorem choose_exact_else_latest (root : FsNode) (path : List Name) (entries : List Entry) (m : Name)
    (hm : IsModuleName m) (hroot : RootOk root) (hp : parsePath path = some entries) :
    (findFile root path m).chosen = (choose root.norm entries m).map render ∧
    (findFile root path m = .noSuchFile ↔ choose root.norm entries m = none) := by
  unfold findFile
  rw [findFileIn_module (rootOk_norm hroot) hp hm]
  cases choose root.norm entries m with
  | none => simp [Found.chosen]
  | some p => simp [Found.chosen]

/-- **Never a file of a differently named module.**  Whatever `findFile` returns for a module name
`m` — any tree, any search path — is a path whose last component is `m.yang` or `m@…​.yang` with
a well-formed date in between and nothing else (`IsCandidateName`, spelled out by
`candidate_name_shape`). -/
theorem choose_never_other_module (root : FsNode) (path : List Name) (m : Name) (hm : IsModuleName m)
    {n : Name} (h : (findFile root path m).chosen = some n) :
    ∃ dir fn, n = render (dir ++ [fn]) ∧ IsCandidateName m fn :=
  findFileIn_candidate hm h

/-- What a candidate name looks like: the module name, then either `.yang`, or `@`, four digits,
`-`, two digits, `-`, two digits, `.yang` — the remainder after the module name matches
`@dddd-dd-dd.yang` exactly. -/
theorem candidate_name_shape {m fn : Name} (h : IsCandidateName m fn) :
    fn = m ++ ".yang".toList ∨
    ∃ y1 y2 y3 y4 m1 m2 d1 d2 : Char, [y1, y2, y3, y4, m1, m2, d1, d2].all Spec.isDigit = true ∧
      fn = m ++ '@' :: [y1, y2, y3, y4, '-', m1, m2, '-', d1, d2] ++ ".yang".toList := by
  rcases h with h | h
  · exact .inl h
  · right
    obtain ⟨d, hd⟩ := Option.isSome_iff_exists.mp h
    obtain ⟨ds, rfl, hp⟩ := datedOf_some hd
    obtain ⟨y1, y2, y3, y4, m1, m2, d1, d2, rfl, hdig, _⟩ := Goyang.Lemmas.Date.parseDate_some hp
    exact ⟨y1, y2, y3, y4, m1, m2, d1, d2, hdig, rfl⟩

/-- The specification's "best candidate of a directory", spelled out: `m.yang` when it is among
the regular files; otherwise a dated candidate such that no dated candidate of the directory has
a later date; nothing exactly when the directory has no candidate. -/
theorem bestIn_reading (m : Name) (es : Listing) :
    (m ++ ".yang".toList ∈ files es → bestIn m es = some (m ++ ".yang".toList)) ∧
    (∀ fn, bestIn m es = some fn → fn ∈ files es ∧ IsCandidateName m fn) ∧
    (m ++ ".yang".toList ∉ files es → ∀ fn, bestIn m es = some fn →
      ∃ d, datedOf m fn = some d ∧ ∀ fn' ∈ files es, ∀ d', datedOf m fn' = some d' → d'.le d = true) ∧
    (bestIn m es = none ↔ ∀ fn ∈ files es, ¬ IsCandidateName m fn) := by
  have hY : dotYang = ".yang".toList := by decide
  refine ⟨fun h => ?_, fun fn h => bestIn_mem h, fun hno fn h => ?_, ?_⟩
  · rw [← hY] at h ⊢; exact exact_of_mem_files h
  · -- no exact match: the result is `latestDated`
    have hno' : ¬ (files es).contains (m ++ ".yang".toList) = true := by simpa using hno
    have hex : exact? m es = none := by
      unfold exact?; rw [if_neg hno']
    unfold bestIn at h; rw [hex] at h
    unfold latestDated at h
    rw [Option.map_eq_some_iff] at h
    obtain ⟨c, hc, rfl⟩ := h
    have hm := List.mem_of_find?_eq_some hc
    have hP0 : ((dated m es).all fun c' => c'.2.le c.2) = true :=
      List.find?_some (p := fun c : Name × Spec.Date => (dated m es).all fun c' => c'.2.le c.2) hc
    have hP := List.all_eq_true.mp hP0
    refine ⟨c.2, (mem_dated hm).1, ?_⟩
    intro fn' hfn' d' hd'
    have : fn' ∈ revsOf m es := by
      unfold revsOf
      rw [List.mem_filter, Goyang.Lemmas.File.isRevisionOf_iff, hd']
      exact ⟨hfn', rfl⟩
    obtain ⟨d'', hd''⟩ := dated_of_mem_revs this
    have e := (mem_dated hd'').1
    simp only at e
    rw [hd'] at e
    simp only [Option.some.injEq] at e; subst e
    exact hP (fn', d') hd''
  · constructor
    · intro hnone fn hfn hc
      rcases hc with rfl | hc
      · have := exact_of_mem_files (hY ▸ hfn)
        rw [hnone] at this; cases this
      · have hex : exact? m es = none := by
          cases he : exact? m es with
          | none => rfl
          | some f => unfold bestIn at hnone; rw [he] at hnone; cases hnone
        unfold bestIn at hnone; rw [hex] at hnone
        simp only at hnone
        rw [← lastSorted_eq_latestDated] at hnone
        have hmem : fn ∈ revsOf m es := by
          unfold revsOf
          rw [List.mem_filter, Goyang.Lemmas.File.isRevisionOf_iff]
          exact ⟨hfn, hc⟩
        rcases lastSorted_spec (revs := revsOf m es) with ⟨hnil, _⟩ | ⟨x, hx, _, _⟩
        · rw [hnil] at hmem; cases hmem
        · rw [hx] at hnone; cases hnone
    · intro hall
      cases hb : bestIn m es with
      | none => rfl
      | some fn => exact absurd (bestIn_mem hb).2 (hall fn (bestIn_mem hb).1)

/-! ### the hypotheses are satisfiable, and the statements say something -/

private def nm (s : String) : Name := s.toList
private def f (s : String) : Name × FsNode := (nm s, .file)
private def d (s : String) (es : List (Name × FsNode)) : Name × FsNode := (nm s, .dir es)

/-- near misses in the current directory, two dated candidates in `p`, an exact one in `q` -/
def exTree : FsNode := .dir [
  f "foobar.yang", f "foo@2020-1-01.yang", f "foo@2020-01-01.yang.bak", d "foo.yang" [f "foo.yang"],
  d "p" [f "foo@2019-12-31.yang", f "foo@2020-01-01.yang", f "foo@2020-1-02.yang"],
  d "q" [f "foo.yang", f "foo@2021-01-01.yang"]]

example : IsModuleName (nm "foo") := by decide
example : RootOk exTree := by decide
example : parsePath [nm "p", nm "q"] = some [⟨[nm "p"], false⟩, ⟨[nm "q"], false⟩] := by decide
example : (findFile exTree [nm "p", nm "q"] (nm "foo")).chosen = some (nm "p/foo@2020-01-01.yang") := by decide
example : (findFile exTree [nm "q", nm "p"] (nm "foo")).chosen = some (nm "q/foo.yang") := by decide
example : (choose exTree.norm [⟨[nm "p"], false⟩, ⟨[nm "q"], false⟩] (nm "foo")).map render =
    some (nm "p/foo@2020-01-01.yang") := by decide
example : findFile exTree [] (nm "foo") = .noSuchFile := by decide
-- `...`: everything below the current directory; `foo.yang/foo.yang` comes first in name order
example : (findFile exTree [nm "..."] (nm "foo")).chosen = some (nm "foo.yang/foo.yang") := by decide
example : IsCandidateName (nm "foo") (nm "foo@2020-01-01.yang") := by decide
example : ¬ IsCandidateName (nm "foo") (nm "foo@2020-1-01.yang") := by decide
example : ¬ IsCandidateName (nm "foo") (nm "foobar.yang") := by decide
example : ¬ IsCandidateName (nm "foo") (nm "foo@2020-01-01.yang.bak") := by decide

end File

end Goyang.Props.C13
