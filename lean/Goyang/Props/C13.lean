import Goyang.Model.Ctx
import Goyang.Model.File
import Goyang.Spec.Registry
import Goyang.Spec.File
import Goyang.Lemmas.Registry
import Goyang.Lemmas.File
/-
C13 — names bind to the right module revision (a); the file chooser (b).
(Part (c), "include = inline", is stated with the resolver model, not here.)

Property theorems only; helper lemmas are in Goyang/Lemmas/{StrOrd,Date,Registry,File}.lean.

Reading aid, part (a).  A *load* is the top-level statement of one module or submodule as the AST
builder hands it to `Modules.add`; `loadAll loads` runs `add` on each in order, into a fresh
`NewModules()`, and returns the final registry together with the error of every load (if any).
Of a load only its *header* matters: kind (module / submodule), name, and `Module.Current()` —
the latest of its revision statements, `""` when there is none (`header`).
`bound loads sub key` is the header of the module that `ms.Modules[key]` (`sub = false`) or
`ms.SubModules[key]` (`sub = true`) points to afterwards.  `Spec.Registry.denotes` says what a key
should denote, given only the *collection* of headers: `name@date` the header with that name
and date; the bare `name` the header of that name no other is later than, dates compared as
dates, a header without revision ranking below every date.

Hypotheses.  `NamesOk`: module names contain no `@` (they are YANG identifiers; with an `@` in a
name the string keys `name@revision` are ambiguous, and goyang does not check identifiers).
`DatesOk`: `Current()` of every load is `""` or a well-formed `YYYY-MM-DD` (for anything else
"latest" has no meaning; the code then falls back to byte order of the strings, and the
theorems that do not mention dates — order independence, exact revision, duplicates — hold
without this hypothesis).
-/
namespace Goyang.Props.C13
open Goyang.Model Goyang.Spec.Registry
open Goyang.Lemmas.Registry (hdrOf lk NoAt Inv loadAll_spec denotesS denotesS_perm denotesS_eq_denotes
  den_of_denotesS denotesS_exact_of_mem denotesS_mem rejAfter rejAfter_eq rejAfter_perm noAt_hdrs key_inj
  key_ne_name sLe_eq_revLe outcomesAfter_getElem? exists_max denotesS_ne_none_of_den findModule_eq lk_mem
  inj_of_nodup_map)
/- `header s`: the header of a load — kind, name, `Current()` (`Lemmas.Registry.hdr`);
`hdrOf m` the same of a loaded module. -/
open Goyang.Lemmas.Registry renaming hdr → header

/-! ## (a) registry -/

/-- Module names are identifiers: no `@`. -/
def NamesOk (loads : List Stmt) : Prop := ∀ s ∈ loads, '@' ∉ s.arg.toList

/-- Every load has no revision or a well-formed date as its latest revision. -/
def DatesOk (loads : List Stmt) : Prop := ∀ s ∈ loads, WellFormedRev (header s).rev

/-- The header of what `key` is bound to in `ms.Modules` / `ms.SubModules` after the loads. -/
def bound (loads : List Stmt) (sub : Bool) (key : String) : Option Header :=
  (lk (Registry.loadAll loads).1 sub key).map hdrOf

/-- The statement `key` is bound to after the loads. -/
def boundStmt (loads : List Stmt) (sub : Bool) (key : String) : Option Stmt :=
  (lk (Registry.loadAll loads).1 sub key).map (·.stmt)

/-- Per load, in order: was it rejected (`Parse` returned the duplicate error)? -/
def rejectedFlags (loads : List Stmt) : List Bool := (Registry.loadAll loads).2.map Option.isSome

/-- The headers of the rejected loads, in load order. -/
def rejectedHeaders (loads : List Stmt) : List Header :=
  (((loads.map header).zip (rejectedFlags loads)).filter (·.2)).map (·.1)

instance (loads : List Stmt) : Decidable (NamesOk loads) := by unfold NamesOk; infer_instance
instance (r : String) : Decidable (WellFormedRev r) := by unfold WellFormedRev; infer_instance
instance (loads : List Stmt) : Decidable (DatesOk loads) := by unfold DatesOk; infer_instance

private theorem names_ok {loads : List Stmt} (h : NamesOk loads) : ∀ t ∈ loads, NoAt t.arg := h

/-- **The registry is the specification.**  After any sequence of loads every key of both tables is
bound as `Spec.Registry.denotes` says, and a load is rejected exactly when a load with the same
header came before it. -/
theorem registry_eq_spec (loads : List Stmt) (hn : NamesOk loads) (hd : DatesOk loads) :
    (∀ sub key, bound loads sub key = denotes (loads.map header) sub key) ∧
    rejectedFlags loads = outcomes (loads.map header) := by
  obtain ⟨inv, hout⟩ := loadAll_spec loads (names_ok hn)
  refine ⟨fun sub key => ?_, hout⟩
  unfold bound
  rw [inv.look, denotesS_eq_denotes]
  intro h hh
  obtain ⟨s, hs, rfl⟩ := List.mem_map.mp hh
  exact hd s hs

/-- **Load order does not matter.**  Two load orders of the same modules bind every key of both
tables to modules with the same header, and reject the same headers the same number of times.
(No hypothesis on the revision strings.) -/
theorem registry_perm_invariant {loads₁ loads₂ : List Stmt} (hp : loads₁.Perm loads₂) (hn : NamesOk loads₁) :
    (∀ sub key, bound loads₁ sub key = bound loads₂ sub key) ∧
    (rejectedHeaders loads₁).Perm (rejectedHeaders loads₂) := by
  have hn₂ : NamesOk loads₂ := fun s hs => hn s (hp.mem_iff.mpr hs)
  obtain ⟨inv₁, out₁⟩ := loadAll_spec loads₁ (names_ok hn)
  obtain ⟨inv₂, out₂⟩ := loadAll_spec loads₂ (names_ok hn₂)
  have hph : (loads₁.map header).Perm (loads₂.map header) := hp.map header
  constructor
  · intro sub key
    unfold bound
    rw [inv₁.look, inv₂.look]
    exact denotesS_perm hph (noAt_hdrs (names_ok hn)) sub key
  · unfold rejectedHeaders rejectedFlags
    rw [out₁, out₂]
    unfold outcomes
    rw [rejAfter_eq, rejAfter_eq]
    exact rejAfter_perm hph

/-- When no two loads have the same header (nothing is rejected), the *statements* bound are the
same in every load order, not only their headers. -/
theorem registry_perm_invariant_stmt {loads₁ loads₂ : List Stmt} (hp : loads₁.Perm loads₂) (hn : NamesOk loads₁)
    (hnodup : (loads₁.map header).Nodup) (sub : Bool) (key : String) :
    boundStmt loads₁ sub key = boundStmt loads₂ sub key := by
  have hn₂ : NamesOk loads₂ := fun s hs => hn s (hp.mem_iff.mpr hs)
  obtain ⟨inv₁, _⟩ := loadAll_spec loads₁ (names_ok hn)
  obtain ⟨inv₂, _⟩ := loadAll_spec loads₂ (names_ok hn₂)
  have hb := (registry_perm_invariant hp hn).1 sub key
  unfold bound at hb
  unfold boundStmt
  -- a statement of `loads₁` is determined by its header
  have inj : ∀ s ∈ loads₁, ∀ t ∈ loads₁, header s = header t → s = t := by
    intro s hs t ht he
    exact inj_of_nodup_map header hnodup s hs t ht he
  cases h1 : lk (Registry.loadAll loads₁).1 sub key with
  | none =>
    rw [h1] at hb
    cases h2 : lk (Registry.loadAll loads₂).1 sub key with
    | none => rfl
    | some m₂ => rw [h2] at hb; simp at hb
  | some m₁ =>
    rw [h1] at hb
    cases h2 : lk (Registry.loadAll loads₂).1 sub key with
    | none => rw [h2] at hb; simp at hb
    | some m₂ =>
      rw [h2] at hb
      simp only [Option.map_some, Option.some.injEq] at hb ⊢
      have hm₁ : m₁.stmt ∈ loads₁ := inv₁.src _ (lk_mem h1)
      have hm₂ : m₂.stmt ∈ loads₁ := hp.mem_iff.mpr (inv₂.src _ (lk_mem h2))
      exact inj _ hm₁ _ hm₂ hb

/-- **The bare name denotes the latest revision.**  If a module (submodule) named `n` is among the
loads, then `ms.Modules[n]` (`ms.SubModules[n]`) is bound afterwards, to a loaded module of that
kind and name, and no loaded module of that kind and name has a later revision date — one
without revision counting as earlier than every date. -/
theorem bare_is_latest (loads : List Stmt) (hn : NamesOk loads) (hd : DatesOk loads)
    {s : Stmt} (hs : s ∈ loads) :
    ∃ h, bound loads (header s).isSub (header s).name = some h ∧
      h ∈ loads.map header ∧ h.isSub = (header s).isSub ∧ h.name = (header s).name ∧
      ∀ t ∈ loads, (header t).isSub = (header s).isSub → (header t).name = (header s).name →
        revLe (header t).rev h.rev = true := by
  obtain ⟨inv, _⟩ := loadAll_spec loads (names_ok hn)
  have hsn : NoAt (header s).name := hn s hs
  have hmem : header s ∈ loads.map header := List.mem_map_of_mem hs
  -- something is bound: the headers of that kind and name are not empty
  cases hb : denotesS (loads.map header) (header s).isSub (header s).name with
  | none =>
    exfalso
    obtain ⟨o, hm, hmax⟩ := exists_max
      (((loads.map header).filter (·.isSub == (header s).isSub)).filter (·.name = (header s).name))
      (by intro e
          have : header s ∈ ((loads.map header).filter (·.isSub == (header s).isSub)).filter
              (·.name = (header s).name) := by simp [hmem]
          rw [e] at this; simp at this)
    simp only [List.mem_filter, beq_iff_eq, decide_eq_true_eq] at hm
    refine denotesS_ne_none_of_den (x := o) ⟨hm.1.1, hm.1.2, .inr ⟨?_, hm.2, ?_⟩⟩ hb
    · intro g _ _ hg
      exact key_ne_name hsn hg.2
    · intro g hg hgs hgn
      exact hmax g (by simp [hg, hgs, hgn])
  | some h =>
    refine ⟨h, ?_, ?_⟩
    · unfold bound; rw [inv.look, hb]
    · obtain ⟨hm, hsub, h3⟩ := den_of_denotesS hb
      rcases h3 with ⟨_, hk⟩ | ⟨_, hname, hmax⟩
      · exact absurd hk (key_ne_name hsn)
      · refine ⟨hm, hsub, hname, ?_⟩
        intro t ht hts htn
        have hwt : WellFormedRev (header t).rev := hd t ht
        have hwh : WellFormedRev h.rev := by
          obtain ⟨u, hu, rfl⟩ := List.mem_map.mp hm
          exact hd u hu
        rw [← sLe_eq_revLe hwt hwh]
        exact hmax (header t) (List.mem_map_of_mem ht) hts htn

/-- **An import or include with a revision-date denotes exactly that revision when it is
loaded.**  `findModule` (the in-memory part of `Modules.FindModule`) on an `import n
{ revision-date d; }` (`isInclude = false`) or `include n { revision-date d; }` returns a module
with name `n` and latest revision `d` whenever such a module (submodule) is among the loads. -/
theorem exact_revision_when_loaded (loads : List Stmt) (hn : NamesOk loads)
    {s : Stmt} (hs : s ∈ loads) (hr : (header s).rev ≠ "")
    (i : Stmt) (hi : i.arg = (header s).name) (hd : i.argOf? "revision-date" = some (header s).rev) :
    ∃ m, (Registry.loadAll loads).1.findModule (header s).isSub i = some m ∧ hdrOf m = header s := by
  obtain ⟨inv, _⟩ := loadAll_spec loads (names_ok hn)
  have hmem : header s ∈ loads.map header := List.mem_map_of_mem hs
  obtain ⟨x, hx⟩ := denotesS_exact_of_mem hmem hr
  have hxeq : x = header s := by
    obtain ⟨hm, hsub, h3⟩ := denotesS_mem hx
    rcases h3 with ⟨_, hk⟩ | hk
    · have := key_inj (noAt_hdrs (names_ok hn) x hm) (hn s hs) hk
      cases x; cases hh : header s; simp_all
    · exact absurd hk.symm (key_ne_name (noAt_hdrs (names_ok hn) x hm))
  have hlook := inv.look (header s).isSub ((header s).name ++ "@" ++ (header s).rev)
  rw [hx, hxeq] at hlook
  cases hl : lk (Registry.loadAll loads).1 (header s).isSub ((header s).name ++ "@" ++ (header s).rev) with
  | none => rw [hl] at hlook; simp at hlook
  | some m =>
    rw [hl] at hlook
    refine ⟨m, ?_, by simpa using hlook⟩
    rw [findModule_eq, hd, hi]
    simp only [hl]

/-- **Loading the same name and revision twice is rejected, in any order.**  Load `j` is rejected
exactly when an earlier load has the same kind, name and latest revision — so of two such loads
the one that comes second is rejected, whichever it is. -/
theorem duplicate_rejected (loads : List Stmt) (hn : NamesOk loads) (j : Nat) (hj : j < loads.length) :
    (rejectedFlags loads)[j]? = some (decide (∃ i, ∃ hi : i < j, header (loads[i]'(by omega)) = header loads[j])) := by
  obtain ⟨_, hout⟩ := loadAll_spec loads (names_ok hn)
  unfold rejectedFlags
  rw [hout]
  unfold outcomes
  rw [outcomesAfter_getElem?]
  simp only [List.getElem?_map, List.getElem?_eq_getElem hj, Option.map_some, List.nil_append,
    Option.some.injEq]
  rw [Bool.eq_iff_iff]
  simp only [List.contains_iff_mem, decide_eq_true_eq]
  rw [← List.map_take, List.mem_map]
  constructor
  · rintro ⟨t, ht, he⟩
    obtain ⟨i, hi, rfl⟩ := List.getElem_of_mem ht
    simp only [List.length_take] at hi
    exact ⟨i, by omega, by rw [← he, List.getElem_take]⟩
  · rintro ⟨i, hi, he⟩
    refine ⟨loads[i], ?_, he⟩
    rw [List.mem_take_iff_getElem]
    exact ⟨i, by omega, rfl⟩

/-- Corollary in the words of the property: two loads with the same name and revision, at
positions `i < j` — the later one is rejected. -/
theorem duplicate_rejected_second (loads : List Stmt) (hn : NamesOk loads) {i j : Nat} (hij : i < j)
    (hj : j < loads.length) (he : header (loads[i]'(by omega)) = header loads[j]) :
    (rejectedFlags loads)[j]? = some true := by
  rw [duplicate_rejected loads hn j hj]
  simp only [Option.some.injEq, decide_eq_true_eq]
  exact ⟨i, hij, he⟩

/-! ### the hypotheses are satisfiable, and the statements say something -/

/-- A module or submodule header as a statement (what the driver builds from the wire format). -/
def mk (sub : Bool) (name : String) (revs : List String) : Stmt :=
  Stmt.mk (if sub then "submodule" else "module") true name "f" 1 1
    ((if sub then [Stmt.mk "belongs-to" true "owner" "f" 1 1 []] else []) ++
      revs.map fun r => Stmt.mk "revision" true r "f" 1 1 [])

def exLoads : List Stmt :=
  [mk false "m" ["2020-01-01"], mk false "m" [], mk false "m" ["2019-12-31", "2019-01-01"], mk false "m" []]

example : NamesOk exLoads := by decide
example : DatesOk exLoads := by decide
-- the former defect D16: revision first, then the module without revision — both accepted, the
-- bare name stays with the revision; a second module without revision is rejected
example : rejectedFlags exLoads = [false, false, false, true] := by decide
example : bound exLoads false "m" = some ⟨false, "m", "2020-01-01"⟩ := by decide
example : bound exLoads false "m@2019-12-31" = some ⟨false, "m", "2019-12-31"⟩ := by decide
example : bound exLoads.reverse false "m" = some ⟨false, "m", "2020-01-01"⟩ := by decide
example : rejectedHeaders exLoads.reverse = [⟨false, "m", ""⟩] := by decide
example : exLoads.reverse.Perm exLoads := List.reverse_perm _
-- dates are compared as dates only when they are dates: byte order would rank "2020-1-01" above
-- "2020-01-02"; `DatesOk` excludes such loads
example : ¬ DatesOk [mk false "m" ["2020-1-01"]] := by decide

end Goyang.Props.C13
