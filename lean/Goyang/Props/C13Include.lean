import Goyang.Lemmas.IncludeMain
import Goyang.Lemmas.IncludeDump
import Goyang.Lemmas.IncludeCheck
import Goyang.Model.TypesLite
import Goyang.Lemmas.IncludeAugK
import Goyang.Lemmas.IncludeAugOrder
import Goyang.Lemmas.IncludeAugView
import Goyang.Lemmas.IncludeAugCompose
import Goyang.Lemmas.IncludeAugRows
import Goyang.Lemmas.IncludeAugIO
import Goyang.Lemmas.IncludeAugDec
import Goyang.Lemmas.IncludeAugShape
import Goyang.Lemmas.IncludeAugSim3
/-
C13, third sentence — "An included submodule contributes its data nodes, typedefs, groupings and
identities to the including module exactly as if they were written there."

Setting (Spec/Include.lean).  `IsSplitOf s R R' plug plug'`: the registry `R'` is the registry `R` with one
module `s.m` replaced by an owner `s.owner` (same name, header, load number; `include` statements)
and submodules `s.subs` (belongs-to `m` under `m`'s prefix, `m`'s imports), every body statement of
`m` (data nodes, rpcs, notifications, uses, groupings) being in exactly one part as the same
statement; `Visible`: from every part every top-level grouping name of `m` binds, by goyang's
lookup rules, to the statement `m` declares (the exact visibility condition the model needs — it is
what the runner's split guarantees by construction, and what the repaired `FindGrouping` gives
whenever the owner includes every submodule); `PlugSplitOK`: the plugged layers (types C09,
identities C11, typedefs; `plug` for the unsplit, `plug'` for the split registry — the pipeline
builds its plug from the registry) answer alike — typedefs and identities are their business; `PosWF`,
`RefsWF`, `LookupFuelOK`: positions identify groupings, prefixed references are well formed (C06),
the model's lookup fuel suffices (executable checkers: Lemmas/IncludeCheck.lean).  The parts may
include each other in any way (nested includes) as long as every submodule is reached from the
owner and no part includes itself or is included back by a part it includes (`RegsOK.inc_cover`,
`inc_no_back`: exactly what goyang's circularity test asks).  This round: `R` itself has no
submodules (the runner's setting).

What is proved, for all such registries, every option set and plug:

* `include_conversion` — the conversion stage (`ToEntry` of every module, the stage the sentence is
  about): if the unsplit conversion is error free so is the split one; every other module's tree is
  the same but for the module numbers of nodes whose text now lives in a submodule (`ren σ`); the
  owner's tree has the unsplit module's data and exactly its children, each equal but for those
  numbers, in another order (`SameTop`).  Augment and deviation statements may be present (they are
  converted, not yet applied, at this stage).
* `include_eq_inline_partial` — the same for the result of `processAll` (`Modules.Process`), when no
  loaded module has augment or deviation statements; `include_paths` — namespace, read-only status
  and every subtree below the root agree at every path; `include_eq_inline_noaug` — the canonical
  dumps (what the runner compares) are equal: the full statement `IncludeEqInline` for these sets.
* `visible_when_grouping_names_distinct` — the visibility condition holds by itself when the
  top-level grouping names of `m` are distinct (a submodule sees its siblings through its owner).
* the stages behind them, as statements of their own: `context_independence` (a), `grouping_found_same`
  (b), `parts_merge_each_submodule_once` (c).

Sets WITH augment statements:

* Finding D67 and its repair.  Before the repair the full statement `IncludeEqInline` was FALSE of the
  model and of the Go code (witness in /verif/corpus/C13/D67-witness.txt, replayed on both): two modules
  `ma`, `mb` augment the implied case of a shorthand choice member of `t` in a chain (`/t:ch/t:x`, then
  `/t:ch/t:x/ma:y`); neither is applicable before FixChoice, and the stage after FixChoice was ONE sweep
  `Augment(true)` in the order swap-remove had left the module array in.  Splitting an augment-free
  submodule `a-sub` off `t` permutes that order ([ma, mb] becomes [mb, ma]): the unsplit set processed
  without errors, the split set reported `augment-not-found` (theorem `include_eq_inline_fails`, now
  removed).  The repair (`fix:` commit in pkg/yang/modules.go, mirrored by `Model.leftoverRounds`) makes
  that stage a fixpoint: after the first FixChoice the augment loop is retried over the modules that still
  hold pending augments, with FixChoice after every productive round, until a round applies nothing; only
  then does the reporting sweep run.  `include_eq_inline_witness`: on the witness pair the split set is now
  clean and the dumps are equal (kernel-checked on the model, `Ex3.unsplit_clean`, `Ex3.split_clean`,
  `Ex3.split_dump`; `Ex3.leftover`: both augments do wait for that stage; all hypotheses of `IsSplitOf`
  discharged).
* `IncludeEqInlineAugments` — the statement for sets whose augment loop leaves nothing pending
  (`NoLeftover`, decidable) and without deviation statements.  NOT proved in general; kernel-checked on
  `Ex4` (`include_eq_inline_augments_example`: two modules augment, in a chain, a container that the split
  moves into a submodule; the loop of the split set visits the modules in another order and needs a
  second pass).  Proved towards it, for all split pairs:
  - `include_pending_rows` — at the start of the augment stage the submodules have nothing pending and
    every other row lists the augment statements of the same module (the owner's: the unsplit module's);
  - `include_augment_loop_order` + `include_augment_loop_clean_iff` — missing item (1) below, closed on
    the flat view: the loop over the split set may be run in the module order of the UNSPLIT set (the
    additional trees only permute the visits): same flat view (C07: locations with their data, children
    as sets), same augments left over, and the one run is error free iff the other is
    (hypotheses on `R'`: C07's decidable input predicates `LoadedShape`, `AugPosDistinct`, `AugArgsPlain`);
  - `no_leftover_result` — with nothing left over (and no deviation statements) `processAll` returns the
    loop's forest with `fixChoice` applied to every tree, errors = those recorded in it.
  - (E) `dump_of_path_view`, `dump_of_view` — the canonical dump is a function of the *path view* (which
    data — everything but the error list — sits at which step path; `Lemmas.IncludeAugDump.PEq`) for trees
    with `KeysUnique`: the order of the children in a `Dir` and recorded errors do not matter; and from C07's
    flat view (`viewOf`, what `include_augment_loop_order` speaks about) to the path view under `IOShape` (an rpc /
    action node has no `Dir` child, any other node no input / output) and `SameIO` (the same rpc inputs / outputs
    created).  `dump_not_function_of_flat_view`: `SameIO` cannot be dropped — the flat view shows an rpc's input
    whether or not goyang has created the entry, the dump only when it exists (witness `rpc0` / `rpc1`).
  - (F) `fixChoice_path_view` — `FixChoice` respects the path view of error-free trees (needed between the loop
    and the dump; `Lemmas.IncludeAugFix.keysUnique_fixChoice`: and keeps `KeysUnique`).
  - `include_dump_in_unsplit_order`, `include_clean_in_unsplit_order` — (E) + (F) + `no_leftover_result` applied to
    `include_augment_loop_order`: on the DUMP of every module, and for error-freeness, `Process` on the split set
    is the augment loop run in the module order of the unsplit set (`Lemmas.IncludeAugCompose.loopU`) followed
    by `FixChoice` (hypotheses on the two trees: `IOShape`, `SameIO`; kernel-checked on `Ex4`).
  - `include_dump_of_related_trees` — the last step, for ANY two outcomes: owner's tree `SameTop σ` the unsplit
    module's tree ⇒ equal dumps (namespace, read-only, instantiating module, path at every node).
  - `include_eq_inline_augments_reduced` — the composition, machine-checked: `IncludeEqInlineAugments` follows
    from `Lemmas.IncludeAugCompose.LoopsRelated` (the two loops run in the SAME module order: the split one
    records no error and leaves nothing pending, the owner's tree is the unsplit module's up to `SameTop σ`;
    `IOShape` of the owner's trees;
    `SameIO`), under `IsSplitOf` and `LoadedShape` / `AugPosDistinct` / `AugArgsPlain` of the split registry only.
  - (I), first half — CLOSED for every registry: `include_io_shape_along_loop` — every tree the conversion produces
    and every tree along the augment loop (any fuel, any module order) has `IOShape` (an rpc / action node has no
    `Dir` child, any other node no input / output).  It fits the call-site aware closure scheme `ClosedT` of
    Lemmas/BridgeTraverse.lean (frame `Lemmas.IncludeAugShape.shapeFrame`: the entry made from an rpc / action
    statement has no `Dir` child when its flag is set) and, for the loop, `AugClosed'` (`merge` only at targets that
    passed `cannotHaveChildren`).  `include_eq_inline_augments_reduced_sameIO`: `IncludeEqInlineAugments` from
    `Lemmas.IncludeAugIO.LoopsRelatedCore` (`LoopsRelated` without `IOShape` / `SameIO`) + `SameIO` of the owner's trees.
  - (I) for sets without rpc / action nodes — CLOSED: `include_no_rpc_along_loop` — when the converted trees and the
    children of the pending augment entries are free of rpc / action nodes and of input / output entries
    (`Lemmas.IncludeAugIO.NoIOStart`, decidable, evaluated on the converted set) they stay so along the loop, and any
    two such trees have `SameIO`; `include_eq_inline_augments_norpc_reduced`: for such split sets
    `IncludeEqInlineAugments` follows from `LoopsRelatedCore` alone.  Kernel-checked instance WITH augments: `Ex4`
    (`Ex4C.core`: no error, nothing pending, owner's tree `SameTop σ` the unsplit module's — `SameTop` is decidable,
    Lemmas/IncludeAugDec.lean), from which the conclusion is obtained through the proved chain;
    `include_eq_inline_augments_norpc_checked`: the same with the core as a decidable hypothesis
    (`Lemmas.IncludeAugDec.CoreCheck`), so that every hypothesis but `IsSplitOf` is decidable.
  - (S) for sets without rpc / action nodes — CLOSED: `Lemmas.IncludeAugSim.augmentLoop_rel` — the two augment loops
    (split set over `R'`, unsplit set over `R`), run with the same fuel over the same module array, keep the states
    related (`SR`: every other module's tree equal up to `ren σ`, the owner's tree `SameTop σ` the unsplit module's,
    the pending entries of every module equal up to `ren σ`, nothing pending for the submodules' trees, which stay
    error free); built from `findTree_split` (the tree `Find` moves to is the same for both registries and never a
    submodule's), `find_rel`, `sameTop_mergeAt` / `ren_mergeAt` (the update at the target), `augStep_rel`,
    `augmentTree_rel`, `augmentPass_rel`; `loopsRelatedCore_of_start` / `loopsRelatedCore_norpc`: `LoopsRelatedCore`
    from the relation of the two starting states, which `include_conversion` gives but for the pending entries.
  - **`include_eq_inline_augments_norpc`** — `IncludeEqInlineAugments` PROVED for split sets without rpc / action nodes
    with piece (A) as the decidable hypothesis `Lemmas.IncludeAugSim.PendRel` (pending augment entries of every module
    equal up to `ren σ`, rows present alike) — besides `IsSplitOf`: `LoadedShape` / `AugPosDistinct` / `AugArgsPlain` of
    `R'`, `NoIOStart` of both converted sets and `AllConverted R` (every module has a tree after conversion), all
    decidable and kernel-evaluated on `Ex4` WITHOUT running a loop (equal loop fuel is derived: `loopFuel_split`).
  Still missing for `IncludeEqInlineAugments` in general: (A) `PendRel` as a theorem — the pending ENTRIES of the owner's
  row equal the unsplit module's up to `ren σ` (`context_independence` gives it per statement once the state
  at the call is known coherent; the module-level conversion proofs `IncludeMod.mod_conv` /
  `IncludeModN.part_conv_aux` call `fields_rel` with a state relation `RSm` that ignores `TState.augs` — the
  `haug` argument of `fields_rel` is where a relation on the recorded rows has to be threaded through — done for
  a (sub)module without include statements, i.e. every module but the owner, in both registries:
  `Lemmas.IncludeAugRows.mod_conv_rows` (the rows appended are related entry by entry, `REb σ`, to those of the
  pure fold over the values); open: (A-owner) the owner (`part_conv_aux`: include steps between the field steps; the
  `augment` step is among the fields AFTER the include step, `keyC` of that proof, which has to be restated with
  `RSa` in place of `RSm`; `PGoal` / `FInv` do not speak about `TState.augs`, so the rows appended by the
  submodules' conversions (`(sb.seq, [])`) have to be added to them — i.e. the induction `part_conv` has to be
  restated, not only its last step) and the assembly over the conversion order (`conv_unsplit`, `conv_split_mods`
  with a row clause in `UInv` / `SInv`; `pendingOf` takes the FIRST row with the key, so "each module files one
  row" is part of it); note `REb σ` relates entries only where error free, `PendRel` asks equality: the entries of a
  clean conversion are error free only if their errors are collected into `forestErrs` — to be checked); the small
  side conditions `AllConverted R` and `NoIOStart R` (the second should follow from `NoIOStart R'` through
  `include_conversion`); (S) and (I, second half: `SameIO` of the two runs) for sets WITH rpc / action nodes — the
  simulation `augmentLoop_rel` uses that `Find` changes nothing on trees without rpc nodes (`walkParts_noIO`); with rpc
  nodes the lazily created inputs / outputs have to be carried through it.  (E) is closed; (I) is closed but for that.
  Also not done: `NoIOStart` from a condition on the STATEMENTS (no rpc / action / input / output statement in the set):
  the closure schemes `Closed` / `ClosedT` give no call-site information in their `setInp` / `setOut` clauses, a
  dedicated induction over `toEntry` would be needed.
  For sets WITH augments left for the stage after FixChoice the same pieces are needed for every
  retry round (each round is the same loop, `Lemmas/Rounds.lean`); `fixChoice` under `SameTop` is
  `Lemmas.IncludeMain.sameTop_fixChoice`, under the path view `fixChoice_path_view`.

Replay of the D67 witness (the texts are in the corpus file; both programs lived in /tmp).  Before the
repair — Go: `ms := yang.NewModules(); ms.Parse(text, name)` for every file in the order given,
`ms.Process()`: unsplit `[]`, split `[mb.yang:1:92: augment /t:ch/t:x/ma:y not found]`; model
(`lib.WireFiles(names, texts)` sent as `process 0 0 <wire>` to `.lake/build/bin/drv_res`): unsplit a dump
without `E` record (nodes `/t/ch/x/x`, `/t/ch/x/y` ns=urn:ma, `/t/ch/x/y/z` ns=urn:mb, `/t/keep/k`), split
`E mb.yang:1:92:augment-not-found`.  After the repair both sides return no error and the same nodes for
both sets (corr-c13c keeps the pair as a regression witness).

`IncludeEqInline` is the full statement (any registry, canonical dumps as the runner compares
them) — no longer refuted, not proved for sets with augments; the note at its definition lists what is
missing.
-/
namespace Goyang.Props.C13Include
open Goyang.Model Goyang.Spec.Include Goyang.Spec.Uses Goyang.Lemmas.Tree
open Goyang.Lemmas.IncludeRel Goyang.Lemmas.IncludeRun Goyang.Lemmas.IncludeMain
open Goyang.Lemmas (Fuel.need IncludeWorld.Wu IncludeWorld.Ws IncludeWorld.part_mem')

/-! ### the conversion stage -/

/-- **include_conversion.**  After `ToEntry` of all modules (`forest0`): error-freeness carries over
from the unsplit to the split set; every module other than the split one has the same tree up to
`ren σ` (module numbers of nodes that now live in a submodule's text); the owner's tree is the
unsplit module's: same data but for the statement object, the same children — each equal up to
`ren σ` — in another order, no rpc input/output. -/
theorem include_conversion (s : Split) (R R' : Registry) (opts : Opts) (plug plug' : Plug) (h : IsSplitOf s R R' plug plug')
    (hlink : (linkAll R).2 = []) (hclean : forestErrs (forest0 R opts plug) = []) :
    forestErrs (forest0 R' opts plug') = [] ∧
    (∀ x ∈ R.mods, x.seq ≠ s.m.seq → ∀ t, (forest0 R opts plug).tree? x.seq = some t →
      ∃ t', (forest0 R' opts plug').tree? x.seq = some t' ∧ ren s.σ t' = t) ∧
    (∃ t, (forest0 R opts plug).tree? s.m.seq = some t) ∧
    (∀ t, (forest0 R opts plug).tree? s.m.seq = some t →
      ∃ t', (forest0 R' opts plug').tree? s.m.seq = some t' ∧ SameTop s.σ t' t) :=
  conv_split opts plug plug' h hlink hclean

/-! ### `Modules.Process` -/

/-- **The full statement**: for every pair of
registries related by a split — any other modules, augments and deviations, nested includes among the
parts — a clean `Process` of the unsplit set implies a clean `Process` of the split set and equal
canonical dumps (children in name order at every level; kind, config, type, defaults, constraints,
namespace, read-only, instantiating module) of the split module.  Before the repair of finding D67 it
FAILED when augments waited for the stage after FixChoice (targets in implied cases, chained across
modules): that stage was one sweep in the order swap-remove had left the module array in, and the
additional submodule trees permute it.  The stage is now a fixpoint (`Model.leftoverRounds`) and the
witness pair satisfies the statement (`include_eq_inline_witness`); no counterexample is known.

Proved below: `include_eq_inline_noaug` (this very statement for sets without augment and deviation
statements), `include_eq_inline_partial` + `include_paths` (the same sets; `R` without submodules),
`include_conversion` (conversion stage, augments and deviations allowed), and for sets with augments
`include_pending_rows`, `include_augment_loop_order`, `include_augment_loop_clean_iff`, `no_leftover_result`,
`include_eq_inline_witness`, `dump_of_path_view` / `dump_of_view` (E), `fixChoice_path_view` (F),
`include_dump_in_unsplit_order`, `include_clean_in_unsplit_order`, `include_dump_of_related_trees`,
`include_eq_inline_augments_reduced`, `include_io_shape_along_loop` (I, first half, all sets), `include_no_rpc_along_loop`,
`include_eq_inline_augments_norpc_reduced`, `include_eq_inline_augments_norpc_checked`, `include_eq_inline_augments_reduced_sameIO`,
and `include_eq_inline_augments_norpc` (the statement itself for sets without rpc / action nodes, piece (A) as the decidable
hypothesis `PendRel`).
The statement with the hypotheses under which those results apply is `IncludeEqInlineAugments`.  What is
missing for it: (1) the augment loop
visits the trees in an order that the additional (augment-free) submodule trees change (swap-remove
over the module array), so children grafted by different modules into one node can arrive in another
order — CLOSED on the flat view by `include_augment_loop_order` (C07's order independence); what remains
is (A) the pending entries of the owner's row equal the unsplit module's up to `ren σ` (OPEN; a decidable hypothesis of
`include_eq_inline_augments_norpc`), (S) the lockstep
simulation of the two loops in the same module order on forests related by `ren σ` / `SameTop` (CLOSED for sets
without rpc / action nodes, `Lemmas.IncludeAugSim.augmentLoop_rel`), (I) `SameIO` of the two runs for sets with
rpc / action nodes (`IOShape` along the pipeline: CLOSED, `include_io_shape_along_loop`; sets without rpc / action nodes:
CLOSED, `include_no_rpc_along_loop`) ((E) the canonical dump as a function of the view: CLOSED, `dump_of_view`; the whole
composition from (A) + (S) + (I): `include_eq_inline_augments_reduced`); (3) nested includes among the parts ARE covered
(`parts_merge_each_submodule_once`); (4) other modules of `R` with submodules of their own (their include
steps run in lockstep in both registries; not done); deviations (after the augment stage: `find` on
related forests, as (S)).  The metamorphic runner harness/cmd/corr-c13c checks the full statement on both
sides, on sets with and without augments left for the stage after FixChoice, and keeps the D67 witness
pair as a regression witness. -/
def IncludeEqInline (s : Split) (R R' : Registry) (opts : Opts) (plug plug' : Plug) : Prop :=
  (processAll R opts plug).errors = [] →
    (processAll R' opts plug').errors = [] ∧
    dumpOf (processAll R' opts plug') s.owner = dumpOf (processAll R opts plug) s.m

/-- **include_eq_inline_partial.**  No augment or deviation statement in the loaded set: a clean
`Process` of the unsplit set implies a clean `Process` of the split set; every other module keeps its
tree (up to `ren σ`); the owner's tree is the unsplit module's tree with the children of the root
in another order (`SameTop`: same data but for the statement object, the same children up to
`ren σ`). -/
theorem include_eq_inline_partial (s : Split) (R R' : Registry) (opts : Opts) (plug plug' : Plug)
    (h : IsSplitOf s R R' plug plug') (hna : NoAugDev R) (hclean : (processAll R opts plug).errors = []) :
    (processAll R' opts plug').errors = [] ∧
    (∀ x ∈ R.mods, x.seq ≠ s.m.seq → ∀ t, (processAll R opts plug).forest.tree? x.seq = some t →
      ∃ t', (processAll R' opts plug').forest.tree? x.seq = some t' ∧ ren s.σ t' = t) ∧
    (∃ t, (processAll R opts plug).forest.tree? s.m.seq = some t) ∧
    (∀ t, (processAll R opts plug).forest.tree? s.m.seq = some t →
      ∃ t', (processAll R' opts plug').forest.tree? s.m.seq = some t' ∧ SameTop s.σ t' t) :=
  process_split opts plug plug' h hna hclean

/-- **include_paths.**  In the same setting, at every path into the module's tree: the same namespace (`namespaceAt`), the same read-only status (`readOnlyAt`), and
below the root the same subtree — every node with all its data, children in the same order — up to
`ren σ`. -/
theorem include_paths (s : Split) (R R' : Registry) (opts : Opts) (plug plug' : Plug)
    (h : IsSplitOf s R R' plug plug') (hna : NoAugDev R) (hclean : (processAll R opts plug).errors = [])
    (p : Path) :
    namespaceAt R' (processAll R' opts plug').forest (s.m.seq, p) = namespaceAt R (processAll R opts plug).forest (s.m.seq, p) ∧
    ∀ t' t, (processAll R' opts plug').forest.tree? s.m.seq = some t' → (processAll R opts plug).forest.tree? s.m.seq = some t →
      t'.readOnlyAt p = t.readOnlyAt p ∧ (p ≠ [] → (t'.getAt p).map (ren s.σ) = t.getAt p) :=
  process_split_paths opts plug plug' h hna hclean p


/-- **include_eq_inline_noaug.**  The full statement for sets without augment and deviation
statements: the canonical dump of the owner's tree (every node in name order with kind, config,
mandatory, defaults, units, key, list attributes, type, read-only, namespace, instantiating module,
path) is the dump of the unsplit module's tree. -/
theorem include_eq_inline_noaug (s : Split) (R R' : Registry) (opts : Opts) (plug plug' : Plug)
    (h : IsSplitOf s R R' plug plug') (hna : NoAugDev R) : IncludeEqInline s R R' opts plug plug' :=
  fun hclean => ⟨(process_split opts plug plug' h hna hclean).1, Lemmas.IncludeDump.dumpOf_split opts plug plug' h hna hclean⟩

/-! ### sets with augment statements -/

/-- **The statement for sets with augments that the results below work towards** (not proved in general;
reduced to `Lemmas.IncludeAugCompose.LoopsRelated` by `include_eq_inline_augments_reduced`; kernel-checked on `Ex4`): no deviation statement in the set, and the augment loop of the unsplit set
leaves no augment pending (`NoLeftover`: decidable by running the loop; it excludes the augments that
wait for the stage after FixChoice — targets in the implied case of a shorthand choice member).  Since
the repair of D67 the second hypothesis is no longer needed for the statement to hold on the known
inputs (`include_eq_inline_witness`: the former counterexample satisfies `IncludeEqInline` with
`NoLeftover` false); it delimits what `no_leftover_result` covers. -/
def IncludeEqInlineAugments (s : Split) (R R' : Registry) (opts : Opts) (plug plug' : Plug) : Prop :=
  (∀ x ∈ R.mods, x.stmt.all "deviation" = []) → Lemmas.IncludeAugOrder.NoLeftover R opts plug →
    IncludeEqInline s R R' opts plug plug'

/-- **include_pending_rows.**  What the split set hands to the augment loop: a submodule of the split has
nothing pending (augment statements stay with the owner); the row of every module `x` of the unsplit
set is empty or lists — one entry per statement, in written order — the augment statements of `x`
(for the owner: those of the unsplit module `m`). -/
theorem include_pending_rows (s : Split) (R R' : Registry) (opts : Opts) (plug plug' : Plug)
    (h : IsSplitOf s R R' plug plug') :
    (∀ sb ∈ s.subs, (pstate0 R' opts plug').pendingOf sb.seq = []) ∧
    (∀ x ∈ R.mods, (pstate0 R' opts plug').pendingOf x.seq = [] ∨
      ((pstate0 R' opts plug').pendingOf x.seq).map (·.d.node) = x.stmt.all "augment") :=
  ⟨fun _ hsb => Lemmas.IncludeAugOrder.pending_sub_nil opts plug plug' h hsb,
   fun _ hx => Lemmas.IncludeAugOrder.pending_stmts_split opts plug plug' h hx⟩

/-- **include_augment_loop_order.**  The augment loop of `Process` over the split set (`afterLoop R'`: the
module order of `R'`, which the augment-free submodule trees have changed through swap-remove) against
the same loop run in the module order of the UNSPLIT set: when the former leaves no `duplicate-node`
error, both end in the same flat view (C07: the same locations with the same data — children as sets)
and leave the same augments pending.  `LoadedShape`, `AugPosDistinct`, `AugArgsPlain` are C07's decidable
input predicates (distinct load numbers; augment statements of one module at different positions;
augment arguments absolute schema node identifiers). -/
theorem include_augment_loop_order (s : Split) (R R' : Registry) (opts : Opts) (plug plug' : Plug)
    (h : IsSplitOf s R R' plug plug') (hL : Lemmas.Fuel.LoadedShape R') (hpos : Lemmas.Bridge.AugPosDistinct R')
    (hplain : Lemmas.Bridge.AugArgsPlain R')
    (hfree : ∀ er, Lemmas.AugmentStep.FVisErr (afterLoop R' opts plug').2.forest er → er.cls ≠ "duplicate-node") :
    Spec.Augment.viewOf (augmentLoop R' (Lemmas.IncludeAugOrder.loopFuel R' opts plug') ((augOrder R).map (·.seq)).toArray
        (pstate0 R' opts plug')).2.forest = Spec.Augment.viewOf (afterLoop R' opts plug').2.forest ∧
    (∀ id a, a ∈ (augmentLoop R' (Lemmas.IncludeAugOrder.loopFuel R' opts plug') ((augOrder R).map (·.seq)).toArray
        (pstate0 R' opts plug')).2.pendingOf id ↔ a ∈ (afterLoop R' opts plug').2.pendingOf id) :=
  Lemmas.IncludeAugOrder.split_loop_in_unsplit_order opts plug plug' h hL hpos hplain hfree

/-- **include_augment_loop_clean_iff.**  … and the loop over the split set ends without recorded errors
in its own module order iff it does in the module order of the unsplit set. -/
theorem include_augment_loop_clean_iff (s : Split) (R R' : Registry) (opts : Opts) (plug plug' : Plug)
    (h : IsSplitOf s R R' plug plug') (hL : Lemmas.Fuel.LoadedShape R') (hpos : Lemmas.Bridge.AugPosDistinct R')
    (hplain : Lemmas.Bridge.AugArgsPlain R') (h0 : forestErrs (forest0 R' opts plug') = []) :
    Lemmas.AugmentReport.allErrs (afterLoop R' opts plug').2.forest = [] ↔
      Lemmas.AugmentReport.allErrs (augmentLoop R' (Lemmas.IncludeAugOrder.loopFuel R' opts plug')
        ((augOrder R).map (·.seq)).toArray (pstate0 R' opts plug')).2.forest = [] :=
  Lemmas.IncludeAugOrder.split_loop_clean_iff opts plug plug' h hL hpos hplain h0

/-- **no_leftover_result.**  Any registry without deviation statements whose loop leaves nothing pending,
first two stages clean: the retry rounds, the reporting sweep and the last FixChoice do nothing — `processAll` returns the
loop's forest with `fixChoice` applied to every tree, and the errors recorded in it. -/
theorem no_leftover_result (reg : Registry) (opts : Opts) (plug : Plug)
    (hn : Lemmas.IncludeAugOrder.NoLeftover reg opts plug) (hdev : ∀ x ∈ reg.mods, x.stmt.all "deviation" = [])
    (h1 : stage1Errs reg plug = []) (h2 : forestErrs (forest0 reg opts plug) = []) :
    (processAll reg opts plug).errors = canonErrs (forestErrs (fixAll (afterLoop reg opts plug).2).forest) ∧
    (processAll reg opts plug).forest = (fixAll (afterLoop reg opts plug).2).forest :=
  Lemmas.IncludeAugOrder.processAll_noLeftover reg opts plug hn hdev h1 h2

/-- **visible_when_grouping_names_distinct.**  The visibility condition is automatic when the
top-level grouping names of `m` are pairwise distinct (RFC 7950 requires it; goyang does not check):
from every part the search order of goyang's lookup reaches every part — the owner through its
include statements, a submodule through its owner. -/
theorem visible_when_grouping_names_distinct (s : Split) (R R' : Registry) (ht : TextOK s) (hr : RegsOK s R R')
    (hlink : (linkAll R).2 = []) (hnd : ((s.m.stmt.all "grouping").map (·.arg)).Nodup) :
    Visible s R' (linkAll R').1 :=
  Lemmas.IncludeVisibleN.visible_of_nodupN s R R' _ _ ht hr (Lemmas.IncludeLinkN.linkAll_splitN s R R' ht hr hlink).2 hnd

/-- **(d) what is needed of the plug**, discharged for the placeholder type layer (`typesLite`: the
written type name) with identity and typedef stages that report nothing.  For the full plug
(`Pipeline.plugFull R`, `plugFull R'`) the four clauses of `PlugSplitOK` are the obligations of the
type, identity and typedef layers: typedef lookup from a part must find what the lookup from `m`
finds (the analogue of `Visible` for typedefs), identities and typedefs of the parts must be
collected as if written in `m`. -/
theorem plugSplitOK_lite (s : Split) (R R' : Registry) (plug plug' : Plug)
    (h1 : plug.tres = typesLite) (h1' : plug'.tres = typesLite)
    (h2 : plug'.identityErrs R' = []) (h3 : plug'.typedefErrs R' = []) : PlugSplitOK s R R' plug plug' where
  identity := fun _ => h2
  typedefs := fun _ => h3
  types_part := fun _ _ _ _ => by rw [h1, h1']; rfl
  types_other := fun _ _ _ _ _ => by rw [h1, h1']; rfl

/-! ### the stages -/

/-- **(a) context_independence.**  The conversion of a statement depends on the (sub)module it is
written in only through type resolution, grouping lookup and the module number: when the
conversion of `n` below `inner` in the unsplit module `m` is error free — from any coherent state,
any fuel that leaves the slack, any set of statements in progress that the value of `n` does not
depend on — then the conversion of the same `n` below the same `inner` in a part `P` of the split
set, again from any coherent state etc., gives the same entry up to `ren σ`. -/
theorem context_independence (s : Split) (R R' : Registry) (opts : Opts) (plug plug' : Plug) (h : IsSplitOf s R R' plug plug')
    (hlink : (linkAll R).2 = []) (P : Mod) (hP : P ∈ s.parts) (inner : List Stmt) (n : Stmt)
    (hn : isModKw n = false) (hch : Chain s.m.stmt (n :: (inner ++ [s.m.stmt]))) (hch' : Chain P.stmt (n :: (inner ++ [P.stmt])))
    (f f' : Nat) (vis vis' : List NodeId) (st st' : TState)
    (hf : Fuel.need R s.m n vis + lookupSlack R ≤ f) (hf' : Fuel.need R' P n vis' + lookupSlack R' ≤ f')
    (hcoh : Coh (IncludeWorld.Wu R opts plug) st.gcache) (hcoh' : Coh (IncludeWorld.Ws s R R' opts plug plug') st'.gcache)
    (hv : Harmless (IncludeWorld.Wu R opts plug) vis (s.m, inner ++ [s.m.stmt], n))
    (hv' : Harmless (IncludeWorld.Ws s R R' opts plug plug') vis' (s.m, inner ++ [s.m.stmt], n))
    (hclean : Clean (toEntry (envOf R opts plug) f s.m (inner ++ [s.m.stmt]) n vis st).1) :
    ren s.σ (toEntry (envOf R' opts plug') f' P (inner ++ [P.stmt]) n vis' st').1 =
      (toEntry (envOf R opts plug) f s.m (inner ++ [s.m.stmt]) n vis st).1 := by
  have hu := (run_val (IncludeWorld.Wu R opts plug) (wu_ok opts plug plug' h) f s.m (inner ++ [s.m.stmt]) n vis st s.m
    (inner ++ [s.m.stmt]) ⟨rfl, rfl⟩ ⟨h.regs.m_mem, hch⟩ hn hf hcoh hv).1
  have hs := (run_val (IncludeWorld.Ws s R R' opts plug plug') (ws_ok opts plug plug' h hlink) f' P (inner ++ [P.stmt]) n vis' st' s.m
    (inner ++ [s.m.stmt]) (Or.inl ⟨hP, rfl, inner, rfl, rfl⟩) ⟨IncludeWorld.part_mem' h.regs hP, hch'⟩ hn hf' hcoh' hv').1
  have h1 : ren id (toEntry (envOf R opts plug) f s.m (inner ++ [s.m.stmt]) n vis st).1 =
      (IncludeWorld.Wu R opts plug).val s.m (inner ++ [s.m.stmt]) n := hu.1 hclean
  rw [ren_id] at h1
  have hc : Clean ((IncludeWorld.Ws s R R' opts plug plug').val s.m (inner ++ [s.m.stmt]) n) := by
    have : (IncludeWorld.Ws s R R' opts plug plug').val s.m (inner ++ [s.m.stmt]) n =
        (IncludeWorld.Wu R opts plug).val s.m (inner ++ [s.m.stmt]) n := rfl
    rw [this, ← h1]; exact hclean
  have h2 : ren s.σ (toEntry (envOf R' opts plug') f' P (inner ++ [P.stmt]) n vis' st').1 =
      (IncludeWorld.Ws s R R' opts plug plug').val s.m (inner ++ [s.m.stmt]) n := hs.2 hc
  rw [h2, h1]
  rfl

/-- **(b) grouping_found_same.**  From a place in a part, goyang's grouping lookup (C06: `findGrouping`
is `bindGrouping`) answers the very statement that the lookup from the same place in the unsplit
module answers, at the corresponding place (`CtxRel`): in a part again when it is one of `m`'s own
groupings — found through include statements or, from a submodule, through its owner — and in the
same other module otherwise. -/
theorem grouping_found_same (s : Split) (R R' : Registry) (h : TextOK s) (hr : RegsOK s R R')
    (hl : LinkOK s R (linkAll R).1 (linkAll R').1) (hv : Visible s R' (linkAll R').1) (P : Mod) (hP : P ∈ s.parts)
    (inner : List Stmt) (name : String) :
    Lemmas.IncludeBind.BindRel s R (bindGrouping R' (linkAll R').1 P inner name) (bindGrouping R (linkAll R).1 s.m inner name) :=
  Lemmas.IncludeVisibleN.bind_partN s R R' _ _ h hr hl hv P hP inner name

/-- **(c) parts_merge_each_submodule_once** (nested includes, the merged-submodule bookkeeping).
The conversion of a part `P` of the split (owner or submodule; not yet converted; `S` the names of
the submodules started so far, in agreement with goyang's `mergedSubmodule` keys and the module
cache: `PInv`) is — up to `ren σ`, where error free — the pure depth-first mirror `pp`
(`Lemmas.IncludeAsm.ppart`): `P`'s own field steps before the include step; then, for every include
statement in order, the target's conversion merged **iff the target has not been started yet**
(started from anywhere: the bookkeeping lets every submodule pass exactly once, a target already
started is skipped silently, and under `RegsOK.inc_no_back` — no part includes itself, no two parts
include each other — goyang's circularity error is never raised); then `P`'s remaining field steps.
Afterwards the state agrees with the started names of the mirror (`PGoal.inv`), `P` is in the module
cache (`self`), every newly started submodule is in the module cache (`newc`) with an entry that is
a value of the mirror (`cache`).  `PStmt`/`PGoal`: Lemmas/IncludeModN.lean. -/
theorem parts_merge_each_submodule_once (s : Split) (R R' : Registry) (opts : Opts) (plug plug' : Plug)
    (h : IsSplitOf s R R' plug plug') (hlink : (linkAll R).2 = []) (f : Nat) : Lemmas.IncludeModN.PStmt s R R' opts plug plug' f :=
  Lemmas.IncludeModN.part_conv opts plug plug' h.text h.regs
    (Lemmas.IncludeLinkN.linkAll_splitN s R R' h.text h.regs hlink).2 (ws_ok opts plug plug' h hlink) f

/-! ### non-vacuity: a module with two containers and a grouping, split into two submodules

```
module m { namespace "urn:m"; prefix p;                      module m { namespace "urn:m"; prefix p; include s1; include s2; }
  container c1 { uses g; }                                   submodule s1 { belongs-to m { prefix p; } container c1 { uses g; } }
  grouping g { leaf x { type string; } }          ~>         submodule s2 { belongs-to m { prefix p; }
  container c2 { leaf y { type int8; } } }                     grouping g { leaf x { type string; } } container c2 { leaf y { type int8; } } }
```
The registries are what `Registry.loadAll` makes of the statements.  Every hypothesis is discharged
(kernel-checked where it is a computation; the conversion of the split set itself does not reduce in
the kernel — `String.contains` in the lookup across files — its result is what the theorem gives). -/
namespace Ex
def st (file kw arg : String) (l c : Nat) (subs : List Stmt) : Stmt := .mk kw true arg file l c subs
def ty (n : String) : Stmt := st "m" "type" n 0 0 []
def gS : Stmt := st "m" "grouping" "g" 3 3 [st "m" "leaf" "x" 3 15 [ty "string"]]
def c1 : Stmt := st "m" "container" "c1" 4 3 [st "m" "uses" "g" 4 20 []]
def c2 : Stmt := st "m" "container" "c2" 5 3 [st "m" "leaf" "y" 5 20 [ty "int8"]]
def nsS : Stmt := st "m" "namespace" "urn:m" 1 12 []
def pfS : Stmt := st "m" "prefix" "p" 1 30 []
def mS : Stmt := st "m" "module" "m" 1 1 [nsS, pfS, c1, gS, c2]
-- the split texts (the moved statements are the same statement values)
def inc1 : Stmt := st "o" "include" "s1" 2 3 []
def inc2 : Stmt := st "o" "include" "s2" 3 3 []
def oS : Stmt := st "o" "module" "m" 1 1 [nsS, pfS, inc1, inc2]
def bt (f : String) : Stmt := st f "belongs-to" "m" 1 15 [pfS]
def s1S : Stmt := st "s1" "submodule" "s1" 1 1 [bt "s1", c1]
def s2S : Stmt := st "s2" "submodule" "s2" 1 1 [bt "s2", gS, c2]
def m : Mod := { seq := 0, stmt := mS }
def o : Mod := { seq := 0, stmt := oS }
def s1 : Mod := { seq := 1, stmt := s1S }
def s2 : Mod := { seq := 2, stmt := s2S }
def R : Registry := (Registry.loadAll [mS]).1
def R' : Registry := (Registry.loadAll [oS, s1S, s2S]).1
def plug : Plug := { tres := typesLite, identityErrs := fun _ => [], typedefErrs := fun _ => [] }
def sp : Split := { m := m, owner := o, subs := [s1, s2] }

theorem R_mods : R.mods = [m] := rfl
theorem R'_mods : R'.mods = [o, s1, s2] := rfl

theorem mem_subs {sb : Mod} (h : sb ∈ sp.subs) : sb = s1 ∨ sb = s2 := by simpa [sp] using h
theorem mem_R {x : Mod} (h : x ∈ R.mods) : x = m := by rw [R_mods] at h; simpa using h
theorem mem_parts {P : Mod} (h : P ∈ sp.parts) : P = o ∨ P = s1 ∨ P = s2 := by simpa [sp, Split.parts] using h

theorem textOK : TextOK sp where
  m_kw := rfl
  owner_kw := rfl
  owner_arg := rfl
  m_no_include := rfl
  m_no_belongs := rfl
  kept := by
    intro kw hkw
    simp only [keptKws, List.mem_cons, List.mem_nil_iff, or_false] at hkw
    rcases hkw with rfl | rfl | rfl | rfl | rfl | rfl | rfl | rfl <;> rfl
  sub_kw := by intro sb hsb; rcases mem_subs hsb with rfl | rfl <;> rfl
  sub_belongs := by intro sb hsb; rcases mem_subs hsb with rfl | rfl <;> rfl
  sub_prefix := by intro sb hsb; rcases mem_subs hsb with rfl | rfl <;> rfl
  sub_imports := by intro sb hsb; rcases mem_subs hsb with rfl | rfl <;> rfl
  sub_no_aug := by intro sb hsb; rcases mem_subs hsb with rfl | rfl <;> exact ⟨rfl, rfl, rfl⟩
  body := by
    intro kw hkw
    simp only [bodyKws, List.mem_cons, List.mem_nil_iff, or_false] at hkw
    rcases hkw with rfl | rfl | rfl | rfl | rfl | rfl | rfl | rfl | rfl | rfl | rfl <;> exact List.Perm.refl _

theorem regsOK : RegsOK sp R R' where
  m_mem := by rw [R_mods]; simp [sp]
  owner_seq := rfl
  seqs_nodup := by decide +kernel
  sub_seqs_fresh := by
    intro sb hsb x hx
    have h2 := mem_R hx
    subst h2
    rcases mem_subs hsb with rfl | rfl <;> decide
  sub_seqs_nodup := by decide
  sub_names_nodup := by decide
  mods' := rfl
  modules' := rfl
  subModules := rfl
  subModules' := rfl
  R_modules_only := by
    intro x hx
    have h2 := mem_R hx
    subst h2
    exact ⟨rfl, rfl, rfl⟩
  keys_valid := by
    intro kv hkv
    have : kv = ("m", 0) := by
      have h : R.modules = [("m", 0)] := rfl
      rw [h] at hkv; simpa using hkv
    subst this
    exact ⟨m, by rw [R_mods]; simp, rfl⟩
  m_bound := rfl
  sub_name_ne := by intro sb hsb; rcases mem_subs hsb with rfl | rfl <;> decide
  inc_resolve := by
    intro P hP a ha
    rcases mem_parts hP with rfl | rfl | rfl
    · have : a = inc1 ∨ a = inc2 := by
        have h : a ∈ [inc1, inc2] := ha
        simpa using h
      rcases this with rfl | rfl
      · exact ⟨s1, by simp [sp], rfl⟩
      · exact ⟨s2, by simp [sp], rfl⟩
    · have h : a ∈ ([] : List Stmt) := ha
      cases h
    · have h : a ∈ ([] : List Stmt) := ha
      cases h
  inc_cover := by
    intro sb hsb
    rcases mem_subs hsb with rfl | rfl
    · exact .step (.refl _) ⟨inc1, (by show inc1 ∈ [inc1, inc2]; simp), rfl⟩
    · exact .step (.refl _) ⟨inc2, (by show inc2 ∈ [inc1, inc2]; simp), rfl⟩
  inc_no_back := by
    intro P hP Q hQ hinc
    have hsub : ∀ X, X = s1 ∨ X = s2 → ∀ Y, ¬ Includes R' X Y := by
      rintro X (rfl | rfl) Y ⟨a, ha, _⟩
      · have h : a ∈ ([] : List Stmt) := ha
        cases h
      · have h : a ∈ ([] : List Stmt) := ha
        cases h
    rcases mem_parts hP with rfl | rfl | rfl
    · refine ⟨?_, ?_⟩
      · rintro rfl
        obtain ⟨a, ha, hf⟩ := hinc
        have : a = inc1 ∨ a = inc2 := by
          have h : a ∈ [inc1, inc2] := ha
          simpa using h
        rcases this with rfl | rfl
        · have h2 : R'.findModule true inc1 = some s1 := rfl
          rw [h2] at hf
          have : s1.seq = o.seq := by rw [Option.some.inj hf]
          exact absurd this (by decide)
        · have h2 : R'.findModule true inc2 = some s2 := rfl
          rw [h2] at hf
          have : s2.seq = o.seq := by rw [Option.some.inj hf]
          exact absurd this (by decide)
      · obtain ⟨a, ha, hf⟩ := hinc
        have : a = inc1 ∨ a = inc2 := by
          have h : a ∈ [inc1, inc2] := ha
          simpa using h
        rcases this with rfl | rfl
        · have h2 : R'.findModule true inc1 = some s1 := rfl
          rw [h2] at hf
          rw [← Option.some.inj hf]
          exact hsub s1 (Or.inl rfl) _
        · have h2 : R'.findModule true inc2 = some s2 := rfl
          rw [h2] at hf
          rw [← Option.some.inj hf]
          exact hsub s2 (Or.inr rfl) _
    · exact absurd hinc (hsub s1 (Or.inl rfl) Q)
    · exact absurd hinc (hsub s2 (Or.inr rfl) Q)
  keys_inj := by decide +kernel

/-- From every part the grouping `g` binds to `m`'s statement, found in `s2`: from the owner through
its include statements, from `s1` through its owner, in `s2` itself. -/
theorem visible : Visible sp R' (linkAll R').1 := by
  intro P hP g hg
  have h1 : P = o ∨ P = s1 ∨ P = s2 := by simpa [sp, Split.parts] using hP
  have h2 : g = gS := by
    have : g ∈ [gS] := hg
    simpa using this
  subst h2
  rcases h1 with rfl | rfl | rfl <;> exact ⟨s2, by simp [sp, Split.parts], rfl⟩

theorem plugOK : PlugSplitOK sp R R' plug plug where
  identity := fun _ => rfl
  typedefs := fun _ => rfl
  types_part := fun _ _ _ _ => rfl
  types_other := fun _ _ _ _ _ => rfl

theorem isSplit : IsSplitOf sp R R' plug plug where
  text := textOK
  regs := regsOK
  visible := visible
  plugOK := plugOK
  pos := Lemmas.IncludeCheck.posWF_of_check R (by decide +kernel)
  pos' := Lemmas.IncludeCheck.posWF_of_check R' (by decide +kernel)
  refs := Lemmas.IncludeCheck.refsWF_of_check R (by decide +kernel)
  refs' := Lemmas.IncludeCheck.refsWF_of_check R' (by decide +kernel)
  fuel := Lemmas.IncludeCheck.lookupFuelOK_of_check R (by decide +kernel)
  fuel' := Lemmas.IncludeCheck.lookupFuelOK_of_check R' (by decide +kernel)

theorem noAugDev : NoAugDev R := by
  intro x hx
  have h2 := mem_R hx
  subst h2
  exact ⟨rfl, rfl⟩

/-- The unsplit set processes without errors (evaluated in the kernel). -/
theorem unsplit_clean : (processAll R {} plug).errors = [] := by decide +kernel

-- the unsplit module's tree, evaluated: the containers in field order, the grouping's leaf copied
example : ((processAll R {} plug).forest.tree? 0).map (fun t => t.dir.map fun c => (c.name, c.dir.map (·.name))) =
    some [("c1", ["x"]), ("c2", ["y"])] := by decide +kernel

/-- **The hypotheses of `include_eq_inline_partial` are satisfiable**, and what it says here: the split
set processes without errors and the owner's tree is the unsplit module's. -/
theorem split_result :
    (processAll R' {} plug).errors = [] ∧
    ∃ t t', (processAll R {} plug).forest.tree? 0 = some t ∧ (processAll R' {} plug).forest.tree? 0 = some t' ∧
      SameTop sp.σ t' t := by
  obtain ⟨h1, _, ⟨t, ht⟩, h4⟩ := include_eq_inline_partial sp R R' {} plug plug isSplit noAugDev unsplit_clean
  obtain ⟨t', ht', hst⟩ := h4 t ht
  exact ⟨h1, t, t', ht, ht', hst⟩

/-- The canonical dumps of the two results are equal. -/
theorem split_dump : dumpOf (processAll R' {} plug) o = dumpOf (processAll R {} plug) m :=
  (include_eq_inline_noaug sp R R' {} plug plug isSplit noAugDev unsplit_clean).2

/-- … and at the path `/m/c1/x` (the leaf that came through `uses g`, written in `s2`, used in `s1`):
same namespace, same read-only status, same node. -/
example : namespaceAt R' (processAll R' {} plug).forest (0, [.child "c1", .child "x"]) = "urn:m" := by
  have := (include_paths sp R R' {} plug plug isSplit noAugDev unsplit_clean [.child "c1", .child "x"]).1
  have h0 : sp.m.seq = 0 := rfl
  rw [h0] at this
  rw [this]
  decide +kernel

-- the link stage of the split set, evaluated: every part is linked
example : (linkAll R').1 = [2, 1, 0] ∧ (linkAll R').2 = [] := by decide +kernel
end Ex


/-! ### non-vacuity, nested includes: `s1` also includes `s2` (the shape of the runner's splits)

```
module m { … include s1; include s2; }
submodule s1 { belongs-to m { prefix p; } include s2; container c1 { uses g; } }
submodule s2 { belongs-to m { prefix p; } grouping g { … } container c2 { … } }
```
Here goyang converts `s2` while converting `s1` (started from `s1`'s include statement), merges its
entry into `s1`'s, `s1`'s into the owner's, and skips the owner's own `include s2` (already merged). -/
namespace Ex2
open Ex
def inc2' : Stmt := st "s1" "include" "s2" 2 3 []
def s1S' : Stmt := st "s1" "submodule" "s1" 1 1 [bt "s1", inc2', c1]
def s1' : Mod := { seq := 1, stmt := s1S' }
def R2 : Registry := (Registry.loadAll [oS, s1S', s2S]).1
def sp2 : Split := { m := m, owner := o, subs := [s1', s2] }

theorem R2_mods : R2.mods = [o, s1', s2] := rfl
theorem mem_subs2 {sb : Mod} (h : sb ∈ sp2.subs) : sb = s1' ∨ sb = s2 := by simpa [sp2] using h
theorem mem_parts2 {P : Mod} (h : P ∈ sp2.parts) : P = o ∨ P = s1' ∨ P = s2 := by simpa [sp2, Split.parts] using h

theorem textOK2 : TextOK sp2 where
  m_kw := rfl
  owner_kw := rfl
  owner_arg := rfl
  m_no_include := rfl
  m_no_belongs := rfl
  kept := by
    intro kw hkw
    simp only [keptKws, List.mem_cons, List.mem_nil_iff, or_false] at hkw
    rcases hkw with rfl | rfl | rfl | rfl | rfl | rfl | rfl | rfl <;> rfl
  sub_kw := by intro sb hsb; rcases mem_subs2 hsb with rfl | rfl <;> rfl
  sub_belongs := by intro sb hsb; rcases mem_subs2 hsb with rfl | rfl <;> rfl
  sub_prefix := by intro sb hsb; rcases mem_subs2 hsb with rfl | rfl <;> rfl
  sub_imports := by intro sb hsb; rcases mem_subs2 hsb with rfl | rfl <;> rfl
  sub_no_aug := by intro sb hsb; rcases mem_subs2 hsb with rfl | rfl <;> exact ⟨rfl, rfl, rfl⟩
  body := by
    intro kw hkw
    simp only [bodyKws, List.mem_cons, List.mem_nil_iff, or_false] at hkw
    rcases hkw with rfl | rfl | rfl | rfl | rfl | rfl | rfl | rfl | rfl | rfl | rfl <;> exact List.Perm.refl _

/-- The include statements of the three parts and what they resolve to. -/
theorem includes2 {P Q : Mod} (hP : P ∈ sp2.parts) (h : Includes R2 P Q) :
    (P = o ∧ (Q = s1' ∨ Q = s2)) ∨ (P = s1' ∧ Q = s2) := by
  obtain ⟨a, ha, hf⟩ := h
  rcases mem_parts2 hP with rfl | rfl | rfl
  · have : a = inc1 ∨ a = inc2 := by
      have h : a ∈ [inc1, inc2] := ha
      simpa using h
    rcases this with rfl | rfl
    · have h2 : R2.findModule true inc1 = some s1' := rfl
      rw [h2] at hf
      exact Or.inl ⟨rfl, Or.inl (Option.some.inj hf).symm⟩
    · have h2 : R2.findModule true inc2 = some s2 := rfl
      rw [h2] at hf
      exact Or.inl ⟨rfl, Or.inr (Option.some.inj hf).symm⟩
  · have : a = inc2' := by
      have h : a ∈ [inc2'] := ha
      simpa using h
    subst this
    have h2 : R2.findModule true inc2' = some s2 := rfl
    rw [h2] at hf
    exact Or.inr ⟨rfl, (Option.some.inj hf).symm⟩
  · have h : a ∈ ([] : List Stmt) := ha
    cases h

theorem regsOK2 : RegsOK sp2 R R2 where
  m_mem := by rw [R_mods]; simp [sp2]
  owner_seq := rfl
  seqs_nodup := by decide +kernel
  sub_seqs_fresh := by
    intro sb hsb x hx
    have h2 := mem_R hx
    subst h2
    rcases mem_subs2 hsb with rfl | rfl <;> decide
  sub_seqs_nodup := by decide
  sub_names_nodup := by decide
  mods' := rfl
  modules' := rfl
  subModules := rfl
  subModules' := rfl
  R_modules_only := by
    intro x hx
    have h2 := mem_R hx
    subst h2
    exact ⟨rfl, rfl, rfl⟩
  keys_valid := by
    intro kv hkv
    have : kv = ("m", 0) := by
      have h : R.modules = [("m", 0)] := rfl
      rw [h] at hkv; simpa using hkv
    subst this
    exact ⟨m, by rw [R_mods]; simp, rfl⟩
  m_bound := rfl
  sub_name_ne := by intro sb hsb; rcases mem_subs2 hsb with rfl | rfl <;> decide
  inc_resolve := by
    intro P hP a ha
    rcases mem_parts2 hP with rfl | rfl | rfl
    · have : a = inc1 ∨ a = inc2 := by
        have h : a ∈ [inc1, inc2] := ha
        simpa using h
      rcases this with rfl | rfl
      · exact ⟨s1', by simp [sp2], rfl⟩
      · exact ⟨s2, by simp [sp2], rfl⟩
    · have : a = inc2' := by
        have h : a ∈ [inc2'] := ha
        simpa using h
      subst this
      exact ⟨s2, by simp [sp2], rfl⟩
    · have h : a ∈ ([] : List Stmt) := ha
      cases h
  inc_cover := by
    intro sb hsb
    rcases mem_subs2 hsb with rfl | rfl
    · exact .step (.refl _) ⟨inc1, (by show inc1 ∈ [inc1, inc2]; simp), rfl⟩
    · exact .step (.refl _) ⟨inc2, (by show inc2 ∈ [inc1, inc2]; simp), rfl⟩
  inc_no_back := by
    intro P hP Q hQ hinc
    have hne1 : s1' ≠ o := fun e => absurd (congrArg (·.seq) e) (by decide)
    have hne2 : s2 ≠ o := fun e => absurd (congrArg (·.seq) e) (by decide)
    have hne3 : s2 ≠ s1' := fun e => absurd (congrArg (·.seq) e) (by decide)
    rcases includes2 hP hinc with ⟨rfl, rfl | rfl⟩ | ⟨rfl, rfl⟩
    · refine ⟨hne1, fun hb => ?_⟩
      rcases includes2 hQ hb with ⟨e, _⟩ | ⟨_, e⟩
      · exact hne1 e
      · exact hne2 e.symm
    · refine ⟨hne2, fun hb => ?_⟩
      rcases includes2 hQ hb with ⟨e, _⟩ | ⟨e, _⟩
      · exact hne2 e
      · exact hne3 e
    · refine ⟨hne3, fun hb => ?_⟩
      rcases includes2 hQ hb with ⟨e, _⟩ | ⟨e, _⟩
      · exact hne2 e
      · exact hne3 e
  keys_inj := by decide +kernel

theorem visible2 : Visible sp2 R2 (linkAll R2).1 := by
  intro P hP g hg
  have h2 : g = gS := by
    have : g ∈ [gS] := hg
    simpa using this
  subst h2
  rcases mem_parts2 hP with rfl | rfl | rfl <;> exact ⟨s2, by simp [sp2, Split.parts], rfl⟩

theorem isSplit2 : IsSplitOf sp2 R R2 plug plug where
  text := textOK2
  regs := regsOK2
  visible := visible2
  plugOK := ⟨fun _ => rfl, fun _ => rfl, fun _ _ _ _ => rfl, fun _ _ _ _ _ => rfl⟩
  pos := Lemmas.IncludeCheck.posWF_of_check R (by decide +kernel)
  pos' := Lemmas.IncludeCheck.posWF_of_check R2 (by decide +kernel)
  refs := Lemmas.IncludeCheck.refsWF_of_check R (by decide +kernel)
  refs' := Lemmas.IncludeCheck.refsWF_of_check R2 (by decide +kernel)
  fuel := Lemmas.IncludeCheck.lookupFuelOK_of_check R (by decide +kernel)
  fuel' := Lemmas.IncludeCheck.lookupFuelOK_of_check R2 (by decide +kernel)

/-- The nested split processes without errors and gives the same dump. -/
theorem nested_result :
    (processAll R2 {} plug).errors = [] ∧ dumpOf (processAll R2 {} plug) o = dumpOf (processAll R {} plug) m :=
  include_eq_inline_noaug sp2 R R2 {} plug plug isSplit2 noAugDev unsplit_clean
end Ex2


/-! ### the D67 witness (replayed on the Go code and on the model): refuted the full statement before the repair

```
module ma { … import t …; augment "/t:ch/t:x" { container y { } } }
module mb { … import t …; import ma …; augment "/t:ch/t:x/ma:y" { leaf z { type string; } } }
module t  { … choice ch { leaf x { type string; } } container keep { leaf k { type string; } } }
      ~>   module t { … include a-sub; choice ch { leaf x { … } } }
           submodule a-sub { belongs-to t { prefix t; } container keep { leaf k { … } } }
```
`/t:ch/t:x` is the leaf `x` until FixChoice wraps it into the implied case `x`: neither augment is
applicable in the loop, both wait for the stage after FixChoice, which the unsplit set enters with the
modules in the order [ma, mb] and the split set in the order [mb, ma] (swap-remove of `a-sub`, then of
`t`).  With the single sweep `mb`'s target did not exist yet in the split run (`augment-not-found`); the
retry rounds apply `ma` in the first pass, `mb` in the second, in both runs. -/
namespace Ex3
open Ex (st plug)
def ty (f : String) (l c : Nat) : Stmt := st f "type" "string" l c []
def nsT : Stmt := st "t" "namespace" "urn:t" 1 12 []
def pfT : Stmt := st "t" "prefix" "t" 1 30 []
def imp (f m : String) (c : Nat) : Stmt := st f "import" m 1 c [st f "prefix" m 1 (c + 10) []]
def augA : Stmt := st "ma" "augment" "/t:ch/t:x" 1 70 [st "ma" "container" "y" 1 92 []]
def maS : Stmt := st "ma" "module" "ma" 1 1 [st "ma" "namespace" "urn:ma" 1 12 [], st "ma" "prefix" "ma" 1 30 [], imp "ma" "t" 40, augA]
def augB : Stmt := st "mb" "augment" "/t:ch/t:x/ma:y" 1 92 [st "mb" "leaf" "z" 1 120 [ty "mb" 1 130]]
def mbS : Stmt :=
  st "mb" "module" "mb" 1 1 [st "mb" "namespace" "urn:mb" 1 12 [], st "mb" "prefix" "mb" 1 30 [], imp "mb" "t" 40, imp "mb" "ma" 60, augB]
def chS : Stmt := st "t" "choice" "ch" 1 40 [st "t" "leaf" "x" 1 52 [ty "t" 1 61]]
def keepS : Stmt := st "t" "container" "keep" 1 80 [st "t" "leaf" "k" 1 97 [ty "t" 1 106]]
def tS : Stmt := st "t" "module" "t" 1 1 [nsT, pfT, chS, keepS]
def incS : Stmt := st "o" "include" "a-sub" 1 35 []
def oS : Stmt := st "o" "module" "t" 1 1 [nsT, pfT, incS, chS]
def btS : Stmt := st "a-sub" "belongs-to" "t" 1 20 [pfT]
def subS : Stmt := st "a-sub" "submodule" "a-sub" 1 1 [btS, keepS]
def ma : Mod := { seq := 0, stmt := maS }
def mb : Mod := { seq := 1, stmt := mbS }
def t : Mod := { seq := 2, stmt := tS }
def o : Mod := { seq := 2, stmt := oS }
def sub : Mod := { seq := 3, stmt := subS }
def R : Registry := (Registry.loadAll [maS, mbS, tS]).1
def R' : Registry := (Registry.loadAll [maS, mbS, oS, subS]).1
def sp : Split := { m := t, owner := o, subs := [sub] }

theorem R_mods : R.mods = [ma, mb, t] := rfl
theorem R'_mods : R'.mods = [ma, mb, o, sub] := rfl
theorem mem_subs {sb : Mod} (h : sb ∈ sp.subs) : sb = sub := by simpa [sp] using h
theorem mem_R {x : Mod} (h : x ∈ R.mods) : x = ma ∨ x = mb ∨ x = t := by rw [R_mods] at h; simpa using h
theorem mem_parts {P : Mod} (h : P ∈ sp.parts) : P = o ∨ P = sub := by simpa [sp, Split.parts] using h

theorem textOK : TextOK sp where
  m_kw := rfl
  owner_kw := rfl
  owner_arg := rfl
  m_no_include := rfl
  m_no_belongs := rfl
  kept := by
    intro kw hkw
    simp only [keptKws, List.mem_cons, List.mem_nil_iff, or_false] at hkw
    rcases hkw with rfl | rfl | rfl | rfl | rfl | rfl | rfl | rfl <;> rfl
  sub_kw := by intro sb hsb; rw [mem_subs hsb]; rfl
  sub_belongs := by intro sb hsb; rw [mem_subs hsb]; rfl
  sub_prefix := by intro sb hsb; rw [mem_subs hsb]; rfl
  sub_imports := by intro sb hsb; rw [mem_subs hsb]; rfl
  sub_no_aug := by intro sb hsb; rw [mem_subs hsb]; exact ⟨rfl, rfl, rfl⟩
  body := by
    intro kw hkw
    simp only [bodyKws, List.mem_cons, List.mem_nil_iff, or_false] at hkw
    rcases hkw with rfl | rfl | rfl | rfl | rfl | rfl | rfl | rfl | rfl | rfl | rfl <;> exact List.Perm.refl _

theorem includes3 {P Q : Mod} (hP : P ∈ sp.parts) (h : Includes R' P Q) : P = o ∧ Q = sub := by
  obtain ⟨a, ha, hf⟩ := h
  rcases mem_parts hP with rfl | rfl
  · have : a = incS := by
      have h : a ∈ [incS] := ha
      simpa using h
    subst this
    have h2 : R'.findModule true incS = some sub := rfl
    rw [h2] at hf
    exact ⟨rfl, (Option.some.inj hf).symm⟩
  · have h : a ∈ ([] : List Stmt) := ha
    cases h

theorem regsOK : RegsOK sp R R' where
  m_mem := by rw [R_mods]; simp [sp]
  owner_seq := rfl
  seqs_nodup := by decide +kernel
  sub_seqs_fresh := by
    intro sb hsb x hx
    rw [mem_subs hsb]
    rcases mem_R hx with rfl | rfl | rfl <;> decide
  sub_seqs_nodup := by decide
  sub_names_nodup := by decide
  mods' := rfl
  modules' := rfl
  subModules := rfl
  subModules' := rfl
  R_modules_only := by
    intro x hx
    rcases mem_R hx with rfl | rfl | rfl <;> exact ⟨rfl, rfl, rfl⟩
  keys_valid := by
    intro kv hkv
    have h : R.modules = [("ma", 0), ("mb", 1), ("t", 2)] := rfl
    rw [h] at hkv
    simp only [List.mem_cons, List.mem_nil_iff, or_false] at hkv
    rcases hkv with rfl | rfl | rfl
    · exact ⟨ma, by rw [R_mods]; simp, rfl⟩
    · exact ⟨mb, by rw [R_mods]; simp, rfl⟩
    · exact ⟨t, by rw [R_mods]; simp, rfl⟩
  m_bound := rfl
  sub_name_ne := by intro sb hsb; rw [mem_subs hsb]; decide
  inc_resolve := by
    intro P hP a ha
    rcases mem_parts hP with rfl | rfl
    · have : a = incS := by
        have h : a ∈ [incS] := ha
        simpa using h
      subst this
      exact ⟨sub, by simp [sp], rfl⟩
    · have h : a ∈ ([] : List Stmt) := ha
      cases h
  inc_cover := by
    intro sb hsb
    rw [mem_subs hsb]
    exact .step (.refl _) ⟨incS, (by show incS ∈ [incS]; simp), rfl⟩
  inc_no_back := by
    intro P hP Q hQ hinc
    have hne : sub ≠ o := fun e => absurd (congrArg (·.seq) e) (by decide)
    obtain ⟨rfl, rfl⟩ := includes3 hP hinc
    refine ⟨hne, fun hb => ?_⟩
    exact hne (includes3 hQ hb).1
  keys_inj := by decide +kernel

theorem visible : Visible sp R' (linkAll R').1 := by
  intro P hP g hg
  have h : g ∈ ([] : List Stmt) := hg
  cases h

theorem isSplit : IsSplitOf sp R R' plug plug where
  text := textOK
  regs := regsOK
  visible := visible
  plugOK := ⟨fun _ => rfl, fun _ => rfl, fun _ _ _ _ => rfl, fun _ _ _ _ _ => rfl⟩
  pos := Lemmas.IncludeCheck.posWF_of_check R (by decide +kernel)
  pos' := Lemmas.IncludeCheck.posWF_of_check R' (by decide +kernel)
  refs := Lemmas.IncludeCheck.refsWF_of_check R (by decide +kernel)
  refs' := Lemmas.IncludeCheck.refsWF_of_check R' (by decide +kernel)
  fuel := Lemmas.IncludeCheck.lookupFuelOK_of_check R (by decide +kernel)
  fuel' := Lemmas.IncludeCheck.lookupFuelOK_of_check R' (by decide +kernel)

open Goyang.Lemmas.IncludeAugK in
theorem unsplit_clean : (processAll R {} plug).errors = [] := by
  rw [processAll_errors_K R {} plug (by decide +kernel) (by decide +kernel)]; decide +kernel

open Goyang.Lemmas.IncludeAugK in
theorem split_clean : (processAll R' {} plug).errors = [] := by
  rw [processAll_errors_K R' {} plug (by decide +kernel) (by decide +kernel)]; decide +kernel

open Goyang.Lemmas.IncludeAugK in
theorem split_dump : dumpOf (processAll R' {} plug) o = dumpOf (processAll R {} plug) t := by
  unfold dumpOf
  rw [processAll_forest_K R' {} plug (by decide +kernel) (by decide +kernel),
    processAll_forest_K R {} plug (by decide +kernel) (by decide +kernel),
    Lemmas.IncludeDump.processAll_reg, Lemmas.IncludeDump.processAll_reg]
  decide +kernel

open Goyang.Lemmas.IncludeAugK Goyang.Lemmas.IncludeAugOrder in
/-- Both augments of the witness wait for the stage after FixChoice: the loop of the unsplit set leaves
them pending (`NoLeftover` does not hold; the pair is outside `IncludeEqInlineAugments`). -/
theorem leftover : ¬ NoLeftover R {} plug := by
  unfold NoLeftover; rw [afterLoop_eqK]; decide +kernel
end Ex3

/-- **include_eq_inline_witness.**  The D67 witness pair after the repair: the set with the augment-free
submodule split off processes without errors like the unsplit set, and the dumps of `t` are equal —
`IncludeEqInline` holds of it, although both augments wait for the stage after FixChoice
(`Ex3.leftover`) and the two runs enter that stage with the modules in opposite orders.  Before the
repair (one ordered sweep `Augment(true)` instead of the retry rounds) the split set returned
`augment-not-found` here and this pair refuted the statement (`include_eq_inline_fails`, removed). -/
theorem include_eq_inline_witness :
    IsSplitOf Ex3.sp Ex3.R Ex3.R' Ex.plug Ex.plug ∧ (∀ x ∈ Ex3.R.mods, x.stmt.all "deviation" = []) ∧
    ¬ Lemmas.IncludeAugOrder.NoLeftover Ex3.R {} Ex.plug ∧ IncludeEqInline Ex3.sp Ex3.R Ex3.R' {} Ex.plug Ex.plug := by
  refine ⟨Ex3.isSplit, ?_, Ex3.leftover, fun _ => ⟨Ex3.split_clean, Ex3.split_dump⟩⟩
  intro x hx
  rcases Ex3.mem_R hx with rfl | rfl | rfl <;> rfl

/-! ### non-vacuity of `IncludeEqInlineAugments`: a chain of augments into a node the split moves

As `Ex3`, but the augments target `/t:keep` (module `ma`) and `/t:keep/ma:y` (module `mb`): both are
applied by the loop.  Unsplit: `ma` in the first pass, then `mb`.  Split: `a-sub` and `t` are swap-removed
first, which brings `mb` before `ma`: `mb` fails in the first pass, `ma` is applied, `mb` in the second
pass.  Everything is evaluated in the kernel (`Lemmas/IncludeAugK.lean`). -/
namespace Ex4
open Ex (st plug)
def ty (f : String) (l c : Nat) : Stmt := st f "type" "string" l c []
def nsT : Stmt := st "t" "namespace" "urn:t" 1 12 []
def pfT : Stmt := st "t" "prefix" "t" 1 30 []
def imp (f m : String) (c : Nat) : Stmt := st f "import" m 1 c [st f "prefix" m 1 (c + 10) []]
def augA : Stmt := st "ma" "augment" "/t:keep" 1 70 [st "ma" "container" "y" 1 92 []]
def maS : Stmt := st "ma" "module" "ma" 1 1 [st "ma" "namespace" "urn:ma" 1 12 [], st "ma" "prefix" "ma" 1 30 [], imp "ma" "t" 40, augA]
def augB : Stmt := st "mb" "augment" "/t:keep/ma:y" 1 92 [st "mb" "leaf" "z" 1 120 [ty "mb" 1 130]]
def mbS : Stmt :=
  st "mb" "module" "mb" 1 1 [st "mb" "namespace" "urn:mb" 1 12 [], st "mb" "prefix" "mb" 1 30 [], imp "mb" "t" 40, imp "mb" "ma" 60, augB]
def chS : Stmt := st "t" "choice" "ch" 1 40 [st "t" "leaf" "x" 1 52 [ty "t" 1 61]]
def keepS : Stmt := st "t" "container" "keep" 1 80 [st "t" "leaf" "k" 1 97 [ty "t" 1 106]]
def tS : Stmt := st "t" "module" "t" 1 1 [nsT, pfT, chS, keepS]
def incS : Stmt := st "o" "include" "a-sub" 1 35 []
def oS : Stmt := st "o" "module" "t" 1 1 [nsT, pfT, incS, chS]
def btS : Stmt := st "a-sub" "belongs-to" "t" 1 20 [pfT]
def subS : Stmt := st "a-sub" "submodule" "a-sub" 1 1 [btS, keepS]
def ma : Mod := { seq := 0, stmt := maS }
def mb : Mod := { seq := 1, stmt := mbS }
def t : Mod := { seq := 2, stmt := tS }
def o : Mod := { seq := 2, stmt := oS }
def sub : Mod := { seq := 3, stmt := subS }
def R : Registry := (Registry.loadAll [maS, mbS, tS]).1
def R' : Registry := (Registry.loadAll [maS, mbS, oS, subS]).1
def sp : Split := { m := t, owner := o, subs := [sub] }

theorem R_mods : R.mods = [ma, mb, t] := rfl
theorem R'_mods : R'.mods = [ma, mb, o, sub] := rfl
theorem mem_subs {sb : Mod} (h : sb ∈ sp.subs) : sb = sub := by simpa [sp] using h
theorem mem_R {x : Mod} (h : x ∈ R.mods) : x = ma ∨ x = mb ∨ x = t := by rw [R_mods] at h; simpa using h
theorem mem_parts {P : Mod} (h : P ∈ sp.parts) : P = o ∨ P = sub := by simpa [sp, Split.parts] using h

theorem textOK : TextOK sp where
  m_kw := rfl
  owner_kw := rfl
  owner_arg := rfl
  m_no_include := rfl
  m_no_belongs := rfl
  kept := by
    intro kw hkw
    simp only [keptKws, List.mem_cons, List.mem_nil_iff, or_false] at hkw
    rcases hkw with rfl | rfl | rfl | rfl | rfl | rfl | rfl | rfl <;> rfl
  sub_kw := by intro sb hsb; rw [mem_subs hsb]; rfl
  sub_belongs := by intro sb hsb; rw [mem_subs hsb]; rfl
  sub_prefix := by intro sb hsb; rw [mem_subs hsb]; rfl
  sub_imports := by intro sb hsb; rw [mem_subs hsb]; rfl
  sub_no_aug := by intro sb hsb; rw [mem_subs hsb]; exact ⟨rfl, rfl, rfl⟩
  body := by
    intro kw hkw
    simp only [bodyKws, List.mem_cons, List.mem_nil_iff, or_false] at hkw
    rcases hkw with rfl | rfl | rfl | rfl | rfl | rfl | rfl | rfl | rfl | rfl | rfl <;> exact List.Perm.refl _

theorem includes3 {P Q : Mod} (hP : P ∈ sp.parts) (h : Includes R' P Q) : P = o ∧ Q = sub := by
  obtain ⟨a, ha, hf⟩ := h
  rcases mem_parts hP with rfl | rfl
  · have : a = incS := by
      have h : a ∈ [incS] := ha
      simpa using h
    subst this
    have h2 : R'.findModule true incS = some sub := rfl
    rw [h2] at hf
    exact ⟨rfl, (Option.some.inj hf).symm⟩
  · have h : a ∈ ([] : List Stmt) := ha
    cases h

theorem regsOK : RegsOK sp R R' where
  m_mem := by rw [R_mods]; simp [sp]
  owner_seq := rfl
  seqs_nodup := by decide +kernel
  sub_seqs_fresh := by
    intro sb hsb x hx
    rw [mem_subs hsb]
    rcases mem_R hx with rfl | rfl | rfl <;> decide
  sub_seqs_nodup := by decide
  sub_names_nodup := by decide
  mods' := rfl
  modules' := rfl
  subModules := rfl
  subModules' := rfl
  R_modules_only := by
    intro x hx
    rcases mem_R hx with rfl | rfl | rfl <;> exact ⟨rfl, rfl, rfl⟩
  keys_valid := by
    intro kv hkv
    have h : R.modules = [("ma", 0), ("mb", 1), ("t", 2)] := rfl
    rw [h] at hkv
    simp only [List.mem_cons, List.mem_nil_iff, or_false] at hkv
    rcases hkv with rfl | rfl | rfl
    · exact ⟨ma, by rw [R_mods]; simp, rfl⟩
    · exact ⟨mb, by rw [R_mods]; simp, rfl⟩
    · exact ⟨t, by rw [R_mods]; simp, rfl⟩
  m_bound := rfl
  sub_name_ne := by intro sb hsb; rw [mem_subs hsb]; decide
  inc_resolve := by
    intro P hP a ha
    rcases mem_parts hP with rfl | rfl
    · have : a = incS := by
        have h : a ∈ [incS] := ha
        simpa using h
      subst this
      exact ⟨sub, by simp [sp], rfl⟩
    · have h : a ∈ ([] : List Stmt) := ha
      cases h
  inc_cover := by
    intro sb hsb
    rw [mem_subs hsb]
    exact .step (.refl _) ⟨incS, (by show incS ∈ [incS]; simp), rfl⟩
  inc_no_back := by
    intro P hP Q hQ hinc
    have hne : sub ≠ o := fun e => absurd (congrArg (·.seq) e) (by decide)
    obtain ⟨rfl, rfl⟩ := includes3 hP hinc
    refine ⟨hne, fun hb => ?_⟩
    exact hne (includes3 hQ hb).1
  keys_inj := by decide +kernel

theorem visible : Visible sp R' (linkAll R').1 := by
  intro P hP g hg
  have h : g ∈ ([] : List Stmt) := hg
  cases h

theorem isSplit : IsSplitOf sp R R' plug plug where
  text := textOK
  regs := regsOK
  visible := visible
  plugOK := ⟨fun _ => rfl, fun _ => rfl, fun _ _ _ _ => rfl, fun _ _ _ _ _ => rfl⟩
  pos := Lemmas.IncludeCheck.posWF_of_check R (by decide +kernel)
  pos' := Lemmas.IncludeCheck.posWF_of_check R' (by decide +kernel)
  refs := Lemmas.IncludeCheck.refsWF_of_check R (by decide +kernel)
  refs' := Lemmas.IncludeCheck.refsWF_of_check R' (by decide +kernel)
  fuel := Lemmas.IncludeCheck.lookupFuelOK_of_check R (by decide +kernel)
  fuel' := Lemmas.IncludeCheck.lookupFuelOK_of_check R' (by decide +kernel)

open Goyang.Lemmas.IncludeAugK Goyang.Lemmas.IncludeAugOrder in
theorem noLeftover : NoLeftover R {} plug := by
  unfold NoLeftover; rw [afterLoop_eqK]; decide +kernel

open Goyang.Lemmas.IncludeAugK in
theorem unsplit_clean : (processAll R {} plug).errors = [] := by
  rw [processAll_errors_K R {} plug (by decide +kernel) (by decide +kernel)]; decide +kernel

open Goyang.Lemmas.IncludeAugK in
theorem split_clean : (processAll R' {} plug).errors = [] := by
  rw [processAll_errors_K R' {} plug (by decide +kernel) (by decide +kernel)]; decide +kernel

open Goyang.Lemmas.IncludeAugK in
theorem split_dump : dumpOf (processAll R' {} plug) o = dumpOf (processAll R {} plug) t := by
  unfold dumpOf
  rw [processAll_forest_K R' {} plug (by decide +kernel) (by decide +kernel),
    processAll_forest_K R {} plug (by decide +kernel) (by decide +kernel),
    Lemmas.IncludeDump.processAll_reg, Lemmas.IncludeDump.processAll_reg]
  decide +kernel
end Ex4


/-- `IncludeEqInlineAugments` on `Ex4`, with its hypotheses shown to hold (`Ex4.isSplit`,
`Ex4.noLeftover`, no deviation statement) and the conclusion kernel-evaluated. -/
theorem include_eq_inline_augments_example :
    IsSplitOf Ex4.sp Ex4.R Ex4.R' Ex.plug Ex.plug ∧ (∀ x ∈ Ex4.R.mods, x.stmt.all "deviation" = []) ∧
    Lemmas.IncludeAugOrder.NoLeftover Ex4.R {} Ex.plug ∧ IncludeEqInlineAugments Ex4.sp Ex4.R Ex4.R' {} Ex.plug Ex.plug := by
  have h2 : ∀ x ∈ Ex4.R.mods, x.stmt.all "deviation" = [] := by
    intro x hx
    rcases Ex4.mem_R hx with rfl | rfl | rfl <;> rfl
  have h4 : IncludeEqInlineAugments Ex4.sp Ex4.R Ex4.R' {} Ex.plug Ex.plug := by
    intro _ _ _
    exact ⟨Ex4.split_clean, Ex4.split_dump⟩
  exact ⟨Ex4.isSplit, h2, Ex4.noLeftover, h4⟩

/-- The hypotheses of `include_augment_loop_order` / `include_augment_loop_clean_iff` on `R'` hold of `Ex4`
(`AugArgsPlain`: the arguments `/t:keep`, `/t:keep/ma:y` — shown as in Props/C07Bridge.lean, `String.splitOn`
does not reduce in the kernel). -/
example : Lemmas.Fuel.LoadedShape Ex4.R' ∧ Lemmas.Bridge.AugPosDistinct Ex4.R' := by decide +kernel

/-! ### (E) the canonical dump as a function of the view -/

/-- **dump_of_path_view** (piece E, first half).  The canonical dump of a module's tree is a function of
its *path view* — which data (everything an entry records but its error list) sits at which step path
(`Entry.getAt`: `Dir` child by name, rpc input, rpc output): two outcomes over the same registry whose
trees of module `m` show the same data at every step path (`PEq`) and have `KeysUnique` (sibling names
pairwise different, at most one rpc input / output, at every node — what the augment stage maintains
in every error-free tree, `Lemmas.Bridge.noDupNames_loop`) give the same dump.  The order of the
children in a `Dir` and the recorded errors do not matter. -/
theorem dump_of_path_view (o o' : Outcome) (m : Mod) (hreg : o'.reg = o.reg) {t t' : Entry}
    (ht : o.forest.tree? m.seq = some t) (ht' : o'.forest.tree? m.seq = some t')
    (hp : Lemmas.IncludeAugDump.PEq t' t) (hk' : Spec.Tree.KeysUnique t') (hk : Spec.Tree.KeysUnique t) :
    dumpOf o' m = dumpOf o m := by
  unfold dumpOf
  rw [ht, ht', hreg]
  exact Lemmas.IncludeAugDump.dumpTree_root_peq o.reg ht ht' hp hk' hk _

/-- **dump_of_view** (piece E).  From C07's flat view (`Spec.Augment.viewOf`, what
`include_augment_loop_order` speaks about) to the dump: two outcomes over the same registry that show the
same flat view at the locations of module `m`, whose trees have the shape conversion produces
(`IOShape`: an rpc / action node has no `Dir` child, any other node no input / output), `KeysUnique`, and
in which the same rpc inputs / outputs have been created (`SameIO`), give the same dump of `m`.
`SameIO` cannot be dropped: `dump_not_function_of_flat_view`. -/
theorem dump_of_view (o o' : Outcome) (m : Mod) (hreg : o'.reg = o.reg) {t t' : Entry}
    (ht : o.forest.tree? m.seq = some t) (ht' : o'.forest.tree? m.seq = some t')
    (hview : ∀ P d, Spec.Augment.viewOf o'.forest (m.seq, P) d ↔ Spec.Augment.viewOf o.forest (m.seq, P) d)
    (hs' : Lemmas.IncludeAugView.IOShape t') (hs : Lemmas.IncludeAugView.IOShape t)
    (hio : Lemmas.IncludeAugView.SameIO t' t) (hk' : Spec.Tree.KeysUnique t') (hk : Spec.Tree.KeysUnique t) :
    dumpOf o' m = dumpOf o m :=
  dump_of_path_view o o' m hreg ht ht'
    (Lemmas.IncludeAugView.peq_of_veq (Lemmas.IncludeAugView.veq_of_viewOf ht' ht hview) hs' hs hio) hk' hk

/-- **dump_not_function_of_flat_view.**  Why `dump_of_view` asks for `SameIO`: the flat view shows the input
and output of an rpc whether or not the entry exists (RFC 7950 7.14; goyang creates it lazily, when `Find`
passes through it), the dump prints its record only when it exists.  `rpc0` (an rpc without input) and
`rpc1` (the same after `Find` has created the input) show the same flat view, have `KeysUnique` and
`IOShape`, and different dumps — in any forest, over any registry.  The Go code behaves alike (replayed with a
program in /tmp: `module m { … rpc r; }`, after `Process` `m.Dir["r"].RPC.Input == nil`; `m.Find("/m:r/input")`
returns an entry named `input` and leaves `RPC.Input != nil`; harness/lib/dump.go prints the input record only
when `RPC.Input != nil`). -/
theorem dump_not_function_of_flat_view :
    Lemmas.IncludeAugView.VEq Lemmas.IncludeAugView.rpc0 Lemmas.IncludeAugView.rpc1 ∧
    Spec.Tree.KeysUnique Lemmas.IncludeAugView.rpc0 ∧ Spec.Tree.KeysUnique Lemmas.IncludeAugView.rpc1 ∧
    Lemmas.IncludeAugView.IOShape Lemmas.IncludeAugView.rpc0 ∧ Lemmas.IncludeAugView.IOShape Lemmas.IncludeAugView.rpc1 ∧
    ∀ (reg : Registry) (f f' : Forest) (nm : String),
      dumpTree reg f nm Lemmas.IncludeAugView.rpc0 0 (entryDepth Lemmas.IncludeAugView.rpc0 + 1) [] Lemmas.IncludeAugView.rpc0 ≠
        dumpTree reg f' nm Lemmas.IncludeAugView.rpc1 0 (entryDepth Lemmas.IncludeAugView.rpc1 + 1) [] Lemmas.IncludeAugView.rpc1 :=
  Lemmas.IncludeAugView.view_not_enough

/-! non-vacuity of (E): a container with two leaves, against the same container with the children in the
other order and an error recorded at the root -/
namespace ExE
def lf (n : String) : Entry := .mk { name := n, kind := .leaf } [] [] []
def tA : Entry := .mk { name := "c", kind := .directory, hasDir := true } [lf "a", lf "b"] [] []
def tB : Entry := .mk { name := "c", kind := .directory, hasDir := true, errors := [Err.bare "other"] } [lf "b", lf "a"] [] []
def oA : Outcome := { reg := Ex.R, forest := { trees := [(0, tA)] }, errors := [] }
def oB : Outcome := { reg := Ex.R, forest := { trees := [(0, tB)] }, errors := [] }

theorem peq : Lemmas.IncludeAugDump.PEq tB tA :=
  Lemmas.IncludeAugDump.peq_of_dir_perm _ _ _ _ _ _ rfl (List.Perm.swap _ _ _) (by decide)

/-- The hypotheses of `dump_of_path_view` hold of the pair, and its conclusion. -/
example : dumpOf oB Ex.m = dumpOf oA Ex.m :=
  dump_of_path_view oA oB Ex.m rfl (t := tA) (t' := tB) rfl rfl peq (by decide) (by decide)

open Lemmas.AugmentTree (dataAt dataAt_cons) in
/-- The hypotheses of `dump_of_view` hold of the tree and the same tree with an error recorded at the root. -/
example : dumpOf { oA with forest := { trees := [(0, tA.addErr (Err.bare "other"))] } } Ex.m = dumpOf oA Ex.m := by
  refine dump_of_view oA _ Ex.m rfl (t := tA) (t' := tA.addErr (Err.bare "other")) rfl rfl ?_ (by decide) (by decide) ?_
    (by decide) (by decide)
  · intro P d
    rw [Lemmas.IncludeAugView.viewOf_tree (t := tA.addErr (Err.bare "other")) rfl,
      Lemmas.IncludeAugView.viewOf_tree (t := tA) rfl]
    cases P with
    | nil => exact Iff.rfl
    | cons k P => rw [dataAt_cons, dataAt_cons]; exact Iff.rfl
  · intro P x x' hx hx'
    cases P with
    | nil =>
      cases hx; cases hx'
      exact ⟨rfl, rfl⟩
    | cons k P =>
      have : Spec.Augment.walk (tA.addErr (Err.bare "other")) (k :: P) = Spec.Augment.walk tA (k :: P) := rfl
      rw [this, hx'] at hx
      cases hx
      exact ⟨rfl, rfl⟩
end ExE

/-! ### (E) + (F) applied: the split run in the module order of the unsplit set, on the dump -/

/-- **fixChoice_path_view** (piece F).  `FixChoice` respects the path view: error-free trees with the same
data at every step path (children possibly in another order) still have the same data at every step path
after `fixChoice` (the shorthand members of every choice wrapped into implied cases).  Error-freeness is
needed: `FixChoice` leaves a choice with a recorded error alone, and the path view does not see errors. -/
theorem fixChoice_path_view {t' t : Entry} (h : Lemmas.IncludeAugDump.PEq t' t) (h' : Spec.Tree.NoErrors t')
    (h0 : Spec.Tree.NoErrors t) : Lemmas.IncludeAugDump.PEq (fixChoice t') (fixChoice t) :=
  Lemmas.IncludeAugFix.fixChoice_peq h h' h0

/-- **include_dump_in_unsplit_order.**  `include_augment_loop_order` carried from the flat view to the
canonical dump, through `FixChoice` (pieces E and F): for a split set without deviation statements whose
augment loop leaves nothing pending and whose `Process` is error free, the dump of every module `m` of the
result is the dump of: the augment loop run in the module order of the UNSPLIT set (`loopU`), then
`FixChoice` on every tree.  So for the dump, too, the additional submodule trees' effect on the visiting
order is immaterial.  Not yet derived, hence hypotheses on the two trees of `m` (decidable resp. discharged
by `sameIO_of_noRpc` on sets without rpc / action nodes): `IOShape` (an rpc node has no `Dir` child, any
other node no input / output) and `SameIO` (the two runs created the same rpc inputs / outputs). -/
theorem include_dump_in_unsplit_order (s : Split) (R R' : Registry) (opts : Opts) (plug plug' : Plug)
    (h : IsSplitOf s R R' plug plug') (hL : Lemmas.Fuel.LoadedShape R') (hpos : Lemmas.Bridge.AugPosDistinct R')
    (hplain : Lemmas.Bridge.AugArgsPlain R') (h1 : stage1Errs R' plug' = []) (h2 : forestErrs (forest0 R' opts plug') = [])
    (hdev : ∀ x ∈ R'.mods, x.stmt.all "deviation" = []) (hn : Lemmas.IncludeAugOrder.NoLeftover R' opts plug')
    (hclean : (processAll R' opts plug').errors = []) (m : Mod) {ts tu : Entry}
    (hts : (afterLoop R' opts plug').2.forest.tree? m.seq = some ts)
    (htu : (Lemmas.IncludeAugCompose.loopU R R' opts plug').forest.tree? m.seq = some tu)
    (hss : Lemmas.IncludeAugView.IOShape ts) (hsu : Lemmas.IncludeAugView.IOShape tu)
    (hio : Lemmas.IncludeAugView.SameIO ts tu) :
    dumpOf (processAll R' opts plug') m =
      dumpOf { errors := [], forest := Lemmas.AugmentReport.fixAll (Lemmas.IncludeAugCompose.loopU R R' opts plug').forest,
               reg := R' } m :=
  Lemmas.IncludeAugCompose.split_dump_in_unsplit_order opts plug plug' h hL hpos hplain h1 h2 hdev hn hclean m hts htu hss hsu hio

/-! non-vacuity of `include_dump_in_unsplit_order`: `Ex4` (the loop of the split set visits `mb` before `ma`
and needs a second pass; in the order of the unsplit set one pass applies both) -/
namespace Ex4E
open Ex (plug)
open Ex4
open Goyang.Lemmas.Bridge (PlainAbsArg AugArgsPlain)

theorem plainA : PlainAbsArg "/t:keep" := by
  have hs : "/t:keep".splitOn "/" = ["", "t:keep"] := by
    rw [Lemmas.Find.slash_eq, Lemmas.Find.splitOn_char]; decide
  unfold PlainAbsArg
  rw [hs]
  exact ⟨rfl, by decide⟩

theorem plainB : PlainAbsArg "/t:keep/ma:y" := by
  have hs : "/t:keep/ma:y".splitOn "/" = ["", "t:keep", "ma:y"] := by
    rw [Lemmas.Find.slash_eq, Lemmas.Find.splitOn_char]; decide
  unfold PlainAbsArg
  rw [hs]
  exact ⟨rfl, by decide⟩

theorem argsPlain : AugArgsPlain R' := by
  intro m hm s hs
  have hall : ∀ m ∈ R'.mods, ∀ s ∈ m.stmt.all "augment", s.arg = "/t:keep" ∨ s.arg = "/t:keep/ma:y" := by decide +kernel
  rcases hall m hm s hs with e | e <;> rw [e]
  · exact plainA
  · exact plainB

open Goyang.Lemmas.IncludeAugK Goyang.Lemmas.IncludeAugOrder in
theorem noLeftover' : NoLeftover R' {} plug := by
  unfold NoLeftover; rw [afterLoop_eqK]; decide +kernel

theorem stage1 : stage1Errs R' plug = [] := by decide +kernel
theorem conv0 : forestErrs (forest0 R' {} plug) = [] := by decide +kernel

open Goyang.Lemmas.IncludeAugK Goyang.Lemmas.IncludeAugView in
theorem ts_ok : ∃ ts, (afterLoop R' {} plug).2.forest.tree? 2 = some ts ∧ IOShape ts ∧ NoRpc ts := by
  rw [afterLoop_eqK]
  have h : ((afterLoopK R' {} plug).2.forest.tree? 2).any (fun t => decide (IOShape t) && decide (NoRpc t)) = true := by
    decide +kernel
  cases hh : (afterLoopK R' {} plug).2.forest.tree? 2 with
  | none => rw [hh] at h; cases h
  | some t =>
    rw [hh] at h
    simp only [Option.any_some, Bool.and_eq_true, decide_eq_true_eq] at h
    exact ⟨t, rfl, h.1, h.2⟩

open Goyang.Lemmas.IncludeAugK Goyang.Lemmas.IncludeAugView Goyang.Lemmas.IncludeAugCompose Goyang.Lemmas.IncludeAugOrder in
theorem tu_ok : ∃ tu, (loopU R R' {} plug).forest.tree? 2 = some tu ∧ IOShape tu ∧ NoRpc tu := by
  unfold loopU
  rw [augmentLoop_eqK]
  have h : ((augmentLoopK R' (loopFuel R' {} plug) ((augOrder R).map (·.seq)).toArray (pstate0 R' {} plug)).2.forest.tree? 2).any
      (fun t => decide (IOShape t) && decide (NoRpc t)) = true := by
    decide +kernel
  cases hh : (augmentLoopK R' (loopFuel R' {} plug) ((augOrder R).map (·.seq)).toArray (pstate0 R' {} plug)).2.forest.tree? 2 with
  | none => rw [hh] at h; cases h
  | some t =>
    rw [hh] at h
    simp only [Option.any_some, Bool.and_eq_true, decide_eq_true_eq] at h
    exact ⟨t, rfl, h.1, h.2⟩

/-- All hypotheses of `include_dump_in_unsplit_order` hold of `Ex4` (module `t`, number 2), and its conclusion. -/
theorem dump_in_unsplit_order :
    dumpOf (processAll R' {} plug) o =
      dumpOf { errors := [], forest := Lemmas.AugmentReport.fixAll (Lemmas.IncludeAugCompose.loopU R R' {} plug).forest,
               reg := R' } o := by
  obtain ⟨ts, hts, hss, hrs⟩ := ts_ok
  obtain ⟨tu, htu, hsu, hru⟩ := tu_ok
  have hdev : ∀ x ∈ R'.mods, x.stmt.all "deviation" = [] := by decide +kernel
  exact include_dump_in_unsplit_order sp R R' {} plug plug isSplit (by decide +kernel) (by decide +kernel) argsPlain stage1 conv0
    hdev noLeftover' split_clean o hts htu hss hsu (Lemmas.IncludeAugView.sameIO_of_noRpc hrs hss hru hsu)
end Ex4E

/-! non-vacuity of `fixChoice_path_view`: a choice with two shorthand members, and the same choice with the members
in the other order: `FixChoice` wraps each member into its implied case, in either order -/
namespace ExE
def chA : Entry := .mk { name := "ch", kind := .choice, hasDir := true } [lf "a", lf "b"] [] []
def chB : Entry := .mk { name := "ch", kind := .choice, hasDir := true } [lf "b", lf "a"] [] []

example : Lemmas.IncludeAugDump.PEq (fixChoice chB) (fixChoice chA) :=
  fixChoice_path_view (Lemmas.IncludeAugDump.peq_of_dir_perm _ _ _ _ _ _ rfl (List.Perm.swap _ _ _) (by decide))
    (by decide) (by decide)

example : ((fixChoice chA).dir.map fun c => (c.name, c.d.kind, c.dir.map (·.name))) =
    [("a", Kind.case_, ["a"]), ("b", Kind.case_, ["b"])] := by decide
end ExE

/-! ### the reduction of `IncludeEqInlineAugments` to what is still open -/

/-- **include_clean_in_unsplit_order.**  `Process` on a split set (nothing left pending after the loop, no
deviation statements, first two stages clean) is error free iff the augment loop run in the module order of the
UNSPLIT set records no error. -/
theorem include_clean_in_unsplit_order (s : Split) (R R' : Registry) (opts : Opts) (plug plug' : Plug)
    (h : IsSplitOf s R R' plug plug') (hL : Lemmas.Fuel.LoadedShape R') (hpos : Lemmas.Bridge.AugPosDistinct R')
    (hplain : Lemmas.Bridge.AugArgsPlain R') (h1 : stage1Errs R' plug' = []) (h2 : forestErrs (forest0 R' opts plug') = [])
    (hdev : ∀ x ∈ R'.mods, x.stmt.all "deviation" = []) (hn : Lemmas.IncludeAugOrder.NoLeftover R' opts plug') :
    (processAll R' opts plug').errors = [] ↔
      Lemmas.AugmentReport.allErrs (Lemmas.IncludeAugCompose.loopU R R' opts plug').forest = [] :=
  Lemmas.IncludeAugCompose.split_clean_in_unsplit_order opts plug plug' h hL hpos hplain h1 h2 hdev hn

/-- **include_dump_of_related_trees** (the last step of the assembly, for ANY two outcomes over the unsplit and
the split registry).  When the owner's tree is the unsplit module's tree up to `SameTop σ` (same data but for
the statement object; the same children, each equal up to `ren σ`, in another order), the canonical dumps
are equal. -/
theorem include_dump_of_related_trees (s : Split) (R R' : Registry) (plug plug' : Plug) (h : IsSplitOf s R R' plug plug')
    (o o' : Outcome) (ho : o.reg = R) (ho' : o'.reg = R') {t t' : Entry}
    (ht : o.forest.tree? s.m.seq = some t) (ht' : o'.forest.tree? s.m.seq = some t')
    (hst : SameTop s.σ t' t) (hnd : (t.dir.map (·.name)).Nodup) : dumpOf o' s.owner = dumpOf o s.m :=
  Lemmas.IncludeAugFinal.dumpOf_sameTop h o o' ho ho' ht ht' hst hnd

/-- **include_eq_inline_augments_reduced.**  `IncludeEqInlineAugments` follows from `LoopsRelated` — the
statement that pieces (A) and (S) have to deliver about the two augment loops run in the SAME module order
(`Lemmas.IncludeAugCompose.LoopsRelated`: the loop over the split set in the unsplit set's module order
records no error, leaves nothing pending and leaves the owner's tree equal to the unsplit module's up to
`SameTop σ`; plus `IOShape` of the owner's trees and `SameIO`, the bookkeeping of lazily created rpc inputs /
outputs) — under `IsSplitOf` and C07's decidable input predicates on the split registry, nothing else
(that the split set has no deviation statement and that its own loop leaves nothing pending is derived:
`Lemmas.IncludeAugCompose.dev_split`, `noLeftover_split`).  Everything else of the composition is proved: the module order (C07, `include_augment_loop_order`),
the passage from the flat view to the dump (E), `FixChoice` (F), the stages after the loop (`no_leftover_result`),
and the dump of related trees (`include_dump_of_related_trees`). -/
theorem include_eq_inline_augments_reduced (s : Split) (R R' : Registry) (opts : Opts) (plug plug' : Plug)
    (h : IsSplitOf s R R' plug plug') (hL : Lemmas.Fuel.LoadedShape R') (hpos : Lemmas.Bridge.AugPosDistinct R')
    (hplain : Lemmas.Bridge.AugArgsPlain R')
    (hS : (processAll R opts plug).errors = [] → Lemmas.IncludeAugOrder.NoLeftover R opts plug →
      Lemmas.IncludeAugCompose.LoopsRelated s R R' opts plug plug') :
    IncludeEqInlineAugments s R R' opts plug plug' :=
  fun hdev hn hclean =>
    Lemmas.IncludeAugCompose.eq_inline_of_loopsRelated opts plug plug' h hL hpos hplain hdev hn hclean (hS hclean hn)

/-! non-vacuity of `include_eq_inline_augments_reduced`: `Ex` (no augment statement: both loops return the
converted forests, which `include_conversion` relates; the unsplit tree is evaluated in the kernel) -/
namespace ExR
open Ex
open Goyang.Lemmas.IncludeAugView Goyang.Lemmas.IncludeAugCompose

theorem t_ok : ∃ t, (forest0 R {} plug).tree? 0 = some t ∧ IOShape t ∧ NoRpc t := by
  have h : ((forest0 R {} plug).tree? 0).any (fun t => decide (IOShape t) && decide (NoRpc t)) = true := by decide +kernel
  cases hh : (forest0 R {} plug).tree? 0 with
  | none => rw [hh] at h; cases h
  | some t =>
    rw [hh] at h
    simp only [Option.any_some, Bool.and_eq_true, decide_eq_true_eq] at h
    exact ⟨t, rfl, h.1, h.2⟩

theorem loopsRelated : LoopsRelated sp R R' {} plug plug := by
  have hna' : NoAugDev R' := noAugDev_split plug plug isSplit noAugDev
  obtain ⟨a1, a2⟩ := Lemmas.IncludeNoAug.processAll_clean_stages R {} plug unsplit_clean
  obtain ⟨hlink, _⟩ := stage1_split plug plug isSplit a1
  obtain ⟨c1, _, _, c4⟩ := include_conversion sp R R' {} plug plug isSplit hlink a2
  obtain ⟨t, ht, hs, hr⟩ := t_ok
  obtain ⟨t', ht', hst⟩ := c4 t ht
  have e1 : (afterLoop R {} plug).2 = pstate0 R {} plug := Lemmas.IncludeNoAug.afterLoop_nil R {} plug noAugDev
  have e2 : (afterLoop R' {} plug).2 = pstate0 R' {} plug := Lemmas.IncludeNoAug.afterLoop_nil R' {} plug hna'
  have e3 : loopU R R' {} plug = pstate0 R' {} plug :=
    Lemmas.IncludeNoAug.augmentLoop_nil R' _ _ _ (Lemmas.IncludeNoAug.pstate0_nil R' {} plug hna')
  have hs' := ioShape_sameTop sp.σ hst hs
  have hr' := noRpc_sameTop sp.σ hst hr
  refine ⟨by rw [e3]; exact c1,
    fun id => by rw [e3]; exact Lemmas.IncludeNoAug.pendingOf_nil _ (Lemmas.IncludeNoAug.pstate0_nil R' {} plug hna') id,
    t, t', t', by rw [e1]; exact ht, by rw [e2]; exact ht', by rw [e3]; exact ht', hst, hs', hs',
    sameIO_of_noRpc hr' hs' hr' hs'⟩

/-- The hypotheses of `include_eq_inline_augments_reduced` hold of `Ex` (`AugArgsPlain`: no augment statement). -/
example : IncludeEqInlineAugments sp R R' {} plug plug := by
  have hna' : NoAugDev R' := noAugDev_split plug plug isSplit noAugDev
  refine include_eq_inline_augments_reduced sp R R' {} plug plug isSplit (by decide +kernel) (by decide +kernel) ?_
    (fun _ _ => loopsRelated)
  intro m hm a ha
  rw [(hna' m hm).1] at ha
  cases ha
end ExR

/-- The hypotheses of `include_dump_of_related_trees` hold of the two results on `Ex`. -/
example : dumpOf (processAll Ex.R' {} Ex.plug) Ex.o = dumpOf (processAll Ex.R {} Ex.plug) Ex.m := by
  obtain ⟨_, t, t', ht, ht', hst⟩ := Ex.split_result
  exact include_dump_of_related_trees Ex.sp Ex.R Ex.R' Ex.plug Ex.plug Ex.isSplit _ _
    (Lemmas.IncludeDump.processAll_reg _ _ _) (Lemmas.IncludeDump.processAll_reg _ _ _) ht ht' hst
    (names_nodup_of_clean Ex.R {} Ex.plug Ex.unsplit_clean _ _ ht)

/-- The hypotheses of `include_clean_in_unsplit_order` hold of `Ex4`. -/
example : (processAll Ex4.R' {} Ex.plug).errors = [] ↔
    Lemmas.AugmentReport.allErrs (Lemmas.IncludeAugCompose.loopU Ex4.R Ex4.R' {} Ex.plug).forest = [] :=
  include_clean_in_unsplit_order Ex4.sp Ex4.R Ex4.R' {} Ex.plug Ex.plug Ex4.isSplit (by decide +kernel) (by decide +kernel)
    Ex4E.argsPlain Ex4E.stage1 Ex4E.conv0 (by decide +kernel) Ex4E.noLeftover'


/-! ### (I) for sets without rpc / action nodes -/

/-- **include_no_rpc_along_loop** (piece I for sets without rpc / action nodes; any registry).  When every tree the
conversion has produced and every child of a pending augment entry is free of rpc / action nodes and of rpc
input / output entries (`Lemmas.IncludeAugIO.NoIOStart`, decidable), every tree stays so along the augment loop —
any fuel, any module order: `Find` creates an input / output only below an rpc node, error recording and `merge` at
the target keep it.  Such trees have `IOShape`, and any two of them `SameIO` (no input / output exists at all). -/
theorem include_no_rpc_along_loop (reg : Registry) (opts : Opts) (plug : Plug)
    (h0 : Lemmas.IncludeAugIO.NoIOStart reg opts plug) (fuel : Nat) (mods : Array Nat) :
    (∀ t ∈ (augmentLoop reg fuel mods (pstate0 reg opts plug)).2.forest.trees,
      Lemmas.IncludeAugIO.NoIO t.2 ∧ Lemmas.IncludeAugView.IOShape t.2 ∧ Lemmas.IncludeAugView.NoRpc t.2) ∧
    ∀ t ∈ (augmentLoop reg fuel mods (pstate0 reg opts plug)).2.forest.trees,
      ∀ (fuel' : Nat) (mods' : Array Nat), ∀ t' ∈ (augmentLoop reg fuel' mods' (pstate0 reg opts plug)).2.forest.trees,
        Lemmas.IncludeAugView.SameIO t.2 t'.2 := by
  refine ⟨fun t ht => ?_, fun t ht fuel' mods' t' ht' => ?_⟩
  · have := Lemmas.IncludeAugIO.noIO_loop reg opts plug h0 fuel mods t ht
    exact ⟨this, Lemmas.IncludeAugIO.noIO_ioShape this, Lemmas.IncludeAugIO.noIO_noRpc this⟩
  · exact Lemmas.IncludeAugIO.sameIO_of_noIO (Lemmas.IncludeAugIO.noIO_loop reg opts plug h0 fuel mods t ht)
      (Lemmas.IncludeAugIO.noIO_loop reg opts plug h0 fuel' mods' t' ht')

/-- The hypothesis of `include_no_rpc_along_loop` holds of the split set of `Ex4` (three trees, two pending augment
entries; kernel-evaluated). -/
example : Lemmas.IncludeAugIO.NoIOStart Ex4.R' {} Ex.plug := by decide +kernel

/-- **include_eq_inline_augments_norpc_reduced.**  For split sets without rpc / action nodes (`NoIOStart` of the
split registry, decidable) `IncludeEqInlineAugments` follows from `Lemmas.IncludeAugIO.LoopsRelatedCore` alone —
`LoopsRelated` without its `IOShape` / `SameIO` parts: the loop over the split set, run in the module order of
the unsplit set, records no error, leaves nothing pending and leaves the owner's tree equal to the unsplit
module's up to `SameTop σ`.  That statement is what pieces (A) and (S) have to deliver; (I) is closed for these
sets. -/
theorem include_eq_inline_augments_norpc_reduced (s : Split) (R R' : Registry) (opts : Opts) (plug plug' : Plug)
    (h : IsSplitOf s R R' plug plug') (hL : Lemmas.Fuel.LoadedShape R') (hpos : Lemmas.Bridge.AugPosDistinct R')
    (hplain : Lemmas.Bridge.AugArgsPlain R') (h0 : Lemmas.IncludeAugIO.NoIOStart R' opts plug')
    (hS : (processAll R opts plug).errors = [] → Lemmas.IncludeAugOrder.NoLeftover R opts plug →
      Lemmas.IncludeAugIO.LoopsRelatedCore s R R' opts plug plug') :
    IncludeEqInlineAugments s R R' opts plug plug' :=
  include_eq_inline_augments_reduced s R R' opts plug plug' h hL hpos hplain
    (fun hc hn => Lemmas.IncludeAugIO.loopsRelated_of_noIO opts plug plug' h0 (hS hc hn))


/-! non-vacuity of `include_eq_inline_augments_norpc_reduced`: `Ex4` (two modules augment, in a chain, a container
that the split moves into a submodule).  `LoopsRelatedCore` is kernel-checked: the loop over the split set in the
module order of the unsplit set records no error and leaves nothing pending, and the owner's tree is `SameTop σ`
the unsplit module's (`SameTop` is decidable: Lemmas/IncludeAugDec.lean). -/
namespace Ex4C
open Ex (plug)
open Ex4
open Goyang.Lemmas.IncludeAugK Goyang.Lemmas.IncludeAugCompose Goyang.Lemmas.IncludeAugOrder
open Goyang.Lemmas.IncludeAugIO Goyang.Lemmas.IncludeAugDec

theorem clean_u : Lemmas.AugmentReport.allErrs (loopU R R' {} plug).forest = [] := by
  unfold loopU; rw [augmentLoop_eqK]; decide +kernel

theorem pnil_u : ∀ p ∈ (loopU R R' {} plug).pending, p.2 = [] := by
  unfold loopU; rw [augmentLoop_eqK]; decide +kernel

theorem trees : ∃ t tu, (afterLoop R {} plug).2.forest.tree? 2 = some t ∧ (loopU R R' {} plug).forest.tree? 2 = some tu ∧
    SameTop sp.σ tu t := by
  unfold loopU
  rw [augmentLoop_eqK, afterLoop_eqK]
  have h : ((afterLoopK R {} plug).2.forest.tree? 2).any (fun t =>
      ((augmentLoopK R' (loopFuel R' {} plug) ((augOrder R).map (·.seq)).toArray (pstate0 R' {} plug)).2.forest.tree? 2).any
        fun tu => decide (SameTop sp.σ tu t)) = true := by decide +kernel
  cases h1 : (afterLoopK R {} plug).2.forest.tree? 2 with
  | none => rw [h1] at h; cases h
  | some t =>
    cases h2 : (augmentLoopK R' (loopFuel R' {} plug) ((augOrder R).map (·.seq)).toArray (pstate0 R' {} plug)).2.forest.tree? 2 with
    | none => rw [h1, h2] at h; cases h
    | some tu =>
      rw [h1, h2] at h
      simp only [Option.any_some, decide_eq_true_eq] at h
      exact ⟨t, tu, rfl, rfl, h⟩

theorem core : LoopsRelatedCore sp R R' {} plug plug :=
  ⟨clean_u, fun id => Lemmas.IncludeNoAug.pendingOf_nil _ pnil_u id, trees⟩
end Ex4C

/-- All hypotheses of `include_eq_inline_augments_norpc_reduced` hold of `Ex4`: its conclusion, obtained through
the proved chain (module order, view, `FixChoice`, later stages, dump of related trees) from the kernel-checked core. -/
example : IncludeEqInlineAugments Ex4.sp Ex4.R Ex4.R' {} Ex.plug Ex.plug :=
  include_eq_inline_augments_norpc_reduced Ex4.sp Ex4.R Ex4.R' {} Ex.plug Ex.plug Ex4.isSplit (by decide +kernel)
    (by decide +kernel) Ex4E.argsPlain (by decide +kernel) (fun _ _ => Ex4C.core)


/-! ### (I), first half, for all sets: `IOShape` along the augment loop -/

/-- **include_io_shape_along_loop** (piece I, first half: every registry, option set and plug; rpc / action nodes
allowed).  Every tree the conversion produces and every tree along the augment loop — any fuel, any module order —
has the shape `IOShape`: an rpc / action node has no `Dir` child, any other node no rpc input / output.  (Conversion:
an rpc / action statement's entry gets its flag when its `Dir` is still empty, `Lemmas.IncludeAugShape.closedT_shapeFrame`;
loop: `Find` creates an input / output only at an rpc node, and `merge` is applied only at a target that is not
one, `cannotHaveChildren`.) -/
theorem include_io_shape_along_loop (reg : Registry) (opts : Opts) (plug : Plug) (fuel : Nat) (mods : Array Nat) :
    (∀ t ∈ (forest0 reg opts plug).trees, Lemmas.IncludeAugView.IOShape t.2) ∧
    ∀ t ∈ (augmentLoop reg fuel mods (pstate0 reg opts plug)).2.forest.trees, Lemmas.IncludeAugView.IOShape t.2 :=
  ⟨(Lemmas.IncludeAugShape.ioShapeStart reg opts plug).1, Lemmas.IncludeAugShape.ioShape_loop_all reg opts plug fuel mods⟩

/-! `include_io_shape_along_loop` has no hypothesis; a set it speaks about non-trivially: module `t` with
`rpc r { input { leaf a } }` (no output written) and module `ma` with `augment /t:r/t:output { leaf b }`:
`IOShapeStart` (kernel-evaluated here, proved in general), not `NoIOStart`; the loop creates the output of `r` on the
way to the target and grafts `b` into it. -/
namespace Ex6
open Ex (st plug)
open Goyang.Lemmas.IncludeAugShape
def ty (f : String) (l c : Nat) : Stmt := st f "type" "string" l c []
def rpcS : Stmt := st "t" "rpc" "r" 1 40 [st "t" "input" "" 1 48 [st "t" "leaf" "a" 1 56 [ty "t" 1 65]]]
def tS : Stmt := st "t" "module" "t" 1 1 [st "t" "namespace" "urn:t" 1 12 [], st "t" "prefix" "t" 1 30 [], rpcS]
def imp (f m : String) (c : Nat) : Stmt := st f "import" m 1 c [st f "prefix" m 1 (c + 10) []]
def augA : Stmt := st "ma" "augment" "/t:r/t:output" 1 70 [st "ma" "leaf" "b" 1 92 [ty "ma" 1 100]]
def maS : Stmt := st "ma" "module" "ma" 1 1 [st "ma" "namespace" "urn:ma" 1 12 [], st "ma" "prefix" "ma" 1 30 [], imp "ma" "t" 40, augA]
def R : Registry := (Registry.loadAll [maS, tS]).1

example : IOShapeStart R {} plug := by decide +kernel
example : ¬ Lemmas.IncludeAugIO.NoIOStart R {} plug := by decide +kernel
open Goyang.Lemmas.IncludeAugK in
example : ((afterLoop R {} plug).2.forest.tree? 1).any (fun t => t.dir.any fun r => r.d.isRpc && r.inp.length == 1 &&
    r.out.any fun o => o.dir.map (·.name) == ["b"]) = true ∧
    ((pstate0 R {} plug).forest.tree? 1).any (fun t => t.dir.any fun r => r.d.isRpc && r.inp.length == 1 && r.out.isEmpty) = true := by
  rw [afterLoop_eqK]; decide +kernel
end Ex6

/-- **include_eq_inline_augments_reduced_sameIO.**  For every split set (rpc / action nodes allowed)
`IncludeEqInlineAugments` follows from `LoopsRelatedCore` and `SameIO` of the owner's trees after the two runs over
the split set (its own module order against the unsplit set's): the `IOShape` parts of `LoopsRelated` are derived
(`include_io_shape_along_loop`). -/
theorem include_eq_inline_augments_reduced_sameIO (s : Split) (R R' : Registry) (opts : Opts) (plug plug' : Plug)
    (h : IsSplitOf s R R' plug plug') (hL : Lemmas.Fuel.LoadedShape R') (hpos : Lemmas.Bridge.AugPosDistinct R')
    (hplain : Lemmas.Bridge.AugArgsPlain R')
    (hS : (processAll R opts plug).errors = [] → Lemmas.IncludeAugOrder.NoLeftover R opts plug →
      Lemmas.IncludeAugIO.LoopsRelatedCore s R R' opts plug plug' ∧
      ∀ ts tu, (afterLoop R' opts plug').2.forest.tree? s.m.seq = some ts →
        (Lemmas.IncludeAugCompose.loopU R R' opts plug').forest.tree? s.m.seq = some tu → Lemmas.IncludeAugView.SameIO ts tu) :
    IncludeEqInlineAugments s R R' opts plug plug' :=
  include_eq_inline_augments_reduced s R R' opts plug plug' h hL hpos hplain
    (fun hc hn => Lemmas.IncludeAugShape.loopsRelated_of_ioShape opts plug plug'
      (Lemmas.IncludeAugShape.ioShapeStart R' opts plug') (hS hc hn).1 (hS hc hn).2)

/-- The hypotheses of `include_eq_inline_augments_reduced_sameIO` hold of `Ex4` (`SameIO` there: no rpc node). -/
example : IncludeEqInlineAugments Ex4.sp Ex4.R Ex4.R' {} Ex.plug Ex.plug := by
  have h0 : Lemmas.IncludeAugIO.NoIOStart Ex4.R' {} Ex.plug := by decide +kernel
  refine include_eq_inline_augments_reduced_sameIO Ex4.sp Ex4.R Ex4.R' {} Ex.plug Ex.plug Ex4.isSplit (by decide +kernel)
    (by decide +kernel) Ex4E.argsPlain (fun _ _ => ⟨Ex4C.core, ?_⟩)
  intro ts tu hts htu
  exact Lemmas.IncludeAugIO.sameIO_of_noIO
    (Lemmas.IncludeAugIO.noIO_loop Ex4.R' {} Ex.plug h0 _ _ (_, ts) (Lemmas.IncludeAugCompose.mem_of_tree? hts))
    (Lemmas.IncludeAugIO.noIO_loop Ex4.R' {} Ex.plug h0 _ _ (_, tu) (Lemmas.IncludeAugCompose.mem_of_tree? htu))

/-- **include_eq_inline_augments_norpc_checked.**  The same with the open piece as a decidable check: for a split set
without rpc / action nodes (`NoIOStart`), `IncludeEqInlineAugments` holds whenever `Lemmas.IncludeAugDec.CoreCheck`
does — the loop over the split set in the module order of the unsplit set records no error, leaves nothing pending
and leaves the owner's tree `SameTop σ` the tree the unsplit set's loop leaves.  Every hypothesis but `IsSplitOf`
(executable conditions of its own) is decidable; what the check leaves out and the theorem supplies: the other
module order of the real run, `FixChoice`, the retry rounds and the reporting sweep, and the dump (namespaces,
read-only status, instantiating modules over the two registries). -/
theorem include_eq_inline_augments_norpc_checked (s : Split) (R R' : Registry) (opts : Opts) (plug plug' : Plug)
    (h : IsSplitOf s R R' plug plug') (hL : Lemmas.Fuel.LoadedShape R') (hpos : Lemmas.Bridge.AugPosDistinct R')
    (hplain : Lemmas.Bridge.AugArgsPlain R') (h0 : Lemmas.IncludeAugIO.NoIOStart R' opts plug')
    (hc : Lemmas.IncludeAugDec.CoreCheck s R R' opts plug plug') :
    IncludeEqInlineAugments s R R' opts plug plug' :=
  include_eq_inline_augments_norpc_reduced s R R' opts plug plug' h hL hpos hplain h0
    (fun _ _ => Lemmas.IncludeAugDec.core_of_check hc)

open Goyang.Lemmas.IncludeAugK Goyang.Lemmas.IncludeAugCompose Goyang.Lemmas.IncludeAugDec in
/-- All hypotheses of `include_eq_inline_augments_norpc_checked` hold of `Ex4` (kernel-evaluated; the check through the
kernel-evaluable copy of the loop, Lemmas/IncludeAugK.lean). -/
example : IncludeEqInlineAugments Ex4.sp Ex4.R Ex4.R' {} Ex.plug Ex.plug := by
  have hc : CoreCheck Ex4.sp Ex4.R Ex4.R' {} Ex.plug Ex.plug := by
    unfold CoreCheck loopU
    rw [augmentLoop_eqK, afterLoop_eqK]
    decide +kernel
  exact include_eq_inline_augments_norpc_checked Ex4.sp Ex4.R Ex4.R' {} Ex.plug Ex.plug Ex4.isSplit (by decide +kernel)
    (by decide +kernel) Ex4E.argsPlain (by decide +kernel) hc

/-! ### the statement for sets without rpc / action nodes, piece (A) as a decidable condition -/

/-- **include_eq_inline_augments_norpc.**  `IncludeEqInlineAugments` — a clean `Process` of the unsplit set implies a
clean `Process` of the split set and equal canonical dumps of the split module, for sets whose augment loop leaves
nothing pending and without deviation statements — PROVED for split sets without rpc / action nodes, with piece (A) as
a decidable condition on the two converted sets: `PendRel` — for every module, the pending augment entries of the
unsplit set are those of the split set up to `ren σ` (what `context_independence` gives per statement; proved for
every module but the owner at the level of the conversion, `Lemmas.IncludeAugRows.mod_conv_rows`, not yet assembled).
The other hypotheses are decidable too (all but `IsSplitOf`, which has executable conditions of its own):
`LoadedShape` / `AugPosDistinct` / `AugArgsPlain` of the split registry (C07's input predicates), `NoIOStart` of both
converted sets (no rpc / action node, no input / output entry), `AllConverted` (every module of the unsplit set has a
tree); that the two loops get the same fuel follows from `PendRel` (`Lemmas.IncludeAugSim.loopFuel_split`).  Pieces (S) — the lockstep simulation of the two augment loops in the same module order on
forests related by `ren σ` / `SameTop` (`Lemmas.IncludeAugSim.augmentLoop_rel`, `loopsRelatedCore_of_start`) — and (I)
are proved; with (E), (F), C07's order independence and the later stages the chain is complete. -/
theorem include_eq_inline_augments_norpc (s : Split) (R R' : Registry) (opts : Opts) (plug plug' : Plug)
    (h : IsSplitOf s R R' plug plug') (hL : Lemmas.Fuel.LoadedShape R') (hpos : Lemmas.Bridge.AugPosDistinct R')
    (hplain : Lemmas.Bridge.AugArgsPlain R') (h0' : Lemmas.IncludeAugIO.NoIOStart R' opts plug')
    (h0 : Lemmas.IncludeAugIO.NoIOStart R opts plug) (hall : Lemmas.IncludeAugSim.AllConverted R opts plug)
    (hP : Lemmas.IncludeAugSim.PendRel s R R' opts plug plug') :
    IncludeEqInlineAugments s R R' opts plug plug' :=
  fun hdev hn hclean =>
    Lemmas.IncludeAugCompose.eq_inline_of_loopsRelated opts plug plug' h hL hpos hplain hdev hn hclean
      (Lemmas.IncludeAugIO.loopsRelated_of_noIO opts plug plug' h0'
        (Lemmas.IncludeAugSim.loopsRelatedCore_norpc h opts hL h0' h0 hall hP
          (Lemmas.IncludeAugSim.loopFuel_split h opts hP.1) hdev hn hclean))

/-- All hypotheses of `include_eq_inline_augments_norpc` hold of `Ex4` (two modules augment, in a chain, a container
that the split moves into a submodule; every hypothesis kernel-evaluated on the converted sets, no loop is run). -/
example : IncludeEqInlineAugments Ex4.sp Ex4.R Ex4.R' {} Ex.plug Ex.plug :=
  include_eq_inline_augments_norpc Ex4.sp Ex4.R Ex4.R' {} Ex.plug Ex.plug Ex4.isSplit (by decide +kernel)
    (by decide +kernel) Ex4E.argsPlain (by decide +kernel) (by decide +kernel) (by decide +kernel) (by decide +kernel)


/-- The conditions on the converted sets (`PendRel` — piece (A) —, `AllConverted`; and equal loop fuel, which follows)
also hold of the D67 witness pair `Ex3` (kernel-evaluated). -/
example : Lemmas.IncludeAugSim.PendRel Ex3.sp Ex3.R Ex3.R' {} Ex.plug Ex.plug ∧
    Lemmas.IncludeAugSim.AllConverted Ex3.R {} Ex.plug ∧
    Lemmas.IncludeAugOrder.loopFuel Ex3.R' {} Ex.plug = Lemmas.IncludeAugOrder.loopFuel Ex3.R {} Ex.plug := by decide +kernel

end Goyang.Props.C13Include
