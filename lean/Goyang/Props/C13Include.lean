import Goyang.Lemmas.IncludeMain
import Goyang.Lemmas.IncludeDump
import Goyang.Lemmas.IncludeCheck
import Goyang.Model.TypesLite
/-
C13, third sentence — "An included submodule contributes its data nodes, typedefs, groupings and
identities to the including module exactly as if they were written there."

Setting (Spec/Include.lean).  `IsSplitOf s R R' plug plug'`: the registry `R'` is the registry `R` with one
module `s.m` replaced by an owner `s.owner` (same name, header, load number; `include` statements)
and submodules `s.subs` (belongs-to `m` under `m`'s prefix, `m`'s imports), every body statement of
`m` (data nodes, rpcs, notifications, uses, groupings) being in exactly one part as the same
statement; `Visible`: from every part every top-level grouping name of `m` binds, by goyang's
lookup rules, to the statement `m` declares (the exact visibility condition the model needs — it is
what the runner's split guarantees by construction, and what the repaired `FindGrouping` gives
whenever the owner includes every submodule); `PlugSplitOK`: the plugged layers (types C09,
identities C11, typedefs; `plug` for the unsplit, `plug'` for the split registry — the pipeline
builds its plug from the registry) answer alike — typedefs and identities are their business; `PosWF`,
`RefsWF`, `LookupFuelOK`: positions identify groupings, prefixed references are well formed (C06),
the model's lookup fuel suffices (executable checkers: Lemmas/IncludeCheck.lean).  The parts may
include each other in any way (nested includes) as long as every submodule is reached from the
owner and no part includes itself or is included back by a part it includes (`RegsOK.inc_cover`,
`inc_no_back`: exactly what goyang's circularity test asks).  This round: `R` itself has no
submodules (the runner's setting).

What is proved, for all such registries, every option set and plug:

* `include_conversion` — the conversion stage (`ToEntry` of every module, the stage the sentence is
  about): if the unsplit conversion is error free so is the split one; every other module's tree is
  the same but for the module numbers of nodes whose text now lives in a submodule (`ren σ`); the
  owner's tree has the unsplit module's data and exactly its children, each equal but for those
  numbers, in another order (`SameTop`).  Augment and deviation statements may be present (they are
  converted, not yet applied, at this stage).
* `include_eq_inline_partial` — the same for the result of `processAll` (`Modules.Process`), when no
  loaded module has augment or deviation statements; `include_paths` — namespace, read-only status
  and every subtree below the root agree at every path; `include_eq_inline_noaug` — the canonical
  dumps (what the runner compares) are equal: the full statement `IncludeEqInline` for these sets.
* `visible_when_grouping_names_distinct` — the visibility condition holds by itself when the
  top-level grouping names of `m` are distinct (a submodule sees its siblings through its owner).
* the stages behind them, as statements of their own: `context_independence` (a), `grouping_found_same`
  (b), `parts_merge_each_submodule_once` (c).

`IncludeEqInline` is the full statement (any registry, canonical dumps as the runner compares
them); see the note at its definition for what is missing.
-/
namespace Goyang.Props.C13Include
open Goyang.Model Goyang.Spec.Include Goyang.Spec.Uses Goyang.Lemmas.Tree
open Goyang.Lemmas.IncludeRel Goyang.Lemmas.IncludeRun Goyang.Lemmas.IncludeMain
open Goyang.Lemmas (Fuel.need IncludeWorld.Wu IncludeWorld.Ws IncludeWorld.part_mem')

/-! ### the conversion stage -/

/-- **include_conversion.**  After `ToEntry` of all modules (`forest0`): error-freeness carries over
from the unsplit to the split set; every module other than the split one has the same tree up to
`ren σ` (module numbers of nodes that now live in a submodule's text); the owner's tree is the
unsplit module's: same data but for the statement object, the same children — each equal up to
`ren σ` — in another order, no rpc input/output. -/
theorem include_conversion (s : Split) (R R' : Registry) (opts : Opts) (plug plug' : Plug) (h : IsSplitOf s R R' plug plug')
    (hlink : (linkAll R).2 = []) (hclean : forestErrs (forest0 R opts plug) = []) :
    forestErrs (forest0 R' opts plug') = [] ∧
    (∀ x ∈ R.mods, x.seq ≠ s.m.seq → ∀ t, (forest0 R opts plug).tree? x.seq = some t →
      ∃ t', (forest0 R' opts plug').tree? x.seq = some t' ∧ ren s.σ t' = t) ∧
    (∃ t, (forest0 R opts plug).tree? s.m.seq = some t) ∧
    (∀ t, (forest0 R opts plug).tree? s.m.seq = some t →
      ∃ t', (forest0 R' opts plug').tree? s.m.seq = some t' ∧ SameTop s.σ t' t) :=
  conv_split opts plug plug' h hlink hclean

/-! ### `Modules.Process` -/

/-- **The full statement** (not proved in this generality): for every pair of registries related by
a split — any other modules, with their own submodules, augments and deviations, nested includes
among the parts — a clean `Process` of the unsplit set implies a clean `Process` of the split set
and equal canonical dumps (children in name order at every level; kind, config, type, defaults,
constraints, namespace, read-only, instantiating module) of the split module.

Proved below: `include_eq_inline_noaug` (this very statement), `include_eq_inline_partial` +
`include_paths` (no augment/deviation statements in the set; `R` without submodules) and `include_conversion` (conversion stage, augments and deviations allowed).  Missing for
the full statement: (1) the augment loop of `Process`
visits the trees in an order that the additional (augment-free) submodule trees change (swap-remove
over the module array), so children grafted by different modules into one node can arrive in
another order: needs C07's order independence at every level, i.e. `List.Perm` of `dir` recursively
instead of at the root only; (2) augments and deviations that target nodes of the split module go
through `Entry.Find` by name, which is insensitive to the order (`find?_perm`), but the induction
over the augment loop on two forests has not been done; (3) nested includes among the parts: the
(nested includes among the parts ARE covered: `parts_merge_each_submodule_once`); (4) other modules of `R` with submodules
of their own (their include steps run in lockstep in both registries; not done).  The metamorphic
runner harness/cmd/corr-c13c checks the full statement on both sides. -/
def IncludeEqInline (s : Split) (R R' : Registry) (opts : Opts) (plug plug' : Plug) : Prop :=
  (processAll R opts plug).errors = [] →
    (processAll R' opts plug').errors = [] ∧
    dumpOf (processAll R' opts plug') s.owner = dumpOf (processAll R opts plug) s.m

/-- **include_eq_inline_partial.**  No augment or deviation statement in the loaded set: a clean
`Process` of the unsplit set implies a clean `Process` of the split set; every other module keeps its
tree (up to `ren σ`); the owner's tree is the unsplit module's tree with the children of the root
in another order (`SameTop`: same data but for the statement object, the same children up to
`ren σ`). -/
theorem include_eq_inline_partial (s : Split) (R R' : Registry) (opts : Opts) (plug plug' : Plug)
    (h : IsSplitOf s R R' plug plug') (hna : NoAugDev R) (hclean : (processAll R opts plug).errors = []) :
    (processAll R' opts plug').errors = [] ∧
    (∀ x ∈ R.mods, x.seq ≠ s.m.seq → ∀ t, (processAll R opts plug).forest.tree? x.seq = some t →
      ∃ t', (processAll R' opts plug').forest.tree? x.seq = some t' ∧ ren s.σ t' = t) ∧
    (∃ t, (processAll R opts plug).forest.tree? s.m.seq = some t) ∧
    (∀ t, (processAll R opts plug).forest.tree? s.m.seq = some t →
      ∃ t', (processAll R' opts plug').forest.tree? s.m.seq = some t' ∧ SameTop s.σ t' t) :=
  process_split opts plug plug' h hna hclean

/-- **include_paths.**  In the same setting, at every path into the module's tree: the same namespace (`namespaceAt`), the same read-only status (`readOnlyAt`), and
below the root the same subtree — every node with all its data, children in the same order — up to
`ren σ`. -/
theorem include_paths (s : Split) (R R' : Registry) (opts : Opts) (plug plug' : Plug)
    (h : IsSplitOf s R R' plug plug') (hna : NoAugDev R) (hclean : (processAll R opts plug).errors = [])
    (p : Path) :
    namespaceAt R' (processAll R' opts plug').forest (s.m.seq, p) = namespaceAt R (processAll R opts plug).forest (s.m.seq, p) ∧
    ∀ t' t, (processAll R' opts plug').forest.tree? s.m.seq = some t' → (processAll R opts plug).forest.tree? s.m.seq = some t →
      t'.readOnlyAt p = t.readOnlyAt p ∧ (p ≠ [] → (t'.getAt p).map (ren s.σ) = t.getAt p) :=
  process_split_paths opts plug plug' h hna hclean p


/-- **include_eq_inline_noaug.**  The full statement for sets without augment and deviation
statements: the canonical dump of the owner's tree (every node in name order with kind, config,
mandatory, defaults, units, key, list attributes, type, read-only, namespace, instantiating module,
path) is the dump of the unsplit module's tree. -/
theorem include_eq_inline_noaug (s : Split) (R R' : Registry) (opts : Opts) (plug plug' : Plug)
    (h : IsSplitOf s R R' plug plug') (hna : NoAugDev R) : IncludeEqInline s R R' opts plug plug' :=
  fun hclean => ⟨(process_split opts plug plug' h hna hclean).1, Lemmas.IncludeDump.dumpOf_split opts plug plug' h hna hclean⟩

/-- **visible_when_grouping_names_distinct.**  The visibility condition is automatic when the
top-level grouping names of `m` are pairwise distinct (RFC 7950 requires it; goyang does not check):
from every part the search order of goyang's lookup reaches every part — the owner through its
include statements, a submodule through its owner. -/
theorem visible_when_grouping_names_distinct (s : Split) (R R' : Registry) (ht : TextOK s) (hr : RegsOK s R R')
    (hlink : (linkAll R).2 = []) (hnd : ((s.m.stmt.all "grouping").map (·.arg)).Nodup) :
    Visible s R' (linkAll R').1 :=
  Lemmas.IncludeVisibleN.visible_of_nodupN s R R' _ _ ht hr (Lemmas.IncludeLinkN.linkAll_splitN s R R' ht hr hlink).2 hnd

/-- **(d) what is needed of the plug**, discharged for the placeholder type layer (`typesLite`: the
written type name) with identity and typedef stages that report nothing.  For the full plug
(`Pipeline.plugFull R`, `plugFull R'`) the four clauses of `PlugSplitOK` are the obligations of the
type, identity and typedef layers: typedef lookup from a part must find what the lookup from `m`
finds (the analogue of `Visible` for typedefs), identities and typedefs of the parts must be
collected as if written in `m`. -/
theorem plugSplitOK_lite (s : Split) (R R' : Registry) (plug plug' : Plug)
    (h1 : plug.tres = typesLite) (h1' : plug'.tres = typesLite)
    (h2 : plug'.identityErrs R' = []) (h3 : plug'.typedefErrs R' = []) : PlugSplitOK s R R' plug plug' where
  identity := fun _ => h2
  typedefs := fun _ => h3
  types_part := fun _ _ _ _ => by rw [h1, h1']; rfl
  types_other := fun _ _ _ _ _ => by rw [h1, h1']; rfl

/-! ### the stages -/

/-- **(a) context_independence.**  The conversion of a statement depends on the (sub)module it is
written in only through type resolution, grouping lookup and the module number: when the
conversion of `n` below `inner` in the unsplit module `m` is error free — from any coherent state,
any fuel that leaves the slack, any set of statements in progress that the value of `n` does not
depend on — then the conversion of the same `n` below the same `inner` in a part `P` of the split
set, again from any coherent state etc., gives the same entry up to `ren σ`. -/
theorem context_independence (s : Split) (R R' : Registry) (opts : Opts) (plug plug' : Plug) (h : IsSplitOf s R R' plug plug')
    (hlink : (linkAll R).2 = []) (P : Mod) (hP : P ∈ s.parts) (inner : List Stmt) (n : Stmt)
    (hn : isModKw n = false) (hch : Chain s.m.stmt (n :: (inner ++ [s.m.stmt]))) (hch' : Chain P.stmt (n :: (inner ++ [P.stmt])))
    (f f' : Nat) (vis vis' : List NodeId) (st st' : TState)
    (hf : Fuel.need R s.m n vis + lookupSlack R ≤ f) (hf' : Fuel.need R' P n vis' + lookupSlack R' ≤ f')
    (hcoh : Coh (IncludeWorld.Wu R opts plug) st.gcache) (hcoh' : Coh (IncludeWorld.Ws s R R' opts plug plug') st'.gcache)
    (hv : Harmless (IncludeWorld.Wu R opts plug) vis (s.m, inner ++ [s.m.stmt], n))
    (hv' : Harmless (IncludeWorld.Ws s R R' opts plug plug') vis' (s.m, inner ++ [s.m.stmt], n))
    (hclean : Clean (toEntry (envOf R opts plug) f s.m (inner ++ [s.m.stmt]) n vis st).1) :
    ren s.σ (toEntry (envOf R' opts plug') f' P (inner ++ [P.stmt]) n vis' st').1 =
      (toEntry (envOf R opts plug) f s.m (inner ++ [s.m.stmt]) n vis st).1 := by
  have hu := (run_val (IncludeWorld.Wu R opts plug) (wu_ok opts plug plug' h) f s.m (inner ++ [s.m.stmt]) n vis st s.m
    (inner ++ [s.m.stmt]) ⟨rfl, rfl⟩ ⟨h.regs.m_mem, hch⟩ hn hf hcoh hv).1
  have hs := (run_val (IncludeWorld.Ws s R R' opts plug plug') (ws_ok opts plug plug' h hlink) f' P (inner ++ [P.stmt]) n vis' st' s.m
    (inner ++ [s.m.stmt]) (Or.inl ⟨hP, rfl, inner, rfl, rfl⟩) ⟨IncludeWorld.part_mem' h.regs hP, hch'⟩ hn hf' hcoh' hv').1
  have h1 : ren id (toEntry (envOf R opts plug) f s.m (inner ++ [s.m.stmt]) n vis st).1 =
      (IncludeWorld.Wu R opts plug).val s.m (inner ++ [s.m.stmt]) n := hu.1 hclean
  rw [ren_id] at h1
  have hc : Clean ((IncludeWorld.Ws s R R' opts plug plug').val s.m (inner ++ [s.m.stmt]) n) := by
    have : (IncludeWorld.Ws s R R' opts plug plug').val s.m (inner ++ [s.m.stmt]) n =
        (IncludeWorld.Wu R opts plug).val s.m (inner ++ [s.m.stmt]) n := rfl
    rw [this, ← h1]; exact hclean
  have h2 : ren s.σ (toEntry (envOf R' opts plug') f' P (inner ++ [P.stmt]) n vis' st').1 =
      (IncludeWorld.Ws s R R' opts plug plug').val s.m (inner ++ [s.m.stmt]) n := hs.2 hc
  rw [h2, h1]
  rfl

/-- **(b) grouping_found_same.**  From a place in a part, goyang's grouping lookup (C06: `findGrouping`
is `bindGrouping`) answers the very statement that the lookup from the same place in the unsplit
module answers, at the corresponding place (`CtxRel`): in a part again when it is one of `m`'s own
groupings — found through include statements or, from a submodule, through its owner — and in the
same other module otherwise. -/
theorem grouping_found_same (s : Split) (R R' : Registry) (h : TextOK s) (hr : RegsOK s R R')
    (hl : LinkOK s R (linkAll R).1 (linkAll R').1) (hv : Visible s R' (linkAll R').1) (P : Mod) (hP : P ∈ s.parts)
    (inner : List Stmt) (name : String) :
    Lemmas.IncludeBind.BindRel s R (bindGrouping R' (linkAll R').1 P inner name) (bindGrouping R (linkAll R).1 s.m inner name) :=
  Lemmas.IncludeVisibleN.bind_partN s R R' _ _ h hr hl hv P hP inner name

/-- **(c) parts_merge_each_submodule_once** (nested includes, the merged-submodule bookkeeping).
The conversion of a part `P` of the split (owner or submodule; not yet converted; `S` the names of
the submodules started so far, in agreement with goyang's `mergedSubmodule` keys and the module
cache: `PInv`) is — up to `ren σ`, where error free — the pure depth-first mirror `pp`
(`Lemmas.IncludeAsm.ppart`): `P`'s own field steps before the include step; then, for every include
statement in order, the target's conversion merged **iff the target has not been started yet**
(started from anywhere: the bookkeeping lets every submodule pass exactly once, a target already
started is skipped silently, and under `RegsOK.inc_no_back` — no part includes itself, no two parts
include each other — goyang's circularity error is never raised); then `P`'s remaining field steps.
Afterwards the state agrees with the started names of the mirror (`PGoal.inv`), `P` is in the module
cache (`self`), every newly started submodule is in the module cache (`newc`) with an entry that is
a value of the mirror (`cache`).  `PStmt`/`PGoal`: Lemmas/IncludeModN.lean. -/
theorem parts_merge_each_submodule_once (s : Split) (R R' : Registry) (opts : Opts) (plug plug' : Plug)
    (h : IsSplitOf s R R' plug plug') (hlink : (linkAll R).2 = []) (f : Nat) : Lemmas.IncludeModN.PStmt s R R' opts plug plug' f :=
  Lemmas.IncludeModN.part_conv opts plug plug' h.text h.regs
    (Lemmas.IncludeLinkN.linkAll_splitN s R R' h.text h.regs hlink).2 (ws_ok opts plug plug' h hlink) f

/-! ### non-vacuity: a module with two containers and a grouping, split into two submodules

```
module m { namespace "urn:m"; prefix p;                      module m { namespace "urn:m"; prefix p; include s1; include s2; }
  container c1 { uses g; }                                   submodule s1 { belongs-to m { prefix p; } container c1 { uses g; } }
  grouping g { leaf x { type string; } }          ~>         submodule s2 { belongs-to m { prefix p; }
  container c2 { leaf y { type int8; } } }                     grouping g { leaf x { type string; } } container c2 { leaf y { type int8; } } }
```
The registries are what `Registry.loadAll` makes of the statements.  Every hypothesis is discharged
(kernel-checked where it is a computation; the conversion of the split set itself does not reduce in
the kernel — `String.contains` in the lookup across files — its result is what the theorem gives). -/
namespace Ex
def st (file kw arg : String) (l c : Nat) (subs : List Stmt) : Stmt := .mk kw true arg file l c subs
def ty (n : String) : Stmt := st "m" "type" n 0 0 []
def gS : Stmt := st "m" "grouping" "g" 3 3 [st "m" "leaf" "x" 3 15 [ty "string"]]
def c1 : Stmt := st "m" "container" "c1" 4 3 [st "m" "uses" "g" 4 20 []]
def c2 : Stmt := st "m" "container" "c2" 5 3 [st "m" "leaf" "y" 5 20 [ty "int8"]]
def nsS : Stmt := st "m" "namespace" "urn:m" 1 12 []
def pfS : Stmt := st "m" "prefix" "p" 1 30 []
def mS : Stmt := st "m" "module" "m" 1 1 [nsS, pfS, c1, gS, c2]
-- the split texts (the moved statements are the same statement values)
def inc1 : Stmt := st "o" "include" "s1" 2 3 []
def inc2 : Stmt := st "o" "include" "s2" 3 3 []
def oS : Stmt := st "o" "module" "m" 1 1 [nsS, pfS, inc1, inc2]
def bt (f : String) : Stmt := st f "belongs-to" "m" 1 15 [pfS]
def s1S : Stmt := st "s1" "submodule" "s1" 1 1 [bt "s1", c1]
def s2S : Stmt := st "s2" "submodule" "s2" 1 1 [bt "s2", gS, c2]
def m : Mod := { seq := 0, stmt := mS }
def o : Mod := { seq := 0, stmt := oS }
def s1 : Mod := { seq := 1, stmt := s1S }
def s2 : Mod := { seq := 2, stmt := s2S }
def R : Registry := (Registry.loadAll [mS]).1
def R' : Registry := (Registry.loadAll [oS, s1S, s2S]).1
def plug : Plug := { tres := typesLite, identityErrs := fun _ => [], typedefErrs := fun _ => [] }
def sp : Split := { m := m, owner := o, subs := [s1, s2] }

theorem R_mods : R.mods = [m] := rfl
theorem R'_mods : R'.mods = [o, s1, s2] := rfl

theorem mem_subs {sb : Mod} (h : sb ∈ sp.subs) : sb = s1 ∨ sb = s2 := by simpa [sp] using h
theorem mem_R {x : Mod} (h : x ∈ R.mods) : x = m := by rw [R_mods] at h; simpa using h
theorem mem_parts {P : Mod} (h : P ∈ sp.parts) : P = o ∨ P = s1 ∨ P = s2 := by simpa [sp, Split.parts] using h

theorem textOK : TextOK sp where
  m_kw := rfl
  owner_kw := rfl
  owner_arg := rfl
  m_no_include := rfl
  m_no_belongs := rfl
  kept := by
    intro kw hkw
    simp only [keptKws, List.mem_cons, List.mem_nil_iff, or_false] at hkw
    rcases hkw with rfl | rfl | rfl | rfl | rfl | rfl | rfl | rfl <;> rfl
  sub_kw := by intro sb hsb; rcases mem_subs hsb with rfl | rfl <;> rfl
  sub_belongs := by intro sb hsb; rcases mem_subs hsb with rfl | rfl <;> rfl
  sub_prefix := by intro sb hsb; rcases mem_subs hsb with rfl | rfl <;> rfl
  sub_imports := by intro sb hsb; rcases mem_subs hsb with rfl | rfl <;> rfl
  sub_no_aug := by intro sb hsb; rcases mem_subs hsb with rfl | rfl <;> exact ⟨rfl, rfl, rfl⟩
  body := by
    intro kw hkw
    simp only [bodyKws, List.mem_cons, List.mem_nil_iff, or_false] at hkw
    rcases hkw with rfl | rfl | rfl | rfl | rfl | rfl | rfl | rfl | rfl | rfl | rfl <;> exact List.Perm.refl _

theorem regsOK : RegsOK sp R R' where
  m_mem := by rw [R_mods]; simp [sp]
  owner_seq := rfl
  seqs_nodup := by decide +kernel
  sub_seqs_fresh := by
    intro sb hsb x hx
    have h2 := mem_R hx
    subst h2
    rcases mem_subs hsb with rfl | rfl <;> decide
  sub_seqs_nodup := by decide
  sub_names_nodup := by decide
  mods' := rfl
  modules' := rfl
  subModules := rfl
  subModules' := rfl
  R_modules_only := by
    intro x hx
    have h2 := mem_R hx
    subst h2
    exact ⟨rfl, rfl, rfl⟩
  keys_valid := by
    intro kv hkv
    have : kv = ("m", 0) := by
      have h : R.modules = [("m", 0)] := rfl
      rw [h] at hkv; simpa using hkv
    subst this
    exact ⟨m, by rw [R_mods]; simp, rfl⟩
  m_bound := rfl
  sub_name_ne := by intro sb hsb; rcases mem_subs hsb with rfl | rfl <;> decide
  inc_resolve := by
    intro P hP a ha
    rcases mem_parts hP with rfl | rfl | rfl
    · have : a = inc1 ∨ a = inc2 := by
        have h : a ∈ [inc1, inc2] := ha
        simpa using h
      rcases this with rfl | rfl
      · exact ⟨s1, by simp [sp], rfl⟩
      · exact ⟨s2, by simp [sp], rfl⟩
    · have h : a ∈ ([] : List Stmt) := ha
      cases h
    · have h : a ∈ ([] : List Stmt) := ha
      cases h
  inc_cover := by
    intro sb hsb
    rcases mem_subs hsb with rfl | rfl
    · exact .step (.refl _) ⟨inc1, (by show inc1 ∈ [inc1, inc2]; simp), rfl⟩
    · exact .step (.refl _) ⟨inc2, (by show inc2 ∈ [inc1, inc2]; simp), rfl⟩
  inc_no_back := by
    intro P hP Q hQ hinc
    have hsub : ∀ X, X = s1 ∨ X = s2 → ∀ Y, ¬ Includes R' X Y := by
      rintro X (rfl | rfl) Y ⟨a, ha, _⟩
      · have h : a ∈ ([] : List Stmt) := ha
        cases h
      · have h : a ∈ ([] : List Stmt) := ha
        cases h
    rcases mem_parts hP with rfl | rfl | rfl
    · refine ⟨?_, ?_⟩
      · rintro rfl
        obtain ⟨a, ha, hf⟩ := hinc
        have : a = inc1 ∨ a = inc2 := by
          have h : a ∈ [inc1, inc2] := ha
          simpa using h
        rcases this with rfl | rfl
        · have h2 : R'.findModule true inc1 = some s1 := rfl
          rw [h2] at hf
          have : s1.seq = o.seq := by rw [Option.some.inj hf]
          exact absurd this (by decide)
        · have h2 : R'.findModule true inc2 = some s2 := rfl
          rw [h2] at hf
          have : s2.seq = o.seq := by rw [Option.some.inj hf]
          exact absurd this (by decide)
      · obtain ⟨a, ha, hf⟩ := hinc
        have : a = inc1 ∨ a = inc2 := by
          have h : a ∈ [inc1, inc2] := ha
          simpa using h
        rcases this with rfl | rfl
        · have h2 : R'.findModule true inc1 = some s1 := rfl
          rw [h2] at hf
          rw [← Option.some.inj hf]
          exact hsub s1 (Or.inl rfl) _
        · have h2 : R'.findModule true inc2 = some s2 := rfl
          rw [h2] at hf
          rw [← Option.some.inj hf]
          exact hsub s2 (Or.inr rfl) _
    · exact absurd hinc (hsub s1 (Or.inl rfl) Q)
    · exact absurd hinc (hsub s2 (Or.inr rfl) Q)
  keys_inj := by decide +kernel

/-- From every part the grouping `g` binds to `m`'s statement, found in `s2`: from the owner through
its include statements, from `s1` through its owner, in `s2` itself. -/
theorem visible : Visible sp R' (linkAll R').1 := by
  intro P hP g hg
  have h1 : P = o ∨ P = s1 ∨ P = s2 := by simpa [sp, Split.parts] using hP
  have h2 : g = gS := by
    have : g ∈ [gS] := hg
    simpa using this
  subst h2
  rcases h1 with rfl | rfl | rfl <;> exact ⟨s2, by simp [sp, Split.parts], rfl⟩

theorem plugOK : PlugSplitOK sp R R' plug plug where
  identity := fun _ => rfl
  typedefs := fun _ => rfl
  types_part := fun _ _ _ _ => rfl
  types_other := fun _ _ _ _ _ => rfl

theorem isSplit : IsSplitOf sp R R' plug plug where
  text := textOK
  regs := regsOK
  visible := visible
  plugOK := plugOK
  pos := Lemmas.IncludeCheck.posWF_of_check R (by decide +kernel)
  pos' := Lemmas.IncludeCheck.posWF_of_check R' (by decide +kernel)
  refs := Lemmas.IncludeCheck.refsWF_of_check R (by decide +kernel)
  refs' := Lemmas.IncludeCheck.refsWF_of_check R' (by decide +kernel)
  fuel := Lemmas.IncludeCheck.lookupFuelOK_of_check R (by decide +kernel)
  fuel' := Lemmas.IncludeCheck.lookupFuelOK_of_check R' (by decide +kernel)

theorem noAugDev : NoAugDev R := by
  intro x hx
  have h2 := mem_R hx
  subst h2
  exact ⟨rfl, rfl⟩

/-- The unsplit set processes without errors (evaluated in the kernel). -/
theorem unsplit_clean : (processAll R {} plug).errors = [] := by decide +kernel

-- the unsplit module's tree, evaluated: the containers in field order, the grouping's leaf copied
example : ((processAll R {} plug).forest.tree? 0).map (fun t => t.dir.map fun c => (c.name, c.dir.map (·.name))) =
    some [("c1", ["x"]), ("c2", ["y"])] := by decide +kernel

/-- **The hypotheses of `include_eq_inline_partial` are satisfiable**, and what it says here: the split
set processes without errors and the owner's tree is the unsplit module's. -/
theorem split_result :
    (processAll R' {} plug).errors = [] ∧
    ∃ t t', (processAll R {} plug).forest.tree? 0 = some t ∧ (processAll R' {} plug).forest.tree? 0 = some t' ∧
      SameTop sp.σ t' t := by
  obtain ⟨h1, _, ⟨t, ht⟩, h4⟩ := include_eq_inline_partial sp R R' {} plug plug isSplit noAugDev unsplit_clean
  obtain ⟨t', ht', hst⟩ := h4 t ht
  exact ⟨h1, t, t', ht, ht', hst⟩

/-- The canonical dumps of the two results are equal. -/
theorem split_dump : dumpOf (processAll R' {} plug) o = dumpOf (processAll R {} plug) m :=
  (include_eq_inline_noaug sp R R' {} plug plug isSplit noAugDev unsplit_clean).2

/-- … and at the path `/m/c1/x` (the leaf that came through `uses g`, written in `s2`, used in `s1`):
same namespace, same read-only status, same node. -/
example : namespaceAt R' (processAll R' {} plug).forest (0, [.child "c1", .child "x"]) = "urn:m" := by
  have := (include_paths sp R R' {} plug plug isSplit noAugDev unsplit_clean [.child "c1", .child "x"]).1
  have h0 : sp.m.seq = 0 := rfl
  rw [h0] at this
  rw [this]
  decide +kernel

-- the link stage of the split set, evaluated: every part is linked
example : (linkAll R').1 = [2, 1, 0] ∧ (linkAll R').2 = [] := by decide +kernel
end Ex


/-! ### non-vacuity, nested includes: `s1` also includes `s2` (the shape of the runner's splits)

```
module m { … include s1; include s2; }
submodule s1 { belongs-to m { prefix p; } include s2; container c1 { uses g; } }
submodule s2 { belongs-to m { prefix p; } grouping g { … } container c2 { … } }
```
Here goyang converts `s2` while converting `s1` (started from `s1`'s include statement), merges its
entry into `s1`'s, `s1`'s into the owner's, and skips the owner's own `include s2` (already merged). -/
namespace Ex2
open Ex
def inc2' : Stmt := st "s1" "include" "s2" 2 3 []
def s1S' : Stmt := st "s1" "submodule" "s1" 1 1 [bt "s1", inc2', c1]
def s1' : Mod := { seq := 1, stmt := s1S' }
def R2 : Registry := (Registry.loadAll [oS, s1S', s2S]).1
def sp2 : Split := { m := m, owner := o, subs := [s1', s2] }

theorem R2_mods : R2.mods = [o, s1', s2] := rfl
theorem mem_subs2 {sb : Mod} (h : sb ∈ sp2.subs) : sb = s1' ∨ sb = s2 := by simpa [sp2] using h
theorem mem_parts2 {P : Mod} (h : P ∈ sp2.parts) : P = o ∨ P = s1' ∨ P = s2 := by simpa [sp2, Split.parts] using h

theorem textOK2 : TextOK sp2 where
  m_kw := rfl
  owner_kw := rfl
  owner_arg := rfl
  m_no_include := rfl
  m_no_belongs := rfl
  kept := by
    intro kw hkw
    simp only [keptKws, List.mem_cons, List.mem_nil_iff, or_false] at hkw
    rcases hkw with rfl | rfl | rfl | rfl | rfl | rfl | rfl | rfl <;> rfl
  sub_kw := by intro sb hsb; rcases mem_subs2 hsb with rfl | rfl <;> rfl
  sub_belongs := by intro sb hsb; rcases mem_subs2 hsb with rfl | rfl <;> rfl
  sub_prefix := by intro sb hsb; rcases mem_subs2 hsb with rfl | rfl <;> rfl
  sub_imports := by intro sb hsb; rcases mem_subs2 hsb with rfl | rfl <;> rfl
  sub_no_aug := by intro sb hsb; rcases mem_subs2 hsb with rfl | rfl <;> exact ⟨rfl, rfl, rfl⟩
  body := by
    intro kw hkw
    simp only [bodyKws, List.mem_cons, List.mem_nil_iff, or_false] at hkw
    rcases hkw with rfl | rfl | rfl | rfl | rfl | rfl | rfl | rfl | rfl | rfl | rfl <;> exact List.Perm.refl _

/-- The include statements of the three parts and what they resolve to. -/
theorem includes2 {P Q : Mod} (hP : P ∈ sp2.parts) (h : Includes R2 P Q) :
    (P = o ∧ (Q = s1' ∨ Q = s2)) ∨ (P = s1' ∧ Q = s2) := by
  obtain ⟨a, ha, hf⟩ := h
  rcases mem_parts2 hP with rfl | rfl | rfl
  · have : a = inc1 ∨ a = inc2 := by
      have h : a ∈ [inc1, inc2] := ha
      simpa using h
    rcases this with rfl | rfl
    · have h2 : R2.findModule true inc1 = some s1' := rfl
      rw [h2] at hf
      exact Or.inl ⟨rfl, Or.inl (Option.some.inj hf).symm⟩
    · have h2 : R2.findModule true inc2 = some s2 := rfl
      rw [h2] at hf
      exact Or.inl ⟨rfl, Or.inr (Option.some.inj hf).symm⟩
  · have : a = inc2' := by
      have h : a ∈ [inc2'] := ha
      simpa using h
    subst this
    have h2 : R2.findModule true inc2' = some s2 := rfl
    rw [h2] at hf
    exact Or.inr ⟨rfl, (Option.some.inj hf).symm⟩
  · have h : a ∈ ([] : List Stmt) := ha
    cases h

theorem regsOK2 : RegsOK sp2 R R2 where
  m_mem := by rw [R_mods]; simp [sp2]
  owner_seq := rfl
  seqs_nodup := by decide +kernel
  sub_seqs_fresh := by
    intro sb hsb x hx
    have h2 := mem_R hx
    subst h2
    rcases mem_subs2 hsb with rfl | rfl <;> decide
  sub_seqs_nodup := by decide
  sub_names_nodup := by decide
  mods' := rfl
  modules' := rfl
  subModules := rfl
  subModules' := rfl
  R_modules_only := by
    intro x hx
    have h2 := mem_R hx
    subst h2
    exact ⟨rfl, rfl, rfl⟩
  keys_valid := by
    intro kv hkv
    have : kv = ("m", 0) := by
      have h : R.modules = [("m", 0)] := rfl
      rw [h] at hkv; simpa using hkv
    subst this
    exact ⟨m, by rw [R_mods]; simp, rfl⟩
  m_bound := rfl
  sub_name_ne := by intro sb hsb; rcases mem_subs2 hsb with rfl | rfl <;> decide
  inc_resolve := by
    intro P hP a ha
    rcases mem_parts2 hP with rfl | rfl | rfl
    · have : a = inc1 ∨ a = inc2 := by
        have h : a ∈ [inc1, inc2] := ha
        simpa using h
      rcases this with rfl | rfl
      · exact ⟨s1', by simp [sp2], rfl⟩
      · exact ⟨s2, by simp [sp2], rfl⟩
    · have : a = inc2' := by
        have h : a ∈ [inc2'] := ha
        simpa using h
      subst this
      exact ⟨s2, by simp [sp2], rfl⟩
    · have h : a ∈ ([] : List Stmt) := ha
      cases h
  inc_cover := by
    intro sb hsb
    rcases mem_subs2 hsb with rfl | rfl
    · exact .step (.refl _) ⟨inc1, (by show inc1 ∈ [inc1, inc2]; simp), rfl⟩
    · exact .step (.refl _) ⟨inc2, (by show inc2 ∈ [inc1, inc2]; simp), rfl⟩
  inc_no_back := by
    intro P hP Q hQ hinc
    have hne1 : s1' ≠ o := fun e => absurd (congrArg (·.seq) e) (by decide)
    have hne2 : s2 ≠ o := fun e => absurd (congrArg (·.seq) e) (by decide)
    have hne3 : s2 ≠ s1' := fun e => absurd (congrArg (·.seq) e) (by decide)
    rcases includes2 hP hinc with ⟨rfl, rfl | rfl⟩ | ⟨rfl, rfl⟩
    · refine ⟨hne1, fun hb => ?_⟩
      rcases includes2 hQ hb with ⟨e, _⟩ | ⟨_, e⟩
      · exact hne1 e
      · exact hne2 e.symm
    · refine ⟨hne2, fun hb => ?_⟩
      rcases includes2 hQ hb with ⟨e, _⟩ | ⟨e, _⟩
      · exact hne2 e
      · exact hne3 e
    · refine ⟨hne3, fun hb => ?_⟩
      rcases includes2 hQ hb with ⟨e, _⟩ | ⟨e, _⟩
      · exact hne2 e
      · exact hne3 e
  keys_inj := by decide +kernel

theorem visible2 : Visible sp2 R2 (linkAll R2).1 := by
  intro P hP g hg
  have h2 : g = gS := by
    have : g ∈ [gS] := hg
    simpa using this
  subst h2
  rcases mem_parts2 hP with rfl | rfl | rfl <;> exact ⟨s2, by simp [sp2, Split.parts], rfl⟩

theorem isSplit2 : IsSplitOf sp2 R R2 plug plug where
  text := textOK2
  regs := regsOK2
  visible := visible2
  plugOK := ⟨fun _ => rfl, fun _ => rfl, fun _ _ _ _ => rfl, fun _ _ _ _ _ => rfl⟩
  pos := Lemmas.IncludeCheck.posWF_of_check R (by decide +kernel)
  pos' := Lemmas.IncludeCheck.posWF_of_check R2 (by decide +kernel)
  refs := Lemmas.IncludeCheck.refsWF_of_check R (by decide +kernel)
  refs' := Lemmas.IncludeCheck.refsWF_of_check R2 (by decide +kernel)
  fuel := Lemmas.IncludeCheck.lookupFuelOK_of_check R (by decide +kernel)
  fuel' := Lemmas.IncludeCheck.lookupFuelOK_of_check R2 (by decide +kernel)

/-- The nested split processes without errors and gives the same dump. -/
theorem nested_result :
    (processAll R2 {} plug).errors = [] ∧ dumpOf (processAll R2 {} plug) o = dumpOf (processAll R {} plug) m :=
  include_eq_inline_noaug sp2 R R2 {} plug plug isSplit2 noAugDev unsplit_clean
end Ex2

end Goyang.Props.C13Include
