import Goyang.Model.ToEntry
/-
C13, third sentence — an included submodule contributes its nodes to the including module exactly
as if they were written there.  In the model the `include` field step of `toEntry` is
`e.merge none (toEntry submodule)`; these theorems say what that does to the child list.  The
end-to-end statement (dump of the split module = dump of the unsplit module) is checked
metamorphically on both sides by harness/cmd/corr-c13c; it is not proved (see `include_eq_inline`
below for the statement).  Props/C13Include.lean has the end-to-end theorems: proved for sets without
augment / deviation statements (`include_eq_inline_noaug`); for sets with augments that wait for the
stage after FixChoice the statement was refuted (finding D67) until that stage was made a fixpoint — the
witness pair now satisfies it (`include_eq_inline_witness`); and for the statement
`IncludeEqInlineAugments` the order-independence step of the augment loop
(`include_augment_loop_order`, `include_augment_loop_clean_iff`, `include_pending_rows`, `no_leftover_result`),
the canonical dump as a function of the view (`dump_of_path_view`, `dump_of_view`, `fixChoice_path_view`,
`include_dump_in_unsplit_order`) and the machine-checked reduction `include_eq_inline_augments_reduced` of the
statement to what is still open (`LoopsRelated`: equal pending augment entries and the lockstep simulation of
the two loops in the same module order, plus the bookkeeping of lazily created rpc inputs / outputs).
-/
namespace Goyang.Props.C13c
open Goyang.Model

/-- Names of the children of `e`. -/
def names (e : Entry) : List String := e.dir.map (·.name)

theorem child?_none_of_not_mem (e : Entry) (k : String) (h : k ∉ names e) : e.child? k = none := by
  unfold Entry.child?
  rw [List.find?_eq_none]
  intro x hx hk
  apply h
  unfold names
  rw [List.mem_map]
  exact ⟨x, hx, by simpa using hk⟩

/-- One step of the merge fold, when the name is free: the child is appended unchanged. -/
theorem merge_step_free (e v : Entry) (h : v.name ∉ names e) :
    (match e.child? v.name with
      | some _ => e.addErr (Err.at_ e.d.node "x")
      | none => e.withDir (e.dir ++ [v])) = e.withDir (e.dir ++ [v]) := by
  rw [child?_none_of_not_mem e v.name h]

theorem dir_withDir (e : Entry) (c : List Entry) : (e.withDir c).dir = c := by
  cases e; rfl

theorem dir_addErrs (e : Entry) (xs : List Err) : (e.addErrs xs).dir = e.dir := by
  cases e; rfl

theorem dir_importErrors (e c : Entry) : (e.importErrors c).dir = e.dir := by
  unfold Entry.importErrors; exact dir_addErrs _ _

/-- The fold of `merge none` over children whose names are fresh and pairwise distinct appends
them, unchanged and in order. -/
theorem merge_fold_free (nd : Stmt) (vs : List Entry) (e : Entry)
    (hfresh : ∀ v ∈ vs, v.name ∉ names e) (hnodup : (vs.map (·.name)).Nodup) :
    (vs.foldl (fun (e : Entry) v =>
        match e.child? v.name with
        | some _ => e.addErr (Err.at_ nd "duplicate-node")
        | none => e.withDir (e.dir ++ [v])) e).dir = e.dir ++ vs := by
  induction vs generalizing e with
  | nil => simp
  | cons v vs ih =>
    simp only [List.foldl_cons]
    have hv : v.name ∉ names e := hfresh v (by simp)
    rw [child?_none_of_not_mem e v.name hv]
    simp only [List.map_cons, List.nodup_cons] at hnodup
    have := ih (e.withDir (e.dir ++ [v])) (by
      intro w hw
      unfold names
      rw [dir_withDir]
      simp only [List.map_append, List.map_cons, List.map_nil, List.mem_append, List.mem_singleton, not_or]
      refine ⟨hfresh w (by simp [hw]), ?_⟩
      intro heq
      apply hnodup.1
      rw [← heq]
      exact List.mem_map_of_mem hw) hnodup.2
    rw [this, dir_withDir]
    simp

/-- **Include contributes the submodule's nodes as written.** When no top-level name of the
included (sub)module's entry `ie` clashes with what the including entry `e` already holds, merging
it (Go: `e.merge(prefix, nil, ToEntry(submodule))`, the `include` case of `ToEntry`; also the
`uses` case) leaves `e`'s children in place and appends exactly `ie`'s children, each unchanged —
same names, kinds, types, defaults, constraints, nesting, and no namespace stamp, so they report
the including module's namespace. -/
theorem include_contributes (e ie : Entry)
    (hfresh : ∀ v ∈ ie.dir, v.name ∉ names e) (hnodup : (ie.dir.map (·.name)).Nodup) :
    (e.merge none ie).dir = e.dir ++ ie.dir := by
  unfold Entry.merge
  have h := merge_fold_free ie.d.node ie.dir (e.importErrors ie)
    (by intro v hv; unfold names; rw [dir_importErrors]; exact hfresh v hv) hnodup
  rw [dir_importErrors] at h
  exact h

/-- A clashing name is reported: the merged entry records a `duplicate-node` error. -/
theorem include_clash_reported (e ie : Entry) :
    ∃ x ∈ ((e.importErrors ie).addErr (Err.at_ ie.d.node "duplicate-node")).d.errors, x.cls = "duplicate-node" := by
  refine ⟨Err.at_ ie.d.node "duplicate-node", ?_, rfl⟩
  cases h : (e.importErrors ie) with
  | mk d c i o => simp [Entry.addErr, Entry.withD, Entry.d]

-- Non-vacuity: a concrete including entry and included entry with fresh distinct names.
example :
    let leaf (n : String) : Entry := .mk { name := n, kind := .leaf, hasDir := false } [] [] []
    let e : Entry := .mk { name := "m" } [leaf "a"] [] []
    let ie : Entry := .mk { name := "s" } [leaf "b", leaf "c"] [] []
    ((e.merge none ie).dir.map (·.name)) = ["a", "b", "c"] := by
  decide

/-
Full statement (not proved; checked metamorphically by corr-c13c on both sides):

theorem include_eq_inline (split unsplit : List SrcFile) (h : IsSplitOf split unsplit) :
    noErrors (processAll (load unsplit)) →
    dumpModule (processAll (load split)) m = dumpModule (processAll (load unsplit)) m

Missing: the interleaving argument that the reverse-field-order fold of `toEntry` over the split
bodies produces the same child *set* as over the unsplit body, and the visibility side condition
(goyang resolves groupings/typedefs of a sibling part only through include statements).
-/

end Goyang.Props.C13c
