/-
C14 — enum values and bit positions are assigned as RFC 7950 §9.6.4.2 / §9.7.4.2 say.

Statements are about the impl model `Goyang.Model.Enum` (a transliteration of `EnumType` and of the
enum/bit loops of `Type.resolve`, tied to the Go code by `harness/cmd/corr-c14`) against the
declarative assignment `Goyang.Spec.Enum` (`table`, `Valid`, `assign`).  A member is a name with an
optional value; `fold` calls `Set` / `SetNext` member by member, skipping a failing member and recording
an error, exactly as the resolve loop and a direct API user do.  `new k` is `NewEnumType()` /
`NewBitfield()`.  Helper lemmas: `Goyang/Lemmas/Enum.lean`.
-/
import Goyang.Lemmas.Enum

namespace Goyang.Props.C14
open Goyang.Model.Enum hiding Name
open Goyang.Spec.Enum
open Goyang.Lemmas.Enum (new toMember LitForm)
open Goyang.Spec.Number (Lit inInt64)

/-- If the Go fold reports no error, the type is valid by the RFC and Go's name→value table is exactly
    the RFC assignment: explicit values kept, implicit = 0 for the first member, else one more than the
    highest earlier value (also below zero). -/
theorem fold_eq_rfc (k : Kind) (ms : List (Name × Option Int))
    (h : (fold (new k) (ms.map toMember)).2 = []) :
    assign k ms = some (table ms) ∧
    (fold (new k) (ms.map toMember)).1.toInt = (table ms).reverse ∧
    (∀ n v, (n, v) ∈ (fold (new k) (ms.map toMember)).1.nameMap ↔ (n, v) ∈ table ms) ∧
    (∀ n v, mapGet (fold (new k) (ms.map toMember)).1.toInt n = some v ↔ (n, v) ∈ table ms) := by
  have sim := Lemmas.Enum.fold_sim k ms (new k) [] 0 (Lemmas.Enum.rel_new k)
  rw [← Lemmas.Enum.table_eq_extend] at sim
  by_cases hV : Valid k (table ms)
  · obtain ⟨_, R⟩ := sim.1 hV
    have hnd : (((fold (new k) (ms.map toMember)).1.toInt).map (·.1)).Nodup := by
      rw [show (fold (new k) (ms.map toMember)).1.toInt = (table ms).reverse from R.toInt, List.map_reverse]
      exact Lemmas.Enum.nodup_reverse _ hV.1
    refine ⟨by simp [assign, hV], R.toInt, ?_, ?_⟩
    · intro n v
      unfold EnumType.nameMap
      rw [Lemmas.Enum.mem_sortBy, show (fold (new k) (ms.map toMember)).1.toInt = (table ms).reverse from R.toInt]
      simp
    · intro n v
      rw [Lemmas.Enum.lookup_of_nodup _ hnd, show (fold (new k) (ms.map toMember)).1.toInt = (table ms).reverse from R.toInt]
      simp
  · exact absurd h (sim.2 hV)

/-- Go reports an error (for some member) exactly when the RFC makes the type invalid: a duplicate
    name, for enumerations a duplicate value, a value outside int32 / a position outside uint32 —
    explicit, or automatic beyond the maximum. -/
theorem fold_error_iff (k : Kind) (ms : List (Name × Option Int)) :
    (fold (new k) (ms.map toMember)).2 ≠ [] ↔ assign k ms = none := by
  have sim := Lemmas.Enum.fold_sim k ms (new k) [] 0 (Lemmas.Enum.rel_new k)
  rw [← Lemmas.Enum.table_eq_extend] at sim
  by_cases hV : Valid k (table ms)
  · have := (sim.1 hV).1
    simp [assign, hV, fold, this]
  · have := sim.2 hV
    simp [assign, hV, fold, this]

example : (fold (new .enumeration) ([([97], some (-5)), ([98], none)].map toMember)).2 = [] := by decide
example : assign .enumeration [([97], some (-5)), ([98], none)] = some [([97], -5), ([98], -4)] := by decide
example : assign .bits [([97], some 2147483647), ([98], none)] = some [([97], 2147483647), ([98], 2147483648)] := by decide
example : assign .enumeration [([97], some 2147483647), ([98], none)] = none := by decide

/-- Whatever calls were made (failing ones included), the name→value and value→name views of an
    enumeration are mutually inverse. -/
theorem views_inverse (ms : List Member) (n : Name) (v : Int) :
    ((n, v) ∈ (fold newEnumType ms).1.nameMap ↔ (v, n) ∈ (fold newEnumType ms).1.valueMap) ∧
    (mapGet (fold newEnumType ms).1.toInt n = some v ↔ mapGet (fold newEnumType ms).1.toString v = some n) := by
  obtain ⟨tbl, R⟩ := Lemmas.Enum.fold_rel .enumeration ms newEnumType 0 ⟨[], Lemmas.Enum.rel_new .enumeration⟩
  refine ⟨?_, Lemmas.Enum.rel_inverse _ tbl R n v⟩
  unfold EnumType.nameMap EnumType.valueMap
  rw [Lemmas.Enum.mem_sortBy, Lemmas.Enum.mem_sortBy,
    show (fold newEnumType ms).1.toInt = tbl.reverse from R.toInt,
    show (fold newEnumType ms).1.toString = (tbl.map fun p => (p.2, p.1)).reverse from R.inv rfl]
  simp only [List.mem_reverse, List.mem_map, Prod.mk.injEq]
  constructor
  · intro h; exact ⟨(n, v), h, rfl, rfl⟩
  · rintro ⟨⟨a, b⟩, h, rfl, rfl⟩; exact h

/-- Whatever calls were made, every stored enum value lies in int32 and every bit position in uint32,
    names are never bound twice, and enum values are never shared. -/
theorem values_in_range (k : Kind) (ms : List Member) :
    (∀ p ∈ (fold (new k) ms).1.toInt, k.min ≤ p.2 ∧ p.2 ≤ k.max) ∧
    (((fold (new k) ms).1.toInt).map (·.1)).Nodup ∧
    (k = .enumeration → (((fold (new k) ms).1.toInt).map (·.2)).Nodup) := by
  obtain ⟨tbl, R⟩ := Lemmas.Enum.fold_rel k ms (new k) 0 ⟨[], Lemmas.Enum.rel_new k⟩
  rw [show (fold (new k) ms).1.toInt = tbl.reverse from R.toInt]
  refine ⟨fun p hp => R.valid.2.2 p (List.mem_reverse.mp hp), ?_, ?_⟩
  · rw [List.map_reverse]; exact Lemmas.Enum.nodup_reverse _ R.valid.1
  · intro hk; rw [List.map_reverse]; exact Lemmas.Enum.nodup_reverse _ (R.valid.2.1 (by rw [hk]; rfl))

/-- An automatic assignment that would exceed the maximum (2^31-1 for enums, 2^32-1 for bit positions —
    not 2^31-1) is an error, in Go (`SetNext`) and by the RFC. -/
theorem implicit_beyond_max (k : Kind) (ms : List (Name × Option Int)) (name : Name)
    (h : (fold (new k) (ms.map toMember)).2 = [])
    (hmax : nextValue ((table ms).map (·.2)) = k.max + 1) :
    (∃ err, (fold (new k) (ms.map toMember)).1.setNext name = .error err) ∧
    assign k (ms ++ [(name, none)]) = none := by
  have sim := Lemmas.Enum.fold_sim k ms (new k) [] 0 (Lemmas.Enum.rel_new k)
  rw [← Lemmas.Enum.table_eq_extend] at sim
  by_cases hV : Valid k (table ms)
  · obtain ⟨_, R⟩ := sim.1 hV
    have hnv : ¬ Valid k (table ms ++ [(name, nextValue ((table ms).map (·.2)))]) := by
      intro hv
      have := ((Lemmas.Enum.valid_snoc k _ name _).mp hv).2.2.2
      omega
    refine ⟨(Lemmas.Enum.setNext_spec k _ (table ms) name R).2 hnv, ?_⟩
    have ht : table (ms ++ [(name, none)]) = table ms ++ [(name, nextValue ((table ms).map (·.2)))] := by
      rw [Lemmas.Enum.table_eq_extend, Lemmas.Enum.table_eq_extend]
      have gen : ∀ (l : List (Name × Option Int)) (tbl : List (Name × Int)),
          Lemmas.Enum.extend tbl (l ++ [(name, none)]) =
            Lemmas.Enum.extend tbl l ++ [(name, nextValue ((Lemmas.Enum.extend tbl l).map (·.2)))] := by
        intro l
        induction l with
        | nil => intro tbl; simp [Lemmas.Enum.extend, valuesFrom]
        | cons p rest ih => intro tbl; rw [List.cons_append, Lemmas.Enum.extend_cons, Lemmas.Enum.extend_cons, ih]
      exact gen ms []
    simp [assign, ht, hnv]
  · exact absurd h (sim.2 hV)

example : (fold (new .bits) ([([97], some 4294967295)].map toMember)).2 = [] := by decide
example : nextValue ((table [([97], some 4294967295)]).map (·.2)) = Kind.bits.max + 1 := by decide

/-- The argument glue of the `set` closure (`ParseInt` then `Int()`): on `[sign] digits` without
    superfluous leading zeros it yields exactly the written integer when that is an int64 and an error
    otherwise — 64-bit literals are never wrapped into range. -/
theorem glue_exact (l : Lit) (h : LitForm l) :
    (inInt64 l.num → parseMember (some l.render) = .explicit l.num) ∧
    (¬ inInt64 l.num → ∃ e, parseMember (some l.render) = .bad e) := by
  rw [Lemmas.Enum.parseMember_lit l h]
  exact ⟨fun hin => by rw [if_pos hin], fun hin => ⟨_, by rw [if_neg hin]⟩⟩

/-- End to end on written members (value / position arguments of the claimed literal form, any
    magnitude): the resolve loop reports an error exactly when the RFC — applied to the integers
    actually written — makes the type invalid, and otherwise builds exactly the RFC table. -/
theorem text_fold (k : Kind) (ms : List (Name × Option Lit))
    (hform : ∀ p ∈ ms, ∀ l, p.2 = some l → LitForm l) :
    ((foldText (new k) (ms.map fun p => (p.1, p.2.map Lit.render))).2 ≠ [] ↔
        assign k (ms.map fun p => (p.1, p.2.map Lit.num)) = none) ∧
    ((foldText (new k) (ms.map fun p => (p.1, p.2.map Lit.render))).2 = [] →
        (foldText (new k) (ms.map fun p => (p.1, p.2.map Lit.render))).1.toInt
          = (table (ms.map fun p => (p.1, p.2.map Lit.num))).reverse) := by
  by_cases hall : ∀ p ∈ ms, ∀ l, p.2 = some l → inInt64 l.num
  · -- every argument parses to the written integer: reduce to the fold over parsed values
    have hmem : (ms.map fun p => (p.1, p.2.map Lit.render)).map (fun x : Name × Option (List UInt8) => ({ name := x.1, val := parseMember x.2 } : Member))
        = (ms.map fun p => (p.1, p.2.map Lit.num)).map toMember := by
      rw [List.map_map, List.map_map]
      apply List.map_congr_left
      intro p hp
      obtain ⟨n, ol⟩ := p
      cases ol with
      | none => rfl
      | some l =>
        have := (glue_exact l (hform _ hp l rfl)).1 (hall _ hp l rfl)
        simp only [Function.comp, Option.map_some, toMember]
        rw [this]
    have hft : foldText (new k) (ms.map fun p => (p.1, p.2.map Lit.render))
        = fold (new k) ((ms.map fun p => (p.1, p.2.map Lit.num)).map toMember) := by
      unfold foldText; rw [← hmem]
    rw [hft]
    exact ⟨fold_error_iff k _, fun h => (fold_eq_rfc k _ h).2.1⟩
  · -- some written integer is not an int64: Go reports it, and it is out of range for the RFC too
    have hex : ∃ p ∈ ms, ∃ l, p.2 = some l ∧ ¬ inInt64 l.num := by
      apply Classical.byContradiction
      intro hno
      apply hall
      intro p hp l hl
      apply Classical.byContradiction
      intro hnin
      exact hno ⟨p, hp, l, hl, hnin⟩
    obtain ⟨p, hp, l, hl, hnin⟩ := hex
    obtain ⟨err, herr⟩ := (glue_exact l (hform p hp l hl)).2 hnin
    have hbad : (foldText (new k) (ms.map fun p => (p.1, p.2.map Lit.render))).2 ≠ [] := by
      unfold foldText fold
      apply Lemmas.Enum.fold_bad
      refine ⟨{ name := p.1, val := parseMember (p.2.map Lit.render) }, ?_, err, ?_⟩
      · simp only [List.map_map, List.mem_map]
        exact ⟨p, hp, rfl⟩
      · simp only [hl, Option.map_some]; exact herr
    have hspec : assign k (ms.map fun p => (p.1, p.2.map Lit.num)) = none := by
      have hin : (p.1, l.num) ∈ table (ms.map fun p => (p.1, p.2.map Lit.num)) := by
        rw [Lemmas.Enum.table_eq_extend]
        apply Lemmas.Enum.explicit_mem_extend
        simp only [List.mem_map]
        exact ⟨p, hp, by simp [hl]⟩
      have : ¬ Valid k (table (ms.map fun p => (p.1, p.2.map Lit.num))) := by
        intro hv
        have hr := hv.2.2 _ hin
        have hb := Lemmas.Enum.kind_bounds k
        apply hnin
        unfold inInt64
        simp only at hr
        omega
      simp [assign, this]
    exact ⟨⟨fun _ => hspec, fun _ => hbad⟩, fun h => absurd h hbad⟩

example : LitForm ⟨some true, [5], none⟩ := ⟨⟨by decide, by decide⟩, by decide, rfl, by decide⟩

/-- Calls made LATER on a table — the table a type statement was resolved to, reached through a leaf, a
    typedef (chain), a union member … — continue the fold of the members that built it: the table after the
    written members `a` followed by the calls `b` is the table of the one sequence `a ++ b`, and so are the
    errors (the calls' errors numbered on from `a.length`).  With `fold_eq_rfc` / `fold_error_iff`: a member
    added after resolution without a value gets one more than the highest value of ALL earlier members,
    the written ones included.  (What `harness/cmd/corr-c14` path `post` checks of the Go tables.) -/
theorem fold_resume (e : EnumType) (a b : List Member) :
    (fold e (a ++ b)).1 = (fold (fold e a).1 b).1 ∧
    (fold e (a ++ b)).2 = (fold e a).2 ++ (fold (fold e a).1 b).2.map fun p => (p.1 + a.length, p.2) := by
  unfold fold
  rw [Lemmas.Enum.foldFrom_append b a e 0, Lemmas.Enum.foldFrom_shift b (foldFrom e 0 a).1 0 a.length]
  exact ⟨rfl, rfl⟩

/-- A resolved table (written members `ws`, no error) on which the calls `cs` succeed holds exactly the RFC
    assignment of `ws ++ cs`. -/
theorem resolved_then_calls_eq_rfc (k : Kind) (ws cs : List (Name × Option Int))
    (hw : (fold (new k) (ws.map toMember)).2 = [])
    (hc : (fold (fold (new k) (ws.map toMember)).1 (cs.map toMember)).2 = []) :
    assign k (ws ++ cs) = some (table (ws ++ cs)) ∧
    (fold (fold (new k) (ws.map toMember)).1 (cs.map toMember)).1.toInt = (table (ws ++ cs)).reverse := by
  have r := fold_resume (new k) (ws.map toMember) (cs.map toMember)
  rw [← List.map_append] at r
  have h : (fold (new k) ((ws ++ cs).map toMember)).2 = [] := by rw [r.2, hw, hc]; rfl
  have q := fold_eq_rfc k (ws ++ cs) h
  exact ⟨q.1, by rw [← r.1]; exact q.2.1⟩

example : (fold (fold (new .enumeration) ([([97], none), ([98], none), ([99], some 7)].map toMember)).1
    ([([110], none)].map toMember)).1.toInt = [([110], 8), ([99], 7), ([98], 1), ([97], 0)] := by decide

end Goyang.Props.C14
