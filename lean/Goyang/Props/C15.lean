/-
C15 — numbers print, parse, convert and compare as exact decimal arithmetic does.

Statements are about the impl model `Goyang.Model.Number` (a transliteration of the Go code, tied to
it by `harness/cmd/corr-c15`) against `Goyang.Spec.Number`:  ⟦n⟧ = `den n` = ±value / 10^fd  (a `Rat`).
Domains: `WF` (64-bit magnitude, fd ≤ 18) for order/equality; `WFInt` (fd = 0, 64-bit magnitude with
sign) and `WFDec` (1 ≤ fd ≤ 18, signed 64-bit mantissa) for print/parse.
Helper lemmas: `Goyang/Lemmas/Number*.lean`.
-/
import Goyang.Lemmas.NumberPrint
import Goyang.Lemmas.NumberRat

namespace Goyang.Props.C15
open Goyang.Model.Number
open Goyang.Spec.Number
open Goyang.Lemmas.Number (toLit)

/-- `Less` never panics on well-formed numbers and is the strict order of the denoted rationals —
    mixed fraction digits, the extremes and negative zero included. -/
theorem less_iff (n m : Number) (hn : WF n) (hm : WF m) :
    less? n m = some (less n m) ∧ (less n m = true ↔ den n < den m) := by
  have hp := Lemmas.Number.lessPanics_false n m (by have := hn.2; omega) (by have := hm.2; omega)
  exact ⟨by simp [less?, hp], (Lemmas.Number.less_iff n m hn hm).trans (Lemmas.Number.den_lt_iff n m).symm⟩

example : WF ⟨18446744073709551615, 18, true⟩ ∧ WF ⟨0, 0, true⟩ := by decide

/-- `Equal` is equality of the denoted rationals (so `-0 = 0`, `1.50 = 1.5`). -/
theorem equal_iff (n m : Number) (hn : WF n) (hm : WF m) :
    equal? n m = some (equal n m) ∧ (equal n m = true ↔ den n = den m) := by
  have hp := Lemmas.Number.lessPanics_false n m (by have := hn.2; omega) (by have := hm.2; omega)
  have hq := Lemmas.Number.lessPanics_false m n (by have := hm.2; omega) (by have := hn.2; omega)
  exact ⟨by simp [equal?, hp, hq], (Lemmas.Number.equal_iff n m hn hm).trans (Lemmas.Number.den_eq_iff n m).symm⟩

example : WF ⟨15, 1, false⟩ ∧ WF ⟨150, 2, false⟩ ∧ WF ⟨0, 18, true⟩ := by decide

/-- `Int` returns the exact value or an error, never a wrapped value: it succeeds with `i` exactly when
    the number is an integer whose value `i` lies in the int64 range.  (Any magnitude, also ≥ 2^64.) -/
theorem int_exact (n : Number) (i : Int) : toInt n = .ok i ↔ toInt64 n = some i := by
  rw [Lemmas.Number.toInt_eq n]
  unfold toInt64
  by_cases hfd : n.fd = 0 <;> by_cases hin : inInt64 (num n) <;> simp [hfd, hin]

/-- `Int` fails exactly for decimals and for values outside the int64 range. -/
theorem int_error_iff (n : Number) : (∃ e, toInt n = .error e) ↔ (n.fd ≠ 0 ∨ ¬ inInt64 (num n)) := by
  rw [Lemmas.Number.toInt_eq n]
  by_cases hfd : n.fd = 0 <;> by_cases hin : inInt64 (num n) <;> simp [hfd, hin]

/-- a successful `Int` is the denoted rational, and lies in the int64 range -/
theorem int_den (n : Number) (i : Int) (h : toInt n = .ok i) : (i : Rat) = den n ∧ inInt64 i := by
  have h' := (int_exact n i).mp h
  unfold toInt64 at h'
  split at h'
  · next hc => cases h'; exact ⟨(Lemmas.Number.den_int n hc.1).symm, hc.2⟩
  · cases h'

example : toInt ⟨9223372036854775808, 0, true⟩ = .ok (-9223372036854775808) := by decide

/-- `FromInt` of an int64 is the integer with exactly that value. -/
theorem fromInt_exact (i : Int) (h : inInt64 i) :
    WFInt (fromInt i) ∧ num (fromInt i) = i ∧ den (fromInt i) = (i : Rat) := by
  have hH : (H : Int) = 9223372036854775808 := rfl
  unfold inInt64 at h
  have e := Lemmas.Number.fromInt_eq i (by omega) (by omega)
  have hn : num (fromInt i) = i := by
    rw [e]; unfold num
    by_cases hi : i < 0
    · simp only [hi, decide_true, if_true]; omega
    · simp only [hi, decide_false, Bool.false_eq_true, if_false]; omega
  refine ⟨?_, hn, ?_⟩
  · rw [e]; unfold WFInt; simp; omega
  · rw [Lemmas.Number.den_int _ (by rw [e]), hn]

example : inInt64 (-9223372036854775808) := by decide

/-- `FromUint` of a uint64 is the integer with exactly that value. -/
theorem fromUint_exact (u : Nat) (h : u < 2 ^ 64) :
    WFInt (fromUint u) ∧ den (fromUint u) = (u : Rat) := by
  refine ⟨⟨rfl, h⟩, ?_⟩
  rw [Lemmas.Number.den_int _ rfl]; simp [num, fromUint]

example : (18446744073709551615 : Nat) < 2 ^ 64 := by decide

/-- `String` does not panic for fd ≤ 18 and prints a literal `[-] digits [. digits]` (both digit strings
    non-empty, exactly fd fraction digits) that denotes exactly ⟦n⟧. -/
theorem print_exact (n : Number) (h : n.fd ≤ 18) :
    toStr? n = some (toStr n) ∧
    ∃ l : Lit, toStr n = l.render ∧ l.digitsOK ∧ l.proper ∧ l.scale = n.fd ∧ l.den = den n := by
  refine ⟨by simp [toStr?, Lemmas.Number.toStrPanics_false n h], toLit n, Lemmas.Number.toStr_eq_render n h,
    Lemmas.Number.toLit_digitsOK n, Lemmas.Number.toLit_proper n, Lemmas.Number.toLit_scale n, ?_⟩
  unfold Lit.den den Lit.num num
  rw [Lemmas.Number.toLit_scale, Lemmas.Number.toLit_mant, Lemmas.Number.toLit_neg]

example : (⟨5, 18, true⟩ : Number).fd ≤ 18 := by decide

/-- print/parse round trip, integers: every integer of 64-bit magnitude with sign (also `-0`) parses back
    to the identical number. -/
theorem print_parse_int (n : Number) (h : WFInt n) : parseInt (toStr n) = .ok n :=
  Lemmas.Number.print_parse_int n h

example : WFInt ⟨18446744073709551615, 0, true⟩ := by decide

/-- print/parse round trip, decimal64: printing and parsing back at the same precision gives a number
    with the same fraction digits that is `Equal` to, and denotes the same rational as, the original
    (it is the original, except that negative zero comes back as zero). -/
theorem print_parse (n : Number) (h : WFDec n) :
    ∃ n', parseDecimal (toStr n) n.fd = .ok n' ∧ n'.fd = n.fd ∧ n'.value = n.value ∧
      equal n' n = true ∧ den n' = den n := by
  refine ⟨_, Lemmas.Number.print_parse_dec n h, rfl, rfl, ?_⟩
  have hw : WF n := by
    obtain ⟨_, h2, h3⟩ := h
    refine ⟨?_, h2⟩
    split at h3 <;> omega
  have hw' : WF { n with neg := n.neg && n.value != 0 } := hw
  have hden : den { n with neg := n.neg && n.value != 0 } = den n := by
    unfold den num
    by_cases h0 : n.value = 0
    · simp [h0]
    · simp [h0]
  exact ⟨((equal_iff _ _ hw' hw).2).mpr hden, hden⟩

example : WFDec ⟨9223372036854775808, 18, true⟩ ∧ WFDec ⟨0, 1, true⟩ ∧ WFDec ⟨9223372036854775807, 1, false⟩ := by
  decide

/-- the bound of the 64-bit mantissa for a literal scaled to `f` fraction digits -/
def fits (l : Lit) (f : Nat) : Prop :=
  if l.neg then l.mant * 10 ^ (f - l.scale) ≤ 2 ^ 63 else l.mant * 10 ^ (f - l.scale) < 2 ^ 63

/-- `ParseDecimal` on a literal `[sign] digits [. digits]` (leading zeros allowed; the theorem even covers
    an empty digit string on one side of the dot) at precision 1 ≤ f ≤ 18: the result is the decimal64
    number denoting exactly the literal's value, and it is an error exactly when more than `f` fraction
    digits are written or the mantissa scaled to `f` digits does not fit a signed 64-bit integer. -/
theorem parseDecimal_exact (l : Lit) (f : Nat) (hd : l.digitsOK) (hne : l.ip ≠ [] ∨ l.fp ≠ none)
    (hf1 : 1 ≤ f) (hf2 : f ≤ 18) :
    (∀ n, parseDecimal l.render f = .ok n → n.fd = f ∧ WFDec n ∧ den n = l.den) ∧
    ((∃ e, parseDecimal l.render f = .error e) ↔ (l.scale > f ∨ ¬ fits l f)) := by
  rw [Lemmas.Number.parseDecimal_render l f hd hne hf1 hf2]
  unfold fits parseDecimalSpec
  by_cases hsc : l.scale > f
  · simp [hsc]
  · simp only [hsc, if_false, false_or]
    by_cases hfit : (if l.neg then l.mant * 10 ^ (f - l.scale) ≤ 2 ^ 63 else l.mant * 10 ^ (f - l.scale) < 2 ^ 63)
    · rw [if_pos hfit]
      simp only [hfit, not_true_eq_false, iff_false]
      refine ⟨?_, by simp⟩
      intro n hn
      simp only [Except.ok.injEq] at hn
      subst hn
      refine ⟨rfl, ⟨hf1, hf2, ?_⟩, ?_⟩
      · simp only
        by_cases hneg : l.neg = true
        · rw [if_pos hneg] at hfit
          by_cases h0 : l.mant * 10 ^ (f - l.scale) = 0
          · simp [h0]
          · have : (l.neg && l.mant * 10 ^ (f - l.scale) != 0) = true := by simp [hneg, h0]
            rw [if_pos this]; exact hfit
        · rw [if_neg hneg] at hfit
          have : ¬ (l.neg && l.mant * 10 ^ (f - l.scale) != 0) = true := by simp [hneg]
          rw [if_neg this]; exact hfit
      · -- denotations: ±(mant·10^(f-scale)) / 10^f = ±mant / 10^scale
        have hk : (10 : Rat) ^ (f - l.scale) ≠ 0 := pow_ne_zero _ (by norm_num)
        have hpow : (10 : Rat) ^ f = (10 : Rat) ^ (f - l.scale) * (10 : Rat) ^ l.scale := by
          rw [← pow_add]; congr 1; omega
        have key : ∀ a : Rat, a * 10 ^ (f - l.scale) / 10 ^ f = a / 10 ^ l.scale := by
          intro a; rw [hpow, mul_comm a, mul_div_mul_left _ _ hk]
        unfold den Lit.den num Lit.num
        simp only
        by_cases hneg : l.neg = true
        · by_cases h0 : l.mant * 10 ^ (f - l.scale) = 0
          · have hm0 : l.mant = 0 := by
              rcases Nat.mul_eq_zero.mp h0 with h | h
              · exact h
              · exact absurd h (Nat.pos_iff_ne_zero.mp (Nat.pow_pos (by decide)))
            simp [hm0]
          · have : (l.neg && l.mant * 10 ^ (f - l.scale) != 0) = true := by simp [hneg, h0]
            rw [if_pos this, if_pos hneg]
            push_cast
            rw [← neg_mul, key]
        · have : ¬ (l.neg && l.mant * 10 ^ (f - l.scale) != 0) = true := by simp [hneg]
          rw [if_neg this, if_neg hneg]
          push_cast
          rw [key]
    · rw [if_neg hfit]
      simp only [hfit, not_false_eq_true, iff_true]
      exact ⟨by simp, ⟨_, rfl⟩⟩

example : (⟨some true, [9, 2], some [2, 3]⟩ : Lit).digitsOK ∧ (⟨some true, [9, 2], some [2, 3]⟩ : Lit).ip ≠ [] := by
  refine ⟨⟨by decide, by decide⟩, by decide⟩

/-- `ParseInt` on `[sign] digits` without superfluous leading zeros: the integer denoting exactly the
    literal's value, and an error exactly when the magnitude does not fit 64 bits.
    (With a leading zero Go's base-0 syntax reads octal; that is outside the claimed literal form and
    covered by the correspondence run only.) -/
theorem parseInt_exact (l : Lit) (hd : l.digitsOK) (hip : l.ip ≠ []) (hfp : l.fp = none) (hz : l.noLeadingZero) :
    (∀ n, parseInt l.render = .ok n → WFInt n ∧ den n = l.den) ∧
    ((∃ e, parseInt l.render = .error e) ↔ ¬ l.mant < 2 ^ 64) := by
  rw [Lemmas.Number.parseInt_render l hd hip hfp hz]
  unfold parseIntSpec
  by_cases hw : l.mant < 2 ^ 64
  · simp only [hw, if_true, not_true_eq_false, iff_false]
    refine ⟨?_, by simp⟩
    intro n hn
    simp only [Except.ok.injEq] at hn
    subst hn
    refine ⟨⟨rfl, hw⟩, ?_⟩
    unfold den Lit.den num Lit.num Lit.scale
    simp [hfp]
  · simp only [hw, if_false, not_false_eq_true, iff_true]
    exact ⟨by simp, ⟨_, rfl⟩⟩

example : (⟨some true, [1, 0], none⟩ : Lit).digitsOK ∧ (⟨some true, [1, 0], none⟩ : Lit).ip ≠ [] ∧
    (⟨some true, [1, 0], none⟩ : Lit).noLeadingZero := by
  refine ⟨⟨by decide, by decide⟩, by decide, by decide⟩

/-- `asRangeInt` (fraction-digits, enum values, bit positions …) on an integer literal of the stated
    form: it returns `i` exactly when the literal's value is `i` and `lo ≤ i ≤ hi`; no wrap-around
    whatever the magnitude written. -/
theorem asRangeInt_exact (l : Lit) (lo hi i : Int) (hd : l.digitsOK) (hip : l.ip ≠ []) (hfp : l.fp = none)
    (hz : l.noLeadingZero) (hlo : inInt64 lo) (hhi : inInt64 hi) :
    asRangeInt (some l.render) lo hi = .ok i ↔ (l.num = i ∧ lo ≤ i ∧ i ≤ hi) := by
  unfold asRangeInt
  simp only
  rw [Lemmas.Number.parseInt_render l hd hip hfp hz]
  unfold parseIntSpec
  by_cases hw : l.mant < 2 ^ 64
  · simp only [hw, if_true]
    rw [Lemmas.Number.toInt_eq]
    have hnum : num { value := l.mant, fd := 0, neg := l.neg } = l.num := rfl
    simp only [ne_eq, not_true_eq_false, if_false, hnum]
    by_cases hin : inInt64 l.num
    · simp only [hin, if_true]
      by_cases hr : l.num < lo ∨ l.num > hi
      · have : (decide (l.num < lo) || decide (l.num > hi)) = true := by simpa using hr
        simp only [this, if_true]
        constructor
        · intro h; cases h
        · rintro ⟨rfl, h1, h2⟩; omega
      · have : (decide (l.num < lo) || decide (l.num > hi)) = false := by simpa using hr
        simp only [this, Bool.false_eq_true, if_false, Except.ok.injEq]
        constructor
        · intro h; subst h; omega
        · rintro ⟨h, _, _⟩; exact h
    · simp only [hin, if_false]
      constructor
      · intro h; cases h
      · rintro ⟨rfl, h1, h2⟩
        exfalso; apply hin
        unfold inInt64 at hlo hhi ⊢; omega
  · simp only [hw, if_false]
    constructor
    · intro h; cases h
    · rintro ⟨rfl, h1, h2⟩
      exfalso; apply hw
      have : l.num.natAbs = l.mant := by unfold Lit.num; split <;> simp
      unfold inInt64 at hlo hhi
      omega

example : inInt64 1 ∧ inInt64 18 ∧ (⟨none, [1, 8], none⟩ : Lit).noLeadingZero := by decide

end Goyang.Props.C15
