/-
C16 — reported source positions are the true positions (DESIGN.md 7.16), lexer/parser part.
Statement positions are a field of the forest compared in `Goyang.Props.C02`; the theorems here
say what those positions are.
-/
import Goyang.Model.Parse
import Goyang.Spec.Parse

namespace Goyang.Props.C16
open Goyang.Spec.Parse

/-- The reference reader gives every statement the position of the first character of its keyword,
computed from the text alone: line = 1 + line feeds before it, column = 1 + characters since the
last line feed. -/
theorem spec_statement_position (text : List Char) (f : Nat) (k : PTok) (ts r : List PTok) (s : Stmt)
    (h : stmt text f (k :: ts) = some (s, r)) :
    s.line = 1 + (text.take k.off).count '\n' ∧
    s.col = 1 + (lastLine (text.take k.off)).length := by
  cases f with
  | zero => simp [stmt] at h
  | succ f =>
    unfold stmt at h
    split at h
    · split at h
      · cases h
      · rename_i arg ts' _
        split at h
        · rename_i e r'
          split at h
          · injection h with h; injection h with h1 _; subst h1; exact ⟨rfl, rfl⟩
          · split at h
            · split at h
              · split at h
                · injection h with h; injection h with h1 _; subst h1; exact ⟨rfl, rfl⟩
                · cases h
              · cases h
            · cases h
        · cases h
    · cases h

end Goyang.Props.C16
