/-
C16 — reported source positions are the true positions (DESIGN.md 7.16), lexer/parser part.

Proved here, for every Unicode text without the constructs C02 excludes:
* `statement_positions_true`: every statement generic parsing returns (the whole forest, nested
  statements included) reports the file name handed to `Parse` and the line and column — both
  1-based, columns counted in characters — of the first character of its keyword, whatever mixture
  of tabs, multi-byte characters, comments, multi-line strings and CR LF precedes it.  (The positions
  are a field of the forest of `Goyang.Props.C02.parse_refines_spec`; `TruePos` says what they are.)
* `lexical_fault_rejected`: an unterminated quote or comment, an undefined backslash pair, a
  misplaced token always make the parse fail with a non-empty error (it is never swallowed).

* `syntax_error_position` (and one named theorem per kind of fault): for a text with a single
  lexical or syntactic fault the first error line names the file, the class of the fault and the
  line and column, computed from the text alone, of the offending token, backslash or opener.
-/
import Goyang.Props.C02
import Goyang.Lemmas.Positions
import Goyang.Spec.Fault
import Goyang.Lemmas.ErrPosFault

namespace Goyang.Props.C16
open Goyang.Spec.Parse Goyang.Model.Parse
open Goyang.Props.C02 (utf8 encForest)
open Goyang.Lemmas.Positions (TruePos)
open Goyang.Spec.Fault

/-- The reference reader gives every statement the position of its keyword token, computed from the
text alone: line = 1 + line feeds before it, column = 1 + characters since the last line feed. -/
theorem spec_statement_position (text : List Char) (f : Nat) (k : PTok) (ts r : List PTok) (s : Stmt)
    (h : stmt text f (k :: ts) = some (s, r)) :
    s.line = 1 + (text.take k.off).count '\n' ∧
    s.col = 1 + (lastLine (text.take k.off)).length := by
  cases f with
  | zero => simp [stmt] at h
  | succ f =>
    unfold stmt at h
    split at h
    · split at h
      · cases h
      · rename_i arg ts' _
        split at h
        · rename_i e r'
          split at h
          · injection h with h; injection h with h1 _; subst h1; exact ⟨rfl, rfl⟩
          · split at h
            · split at h
              · split at h
                · injection h with h; injection h with h1 _; subst h1; exact ⟨rfl, rfl⟩
                · cases h
              · cases h
            · cases h
        · cases h
    · cases h

/-- ... and that token is the keyword: every statement of the reference reader's forest, at any
depth, stands at the first character of its keyword (`TruePos`: an offset inside the text at which
the keyword — a non-empty run of characters up to the next delimiter — begins, `line` and `col`
counted from the text before that offset). -/
theorem spec_positions_are_keyword_starts (text : List Char) (forest : List Stmt)
    (h : parse text = some forest) : ∀ s ∈ forest, TruePos text s :=
  Goyang.Lemmas.Positions.parse_truePos text forest h

/-- **C16, first sentence.**  Whenever generic parsing accepts a text, the forest it returns is the
reference reader's forest with the file name added: every statement, nested ones included, reports
`file`, and the line and column of the first character of its keyword. -/
theorem statement_positions_true (file : List UInt8) (t : List Char) (ha : Admissible t = true)
    (forest : List Statement) (h : parseText file (utf8 t) = .ok forest) :
    ∃ ss, parse t = some ss ∧ forest = encForest file ss ∧ ∀ s ∈ ss, TruePos t s := by
  have hr := Goyang.Props.C02.parse_refines_spec file t ha
  cases hp : parse t with
  | some ss =>
    rw [hp] at hr
    simp only at hr
    rw [hr] at h
    injection h with h
    exact ⟨ss, rfl, h.symm, spec_positions_are_keyword_starts t ss hp⟩
  | none =>
    rw [hp] at hr
    simp only at hr
    obtain ⟨msgs, _, hm⟩ := hr
    rw [hm] at h
    cases h

/-- the statements of the model's forest carry the file name they were parsed under -/
theorem statement_file (file : List UInt8) (s : Stmt) :
    (Goyang.Lemmas.ListSrc.encStmt file s).file = file ∧
    (Goyang.Lemmas.ListSrc.encStmt file s).line = s.line ∧ (Goyang.Lemmas.ListSrc.encStmt file s).col = s.col := by
  obtain ⟨kw, arg, line, col, subs⟩ := s
  simp [Goyang.Lemmas.ListSrc.encStmt]

/-- A text with a lexical or syntactic fault is always rejected with a non-empty error. -/
theorem lexical_fault_rejected (file : List UInt8) (t : List Char) (ha : Admissible t = true)
    (h : parse t = none) : ∃ msgs, msgs ≠ [] ∧ parseText file (utf8 t) = .rejected msgs := by
  have hr := Goyang.Props.C02.parse_refines_spec file t ha
  rw [h] at hr
  exact hr

/-! ## C16, second sentence: a syntax error names the position of the offending token

`Goyang.Spec.Fault` says, over the reference reader alone, what a text with a single lexical or
syntactic fault is (`SingleFault t k off`: reading the tokens by the statement grammar nothing is
wrong before offset `off`, and there stands an unexpected `}` / a token that is neither `;` nor `{`
behind an argument / a quoted string where a keyword must stand / an undefined backslash pair in an
argument outside a `pattern` statement / the opener of a quote or comment that is never closed).
The theorems below say: the model rejects such a text and its FIRST error line — which is a
positioned one — carries the file name, the class of the fault and exactly the line and column,
computed from the text alone (`lineOf t off`, `colOf t off`), of the offending token, backslash or
opener.

Proof (`Goyang/Lemmas/`): `HeadSim` (two token sources in step make the parser write the same
first error line), `LexKeepsH` + `LexHead` (`ground_head`: the line the lexer model writes first at
an unterminated quote/comment or an undefined pair is the line `lexErr` computes from the text),
`ErrPos` (`first_error`: first error line of `parseText` = first error line of the parser model
over the reference reader's tokens), `ListFault` (`stuck_sound`: over those tokens the first error
line is the one `Stuck` names), `FaultNL`/`LexErrSpec`/`DqBound`/`StuckOff` (the line feed `newLexer`
appends changes nothing), `ErrPosFault` (assembly).

What "single" excludes (each would be a second fault, and the model then reports that one first):
an undefined backslash pair in what the one-token look-ahead of string concatenation reads behind a
quoted token at the fault (`Goyang.Spec.Fault.lookahead`), and an undefined pair inside a
double-quoted string that is also unterminated.  The end-of-input reports `unexpected EOF` and
`missing N closing braces` are outside the claim, as the property says. -/

/-- the class of error line for a fault of kind `k` -/
abbrev classOf : FaultKind → Goyang.Model.Lex.ErrClass := Goyang.Lemmas.ListFault.faultClass

/-- the first error line that prints a `line:col` -/
def firstPositioned (msgs : List Goyang.Model.Lex.ErrLine) : Option Goyang.Model.Lex.ErrLine :=
  msgs.find? (fun e => e.pos.isSome)

/-- For a text whose quotes and comments are closed, `AdmissibleScan` is `Admissible`; in general it
is the stronger of the two. -/
theorem admissibleScan_of_tokenize (t : List Char) (toks : List PTok) (h : tokenize t = some toks) :
    AdmissibleScan t = Admissible t := by
  unfold AdmissibleScan Admissible
  rw [h, Goyang.Lemmas.ErrPosFault.scanStop_of_tokenize t toks h]

theorem admissible_of_admissibleScan (t : List Char) (h : AdmissibleScan t = true) : Admissible t = true := by
  cases ht : tokenize t with
  | none => unfold Admissible; rw [ht]
  | some toks => rw [← admissibleScan_of_tokenize t toks ht]; exact h

/-- **C16, second sentence.**  For every Unicode text with a single lexical or syntactic fault of
kind `k` at character offset `off` (the tokens in front of the point where the tokenizer stops
being free of the constructs C02 excludes): generic parsing rejects the text, and the first error
line — the first positioned one in particular — names the file, the class of the fault and the
line and column (1-based, in characters, computed from the text alone) of the offending token,
backslash or opener. -/
theorem syntax_error_position (file : List UInt8) (t : List Char) (ha : AdmissibleScan t = true)
    (k : FaultKind) (off : Nat) (h : SingleFault t k off) :
    ∃ e rest, parseText file (utf8 t) = .rejected (e :: rest) ∧ firstPositioned (e :: rest) = some e ∧
      e.file = file ∧ e.pos = some (((lineOf t off : Nat) : Int), ((colOf t off : Nat) : Int)) ∧ e.cls = classOf k := by
  obtain ⟨msgs, h1, h2⟩ := Goyang.Lemmas.ErrPosFault.single_fault_first_error file t k off ha h
  rw [Goyang.Props.C02.utf8_eq] at h1
  cases msgs with
  | nil => cases h2
  | cons e rest =>
    simp only [List.head?_cons, Option.some.injEq] at h2
    refine ⟨e, rest, h1, ?_, ?_, ?_, ?_⟩
    · unfold firstPositioned
      rw [List.find?_cons, h2]
      rfl
    · rw [h2]; rfl
    · rw [h2]; rfl
    · rw [h2]; rfl

/-- a text whose quotes and comments are closed: `Admissible` is enough -/
theorem syntax_error_position_tokens (file : List UInt8) (t : List Char) (ha : Admissible t = true)
    (k : FaultKind) (off : Nat) (toks : List PTok) (ht : tokenize t = some toks) (h : SingleFault t k off) :
    ∃ e rest, parseText file (utf8 t) = .rejected (e :: rest) ∧ firstPositioned (e :: rest) = some e ∧
      e.file = file ∧ e.pos = some (((lineOf t off : Nat) : Int), ((colOf t off : Nat) : Int)) ∧ e.cls = classOf k :=
  syntax_error_position file t (by rw [admissibleScan_of_tokenize t toks ht]; exact ha) k off h

/-- an unexpected `}` between two top-level statements: `unexpected }` at the brace -/
theorem syntax_error_position_rbrace (file : List UInt8) (t : List Char) (ha : Admissible t = true)
    (toks : List PTok) (ht : tokenize t = some toks) (off : Nat)
    (h : Stuck t .top toks (.fault .unexpectedRBrace off)) :
    ∃ e rest, parseText file (utf8 t) = .rejected (e :: rest) ∧ firstPositioned (e :: rest) = some e ∧
      e.file = file ∧ e.pos = some (((lineOf t off : Nat) : Int), ((colOf t off : Nat) : Int)) ∧
      e.cls = .unexpectedRBrace :=
  syntax_error_position_tokens file t ha .unexpectedRBrace off toks ht ⟨toks, ht, h⟩

/-- a missing `;` or `{`: `syntax error, expected ';' or '{'` at the token standing in its place -/
theorem syntax_error_position_missing_semicolon (file : List UInt8) (t : List Char) (ha : Admissible t = true)
    (toks : List PTok) (ht : tokenize t = some toks) (off : Nat)
    (h : Stuck t .top toks (.fault .missingSemi off)) :
    ∃ e rest, parseText file (utf8 t) = .rejected (e :: rest) ∧ firstPositioned (e :: rest) = some e ∧
      e.file = file ∧ e.pos = some (((lineOf t off : Nat) : Int), ((colOf t off : Nat) : Int)) ∧
      e.cls = .expectedSemiOrBrace :=
  syntax_error_position_tokens file t ha .missingSemi off toks ht ⟨toks, ht, h⟩

/-- a quoted string where a keyword must stand: `keyword token not an unquoted string` at its opening quote -/
theorem syntax_error_position_quoted_keyword (file : List UInt8) (t : List Char) (ha : Admissible t = true)
    (toks : List PTok) (ht : tokenize t = some toks) (off : Nat)
    (h : Stuck t .top toks (.fault .quotedKeyword off)) :
    ∃ e rest, parseText file (utf8 t) = .rejected (e :: rest) ∧ firstPositioned (e :: rest) = some e ∧
      e.file = file ∧ e.pos = some (((lineOf t off : Nat) : Int), ((colOf t off : Nat) : Int)) ∧
      e.cls = .keywordNotUnquoted :=
  syntax_error_position_tokens file t ha .quotedKeyword off toks ht ⟨toks, ht, h⟩

/-- an undefined backslash pair in a double-quoted argument: `invalid escape sequence` at the backslash -/
theorem syntax_error_position_bad_escape (file : List UInt8) (t : List Char) (ha : Admissible t = true)
    (toks : List PTok) (ht : tokenize t = some toks) (off : Nat)
    (h : Stuck t .top toks (.fault .badEscape off)) :
    ∃ e rest, parseText file (utf8 t) = .rejected (e :: rest) ∧ firstPositioned (e :: rest) = some e ∧
      e.file = file ∧ e.pos = some (((lineOf t off : Nat) : Int), ((colOf t off : Nat) : Int)) ∧
      e.cls = .invalidEscape :=
  syntax_error_position_tokens file t ha .badEscape off toks ht ⟨toks, ht, h⟩

/-- an unterminated single- or double-quoted string: `missing closing '` / `"` at the opening quote -/
theorem syntax_error_position_unterminated_string (file : List UInt8) (t : List Char) (ha : AdmissibleScan t = true)
    (off : Nat) (h : SingleFault t .unterminatedSQuote off ∨ SingleFault t .unterminatedDQuote off) :
    ∃ e rest, parseText file (utf8 t) = .rejected (e :: rest) ∧ firstPositioned (e :: rest) = some e ∧
      e.file = file ∧ e.pos = some (((lineOf t off : Nat) : Int), ((colOf t off : Nat) : Int)) ∧
      (e.cls = .missingSQuote ∨ e.cls = .missingDQuote) := by
  rcases h with h | h
  · obtain ⟨e, rest, h1, h2, h3, h4, h5⟩ := syntax_error_position file t ha _ off h
    exact ⟨e, rest, h1, h2, h3, h4, Or.inl h5⟩
  · obtain ⟨e, rest, h1, h2, h3, h4, h5⟩ := syntax_error_position file t ha _ off h
    exact ⟨e, rest, h1, h2, h3, h4, Or.inr h5⟩

/-- an unterminated block comment: `missing closing */` at the `/` of its opener -/
theorem syntax_error_position_unterminated_comment (file : List UInt8) (t : List Char) (ha : AdmissibleScan t = true)
    (off : Nat) (h : SingleFault t .unterminatedComment off) :
    ∃ e rest, parseText file (utf8 t) = .rejected (e :: rest) ∧ firstPositioned (e :: rest) = some e ∧
      e.file = file ∧ e.pos = some (((lineOf t off : Nat) : Int), ((colOf t off : Nat) : Int)) ∧
      e.cls = .missingCommentEnd :=
  syntax_error_position file t ha _ off h

/-! ## the hypotheses are satisfiable -/

set_option maxRecDepth 20000 in
/-- on the example of `Props/C02.lean`: `b` stands on line 2 behind a tab, in column 2 -/
example : parseText [102] (utf8 Goyang.Props.C02.exampleText) =
    .ok (encForest [102] Goyang.Props.C02.exampleForest) := by rfl

set_option maxRecDepth 8000 in
example : Admissible Goyang.Props.C02.exampleText = true := by decide

/-- a rejected text (`a {`): the hypothesis of `lexical_fault_rejected` holds of it -/
example : parse ['a', ' ', '{'] = none ∧ Admissible ['a', ' ', '{'] = true := ⟨by rfl, by decide⟩

/-! ### single faults: each kind has a witness, and the model reports the stated position on it -/

/-- `a ; }` : the stray `}` stands at offset 4 = line 1, column 5 -/
example : SingleFault ['a', ' ', ';', ' ', '}'] .unexpectedRBrace 4 :=
  ⟨[⟨.unq ['a'], 0⟩, ⟨.semi, 2⟩, ⟨.rbrace, 4⟩], by rfl,
    .later .top ⟨.unq ['a'], 0⟩ [⟨.semi, 2⟩, ⟨.rbrace, 4⟩] ⟨['a'], none, 1, 1, []⟩ [⟨.rbrace, 4⟩] _
      (by decide) (by decide) (by rfl) (.rbrace ⟨.rbrace, 4⟩ [] rfl)⟩
example : Admissible ['a', ' ', ';', ' ', '}'] = true := by decide
set_option maxRecDepth 8000 in
example : parseText [102] (utf8 ['a', ' ', ';', ' ', '}']) =
    .rejected [⟨[102], some (1, 5), .unexpectedRBrace⟩] := by rfl

/-- `a b c ;` : `c` stands where `;` or `{` must stand, offset 4 -/
example : SingleFault ['a', ' ', 'b', ' ', 'c', ' ', ';'] .missingSemi 4 :=
  ⟨[⟨.unq ['a'], 0⟩, ⟨.unq ['b'], 2⟩, ⟨.unq ['c'], 4⟩, ⟨.semi, 6⟩], by rfl,
    .first .top _ _ _ (by decide) (by decide)
      (.noTerm ⟨.unq ['a'], 0⟩ ['a'] [⟨.unq ['b'], 2⟩, ⟨.unq ['c'], 4⟩, ⟨.semi, 6⟩] (some ['b']) ⟨.unq ['c'], 4⟩
        [⟨.semi, 6⟩] rfl (by rfl) (by decide) (by decide) (fun h => by cases h))⟩
example : Admissible ['a', ' ', 'b', ' ', 'c', ' ', ';'] = true := by decide
set_option maxRecDepth 8000 in
example : ∃ rest, parseText [102] (utf8 ['a', ' ', 'b', ' ', 'c', ' ', ';']) =
    .rejected (⟨[102], some (1, 5), .expectedSemiOrBrace⟩ :: rest) := ⟨_, by rfl⟩

/-- `"a" b;` : a quoted string where the keyword must stand, offset 0 -/
example : SingleFault ['"', 'a', '"', ' ', 'b', ';'] .quotedKeyword 0 :=
  ⟨[⟨.dq [.lit 'a'], 0⟩, ⟨.unq ['b'], 4⟩, ⟨.semi, 5⟩], by rfl,
    .first .top _ _ _ (by decide) (by decide)
      (.keyword ⟨.dq [.lit 'a'], 0⟩ [⟨.unq ['b'], 4⟩, ⟨.semi, 5⟩] rfl (by decide))⟩
example : Admissible ['"', 'a', '"', ' ', 'b', ';'] = true := by decide
set_option maxRecDepth 8000 in
example : ∃ rest, parseText [102] (utf8 ['"', 'a', '"', ' ', 'b', ';']) =
    .rejected (⟨[102], some (1, 1), .keywordNotUnquoted⟩ :: rest) := ⟨_, by rfl⟩

/-- `a "x\q";` : the undefined pair `\q` begins at offset 4 -/
example : SingleFault ['a', ' ', '"', 'x', '\\', 'q', '"', ';'] .badEscape 4 :=
  ⟨[⟨.unq ['a'], 0⟩, ⟨.dq [.lit 'x', .esc 'q'], 2⟩, ⟨.semi, 7⟩], by rfl,
    .first .top _ _ _ (by decide) (by decide)
      (.escape ⟨.unq ['a'], 0⟩ ['a'] [⟨.dq [.lit 'x', .esc 'q'], 2⟩, ⟨.semi, 7⟩] ⟨.dq [.lit 'x', .esc 'q'], 2⟩
        [.lit 'x', .esc 'q'] rfl (by decide) (.here _ _ rfl) rfl)⟩
example : Admissible ['a', ' ', '"', 'x', '\\', 'q', '"', ';'] = true := by decide
set_option maxRecDepth 8000 in
example : ∃ rest, parseText [102] (utf8 ['a', ' ', '"', 'x', '\\', 'q', '"', ';']) =
    .rejected (⟨[102], some (1, 5), .invalidEscape⟩ :: rest) := ⟨_, by rfl⟩

/-- `a 'x` : the single quote at offset 2 is never closed -/
example : SingleFault ['a', ' ', '\'', 'x'] .unterminatedSQuote 2 :=
  ⟨[⟨.unq ['a'], 0⟩], [' ', '\'', 'x'], by rfl,
    .first .top _ _ _ (by decide) (by decide) (.argEnds ⟨.unq ['a'], 0⟩ ['a'] [] rfl .nil),
    ⟨['x'], by rfl, by rfl, by rfl⟩⟩
example : AdmissibleScan ['a', ' ', '\'', 'x'] = true := by decide
set_option maxRecDepth 8000 in
example : ∃ rest, parseText [102] (utf8 ['a', ' ', '\'', 'x']) =
    .rejected (⟨[102], some (1, 3), .missingSQuote⟩ :: rest) := ⟨_, by rfl⟩

/-- `a "x` : the double quote at offset 2 is never closed -/
example : SingleFault ['a', ' ', '"', 'x'] .unterminatedDQuote 2 :=
  ⟨[⟨.unq ['a'], 0⟩], [' ', '"', 'x'], by rfl,
    .first .top _ _ _ (by decide) (by decide) (.argEnds ⟨.unq ['a'], 0⟩ ['a'] [] rfl .nil),
    ⟨['x'], by rfl, by rfl, by rfl, by rfl⟩⟩
example : AdmissibleScan ['a', ' ', '"', 'x'] = true := by decide
set_option maxRecDepth 8000 in
example : ∃ rest, parseText [102] (utf8 ['a', ' ', '"', 'x']) =
    .rejected (⟨[102], some (1, 3), .missingDQuote⟩ :: rest) := ⟨_, by rfl⟩

/-- `a { b /* x` : inside a block, behind a keyword, the comment opened at offset 6 is never closed -/
example : SingleFault ['a', ' ', '{', ' ', 'b', ' ', '/', '*', ' ', 'x'] .unterminatedComment 6 :=
  ⟨[⟨.unq ['a'], 0⟩, ⟨.lbrace, 2⟩, ⟨.unq ['b'], 4⟩], [' ', '/', '*', ' ', 'x'], by rfl,
    .first .top _ _ _ (by decide) (by decide)
      (.block ⟨.unq ['a'], 0⟩ ['a'] [⟨.lbrace, 2⟩, ⟨.unq ['b'], 4⟩] none ⟨.lbrace, 2⟩ [⟨.unq ['b'], 4⟩] _ rfl (by rfl) rfl
        (.first .block _ _ _ (by decide) (by decide) (.argEnds ⟨.unq ['b'], 4⟩ ['b'] [] rfl .nil))),
    ⟨by rfl, 4, by rfl, by rfl⟩⟩
example : AdmissibleScan ['a', ' ', '{', ' ', 'b', ' ', '/', '*', ' ', 'x'] = true := by decide
set_option maxRecDepth 8000 in
example : ∃ rest, parseText [102] (utf8 ['a', ' ', '{', ' ', 'b', ' ', '/', '*', ' ', 'x']) =
    .rejected (⟨[102], some (1, 7), .missingCommentEnd⟩ :: rest) := ⟨_, by rfl⟩

/-- a fault that is not at the beginning: line 2, behind a tab and a well-formed statement with a
`pattern` whose backslash pair is not a fault -/
example : SingleFault ['p', 'a', 't', 't', 'e', 'r', 'n', ' ', '"', '\\', 'd', '"', ';', '\n', '\t', 'a', ' ', 'b', ' ', '}']
    .missingSemi 19 :=
  ⟨[⟨.unq ['p', 'a', 't', 't', 'e', 'r', 'n'], 0⟩, ⟨.dq [.esc 'd'], 8⟩, ⟨.semi, 12⟩, ⟨.unq ['a'], 15⟩, ⟨.unq ['b'], 17⟩,
      ⟨.rbrace, 19⟩], by rfl,
    .later .top _ _ ⟨['p', 'a', 't', 't', 'e', 'r', 'n'], some ['\\', 'd'], 1, 1, []⟩
      [⟨.unq ['a'], 15⟩, ⟨.unq ['b'], 17⟩, ⟨.rbrace, 19⟩] _ (by decide) (by decide) (by rfl)
      (.first .top _ _ _ (by decide) (by decide)
        (.noTerm ⟨.unq ['a'], 15⟩ ['a'] [⟨.unq ['b'], 17⟩, ⟨.rbrace, 19⟩] (some ['b']) ⟨.rbrace, 19⟩ [] rfl (by rfl)
          (by decide) (by decide) (fun h => by cases h)))⟩
set_option maxRecDepth 20000 in
example : ∃ rest, parseText [102]
    (utf8 ['p', 'a', 't', 't', 'e', 'r', 'n', ' ', '"', '\\', 'd', '"', ';', '\n', '\t', 'a', ' ', 'b', ' ', '}']) =
    .rejected (⟨[102], some (2, 6), .expectedSemiOrBrace⟩ :: rest) := ⟨_, by rfl⟩

end Goyang.Props.C16
