/-
C16 — reported source positions are the true positions (DESIGN.md 7.16), lexer/parser part.

Proved here, for every Unicode text without the constructs C02 excludes:
* `statement_positions_true`: every statement generic parsing returns (the whole forest, nested
  statements included) reports the file name handed to `Parse` and the line and column — both
  1-based, columns counted in characters — of the first character of its keyword, whatever mixture
  of tabs, multi-byte characters, comments, multi-line strings and CR LF precedes it.  (The positions
  are a field of the forest of `Goyang.Props.C02.parse_refines_spec`; `TruePos` says what they are.)
* `lexical_fault_rejected`: an unterminated quote or comment, an undefined backslash pair, a
  misplaced token always make the parse fail with a non-empty error (it is never swallowed).

Not proved (kept visible below): `syntax_error_position`.
-/
import Goyang.Props.C02
import Goyang.Lemmas.Positions

namespace Goyang.Props.C16
open Goyang.Spec.Parse Goyang.Model.Parse
open Goyang.Props.C02 (utf8 encForest)
open Goyang.Lemmas.Positions (TruePos)

/-- The reference reader gives every statement the position of its keyword token, computed from the
text alone: line = 1 + line feeds before it, column = 1 + characters since the last line feed. -/
theorem spec_statement_position (text : List Char) (f : Nat) (k : PTok) (ts r : List PTok) (s : Stmt)
    (h : stmt text f (k :: ts) = some (s, r)) :
    s.line = 1 + (text.take k.off).count '\n' ∧
    s.col = 1 + (lastLine (text.take k.off)).length := by
  cases f with
  | zero => simp [stmt] at h
  | succ f =>
    unfold stmt at h
    split at h
    · split at h
      · cases h
      · rename_i arg ts' _
        split at h
        · rename_i e r'
          split at h
          · injection h with h; injection h with h1 _; subst h1; exact ⟨rfl, rfl⟩
          · split at h
            · split at h
              · split at h
                · injection h with h; injection h with h1 _; subst h1; exact ⟨rfl, rfl⟩
                · cases h
              · cases h
            · cases h
        · cases h
    · cases h

/-- ... and that token is the keyword: every statement of the reference reader's forest, at any
depth, stands at the first character of its keyword (`TruePos`: an offset inside the text at which
the keyword — a non-empty run of characters up to the next delimiter — begins, `line` and `col`
counted from the text before that offset). -/
theorem spec_positions_are_keyword_starts (text : List Char) (forest : List Stmt)
    (h : parse text = some forest) : ∀ s ∈ forest, TruePos text s :=
  Goyang.Lemmas.Positions.parse_truePos text forest h

/-- **C16, first sentence.**  Whenever generic parsing accepts a text, the forest it returns is the
reference reader's forest with the file name added: every statement, nested ones included, reports
`file`, and the line and column of the first character of its keyword. -/
theorem statement_positions_true (file : List UInt8) (t : List Char) (ha : Admissible t = true)
    (forest : List Statement) (h : parseText file (utf8 t) = .ok forest) :
    ∃ ss, parse t = some ss ∧ forest = encForest file ss ∧ ∀ s ∈ ss, TruePos t s := by
  have hr := Goyang.Props.C02.parse_refines_spec file t ha
  cases hp : parse t with
  | some ss =>
    rw [hp] at hr
    simp only at hr
    rw [hr] at h
    injection h with h
    exact ⟨ss, rfl, h.symm, spec_positions_are_keyword_starts t ss hp⟩
  | none =>
    rw [hp] at hr
    simp only at hr
    obtain ⟨msgs, _, hm⟩ := hr
    rw [hm] at h
    cases h

/-- the statements of the model's forest carry the file name they were parsed under -/
theorem statement_file (file : List UInt8) (s : Stmt) :
    (Goyang.Lemmas.ListSrc.encStmt file s).file = file ∧
    (Goyang.Lemmas.ListSrc.encStmt file s).line = s.line ∧ (Goyang.Lemmas.ListSrc.encStmt file s).col = s.col := by
  obtain ⟨kw, arg, line, col, subs⟩ := s
  simp [Goyang.Lemmas.ListSrc.encStmt]

/-- A text with a lexical or syntactic fault is always rejected with a non-empty error. -/
theorem lexical_fault_rejected (file : List UInt8) (t : List Char) (ha : Admissible t = true)
    (h : parse t = none) : ∃ msgs, msgs ≠ [] ∧ parseText file (utf8 t) = .rejected msgs := by
  have hr := Goyang.Props.C02.parse_refines_spec file t ha
  rw [h] at hr
  exact hr

/-! ## not proved

```
theorem syntax_error_position (file : List UInt8) (t : List Char) (ha : Admissible t)
    (k : FaultKind) (off : Nat) (h : SingleFault t k off) :
    ∃ e rest, parseText file (utf8 t) = .rejected (… e …) ∧ firstPositioned … = e ∧
      e.pos = some (lineOf t off, colOf t off) ∧ e.cls = classOf k
```
(for a text with a single lexical or syntactic fault of the listed kinds — unexpected `}`, missing
`;`/`{`, a quoted string where a keyword must stand, an undefined backslash pair, an unterminated
quote or comment — the first positioned error line names the position, computed from the text
alone, of the offending token, backslash or opener).

What is missing: the simulation of `Goyang/Lemmas/` follows implementation and reference reader in
lockstep only up to the first error written (`Sim`, `Outcome`: "an error has been written"); it does
not say *which* error line.  The ingredients are there — the lexer lemmas give `line`/`col` of the
cursor against `lineAfter`/`colAfter` of the text read, the list source of `Lemmas/ListSrc.lean`
already carries the exact position of the first undefined pair (`escErr`, `firstBadOff`), and
`nextStatement_rbrace` gives the position of a stray `}` — but the relation `Sim` would have to
carry "both error lists have the same head", which was not done.  This part of C16 rests on the
correspondence run: the single-fault injector (exact position of the first positioned error against
`spec.pos`) and, on every rejected text, the oracle `spec.marks` (every positioned error stands at a
token / `}` / undefined-pair backslash / unterminated opener computed by `Goyang.Spec.Parse.marks`).
-/

/-! ## the hypotheses are satisfiable -/

set_option maxRecDepth 20000 in
/-- on the example of `Props/C02.lean`: `b` stands on line 2 behind a tab, in column 2 -/
example : parseText [102] (utf8 Goyang.Props.C02.exampleText) =
    .ok (encForest [102] Goyang.Props.C02.exampleForest) := by rfl

set_option maxRecDepth 8000 in
example : Admissible Goyang.Props.C02.exampleText = true := by decide

/-- a rejected text (`a {`): the hypothesis of `lexical_fault_rejected` holds of it -/
example : parse ['a', ' ', '{'] = none ∧ Admissible ['a', ' ', '{'] = true := ⟨by rfl, by decide⟩

end Goyang.Props.C16
